(* Proofs for C04 / C05 (statements are restated in Properties/Properties_C04.v, Properties_C05.v). *)
Require Import LV.Common.Bytes LV.Model.SmModel LV.Spec.SmSpec.
From Coq Require Import Permutation Sorting.Sorted.
Require Import Lia ZifyBool.
Ltac Zify.zify_post_hook ::= Z.div_mod_to_equations.
Local Open Scope Z_scope.

(* the texts are never computed with in the proofs *)
Global Opaque R_TEXT a_text resume_text enable_text END_TEXT.

(* ------------------------------------------------------------------ generalities *)
Lemma gfold_app g a b : gfold g (a ++ b) = gfold (gfold g a) b.
Proof. unfold gfold. apply fold_left_app. Qed.
Lemma gfold_cons g o l : gfold g (o :: l) = gfold (gout g o) l.
Proof. reflexivity. Qed.
Lemma gfold_nil g : gfold g [] = g.
Proof. reflexivity. Qed.

Definition silent (o : out) : bool := match o with OG _ => false | _ => true end.
Lemma gfold_silent g l : forallb silent l = true -> gfold g l = g.
Proof.
  revert g; induction l as [|o l IH]; intros g H; [reflexivity|].
  cbn in H. apply andb_true_iff in H as [H1 H2]. rewrite gfold_cons, IH by exact H2.
  destruct o; try discriminate; reflexivity.
Qed.

Lemma w32_idem x : w32 (w32 x) = w32 x.
Proof. unfold w32, W32. apply Z.mod_mod. lia. Qed.
Lemma w32_succ x : w32 (w32 x + 1) = w32 (x + 1).
Proof. unfold w32, W32. rewrite Zplus_mod_idemp_l. reflexivity. Qed.
Lemma w32_small x : 0 <= x < W32 -> w32 x = x.
Proof. unfold w32. intros. apply Z.mod_small. lia. Qed.
Lemma w32_range x : 0 <= w32 x < W32.
Proof. unfold w32, W32. apply Z.mod_pos_bound. lia. Qed.

(* ------------------------------------------------------------------ _send_raw *)
(* what _send_raw changes: the send queue, r_sent, the id counter; it only fires the SM callback *)
Definition upd_send (st st' : state) : Prop :=
  st' = set_next_gid (set_r_sent (set_sq st (sq st')) (r_sent st')) (next_gid st').

Lemma upd_send_refl st : upd_send st st.
Proof. unfold upd_send. destruct st; reflexivity. Qed.

Lemma send_raw_upd st g o t rs : upd_send st (fst (send_raw_ st g o t rs)).
Proof.
  unfold send_raw_, upd_send. destruct (countable _ && sm_enabled _ && negb (r_sent _)); destruct st; reflexivity.
Qed.

Lemma send_raw_silent st g o t rs : forallb silent (snd (send_raw_ st g o t rs)) = true.
Proof. unfold send_raw_. destruct (countable _ && sm_enabled _ && negb (r_sent _)); reflexivity. Qed.

Lemma send_raw_spec st g o t rs :
  exists q r n tail,
    fst (send_raw_ st g o t rs) = set_next_gid (set_r_sent (set_sq st q) r) n /\
    q = sq st ++ mk_sqe g (eff_owner st o) t 0 rs :: tail /\
    forallb (fun e => negb (countable (q_owner e))) tail = true /\
    next_gid st <= n /\
    Forall (fun e => next_gid st <= q_gid e < n) tail /\
    forallb silent (snd (send_raw_ st g o t rs)) = true.
Proof.
  unfold send_raw_. destruct (countable _ && sm_enabled _ && negb (r_sent _)) eqn:E; cbn.
  - exists (sq st ++ [mk_sqe g (eff_owner st o) t 0 rs] ++ [mk_sqe (next_gid st) OSm R_TEXT 0 false]), true, (next_gid st + 1),
           [mk_sqe (next_gid st) OSm R_TEXT 0 false].
    split; [destruct st; cbn; rewrite <- app_assoc; reflexivity|].
    split; [reflexivity|]. split; [reflexivity|]. split; [lia|].
    split; [|reflexivity]. constructor; [cbn; lia|constructor].
  - exists (sq st ++ [mk_sqe g (eff_owner st o) t 0 rs]), (r_sent st), (next_gid st), [].
    split; [destruct st; reflexivity|].
    split; [reflexivity|]. split; [reflexivity|]. split; [lia|].
    split; [constructor|reflexivity].
Qed.

(* ------------------------------------------------------------------ the connection handler's script *)
Lemma setters_collapse st q1 r1 n1 q2 r2 n2 :
  set_next_gid (set_r_sent (set_sq (set_next_gid (set_r_sent (set_sq st q1) r1) n1) q2) r2) n2 =
  set_next_gid (set_r_sent (set_sq st q2) r2) n2.
Proof. destruct st; reflexivity. Qed.

Lemma gset_subm_twice g a b : gset_subm (gset_subm g (g_subm g ++ a)) (g_subm (gset_subm g (g_subm g ++ a)) ++ b) =
                              gset_subm g (g_subm g ++ a ++ b).
Proof. destruct g; cbn. rewrite <- app_assoc. reflexivity. Qed.

Lemma user_send_spec st t :
  exists q r n ids,
    fst (user_send st t) = set_next_gid (set_r_sent (set_sq st q) r) n /\
    (forall g, gfold g (snd (user_send st t)) = gset_subm g (g_subm g ++ ids)) /\
    next_gid st <= n.
Proof.
  unfold user_send. destruct (connected st && neg_done st).
  - destruct (send_raw_spec (set_next_gid st (next_gid st + 1)) (next_gid st) OUser t false)
      as (q & r & n & tl & E & _ & _ & Hn & _ & S).
    destruct (send_raw_ (set_next_gid st (next_gid st + 1)) (next_gid st) OUser t false) as [st1 o1].
    cbn [fst snd] in *. exists q, r, n, [next_gid st]. split; [rewrite E; destruct st; reflexivity|]. split.
    + intros g. rewrite gfold_cons. cbn [gout gapply]. apply gfold_silent, S.
    + cbn in Hn. lia.
  - exists (sq st), (r_sent st), (next_gid st), []. split; [destruct st; reflexivity|]. split; [|lia].
    intros g. cbn. rewrite app_nil_r. destruct g; reflexivity.
Qed.

Lemma script_spec l st :
  exists q r n ids,
    fst (run_script l st) = set_next_gid (set_r_sent (set_sq st q) r) n /\
    (forall g, gfold g (snd (run_script l st)) = gset_subm g (g_subm g ++ ids)) /\
    next_gid st <= n.
Proof.
  revert st; induction l as [|t l IH]; intros st.
  - exists (sq st), (r_sent st), (next_gid st), []. split; [destruct st; reflexivity|]. split; [|lia].
    intros g. cbn. rewrite app_nil_r. destruct g; reflexivity.
  - cbn [run_script]. destruct (user_send_spec st t) as (q1 & r1 & n1 & ids1 & E1 & G1 & H1).
    destruct (user_send st t) as [st1 o1]. cbn [fst snd] in *.
    destruct (IH st1) as (q2 & r2 & n2 & ids2 & E2 & G2 & H2).
    destruct (run_script l st1) as [st2 o2]. cbn [fst snd] in *.
    exists q2, r2, n2, (ids1 ++ ids2). split; [rewrite E2, E1; apply setters_collapse|]. split.
    + intros g. rewrite gfold_app, G1, G2. apply gset_subm_twice.
    + rewrite E1 in H2. cbn in H2. lia.
Qed.

(* ------------------------------------------------------------------ C05 and the activity flag: holds on every history *)
Definition inv1 (s : sys) : Prop :=
  sm_enabled (fst s) = g_active (snd s) /\
  handled_nr (fst s) = w32 (g_in (snd s)) /\
  g_a (snd s) = g_r (snd s).

(* marks that do not touch g_active / g_in / g_a / g_r *)
Definition quiet1 (o : out) : bool :=
  match o with
  | OG (GSubmit _) | OG (GDone _ _) | OG (GRelease _) | OG (GAck _) | OG GEnabled | OG (GDiscard _ _) | OG (GResumeOut _) => true
  | OG _ => false
  | _ => true
  end.

Definition gv1 (g : ghost) := (g_active g, g_in g, g_a g, g_r g).

Lemma gfold_quiet1 g l : forallb quiet1 l = true -> gv1 (gfold g l) = gv1 g.
Proof.
  revert g; induction l as [|o l IH]; intros g H; [reflexivity|].
  cbn in H. apply andb_true_iff in H as [H1 H2]. rewrite gfold_cons, IH by exact H2.
  destruct o as [| | | |m]; try reflexivity. destruct m; try discriminate; cbn; try reflexivity.
  destruct numbered; reflexivity.
Qed.

Lemma silent_quiet1 l : forallb silent l = true -> forallb quiet1 l = true.
Proof.
  induction l as [|o l IH]; [reflexivity|]. cbn. intros H. apply andb_true_iff in H as [H1 H2].
  rewrite IH by exact H2. destruct o; try discriminate; reflexivity.
Qed.

Lemma forallb_app' {A} (f : A -> bool) a b : forallb f (a ++ b) = forallb f a && forallb f b.
Proof. apply forallb_app. Qed.

(* ------------------------------------------------------------------ frames of the recursive pieces *)
Lemma resend_frame l st :
  exists q r n,
    fst (resend l st) = set_next_gid (set_r_sent (set_sq (set_smq st (match l with [] => smq st | _ => [] end)) q) r) n /\
    forallb silent (snd (resend l st)) = true.
Proof.
  revert st; induction l as [|e l IH]; intros st.
  - exists (sq st), (r_sent st), (next_gid st). split; [destruct st; reflexivity|reflexivity].
  - cbn [resend]. cbn [connected set_smq].
    destruct (connected st) eqn:Ec.
    + destruct (send_raw_spec (set_smq st l) (s_gid e) (s_owner e) (s_text e) true)
        as (q1 & r1 & n1 & tl & E1 & _ & _ & _ & _ & S1).
      destruct (send_raw_ (set_smq st l) (s_gid e) (s_owner e) (s_text e) true) as [st1 o1] eqn:Es.
      cbn [fst snd] in E1, S1.
      destruct (IH st1) as (q2 & r2 & n2 & E2 & S2).
      destruct (resend l st1) as [st2 o2] eqn:Er. cbn [fst snd] in *.
      exists q2, r2, n2. split.
      * rewrite E2, E1. destruct l; destruct st; reflexivity.
      * rewrite forallb_app, S1, S2. reflexivity.
    + destruct (IH (set_smq st l)) as (q2 & r2 & n2 & E2 & S2).
      destruct (resend l (set_smq st l)) as [st2 o2] eqn:Er. cbn [fst snd] in *.
      exists q2, r2, n2. split.
      * rewrite E2. destruct l; destruct st; reflexivity.
      * exact S2.
Qed.

Lemma wloop_frame q sched st :
  exists q' m n,
    fst (fst (fst (wloop q sched st))) = set_sent_nr (set_smq (set_sq st q') m) n /\
    forallb quiet1 (snd (fst (fst (wloop q sched st)))) = true.
Proof.
  revert sched st; induction q as [|e rest IH]; intros sched st.
  - exists [], (smq st), (sent_nr st). split; [destruct st; reflexivity|reflexivity].
  - cbn [wloop].
    destruct (next_send sched (zlen (q_text e) - q_written e)) as [[ret err] sched'].
    destruct (ret =? zlen (q_text e) - q_written e).
    + destruct (countable (q_owner e) && sm_enabled (set_sq st rest)) eqn:Ec.
      * match goal with |- context[wloop rest sched' ?s] => destruct (IH sched' s) as (q' & m & n & E & Q);
          destruct (wloop rest sched' s) as [[[st2 o] er] sl] end.
        cbn [fst snd] in *. exists q', m, n. split; [rewrite E; destruct st; reflexivity|].
        cbn. exact Q.
      * match goal with |- context[wloop rest sched' ?s] => destruct (IH sched' s) as (q' & m & n & E & Q);
          destruct (wloop rest sched' s) as [[[st2 o] er] sl] end.
        cbn [fst snd] in *. exists q', m, n. split; [rewrite E; destruct st; reflexivity|].
        destruct (countable (q_owner e)); cbn; exact Q.
    + destruct (0 <? ret); cbn [fst snd].
      * exists (mk_sqe (q_gid e) (q_owner e) (q_text e) (q_written e + ret) (q_resend e) :: rest), (smq st), (sent_nr st).
        split; [destruct st; reflexivity|reflexivity].
      * exists (e :: rest), (smq st), (sent_nr st). split; [destruct st; reflexivity|reflexivity].
Qed.

(* ------------------------------------------------------------------ counting *)
Definition cnt (l : list Z) (x : Z) : nat := count_occ Z.eq_dec l x.
Lemma cnt_app l1 l2 x : cnt (l1 ++ l2) x = (cnt l1 x + cnt l2 x)%nat.
Proof. apply count_occ_app. Qed.
Lemma cnt_nil x : cnt [] x = 0%nat.
Proof. reflexivity. Qed.
Lemma cnt_cons y l x : cnt (y :: l) x = ((if Z.eq_dec y x then 1 else 0) + cnt l x)%nat.
Proof. unfold cnt. cbn. destruct (Z.eq_dec y x); reflexivity. Qed.
Lemma cnt_fresh l x b : Forall (fun y => y < b) l -> b <= x -> cnt l x = 0%nat.
Proof.
  intros F H. apply count_occ_not_In. intros I. rewrite Forall_forall in F. apply F in I. lia.
Qed.

Definition cq (e : sqe) : bool := countable (q_owner e).
Lemma sqc_app a b : map q_gid (filter cq (a ++ b)) = map q_gid (filter cq a) ++ map q_gid (filter cq b).
Proof. rewrite filter_app, map_app. reflexivity. Qed.
Lemma filter_none {A} (f : A -> bool) l : forallb (fun e => negb (f e)) l = true -> filter f l = [].
Proof.
  induction l as [|a l IH]; [reflexivity|]. cbn. intros H. apply andb_true_iff in H as [H1 H2].
  destruct (f a); [discriminate|]. apply IH, H2.
Qed.

(* ------------------------------------------------------------------ invariants that hold on every history *)
Definition flags1 (st : state) : Prop :=
  (connected st = true -> h_feat st = true -> sm_enabled st = false /\ h_bind st = false /\ h_sm st = false) /\
  (connected st = false -> sm_enabled st = false).
Definition nolib (st : state) : Prop :=
  Forall (fun e => q_owner e <> OLib) (sq st) /\ Forall (fun e => s_owner e = OUser) (smq st).
Definition fresh (s : sys) : Prop :=
  Forall (fun x => x < next_gid (fst s)) (g_subm (snd s)).
Definition conserved_c (s : sys) : Prop :=
  forall x,
    cnt (g_subm (snd s)) x =
      (cnt (sqc (fst s)) x + cnt (smqg (fst s)) x + cnt (g_done (snd s)) x + cnt (g_plain (snd s)) x +
       cnt (g_disc_fresh (snd s)) x + cnt (g_disc_resent (snd s)) x)%nat /\
    (cnt (g_subm (snd s)) x <= 1)%nat.
Definition G1 (s : sys) : Prop :=
  inv1 s /\ flags1 (fst s) /\ nolib (fst s) /\ fresh s /\ conserved_c s.


Arguments cnt : simpl never.
Ltac cs I1 := let x := fresh "x" in intros x; specialize (I1 x); revert I1; unfold sqc, sq_countable, smqg, cq; cbn; rewrite ?map_app, ?cnt_app; cbn; rewrite ?cnt_cons, ?cnt_nil; try lia.
Ltac gn := repeat (cbn [app gout cb] in *; rewrite ?gfold_app, ?gfold_cons, ?gfold_nil in * ).
(* the ghost fields that the marks of the write loop can touch *)
Lemma wloop_g1 q sched st g :
  let r := wloop q sched st in
  let st' := fst (fst (fst r)) in
  let g' := gfold g (snd (fst (fst r))) in
  (forall x, (cnt (map q_gid (filter cq q)) x + cnt (smqg st) x + cnt (g_plain g) x)%nat =
             (cnt (sqc st') x + cnt (smqg st') x + cnt (g_plain g') x)%nat) /\
  g_subm g' = g_subm g /\ g_done g' = g_done g /\ g_disc_fresh g' = g_disc_fresh g /\ g_disc_resent g' = g_disc_resent g /\
  gv1 g' = gv1 g /\
  (Forall (fun e => q_owner e <> OLib) q -> Forall (fun e => q_owner e <> OLib) (sq st')) /\
  (Forall (fun e => q_owner e <> OLib) q -> Forall (fun e => s_owner e = OUser) (smq st) ->
   Forall (fun e => s_owner e = OUser) (smq st')).
Proof.
  revert sched st g; induction q as [|e rest IH]; intros sched st g; cbn zeta.
  - cbn [wloop fst snd]. rewrite gfold_nil. unfold sqc, sq_countable, smqg. cbn.
    repeat split; auto.
  - cbn [wloop].
    destruct (next_send sched (zlen (q_text e) - q_written e)) as [[ret err] sched'].
    destruct (ret =? zlen (q_text e) - q_written e).
    + destruct (countable (q_owner e) && sm_enabled (set_sq st rest)) eqn:Ec.
      * apply andb_true_iff in Ec as [Ec1 Ec2].
        match goal with |- context[wloop rest sched' ?s] =>
          specialize (IH sched' s (gfold g [OG (GDone (q_gid e) true)]));
          destruct (wloop rest sched' s) as [[[st2 o] er] sl] end.
        cbn [fst snd] in *. cbn zeta in IH.
        destruct IH as (I1 & I2 & I3 & I4 & I5 & I6 & I7 & I8).
        gn. cbn [gapply] in *.
        repeat split; try assumption.
        -- unfold cq in *. cbn [filter]. rewrite Ec1. cs I1.
        -- intros F. inversion F; subst. auto.
        -- intros F F2. inversion F; subst. apply I8; [assumption|]. cbn. apply Forall_app. split; [assumption|].
           constructor; [|constructor]. cbn. destruct (q_owner e); try reflexivity; [contradiction|discriminate].
      * match goal with |- context[wloop rest sched' ?s] =>
          specialize (IH sched' s (gfold g (if countable (q_owner e) then [OG (GDone (q_gid e) false)] else [])));
          destruct (wloop rest sched' s) as [[[st2 o] er] sl] end.
        cbn [fst snd] in *. cbn zeta in IH.
        destruct IH as (I1 & I2 & I3 & I4 & I5 & I6 & I7 & I8).
        destruct (countable (q_owner e)) eqn:Eq.
        -- cbn in Ec. gn. cbn [gapply] in *.
           repeat split; try assumption.
           ++ unfold cq in *. cbn [filter]. rewrite Eq. cs I1.
           ++ intros F. inversion F; subst. auto.
           ++ intros F F2. inversion F; subst. apply I8; assumption.
        -- gn.
           repeat split; try assumption.
           ++ unfold cq in *. cbn [filter]. rewrite Eq. cs I1.
           ++ intros F. inversion F; subst. auto.
           ++ intros F F2. inversion F; subst. apply I8; assumption.
    + destruct (0 <? ret); cbn [fst snd]; gn;
        (split; [intros x; unfold sqc, sq_countable, smqg, cq; cbn; destruct (countable (q_owner e)); reflexivity|];
         repeat (split; [reflexivity|]);
         split; [intros F; inversion F; subst; cbn; constructor; auto | intros F F2; exact F2]).
Qed.

Lemma resend_g1 l st :
  connected st = true -> Forall (fun e => s_owner e = OUser) l ->
  let st' := fst (resend l st) in
  sqc st' = sqc st ++ map s_gid l /\
  (Forall (fun e => q_owner e <> OLib) (sq st) -> Forall (fun e => q_owner e <> OLib) (sq st')) /\
  next_gid st <= next_gid st'.
Proof.
  revert st; induction l as [|e l IH]; intros st C F; cbn zeta.
  - cbn. rewrite app_nil_r. repeat split; auto. lia.
  - cbn [resend]. cbn [connected set_smq]. rewrite C.
    inversion F as [|? ? Fe Fl]; subst.
    destruct (send_raw_spec (set_smq st l) (s_gid e) (s_owner e) (s_text e) true)
      as (q1 & r1 & n1 & tl & E1 & Eq & Tl & Hn & _ & S1).
    destruct (send_raw_ (set_smq st l) (s_gid e) (s_owner e) (s_text e) true) as [st1 o1] eqn:Es.
    cbn [fst snd] in E1, S1.
    assert (C1 : connected st1 = true) by (rewrite E1; cbn; exact C).
    specialize (IH st1 C1 Fl). cbn zeta in IH.
    destruct (resend l st1) as [st2 o2] eqn:Er. cbn [fst snd] in *.
    destruct IH as (I1 & I2 & I3).
    assert (Eo : eff_owner (set_smq st l) (s_owner e) = OUser) by (rewrite Fe; reflexivity).
    rewrite Eo in Eq.
    split; [|split].
    + rewrite I1. rewrite E1. unfold sqc, sq_countable. cbn [sq set_next_gid set_r_sent set_sq]. rewrite Eq.
      cbn [sq set_smq]. fold cq. rewrite filter_app. cbn [filter]. unfold cq at 2. cbn [q_owner countable].
      fold cq. rewrite (filter_none cq tl Tl). rewrite map_app. cbn [map q_gid]. rewrite <- app_assoc. cbn [app]. reflexivity.
    + intros Fq. apply I2. rewrite E1. cbn [sq set_next_gid set_r_sent set_sq]. rewrite Eq. cbn [sq set_smq].
      apply Forall_app. split; [exact Fq|]. constructor; [cbn; discriminate|].
      clear - Tl. induction tl as [|a tl IHt]; [constructor|]. cbn in Tl. apply andb_true_iff in Tl as [T1 T2].
      constructor; [|apply IHt, T2]. destruct (q_owner a); cbn in T1; try discriminate.
    + rewrite E1 in I3. cbn in I3. cbn in Hn. lia.
Qed.

(* ------------------------------------------------------------------ symbolic execution helpers *)
Ltac abs_send :=
  match goal with
  | |- context[send_raw_ ?st ?g ?o ?t ?r] =>
      let q := fresh "q" in let r1 := fresh "r" in let n := fresh "n" in let tl := fresh "tl" in
      let E := fresh "E" in let Eq := fresh "Eq" in let Tl := fresh "Tl" in let Hn := fresh "Hn" in let S := fresh "S" in
      destruct (send_raw_spec st g o t r) as (q & r1 & n & tl & E & Eq & Tl & Hn & _ & S);
      let st1 := fresh "st" in let o1 := fresh "o" in
      destruct (send_raw_ st g o t r) as [st1 o1]; cbn [fst snd] in E, S; subst st1
  end.
Ltac abs_resend :=
  match goal with
  | |- context[resend ?l ?st] =>
      let q := fresh "q" in let r1 := fresh "r" in let n := fresh "n" in
      let E := fresh "E" in let S := fresh "S" in
      destruct (resend_frame l st) as (q & r1 & n & E & S);
      let st1 := fresh "st" in let o1 := fresh "o" in
      destruct (resend l st) as [st1 o1]; cbn [fst snd] in E, S; subst st1
  end.
Ltac unf := unfold dispatch, fire, sm_handle, handle_sm, handle_bind, handle_features in *;
  unfold sm_enable, do_bind, xmpp_disconnect, stream_end in *;
  unfold send_lib, neg_success, sm_err, reset_sm_state, mark_in, disconnect, do_connect, cb, user_send in *.
Ltac gsil := repeat match goal with
  | H : forallb silent ?o = true |- context[gfold ?g ?o] => rewrite (gfold_silent g o H)
  | H : forall g, gfold g ?o = _ |- context[gfold ?g0 ?o] => rewrite (H g0)
  end.
Ltac abs_script :=
  match goal with
  | |- context[run_script ?l ?st] =>
      let q := fresh "q" in let r1 := fresh "r" in let n := fresh "n" in let ids := fresh "ids" in
      let E := fresh "E" in let G := fresh "Gs" in let Hn := fresh "Hn" in
      destruct (script_spec l st) as (q & r1 & n & ids & E & G & Hn);
      let st1 := fresh "st" in let o1 := fresh "o" in
      destruct (run_script l st) as [st1 o1]; cbn [fst snd] in E, G; subst st1
  end.
Ltac brk :=
  match goal with
  | |- context[run_script _ _] => abs_script
  | |- context[send_raw_ _ _ _ _ _] => abs_send
  | |- context[resend _ _] => abs_resend
  | |- context[let '(_, _) := cleanup ?l ?h in _] => destruct (cleanup l h) eqn:?
  | |- context[if ?b then _ else _] => destruct b eqn:?
  | |- context[match ?x with _ => _ end] =>
      lazymatch x with
      | context[match _ with _ => _ end] => fail
      | context[if _ then _ else _] => fail
      | _ => destruct x eqn:?
      end
  end.
Ltac split_smel e :=
  let a := fresh "a" in let ra := fresh "ra" in let id := fresh "id" in let pv := fresh "pv" in
  let h := fresh "h" in let c := fresh "c" in
  destruct e as [|a|ra id|pv h|c h|];
  [ | destruct a | destruct ra; destruct id | destruct pv; destruct h | destruct c; destruct h | ].

(* the two halves of _handle_stream_stanza *)
Lemma inv1_fire bt st g it : inv1 (st, g) -> inv1 (fst (fire bt st it), gfold g (snd (fire bt st it))).
Proof.
  unfold inv1; cbn [fst snd]. intros (A & B & C).
  unfold fire. destruct it as [| | |smo|e]; try (cbn; auto; fail).
  - destruct (h_bind st); [|cbn; auto]. unf.
    repeat (brk; cbn [fst snd] in * ); gn; gsil; cbn; auto.
  - destruct (h_feat st); [|cbn; auto]. unf.
    repeat (brk; cbn [fst snd] in * ); gn; gsil; cbn; auto.
  - destruct (h_sm st); [|cbn; auto]. split_smel e; unf.
    all: repeat (brk; cbn [fst snd] in * ).
    all: gn; gsil; cbn; auto.
Qed.

Lemma inv1_post st g it :
  inv1 (st, g) ->
  let r := if sm_enabled st then sm_handle st it else (st, []) in
  inv1 (fst r, gfold (gfold g (mark_in it)) (snd r)).
Proof.
  unfold inv1; cbn [fst snd]. intros (A & B & C). cbn zeta.
  destruct (sm_enabled st) eqn:Es.
  - symmetry in A.
    destruct it as [| | |smo|e]; [| | | |split_smel e]; unf;
      repeat (brk; cbn [fst snd] in * ); gn; gsil; cbn; rewrite ?A; cbn; rewrite ?Es;
      repeat split; auto; try (rewrite B; apply w32_succ); try lia.
  - symmetry in A. destruct it as [| | |smo|e]; [| | | |split_smel e]; cbn; rewrite ?A; cbn; auto.
Qed.

Lemma inv1_disconnect st g : inv1 (st, g) -> inv1 (fst (disconnect st), gfold g (snd (disconnect st))).
Proof.
  unfold inv1; cbn [fst snd]. intros (A & B & C). unf.
  repeat (brk; cbn [fst snd] in * ); gn; cbn; auto.
Qed.

Lemma inv1_step bt s a : inv1 s -> inv1 (sys_step bt s a).
Proof.
  destruct s as [st g]. intros H. unfold sys_step, step. cbn [fst snd].
  destruct a as [t|sched|it| | | |l0].
  - (* send *)
    destruct H as (A & B & C). cbn [fst snd] in *. unfold inv1. unf.
    repeat (brk; cbn [fst snd] in * ); gn; gsil; cbn; auto.
  - (* write *)
    unfold write_phase. destruct (connected st) eqn:Ec; [|exact H].
    destruct (wloop_g1 (sq st) sched st g) as (_ & _ & _ & _ & _ & V & _ & _).
    destruct (wloop_frame (sq st) sched st) as (q' & m & n & E & _).
    destruct (wloop (sq st) sched st) as [[[st1 o] err] sl]. cbn [fst snd] in *.
    assert (H1 : inv1 (st1, gfold g o)).
    { destruct H as (A & B & C). cbn [fst snd] in *. unfold gv1 in V. inversion V as [[V1 V2 V3 V4]].
      unfold inv1; cbn [fst snd]. rewrite E, V1, V2, V3, V4. cbn. auto. }
    destruct err; [|exact H1].
    pose proof (inv1_disconnect st1 (gfold g o) H1) as H2.
    destruct (disconnect st1) as [st2 o2]. cbn [fst snd] in *. rewrite gfold_app. exact H2.
  - (* inbound element *)
    unfold dispatch. destruct (negb (connected st)); [exact H|].
    pose proof (inv1_fire bt st g it H) as H1.
    destruct (fire bt st it) as [st1 o1]. cbn [fst snd] in H1.
    pose proof (inv1_post st1 (gfold g o1) it H1) as H2. cbn zeta in H2.
    destruct (if sm_enabled st1 then sm_handle st1 it else (st1, [])) as [st2 o2]. cbn [fst snd] in *.
    rewrite !gfold_app. exact H2.
  - (* stream end *)
    destruct (connected st) eqn:Ec; [|exact H]. unfold stream_end.
    assert (H1 : inv1 (set_can_resume st false, g)) by exact H.
    pose proof (inv1_disconnect _ _ H1) as H2.
    destruct (disconnect (set_can_resume st false)) as [st2 o2]. cbn [fst snd] in *.
    rewrite gfold_cons. exact H2.
  - (* loss *)
    pose proof (inv1_disconnect _ _ H) as H2. destruct (disconnect st) as [st2 o2]. exact H2.
  - (* connect *)
    destruct H as (A & B & C). cbn [fst snd] in *. unfold inv1. unf.
    repeat (brk; cbn [fst snd] in * ); gn; cbn; auto.
  - exact H.
Qed.

Lemma inv1_run bt l s : inv1 s -> inv1 (sys_run bt s l).
Proof. revert s; induction l as [|a l IH]; intros s H; [exact H|]. cbn. apply IH, inv1_step, H. Qed.

Lemma inv1_init : inv1 sys0.
Proof. unfold inv1, sys0; cbn. repeat split; reflexivity. Qed.

(* ------------------------------------------------------------------ C05 *)
Lemma c05_h_exact bt l :
  let s := sys_run bt sys0 l in
  handled_nr (fst s) = w32 (g_in (snd s)) /\ sm_enabled (fst s) = g_active (snd s).
Proof. cbn zeta. destruct (inv1_run bt l sys0 inv1_init) as (A & B & C). auto. Qed.

Lemma c05_a_per_r bt l : g_a (snd (sys_run bt sys0 l)) = g_r (snd (sys_run bt sys0 l)).
Proof. destruct (inv1_run bt l sys0 inv1_init) as (A & B & C). exact C. Qed.

(* one <r/> on an established session: exactly one <a h=handled/> is queued, nothing else changes *)
Lemma c05_r_step bt st :
  connected st = true -> sm_enabled st = true -> h_sm st = false ->
  let st' := fst (dispatch bt st (ISm SmR)) in
  exists tail,
    sq st' = sq st ++ mk_sqe (next_gid st) OSm (a_text (handled_nr st)) 0 false :: tail /\ tail = [] /\
    handled_nr st' = handled_nr st /\ smq st' = smq st /\ sent_nr st' = sent_nr st /\ sm_enabled st' = true.
Proof.
  intros C E H. unfold dispatch, fire. rewrite C, H. cbn [negb fst snd]. rewrite E.
  unfold sm_handle, send_lib. rewrite C. unfold send_raw_. cbn [eff_owner countable andb].
  cbn. exists []. repeat split; auto.
Qed.

(* what a dispatched element does to the inbound counter *)
Definition is_stanza (it : initem) : bool := match it with IStanza | IBindResult => true | _ => false end.

Lemma c05_count_step bt st it :
  connected st = true ->
  let st' := fst (dispatch bt st it) in
  (is_stanza it = true -> handled_nr st' = if sm_enabled st' then w32 (handled_nr st + 1) else handled_nr st) /\
  (is_stanza it = false ->
     handled_nr st' = handled_nr st \/
     (h_sm st = true /\ handled_nr st' = 0 /\ exists e, it = ISm e /\ match e with SmEnabled _ _ | SmFailed _ _ => True | _ => False end)).
Proof.
  intros C. cbn zeta. unfold dispatch. rewrite C. cbn [negb].
  destruct it as [| | |smo|e]; [| | | |split_smel e]; unf;
    repeat (brk; cbn [fst snd] in * ); cbn in *;
    repeat match goal with H : ?x = _ |- context[if ?x then _ else _] => rewrite H end;
    (split; [intros X; try discriminate X|intros X; try discriminate X]); auto;
    try (right; split; [reflexivity|split; [reflexivity|eexists; split; [reflexivity|exact I]]]).
  all: congruence.
Qed.

(* the <resume/> request carries the inbound count of the suspended session *)
Lemma c05_resume_h bt l smo pv :
  let s := sys_run bt sys0 l in
  let st := fst s in
  connected st = true -> h_feat st = true -> previd st = Some pv ->
  (sm_support st || smo) = true -> can_resume st = true -> sm_bound st = true ->
  sq (fst (dispatch bt st (IFeatures smo))) =
    sq st ++ [mk_sqe (next_gid st) OSm (resume_text pv (w32 (g_in (snd s)))) 0 false].
Proof.
  cbn zeta. destruct (c05_h_exact bt l) as [Hh _]. cbn zeta in Hh.
  set (st := fst (sys_run bt sys0 l)) in *. intros C F P S R B.
  unfold dispatch, fire. rewrite C, F. cbn [negb]. unfold handle_features.
  assert (S' : sm_support (if smo then set_sm_support (set_h_feat st false) true else set_h_feat st false) = true).
  { destruct smo; cbn; [reflexivity|]. rewrite orb_false_r in S. exact S. }
  destruct smo; cbn [previd set_sm_support set_h_feat]; rewrite P; cbn in S' |- *; rewrite ?S', R, B; cbn;
    unfold send_lib, send_raw_; cbn; rewrite C; cbn; rewrite <- Hh;
    match goal with |- context[if ?b then _ else _] => destruct b end; reflexivity.
Qed.

(* ------------------------------------------------------------------ C04, single steps *)
Lemma cleanup_split l h : let '(k, r) := cleanup l h in l = r ++ k.
Proof.
  induction l as [|e l IH]; [reflexivity|]. cbn. destruct (s_h e <? h).
  - destruct (cleanup l h) as [k r]. cbn. rewrite IH. reflexivity.
  - reflexivity.
Qed.

Definition hs_sorted (l : list sme) : Prop := StronglySorted Z.lt (map s_h l).

Lemma cleanup_sorted l h : hs_sorted l ->
  cleanup l h = (filter (fun e => h <=? s_h e) l, filter (fun e => s_h e <? h) l).
Proof.
  unfold hs_sorted. induction l as [|e l IH]; intros S; [reflexivity|].
  cbn in S. inversion S as [|? ? S1 S2]; subst. cbn [cleanup filter].
  destruct (s_h e <? h) eqn:E.
  - rewrite (IH S1). replace (h <=? s_h e) with false by lia. reflexivity.
  - replace (h <=? s_h e) with true by lia.
    assert (A : forall x, In x l -> s_h x <? h = false /\ h <=? s_h x = true).
    { intros x I. rewrite Forall_forall in S2. specialize (S2 (s_h x) (in_map s_h l x I)). lia. }
    f_equal.
    + f_equal. clear - A. induction l as [|a l IHl]; [reflexivity|]. cbn.
      destruct (A a (or_introl eq_refl)) as [_ A2]. rewrite A2. f_equal. apply IHl. intros x I. apply A. right. exact I.
    + clear - A. induction l as [|a l IHl]; [reflexivity|]. cbn.
      destruct (A a (or_introl eq_refl)) as [A1 _]. rewrite A1. apply IHl. intros x I. apply A. right. exact I.
Qed.

(* <a h>: exactly the elements numbered below h are released, nothing newer, nothing else changes *)
Lemma c04_ack_exact bt st h :
  connected st = true -> sm_enabled st = true -> h_sm st = false -> hs_sorted (smq st) ->
  let r := dispatch bt st (ISm (SmA (AVal h))) in
  smq (fst r) = filter (fun e => h <=? s_h e) (smq st) /\
  In (OG (GRelease (map s_gid (filter (fun e => s_h e <? h) (smq st))))) (snd r) /\
  sq (fst r) = sq st /\ sent_nr (fst r) = sent_nr st /\ r_sent (fst r) = false.
Proof.
  intros C E H S. cbn zeta. unfold dispatch, fire. rewrite C, H. cbn [negb fst snd]. rewrite E.
  unfold sm_handle. rewrite (cleanup_sorted _ h S). cbn. repeat split; auto.
Qed.

Lemma list_eqb_refl l : list_eqb l l = true.
Proof. induction l as [|a l IH]; [reflexivity|]. cbn. rewrite Z.eqb_refl. exact IH. Qed.

Lemma filter_cq_tail q e tl : forallb (fun e => negb (countable (q_owner e))) tl = true ->
  map q_gid (filter cq (q ++ e :: tl)) = map q_gid (filter cq q) ++ (if cq e then [q_gid e] else []).
Proof.
  intros T. rewrite filter_app. cbn [filter]. rewrite (filter_none cq tl T). rewrite map_app.
  destruct (cq e); reflexivity.
Qed.

(* appending one element with _send_raw: effect on the counted queue *)
Lemma sqc_send st q g o t rs tl r n :
  q = sq st ++ mk_sqe g o t 0 rs :: tl ->
  forallb (fun e => negb (countable (q_owner e))) tl = true ->
  sqc (set_next_gid (set_r_sent (set_sq st q) r) n) = sqc st ++ (if countable o then [g] else []).
Proof.
  intros E T. subst q. unfold sqc, sq_countable. cbn [sq set_next_gid set_r_sent set_sq]. fold cq.
  rewrite filter_cq_tail by exact T. reflexivity.
Qed.

(* what the connection handler's script adds to the counted send queue *)
Lemma script_sqc l st :
  connected st = true -> neg_done st = true ->
  exists news, sqc (fst (run_script l st)) = sqc st ++ news /\ length news = length l /\
               Forall (fun x => next_gid st <= x) news.
Proof.
  revert st; induction l as [|t l IH]; intros st C Nd.
  - exists []. cbn. rewrite app_nil_r. repeat split. constructor.
  - cbn [run_script]. unfold user_send. rewrite C, Nd. cbn [andb].
    destruct (send_raw_spec (set_next_gid st (next_gid st + 1)) (next_gid st) OUser t false)
      as (q & r & n & tl & E & Eq & Tl & Hn & _ & _).
    destruct (send_raw_ (set_next_gid st (next_gid st + 1)) (next_gid st) OUser t false) as [st1 o1].
    cbn [fst snd] in *. cbn [eff_owner] in Eq. cbn in Hn.
    assert (C1 : connected st1 = true) by (rewrite E; exact C).
    assert (N1 : neg_done st1 = true) by (rewrite E; exact Nd).
    assert (Q1 : sqc st1 = sqc st ++ [next_gid st]).
    { rewrite E. rewrite (sqc_send _ _ _ _ _ _ _ r n Eq Tl). reflexivity. }
    assert (G1 : next_gid st1 = n) by (rewrite E; reflexivity).
    destruct (IH st1 C1 N1) as (news & I1 & I2 & I3).
    destruct (run_script l st1) as [st2 o2]. cbn [fst snd] in *.
    exists (next_gid st :: news). split; [rewrite I1, Q1, <- app_assoc; reflexivity|]. split; [cbn; rewrite I2; reflexivity|].
    constructor; [lia|]. eapply Forall_impl; [|exact I3]. cbn. intros; lia.
Qed.

(* _stream_negotiation_success: the connection handler's stanzas go behind everything that is queued *)
Lemma neg_success_spec st :
  connected st = true ->
  let r := neg_success st in
  exists news,
    sqc (fst r) = sqc st ++ news /\
    (neg_done st = false -> length news = length (on_connect st)) /\
    Forall (fun x => next_gid st <= x) news /\
    smq (fst r) = smq st /\ sent_nr (fst r) = sent_nr st /\ sm_enabled (fst r) = sm_enabled st /\
    neg_done (fst r) = true /\ connected (fst r) = true /\ h_sm (fst r) = h_sm st /\ h_feat (fst r) = h_feat st /\
    handled_nr (fst r) = handled_nr st.
Proof.
  intros C. cbn zeta. unfold neg_success. destruct (neg_done st) eqn:Nd.
  - exists []. cbn. rewrite app_nil_r. repeat split; auto. intros X; discriminate X.
  - destruct (script_sqc (on_connect (set_neg_done st true)) (set_neg_done st true) C eq_refl) as (news & I1 & I2 & I3).
    destruct (script_spec (on_connect (set_neg_done st true)) (set_neg_done st true)) as (q & r & n & ids & E & _ & _).
    destruct (run_script (on_connect (set_neg_done st true)) (set_neg_done st true)) as [st2 o2]. cbn [fst snd] in *.
    exists news. split; [exact I1|]. split; [intros _; exact I2|]. split; [exact I3|].
    rewrite E. cbn. rewrite C. repeat split; reflexivity.
Qed.

(* <resumed h>: numbering continues at h, exactly the elements numbered h and above are queued again, in order,
   behind what is already in the send queue (nothing can be, see sm_resends_first) and the SM queue is empty *)
Lemma c04_resumed_step bt st pv h :
  connected st = true -> h_sm st = true -> neg_done st = false -> previd st = Some pv -> hs_sorted (smq st) ->
  Forall (fun e => s_owner e = OUser) (smq st) ->
  let r := dispatch bt st (ISm (SmResumed (Some pv) (Some h))) in
  exists news,
  smq (fst r) = [] /\
  sqc (fst r) = sqc st ++ map s_gid (filter (fun e => h <=? s_h e) (smq st)) ++ news /\
  length news = length (on_connect st) /\ Forall (fun x => next_gid st <= x) news /\
  In (OG (GRelease (map s_gid (filter (fun e => s_h e <? h) (smq st))))) (snd r) /\
  sent_nr (fst r) = w32 h /\ sm_enabled (fst r) = true /\ neg_done (fst r) = true.
Proof.
  intros C H Nd P S F. cbn zeta. unfold dispatch, fire. rewrite C, H. cbn [negb].
  unfold handle_sm. cbn [previd set_h_sm]. rewrite P, list_eqb_refl.
  cbn [smq set_sent_nr set_sm_bound set_bound set_previd set_sm_id set_sm_enabled set_h_sm].
  rewrite (cleanup_sorted _ h S).
  set (kept := filter (fun e => h <=? s_h e) (smq st)).
  set (rel := filter (fun e => s_h e <? h) (smq st)).
  match goal with |- context[resend kept ?s0] => set (st0 := s0) end.
  assert (C0 : connected st0 = true) by exact C.
  assert (Fk : Forall (fun e => s_owner e = OUser) kept).
  { unfold kept. rewrite Forall_forall in *. intros x I. apply filter_In in I as [I _]. apply F, I. }
  destruct (resend_g1 kept st0 C0 Fk) as (R1 & _ & R3).
  destruct (resend_frame kept st0) as (q & r1 & n & E & Sil).
  destruct (resend kept st0) as [st2 o2]. cbn [fst snd] in *.
  assert (E1 : connected st2 = true) by (rewrite E; exact C).
  assert (E2 : sm_enabled st2 = true) by (rewrite E; reflexivity).
  assert (E3 : smq st2 = []) by (rewrite E; cbn; destruct kept; reflexivity).
  assert (E4 : sent_nr st2 = w32 h) by (rewrite E; reflexivity).
  assert (E5 : neg_done st2 = false) by (rewrite E; exact Nd).
  assert (E6 : on_connect st2 = on_connect st) by (rewrite E; reflexivity).
  destruct (neg_success_spec st2 E1) as (news & N1 & N2 & N3 & N4 & N5 & N6 & N7 & _).
  destruct (neg_success st2) as [st3 o3]. cbn [fst snd] in *.
  rewrite N6, E2. unfold sm_handle. cbn [fst snd].
  exists news.
  split; [rewrite N4; exact E3|].
  split; [rewrite N1, R1, <- app_assoc; reflexivity|].
  split; [rewrite (N2 E5), E6; reflexivity|].
  split; [eapply Forall_impl; [|exact N3]; cbn; intros; change (next_gid st) with (next_gid st0); lia|].
  split; [right; left; reflexivity|].
  split; [rewrite N5; exact E4|split; [rewrite N6; exact E2|exact N7]].
Qed.

(* <failed/> with item-not-found after a resumption request: only what the server reports as handled (h, if it
   gives one) is released; everything else stays in the SM queue for the new session *)
Lemma c04_failed_step bt st h :
  connected st = true -> h_sm st = true -> resume st = true -> hs_sorted (smq st) ->
  let hv := match h with Some v => v | None => 0 end in
  let r := dispatch bt st (ISm (SmFailed FItemNotFound h)) in
  smq (fst r) = filter (fun e => hv <=? s_h e) (smq st) /\
  In (OG (GRelease (map s_gid (filter (fun e => s_h e <? hv) (smq st))))) (snd r) /\
  sm_enabled (fst r) = false.
Proof.
  intros C H R S. cbn zeta. unfold dispatch, fire. rewrite C, H. cbn [negb].
  unfold handle_sm. cbn [resume set_sm_enabled set_h_sm smq]. rewrite R.
  rewrite (cleanup_sorted _ _ S).
  unf. repeat (brk; cbn [fst snd] in * ); cbn; repeat split; auto.
Qed.

(* any other <failed/>: the SM queue is kept as it is *)
Lemma c04_failed_keeps bt st c h :
  connected st = true -> h_sm st = true -> c <> FItemNotFound ->
  smq (fst (dispatch bt st (ISm (SmFailed c h)))) = smq st.
Proof.
  intros C H N. unfold dispatch, fire. rewrite C, H. cbn [negb].
  destruct c; try contradiction; unf; repeat (brk; cbn [fst snd] in * ); cbn; reflexivity.
Qed.

(* <enabled/>: the whole SM queue is queued again, in order, and the inbound count restarts *)
Lemma c04_enabled_step bt st ra id :
  connected st = true -> h_sm st = true -> sm_enabled st = true -> neg_done st = false -> (ra = true -> id <> None) ->
  Forall (fun e => s_owner e = OUser) (smq st) ->
  let r := dispatch bt st (ISm (SmEnabled ra id)) in
  exists news,
  smq (fst r) = [] /\ sqc (fst r) = sqc st ++ smqg st ++ news /\
  length news = length (on_connect st) /\ Forall (fun x => next_gid st <= x) news /\
  handled_nr (fst r) = 0 /\ neg_done (fst r) = true.
Proof.
  intros C H Es Nd Hid F. cbn zeta. unfold dispatch, fire. rewrite C, H. cbn [negb].
  unfold handle_sm. cbn [sm_enabled set_h_sm]. rewrite Es. cbn [negb].
  set (st0 := set_handled_nr (set_h_sm st false) 0).
  assert (exists st1, (if ra then match id with Some i => Some (set_sm_id (set_can_resume st0 true) (Some i)) | None => None end
                       else Some st0) = Some st1 /\ connected st1 = true /\ smq st1 = smq st /\ sqc st1 = sqc st /\
                      handled_nr st1 = 0 /\ neg_done st1 = false /\ on_connect st1 = on_connect st /\
                      next_gid st1 = next_gid st) as (st1 & Ea & C1 & Q1 & S1 & H1 & N1 & O1 & G1).
  { destruct ra; [destruct id as [i|]; [|exfalso; apply Hid; reflexivity]|]; eexists; split; try reflexivity; repeat split; auto. }
  rewrite Ea.
  assert (F1 : Forall (fun e => s_owner e = OUser) (smq st1)) by (rewrite Q1; exact F).
  destruct (resend_g1 (smq st1) st1 C1 F1) as (R1 & _ & R3).
  destruct (resend_frame (smq st1) st1) as (q & r1 & n & E & Sil).
  destruct (resend (smq st1) st1) as [st2 o2]. cbn [fst snd] in *.
  assert (E1 : connected st2 = true) by (rewrite E; exact C1).
  assert (E3 : smq st2 = []) by (rewrite E; cbn; destruct (smq st1); reflexivity).
  assert (E5 : handled_nr st2 = 0) by (rewrite E; cbn; exact H1).
  assert (E6 : neg_done st2 = false) by (rewrite E; exact N1).
  assert (E7 : on_connect st2 = on_connect st) by (rewrite E; exact O1).
  destruct (neg_success_spec st2 E1) as (news & M1 & M2 & M3 & M4 & M5 & M6 & M7 & _ & _ & _ & M11).
  destruct (neg_success st2) as [st3 o3]. cbn [fst snd] in *.
  exists news.
  match goal with |- context[if ?b then _ else _] => destruct b end; unfold sm_handle; cbn [fst snd];
    (split; [rewrite M4; exact E3|
     split; [rewrite M1, R1, S1, <- app_assoc; unfold smqg; rewrite Q1; reflexivity|
     split; [rewrite (M2 E6), E7; reflexivity|
     split; [eapply Forall_impl; [|exact M3]; cbn; intros; lia|
     split; [rewrite M11; exact E5|exact M7]]]]]).
Qed.

(* ------------------------------------------------------------------ conservation, on every history *)
Definition G1b (s : sys) : Prop := flags1 (fst s) /\ nolib (fst s) /\ fresh s /\ conserved_c s.

Lemma nolib_tail q e tl : Forall (fun e => q_owner e <> OLib) q -> q_owner e <> OLib ->
  forallb (fun e => negb (countable (q_owner e))) tl = true -> Forall (fun e => q_owner e <> OLib) (q ++ e :: tl).
Proof.
  intros F H T. apply Forall_app. split; [exact F|]. constructor; [exact H|].
  induction tl as [|a tl IH]; [constructor|]. cbn in T. apply andb_true_iff in T as [T1 T2].
  constructor; [|apply IH, T2]. destruct (q_owner a); cbn in T1; try discriminate.
Qed.
Lemma fresh_mono l a b : Forall (fun x => x < a) l -> a <= b -> Forall (fun x : Z => x < b) l.
Proof. intros F H. eapply Forall_impl; [|exact F]. cbn. intros; lia. Qed.


Lemma G1b_send bt s t : G1b s -> G1b (sys_step bt s (ASend t)).
Proof.
  destruct s as [st g]. unfold sys_step, step, user_send; cbn [fst snd].
  intros H.
  destruct (connected st && neg_done st) eqn:Ecn; [|exact H].
  destruct H as ((F1 & F2) & (N1 & N2) & Fr & Co). unfold fresh in Fr. cbn [fst snd] in *.
  abs_send. cbn [fst snd]. gn. gsil. cbn [eff_owner] in Eq. cbn in Hn.
  split; [|split; [|split]]; cbn [fst snd].
  - exact (conj F1 F2).
  - split; [|exact N2]. cbn. subst q. apply nolib_tail; auto. discriminate.
  - unfold fresh. cbn. apply Forall_app. split; [eapply fresh_mono; [exact Fr|cbn; lia]|].
    constructor; [lia|constructor].
  - intros x. destruct (Co x) as [Cx Cy]. cbn [fst snd] in Cx, Cy |- *.
    rewrite (sqc_send _ _ _ _ _ _ _ r n Eq Tl). unfold smqg in *. cbn.
    rewrite !cnt_app, cnt_cons, cnt_nil.
    unfold sqc, sq_countable, smqg in *.
    destruct (Z.eq_dec (next_gid st) x); [|lia].
    subst x. rewrite (cnt_fresh _ _ _ Fr) in * by lia. lia.
Qed.

Lemma G1b_disconnect st g : G1b (st, g) -> G1b (fst (disconnect st), gfold g (snd (disconnect st))).
Proof.
  intros H. unfold disconnect. destruct (negb (connected st)) eqn:Ec; [exact H|].
  destruct H as ((F1 & F2) & (N1 & N2) & Fr & Co). cbn [fst snd] in *.
  cbn [fst snd]. gn. cbn [gapply]. cbn [can_resume set_previd set_neg_done set_connected].
  destruct (can_resume st); (split; [|split; [|split]]); cbn [fst snd].
  all: try exact (conj N1 N2); try exact Fr; try exact Co.
  all: cbn; (split; [intros X; discriminate X | intros _; reflexivity]).
Qed.

Lemma cnt_filter_split (f : sqe -> bool) l x :
  cnt (map q_gid l) x = (cnt (map q_gid (filter (fun e => negb (f e)) l)) x + cnt (map q_gid (filter f l)) x)%nat.
Proof.
  induction l as [|e l IH]; [reflexivity|]. cbn [filter map]. destruct (f e); cbn [negb map]; rewrite !cnt_cons, IH; lia.
Qed.

Lemma G1b_connect st g : G1b (st, g) -> G1b (fst (do_connect st), gfold g (snd (do_connect st))).
Proof.
  intros H. unfold do_connect. destruct (connected st) eqn:Ec; [exact H|].
  destruct H as ((F1 & F2) & (N1 & N2) & Fr & Co). cbn [fst snd] in *.
  cbn [fst snd]. gn. cbn [gapply].
  split; [|split; [|split]]; cbn [fst snd].
  - unfold flags1; cbn. split; [intros _ _; rewrite (F2 Ec); auto|intros X; discriminate X].
  - split; [constructor|exact N2].
  - exact Fr.
  - intros x. destruct (Co x) as [Cx Cy]. cbn [fst snd] in Cx, Cy. split; [|exact Cy].
    unfold sqc, sq_countable, smqg in *. cbn. rewrite !cnt_app.
    fold cq in *. rewrite (cnt_filter_split q_resend (filter cq (sq st)) x) in Cx. rewrite cnt_nil. lia.
Qed.

Lemma G1b_wloop st g sched :
  G1b (st, g) ->
  let r := wloop (sq st) sched st in
  G1b (fst (fst (fst r)), gfold g (snd (fst (fst r)))).
Proof.
  intros ((F1 & F2) & (N1 & N2) & Fr & Co). cbn [fst snd] in *. cbn zeta.
  destruct (wloop_g1 (sq st) sched st g) as (W1 & W2 & W3 & W4 & W5 & _ & W7 & W8).
  destruct (wloop_frame (sq st) sched st) as (q' & m & n & E & _).
  destruct (wloop (sq st) sched st) as [[[st1 o] err] sl]. cbn [fst snd] in *.
  split; [|split; [|split]]; cbn [fst snd].
  - rewrite E. exact (conj F1 F2).
  - split; [apply W7, N1|apply W8; [exact N1|exact N2]].
  - unfold fresh in *. cbn [fst snd] in *. rewrite W2, E. exact Fr.
  - intros x. destruct (Co x) as [Cx Cy]. cbn [fst snd] in *. rewrite W2, W3, W4, W5. split; [|exact Cy].
    specialize (W1 x). unfold sqc, sq_countable in *. fold cq in *. lia.
Qed.

Lemma G1b_write st g sched :
  G1b (st, g) ->
  let r := write_phase st sched in
  G1b (fst (fst r), gfold g (snd (fst r))).
Proof.
  intros H. cbn zeta. unfold write_phase. destruct (connected st); [|exact H].
  pose proof (G1b_wloop st g sched H) as H1. cbn zeta in H1.
  destruct (wloop (sq st) sched st) as [[[st1 o] err] sl]. cbn [fst snd] in *.
  destruct err; [|exact H1].
  pose proof (G1b_disconnect _ _ H1) as H2. destruct (disconnect st1) as [st2 o2]. cbn [fst snd] in *.
  rewrite gfold_app. exact H2.
Qed.

(* _conn_sm_handle_stanza *)
Lemma G1b_post st g it :
  G1b (st, g) -> connected st = true ->
  let r := if sm_enabled st then sm_handle st it else (st, []) in
  G1b (fst r, gfold (gfold g (mark_in it)) (snd r)).
Proof.
  intros H C. cbn zeta.
  assert (Hm : G1b (st, gfold g (mark_in it))).
  { destruct it as [| | |smo|e]; [| | | |split_smel e]; cbn; try exact H; destruct (g_active g); exact H. }
  revert Hm. generalize (gfold g (mark_in it)). clear H g. intros g H.
  destruct (sm_enabled st) eqn:Es; [|exact H].
  destruct H as ((F1 & F2) & (N1 & N2) & Fr & Co). unfold fresh in Fr. cbn [fst snd] in *.
  destruct it as [| | |smo|e]; [| | | |split_smel e]; unfold sm_handle.
  all: try (cbn [fst snd]; gn; exact (conj (conj F1 F2) (conj (conj N1 N2) (conj Fr Co)))).
  - (* <r/> *)
    unfold send_lib. rewrite C. abs_send. cbn [fst snd]. gn. gsil. cbn [gapply eff_owner countable] in *. cbn in Hn.
    split; [|split; [|split]]; cbn [fst snd].
    + exact (conj F1 F2).
    + split; [|exact N2]. cbn. subst q. apply nolib_tail; auto. discriminate.
    + unfold fresh. cbn. eapply fresh_mono; [exact Fr|lia].
    + intros x. destruct (Co x) as [Cx Cy]. cbn [fst snd] in Cx, Cy |- *.
      rewrite (sqc_send _ _ _ _ _ _ _ r n Eq Tl). cbn. rewrite app_nil_r. exact (conj Cx Cy).
  - (* <a/> with an unparsable h *)
    cbn [fst snd]. gn. cbn [gapply].
    split; [|split; [|split]]; cbn [fst snd].
    + exact (conj F1 F2).
    + split; [exact N1|constructor].
    + exact Fr.
    + intros x. destruct (Co x) as [Cx Cy]. cbn [fst snd] in Cx, Cy |- *. split; [|exact Cy].
      unfold sqc, sq_countable, smqg in *. cbn. rewrite ?cnt_app, ?cnt_nil. lia.
  - (* <a h> *)
    pose proof (cleanup_split (smq st) h) as Sp. destruct (cleanup (smq st) h) as [kept rel].
    cbn [fst snd]. gn. cbn [gapply].
    split; [|split; [|split]]; cbn [fst snd].
    + exact (conj F1 F2).
    + split; [exact N1|]. cbn. rewrite Sp in N2. apply Forall_app in N2. apply N2.
    + exact Fr.
    + intros x. destruct (Co x) as [Cx Cy]. cbn [fst snd] in Cx, Cy |- *. split; [|exact Cy].
      unfold sqc, sq_countable, smqg in *. cbn. rewrite Sp in Cx. rewrite map_app, !cnt_app in *. lia.
Qed.

(* ------------------------------------------------------------------ G1b only looks at a few fields *)
Definition view1 (st : state) := (connected st, h_feat st, sm_enabled st, h_bind st, h_sm st, sq st, smq st, next_gid st).
Definition gview1 (g : ghost) := (g_subm g, g_done g, g_plain g, g_disc_fresh g, g_disc_resent g).

Lemma G1b_view st st' g g' : view1 st = view1 st' -> gview1 g = gview1 g' -> G1b (st, g) -> G1b (st', g').
Proof.
  unfold view1, gview1. intros V W. inversion V as [[V1 V2 V3 V4 V5 V6 V7 V8]]. inversion W as [[W1 W2 W3 W4 W5]].
  unfold G1b, flags1, nolib, fresh, conserved_c, sqc, sq_countable, smqg. cbn [fst snd].
  rewrite V1, V2, V3, V4, V5, V6, V7, V8, W1, W2, W3, W4, W5. auto.
Qed.

(* flag changes once the features have been seen *)
Lemma G1b_flags st g a b c :
  G1b (st, g) -> connected st = true -> h_feat st = false ->
  G1b (set_h_sm (set_h_bind (set_sm_enabled st a) b) c, g).
Proof.
  intros ((F1 & F2) & N & Fr & Co) C Hf. split; [|split; [exact N|split; [exact Fr|exact Co]]].
  unfold flags1. cbn. rewrite C, Hf. split; [intros _ X; discriminate X|intros X; discriminate X].
Qed.

(* a non-countable element (and possibly an <r/>) appended by _send_raw *)
Lemma G1b_append st g q e tl r n :
  G1b (st, g) -> q = sq st ++ e :: tl -> q_owner e = OSm ->
  forallb (fun e => negb (countable (q_owner e))) tl = true -> next_gid st <= n ->
  G1b (set_next_gid (set_r_sent (set_sq st q) r) n, g).
Proof.
  intros ((F1 & F2) & (N1 & N2) & Fr & Co) Eq Eo Tl Hn. unfold fresh in Fr. cbn [fst snd] in *.
  split; [exact (conj F1 F2)|split; [|split]].
  - split; [|exact N2]. cbn. subst q. apply nolib_tail; auto. rewrite Eo. discriminate.
  - unfold fresh. cbn. eapply fresh_mono; [exact Fr|exact Hn].
  - intros x. destruct (Co x) as [Cx Cy]. cbn [fst snd] in Cx, Cy |- *. split; [|exact Cy].
    unfold sqc, sq_countable, smqg in *. cbn [sq smq set_next_gid set_r_sent set_sq]. fold cq in *. subst q.
    rewrite filter_cq_tail by exact Tl. unfold cq at 2. rewrite Eo. cbn. rewrite app_nil_r. exact Cx.
Qed.

(* G1b after send_lib of a non-countable element, whatever the invisible fields are *)
Ltac send_sm H C :=
  unfold send_lib; cbn [connected set_h_bind set_h_sm set_resume set_bind_saved set_h_feat set_sm_support set_bound
                        set_r_sent set_sent_nr set_handled_nr set_sm_bound set_previd set_sm_id set_sm_enabled set_smq
                        set_dont_req set_can_resume set_neg_done]; rewrite C; abs_send; cbn [fst snd].

Lemma G1b_resend st g :
  G1b (st, g) -> connected st = true ->
  G1b (fst (resend (smq st) st), g) /\ forallb silent (snd (resend (smq st) st)) = true /\
  connected (fst (resend (smq st) st)) = true /\ h_feat (fst (resend (smq st) st)) = h_feat st.
Proof.
  intros ((F1 & F2) & (N1 & N2) & Fr & Co) C. unfold fresh in Fr. cbn [fst snd] in *.
  destruct (resend_g1 (smq st) st C N2) as (R1 & R2 & R3).
  destruct (resend_frame (smq st) st) as (q & r1 & n & E & Sil).
  destruct (resend (smq st) st) as [st2 o2]. cbn [fst snd] in *.
  split; [|split; [exact Sil|split; [rewrite E; exact C|rewrite E; reflexivity]]].
  split; [rewrite E; exact (conj F1 F2)|split; [|split]].
  - split; [apply R2, N1|]. rewrite E. cbn. destruct (smq st); [constructor|constructor].
  - unfold fresh. cbn [fst snd]. eapply fresh_mono; [exact Fr|exact R3].
  - intros x. destruct (Co x) as [Cx Cy]. cbn [fst snd] in Cx, Cy |- *. split; [|exact Cy].
    rewrite R1. unfold smqg in *. rewrite cnt_app.
    assert (Es : smq st2 = []) by (rewrite E; cbn; destruct (smq st); reflexivity).
    rewrite Es. cbn [map]. rewrite cnt_nil. lia.
Qed.

Lemma G1b_release st g kept rel :
  G1b (st, g) -> smq st = rel ++ kept ->
  G1b (set_smq st kept, gapply g (GRelease (map s_gid rel))).
Proof.
  intros ((F1 & F2) & (N1 & N2) & Fr & Co) Sp. cbn [fst snd] in *.
  split; [exact (conj F1 F2)|split; [|split]].
  - split; [exact N1|]. cbn. rewrite Sp in N2. apply Forall_app in N2. apply N2.
  - exact Fr.
  - intros x. destruct (Co x) as [Cx Cy]. cbn [fst snd] in Cx, Cy |- *. split; [|exact Cy].
    unfold sqc, sq_countable, smqg in *. cbn. rewrite Sp in Cx. rewrite map_app, !cnt_app in *. lia.
Qed.

Lemma flags1_hfeat st : flags1 st -> connected st = true -> (h_bind st = true \/ h_sm st = true) -> h_feat st = false.
Proof.
  intros (F1 & _) C H. destruct (h_feat st) eqn:E; [|reflexivity].
  destruct (F1 C eq_refl) as (_ & A & B). destruct H; congruence.
Qed.

(* one send_lib of a non-countable element on top of a state that differs from `st0` only in invisible fields
   and flags (with the features already seen) *)
Lemma G1b_lib st0 g st o text a b c :
  G1b (st0, g) -> connected st0 = true -> h_feat st0 = false ->
  view1 st = view1 (set_h_sm (set_h_bind (set_sm_enabled st0 a) b) c) ->
  eff_owner st o = OSm ->
  let r := send_lib st o text in
  G1b (fst r, gfold g (snd r)) /\
  connected (fst r) = true /\ h_feat (fst r) = false /\ sm_enabled (fst r) = a /\ h_bind (fst r) = b /\
  h_sm (fst r) = c /\ smq (fst r) = smq st0 /\ (forall g', gfold g' (snd r) = g').
Proof.
  intros H C Hf V Eo. cbn zeta.
  assert (H1 : G1b (st, g)).
  { eapply G1b_view; [symmetry; exact V|reflexivity|]. apply G1b_flags; assumption. }
  unfold view1 in V. cbn in V. inversion V as [[V1 V2 V3 V4 V5 V6 V7 V8]].
  unfold send_lib. rewrite V1, C. abs_send. cbn [fst snd]. rewrite Eo in *. cbn [countable]. gn. gsil. cbn in Hn.
  split.
  - eapply G1b_append with (st := set_next_gid st (next_gid st + 1)); try eassumption; try reflexivity.
    destruct H1 as (F & N & Fr & Co). split; [exact F|split; [exact N|split; [|exact Co]]].
    unfold fresh in *. cbn [fst snd] in *. eapply fresh_mono; [exact Fr|cbn; lia].
  - cbn. rewrite V1, V2, V3, V4, V5, V7, C, Hf. repeat split; try reflexivity.
    intros g'. cbn. apply gfold_silent, S.
Qed.

Definition fire_ok (st : state) (g : ghost) (r : state * list out) : Prop :=
  G1b (fst r, gfold g (snd r)) /\ connected (fst r) = true.

Lemma neg_success_frame st :
  connected (fst (neg_success st)) = connected st /\ h_feat (fst (neg_success st)) = h_feat st.
Proof.
  unfold neg_success. destruct (neg_done st); [split; reflexivity|].
  destruct (script_spec (on_connect (set_neg_done st true)) (set_neg_done st true)) as (q & r & n & ids & E & _ & _).
  destruct (run_script (on_connect (set_neg_done st true)) (set_neg_done st true)) as [st2 o2]. cbn [fst snd] in *.
  rewrite E. split; reflexivity.
Qed.

Lemma G1b_script l st g : G1b (st, g) -> G1b (fst (run_script l st), gfold g (snd (run_script l st))).
Proof.
  revert st g; induction l as [|t l IH]; intros st g H; [exact H|].
  cbn [run_script]. pose proof (G1b_send [] (st, g) t H) as H1. unfold sys_step, step in H1. cbn [fst snd] in H1.
  destruct (user_send st t) as [st1 o1]. specialize (IH st1 (gfold g o1) H1).
  destruct (run_script l st1) as [st2 o2]. cbn [fst snd] in *. rewrite gfold_app. exact IH.
Qed.

Lemma G1b_neg_success st g : G1b (st, g) -> G1b (fst (neg_success st), gfold g (snd (neg_success st))).
Proof.
  intros H. unfold neg_success. destruct (neg_done st); [exact H|].
  assert (H1 : G1b (set_neg_done st true, g)) by (eapply G1b_view; [| |exact H]; reflexivity).
  pose proof (G1b_script (on_connect (set_neg_done st true)) _ _ H1) as H2.
  destruct (run_script (on_connect (set_neg_done st true)) (set_neg_done st true)) as [st2 o2]. cbn [fst snd] in *.
  gn. exact H2.
Qed.

Lemma G1b_features bt st g smo :
  G1b (st, g) -> connected st = true -> h_feat st = true -> fire_ok st g (handle_features bt st smo).
Proof.
  intros H C Hf. destruct H as ((F1 & F2) & N & Fr & Co). cbn [fst snd] in *.
  destruct (F1 C Hf) as (En & Hb & Hs).
  assert (H0 : G1b (set_h_feat st false, g)).
  { split; [|split; [exact N|split; [exact Fr|exact Co]]]. unfold flags1. cbn. rewrite C. split; [intros _ X; discriminate X|intros X; discriminate X]. }
  assert (C0 : connected (set_h_feat st false) = true) by exact C.
  unfold handle_features, fire_ok.
  set (st1 := if smo then set_sm_support (set_h_feat st false) true else set_h_feat st false).
  assert (V1 : view1 st1 = view1 (set_h_feat st false)) by (unfold st1; destruct smo; reflexivity).
  destruct (previd st1) as [pv|] eqn:Ep; [destruct (sm_support st1 && can_resume st1 && sm_bound st1)|].
  - (* <resume/> *)
    match goal with |- context[send_lib ?s ?o ?t] =>
      destruct (G1b_lib (set_h_feat st false) g s o t false false false H0 C0 eq_refl) as (A & B1 & B2 & B3 & B4 & B5 & B6 & B7) end.
    { transitivity (view1 st1); [reflexivity|]. rewrite V1. unfold view1. cbn. rewrite En, Hb, Hs. reflexivity. }
    { reflexivity. }
    match goal with |- context[send_lib ?s ?o ?t] => destruct (send_lib s o t) as [st2 o2] end.
    cbn [fst snd] in *. gn. rewrite B7 in *. split; [|cbn; exact B1].
    eapply G1b_view with (st := set_h_sm (set_h_bind (set_sm_enabled st2 false) false) true) (g := g); [| |apply G1b_flags; assumption].
    + unfold view1. cbn. rewrite B3, B4. reflexivity.
    + reflexivity.
  - (* bind *)
    unfold do_bind.
    match goal with |- context[send_lib ?s ?o ?t] =>
      destruct (G1b_lib (set_h_feat st false) g s o t false true false H0 C0 eq_refl) as (A & B1 & B2 & B3 & B4 & B5 & B6 & B7) end.
    { unfold st1; destruct smo; unfold view1; cbn; rewrite En, Hs; reflexivity. }
    { cbn. unfold st1. destruct smo; cbn; rewrite En; reflexivity. }
    match goal with |- context[send_lib ?s ?o ?t] => destruct (send_lib s o t) as [st2 o2] end.
    cbn [fst snd] in *. split; [exact A|exact B1].
  - unfold do_bind.
    match goal with |- context[send_lib ?s ?o ?t] =>
      destruct (G1b_lib (set_h_feat st false) g s o t false true false H0 C0 eq_refl) as (A & B1 & B2 & B3 & B4 & B5 & B6 & B7) end.
    { unfold st1; destruct smo; unfold view1; cbn; rewrite En, Hs; reflexivity. }
    { cbn. unfold st1. destruct smo; cbn; rewrite En; reflexivity. }
    match goal with |- context[send_lib ?s ?o ?t] => destruct (send_lib s o t) as [st2 o2] end.
    cbn [fst snd] in *. split; [exact A|exact B1].
Qed.

Lemma G1b_sm_enable st g :
  G1b (st, g) -> connected st = true -> h_feat st = false -> fire_ok st g (sm_enable st).
Proof.
  intros H C Hf. unfold sm_enable, fire_ok.
  match goal with |- context[send_lib ?s ?o ?t] =>
    destruct (G1b_lib st g s o t (sm_enabled st) (h_bind st) true H C Hf) as (A & B1 & B2 & B3 & B4 & B5 & B6 & B7) end.
  { reflexivity. } { reflexivity. }
  match goal with |- context[send_lib ?s ?o ?t] => destruct (send_lib s o t) as [st2 o2] end.
  cbn [fst snd] in *. gn. rewrite B7 in *. cbn [gapply]. split; [|cbn; exact B1].
  eapply G1b_view with (st := set_h_sm (set_h_bind (set_sm_enabled st2 true) (h_bind st2)) (h_sm st2)) (g := g);
    [| |apply G1b_flags; assumption].
  - unfold view1. cbn. reflexivity.
  - reflexivity.
Qed.

Lemma G1b_bind st g :
  G1b (st, g) -> connected st = true -> h_bind st = true -> fire_ok st g (handle_bind st).
Proof.
  intros H C Hb.
  assert (Hf : h_feat st = false) by (apply flags1_hfeat; [apply H|exact C|left; exact Hb]).
  unfold handle_bind.
  assert (H0 : G1b (set_bound (set_h_bind st false) true, g)).
  { eapply G1b_view with (st := set_h_sm (set_h_bind (set_sm_enabled st (sm_enabled st)) false) (h_sm st)) (g := g);
      [reflexivity|reflexivity|apply G1b_flags; assumption]. }
  destruct (sm_support (set_bound (set_h_bind st false) true)).
  - apply G1b_sm_enable; [exact H0|exact C|exact Hf].
  - split; [apply G1b_neg_success, H0|]. rewrite (proj1 (neg_success_frame _)). exact C.
Qed.

Lemma G1b_sm_err st g : G1b (st, g) -> connected st = true -> h_feat st = false -> fire_ok st g (sm_err st).
Proof.
  intros H C Hf. unfold sm_err, fire_ok. cbn [fst snd]. gn. split; [|exact C].
  eapply G1b_view with (st := set_h_sm (set_h_bind (set_sm_enabled st false) (h_bind st)) (h_sm st)) (g := g);
    [reflexivity|reflexivity|apply G1b_flags; assumption].
Qed.

Lemma gview1_quiet g m :
  match m with GSubmit _ | GDone _ _ | GRelease _ | GDiscard _ _ => False | _ => True end ->
  gview1 (gapply g m) = gview1 g.
Proof. destruct m; intros X; try contradiction; cbn; try reflexivity; destruct (g_active g); reflexivity. Qed.

Lemma G1b_gquiet st g m :
  match m with GSubmit _ | GDone _ _ | GRelease _ | GDiscard _ _ => False | _ => True end ->
  G1b (st, g) -> G1b (st, gapply g m).
Proof. intros X H. eapply G1b_view; [reflexivity|symmetry; apply gview1_quiet, X|exact H]. Qed.

Lemma G1b_failed_tail bt (dummy : state) s2 g rl (resuming : bool) :
  G1b (s2, gapply g (GRelease (map s_gid rl))) -> connected s2 = true -> h_feat s2 = false -> sm_enabled s2 = false ->
  let r := if bind_saved s2 then do_bind bt (reset_sm_state s2)
           else if resuming then xmpp_disconnect (reset_sm_state s2) else neg_success (reset_sm_state s2) in
  fire_ok dummy g (set_sm_enabled (fst r) false,
                   OG (GRelease (map s_gid rl)) :: OG GFailed :: snd r ++ [cb (fst r); OG GSmOff]).
Proof.
  intros H2 C2 Hf2 En2. cbn zeta.
  assert (H3 : G1b (reset_sm_state s2, gapply (gapply g (GRelease (map s_gid rl))) GFailed))
    by (apply G1b_gquiet; [exact I|]; eapply G1b_view; [| |exact H2]; reflexivity).
  assert (C3 : connected (reset_sm_state s2) = true) by exact C2.
  assert (Hf3 : h_feat (reset_sm_state s2) = false) by exact Hf2.
  match goal with |- context[fst ?x] =>
    assert (exists s4 o4, x = (s4, o4) /\ G1b (s4, gfold (gapply (gapply g (GRelease (map s_gid rl))) GFailed) o4) /\
                          connected s4 = true /\ h_feat s4 = false) as (s4 & o4 & Ex & H4 & C4 & Hf4) end.
  { destruct (bind_saved s2); [|destruct resuming].
    - unfold do_bind.
      match goal with |- context[send_lib ?s ?o ?t] =>
        destruct (G1b_lib (reset_sm_state s2) _ s o t false true (h_sm s2) H3 C3 Hf3) as (A & B1 & B2 & B3 & B4 & B5 & B6 & B7);
        [unfold view1; cbn; rewrite En2; reflexivity | cbn; rewrite En2; reflexivity|] end.
      match goal with |- context[send_lib ?s ?o ?t] => destruct (send_lib s o t) as [s5 o5] end.
      cbn [fst snd] in *. exists s5, o5. auto.
    - unfold xmpp_disconnect.
      match goal with |- context[send_lib ?s ?o ?t] =>
        destruct (G1b_lib (reset_sm_state s2) _ s o t false (h_bind s2) (h_sm s2) H3 C3 Hf3) as (A & B1 & B2 & B3 & B4 & B5 & B6 & B7);
        [unfold view1; cbn; rewrite En2; reflexivity | reflexivity|] end.
      match goal with |- context[send_lib ?s ?o ?t] => destruct (send_lib s o t) as [s5 o5] end.
      cbn [fst snd] in *. exists s5, o5. auto.
    - pose proof (G1b_neg_success _ _ H3) as R5.
      assert (C5 : connected (fst (neg_success (reset_sm_state s2))) = true /\ h_feat (fst (neg_success (reset_sm_state s2))) = false)
        by (destruct (neg_success_frame (reset_sm_state s2)) as [X Y]; rewrite X, Y; split; assumption).
      destruct (neg_success (reset_sm_state s2)) as [s5 o5]. cbn [fst snd] in *. exists s5, o5. intuition. }
  rewrite Ex. unfold fire_ok. cbn [fst snd]. gn. split; [|exact C4].
  apply G1b_gquiet; [exact I|].
  eapply G1b_view with (st := set_h_sm (set_h_bind (set_sm_enabled s4 false) (h_bind s4)) (h_sm s4));
    [reflexivity|reflexivity|apply G1b_flags; assumption].
Qed.

Lemma G1b_handle_sm bt st g el :
  G1b (st, g) -> connected st = true -> h_sm st = true -> fire_ok st g (handle_sm bt st el).
Proof.
  intros H C Hs.
  assert (Hf : h_feat st = false) by (apply flags1_hfeat; [apply H|exact C|right; exact Hs]).
  assert (H0 : G1b (set_h_sm st false, g)).
  { eapply G1b_view with (st := set_h_sm (set_h_bind (set_sm_enabled st (sm_enabled st)) (h_bind st)) false) (g := g);
      [reflexivity|reflexivity|apply G1b_flags; assumption]. }
  unfold handle_sm. set (st0 := set_h_sm st false) in *.
  assert (C0 : connected st0 = true) by exact C. assert (Hf0 : h_feat st0 = false) by exact Hf.
  destruct el as [|a|ra id|pv h|c h|].
  - (* <r/> *) unfold fire_ok. cbn [fst snd]. gn. split; [|exact C].
    apply G1b_gquiet; [exact I|]. apply (G1b_sm_err st0 g H0 C0 Hf0).
  - unfold fire_ok. cbn [fst snd]. gn. split; [|exact C].
    apply G1b_gquiet; [exact I|]. apply (G1b_sm_err st0 g H0 C0 Hf0).
  - (* <enabled/> *)
    destruct (negb (sm_enabled st0)); [apply (G1b_sm_err st0 g H0 C0 Hf0)|].
    set (st1 := set_handled_nr st0 0).
    assert (H1 : G1b (st1, gapply g GEnabledSeen)).
    { apply G1b_gquiet; [exact I|]. eapply G1b_view; [| |exact H0]; reflexivity. }
    match goal with |- context[match ?x with Some _ => _ | None => _ end] => destruct x as [st2|] eqn:Ea end.
    + assert (VV : view1 st2 = view1 st1 /\ connected st2 = true /\ h_feat st2 = false).
      { destruct ra; [destruct id; [|discriminate Ea]|]; inversion Ea; repeat split; assumption. }
      destruct VV as (V & C2 & Hf2).
      assert (H2 : G1b (st2, gapply (gapply g GEnabledSeen) GEnabled)).
      { apply G1b_gquiet; [exact I|]. eapply G1b_view; [symmetry; exact V|reflexivity|exact H1]. }
      destruct (G1b_resend st2 _ H2 C2) as (R1 & R2 & R3 & R4).
      destruct (resend (smq st2) st2) as [st3 o3]. cbn [fst snd] in *.
      pose proof (G1b_neg_success st3 _ R1) as R5.
      assert (C5 : connected (fst (neg_success st3)) = true) by (rewrite (proj1 (neg_success_frame st3)); exact R3).
      destruct (neg_success st3) as [st4 o4]. cbn [fst snd] in *.
      unfold fire_ok. cbn [fst snd]. gn. rewrite (gfold_silent _ o3 R2). split; [exact R5|exact C5].
    + destruct (G1b_sm_err st1 _ H1 C0 Hf0) as (A & B). unfold fire_ok.
      destruct (sm_err st1) as [st2 o2]. cbn [fst snd] in *. gn. split; [exact A|exact B].
  - (* <resumed/> *)
    destruct pv as [p|]; [|apply (G1b_sm_err st0 g H0 C0 Hf0)].
    destruct (previd st0) as [mine|]; [|apply (G1b_sm_err st0 g H0 C0 Hf0)].
    destruct (list_eqb p mine); [|apply (G1b_sm_err st0 g H0 C0 Hf0)].
    destruct h as [hv|]; [|apply (G1b_sm_err st0 g H0 C0 Hf0)].
    match goal with |- context[cleanup (smq ?s) hv] => set (st1 := s) end.
    assert (H1 : G1b (st1, gapply g (GResumed hv))).
    { apply G1b_gquiet; [exact I|].
      eapply G1b_view with (st := set_h_sm (set_h_bind (set_sm_enabled st0 true) (h_bind st0)) (h_sm st0)) (g := g);
        [reflexivity|reflexivity|apply G1b_flags; assumption]. }
    pose proof (cleanup_split (smq st1) hv) as Sp. destruct (cleanup (smq st1) hv) as [kept rel].
    pose proof (G1b_release st1 _ kept rel H1 Sp) as H2.
    assert (C2 : connected (set_smq st1 kept) = true) by exact C.
    destruct (G1b_resend (set_smq st1 kept) _ H2 C2) as (R1 & R2 & R3 & R4).
    cbn [smq set_smq] in *.
    destruct (resend kept (set_smq st1 kept)) as [st3 o3]. cbn [fst snd] in *.
    pose proof (G1b_neg_success st3 _ R1) as R5.
    assert (C5 : connected (fst (neg_success st3)) = true) by (rewrite (proj1 (neg_success_frame st3)); exact R3).
    destruct (neg_success st3) as [st4 o4]. cbn [fst snd] in *.
    unfold fire_ok. cbn [fst snd]. gn. rewrite (gfold_silent _ o3 R2). split; [exact R5|exact C5].
  - (* <failed/> *)
    set (st1 := set_sm_enabled st0 false).
    assert (H1 : G1b (st1, g)).
    { eapply G1b_view with (st := set_h_sm (set_h_bind (set_sm_enabled st0 false) (h_bind st0)) (h_sm st0)) (g := g);
        [reflexivity|reflexivity|apply G1b_flags; assumption]. }
    assert (C1 : connected st1 = true) by exact C. assert (Hf1 : h_feat st1 = false) by exact Hf.
    destruct c; [apply (G1b_sm_err st1 g H1 C1 Hf1)| | |]; cbv iota.
    + destruct (resume st1).
      * pose proof (cleanup_split (smq st1) (match h with Some v => v | None => 0 end)) as Sp. cbv zeta.
        destruct (cleanup (smq st1) (match h with Some v => v | None => 0 end)) as [k rl].
        pose proof (G1b_failed_tail bt st (set_smq st1 k) g rl (resume st0)
                      (G1b_release st1 g k rl H1 Sp) C Hf eq_refl) as T. cbn zeta in T.
        match type of T with context[fst ?x] => destruct x as [s5 o5] end. exact T.
      * assert (H2 : G1b (st1, gapply g (GRelease (map s_gid [])))).
        { eapply G1b_view; [reflexivity| |exact H1]. cbn. rewrite app_nil_r. reflexivity. }
        pose proof (G1b_failed_tail bt st st1 g [] (resume st0) H2 C Hf eq_refl) as T. cbn zeta in T.
        match type of T with context[fst ?x] => destruct x as [s5 o5] end. exact T.
    + match goal with |- context[reset_sm_state ?s] => set (s2 := s) end.
      assert (H2 : G1b (s2, gapply g (GRelease (map s_gid [])))).
      { eapply G1b_view; [| |exact H1]; [reflexivity|]. cbn. rewrite app_nil_r. reflexivity. }
      pose proof (G1b_failed_tail bt st s2 g [] (resume st0) H2 C Hf eq_refl) as T. cbn zeta in T.
      match type of T with context[fst ?x] => destruct x as [s5 o5] end. exact T.
    + assert (H2 : G1b (st1, gapply g (GRelease (map s_gid [])))).
      { eapply G1b_view; [reflexivity| |exact H1]. cbn. rewrite app_nil_r. reflexivity. }
      pose proof (G1b_failed_tail bt st st1 g [] (resume st0) H2 C Hf eq_refl) as T. cbn zeta in T.
      match type of T with context[fst ?x] => destruct x as [s5 o5] end. exact T.
  - unfold fire_ok. cbn [fst snd]. gn. split; [|exact C].
    apply G1b_gquiet; [exact I|]. apply (G1b_sm_err st0 g H0 C0 Hf0).
Qed.

Lemma G1b_fire bt st g it : G1b (st, g) -> connected st = true -> fire_ok st g (fire bt st it).
Proof.
  intros H C. unfold fire.
  destruct it as [| | |smo|e]; try (split; [exact H|exact C]).
  - destruct (h_bind st) eqn:E; [apply G1b_bind; assumption|split; [exact H|exact C]].
  - destruct (h_feat st) eqn:E; [apply G1b_features; assumption|split; [exact H|exact C]].
  - destruct (h_sm st) eqn:E; [apply G1b_handle_sm; assumption|split; [exact H|exact C]].
Qed.

Lemma G1b_step bt s a : G1b s -> G1b (sys_step bt s a).
Proof.
  destruct s as [st g]. intros H.
  destruct a as [t|sched|it| | | |l0].
  - apply (G1b_send bt (st, g) t H).
  - unfold sys_step, step. cbn [fst snd]. pose proof (G1b_write st g sched H) as W. cbn zeta in W.
    destruct (write_phase st sched) as [[st1 o] sl]. exact W.
  - unfold sys_step, step. cbn [fst snd]. unfold dispatch. destruct (connected st) eqn:C; [|exact H]. cbn [negb].
    destruct (G1b_fire bt st g it H C) as (H1 & C1).
    destruct (fire bt st it) as [st1 o1]. cbn [fst snd] in *.
    pose proof (G1b_post st1 (gfold g o1) it H1 C1) as H2. cbn zeta in H2.
    destruct (if sm_enabled st1 then sm_handle st1 it else (st1, [])) as [st2 o2]. cbn [fst snd] in *.
    rewrite !gfold_app. exact H2.
  - unfold sys_step, step. cbn [fst snd]. destruct (connected st) eqn:C; [|exact H]. unfold stream_end.
    assert (H1 : G1b (set_can_resume st false, g)) by (eapply G1b_view; [| |exact H]; reflexivity).
    pose proof (G1b_disconnect _ _ H1) as H2.
    destruct (disconnect (set_can_resume st false)) as [st2 o2]. cbn [fst snd] in *. rewrite gfold_cons. exact H2.
  - unfold sys_step, step. cbn [fst snd]. pose proof (G1b_disconnect _ _ H) as H2.
    destruct (disconnect st) as [st2 o2]. exact H2.
  - unfold sys_step, step. cbn [fst snd]. pose proof (G1b_connect _ _ H) as H2.
    destruct (do_connect st) as [st2 o2]. exact H2.
  - unfold sys_step, step. cbn [fst snd]. eapply G1b_view; [| |exact H]; reflexivity.
Qed.

Lemma G1b_init : G1b sys0.
Proof.
  unfold G1b, sys0, flags1, nolib, fresh, conserved_c. cbn. repeat split; try constructor; try discriminate; auto.
Qed.

Lemma G1b_run bt l s : G1b s -> G1b (sys_run bt s l).
Proof. revert s; induction l as [|a l IH]; intros s H; [exact H|]. cbn. apply IH, G1b_step, H. Qed.

(* ------------------------------------------------------------------ conservation in the vocabulary of the statement *)
Lemma conserved_of_c s : conserved_c s -> conserved s.
Proof.
  intros Co. unfold conserved. split.
  - apply (NoDup_count_occ Z.eq_dec). intros x. apply (Co x).
  - apply (Permutation_count_occ Z.eq_dec). intros x. destruct (Co x) as [Cx _].
    unfold cnt in Cx. rewrite Cx. rewrite !count_occ_app. lia.
Qed.

Lemma c04_conserved bt l : conserved (sys_run bt sys0 l).
Proof. apply conserved_of_c. apply (G1b_run bt l sys0 G1b_init). Qed.

(* only a reconnect discards anything *)
Definition disc (g : ghost) := (g_disc_fresh g, g_disc_resent g).

Lemma disc_fire bt st g it : disc (gfold g (snd (fire bt st it))) = disc g.
Proof.
  unfold fire. destruct it as [| | |smo|e]; try reflexivity.
  - destruct (h_bind st); [|reflexivity]. unf. repeat (brk; cbn [fst snd] in * ); gn; gsil; reflexivity.
  - destruct (h_feat st); [|reflexivity]. unf. repeat (brk; cbn [fst snd] in * ); gn; gsil; reflexivity.
  - destruct (h_sm st); [|reflexivity]. split_smel e; unf.
    all: repeat (brk; cbn [fst snd] in * ).
    all: gn; gsil; reflexivity.
Qed.

Lemma disc_post st g it :
  disc (gfold (gfold g (mark_in it)) (snd (if sm_enabled st then sm_handle st it else (st, [])))) = disc g.
Proof.
  destruct (sm_enabled st);
    (destruct it as [| | |smo|e]; [| | | |split_smel e]); unf;
    repeat (brk; cbn [fst snd] in * ); gn; gsil; cbn; try reflexivity; destruct (g_active g); reflexivity.
Qed.

Lemma disc_disconnect st g : disc (gfold g (snd (disconnect st))) = disc g.
Proof. unfold disconnect. destruct (negb (connected st)); reflexivity. Qed.

Lemma disc_step bt s a :
  disc (snd (sys_step bt s a)) =
    match a with
    | AConnect => if connected (fst s) then disc (snd s)
                  else (g_disc_fresh (snd s) ++ map q_gid (filter (fun e => negb (q_resend e)) (sq_countable (fst s))),
                        g_disc_resent (snd s) ++ map q_gid (filter q_resend (sq_countable (fst s))))
    | _ => disc (snd s)
    end.
Proof.
  destruct s as [st g]. unfold sys_step, step. cbn [fst snd].
  destruct a as [t|sched|it| | | |l0].
  - unfold user_send. destruct (connected st && neg_done st); [|reflexivity]. abs_send. cbn [fst snd]. gn. gsil. reflexivity.
  - unfold write_phase. destruct (connected st); [|reflexivity].
    destruct (wloop_g1 (sq st) sched st g) as (_ & _ & _ & W4 & W5 & _).
    destruct (wloop (sq st) sched st) as [[[st1 o] err] sl]. cbn [fst snd] in *.
    destruct err; cbn [fst snd].
    + pose proof (disc_disconnect st1 (gfold g o)) as D. destruct (disconnect st1) as [st2 o2]. cbn [fst snd] in *.
      rewrite gfold_app, D. unfold disc. rewrite W4, W5. reflexivity.
    + unfold disc. rewrite W4, W5. reflexivity.
  - unfold dispatch. destruct (negb (connected st)); [reflexivity|].
    pose proof (disc_fire bt st g it) as D1. destruct (fire bt st it) as [st1 o1]. cbn [fst snd] in *.
    pose proof (disc_post st1 (gfold g o1) it) as D2.
    destruct (if sm_enabled st1 then sm_handle st1 it else (st1, [])) as [st2 o2]. cbn [fst snd] in *.
    rewrite !gfold_app, D2, D1. reflexivity.
  - destruct (connected st); [|reflexivity]. unfold stream_end.
    pose proof (disc_disconnect (set_can_resume st false) g) as D.
    destruct (disconnect (set_can_resume st false)) as [st2 o2]. cbn [fst snd] in *. rewrite gfold_cons. exact D.
  - pose proof (disc_disconnect st g) as D. destruct (disconnect st) as [st2 o2]. exact D.
  - unfold do_connect. destruct (connected st); reflexivity.
  - reflexivity.
Qed.

(* outside the known class nothing that had been written before is ever discarded *)
Lemma c04_known_class bt l s :
  known_C04_resend_lost bt s l = false -> g_disc_resent (snd (sys_run bt s l)) = g_disc_resent (snd s).
Proof.
  revert s; induction l as [|a l IH]; intros s K; [reflexivity|].
  cbn in K. apply orb_false_iff in K as [K1 K2]. cbn [sys_run]. rewrite (IH _ K2).
  pose proof (disc_step bt s a) as D. unfold disc in D.
  destruct a; try (inversion D; reflexivity).
  unfold reconnect_drops_resent in K1. destruct (connected (fst s)); [inversion D; reflexivity|].
  cbn [negb andb] in K1. inversion D as [[D1 D2]]. rewrite D2.
  assert (E : filter q_resend (sq_countable (fst s)) = []).
  { unfold sq_countable. induction (sq (fst s)) as [|e q IHq]; [reflexivity|].
    cbn in K1 |- *. apply orb_false_iff in K1 as [K3 K4]. destruct (countable (q_owner e)); cbn in *.
    - rewrite K3. apply IHq, K4.
    - apply IHq, K4. }
  rewrite E. cbn. apply app_nil_r.
Qed.

