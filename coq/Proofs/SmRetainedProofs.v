(* Proofs for C04: the retained invariant (sm_retained) and its companions, for histories with an honest server. *)
Require Import LV.Common.Bytes LV.Model.SmModel LV.Spec.SmSpec LV.Proofs.SmProofs LV.Proofs.SmFlagsProofs.
From Coq Require Import Permutation Sorting.Sorted.
Require Import Lia ZifyBool.
Local Open Scope Z_scope.

(* ------------------------------------------------------------------ numbering *)
Ltac Zify.zify_post_hook ::= idtac.
Lemma seqZ_length a n : length (seqZ a n) = n.
Proof. revert a; induction n; intros a; cbn; [reflexivity|]. rewrite IHn. reflexivity. Qed.
Lemma seqZ_app a n m : seqZ a (n + m) = seqZ a n ++ seqZ (a + Z.of_nat n) m.
Proof.
  revert a; induction n as [|n IH]; intros a; cbn [seqZ Nat.add app].
  - replace (a + Z.of_nat 0) with a by lia. reflexivity.
  - rewrite IH. replace (a + 1 + Z.of_nat n) with (a + Z.of_nat (S n)) by lia. reflexivity.
Qed.
Lemma seqZ_snoc a n : seqZ a (S n) = seqZ a n ++ [a + Z.of_nat n].
Proof. replace (S n) with (n + 1)%nat by lia. rewrite seqZ_app. reflexivity. Qed.
Lemma zlen_app {A} (a b : list A) : zlen (a ++ b) = zlen a + zlen b.
Proof. unfold zlen. rewrite app_length. lia. Qed.
Lemma zlen_map {A B} (f : A -> B) l : zlen (map f l) = zlen l.
Proof. unfold zlen. rewrite map_length. reflexivity. Qed.

(* cleanup on a queue numbered c, c+1, ... (no wrap inside the queue): the elements numbered below h go *)
Lemma cleanup_seq l c h :
  map s_h l = map w32 (seqZ c (length l)) -> 0 <= c -> c + zlen l <= W32 -> c <= h ->
  let k := Z.to_nat (Z.min (h - c) (zlen l)) in
  cleanup l h = (skipn k l, firstn k l).
Proof.
  revert c; induction l as [|e l IH]; intros c E C0 C1 Ch; cbn zeta.
  - cbn. rewrite skipn_nil, firstn_nil. reflexivity.
  - cbn [length seqZ map] in E. injection E as E1 E2.
    assert (Hs : s_h e = c).
    { rewrite E1. apply w32_small. unfold zlen in C1. cbn [length] in C1. lia. }
    cbn [cleanup]. rewrite Hs. unfold zlen in *. cbn [length] in *.
    destruct (c <? h) eqn:Ec.
    + specialize (IH (c + 1) E2 ltac:(lia) ltac:(lia) ltac:(lia)). cbn zeta in IH. rewrite IH.
      replace (Z.to_nat (Z.min (h - c) (Z.of_nat (S (length l))))) with (S (Z.to_nat (Z.min (h - (c + 1)) (Z.of_nat (length l))))) by lia.
      reflexivity.
    + replace (Z.to_nat (Z.min (h - c) (Z.of_nat (S (length l))))) with 0%nat by lia. reflexivity.
Qed.

(* cleanup always pops a prefix, and the numbering of what is kept follows on *)
Lemma cleanup_prefix l h : exists k, cleanup l h = (skipn k l, firstn k l) /\ (k <= length l)%nat.
Proof.
  induction l as [|e l (k & IH & Hk)]; [exists 0%nat; split; [reflexivity|cbn; lia]|].
  cbn [cleanup]. destruct (s_h e <? h).
  - rewrite IH. exists (S k). split; [reflexivity|cbn; lia].
  - exists 0%nat. split; [reflexivity|cbn; lia].
Qed.

Lemma hs_skipn k : forall l c,
  map s_h l = map w32 (seqZ c (length l)) ->
  map s_h (skipn k l) = map w32 (seqZ (c + Z.of_nat k) (length (skipn k l))).
Proof.
  induction k as [|k IH]; intros l c E.
  - cbn [skipn]. replace (c + Z.of_nat 0) with c by lia. exact E.
  - destruct l as [|e l]; [reflexivity|]. cbn [skipn]. cbn [length seqZ map] in E. injection E as _ E2.
    rewrite (IH l (c + 1) E2). replace (c + 1 + Z.of_nat k) with (c + Z.of_nat (S k)) by lia. reflexivity.
Qed.

(* ------------------------------------------------------------------ the retained invariant and its companions *)
Definition G3 (s : sys) : Prop :=
  let st := fst s in let g := snd s in
  (connected st = true -> neg_done st = false -> sqc st = []) /\
  (connected st = true -> h_sm st = true -> sm_enabled st = true -> sent_nr st = 0) /\
  (g_sync g = false -> g_recv g = [] /\ g_cur_done g = []) /\
  (exists pre, g_done g = pre ++ g_cur_done g) /\
  (0 <= sent_nr st < W32 /\ retained s) /\
  Forall (@NoDup Z) (g_old g) /\
  incl (g_done g) (g_recv g ++ concat (g_old g)) /\
  incl (smqg st) (g_recv g ++ concat (g_old g)).

Definition view3 (st : state) := (connected st, neg_done st, h_sm st, sm_enabled st, sqc st, smq st, sent_nr st).
Definition gview3 (g : ghost) := (g_sync g, g_recv g, g_cur_done g, g_done g, g_old g).

Lemma G3_view st st' g g' : view3 st = view3 st' -> gview3 g = gview3 g' -> G3 (st, g) -> G3 (st', g').
Proof.
  unfold view3, gview3. intros V W.
  assert (V' : connected st = connected st' /\ neg_done st = neg_done st' /\ h_sm st = h_sm st' /\
               sm_enabled st = sm_enabled st' /\ sqc st = sqc st' /\ smq st = smq st' /\ sent_nr st = sent_nr st')
    by (repeat split; congruence).
  assert (W' : g_sync g = g_sync g' /\ g_recv g = g_recv g' /\ g_cur_done g = g_cur_done g' /\ g_done g = g_done g' /\
               g_old g = g_old g') by (repeat split; congruence).
  destruct V' as (V1 & V2 & V3 & V4 & V5 & V6 & V7). destruct W' as (W1 & W2 & W3 & W4 & W5).
  unfold G3, retained, smqg. cbn [fst snd]. rewrite V1, V2, V3, V4, V5, V6, V7, W1, W2, W3, W4, W5. auto.
Qed.

Lemma gview3_quiet g m :
  match m with
  | GSubmit _ | GAck _ | GEnabledSeen | GSmOff | GDown | GDiscard _ _ | GStanzaIn | GRIn | GAOut _ | GResumeOut _ => True
  | GDone _ n => n = false
  | _ => False
  end -> gview3 (gapply g m) = gview3 g.
Proof. destruct m; intros X; try contradiction; cbn; try reflexivity; try (subst; reflexivity); destruct (g_active g); reflexivity. Qed.

Lemma G3_gquiet st g m :
  match m with
  | GSubmit _ | GAck _ | GEnabledSeen | GSmOff | GDown | GDiscard _ _ | GStanzaIn | GRIn | GAOut _ | GResumeOut _ => True
  | GDone _ n => n = false
  | _ => False
  end -> G3 (st, g) -> G3 (st, gapply g m).
Proof. intros X H. eapply G3_view; [reflexivity|symmetry; apply gview3_quiet, X|exact H]. Qed.

(* releasing a prefix of the SM queue on a synchronised session *)
Lemma G3_release st g k :
  G3 (st, g) -> g_sync g = true -> (k <= length (smq st))%nat ->
  G3 (set_smq st (skipn k (smq st)), gapply g (GRelease (map s_gid (firstn k (smq st))))).
Proof.
  intros (B3 & A16 & A10 & (pre & A11) & (Rg & S) & ND & RR & RS) Sy Hk. cbn [fst snd] in *.
  destruct (S Sy) as (S1 & S2 & S3). cbn [fst snd] in *. unfold smqg in *.
  assert (Sp : smq st = firstn k (smq st) ++ skipn k (smq st)) by (symmetry; apply firstn_skipn).
  split; [exact B3|split; [exact A16|split; [|split; [|split; [|split; [|split]]]]]]; cbn [fst snd gapply g_sync g_recv g_cur_done g_done g_old
    gset_cur_done gset_done].
  - intros X. congruence.
  - exists pre. rewrite A11, <- app_assoc. reflexivity.
  - split; [exact Rg|]. intros _. cbn [fst snd smq set_smq sent_nr g_recv g_cur_done gset_cur_done gset_done]. unfold smqg. cbn [smq set_smq].
    split; [|split].
    + rewrite S1. rewrite Sp at 1. rewrite map_app, app_assoc. reflexivity.
    + rewrite (hs_skipn k (smq st) _ S2). rewrite zlen_app, zlen_map. unfold zlen. rewrite firstn_length. f_equal. f_equal. lia.
    + exact S3.
  - exact ND.
  - intros x I. apply in_app_or in I as [I|I]; [apply RR, I|].
    apply in_or_app. left. rewrite S1. apply in_or_app. right. rewrite Sp, map_app. apply in_or_app. left. exact I.
  - intros x I. apply RS. unfold smqg in *. cbn [smq set_smq] in I. rewrite Sp, map_app. apply in_or_app. right. exact I.
Qed.

Lemma sqc_append_sm st q e tl r n :
  q = sq st ++ e :: tl -> countable (q_owner e) = false ->
  forallb (fun e => negb (countable (q_owner e))) tl = true ->
  sqc (set_next_gid (set_r_sent (set_sq st q) r) n) = sqc st.
Proof.
  intros E Ho T. subst q. unfold sqc, sq_countable. cbn [sq set_next_gid set_r_sent set_sq]. fold cq.
  rewrite filter_cq_tail by exact T. unfold cq at 2. rewrite Ho. apply app_nil_r.
Qed.

Lemma G3_post st g it :
  G3 (st, g) -> connected st = true ->
  (forall e, it = ISm e -> sm_enabled st = true -> g_sync g = true) ->
  let r := if sm_enabled st then sm_handle st it else (st, []) in
  G3 (fst r, gfold (gfold g (mark_in it)) (snd r)).
Proof.
  intros H C Hsync. cbn zeta.
  assert (Hm : G3 (st, gfold g (mark_in it))).
  { destruct it as [| | |smo|e]; [| | | |destruct e as [|a| | | |]]; cbn [mark_in]; gn; try exact H; (apply G3_gquiet; [exact I|exact H]). }
  assert (Hsync' : forall e, it = ISm e -> sm_enabled st = true -> g_sync (gfold g (mark_in it)) = true).
  { intros e E1 E2. specialize (Hsync e E1 E2). subst it. destruct e; cbn; try exact Hsync; destruct (g_active g); exact Hsync. }
  revert Hm Hsync'. generalize (gfold g (mark_in it)). clear H Hsync g. intros g H Hsync.
  destruct (sm_enabled st) eqn:Es; [|exact H].
  destruct it as [| | |smo|e]; [| | | |split_smel e]; unfold sm_handle.
  all: try (cbn [fst snd]; gn; eapply G3_view; [| |exact H]; reflexivity).
  - (* <r/> *)
    unfold send_lib. rewrite C. abs_send. cbn [fst snd]. cbn [eff_owner countable] in *. gn. gsil.
    apply G3_gquiet; [exact I|]. eapply G3_view; [| |exact H]; [|reflexivity].
    unfold view3. cbn [connected neg_done h_sm sm_enabled smq sent_nr set_next_gid set_r_sent set_sq].
    rewrite (sqc_append_sm _ _ _ _ r n Eq eq_refl Tl). reflexivity.
  - (* <a/> unparsable: everything goes *)
    cbn [fst snd]. gn. 
    pose proof (G3_release st g (length (smq st)) H (Hsync _ eq_refl eq_refl) (le_n _)) as R.
    rewrite skipn_all, firstn_all in R.
    eapply G3_view; [| |exact R]; reflexivity.
  - (* <a h> *)
    destruct (cleanup_prefix (smq st) h) as (k & Ek & Hk). rewrite Ek.
    cbn [fst snd]. gn.
    pose proof (G3_release st g k H (Hsync _ eq_refl eq_refl) Hk) as R.
    eapply G3_view; [| |exact R]; reflexivity.
Qed.

(* the write loop, as the retained invariant sees it *)
Lemma wloop_g3 q sched st g N :
  sent_nr st = w32 N ->
  let r := wloop q sched st in
  let st' := fst (fst (fst r)) in
  let g' := gfold g (snd (fst (fst r))) in
  (exists pre, map q_gid (filter cq q) = pre ++ sqc st') /\
  g_sync g' = g_sync g /\ g_cur_done g' = g_cur_done g /\ g_done g' = g_done g /\ g_old g' = g_old g /\
  exists newm,
    smq st' = smq st ++ newm /\ g_recv g' = g_recv g ++ map s_gid newm /\
    map s_h newm = map w32 (seqZ N (length newm)) /\ sent_nr st' = w32 (N + zlen newm) /\
    (newm <> [] -> sm_enabled st = true /\ filter cq q <> []).
Proof.
  revert sched st g N; induction q as [|e rest IH]; intros sched st g N HN; cbn zeta.
  - cbn [wloop fst snd]. gn. split; [exists []; reflexivity|]. repeat (split; [reflexivity|]).
    exists []. cbn [smq set_sq sent_nr map length seqZ]. rewrite !app_nil_r.
    split; [reflexivity|split; [reflexivity|split; [reflexivity|split]]].
    + rewrite HN. f_equal. unfold zlen. cbn [length]. lia.
    + intros X; contradiction.
  - cbn [wloop].
    destruct (next_send sched (zlen (q_text e) - q_written e)) as [[ret err] sched'].
    destruct (ret =? zlen (q_text e) - q_written e).
    + destruct (countable (q_owner e) && sm_enabled (set_sq st rest)) eqn:Ec.
      * apply andb_true_iff in Ec as [Ec1 Ec2]. cbn [sm_enabled set_sq] in Ec2.
        match goal with |- context[wloop rest sched' ?s] =>
          specialize (IH sched' s (gfold g [OG (GDone (q_gid e) true)]) (N + 1));
          destruct (wloop rest sched' s) as [[[st2 o] er] sl] end.
        cbn [fst snd] in *. cbn zeta in IH.
        destruct IH as ((pre & I1) & I2 & I3 & I4 & I5 & (newm & J1 & J2 & J3 & J4 & J5)).
        { cbn. rewrite HN. apply w32_succ. }
        gn. cbn [gapply] in *.
        split; [exists (q_gid e :: pre); cbn [filter]; unfold cq at 1; rewrite Ec1; cbn [map app]; rewrite I1; reflexivity|].
        split; [exact I2|split; [exact I3|split; [exact I4|split; [exact I5|]]]].
        exists (mk_sme (q_gid e) (sent_nr st) (q_owner e) (q_text e) :: newm).
        cbn [smq set_sent_nr set_smq set_sq g_recv gset_recv] in J1, J2.
        split; [rewrite J1, <- app_assoc; reflexivity|].
        split; [rewrite J2, <- app_assoc; reflexivity|].
        split; [cbn [map length seqZ s_h]; rewrite J3, HN; reflexivity|].
        split; [rewrite J4; f_equal; unfold zlen; cbn [length]; lia|].
        intros _. split; [exact Ec2|]. cbn [filter]. unfold cq at 1. rewrite Ec1. discriminate.
      * match goal with |- context[wloop rest sched' ?s] =>
          specialize (IH sched' s (gfold g (if countable (q_owner e) then [OG (GDone (q_gid e) false)] else [])) N);
          destruct (wloop rest sched' s) as [[[st2 o] er] sl] end.
        cbn [fst snd] in *. cbn zeta in IH.
        destruct IH as ((pre & I1) & I2 & I3 & I4 & I5 & (newm & J1 & J2 & J3 & J4 & J5)); [exact HN|].
        assert (G0 : gview3 (gfold g (if countable (q_owner e) then [OG (GDone (q_gid e) false)] else [])) = gview3 g).
        { destruct (countable (q_owner e)); gn; reflexivity. }
        unfold gview3 in G0.
        assert (G0' : g_sync (gfold g (if countable (q_owner e) then [OG (GDone (q_gid e) false)] else [])) = g_sync g /\
                      g_recv (gfold g (if countable (q_owner e) then [OG (GDone (q_gid e) false)] else [])) = g_recv g /\
                      g_cur_done (gfold g (if countable (q_owner e) then [OG (GDone (q_gid e) false)] else [])) = g_cur_done g /\
                      g_done (gfold g (if countable (q_owner e) then [OG (GDone (q_gid e) false)] else [])) = g_done g /\
                      g_old (gfold g (if countable (q_owner e) then [OG (GDone (q_gid e) false)] else [])) = g_old g)
          by (repeat split; congruence).
        destruct G0' as (K1 & K2 & K3 & K4 & K5).
        gn.
        split.
        { destruct (countable (q_owner e)) eqn:Eq; cbn [filter]; unfold cq at 1; rewrite Eq.
          - exists (q_gid e :: pre). cbn [map app]. rewrite I1. reflexivity.
          - exists pre. exact I1. }
        split; [rewrite I2; exact K1|split; [rewrite I3; exact K3|split; [rewrite I4; exact K4|split; [rewrite I5; exact K5|]]]].
        exists newm. cbn [smq set_sq sm_enabled] in *.
        split; [exact J1|split; [rewrite J2, K2; reflexivity|split; [exact J3|split; [exact J4|]]]].
        intros X. destruct (J5 X) as [Y1 Y2]. split; [exact Y1|].
        cbn [filter]. destruct (cq e); [discriminate|exact Y2].
    + destruct (0 <? ret); cbn [fst snd]; gn.
      * split; [exists []; unfold sqc, sq_countable; cbn [sq set_sq filter app q_owner]; fold cq; unfold cq; cbn [q_owner];
                destruct (countable (q_owner e)); reflexivity|].
        repeat (split; [reflexivity|]).
        exists []. cbn [smq set_sq sent_nr map length seqZ]. rewrite !app_nil_r.
        split; [reflexivity|split; [reflexivity|split; [reflexivity|split]]].
        -- rewrite HN. f_equal. unfold zlen. cbn [length]. lia.
        -- intros X; contradiction.
      * split; [exists []; reflexivity|].
        repeat (split; [reflexivity|]).
        exists []. cbn [smq set_sq sent_nr map length seqZ]. rewrite !app_nil_r.
        split; [reflexivity|split; [reflexivity|split; [reflexivity|split]]].
        -- rewrite HN. f_equal. unfold zlen. cbn [length]. lia.
        -- intros X; contradiction.
Qed.

Lemma map_nil_inv {A B} (f : A -> B) l : map f l = [] -> l = [].
Proof. destruct l; [reflexivity|discriminate]. Qed.

Lemma G3_wloop st g sched :
  flags2 (st, g) -> G3 (st, g) -> connected st = true ->
  let r := wloop (sq st) sched st in
  G3 (fst (fst (fst r)), gfold g (snd (fst (fst r)))).
Proof.
  intros F H C. cbn zeta.
  destruct H as (B3 & A16 & A10 & (pre & A11) & (Rg & S) & ND & RR & RS). unfold retained in S. cbn [fst snd] in *.
  assert (HN : exists N, sent_nr st = w32 N /\ (g_sync g = true -> N = zlen (g_recv g))).
  { destruct (g_sync g) eqn:Sy.
    - destruct (S eq_refl) as (_ & _ & S3). exists (zlen (g_recv g)). split; [exact S3|reflexivity].
    - exists (sent_nr st). split; [symmetry; apply w32_small, Rg|intros X; discriminate X]. }
  destruct HN as (N & HN & HN2).
  destruct (wloop_g3 (sq st) sched st g N HN) as ((pre' & I1) & I2 & I3 & I4 & I5 & (newm & J1 & J2 & J3 & J4 & J5)).
  destruct (wloop_frame (sq st) sched st) as (q' & m & n & E & _).
  destruct (wloop (sq st) sched st) as [[[st1 o] err] sl]. cbn [fst snd] in *.
  assert (Esq : sqc st = [] -> sqc st1 = []).
  { intros X. unfold sqc, sq_countable in X. fold cq in X. rewrite X in I1. symmetry in I1. apply app_eq_nil in I1. apply I1. }
  assert (Enew : g_sync g = false -> newm = []).
  { intros Sy. destruct newm as [|x xs]; [reflexivity|exfalso].
    destruct J5 as [Y1 Y2]; [discriminate|].
    destruct F as (F1 & _ & _ & _ & _ & F6 & _). cbn [fst snd] in *.
    destruct (F6 (eq_trans (eq_sym F1) Y1) Sy) as (_ & Nd & _).
    apply Y2. specialize (B3 C Nd). unfold sqc, sq_countable in B3. fold cq in B3. apply map_nil_inv in B3. exact B3. }
  assert (Ef : connected st1 = connected st /\ neg_done st1 = neg_done st /\ h_sm st1 = h_sm st /\ sm_enabled st1 = sm_enabled st)
    by (rewrite E; repeat split; reflexivity).
  destruct Ef as (Ef1 & Ef2 & Ef3 & Ef4).
  split; [|split; [|split; [|split; [|split; [|split; [|split]]]]]]; cbn [fst snd].
  - rewrite Ef1, Ef2. intros _ Nd. apply Esq. apply B3; assumption.
  - rewrite Ef1, Ef3, Ef4. intros _ Hs En.
    assert (Nn : newm = []).
    { destruct newm as [|x xs]; [reflexivity|exfalso]. destruct J5 as [Y1 Y2]; [discriminate|].
      destruct F as (_ & _ & _ & F4 & _). cbn [fst snd] in *.
      apply Y2. specialize (B3 C (F4 C Hs)). unfold sqc, sq_countable in B3. fold cq in B3. apply map_nil_inv in B3. exact B3. }
    subst newm. rewrite J4. unfold zlen. cbn [length]. replace (N + Z.of_nat 0) with N by lia.
    rewrite <- HN. apply A16; assumption.
  - rewrite I2, I3. intros Sy. rewrite J2, (Enew Sy). cbn. rewrite app_nil_r. apply A10, Sy.
  - exists pre. rewrite I4, I3. exact A11.
  - split; [rewrite J4; apply w32_range|].
    unfold retained. cbn [fst snd]. rewrite I2. intros Sy. destruct (S Sy) as (S1 & S2 & S3). unfold smqg in *.
    rewrite I3, J1, J2, J4. split; [|split].
    + rewrite S1, map_app, app_assoc. reflexivity.
    + rewrite map_app, S2, J3, app_length. rewrite seqZ_app, map_app. f_equal. f_equal. f_equal.
      rewrite (HN2 Sy), S1, zlen_app, zlen_map. unfold zlen. reflexivity.
    + f_equal. rewrite (HN2 Sy), zlen_app, zlen_map. reflexivity.
  - rewrite I5. exact ND.
  - rewrite I4, I5, J2. intros x I. apply RR in I. apply in_app_or in I as [I|I]; apply in_or_app; [left|right; exact I].
    apply in_or_app. left. exact I.
  - rewrite I5, J2. unfold smqg in *. rewrite J1, map_app. intros x I. apply in_app_or in I as [I|I].
    + apply RS in I. apply in_app_or in I as [I|I]; apply in_or_app; [left; apply in_or_app; left; exact I|right; exact I].
    + apply in_or_app. left. apply in_or_app. right. exact I.
Qed.

Lemma G3_disconnect st g : G3 (st, g) -> G3 (fst (disconnect st), gfold g (snd (disconnect st))).
Proof.
  intros H. unfold disconnect. destruct (negb (connected st)) eqn:Ec; [exact H|].
  cbn [fst snd]. gn. apply G3_gquiet; [exact I|].
  destruct H as (B3 & A16 & A10 & A11 & (Rg & S) & ND & RR & RS). cbn [fst snd] in *.
  cbn [can_resume set_previd set_neg_done set_connected].
  assert (V : forall s', view3 s' = (false, false, h_sm st, false, sqc st, smq st, sent_nr st) -> G3 (s', g)).
  { intros s' V. unfold view3 in V.
    assert (V' : connected s' = false /\ neg_done s' = false /\ h_sm s' = h_sm st /\ sm_enabled s' = false /\
                 sqc s' = sqc st /\ smq s' = smq st /\ sent_nr s' = sent_nr st) by (repeat split; congruence).
    destruct V' as (V1 & V2 & V3 & V4 & V5 & V6 & V7).
    unfold G3, retained, smqg in *. cbn [fst snd] in *. rewrite V1, V6, V7.
    split; [intros X; discriminate X|split; [intros X; discriminate X|split; [exact A10|split; [exact A11|split; [split; [exact Rg|exact S]|split; [exact ND|split; [exact RR|exact RS]]]]]]]. }
  destruct (can_resume st); apply V; reflexivity.
Qed.

Lemma G3_connect st g : G3 (st, g) -> G3 (fst (do_connect st), gfold g (snd (do_connect st))).
Proof.
  intros H. unfold do_connect. destruct (connected st) eqn:Ec; [exact H|].
  cbn [fst snd]. gn. apply G3_gquiet; [exact I|].
  destruct H as (B3 & A16 & A10 & A11 & (Rg & S) & ND & RR & RS). cbn [fst snd] in *.
  unfold G3, retained, smqg in *. cbn.
  split; [intros _ _; reflexivity|split; [intros _ X; discriminate X|split; [exact A10|split; [exact A11|split; [split; [exact Rg|exact S]|split; [exact ND|split; [exact RR|exact RS]]]]]]].
Qed.

Lemma G3_send bt st g t : G3 (st, g) -> G3 (sys_step bt (st, g) (ASend t)).
Proof.
  intros H. unfold sys_step, step, user_send. cbn [fst snd].
  destruct (connected st && neg_done st) eqn:Ecn; [|exact H]. apply andb_true_iff in Ecn as [C Nd].
  abs_send. cbn [fst snd]. gn. gsil. apply G3_gquiet; [exact I|].
  destruct H as (B3 & A16 & A10 & A11 & (Rg & SS) & ND & RR & RS). cbn [fst snd] in *.
  unfold G3, retained, smqg in *. cbn [fst snd connected neg_done h_sm sm_enabled smq sent_nr set_next_gid set_r_sent set_sq].
  split; [intros _ X; congruence|split; [exact A16|split; [exact A10|split; [exact A11|split; [split; [exact Rg|exact SS]|split; [exact ND|split; [exact RR|exact RS]]]]]]].
Qed.

Lemma G3_upd st st' g :
  connected st' = connected st -> neg_done st' = neg_done st -> sqc st' = sqc st -> smq st' = smq st ->
  sent_nr st' = sent_nr st ->
  (connected st' = true -> h_sm st' = true -> sm_enabled st' = true -> sent_nr st' = 0) ->
  G3 (st, g) -> G3 (st', g).
Proof.
  intros E1 E2 E3 E4 E5 N (B3 & A16 & A10 & A11 & (Rg & S) & ND & RR & RS). cbn [fst snd] in *.
  unfold G3, retained, smqg in *. cbn [fst snd]. rewrite E1, E2, E3, E4, E5.
  split; [exact B3|split; [rewrite <- E1, <- E5; exact N|split; [exact A10|split; [exact A11|split; [split; [exact Rg|exact S]|split; [exact ND|split; [exact RR|exact RS]]]]]]].
Qed.

Lemma recv_nodup st g : G1b (st, g) -> G3 (st, g) -> NoDup (g_recv g).
Proof.
  intros (_ & _ & _ & Co) (_ & _ & A10 & (pre & A11) & (_ & S) & _ & _). cbn [fst snd] in *.
  destruct (g_sync g) eqn:Sy.
  - destruct (S Sy) as (S1 & _). cbn [fst snd] in S1. rewrite S1.
    apply (NoDup_count_occ Z.eq_dec). intros x. destruct (Co x) as [Cx Cy]. cbn [fst snd] in *.
    fold (cnt (g_cur_done g ++ smqg st) x). rewrite cnt_app. rewrite A11, cnt_app in Cx. lia.
  - destruct (A10 eq_refl) as [R _]. rewrite R. constructor.
Qed.

(* a new logical session starts (_sm_enable) *)
Lemma G3_newsession st g :
  NoDup (g_recv g) -> G3 (st, g) ->
  G3 (set_sm_enabled (set_sent_nr st 0) true, gapply g GNewSession).
Proof.
  intros NDr H.
  destruct H as (B3 & A16 & A10 & (pre & A11) & (Rg & S) & ND & RR & RS). cbn [fst snd] in *.
  unfold G3, retained. cbn [fst snd gapply g_sync g_recv g_cur_done g_done g_old gset_sync gset_active gset_cur_done gset_recv gset_old
                             connected neg_done h_sm sm_enabled sent_nr set_sm_enabled set_sent_nr].
  split; [exact B3|split; [intros; reflexivity|split; [intros _; split; reflexivity|split; [exists (g_done g); rewrite app_nil_r; reflexivity|
    split; [split; [unfold W32; lia|intros X; discriminate X]|split; [constructor; [exact NDr|exact ND]|split]]]]]].
  - intros x I. apply RR in I. cbn [app concat]. exact I.
  - intros x I. apply RS in I. cbn [app concat]. exact I.
Qed.

Lemma neg_success_ghost st :
  exists ids, forall g, gfold g (snd (neg_success st)) = gset_subm g (g_subm g ++ ids).
Proof.
  unfold neg_success. destruct (neg_done st).
  - exists []. intros g. cbn. rewrite app_nil_r. destruct g; reflexivity.
  - destruct (script_spec (on_connect (set_neg_done st true)) (set_neg_done st true)) as (q & r & n & ids & _ & G & _).
    destruct (run_script (on_connect (set_neg_done st true)) (set_neg_done st true)) as [st2 o2]. cbn [fst snd] in *.
    exists ids. intros g. rewrite gfold_cons. cbn [gout]. apply G.
Qed.

Lemma G3_subm st g x : G3 (st, g) -> G3 (st, gset_subm g x).
Proof. intros H. eapply G3_view; [| |exact H]; reflexivity. Qed.

Lemma G3_negdone st g : G3 (st, g) -> connected st = true -> G3 (fst (neg_success st), gfold g (snd (neg_success st))).
Proof.
  intros H C. destruct (neg_success_ghost st) as (ids & Eg). rewrite Eg. apply G3_subm.
  destruct (neg_success_spec st C) as (news & _ & _ & _ & N4 & N5 & N6 & N7 & N8 & N9 & _).
  destruct (neg_success st) as [st2 o2]. cbn [fst snd] in *.
  destruct H as (B3 & A16 & A10 & A11 & (Rg & S) & ND & RR & RS).
  unfold G3, retained, smqg in *. cbn [fst snd] in *. rewrite N4, N5, N6, N7, N8, N9.
  split; [intros _ X; discriminate X|split; [intros _; apply A16, C|split; [exact A10|split; [exact A11|split; [split; [exact Rg|exact S]|split; [exact ND|split; [exact RR|exact RS]]]]]]].
Qed.

(* send_lib of a non-countable element, seen by G3 *)
Lemma G3_lib st g o text :
  G3 (st, g) -> connected st = true -> eff_owner st o = OSm ->
  let r := send_lib st o text in
  G3 (fst r, gfold g (snd r)) /\ (forall g', gfold g' (snd r) = g') /\
  connected (fst r) = true /\ neg_done (fst r) = neg_done st /\ h_sm (fst r) = h_sm st /\ sm_enabled (fst r) = sm_enabled st /\
  sqc (fst r) = sqc st /\ smq (fst r) = smq st /\ sent_nr (fst r) = sent_nr st /\ h_bind (fst r) = h_bind st /\
  h_feat (fst r) = h_feat st /\ sm_support (fst r) = sm_support st /\ bound (fst r) = bound st /\
  resume (fst r) = resume st /\ bind_saved (fst r) = bind_saved st.
Proof.
  intros H C Eo. cbn zeta. unfold send_lib. rewrite C.
  assert (Eo' : eff_owner (set_next_gid st (next_gid st + 1)) o = OSm) by exact Eo.
  abs_send. cbn [fst snd]. rewrite Eo, Eo' in *. cbn [countable] in *. gn. gsil.
  assert (Q : sqc (set_next_gid (set_r_sent (set_sq (set_next_gid st (next_gid st + 1)) q) r) n) = sqc st).
  { apply (sqc_append_sm (set_next_gid st (next_gid st + 1)) q _ tl r n Eq eq_refl Tl). }
  split.
  - eapply G3_upd; [| | | | | |exact H]; try reflexivity; [exact Q|].
    cbn. destruct H as (_ & A16 & _). exact A16.
  - split; [intros g'; apply gfold_silent, S|]. cbn. rewrite C. repeat split; try reflexivity. exact Q.
Qed.

Lemma G3_do_bind bt st g :
  G3 (st, g) -> connected st = true -> sm_enabled st = false ->
  let r := do_bind bt st in
  G3 (fst r, gfold g (snd r)) /\ (forall g', gfold g' (snd r) = g') /\ connected (fst r) = true /\
  sm_enabled (fst r) = false /\ h_sm (fst r) = h_sm st.
Proof.
  intros H C En. cbn zeta. unfold do_bind.
  assert (H1 : G3 (set_h_bind st true, g)) by (eapply G3_upd; [| | | | | |exact H]; try reflexivity; apply H).
  destruct (G3_lib (set_h_bind st true) g OLib bt H1 C) as (A & B & C1 & _ & Hs & En1 & _).
  { cbn. rewrite En. reflexivity. }
  cbn zeta in *. destruct (send_lib (set_h_bind st true) OLib bt) as [st2 o2]. cbn [fst snd] in *.
  split; [exact A|split; [exact B|split; [exact C1|split; [rewrite En1; exact En|exact Hs]]]].
Qed.

Lemma G3_features bt st g smo :
  flags2 (st, g) -> G3 (st, g) -> connected st = true -> h_feat st = true ->
  let r := handle_features bt st smo in
  G3 (fst r, gfold g (snd r)) /\ connected (fst r) = true.
Proof.
  intros F H C Hf. cbn zeta.
  destruct F as (_ & F2 & _). cbn [fst snd] in F2. destruct (F2 C Hf) as (En & _).
  unfold handle_features.
  set (st1 := if smo then set_sm_support (set_h_feat st false) true else set_h_feat st false).
  assert (H1 : G3 (st1, g)).
  { unfold st1. destruct smo; (eapply G3_upd; [| | | | | |exact H]; try reflexivity; apply H). }
  assert (C1 : connected st1 = true) by (unfold st1; destruct smo; exact C).
  assert (En1 : sm_enabled st1 = false) by (unfold st1; destruct smo; exact En).
  destruct (previd st1) as [pv|]; [destruct (sm_support st1 && can_resume st1 && sm_bound st1)|].
  - set (st2 := set_resume (set_bind_saved st1 true) true).
    assert (H2 : G3 (st2, g)) by (eapply G3_upd; [| | | | | |exact H1]; try reflexivity; apply H1).
    destruct (G3_lib st2 g OSm (resume_text pv (handled_nr st2)) H2 C1 eq_refl) as (A & B & C3 & Nd3 & Hs3 & En3 & Q3 & M3 & S3 & _).
    cbn zeta in *. destruct (send_lib st2 OSm (resume_text pv (handled_nr st2))) as [st3 o3]. cbn [fst snd] in *.
    gn. rewrite B. split; [|exact C3].
    apply G3_gquiet with (m := GResumeOut (handled_nr st2)) in A; [|exact I]. rewrite B in A.
    eapply G3_upd; [| | | | | |exact A]; try reflexivity.
    cbn. intros _ _ X. rewrite En3 in X. unfold st2 in X. cbn in X. congruence.
  - destruct (G3_do_bind bt st1 g H1 C1 En1) as (A & B & C3 & _). cbn zeta in *.
    destruct (do_bind bt st1) as [st3 o3]. cbn [fst snd] in *. split; [exact A|exact C3].
  - destruct (G3_do_bind bt st1 g H1 C1 En1) as (A & B & C3 & _). cbn zeta in *.
    destruct (do_bind bt st1) as [st3 o3]. cbn [fst snd] in *. split; [exact A|exact C3].
Qed.

Lemma G3_bind st g :
  flags2 (st, g) -> G1b (st, g) -> G3 (st, g) -> connected st = true -> h_bind st = true ->
  let r := handle_bind st in
  G3 (fst r, gfold g (snd r)) /\ connected (fst r) = true.
Proof.
  intros F G1 H C Hb. cbn zeta.
  pose proof (recv_nodup st g G1 H) as NDr.
  destruct F as (_ & _ & F3 & _). cbn [fst snd] in F3. destruct (F3 C Hb) as (En & Hs & Nd).
  unfold handle_bind.
  set (st0 := set_bound (set_h_bind st false) true).
  assert (H0 : G3 (st0, g)) by (eapply G3_upd; [| | | | | |exact H]; try reflexivity; apply H).
  destruct (sm_support st0).
  - unfold sm_enable.
    assert (H1 : G3 (set_h_sm st0 true, g)).
    { eapply G3_upd; [| | | | | |exact H0]; try reflexivity. cbn. intros _ _ X. congruence. }
    match goal with |- context[send_lib ?s ?o ?t] =>
      destruct (G3_lib s g o t H1 C eq_refl) as (A & B & C3 & Nd3 & Hs3 & En3 & Q3 & M3 & S3 & _) end.
    cbn zeta in *. match goal with |- context[send_lib ?s ?o ?t] => destruct (send_lib s o t) as [st2 o2] end.
    cbn [fst snd] in *. gn. rewrite B in *. split; [|exact C3].
    apply G3_newsession; assumption.
  - pose proof (G3_negdone st0 g H0 C) as A. split; [exact A|].
    rewrite (proj1 (neg_success_frame st0)). exact C.
Qed.

Lemma G3_sm_err st g : G3 (st, g) -> G3 (fst (sm_err st), gfold g (snd (sm_err st))).
Proof.
  intros H. unfold sm_err. cbn [fst snd]. gn. apply G3_gquiet; [exact I|].
  eapply G3_upd; [| | | | | |exact H]; try reflexivity. cbn. intros _ _ X. discriminate X.
Qed.

(* after the SM queue has been re-queued and the negotiation is complete *)
Lemma G3_after_resend st l g' :
  (* st: state before resend, with smq st = l; g': ghost after the marks of the step *)
  smq st = l -> connected st = true ->
  let st3 := fst (neg_success (fst (resend l st))) in
  0 <= sent_nr st < W32 ->
  (g_sync g' = false -> g_recv g' = [] /\ g_cur_done g' = []) ->
  (exists pre, g_done g' = pre ++ g_cur_done g') ->
  (g_sync g' = true -> g_recv g' = g_cur_done g' /\ sent_nr st = w32 (zlen (g_recv g'))) ->
  Forall (@NoDup Z) (g_old g') ->
  incl (g_done g') (g_recv g' ++ concat (g_old g')) ->
  h_sm st = false ->
  G3 (st3, g') /\ connected st3 = true /\ h_sm st3 = false.
Proof.
  intros El C. cbn zeta. intros Rg A10 A11 S ND RR Hs.
  destruct (resend_frame l st) as (q & r1 & n & E & _).
  destruct (resend l st) as [st2 o2]. cbn [fst snd] in *.
  assert (M2 : smq st2 = []) by (rewrite E; cbn; rewrite El; destruct l; reflexivity).
  assert (Hs2 : h_sm st2 = false) by (rewrite E; exact Hs).
  assert (Sn2 : sent_nr st2 = sent_nr st) by (rewrite E; reflexivity).
  assert (C2 : connected st2 = true) by (rewrite E; exact C).
  destruct (neg_success_spec st2 C2) as (news & _ & _ & _ & N4 & N5 & _ & N7 & N8 & N9 & _).
  destruct (neg_success st2) as [st3 o3]. cbn [fst snd] in *.
  split; [|split; [exact N8|rewrite N9; exact Hs2]].
  unfold G3, retained, smqg. cbn [fst snd]. rewrite N4, M2, N9, Hs2, N5, Sn2, N7. cbn [map length seqZ].
  split; [intros _ X; discriminate X|split; [intros _ X; discriminate X|split; [exact A10|split; [exact A11|
    split; [split; [exact Rg|]|split; [exact ND|split; [exact RR|intros x []]]]]]]].
  intros Sy. destruct (S Sy) as (S1 & S2). rewrite app_nil_r. repeat split; assumption.
Qed.

Lemma firstn_app_exact {A} (a b : list A) k : firstn (length a + k) (a ++ b) = a ++ firstn k b.
Proof. rewrite firstn_app. rewrite firstn_all2 by lia. replace (length a + k - length a)%nat with k by lia. reflexivity. Qed.

Lemma send_lib_frame st o text :
  connected st = true -> eff_owner st o = OSm ->
  let r := send_lib st o text in
  (forall g', gfold g' (snd r) = g') /\
  connected (fst r) = true /\ neg_done (fst r) = neg_done st /\ h_sm (fst r) = h_sm st /\
  sqc (fst r) = sqc st /\ smq (fst r) = smq st /\ sent_nr (fst r) = sent_nr st.
Proof.
  intros C Eo. cbn zeta. unfold send_lib. rewrite C.
  assert (Eo' : eff_owner (set_next_gid st (next_gid st + 1)) o = OSm) by exact Eo.
  abs_send. cbn [fst snd]. rewrite Eo, Eo' in *. cbn [countable] in *. gn.
  split; [intros g'; apply gfold_silent, S|]. cbn [connected neg_done h_sm smq sent_nr set_next_gid set_r_sent set_sq].
  rewrite C. repeat split; try reflexivity.
  apply (sqc_append_sm (set_next_gid st (next_gid st + 1)) q _ tl r n Eq eq_refl Tl).
Qed.

(* the ghost and the state after <failed/> has been processed *)
Lemma G3_failed_final st g s5 kept rel :
  G3 (st, g) -> NoDup (g_recv g) -> smq st = rel ++ kept -> connected st = true ->
  connected s5 = true -> ((neg_done s5 = neg_done st /\ sqc s5 = sqc st) \/ neg_done s5 = true) -> h_sm s5 = false ->
  smq s5 = kept -> sent_nr s5 = 0 ->
  G3 (s5, gapply (gapply (gapply g (GRelease (map s_gid rel))) GFailed) GSmOff).
Proof.
  intros (B3 & A16 & A10 & (pre & A11) & (Rg & S) & ND & RR & RS) NDr Sp C C5 Nd5 Hs5 M5 S5. cbn [fst snd] in *.
  unfold G3, retained, smqg in *.
  cbn [fst snd gapply g_sync g_recv g_cur_done g_done g_old gset_active gset_in gset_sync gset_cur_done gset_recv gset_old gset_done].
  rewrite C5, Hs5, M5, S5.
  split; [intros _ X; destruct Nd5 as [[Y Q5]|Y]; [rewrite Y in X; rewrite Q5; apply B3; assumption|congruence]|].
  split; [intros _ X; discriminate X|].
  split; [intros _; split; reflexivity|].
  split; [exists (g_done g ++ map s_gid rel); rewrite app_nil_r; reflexivity|].
  split; [split; [unfold W32; lia|intros X; discriminate X]|].
  split; [constructor; [exact NDr|exact ND]|].
  split.
  - intros x I. cbn [app concat]. apply in_app_or in I as [I|I]; [apply RR, I|].
    apply RS. rewrite Sp, map_app. apply in_or_app. left. exact I.
  - intros x I. cbn [app concat]. apply RS. rewrite Sp, map_app. apply in_or_app. right. exact I.
Qed.

(* the common tail of the <failed/> branch *)
Lemma G3_failed_tail3 bt st g s2 kept rel (resuming : bool) :
  G3 (st, g) -> NoDup (g_recv g) -> smq st = rel ++ kept -> connected st = true ->
  connected s2 = true -> neg_done s2 = neg_done st -> h_sm s2 = false -> sqc s2 = sqc st -> smq s2 = kept ->
  sm_enabled s2 = false ->
  let had_bind := bind_saved s2 in
  let st2 := reset_sm_state s2 in
  let r := if had_bind then do_bind bt st2 else if resuming then xmpp_disconnect st2 else neg_success st2 in
  G3 (set_sm_enabled (fst r) false,
      gfold g (OG (GRelease (map s_gid rel)) :: OG GFailed :: snd r ++ [cb (fst r); OG GSmOff])) /\
  connected (set_sm_enabled (fst r) false) = true /\ h_sm (set_sm_enabled (fst r) false) = false.
Proof.
  intros H NDr Sp C C2 Nd2 Hs2 Q2 M2 En2. cbn zeta.
  set (st2 := reset_sm_state s2).
  assert (C3 : connected st2 = true) by exact C2.
  assert (Fr : exists s4 o4, (if bind_saved s2 then do_bind bt st2 else if resuming then xmpp_disconnect st2 else neg_success st2) = (s4, o4) /\
                 (forall g', gview3 (gfold g' o4) = gview3 g') /\ connected s4 = true /\
                 ((neg_done s4 = neg_done st /\ sqc s4 = sqc st) \/ neg_done s4 = true) /\
                 h_sm s4 = false /\ smq s4 = kept /\ sent_nr s4 = 0).
  { destruct (bind_saved s2); [|destruct resuming].
    - unfold do_bind.
      destruct (send_lib_frame (set_h_bind st2 true) OLib bt C3) as (B & C4 & Nd4 & Hs4 & Q4 & M4 & S4).
      { unfold st2. cbn. rewrite En2. reflexivity. }
      cbn zeta in *. destruct (send_lib (set_h_bind st2 true) OLib bt) as [s4 o4]. cbn [fst snd] in *.
      exists s4, o4. split; [reflexivity|]. split; [intros g'; rewrite B; reflexivity|split; [exact C4|split; [left; split; [rewrite Nd4; exact Nd2|rewrite Q4; exact Q2]|
        split; [rewrite Hs4; exact Hs2|split; [rewrite M4; exact M2|rewrite S4; reflexivity]]]]].
    - unfold xmpp_disconnect.
      destruct (send_lib_frame st2 OSm END_TEXT C3 eq_refl) as (B & C4 & Nd4 & Hs4 & Q4 & M4 & S4).
      cbn zeta in *. destruct (send_lib st2 OSm END_TEXT) as [s4 o4]. cbn [fst snd] in *.
      exists s4, o4. split; [reflexivity|]. split; [intros g'; rewrite B; reflexivity|split; [exact C4|split; [left; split; [rewrite Nd4; exact Nd2|rewrite Q4; exact Q2]|
        split; [rewrite Hs4; exact Hs2|split; [rewrite M4; exact M2|rewrite S4; reflexivity]]]]].
    - destruct (neg_success_ghost st2) as (ids & Eg).
      destruct (neg_success_spec st2 C3) as (news & _ & _ & _ & N4 & N5 & _ & N7 & N8 & N9 & _).
      destruct (neg_success st2) as [s4 o4]. cbn [fst snd] in *.
      exists s4, o4. split; [reflexivity|]. split; [intros g'; rewrite Eg; reflexivity|].
      split; [exact N8|split; [right; exact N7|split; [rewrite N9; exact Hs2|split; [rewrite N4; exact M2|rewrite N5; reflexivity]]]]. }
  destruct Fr as (s4 & o4 & Ex & B & C4 & Nd4 & Hs4 & M4 & S4). rewrite Ex. cbn [fst snd].
  gn. split; [|split; [exact C4|exact Hs4]].
  eapply G3_view; [reflexivity| |apply (G3_failed_final st g (set_sm_enabled s4 false) kept rel H NDr Sp C); assumption].
  rewrite (gview3_quiet _ GSmOff I), (gview3_quiet _ GSmOff I). symmetry. apply B.
Qed.

Lemma G3_handle_sm bt st g el :
  flags2 (st, g) -> G1b (st, g) -> G3 (st, g) -> connected st = true -> h_sm st = true ->
  honest (st, g) (AIn (ISm el)) ->
  let r := handle_sm bt st el in
  G3 (fst r, gfold g (snd r)) /\ connected (fst r) = true /\ h_sm (fst r) = false.
Proof.
  intros F G1 H C Hs Hon. cbn zeta.
  pose proof (recv_nodup st g G1 H) as NDr.
  assert (H0 : G3 (set_h_sm st false, g)).
  { eapply G3_upd; [| | | | | |exact H]; try reflexivity. cbn. intros _ X. discriminate X. }
  unfold handle_sm. set (st0 := set_h_sm st false) in *.
  assert (Err : forall s g0, G3 (s, g0) -> connected s = true -> h_sm s = false ->
                G3 (fst (sm_err s), gfold g0 (snd (sm_err s))) /\ connected (fst (sm_err s)) = true /\ h_sm (fst (sm_err s)) = false).
  { intros s g0 X Y Z. split; [apply G3_sm_err, X|split; [exact Y|exact Z]]. }
  destruct el as [|a|ra id|pv h|c h|].
  - (* <r/> while negotiating *)
    cbn [fst snd]. gn. split; [|split; [exact C|reflexivity]].
    apply G3_gquiet; [exact I|]. eapply G3_upd; [| | | | | |exact H0]; try reflexivity. cbn. intros _ X. discriminate X.
  - cbn [fst snd]. gn. split; [|split; [exact C|reflexivity]].
    apply G3_gquiet; [exact I|]. eapply G3_upd; [| | | | | |exact H0]; try reflexivity. cbn. intros _ X. discriminate X.
  - (* <enabled/> *)
    destruct (sm_enabled st0) eqn:En; cbn [negb]; [|apply Err; [exact H0|exact C|reflexivity]].
    cbn [sm_enabled set_h_sm] in En. unfold st0 in En.
    destruct F as (_ & _ & _ & _ & _ & _ & _ & _ & _ & F10 & _). cbn [fst snd] in F10.
    destruct (F10 C Hs En) as (_ & _ & Sy).
    destruct H as (B3 & A16 & A10 & A11 & (Rg & S) & ND & RR & RS). cbn [fst snd] in *.
    destruct (A10 Sy) as (Rn & Cn). specialize (A16 C Hs En).
    set (st1 := set_handled_nr st0 0).
    match goal with |- context[match ?x with Some _ => _ | None => _ end] => destruct x as [st2|] eqn:Ea end.
    + assert (VV : smq st2 = smq st /\ sent_nr st2 = sent_nr st /\ h_sm st2 = false /\ connected st2 = true).
      { destruct ra; [destruct id; [|discriminate Ea]|]; inversion Ea; repeat split; assumption. }
      destruct VV as (V1 & V2 & V3 & V4).
      pose proof (G3_after_resend st2 (smq st2) (gapply (gapply g GEnabledSeen) GEnabled) eq_refl V4) as R. cbn zeta in R.
      destruct (resend (smq st2) st2) as [st3 o3] eqn:Er. cbn [fst snd] in *.
      pose proof (resend_frame (smq st2) st2) as Fr. rewrite Er in Fr. destruct Fr as (_ & _ & _ & _ & Sil). cbn [snd] in Sil.
      destruct (neg_success_ghost st3) as (ids & Eo4).
      destruct (neg_success st3) as [st4 o4]. cbn [fst snd] in *.
      gn. rewrite (gfold_silent _ o3 Sil). rewrite Eo4.
      cut (G3 (st4, gapply (gapply g GEnabledSeen) GEnabled) /\ connected st4 = true /\ h_sm st4 = false);
        [intros (R1 & R2 & R3); split; [apply G3_subm, R1|split; assumption]|].
      apply R; cbn [gapply g_sync g_recv g_cur_done g_done g_old gset_sync gset_in].
      * rewrite V2. exact Rg.
      * intros X. discriminate X.
      * exact A11.
      * intros _. rewrite Rn, Cn, V2, A16. split; reflexivity.
      * exact ND.
      * exact RR.
      * exact V3.
    + pose proof (G3_sm_err st1 (gapply g GEnabledSeen)) as X.
      unfold sm_err in *. cbn [fst snd] in *. gn. split; [|split; [exact C|reflexivity]].
      apply X. apply G3_gquiet; [exact I|]. eapply G3_upd; [| | | | | |exact H0]; try reflexivity. apply H0.
  - (* <resumed/> *)
    destruct pv as [p|]; [|apply Err; [exact H0|exact C|reflexivity]].
    destruct (previd st0) as [mine|] eqn:Ep; [|apply Err; [exact H0|exact C|reflexivity]].
    destruct (list_eqb p mine); [|apply Err; [exact H0|exact C|reflexivity]].
    destruct h as [hv|]; [|apply Err; [exact H0|exact C|reflexivity]].
    cbn [honest fst snd] in Hon. destruct Hon as ((Hh1 & Hh2) & Hw).
    destruct F as (_ & _ & _ & _ & _ & _ & _ & F8 & _). cbn [fst snd] in F8.
    assert (Pn : previd st <> None) by (change (previd st) with (previd st0); rewrite Ep; discriminate).
    destruct (F8 Pn) as (Sy & _).
    destruct G1 as (_ & (_ & N2) & _ & Co). cbn [fst snd] in *.
    destruct H as (B3 & A16 & A10 & (pre & A11) & (Rg & S) & ND & RR & RS). cbn [fst snd] in *.
    destruct (S Sy) as (S1 & S2 & S3). cbn [fst snd] in *. unfold smqg in *.
    match goal with |- context[cleanup (smq ?s) hv] => set (st1 := s) end.
    assert (Zl : zlen (g_recv g) = zlen (g_cur_done g) + zlen (smq st)) by (rewrite S1, zlen_app, zlen_map; reflexivity).
    assert (Ck : cleanup (smq st1) hv =
                 (skipn (Z.to_nat (hv - zlen (g_cur_done g))) (smq st), firstn (Z.to_nat (hv - zlen (g_cur_done g))) (smq st))).
    { change (smq st1) with (smq st).
      pose proof (cleanup_seq (smq st) (zlen (g_cur_done g)) hv S2) as X. cbn zeta in X.
      rewrite X; [|unfold zlen; lia|lia|lia]. replace (Z.min (hv - zlen (g_cur_done g)) (zlen (smq st))) with (hv - zlen (g_cur_done g)) by lia.
      reflexivity. }
    rewrite Ck.
    set (k := Z.to_nat (hv - zlen (g_cur_done g))) in *.
    assert (Hk : (k <= length (smq st))%nat) by (unfold k, zlen in *; lia).
    set (kept := skipn k (smq st)). set (rel := firstn k (smq st)).
    set (g1 := gapply (gapply g (GResumed hv)) (GRelease (map s_gid rel))).
    pose proof (G3_after_resend (set_smq st1 kept) kept g1 eq_refl C) as R. cbn zeta in R.
    destruct (resend kept (set_smq st1 kept)) as [st3 o3] eqn:Er. cbn [fst snd] in *.
    pose proof (resend_frame kept (set_smq st1 kept)) as Fr. rewrite Er in Fr. destruct Fr as (_ & _ & _ & _ & Sil). cbn [snd] in Sil.
    destruct (neg_success_ghost st3) as (ids & Eo4).
    destruct (neg_success st3) as [st4 o4]. cbn [fst snd] in *.
    gn. rewrite (gfold_silent _ o3 Sil). rewrite Eo4. fold g1.
    cut (G3 (st4, g1) /\ connected st4 = true /\ h_sm st4 = false);
      [intros (R1 & R2 & R3); split; [apply G3_subm, R1|split; assumption]|].
    assert (Fn : firstn (Z.to_nat hv) (g_recv g) = g_cur_done g ++ map s_gid rel).
    { rewrite S1. replace (Z.to_nat hv) with (length (g_cur_done g) + k)%nat by (unfold k, zlen in *; lia).
      rewrite firstn_app_exact. unfold rel. rewrite firstn_map. reflexivity. }
    apply R; unfold g1; cbn [gapply g_sync g_recv g_cur_done g_done g_old gset_active gset_recv gset_cur_done gset_done
                              sent_nr set_smq]; unfold st1; cbn [sent_nr set_sent_nr].
    * apply w32_range.
    * intros X. congruence.
    * exists pre. rewrite A11, <- app_assoc. reflexivity.
    * intros _. rewrite Fn. split; [reflexivity|]. f_equal. rewrite zlen_app, zlen_map. unfold rel, zlen. rewrite firstn_length. unfold k, zlen in *. lia.
    * exact ND.
    * rewrite Fn. intros x Ix. apply in_app_or in Ix as [Ix|Ix].
      -- (* released earlier: it is in the received list, and it cannot be among the re-queued ones *)
         pose proof (RR x Ix) as Iy. apply in_app_or in Iy as [Iy|Iy]; [|apply in_or_app; right; exact Iy].
         apply in_or_app. left. rewrite S1 in Iy. apply in_app_or in Iy as [Iy|Iy]; [apply in_or_app; left; exact Iy|].
         rewrite <- (firstn_skipn k (smq st)), map_app in Iy. apply in_app_or in Iy as [Iy|Iy]; [apply in_or_app; right; exact Iy|].
         exfalso. destruct (Co x) as [Cx Cy]. cbn [fst snd] in Cx, Cy. unfold smqg in Cx.
         assert (Q1 : (1 <= cnt (g_done g) x)%nat) by (apply (count_occ_In Z.eq_dec); exact Ix).
         assert (Q2 : (1 <= cnt (map s_gid (smq st)) x)%nat).
         { apply (count_occ_In Z.eq_dec). rewrite <- (firstn_skipn k (smq st)), map_app. apply in_or_app. right. exact Iy. }
         lia.
      -- apply in_or_app. left. apply in_or_app. right. exact Ix.
    * reflexivity.
  - (* <failed/> *)
    set (st1 := set_sm_enabled st0 false).
    assert (H1 : G3 (st1, g)).
    { eapply G3_upd; [| | | | | |exact H0]; try reflexivity. cbn. intros _ _ X. discriminate X. }
    destruct c; [apply Err; [exact H1|exact C|reflexivity]| | |]; cbv iota.
    + (* item-not-found *)
      assert (Ex : exists k, (if resume st1 then
                              let '(k0, rl) := cleanup (smq st1) (match h with Some v => v | None => 0 end) in (set_smq st1 k0, rl)
                              else (st1, [])) =
                             (set_smq st1 (skipn k (smq st)), firstn k (smq st)) /\ (k <= length (smq st))%nat).
      { destruct (resume st1).
        - destruct (cleanup_prefix (smq st1) (match h with Some v => v | None => 0 end)) as (k & Ek & Hk).
          exists k. rewrite Ek. split; [reflexivity|exact Hk].
        - exists 0%nat. cbn [skipn firstn]. split; [|lia]. reflexivity. }
      destruct Ex as (k & Ex & Hk). rewrite Ex. clear Ex.
      pose proof (G3_failed_tail3 bt st g (set_smq st1 (skipn k (smq st))) (skipn k (smq st)) (firstn k (smq st)) (resume st0) H NDr
                    (eq_sym (firstn_skipn k (smq st))) C C eq_refl eq_refl eq_refl eq_refl eq_refl) as T. cbn zeta in T.
      match type of T with context[fst ?x] => destruct x as [s5 o5] end. exact T.
    + pose proof (G3_failed_tail3 bt st g (set_dont_req (set_can_resume (set_resume st1 false) false) true) (smq st) [] (resume st0) H NDr
                    eq_refl C C eq_refl eq_refl eq_refl eq_refl eq_refl) as T. cbn zeta in T.
      match type of T with context[fst ?x] => destruct x as [s5 o5] end. exact T.
    + pose proof (G3_failed_tail3 bt st g st1 (smq st) [] (resume st0) H NDr
                    eq_refl C C eq_refl eq_refl eq_refl eq_refl eq_refl) as T. cbn zeta in T.
      match type of T with context[fst ?x] => destruct x as [s5 o5] end. exact T.
  - cbn [fst snd]. gn. split; [|split; [exact C|reflexivity]].
    apply G3_gquiet; [exact I|]. eapply G3_upd; [| | | | | |exact H0]; try reflexivity. cbn. intros _ X. discriminate X.
Qed.

Lemma G3_fire bt st g it :
  flags2 (st, g) -> G1b (st, g) -> G3 (st, g) -> connected st = true -> honest (st, g) (AIn it) ->
  let r := fire bt st it in
  G3 (fst r, gfold g (snd r)) /\ connected (fst r) = true /\ (forall e, it = ISm e -> h_sm (fst r) = false).
Proof.
  intros F G1 H C Hon. cbn zeta. unfold fire.
  destruct it as [| | |smo|e].
  - split; [exact H|split; [exact C|intros e X; discriminate X]].
  - split; [exact H|split; [exact C|intros e X; discriminate X]].
  - destruct (h_bind st) eqn:Hb.
    + destruct (G3_bind st g F G1 H C Hb) as (A & B). split; [exact A|split; [exact B|intros e X; discriminate X]].
    + split; [exact H|split; [exact C|intros e X; discriminate X]].
  - destruct (h_feat st) eqn:Hf.
    + destruct (G3_features bt st g smo F H C Hf) as (A & B). split; [exact A|split; [exact B|intros e X; discriminate X]].
    + split; [exact H|split; [exact C|intros e X; discriminate X]].
  - destruct (h_sm st) eqn:Hs.
    + destruct (G3_handle_sm bt st g e F G1 H C Hs Hon) as (A & B & D). split; [exact A|split; [exact B|intros; exact D]].
    + split; [exact H|split; [exact C|intros; exact Hs]].
Qed.

Definition G123 (s : sys) : Prop := G1b s /\ flags2 s /\ G3 s.

Lemma G3_step bt s a : G123 s -> honest s a -> G3 (sys_step bt s a).
Proof.
  destruct s as [st g]. intros (G1 & F & H) Hon.
  destruct a as [t|sched|it| | | |l0].
  - apply G3_send, H.
  - unfold sys_step, step. cbn [fst snd]. unfold write_phase. destruct (connected st) eqn:C; [|exact H].
    pose proof (G3_wloop st g sched F H C) as W. cbn zeta in W.
    destruct (wloop (sq st) sched st) as [[[st1 o] err] sl]. cbn [fst snd] in *.
    destruct err; [|exact W].
    pose proof (G3_disconnect _ _ W) as D. destruct (disconnect st1) as [st2 o2]. cbn [fst snd] in *. rewrite gfold_app. exact D.
  - unfold sys_step, step. cbn [fst snd]. unfold dispatch. destruct (connected st) eqn:C; [|exact H]. cbn [negb].
    destruct (G3_fire bt st g it F G1 H C Hon) as (H1 & C1 & Hh).
    pose proof (flags2_fire bt st g it F C) as F1.
    destruct (fire bt st it) as [st1 o1]. cbn [fst snd] in *.
    assert (Sy : forall e, it = ISm e -> sm_enabled st1 = true -> g_sync (gfold g o1) = true).
    { intros e E En. destruct F1 as (A1 & _ & _ & _ & _ & A6 & _). cbn [fst snd] in *.
      destruct (g_sync (gfold g o1)) eqn:Sy; [reflexivity|exfalso].
      destruct (A6 (eq_trans (eq_sym A1) En) eq_refl) as (_ & _ & X). rewrite (Hh e E) in X. discriminate X. }
    pose proof (G3_post st1 (gfold g o1) it H1 C1 Sy) as H2. cbn zeta in H2.
    destruct (if sm_enabled st1 then sm_handle st1 it else (st1, [])) as [st2 o2]. cbn [fst snd] in *.
    rewrite !gfold_app. exact H2.
  - unfold sys_step, step. cbn [fst snd]. destruct (connected st) eqn:C; [|exact H]. unfold stream_end.
    assert (H1 : G3 (set_can_resume st false, g)) by (eapply G3_view; [| |exact H]; reflexivity).
    pose proof (G3_disconnect _ _ H1) as H2.
    destruct (disconnect (set_can_resume st false)) as [st2 o2]. cbn [fst snd] in *. rewrite gfold_cons. exact H2.
  - unfold sys_step, step. cbn [fst snd]. pose proof (G3_disconnect _ _ H) as H2.
    destruct (disconnect st) as [st2 o2]. exact H2.
  - unfold sys_step, step. cbn [fst snd]. pose proof (G3_connect _ _ H) as H2.
    destruct (do_connect st) as [st2 o2]. exact H2.
  - unfold sys_step, step. cbn [fst snd]. eapply G3_view; [| |exact H]; reflexivity.
Qed.

Lemma G3_init : G3 sys0.
Proof.
  unfold G3, sys0, retained, smqg. cbn. unfold W32.
  repeat split; try discriminate; try reflexivity; try lia; try (exists []; reflexivity); try constructor; intros x [].
Qed.

Lemma G123_run bt l s : G123 s -> all_honest bt s l -> G123 (sys_run bt s l).
Proof.
  revert s; induction l as [|a l IH]; intros s H Hon; [exact H|]. cbn in Hon |- *. destruct Hon as [Ha Hl].
  apply IH; [|exact Hl]. destruct H as (G1 & F & H3).
  split; [apply G1b_step, G1|split; [apply flags2_step, F|apply G3_step; [exact (conj G1 (conj F H3))|exact Ha]]].
Qed.

Lemma G123_init : G123 sys0.
Proof. split; [exact G1b_init|split; [exact flags2_init|exact G3_init]]. Qed.

(* ------------------------------------------------------------------ C04, over all histories *)
Lemma c04_retained bt l : all_honest bt sys0 l -> retained (sys_run bt sys0 l).
Proof. intros Hon. destruct (G123_run bt l sys0 G123_init Hon) as (_ & _ & (_ & _ & _ & _ & (_ & S) & _)). exact S. Qed.

Lemma c04_sessions_nodup bt l : all_honest bt sys0 l -> sessions_nodup (snd (sys_run bt sys0 l)).
Proof.
  intros Hon. destruct (G123_run bt l sys0 G123_init Hon) as (G1 & _ & H).
  destruct (sys_run bt sys0 l) as [st g]. split; [apply (recv_nodup st g G1 H)|apply H].
Qed.

Lemma c04_released_received bt l : all_honest bt sys0 l -> released_were_received (snd (sys_run bt sys0 l)).
Proof. intros Hon. destruct (G123_run bt l sys0 G123_init Hon) as (_ & _ & H). apply H. Qed.

(* the negotiation never completes with a countable element pending, and a session that is being set up starts at 0 *)
Lemma c04_negotiation_clean bt l :
  all_honest bt sys0 l ->
  let st := fst (sys_run bt sys0 l) in
  (connected st = true -> neg_done st = false -> sqc st = []) /\
  (connected st = true -> h_sm st = true -> sm_enabled st = true -> sent_nr st = 0).
Proof. intros Hon. destruct (G123_run bt l sys0 G123_init Hon) as (_ & _ & (B3 & A16 & _)). split; assumption. Qed.

(* the hypotheses are satisfiable: a history with a resumption that the honesty condition admits *)
Example honest_history_exists :
  exists l, all_honest [] sys0 l /\
            g_sync (snd (sys_run [] sys0 l)) = true /\ length (g_recv (snd (sys_run [] sys0 l))) = 1%nat /\
            sqc (fst (sys_run [] sys0 l)) = [5].
Proof.
  exists [AConnect; AIn (IFeatures true); AWrite []; AIn IBindResult; AWrite [];
          AIn (ISm (SmEnabled true (Some [65]))); ASend [120]; ASend [121]; AWrite []; ALoss;
          AConnect; AIn (IFeatures true); AWrite []; AIn (ISm (SmResumed (Some [65]) (Some 1)))].
  vm_compute. repeat split; try reflexivity; intros X; discriminate X.
Qed.

(* ... and one in which the connection handler submits a stanza on every CONNECT: after <resumed h=2> the re-queued
   stanza (ghost id 6) is ahead of the handler's new one (ghost id 9) *)
Example honest_history_with_connect_handler :
  exists l, all_honest [] sys0 l /\ sqc (fst (sys_run [] sys0 l)) = [6; 9].
Proof.
  exists [AOnConnect [[119]]; AConnect; AIn (IFeatures true); AWrite []; AIn IBindResult; AWrite [];
          AIn (ISm (SmEnabled true (Some [65]))); ASend [120]; ASend [121]; AWrite []; ALoss; AOnConnect [[122]];
          AConnect; AIn (IFeatures true); AWrite []; AIn (ISm (SmResumed (Some [65]) (Some 2)))].
  vm_compute. repeat split; try reflexivity; intros X; discriminate X.
Qed.
