(* C14 - proofs about SrvModel (server discovery). *)
Require Import LV.Common.Bytes LV.Gen.Gen_srv LV.Spec.SrvSpec LV.Model.SrvModel.
Require Import Lia ZifyBool.
Local Open Scope Z_scope.

(* ------------------------------------------------------------------ generated constants *)

Lemma Gen_srv_ok :
  CONNECT_TIMEOUT = spec_connect_timeout /\
  XMPP_PORT_CLIENT = spec_port_client /\
  XMPP_PORT_CLIENT_LEGACY_SSL = spec_port_legacy_ssl /\
  XMPP_PORT_COMPONENT = spec_port_component /\
  (forall b, default_port_client b = spec_default_port Client b) /\
  default_port_component = spec_default_port Component false /\
  (forall el t, connect_in_time el t = (el <=? t)) /\
  XMPP_EOK = 0 /\ XMPP_EINT <> 0 /\ XMPP_EINVOP <> 0.
Proof.
  repeat split; try reflexivity; try (intros []; reflexivity); try discriminate.
Qed.

(* ------------------------------------------------------------------ observers and append *)

Lemma attempt_evs_app : forall a b, attempt_evs (a ++ b) = attempt_evs a ++ attempt_evs b.
Proof. intros. unfold attempt_evs. apply flat_map_app. Qed.

Lemma failed_app : forall a b, failed (a ++ b) = failed a || failed b.
Proof. intros. apply existsb_app. Qed.

Lemma timed_out_app : forall j a b, timed_out j (a ++ b) = timed_out j a || timed_out j b.
Proof. intros. apply existsb_app. Qed.

Lemma queries_app : forall a b, queries (a ++ b) = queries a ++ queries b.
Proof. intros. apply filter_app. Qed.

Lemma number_from_app : forall behv a b k,
  number_from behv k (a ++ b) = number_from behv k a ++ number_from behv (k + length a) b.
Proof.
  induction a as [|x a IH]; intros; cbn [number_from app length].
  - now rewrite Nat.add_0_r.
  - rewrite IH. now rewrite Nat.add_succ_r.
Qed.

Lemma number_from_length : forall behv cs k, length (number_from behv k cs) = length cs.
Proof. induction cs; intros; cbn; auto. Qed.

Lemma number_from_cands : forall behv cs k, map (fun x => snd (fst x)) (number_from behv k cs) = cs.
Proof. induction cs; intros; cbn; auto. now rewrite IHcs. Qed.

(* events a socket-level step can emit: getaddrinfo, connect, close *)
Definition sc_event (e : ev) : bool :=
  match e with EvG _ _ _ | EvC _ _ _ | EvX _ => true | _ => false end.
Definition quiet (l : list ev) : Prop := forallb sc_event l = true.


Lemma quiet_app : forall a b, quiet a -> quiet b -> quiet (a ++ b).
Proof. unfold quiet. intros. rewrite forallb_app. now rewrite H, H0. Qed.

Lemma quiet_existsb_false : forall (q : ev -> bool) l,
  (forall e, sc_event e = true -> q e = false) -> quiet l -> existsb q l = false.
Proof.
  unfold quiet. induction l as [|x l IH]; intros Hq H; cbn in *; auto.
  apply andb_true_iff in H as [Hx Hl]. rewrite (Hq _ Hx). cbn. auto.
Qed.

Lemma quiet_failed : forall l, quiet l -> failed l = false.
Proof. intros. apply quiet_existsb_false; auto. intros [] H0; cbn in *; auto; discriminate. Qed.
Lemma quiet_timed_out : forall j l, quiet l -> timed_out j l = false.
Proof. intros. apply quiet_existsb_false; auto. intros [] H0; cbn in *; auto; discriminate. Qed.
Lemma quiet_queries : forall l, quiet l -> queries l = [].
Proof.
  unfold quiet. induction l as [|x l IH]; intros H; cbn in *; auto.
  apply andb_true_iff in H as [Hx Hl]. destruct x; cbn in *; auto; discriminate.
Qed.
Lemma quiet_no_fuel : forall l, quiet l -> ~ In EvFuel l.
Proof.
  unfold quiet. intros l H Hin. rewrite forallb_forall in H. specialize (H _ Hin). discriminate.
Qed.
Lemma quiet_no_est : forall l, quiet l -> Forall no_est l.
Proof.
  unfold quiet. intros l H. rewrite forallb_forall in H. apply Forall_forall. intros x Hx.
  specialize (H _ Hx). destruct x; cbn in *; auto; discriminate.
Qed.

(* ------------------------------------------------------------------ sock_connect *)

Section Proofs.
  Variable gai : list Z -> nat.
  Variable behv : nat -> beh.

  Definition remaining (xs : xsock) : list cand := xs_ainfo xs ++ flatten gai (xs_srv xs).

  Lemma addrs_endpoints : forall r, addrs gai r = endpoints_of gai r.
  Proof. reflexivity. Qed.

  Definition sc_measure (xs : xsock) : nat :=
    (length (xs_ainfo xs) + length (flatten gai (xs_srv xs)) + length (xs_srv xs))%nat.

  (* the repaired sock_connect walks the remaining flattened candidates in order, numbering the
     descriptors consecutively, skipping exactly the refusing ones, and says "invalid" only when
     nothing remains *)
  Lemma sock_connect_ok : forall fuel xs nfd r xs' nfd' e,
    (sc_measure xs < fuel)%nat ->
    sock_connect gai behv true fuel xs nfd = (r, xs', nfd', e) ->
    exists tried,
      remaining xs = tried ++ remaining xs' /\
      nfd' = (nfd + length tried)%nat /\
      attempt_evs e = number_from behv nfd tried /\
      quiet e /\
      match r with
      | ScSock fd =>
          (fd < nfd')%nat /\ nfd' = S fd /\ (nfd <= fd)%nat /\ behv fd <> Refuse /\
          (forall i, (nfd <= i < fd)%nat -> behv i = Refuse)
      | ScInvalid => remaining xs' = [] /\ (forall i, (nfd <= i < nfd')%nat -> behv i = Refuse)
      | ScFuel => False
      end.
  Proof.
    induction fuel as [|f IH]; intros xs nfd r xs' nfd' e Hm H; [lia|].
    destruct xs as [ai srv]. cbn [sock_connect xs_ainfo xs_srv] in H.
    unfold sc_measure in Hm. cbn [xs_ainfo xs_srv] in Hm.
    destruct ai as [|a rest].
    - destruct srv as [|r0 srest].
      + inversion H; subst. exists []. cbn. repeat split; auto. all: try (intros; lia).
      + cbn [sock_getaddrinfo xs_srv] in H. unfold srv_advance in H. cbn [xs_ainfo xs_srv tl] in H.
        assert (H' : (let '(r, xs2, n2, e2) :=
                        sock_connect gai behv true f (mk_xsock (addrs gai r0) srest) nfd in
                      (r, xs2, n2, [EvG (sr_target r0) (sr_port r0) (gai (sr_target r0))] ++ e2))
                     = (r, xs', nfd', e)).
        { destruct (addrs gai r0); exact H. }
        clear H.
        destruct (sock_connect gai behv true f (mk_xsock (addrs gai r0) srest) nfd) as [[[r1 xs1] n1] e1] eqn:E.
        inversion H'; subst; clear H'.
        apply IH in E.
        2:{ unfold sc_measure, flatten in *. cbn [xs_ainfo xs_srv]. cbn [flat_map length] in Hm.
            rewrite app_length in Hm. rewrite addrs_endpoints. lia. }
        destruct E as (tried & Hrem & Hn & Hatt & Hq & Hr).
        exists tried. repeat split; auto.
    - cbn [length] in Hm.
      destruct (behv nfd) eqn:Eb.
      + destruct (sock_connect gai behv true f (mk_xsock rest srv) (S nfd)) as [[[r1 xs1] n1] e1] eqn:E.
        inversion H; subst; clear H.
        apply IH in E. 2:{ unfold sc_measure. cbn [xs_ainfo xs_srv]. lia. }
        destruct E as (tried & Hrem & Hn & Hatt & Hq & Hr).
        exists (a :: tried). unfold remaining in *. cbn [xs_ainfo xs_srv] in *.
        repeat split.
        * cbn [app]. f_equal. exact Hrem.
        * cbn [length]. lia.
        * cbn [attempt_evs flat_map attempt_of app number_from]. rewrite Eb. f_equal.
          exact Hatt.
        * unfold quiet in *. cbn [forallb sc_event]. exact Hq.
        * destruct r.
          -- destruct Hr as (H1 & H2 & H3 & H4 & H5). repeat split; auto; try lia.
             intros i Hi. destruct (Nat.eq_dec i nfd) as [->|]; auto. apply H5. lia.
          -- destruct Hr as (H1 & H2). split; auto.
             intros i Hi. destruct (Nat.eq_dec i nfd) as [->|]; auto. apply H2. lia.
          -- exact Hr.
      + inversion H; subst; clear H. exists [a]. unfold remaining. cbn [xs_ainfo xs_srv app length].
        repeat split; auto; try lia.
        * cbn. now rewrite Eb.
        * rewrite Eb. discriminate.
      + inversion H; subst; clear H. exists [a]. unfold remaining. cbn [xs_ainfo xs_srv app length].
        repeat split; auto; try lia.
        * cbn. now rewrite Eb.
        * rewrite Eb. discriminate.
      + inversion H; subst; clear H. exists [a]. unfold remaining. cbn [xs_ainfo xs_srv app length].
        repeat split; auto; try lia.
        * cbn. now rewrite Eb.
        * rewrite Eb. discriminate.
  Qed.

  Lemma sc_fuel_enough : forall xs, (sc_measure xs < sc_fuel gai xs)%nat.
  Proof. intros. unfold sc_measure, sc_fuel, flatten. change (addrs gai) with (endpoints_of gai). lia. Qed.

  (* ---------------------------------------------------------------- _connect_next *)

  Lemma connect_next_ok : forall c now ok c1 e,
    connect_next gai behv true c now = (ok, c1, e) ->
    exists tried,
      remaining (cn_xs c) = tried ++ remaining (cn_xs c1) /\
      cn_nfd c1 = (cn_nfd c + length tried)%nat /\
      attempt_evs e = number_from behv (cn_nfd c) tried /\
      quiet e /\
      cn_state c1 = cn_state c /\ cn_hdr c1 = cn_hdr c /\ cn_secured c1 = cn_secured c /\
      (if ok
       then exists fd, cn_sock c1 = Some fd /\ S fd = cn_nfd c1 /\ (cn_nfd c <= fd)%nat /\
                       behv fd <> Refuse /\
                       (forall i, (cn_nfd c <= i < fd)%nat -> behv i = Refuse) /\
                       cn_stamp c1 = now
       else cn_sock c1 = None /\ remaining (cn_xs c1) = [] /\
            (forall i, (cn_nfd c <= i < cn_nfd c1)%nat -> behv i = Refuse) /\
            cn_stamp c1 = cn_stamp c).
  Proof.
    intros c now ok c1 e H. unfold connect_next in H.
    destruct (sock_connect gai behv true (sc_fuel gai (cn_xs c)) (cn_xs c) (cn_nfd c))
      as [[[r xs] nfd] e0] eqn:E.
    apply sock_connect_ok in E; [|apply sc_fuel_enough].
    destruct E as (tried & Hrem & Hn & Hatt & Hq & Hr).
    assert (Hqx : quiet (match cn_sock c with Some fd => [EvX fd] | None => [] end)).
    { destruct (cn_sock c); reflexivity. }
    assert (Hax : attempt_evs (match cn_sock c with Some fd => [EvX fd] | None => [] end) = []).
    { destruct (cn_sock c); reflexivity. }
    exists tried.
    destruct r; inversion H; subst; clear H; cbn [cn_xs cn_nfd cn_state cn_hdr cn_secured cn_sock cn_stamp].
    - destruct Hr as (H1 & H2 & H3 & H4 & H5).
      repeat split; auto.
      + rewrite attempt_evs_app, Hax. exact Hatt.
      + apply quiet_app; auto.
      + exists fd. repeat split; auto.
    - destruct Hr as (H1 & H2).
      repeat split; auto.
      + rewrite attempt_evs_app, Hax. exact Hatt.
      + apply quiet_app; auto.
    - contradiction.
  Qed.

  (* ---------------------------------------------------------------- the invariant *)

  Section Invariant.
    Variable cfg : config.
    Variable cands : list cand.

    (* connection-established events: only on descriptor fd, the header addressed as documented *)
    Definition est_ok_m (fd : nat) (e : ev) : Prop :=
      match e with
      | EvHdr fd' tls to comp =>
          fd' = fd /\ to = stream_to cfg /\ comp = is_component cfg /\
          tls = (cfg_legacy_ssl cfg && negb (is_raw cfg))
      | EvTls fd' => fd' = fd
      | _ => True
      end.

    Lemma est_ok_m_spec : forall fd e, est_ok_m fd e -> est_ok FLAG_LEGACY_SSL cfg fd e.
    Proof.
      intros fd [] H; cbn in *; auto.
      destruct H as (H1 & H2 & H3 & H4). subst.
      unfold spec_stream_to, stream_to, is_component, is_raw, cfg_legacy_ssl, legacy_ssl.
      destruct (cf_type cfg); repeat split; auto.
    Qed.

    Lemma no_est_ok_m : forall fd l, Forall no_est l -> Forall (est_ok_m fd) l.
    Proof.
      intros fd l H. eapply Forall_impl; [|exact H]. intros [] Ha; cbn in *; auto; contradiction.
    Qed.

    Definition Inv (c : conn) (tr : list ev) : Prop :=
      exists done,
        cands = done ++ remaining (cn_xs c) /\
        cn_nfd c = length done /\
        attempt_evs tr = number_from behv 0 done /\
        (forall j, (j < length done)%nat -> behv j = Accept ->
           timed_out j tr = true \/ (cn_state c <> Disconnected /\ cn_sock c = Some j)) /\
        ~ In EvFuel tr /\
        match cn_state c with
        | Connecting =>
            exists fd, cn_sock c = Some fd /\ S fd = length done /\ behv fd <> Refuse /\
                       failed tr = false /\ Forall no_est tr
        | Connected =>
            exists fd, cn_sock c = Some fd /\ S fd = length done /\ behv fd = Accept /\
                       failed tr = false /\ Forall (est_ok_m fd) tr /\
                       cn_secured c = (cfg_legacy_ssl cfg && negb (is_raw cfg))
        | Disconnected =>
            failed tr = true /\ remaining (cn_xs c) = [] /\ Forall no_est tr
        end.

    (* events that no clause of the invariant is sensitive to *)
    Definition neutral (e : ev) : bool :=
      match e with
      | EvQ _ | EvG _ _ _ | EvX _ | EvTick | EvTimedOut _ _ => true
      | EvR rc => rc =? 0
      | _ => false
      end.

    Lemma neutral_facts : forall l, forallb neutral l = true ->
      attempt_evs l = [] /\ failed l = false /\ ~ In EvFuel l /\ Forall no_est l.
    Proof.
      induction l as [|x l IH]; intros H.
      - repeat split; auto.
      - cbn [forallb] in H. apply andb_true_iff in H as [Hx Hl].
        destruct (IH Hl) as (A & B & C & D).
        repeat split.
        + unfold attempt_evs in *. cbn [flat_map]. rewrite A. destruct x; cbn in *; auto; discriminate.
        + unfold failed in *. cbn [existsb]. rewrite B.
          destruct x; cbn in *; auto; try discriminate. now rewrite Hx.
        + intros [Hin|Hin]; [subst; discriminate|auto].
        + constructor; auto. destruct x; cbn in *; auto; discriminate.
    Qed.

    Lemma Inv_neutral : forall c tr e, Inv c tr -> forallb neutral e = true -> Inv c (tr ++ e).
    Proof.
      intros c tr e (done & I1 & I2 & I3 & I4 & I5 & I6) Hn.
      destruct (neutral_facts _ Hn) as (A & B & C & D).
      exists done. repeat split; auto.
      - rewrite attempt_evs_app, A, app_nil_r. exact I3.
      - intros j Hj Hb. destruct (I4 j Hj Hb) as [Ht|Hs]; auto.
        left. rewrite timed_out_app, Ht. reflexivity.
      - intros Hin. apply in_app_or in Hin as [Hin|Hin]; auto.
      - destruct (cn_state c).
        + destruct I6 as (F1 & F2 & F3). repeat split; auto.
          * rewrite failed_app, F1. reflexivity.
          * apply Forall_app; auto.
        + destruct I6 as (fd & F1 & F2 & F3 & F4 & F5). exists fd. repeat split; auto.
          * rewrite failed_app, F4, B. reflexivity.
          * apply Forall_app; auto.
        + destruct I6 as (fd & F1 & F2 & F3 & F4 & F5 & F6). exists fd. repeat split; auto.
          * rewrite failed_app, F4, B. reflexivity.
          * apply Forall_app; split; auto. apply no_est_ok_m; auto.
    Qed.

    (* what is common to the two callers of _connect_next: the attempt on descriptor fd is given
       up (legitimately: [Hgone]), the next candidates are walked *)
    Lemma Inv_next : forall c tr now ok c1 e epre fd,
      Inv c tr -> cn_state c = Connecting -> cn_sock c = Some fd ->
      connect_next gai behv true c now = (ok, c1, e) ->
      forallb neutral epre = true ->
      (behv fd = Accept -> timed_out fd epre = true) ->
      if ok then Inv c1 (tr ++ epre ++ e)
      else forall err c2 e2, conn_disconnect c1 err = (c2, e2) -> Inv c2 (tr ++ epre ++ e ++ e2).
    Proof.
      intros c tr now ok c1 e epre fd (done & I1 & I2 & I3 & I4 & I5 & I6) Hst Hsock Hcn Hpre Hgone.
      rewrite Hst in I6. destruct I6 as (fd0 & F1 & F2 & F3 & F4 & F5).
      rewrite Hsock in F1. inversion F1; subst fd0; clear F1.
      destruct (neutral_facts _ Hpre) as (P1 & P2 & P3 & P4).
      apply connect_next_ok in Hcn.
      destruct Hcn as (tried & Hrem & Hn & Hatt & Hq & Hs1 & Hh1 & Hsec1 & Hres).
      assert (Hatt_all : forall e2, attempt_evs e2 = [] ->
                attempt_evs (tr ++ epre ++ e ++ e2) = number_from behv 0 (done ++ tried)).
      { intros e2 He2. rewrite !attempt_evs_app, P1, He2, I3, Hatt, number_from_app, I2. cbn.
        now rewrite app_nil_r. }
      assert (Hold : forall j e2, (j < length done)%nat -> behv j = Accept ->
                timed_out j (tr ++ epre ++ e ++ e2) = true).
      { intros j e2 Hj Hb. rewrite !timed_out_app.
        destruct (I4 j Hj Hb) as [Ht|[_ Hs]].
        - rewrite Ht. reflexivity.
        - rewrite Hsock in Hs. inversion Hs; subst j. rewrite (Hgone Hb).
          now rewrite orb_true_r. }
      destruct ok.
      - destruct Hres as (fd1 & S1 & S2 & S3 & S4 & S5 & S6).
        exists (done ++ tried). repeat split.
        + rewrite <- app_assoc, <- Hrem. exact I1.
        + rewrite app_length. lia.
        + specialize (Hatt_all [] eq_refl). now rewrite app_nil_r in Hatt_all.
        + intros j Hj Hb. rewrite app_length in Hj.
          destruct (Nat.lt_ge_cases j (length done)) as [Hlt|Hge].
          * left. specialize (Hold j [] Hlt Hb). now rewrite app_nil_r in Hold.
          * right. split; [rewrite Hs1, Hst; discriminate|].
            destruct (Nat.eq_dec j fd1) as [->|Hne]; auto.
            exfalso. assert (behv j = Refuse) by (apply S5; lia). congruence.
        + intros Hin. apply in_app_or in Hin as [Hin|Hin]; auto.
          apply in_app_or in Hin as [Hin|Hin]; auto. eapply quiet_no_fuel; eauto.
        + rewrite Hs1, Hst. exists fd1. repeat split; auto.
          * rewrite app_length. lia.
          * rewrite !failed_app, F4, P2, (quiet_failed _ Hq). reflexivity.
          * repeat (apply Forall_app; split); auto. apply quiet_no_est; auto.
      - destruct Hres as (S1 & S2 & S3 & S4).
        intros err c2 e2 Hd. unfold conn_disconnect in Hd. rewrite S1 in Hd. inversion Hd; subst; clear Hd.
        cbn [app]. exists (done ++ tried).
        cbn [cn_xs cn_nfd cn_state cn_sock].
        repeat split.
        + rewrite <- app_assoc, <- Hrem. exact I1.
        + rewrite app_length. lia.
        + apply Hatt_all. reflexivity.
        + intros j Hj Hb. rewrite app_length in Hj.
          destruct (Nat.lt_ge_cases j (length done)) as [Hlt|Hge].
          * left. apply Hold; auto.
          * exfalso. assert (behv j = Refuse) by (apply S3; lia). congruence.
        + intros Hin. apply in_app_or in Hin as [Hin|Hin]; auto.
          apply in_app_or in Hin as [Hin|Hin]; auto.
          apply in_app_or in Hin as [Hin|Hin]; [eapply quiet_no_fuel; eauto|].
          destruct Hin as [Hin|[]]; discriminate.
        + rewrite !failed_app. cbn. now rewrite !orb_true_r.
        + exact S2.
        + repeat (apply Forall_app; split); auto. apply quiet_no_est; auto.
          constructor; cbn; auto.
    Qed.

    (* ---------------------------------------------------------------- the three phases of one iteration *)

    Lemma Inv_watch : forall c tr now c' e,
      Inv c tr -> phase_watch gai behv true c now = (c', e) -> Inv c' (tr ++ e).
    Proof.
      intros c tr now c' e HI H. unfold phase_watch in H.
      destruct (cn_state c) eqn:Hst;
        try (inversion H; subst; rewrite app_nil_r; exact HI).
      destruct (connect_in_time (elapsed (cn_stamp c) now) CONNECT_TIMEOUT) eqn:Hin.
      { inversion H; subst. rewrite app_nil_r. exact HI. }
      destruct (connect_next gai behv true c now) as [[ok c1] e1] eqn:Hcn.
      pose proof HI as (done & _ & _ & _ & _ & _ & I6). rewrite Hst in I6.
      destruct I6 as (fd & F1 & _). rewrite F1 in H.
      pose proof (Inv_next c tr now ok c1 e1 [EvTimedOut fd (elapsed (cn_stamp c) now)] fd HI Hst F1 Hcn eq_refl) as Hn.
      assert (Hto : behv fd = Accept -> timed_out fd [EvTimedOut fd (elapsed (cn_stamp c) now)] = true).
      { intros _. cbn. now rewrite Nat.eqb_refl. }
      specialize (Hn Hto).
      destruct ok.
      - inversion H; subst. exact Hn.
      - destruct (conn_disconnect c1 ErrTimedOut) as [c2 e2] eqn:Hd.
        inversion H; subst. apply (Hn _ _ _ Hd).
    Qed.

    Lemma Inv_events : forall c tr now c' e,
      Inv c tr -> phase_events gai behv true cfg c now = (c', e) -> Inv c' (tr ++ e).
    Proof.
      intros c tr now c' e HI H. unfold phase_events in H.
      destruct (cn_state c) eqn:Hst;
        try (inversion H; subst; rewrite app_nil_r; exact HI).
      destruct (cn_sock c) as [fd|] eqn:Hsock;
        [|inversion H; subst; rewrite app_nil_r; exact HI].
      destruct (behv fd) eqn:Hb;
        try (inversion H; subst; rewrite app_nil_r; exact HI).
      - (* Accept: conn_established *)
        destruct HI as (done & I1 & I2 & I3 & I4 & I5 & I6). rewrite Hst in I6.
        destruct I6 as (fd0 & F1 & F2 & F3 & F4 & F5). rewrite Hsock in F1. inversion F1; subst fd0; clear F1.
        unfold conn_established in H.
        assert (Hev : exists ee, e = ee /\ attempt_evs ee = [] /\ failed ee = false /\ ~ In EvFuel ee /\
                        Forall (est_ok_m fd) ee /\ (forall j, timed_out j ee = false)).
        { exists e. split; auto.
          destruct (is_raw cfg); destruct (cfg_legacy_ssl cfg); inversion H; subst; cbn;
            repeat split; auto; try (intros [Hx|[Hx|[]]]; discriminate); try (intros [Hx|[]]; discriminate);
            repeat constructor; cbn; auto. }
        destruct Hev as (ee & -> & E1 & E2 & E3 & E4 & E5).
        assert (Hc' : cn_state c' = Connected /\ cn_sock c' = Some fd /\ cn_xs c' = cn_xs c /\ cn_nfd c' = cn_nfd c /\
                      cn_secured c' = (cfg_legacy_ssl cfg && negb (is_raw cfg))).
        { destruct (is_raw cfg); inversion H; subst; cbn; repeat split; auto. }
        destruct Hc' as (C1 & C2 & C3 & C4 & C5).
        exists done. rewrite C1, C2, C3, C4. repeat split; auto.
        + rewrite attempt_evs_app, E1, app_nil_r. exact I3.
        + intros j Hj Hbj. destruct (I4 j Hj Hbj) as [Ht|[_ Hs]].
          * left. rewrite timed_out_app, Ht. reflexivity.
          * right. split; [discriminate|]. rewrite Hsock in Hs. exact Hs.
        + intros Hin. apply in_app_or in Hin as [Hin|Hin]; auto.
        + exists fd. repeat split; auto.
          * rewrite failed_app, F4, E2. reflexivity.
          * apply Forall_app; split; auto. apply no_est_ok_m; auto.
      - (* Late: _connect_next *)
        destruct (connect_next gai behv true c now) as [[ok c1] e1] eqn:Hcn.
        pose proof (Inv_next c tr now ok c1 e1 [] fd HI Hst Hsock Hcn eq_refl) as Hn.
        assert (Hto : behv fd = Accept -> timed_out fd [] = true) by (intros Hx; congruence).
        specialize (Hn Hto). cbn [app] in Hn.
        destruct ok.
        + inversion H; subst. exact Hn.
        + destruct (conn_disconnect c1 ErrMinus1) as [c2 e2] eqn:Hd.
          inversion H; subst. apply (Hn _ _ _ Hd).
    Qed.

    Lemma Inv_send : forall c tr c' e,
      Inv c tr -> phase_send cfg c = (c', e) -> Inv c' (tr ++ e).
    Proof.
      intros c tr c' e HI H. unfold phase_send in H.
      destruct (cn_state c) eqn:Hst;
        try (inversion H; subst; rewrite app_nil_r; exact HI).
      destruct (cn_sock c) as [fd|] eqn:Hsock;
        [|inversion H; subst; rewrite app_nil_r; exact HI].
      destruct (cn_hdr c) eqn:Hh;
        [|inversion H; subst; rewrite app_nil_r; exact HI].
      inversion H; subst; clear H.
      destruct HI as (done & I1 & I2 & I3 & I4 & I5 & I6). rewrite Hst in I6.
      destruct I6 as (fd0 & F1 & F2 & F3 & F4 & F5 & F6). rewrite Hsock in F1. inversion F1; subst fd0; clear F1.
      exists done. cbn [cn_xs cn_nfd cn_state cn_sock cn_secured]. repeat split; auto.
      - rewrite attempt_evs_app. cbn. rewrite app_nil_r. exact I3.
      - intros j Hj Hbj. destruct (I4 j Hj Hbj) as [Ht|[_ Hs]].
        + left. rewrite timed_out_app, Ht. reflexivity.
        + right. split; [discriminate|]. rewrite Hsock in Hs. exact Hs.
      - intros Hin. apply in_app_or in Hin as [Hin|[Hin|[]]]; auto. discriminate.
      - exists fd. repeat split; auto.
        + rewrite failed_app, F4. reflexivity.
        + apply Forall_app; split; auto. constructor; [|constructor]. cbn. repeat split; auto.
    Qed.

    Lemma Inv_run_once : forall c tr now c' e,
      Inv c tr -> run_once gai behv true cfg c now = (c', e) -> Inv c' (tr ++ e).
    Proof.
      intros c tr now c' e HI H. unfold run_once in H.
      destruct (phase_send cfg c) as [c1 e1] eqn:H1.
      destruct (phase_watch gai behv true c1 now) as [c2 e2] eqn:H2.
      destruct (phase_events gai behv true cfg c2 now) as [c3 e3] eqn:H3.
      inversion H; subst; clear H.
      apply (Inv_send _ _ _ _ HI) in H1.
      apply (Inv_watch _ _ _ _ _ H1) in H2.
      apply (Inv_events _ _ _ _ _ H2) in H3.
      apply (Inv_neutral _ _ [EvTick]) in H3; [|reflexivity].
      rewrite <- !app_assoc in H3. exact H3.
    Qed.

    Lemma Inv_exec : forall ops c tr now c' e,
      Inv c tr -> exec gai behv true cfg ops c now = (c', e) -> Inv c' (tr ++ e).
    Proof.
      induction ops as [|o ops IH]; intros c tr now c' e HI H; cbn [exec] in H.
      - inversion H; subst. rewrite app_nil_r. exact HI.
      - destruct o.
        + destruct (run_once gai behv true cfg c now) as [c1 e1] eqn:H1.
          destruct (exec gai behv true cfg ops c1 now) as [c2 e2] eqn:H2.
          inversion H; subst; clear H.
          apply (Inv_run_once _ _ _ _ _ HI) in H1.
          apply (IH _ _ _ _ _ H1) in H2. rewrite <- app_assoc in H2. exact H2.
        + eapply IH; eauto.
    Qed.
  End Invariant.

  (* ---------------------------------------------------------------- sock_new, connect *)

  Lemma sock_new_ok : forall domain host port srv xs e,
    sock_new gai domain host port srv = (xs, e) ->
    remaining xs =
      flatten gai (match host with
                   | Some h => [sr_new h port]
                   | None => match srv with Some (r :: l) => r :: l | _ => [sr_new domain port] end
                   end) /\
    forallb neutral e = true /\
    queries e = (match host with None => [EvQ domain] | Some _ => [] end).
  Proof.
    intros domain host port srv xs e H. unfold sock_new in H.
    assert (Hone : forall r l e_q,
              (let '(xs0, e_g) := sock_getaddrinfo gai (mk_xsock [] (r :: l)) in
               (srv_advance xs0, e_q ++ e_g)) = (xs, e) ->
              remaining xs = flatten gai (r :: l) /\
              e = e_q ++ [EvG (sr_target r) (sr_port r) (gai (sr_target r))]).
    { intros r l e_q H0. cbn [sock_getaddrinfo xs_srv] in H0. inversion H0; subst.
      unfold remaining, srv_advance, flatten. cbn [xs_ainfo xs_srv tl flat_map]. split; reflexivity. }
    destruct host as [h|].
    - apply Hone in H. destruct H as [Hr ->]. split; [exact Hr|]. split; reflexivity.
    - destruct srv as [[|r l]|]; apply Hone in H; destruct H as [Hr ->];
        (split; [exact Hr|]; split; reflexivity).
  Qed.

  Lemma port_or_default_eq : forall cfg,
    port_or_default cfg (is_component cfg) = effective_port FLAG_LEGACY_SSL cfg.
  Proof.
    intros cfg. unfold port_or_default, effective_port, conn_default_port, is_component,
      cfg_legacy_ssl, legacy_ssl.
    destruct (cf_port cfg =? 0); auto.
    destruct (cf_type cfg); auto; destruct (flag_set (cf_flags cfg) FLAG_LEGACY_SSL); reflexivity.
  Qed.

  Lemma conn_connect_inv : forall cfg xs e0 now c e,
    forallb neutral e0 = true ->
    conn_connect gai behv true xs now = (c, e) ->
    Inv cfg (remaining xs) c (e0 ++ e).
  Proof.
    intros cfg xs e0 now c e Hn H. unfold conn_connect in H.
    destruct (sock_connect gai behv true (sc_fuel gai xs) xs 0%nat) as [[[r xs'] nfd] e1] eqn:E.
    apply sock_connect_ok in E; [|apply sc_fuel_enough].
    destruct E as (tried & Hrem & Hnfd & Hatt & Hq & Hr).
    destruct (neutral_facts _ Hn) as (P1 & P2 & P3 & P4).
    destruct r; inversion H; subst; clear H; [| |contradiction].
    - destruct Hr as (H1 & H2 & H3 & H4 & H5).
      exists tried. cbn [cn_xs cn_nfd cn_state cn_sock]. repeat split; auto.
      + rewrite !attempt_evs_app, P1, Hatt. cbn. now rewrite app_nil_r.
      + intros j Hj Hb. right. split; [discriminate|].
        destruct (Nat.eq_dec j fd) as [->|Hne]; auto.
        exfalso. assert (behv j = Refuse) by (apply H5; lia). congruence.
      + intros Hin. apply in_app_or in Hin as [Hin|Hin]; auto.
        apply in_app_or in Hin as [Hin|[Hin|[]]]; [eapply quiet_no_fuel; eauto|discriminate].
      + exists fd. repeat split; auto.
        * rewrite !failed_app, P2, (quiet_failed _ Hq). reflexivity.
        * repeat (apply Forall_app; split); auto. apply quiet_no_est; auto. constructor; cbn; auto.
    - destruct Hr as (H1 & H2).
      exists tried. cbn [cn_xs cn_nfd cn_state cn_sock]. repeat split; auto.
      + rewrite !attempt_evs_app, P1, Hatt. cbn. now rewrite app_nil_r.
      + intros j Hj Hb. exfalso. assert (behv j = Refuse) by (apply H2; lia). congruence.
      + intros Hin. apply in_app_or in Hin as [Hin|Hin]; auto.
        apply in_app_or in Hin as [Hin|[Hin|[]]]; [eapply quiet_no_fuel; eauto|discriminate].
      + rewrite !failed_app. cbn. now rewrite !orb_true_r.
      + repeat (apply Forall_app; split); auto. apply quiet_no_est; auto. constructor; cbn; auto.
  Qed.

  (* a usable configuration: connect walks the flattening of the effective record list; the SRV
     query is made exactly when nothing bypasses it *)
  Lemma connect_inv : forall cfg srv now c e,
    cfg_ok cfg = true ->
    connect gai behv true cfg srv now = (c, e) ->
    Inv cfg (flatten gai (eff_rrs cfg srv)) c e /\
    queries e = (match byp_host cfg with None => [EvQ (cf_domain cfg)] | Some _ => [] end).
  Proof.
    intros cfg srv now c e Hok H.
    pose proof (port_or_default_eq cfg) as Hport.
    unfold cfg_ok, config_ok in Hok. unfold connect in H.
    unfold eff_rrs, effective_rrs, byp_host, bypass_host, legacy_ssl. unfold is_component in Hport.
    destruct (cf_jid cfg) as [jid|]; [|discriminate].
    destruct (cf_type cfg) eqn:Hty.
    1,2: (set (alt := match cf_host cfg with
                      | Some h => Some h
                      | None => if cfg_legacy_ssl cfg then Some (cf_domain cfg) else None
                      end) in *;
          destruct (sock_new gai (cf_domain cfg) alt (port_or_default cfg false) srv) as [xs e0] eqn:Hsn;
          destruct (conn_connect gai behv true xs now) as [c1 e1] eqn:Hcc;
          inversion H; subst c1 e; clear H;
          apply sock_new_ok in Hsn; destruct Hsn as (Hrem & Hneu & Hqu);
          pose proof (conn_connect_inv cfg xs e0 now c e1 Hneu Hcc) as HI;
          destruct (neutral_facts _ Hneu) as (_ & _ & _ & _);
          assert (Hq1 : queries e1 = []);
          [ unfold conn_connect in Hcc;
            destruct (sock_connect gai behv true (sc_fuel gai xs) xs 0%nat) as [[[r xs'] nfd] e2] eqn:E;
            apply sock_connect_ok in E; [|apply sc_fuel_enough];
            destruct E as (tried & _ & _ & _ & Hq & _);
            destruct r; inversion Hcc; subst; rewrite queries_app, (quiet_queries _ Hq); reflexivity
          | rewrite queries_app, Hq1, app_nil_r, Hqu; rewrite Hrem in HI; rewrite <- Hport;
            unfold alt in *; unfold cfg_legacy_ssl in *; unfold sr_new in *; unfold single_sr;
            destruct (cf_host cfg); [split; [exact HI|reflexivity]|];
            destruct (flag_set (cf_flags cfg) FLAG_LEGACY_SSL); [split; [exact HI|reflexivity]|];
            split; [exact HI|reflexivity] ]).
    (* Component *)
    destruct (cf_host cfg) as [server|]; [|discriminate].
    apply andb_true_iff in Hok as [Hpass Hcf]. rewrite Hpass in H.
    apply negb_true_iff in Hcf. rewrite Hcf in H.
    destruct (sock_new gai [] (Some server) (port_or_default cfg true) srv) as [xs e0] eqn:Hsn.
    destruct (conn_connect gai behv true xs now) as [c1 e1] eqn:Hcc.
    inversion H; subst c1 e; clear H.
    apply sock_new_ok in Hsn. destruct Hsn as (Hrem & Hneu & Hqu).
    pose proof (conn_connect_inv cfg xs e0 now c e1 Hneu Hcc) as HI.
    assert (Hq1 : queries e1 = []).
    { unfold conn_connect in Hcc.
      destruct (sock_connect gai behv true (sc_fuel gai xs) xs 0%nat) as [[[r xs'] nfd] e2] eqn:E.
      apply sock_connect_ok in E; [|apply sc_fuel_enough].
      destruct E as (tried & _ & _ & _ & Hq & _).
      destruct r; inversion Hcc; subst; rewrite queries_app, (quiet_queries _ Hq); reflexivity. }
    rewrite queries_app, Hq1, app_nil_r, Hqu. rewrite Hrem in HI. rewrite <- Hport.
    split; [exact HI|reflexivity].
  Qed.

  (* ---------------------------------------------------------------- no SRV query after connect *)

  Lemma sock_connect_quiet : forall fx fuel xs nfd,
    fuel <> O -> True -> forall r xs' n' e, sock_connect gai behv fx fuel xs nfd = (r, xs', n', e) ->
    queries e = [].
  Proof.
    intros fx. induction fuel as [|f IH]; intros xs nfd Hf _ r xs' n' e H; [congruence|].
    assert (IH' : forall xs nfd r xs' n' e, sock_connect gai behv fx f xs nfd = (r, xs', n', e) -> queries e = []).
    { intros. destruct f; [cbn in H0; inversion H0; reflexivity|]. eapply IH; eauto. }
    clear IH. destruct xs as [ai srv]. cbn [sock_connect xs_ainfo xs_srv] in H.
    destruct ai as [|a rest].
    - destruct srv as [|r0 srest]; [inversion H; reflexivity|].
      cbn [sock_getaddrinfo xs_srv] in H. unfold srv_advance in H. cbn [xs_ainfo xs_srv tl] in H.
      destruct (sock_connect gai behv fx f (mk_xsock (addrs gai r0) srest) nfd) as [[[r1 xs1] n1] e1] eqn:E.
      apply IH' in E.
      destruct (addrs gai r0); destruct fx; inversion H; subst; cbn; auto.
    - destruct (sock_connect gai behv fx f (mk_xsock rest srv) (S nfd)) as [[[r1 xs1] n1] e1] eqn:E.
      apply IH' in E.
      destruct (behv nfd); inversion H; subst; cbn; auto.
  Qed.

  Lemma sc_fuel_nonzero : forall xs, sc_fuel gai xs <> O.
  Proof. intros. unfold sc_fuel. discriminate. Qed.

  Lemma connect_next_queries : forall fx c now ok c1 e,
    connect_next gai behv fx c now = (ok, c1, e) -> queries e = [].
  Proof.
    intros fx c now ok c1 e H. unfold connect_next in H.
    destruct (sock_connect gai behv fx (sc_fuel gai (cn_xs c)) (cn_xs c) (cn_nfd c)) as [[[r xs] nfd] e0] eqn:E.
    apply sock_connect_quiet in E; auto using sc_fuel_nonzero.
    destruct r; inversion H; subst; rewrite queries_app, E; destruct (cn_sock c); reflexivity.
  Qed.

  Lemma conn_disconnect_queries : forall c err c2 e2, conn_disconnect c err = (c2, e2) -> queries e2 = [].
  Proof. intros c err c2 e2 H. unfold conn_disconnect in H. inversion H; subst. destruct (cn_sock c); reflexivity. Qed.

  Lemma run_once_queries : forall fx cfg c now c' e,
    run_once gai behv fx cfg c now = (c', e) -> queries e = [].
  Proof.
    intros fx cfg c now c' e H. unfold run_once in H.
    destruct (phase_send cfg c) as [c1 e1] eqn:H1.
    destruct (phase_watch gai behv fx c1 now) as [c2 e2] eqn:H2.
    destruct (phase_events gai behv fx cfg c2 now) as [c3 e3] eqn:H3.
    inversion H; subst; clear H. rewrite !queries_app.
    assert (Q1 : queries e1 = []).
    { unfold phase_send in H1. destruct (cn_state c); destruct (cn_sock c); try destruct (cn_hdr c);
        inversion H1; reflexivity. }
    assert (Q2 : queries e2 = []).
    { unfold phase_watch in H2. destruct (cn_state c1); try (inversion H2; reflexivity).
      destruct (connect_in_time _ _); [inversion H2; reflexivity|].
      destruct (connect_next gai behv fx c1 now) as [[ok c4] e4] eqn:Hcn.
      apply connect_next_queries in Hcn.
      destruct ok.
      - inversion H2; subst. rewrite queries_app, Hcn. destruct (cn_sock c1); reflexivity.
      - destruct (conn_disconnect c4 ErrTimedOut) as [c5 e5] eqn:Hd. apply conn_disconnect_queries in Hd.
        inversion H2; subst. rewrite !queries_app, Hcn, Hd. destruct (cn_sock c1); reflexivity. }
    assert (Q3 : queries e3 = []).
    { unfold phase_events in H3. destruct (cn_state c2); try (inversion H3; reflexivity).
      destruct (cn_sock c2) as [fd|]; [|inversion H3; reflexivity].
      destruct (behv fd); try (inversion H3; reflexivity).
      - unfold conn_established in H3.
        destruct (is_raw cfg); destruct (cfg_legacy_ssl cfg); inversion H3; reflexivity.
      - destruct (connect_next gai behv fx c2 now) as [[ok c4] e4] eqn:Hcn.
        apply connect_next_queries in Hcn.
        destruct ok.
        + inversion H3; subst. exact Hcn.
        + destruct (conn_disconnect c4 ErrMinus1) as [c5 e5] eqn:Hd. apply conn_disconnect_queries in Hd.
          inversion H3; subst. rewrite !queries_app, Hcn, Hd. reflexivity. }
    rewrite Q1, Q2, Q3. reflexivity.
  Qed.

  Lemma exec_queries : forall fx cfg ops c now c' e,
    exec gai behv fx cfg ops c now = (c', e) -> queries e = [].
  Proof.
    intros fx cfg. induction ops as [|o ops IH]; intros c now c' e H; cbn [exec] in H.
    - inversion H; reflexivity.
    - destruct o; [|eapply IH; eauto].
      destruct (run_once gai behv fx cfg c now) as [c1 e1] eqn:H1.
      destruct (exec gai behv fx cfg ops c1 now) as [c2 e2] eqn:H2.
      inversion H; subst. rewrite queries_app. apply run_once_queries in H1. apply IH in H2.
      now rewrite H1, H2.
  Qed.

  (* ---------------------------------------------------------------- refused configurations *)

  Lemma run_once_conn0 : forall fx cfg now, run_once gai behv fx cfg conn0 now = (conn0, [EvTick]).
  Proof. reflexivity. Qed.

  Lemma exec_conn0 : forall fx cfg ops now c e,
    exec gai behv fx cfg ops conn0 now = (c, e) -> c = conn0 /\ Forall (fun x => x = EvTick) e.
  Proof.
    intros fx cfg. induction ops as [|o ops IH]; intros now c e H; cbn [exec] in H.
    - inversion H; auto.
    - destruct o; [|eapply IH; eauto].
      rewrite run_once_conn0 in H.
      destruct (exec gai behv fx cfg ops conn0 now) as [c2 e2] eqn:H2.
      inversion H; subst. apply IH in H2. destruct H2; split; auto.
  Qed.

  Lemma connect_refused : forall fx cfg srv now,
    cfg_ok cfg = false ->
    exists rc, rc <> 0 /\ connect gai behv fx cfg srv now = (conn0, [EvR rc]).
  Proof.
    intros fx cfg srv now H. unfold cfg_ok, config_ok in H. unfold connect.
    destruct (cf_jid cfg).
    - destruct (cf_type cfg); try discriminate.
      destruct (cf_host cfg); [|exists XMPP_EINVOP; split; [discriminate|reflexivity]].
      destruct (cf_pass cfg); [|exists XMPP_EINVOP; split; [discriminate|reflexivity]].
      cbn in H. apply negb_false_iff in H. rewrite H.
      exists XMPP_EINT; split; [discriminate|reflexivity].
    - exists XMPP_EINVOP. split; [discriminate|]. destruct (cf_type cfg); try reflexivity.
      destruct (cf_host cfg); reflexivity.
  Qed.

  (* a refused configuration: a non-zero return code and then nothing but idle iterations *)
  Lemma scenario_refused : forall fx cfg srv t0 ops c tr,
    cfg_ok cfg = false ->
    scenario gai behv fx cfg srv t0 ops = (c, tr) ->
    exists rc ticks, rc <> 0 /\ tr = EvR rc :: ticks /\ Forall (fun x => x = EvTick) ticks /\ c = conn0.
  Proof.
    intros fx cfg srv t0 ops c tr Hbad H. unfold scenario in H.
    destruct (connect_refused fx cfg srv t0 Hbad) as (rc & Hrc & Hc). rewrite Hc in H.
    destruct (exec gai behv fx cfg ops conn0 t0) as [c' e'] eqn:He.
    apply exec_conn0 in He. destruct He as [-> Ht]. inversion H; subst.
    exists rc, e'. auto.
  Qed.

  (* ---------------------------------------------------------------- the scenario-level invariant *)

  Lemma scenario_inv : forall cfg srv t0 ops c tr,
    cfg_ok cfg = true ->
    scenario gai behv true cfg srv t0 ops = (c, tr) ->
    Inv cfg (flatten gai (eff_rrs cfg srv)) c tr /\
    queries tr = (match byp_host cfg with None => [EvQ (cf_domain cfg)] | Some _ => [] end).
  Proof.
    intros cfg srv t0 ops c tr Hok H. unfold scenario in H.
    destruct (connect gai behv true cfg srv t0) as [c0 e0] eqn:Hc.
    destruct (exec gai behv true cfg ops c0 t0) as [c1 e1] eqn:He.
    inversion H; subst; clear H.
    apply (connect_inv _ _ _ _ _ Hok) in Hc. destruct Hc as [HI Hq].
    split.
    - eapply Inv_exec; eauto.
    - rewrite queries_app, Hq. apply exec_queries in He. rewrite He. apply app_nil_r.
  Qed.

  Lemma firstn_app_exact : forall (A : Type) (a b : list A), firstn (length a) (a ++ b) = a.
  Proof. intros. rewrite firstn_app, Nat.sub_diag, firstn_all. cbn. apply app_nil_r. Qed.

  (* ---------------------------------------------------------------- the theorems *)

  Lemma attempts_prefix : forall cfg srv t0 ops c tr,
    scenario gai behv true cfg srv t0 ops = (c, tr) ->
    let cands := flatten gai (eff_rrs cfg srv) in
    exists n, (n <= length cands)%nat /\
      attempt_evs tr = number_from behv 0 (firstn n cands) /\
      attempts tr = firstn n cands /\
      (forall j, (S j < n)%nat -> behv j = Accept -> timed_out j tr = true).
  Proof.
    intros cfg srv t0 ops c tr H cands.
    destruct (cfg_ok cfg) eqn:Hok.
    - destruct (scenario_inv _ _ _ _ _ _ Hok H) as [(done & I1 & I2 & I3 & I4 & I5 & I6) _].
      fold cands in I1. exists (length done).
      assert (Hf : firstn (length done) cands = done) by (rewrite I1; apply firstn_app_exact).
      rewrite Hf. repeat split.
      + rewrite I1, app_length. lia.
      + exact I3.
      + unfold attempts. rewrite I3. apply number_from_cands.
      + intros j Hj Hb. destruct (I4 j) as [Ht|[Hs1 Hs2]]; auto; [lia|].
        exfalso. destruct (cn_state c); [congruence| |].
        * destruct I6 as (fd & F1 & F2 & _). rewrite Hs2 in F1. inversion F1; subst. lia.
        * destruct I6 as (fd & F1 & F2 & _). rewrite Hs2 in F1. inversion F1; subst. lia.
    - destruct (scenario_refused _ _ _ _ _ _ _ Hok H) as (rc & ticks & Hrc & -> & Ht & _).
      assert (Ha : attempt_evs (EvR rc :: ticks) = []).
      { unfold attempt_evs. cbn [flat_map attempt_of app]. clear H. induction Ht; auto. subst. cbn. auto. }
      exists O. cbn [firstn number_from]. repeat split; auto; try lia.
      unfold attempts. now rewrite Ha.
  Qed.

  Lemma failure_after_all : forall cfg srv t0 ops c tr,
    cfg_ok cfg = true ->
    scenario gai behv true cfg srv t0 ops = (c, tr) ->
    failed tr = true ->
    let cands := flatten gai (eff_rrs cfg srv) in
    attempts tr = cands /\
    attempt_evs tr = number_from behv 0 cands /\
    cn_state c = Disconnected /\
    (forall j, (j < length cands)%nat -> behv j = Accept -> timed_out j tr = true).
  Proof.
    intros cfg srv t0 ops c tr Hok H Hf cands.
    destruct (scenario_inv _ _ _ _ _ _ Hok H) as [(done & I1 & I2 & I3 & I4 & I5 & I6) _].
    fold cands in I1.
    destruct (cn_state c) eqn:Hst.
    - destruct I6 as (_ & F2 & _). rewrite F2, app_nil_r in I1. subst done.
      repeat split; auto.
      + unfold attempts. rewrite I3. apply number_from_cands.
      + intros j Hj Hb. destruct (I4 j Hj Hb) as [Ht|[Hs _]]; auto; congruence.
    - destruct I6 as (fd & _ & _ & _ & F4 & _). congruence.
    - destruct I6 as (fd & _ & _ & _ & F4 & _). congruence.
  Qed.

  Lemma acceptor_used : forall cfg srv t0 ops c tr,
    cfg_ok cfg = true ->
    scenario gai behv true cfg srv t0 ops = (c, tr) ->
    let cands := flatten gai (eff_rrs cfg srv) in
    (cn_state c = Connected ->
       exists fd, cn_sock c = Some fd /\ behv fd = Accept /\ (S fd <= length cands)%nat /\
         attempts tr = firstn (S fd) cands /\
         (forall j, (j < fd)%nat -> behv j = Accept -> timed_out j tr = true) /\
         failed tr = false /\
         Forall (est_ok FLAG_LEGACY_SSL cfg fd) tr) /\
    (cn_state c <> Connected -> Forall no_est tr).
  Proof.
    intros cfg srv t0 ops c tr Hok H cands.
    destruct (scenario_inv _ _ _ _ _ _ Hok H) as [(done & I1 & I2 & I3 & I4 & I5 & I6) _].
    fold cands in I1.
    assert (Hf : firstn (length done) cands = done) by (rewrite I1; apply firstn_app_exact).
    split.
    - intros Hst. rewrite Hst in I6. destruct I6 as (fd & F1 & F2 & F3 & F4 & F5 & F6).
      exists fd. repeat split; auto.
      + rewrite I1, app_length. lia.
      + rewrite F2, Hf. unfold attempts. rewrite I3. apply number_from_cands.
      + intros j Hj Hb. destruct (I4 j) as [Ht|[_ Hs]]; auto; [lia|].
        rewrite Hs in F1. inversion F1. lia.
      + eapply Forall_impl; [|exact F5]. apply est_ok_m_spec.
    - intros Hst. destruct (cn_state c); [|destruct I6 as (fd & _ & _ & _ & _ & F5); exact F5|congruence].
      destruct I6 as (_ & _ & F3). exact F3.
  Qed.

  Lemma no_fuel : forall cfg srv t0 ops c tr,
    scenario gai behv true cfg srv t0 ops = (c, tr) -> ~ In EvFuel tr.
  Proof.
    intros cfg srv t0 ops c tr H.
    destruct (cfg_ok cfg) eqn:Hok.
    - destruct (scenario_inv _ _ _ _ _ _ Hok H) as [(done & _ & _ & _ & _ & I5 & _) _]. exact I5.
    - destruct (scenario_refused _ _ _ _ _ _ _ Hok H) as (rc & ticks & _ & -> & Ht & _).
      intros [Hin|Hin]; [discriminate|]. rewrite Forall_forall in Ht. apply Ht in Hin. discriminate.
  Qed.

  (* ---------------------------------------------------------------- the 5 s time-out, step level *)

  Lemma elapsed_small : forall stamp now,
    0 <= now - stamp < 18446744073709551616 -> elapsed stamp now = now - stamp.
  Proof. intros. unfold elapsed. apply Z.mod_small. lia. Qed.

  Lemma timeout_step : forall cfg c now fd c' e,
    cn_state c = Connecting -> cn_sock c = Some fd -> behv fd = Hang ->
    0 <= now - cn_stamp c < 18446744073709551616 ->
    run_once gai behv true cfg c now = (c', e) ->
    (now - cn_stamp c <= spec_connect_timeout -> c' = c /\ e = [EvTick]) /\
    (now - cn_stamp c > spec_connect_timeout ->
       exists e', e = EvTimedOut fd (now - cn_stamp c) :: EvX fd :: e').
  Proof.
    intros cfg c now fd c' e Hst Hsock Hb Hrange H.
    unfold run_once in H.
    assert (Hs : phase_send cfg c = (c, [])) by (unfold phase_send; now rewrite Hst).
    rewrite Hs in H. unfold phase_watch in H. rewrite Hst, Hsock in H.
    rewrite (elapsed_small _ _ Hrange) in H.
    unfold connect_in_time, CONNECT_TIMEOUT in H. unfold spec_connect_timeout.
    destruct (now - cn_stamp c <=? 5000) eqn:Hle.
    - assert (He : phase_events gai behv true cfg c now = (c, [])).
      { unfold phase_events. now rewrite Hst, Hsock, Hb. }
      rewrite He in H. inversion H; subst. split; [auto|lia].
    - split; [lia|]. intros _.
      destruct (connect_next gai behv true c now) as [[ok c1] e1] eqn:Hcn.
      assert (Hx : exists e0, e1 = EvX fd :: e0).
      { unfold connect_next in Hcn. rewrite Hsock in Hcn.
        destruct (sock_connect gai behv true (sc_fuel gai (cn_xs c)) (cn_xs c) (cn_nfd c)) as [[[r xs] nfd] e0].
        exists e0. destruct r; inversion Hcn; reflexivity. }
      destruct Hx as (e0 & ->).
      destruct ok.
      + destruct (phase_events gai behv true cfg c1 now) as [c3 e3].
        inversion H; subst. eexists. cbn [app]. reflexivity.
      + destruct (conn_disconnect c1 ErrTimedOut) as [c2 e2].
        destruct (phase_events gai behv true cfg c2 now) as [c3 e3].
        inversion H; subst. eexists. cbn [app]. reflexivity.
  Qed.

  (* the log line is only ever produced with more than the time-out elapsed *)
  Lemma timed_out_only_late : forall cfg ops c now c' e fd el,
    exec gai behv true cfg ops c now = (c', e) -> In (EvTimedOut fd el) e -> el > spec_connect_timeout.
  Proof.
    intros cfg. induction ops as [|o ops IH]; intros c now c' e fd el H Hin; cbn [exec] in H.
    - inversion H; subst. contradiction.
    - destruct o; [|eapply IH; eauto].
      destruct (run_once gai behv true cfg c now) as [c1 e1] eqn:H1.
      destruct (exec gai behv true cfg ops c1 now) as [c2 e2] eqn:H2.
      inversion H; subst; clear H.
      apply in_app_or in Hin as [Hin|Hin]; [|eapply IH; eauto].
      clear IH H2. unfold run_once in H1.
      destruct (phase_send cfg c) as [ca ea] eqn:Ha.
      destruct (phase_watch gai behv true ca now) as [cb eb] eqn:Hb.
      destruct (phase_events gai behv true cfg cb now) as [cc ec] eqn:Hc.
      inversion H1; subst; clear H1.
      assert (Qa : ~ In (EvTimedOut fd el) ea).
      { unfold phase_send in Ha. destruct (cn_state c); destruct (cn_sock c); try destruct (cn_hdr c);
          inversion Ha; subst; cbn; intuition discriminate. }
      assert (Qn : forall cx okx cy ey, connect_next gai behv true cx now = (okx, cy, ey) -> ~ In (EvTimedOut fd el) ey).
      { intros cx okx cy ey Hn Hi. apply connect_next_ok in Hn. destruct Hn as (tried & _ & _ & _ & Hq & _).
        unfold quiet in Hq. rewrite forallb_forall in Hq. apply Hq in Hi. discriminate. }
      assert (Qd : forall cx err cy ey, conn_disconnect cx err = (cy, ey) -> ~ In (EvTimedOut fd el) ey).
      { intros cx err cy ey Hd Hi. unfold conn_disconnect in Hd. inversion Hd; subst.
        destruct (cn_sock cx); cbn in Hi; intuition discriminate. }
      assert (Qc : ~ In (EvTimedOut fd el) ec).
      { unfold phase_events in Hc. destruct (cn_state cb); try (inversion Hc; subst; auto).
        destruct (cn_sock cb) as [fdx|]; [|inversion Hc; subst; auto].
        destruct (behv fdx); try (inversion Hc; subst; auto).
        - unfold conn_established in Hc.
          destruct (is_raw cfg); destruct (cfg_legacy_ssl cfg); inversion Hc; subst; cbn; intuition discriminate.
        - destruct (connect_next gai behv true cb now) as [[okx cy] ey] eqn:Hn.
          destruct okx.
          + inversion Hc; subst. eapply Qn; eauto.
          + destruct (conn_disconnect cy ErrMinus1) as [cz ez] eqn:Hd. inversion Hc; subst.
            intros Hi. apply in_app_or in Hi as [Hi|Hi]; [eapply Qn; eauto|eapply Qd; eauto]. }
      apply in_app_or in Hin as [Hin|Hin]; [contradiction|].
      apply in_app_or in Hin as [Hin|Hin].
      2:{ apply in_app_or in Hin as [Hin|[Hin|[]]]; [contradiction|discriminate]. }
      unfold phase_watch in Hb. destruct (cn_state ca); try (inversion Hb; subst; contradiction).
      destruct (connect_in_time (elapsed (cn_stamp ca) now) CONNECT_TIMEOUT) eqn:Hit;
        [inversion Hb; subst; contradiction|].
      assert (Hel : forall fdx, In (EvTimedOut fd el) [EvTimedOut fdx (elapsed (cn_stamp ca) now)] -> el > spec_connect_timeout).
      { intros fdx [Hi|[]]. inversion Hi; subst. unfold connect_in_time, CONNECT_TIMEOUT in Hit.
        unfold spec_connect_timeout. lia. }
      destruct (connect_next gai behv true ca now) as [[okx cy] ey] eqn:Hn.
      destruct okx.
      + inversion Hb; subst. apply in_app_or in Hin as [Hi|Hi].
        * destruct (cn_sock ca); [eapply Hel; eauto|contradiction].
        * exfalso. eapply Qn; eauto.
      + destruct (conn_disconnect cy ErrTimedOut) as [cz ez] eqn:Hd. inversion Hb; subst.
        apply in_app_or in Hin as [Hi|Hi].
        * destruct (cn_sock ca); [eapply Hel; eauto|contradiction].
        * exfalso. apply in_app_or in Hi as [Hi|Hi]; [eapply Qn; eauto|eapply Qd; eauto].
  Qed.

  (* ---------------------------------------------------------------- bypass, default ports *)

  Lemma connect_bypass_indep : forall fx cfg h srv srv' now,
    byp_host cfg = Some h ->
    connect gai behv fx cfg srv now = connect gai behv fx cfg srv' now.
  Proof.
    intros fx cfg h srv srv' now H. unfold byp_host, bypass_host, legacy_ssl in H. unfold connect, cfg_legacy_ssl.
    destruct (cf_type cfg); destruct (cf_jid cfg); try reflexivity;
      destruct (cf_host cfg); try reflexivity; try discriminate;
      destruct (flag_set (cf_flags cfg) FLAG_LEGACY_SSL); try reflexivity; discriminate.
  Qed.

  Lemma bypass_no_srv : forall cfg h srv t0 ops c tr,
    cfg_ok cfg = true -> byp_host cfg = Some h ->
    scenario gai behv true cfg srv t0 ops = (c, tr) ->
    queries tr = [] /\
    eff_rrs cfg srv = [single_sr SRV_MAX_DOMAIN_LEN h (effective_port FLAG_LEGACY_SSL cfg)] /\
    (forall srv', scenario gai behv true cfg srv' t0 ops = (c, tr)).
  Proof.
    intros cfg h srv t0 ops c tr Hok Hb H.
    destruct (scenario_inv _ _ _ _ _ _ Hok H) as [_ Hq]. rewrite Hb in Hq.
    repeat split; auto.
    - unfold eff_rrs, effective_rrs. unfold byp_host in Hb. now rewrite Hb.
    - intros srv'. unfold scenario in *. now rewrite (connect_bypass_indep true cfg h srv' srv t0 Hb).
  Qed.

  Lemma srv_query_made : forall cfg srv t0 ops c tr,
    cfg_ok cfg = true -> byp_host cfg = None ->
    scenario gai behv true cfg srv t0 ops = (c, tr) ->
    queries tr = [EvQ (cf_domain cfg)].
  Proof.
    intros cfg srv t0 ops c tr Hok Hb H.
    destruct (scenario_inv _ _ _ _ _ _ Hok H) as [_ Hq]. now rewrite Hb in Hq.
  Qed.

  Lemma Forall_firstn : forall (A : Type) (P : A -> Prop) n l, Forall P l -> Forall P (firstn n l).
  Proof. induction n; intros l H; cbn; auto. destruct l; auto. inversion H; subst. constructor; auto. Qed.

  Lemma default_port_used : forall cfg h srv t0 ops c tr,
    cfg_ok cfg = true -> byp_host cfg = Some h -> cf_port cfg = 0 ->
    scenario gai behv true cfg srv t0 ops = (c, tr) ->
    Forall (fun a => c_port a = spec_default_port (cf_type cfg) (cfg_legacy_ssl cfg) /\
                     c_host a = firstn (Z.to_nat (SRV_MAX_DOMAIN_LEN - 1)) h) (attempts tr).
  Proof.
    intros cfg h srv t0 ops c tr Hok Hb Hp H.
    destruct (bypass_no_srv _ _ _ _ _ _ _ Hok Hb H) as (_ & He & _).
    destruct (attempts_prefix _ _ _ _ _ _ H) as (n & _ & _ & Ha & _).
    rewrite Ha, He. apply Forall_firstn.
    unfold flatten. cbn [flat_map]. rewrite app_nil_r. unfold endpoints_of.
    apply Forall_forall. intros a Hin. apply in_map_iff in Hin as (i & <- & _).
    cbn [c_port c_host single_sr sr_port sr_target]. unfold effective_port. rewrite Hp. cbn [Z.eqb].
    split; reflexivity.
  Qed.

  (* ---------------------------------------------------------------- a loop polled in time never times an acceptor out *)

  Definition TInv (c : conn) (now acc : Z) (tr : list ev) : Prop :=
    (cn_state c = Connecting -> forall fd, cn_sock c = Some fd -> behv fd = Accept ->
       0 <= now - cn_stamp c <= acc) /\
    (forall j, behv j = Accept -> timed_out j tr = false).

  Lemma connect_shape : forall fx cfg srv now,
    (exists rc, connect gai behv fx cfg srv now = (conn0, [EvR rc])) \/
    (exists d a p xs e0 c e1,
        sock_new gai d a p srv = (xs, e0) /\ conn_connect gai behv fx xs now = (c, e1) /\
        connect gai behv fx cfg srv now = (c, e0 ++ e1)).
  Proof.
    intros fx cfg srv now. unfold connect.
    destruct (cf_type cfg).
    1,2: (destruct (cf_jid cfg); [|left; eexists; reflexivity]; right;
          match goal with |- context [sock_new gai ?d ?a ?p ?sv] =>
            destruct (sock_new gai d a p sv) as [xs e0] eqn:E1;
            destruct (conn_connect gai behv fx xs now) as [c e1] eqn:E2;
            exists d, a, p, xs, e0, c, e1; auto end).
    destruct (cf_host cfg); [|left; eexists; reflexivity].
    destruct (cf_jid cfg); [|left; eexists; reflexivity].
    destruct (cf_pass cfg); [|left; eexists; reflexivity].
    destruct (tls_conflict (cf_flags cfg)); [left; eexists; reflexivity|]. right.
    match goal with |- context [sock_new gai ?d ?a ?p ?sv] =>
      destruct (sock_new gai d a p sv) as [xs e0] eqn:E1;
      destruct (conn_connect gai behv fx xs now) as [c e1] eqn:E2;
      exists d, a, p, xs, e0, c, e1; auto end.
  Qed.

  Lemma sock_new_no_timeout : forall d a p srv xs e j,
    sock_new gai d a p srv = (xs, e) -> timed_out j e = false.
  Proof.
    intros d a p srv xs e j H. unfold sock_new in H.
    assert (Hone : forall r l e_q,
              (let '(xs0, e_g) := sock_getaddrinfo gai (mk_xsock [] (r :: l)) in
               (srv_advance xs0, e_q ++ e_g)) = (xs, e) ->
              e = e_q ++ [EvG (sr_target r) (sr_port r) (gai (sr_target r))]).
    { intros r l e_q H0. cbn [sock_getaddrinfo xs_srv] in H0. inversion H0; subst. reflexivity. }
    destruct a as [h|].
    - apply Hone in H. subst. reflexivity.
    - destruct srv as [[|r l]|]; apply Hone in H; subst; reflexivity.
  Qed.

  Lemma conn_connect_T : forall xs now c e,
    conn_connect gai behv true xs now = (c, e) ->
    (cn_state c = Connecting -> cn_stamp c = now) /\ (forall j, timed_out j e = false).
  Proof.
    intros xs now c e H. unfold conn_connect in H.
    destruct (sock_connect gai behv true (sc_fuel gai xs) xs 0%nat) as [[[r xs'] nfd] e1] eqn:E.
    apply sock_connect_ok in E; [|apply sc_fuel_enough].
    destruct E as (tried & _ & _ & _ & Hq & _).
    destruct r; inversion H; subst; cbn [cn_state cn_stamp]; split; auto; try discriminate;
      intros j; rewrite timed_out_app, (quiet_timed_out _ _ Hq); reflexivity.
  Qed.

  Lemma connect_T : forall cfg srv now c e,
    connect gai behv true cfg srv now = (c, e) -> TInv c now 0 e.
  Proof.
    intros cfg srv now c e H.
    destruct (connect_shape true cfg srv now) as [(rc & Hc)|(d & a & p & xs & e0 & c1 & e1 & H1 & H2 & H3)].
    - rewrite Hc in H. inversion H; subst. split; [discriminate|reflexivity].
    - rewrite H3 in H. inversion H; subst.
      apply conn_connect_T in H2. destruct H2 as [Hs Ht].
      split.
      + intros Hst fd _ _. rewrite (Hs Hst). lia.
      + intros j _. rewrite timed_out_app, (sock_new_no_timeout _ _ _ _ _ _ j H1), Ht. reflexivity.
  Qed.

  Lemma connect_next_T : forall c now ok c1 e,
    connect_next gai behv true c now = (ok, c1, e) ->
    (forall j, timed_out j e = false) /\ cn_state c1 = cn_state c /\
    (if ok then cn_stamp c1 = now else cn_sock c1 = None).
  Proof.
    intros c now ok c1 e H. apply connect_next_ok in H.
    destruct H as (tried & _ & _ & _ & Hq & Hs & _ & _ & Hr).
    split; [intros; now apply quiet_timed_out|]. split; auto.
    destruct ok.
    - destruct Hr as (fd & _ & _ & _ & _ & _ & Hst). exact Hst.
    - destruct Hr as (Hn & _). exact Hn.
  Qed.

  Lemma conn_disconnect_T : forall c err c2 e2,
    conn_disconnect c err = (c2, e2) -> (forall j, timed_out j e2 = false) /\ cn_state c2 = Disconnected.
  Proof.
    intros c err c2 e2 H. unfold conn_disconnect in H. inversion H; subst. split; auto.
    intros j. destruct (cn_sock c); reflexivity.
  Qed.

  Lemma run_once_T : forall cfg c now acc tr c' e,
    TInv c now acc tr -> 0 <= acc <= CONNECT_TIMEOUT ->
    run_once gai behv true cfg c now = (c', e) -> TInv c' now 0 (tr ++ e).
  Proof.
    intros cfg c now acc tr c' e [T1 T2] Hacc H. unfold run_once in H.
    destruct (phase_send cfg c) as [ca ea] eqn:Ha.
    destruct (phase_watch gai behv true ca now) as [cb eb] eqn:Hb.
    destruct (phase_events gai behv true cfg cb now) as [cc ec] eqn:Hc.
    (* send: nothing for a connecting connection *)
    assert (Sa : (forall j, timed_out j ea = false) /\
                 (cn_state ca = Connecting -> ca = c)).
    { unfold phase_send in Ha. destruct (cn_state c) eqn:Hst; destruct (cn_sock c); try destruct (cn_hdr c);
        inversion Ha; subst; cbn; split; auto; try discriminate; congruence. }
    destruct Sa as [Sa1 Sa2].
    (* watch *)
    assert (Sb : forall j, behv j = Accept -> timed_out j eb = false).
    { unfold phase_watch in Hb. destruct (cn_state ca) eqn:Hst; try (inversion Hb; subst; reflexivity).
      specialize (Sa2 eq_refl). subst ca.
      destruct (connect_in_time (elapsed (cn_stamp c) now) CONNECT_TIMEOUT) eqn:Hit;
        [inversion Hb; subst; reflexivity|].
      assert (Hfd : forall j fd, behv j = Accept -> cn_sock c = Some fd ->
                      timed_out j [EvTimedOut fd (elapsed (cn_stamp c) now)] = false).
      { intros j fd Hj Hs. cbn. destruct (Nat.eqb fd j) eqn:En; auto.
        apply Nat.eqb_eq in En. subst j. exfalso.
        specialize (T1 Hst fd Hs Hj).
        rewrite elapsed_small in Hit by (unfold CONNECT_TIMEOUT in *; lia).
        unfold connect_in_time in Hit. lia. }
      destruct (connect_next gai behv true c now) as [[ok c1] e1] eqn:Hn.
      apply connect_next_T in Hn. destruct Hn as (N1 & _ & _).
      intros j Hj.
      destruct ok.
      - inversion Hb; subst. rewrite timed_out_app, N1, orb_false_r.
        destruct (cn_sock c) eqn:Hs; [eapply Hfd; eauto|reflexivity].
      - destruct (conn_disconnect c1 ErrTimedOut) as [c2 e2] eqn:Hd.
        apply conn_disconnect_T in Hd. destruct Hd as [D1 _].
        inversion Hb; subst. rewrite !timed_out_app, N1, D1, !orb_false_r.
        destruct (cn_sock c) eqn:Hs; [eapply Hfd; eauto|reflexivity]. }
    (* events: whatever is left connecting on an accepting descriptor was started just now *)
    assert (Sc : (forall j, timed_out j ec = false) /\
                 (cn_state cc = Connecting -> forall fd, cn_sock cc = Some fd -> behv fd = Accept -> cn_stamp cc = now)).
    { unfold phase_events in Hc.
      destruct (cn_state cb) eqn:Hst; try (inversion Hc; subst; split; [reflexivity|congruence]).
      destruct (cn_sock cb) as [fd|] eqn:Hs; [|inversion Hc; subst; split; [reflexivity|congruence]].
      destruct (behv fd) eqn:Hbf; try (inversion Hc; subst; split; [reflexivity|congruence]).
      - unfold conn_established in Hc.
        destruct (is_raw cfg); destruct (cfg_legacy_ssl cfg); inversion Hc; subst; cbn; split; auto; discriminate.
      - destruct (connect_next gai behv true cb now) as [[ok c1] e1] eqn:Hn.
        apply connect_next_T in Hn. destruct Hn as (N1 & N2 & N3).
        destruct ok.
        + inversion Hc; subst. split; auto.
        + destruct (conn_disconnect c1 ErrMinus1) as [c2 e2] eqn:Hd.
          apply conn_disconnect_T in Hd. destruct Hd as [D1 D2].
          inversion Hc; subst. split; [intros; now rewrite timed_out_app, N1, D1|congruence]. }
    destruct Sc as [Sc1 Sc2].
    inversion H; subst; clear H.
    split.
    - intros Hst fd Hs Hbf. rewrite (Sc2 Hst fd Hs Hbf). lia.
    - intros j Hj. rewrite !timed_out_app, (T2 j Hj), Sa1, (Sb j Hj), Sc1. reflexivity.
  Qed.

  Lemma exec_T : forall cfg ops c now acc tr c' e,
    TInv c now acc tr -> 0 <= acc -> timely_from CONNECT_TIMEOUT acc ops ->
    exec gai behv true cfg ops c now = (c', e) ->
    forall j, behv j = Accept -> timed_out j (tr ++ e) = false.
  Proof.
    intros cfg. induction ops as [|o ops IH]; intros c now acc tr c' e HT Hacc Hty H; cbn [exec] in H.
    - inversion H; subst. rewrite app_nil_r. apply HT.
    - destruct o; cbn [timely_from] in Hty.
      + destruct Hty as [Hle Hty].
        destruct (run_once gai behv true cfg c now) as [c1 e1] eqn:H1.
        destruct (exec gai behv true cfg ops c1 now) as [c2 e2] eqn:H2.
        inversion H; subst; clear H.
        apply (run_once_T cfg c now acc tr c1 e1 HT) in H1; [|lia].
        rewrite app_assoc. eapply IH; eauto. lia.
      + destruct Hty as [Hd Hty].
        eapply (IH c (now + d) (acc + d)); eauto; [|lia].
        destruct HT as [T1 T2]. split; auto.
        intros Hst fd Hs Hb. specialize (T1 Hst fd Hs Hb). lia.
  Qed.

  Lemma timely_no_acceptor_timed_out : forall cfg srv t0 ops c tr,
    scenario gai behv true cfg srv t0 ops = (c, tr) ->
    timely CONNECT_TIMEOUT ops ->
    forall j, behv j = Accept -> timed_out j tr = false.
  Proof.
    intros cfg srv t0 ops c tr H Hty. unfold scenario in H.
    destruct (connect gai behv true cfg srv t0) as [c0 e0] eqn:Hc.
    destruct (exec gai behv true cfg ops c0 t0) as [c1 e1] eqn:He.
    inversion H; subst. apply connect_T in Hc.
    eapply exec_T; eauto. lia.
  Qed.
End Proofs.

(* ------------------------------------------------------------------ sorted records give sorted candidates *)

Require Import Coq.Sorting.Sorted.

Lemma flatten_keys_in : forall gai l x,
  In x (flatten_keys gai l) -> exists r, In r l /\ x = (sr_prio r, sr_weight r).
Proof.
  intros gai l x H. unfold flatten_keys in H. apply in_flat_map in H as (r & Hr & Hx).
  apply in_map_iff in Hx as (c & Hc & _). exists r. auto.
Qed.

Lemma flatten_sorted_keys : forall gai l,
  StronglySorted sr_le l -> StronglySorted key_le (flatten_keys gai l).
Proof.
  intros gai l H. induction H as [|r l Hs IH Hall].
  - constructor.
  - unfold flatten_keys. cbn [flat_map]. fold (flatten_keys gai l).
    assert (Hrest : Forall (key_le (sr_prio r, sr_weight r)) (flatten_keys gai l)).
    { apply Forall_forall. intros x Hx. apply flatten_keys_in in Hx as (r' & Hr' & ->).
      rewrite Forall_forall in Hall. specialize (Hall _ Hr'). exact Hall. }
    induction (endpoints_of gai r) as [|c cs IHc]; cbn [map app]; auto.
    constructor; auto.
    apply Forall_app; split; auto.
    apply Forall_forall. intros x Hx. apply in_map_iff in Hx as (c' & <- & _).
    right. cbn. split; [reflexivity|lia].
Qed.

(* ------------------------------------------------------------------ the code as found: refuted *)

Definition wit_gai (h : list Z) : nat :=
  match h with [x] => if x =? 98 then 0%nat else 1%nat | _ => 1%nat end.
Definition wit_behv (k : nat) : beh := match k with O => Refuse | _ => Accept end.
Definition wit_cfg : config := mk_config Client 0 (Some [100]) [100] false None 0.
Definition wit_srv : option (list srv_rec) :=
  Some [mk_sr [97] 5222 1 0; mk_sr [98] 5222 2 0; mk_sr [99] 5222 3 0].

(* three targets, the second resolves to nothing, the first refuses: sock_connect as found returns
   INVALID_SOCKET (xmpp_connect_client fails with XMPP_EINT) although the third was never tried *)
Lemma orig_refuted :
  exists gai behv cfg srv t0 ops,
    cfg_ok cfg = true /\
    failed (snd (scenario gai behv false cfg srv t0 ops)) = true /\
    (length (attempts (snd (scenario gai behv false cfg srv t0 ops))) <
     length (flatten gai (eff_rrs cfg srv)))%nat.
Proof.
  exists wit_gai, wit_behv, wit_cfg, wit_srv, 1000000, [OpRun].
  vm_compute. repeat split; auto.
Qed.

Example fixed_on_witness :
  snd (scenario wit_gai wit_behv true wit_cfg wit_srv 1000000 [OpRun; OpRun]) =
  [EvQ [100]; EvG [97] 5222 1; EvC 0 (mk_cand [97] 0 5222) Refuse; EvX 0;
   EvG [98] 5222 0; EvG [99] 5222 1; EvC 1 (mk_cand [99] 0 5222) Accept; EvR 0;
   EvTick; EvHdr 1 false [100] false; EvTick].
Proof. vm_compute. reflexivity. Qed.

(* ------------------------------------------------------------------ hypotheses are satisfiable *)

Example cfg_ok_sat : cfg_ok wit_cfg = true.
Proof. reflexivity. Qed.
Example cfg_ok_component_sat :
  cfg_ok (mk_config Component 0 (Some [99]) [99] true (Some [104]) 0) = true.
Proof. reflexivity. Qed.
Example bypass_sat : byp_host (mk_config Client 4 (Some [100]) [100] false None 0) = Some [100].
Proof. reflexivity. Qed.
Example no_bypass_sat : byp_host wit_cfg = None.
Proof. reflexivity. Qed.
Example timely_sat : timely CONNECT_TIMEOUT [OpRun; OpClock 5000; OpRun; OpClock 2500; OpClock 2500; OpRun].
Proof. unfold timely, CONNECT_TIMEOUT. cbn. lia. Qed.
Example failed_sat :
  failed (snd (scenario wit_gai (fun _ => Refuse) true wit_cfg wit_srv 1000000 [])) = true.
Proof. vm_compute. reflexivity. Qed.
Example connected_sat :
  cn_state (fst (scenario wit_gai wit_behv true wit_cfg wit_srv 1000000 [OpRun])) = Connected.
Proof. vm_compute. reflexivity. Qed.
Example timeout_step_sat :
  let c := mk_conn Connecting (Some 0%nat) (mk_xsock [] []) 1000000 1 false false in
  cn_state c = Connecting /\ cn_sock c = Some 0%nat /\ (fun _ => Hang) 0%nat = Hang /\
  0 <= 1005001 - cn_stamp c < 18446744073709551616.
Proof. cbn. repeat split; auto; lia. Qed.
Example sorted_sat : StronglySorted sr_le [mk_sr [97] 1 0 10; mk_sr [98] 2 0 5; mk_sr [99] 3 1 0].
Proof.
  repeat constructor; unfold sr_le; cbn; lia.
Qed.

(* ------------------------------------------------------------------ with a loop polled in time *)

Lemma attempts_prefix_timely : forall gai behv cfg srv t0 ops c tr,
  scenario gai behv true cfg srv t0 ops = (c, tr) ->
  timely CONNECT_TIMEOUT ops ->
  let cands := flatten gai (eff_rrs cfg srv) in
  exists n, (n <= length cands)%nat /\ attempts tr = firstn n cands /\
            (forall j, (S j < n)%nat -> behv j <> Accept).
Proof.
  intros gai behv cfg srv t0 ops c tr H Hty cands.
  destruct (attempts_prefix gai behv cfg srv t0 ops c tr H) as (n & Hn & _ & Ha & Hto).
  exists n. repeat split; auto.
  intros j Hj Hb. specialize (Hto j Hj Hb).
  rewrite (timely_no_acceptor_timed_out gai behv cfg srv t0 ops c tr H Hty j Hb) in Hto. discriminate.
Qed.

Lemma acceptor_used_timely : forall gai behv cfg srv t0 ops c tr,
  cfg_ok cfg = true ->
  scenario gai behv true cfg srv t0 ops = (c, tr) ->
  timely CONNECT_TIMEOUT ops ->
  cn_state c = Connected ->
  exists fd, cn_sock c = Some fd /\ behv fd = Accept /\ (forall j, (j < fd)%nat -> behv j <> Accept) /\
             attempts tr = firstn (S fd) (flatten gai (eff_rrs cfg srv)).
Proof.
  intros gai behv cfg srv t0 ops c tr Hok H Hty Hst.
  destruct (acceptor_used gai behv cfg srv t0 ops c tr Hok H) as [Hc _].
  destruct (Hc Hst) as (fd & F1 & F2 & F3 & F4 & F5 & _).
  exists fd. repeat split; auto.
  intros j Hj Hb. specialize (F5 j Hj Hb).
  rewrite (timely_no_acceptor_timed_out gai behv cfg srv t0 ops c tr H Hty j Hb) in F5. discriminate.
Qed.

Lemma failure_timely : forall gai behv cfg srv t0 ops c tr,
  cfg_ok cfg = true ->
  scenario gai behv true cfg srv t0 ops = (c, tr) ->
  timely CONNECT_TIMEOUT ops ->
  failed tr = true ->
  forall j, (j < length (flatten gai (eff_rrs cfg srv)))%nat -> behv j <> Accept.
Proof.
  intros gai behv cfg srv t0 ops c tr Hok H Hty Hf j Hj Hb.
  destruct (failure_after_all gai behv cfg srv t0 ops c tr Hok H Hf) as (_ & _ & _ & Hto).
  specialize (Hto j Hj Hb).
  rewrite (timely_no_acceptor_timed_out gai behv cfg srv t0 ops c tr H Hty j Hb) in Hto. discriminate.
Qed.
