(* C12 - basic lemmas about the stanza heap, the abstract trees and the flat ("one entry per node")
   reading of [repr]. *)
Require Import LV.Common.Bytes LV.Gen.Gen_stanza LV.Model.StanzaModel LV.Model.StanzaHeapModel LV.Spec.OwnershipSpec.
Require Import Lia.
Local Open Scope Z_scope.

(* ------------------------------------------------------------------------------------ *)
(* lists                                                                                  *)
(* ------------------------------------------------------------------------------------ *)
Lemma nth_error_set_nth_same : forall A (l : list A) n x, (n < length l)%nat -> nth_error (set_nth n l x) n = Some x.
Proof.
  induction l as [|y l IH]; intros n x Hn; cbn in Hn; [lia|].
  destruct n; cbn [set_nth nth_error]; [reflexivity|]. apply IH. lia.
Qed.

Lemma nth_error_set_nth_other : forall A (l : list A) n m x, n <> m -> nth_error (set_nth n l x) m = nth_error l m.
Proof.
  induction l as [|y l IH]; intros n m x Hn; [destruct n; reflexivity|].
  destruct n, m; cbn [set_nth nth_error]; try reflexivity; try congruence. apply IH. congruence.
Qed.

Lemma set_nth_len : forall A (l : list A) n x, length (set_nth n l x) = length l.
Proof. induction l as [|y l IH]; intros [|n] x; cbn [set_nth length]; try reflexivity. rewrite IH. reflexivity. Qed.

Lemma fm_cons : forall A B (f : A -> list B) x l, flat_map f (x :: l) = f x ++ flat_map f l.
Proof. reflexivity. Qed.

Lemma nodup_app : forall A (a b : list A),
  NoDup (a ++ b) <-> NoDup a /\ NoDup b /\ (forall x, In x a -> ~ In x b).
Proof.
  induction a as [|x a IH]; intros b; cbn [app].
  - split; [intros; split; [constructor|split; [assumption|intros x []]]|tauto].
  - split.
    + intros ND. inversion ND as [|? ? Hn ND']; subst. apply IH in ND'. destruct ND' as (Na & Nb & D).
      split; [constructor; [intros Hx; apply Hn; apply in_or_app; auto|assumption]|].
      split; [assumption|]. intros y [E|Hy]; [subst; intros Hy; apply Hn; apply in_or_app; auto|apply D; assumption].
    + intros (Na & Nb & D). inversion Na as [|? ? Hn Na']; subst. constructor.
      * intros Hx. apply in_app_or in Hx. destruct Hx as [Hx|Hx]; [auto|]. apply (D x (or_introl eq_refl) Hx).
      * apply IH. split; [assumption|]. split; [assumption|]. intros y Hy. apply D. right. assumption.
Qed.

Lemma count_nat_cons : forall l i j, count_nat (j :: l) i = (if Nat.eqb i j then 1 else 0) + count_nat l i.
Proof.
  intros. unfold count_nat, zlen. cbn [filter]. destruct (Nat.eqb i j); cbn [length]; lia.
Qed.

Lemma count_nat_nil : forall i, count_nat [] i = 0.
Proof. reflexivity. Qed.

Lemma count_nat_nonneg : forall l i, 0 <= count_nat l i.
Proof. intros. unfold count_nat, zlen. lia. Qed.

Lemma count_nat_app : forall l1 l2 i, count_nat (l1 ++ l2) i = count_nat l1 i + count_nat l2 i.
Proof. intros. unfold count_nat, zlen. rewrite filter_app, app_length. lia. Qed.

Lemma count_nat_in : forall l i, In i l <-> 1 <= count_nat l i.
Proof.
  induction l as [|j l IH]; intros i.
  - rewrite count_nat_nil. split; [intros []|lia].
  - rewrite count_nat_cons. cbn [In]. destruct (Nat.eqb_spec i j) as [E|E].
    + subst. pose proof (count_nat_nonneg l j). split; intros; [lia|auto].
    + rewrite IH. split; [intros [?|?]; [congruence|lia]|intros; right; lia].
Qed.

Lemma count_nat_remove1 : forall l c i, In c l ->
  count_nat (remove1 c l) i = count_nat l i - (if Nat.eqb i c then 1 else 0).
Proof.
  induction l as [|j l IH]; intros c i Hin; [destruct Hin|].
  cbn [remove1]. destruct (Nat.eqb_spec c j) as [E|E].
  - subst. rewrite count_nat_cons. lia.
  - destruct Hin as [?|Hin]; [congruence|]. rewrite !count_nat_cons, IH by exact Hin. lia.
Qed.

Lemma count_nat_notin : forall l i, ~ In i l -> count_nat l i = 0.
Proof. intros l i H. rewrite count_nat_in in H. pose proof (count_nat_nonneg l i). lia. Qed.

(* ------------------------------------------------------------------------------------ *)
(* heap cells                                                                             *)
(* ------------------------------------------------------------------------------------ *)
Lemma rd_ok : forall h i n, rd h i = Ok n <-> live h i n.
Proof.
  intros. unfold rd, live. destruct (nth_error h i) as [[m|]|]; split; intros E; try discriminate; try congruence.
Qed.

Lemma rd_live : forall h i n, live h i n -> rd h i = Ok n.
Proof. intros. apply rd_ok. assumption. Qed.

Lemma live_lt : forall h i n, live h i n -> (i < length h)%nat.
Proof. intros h i n L. apply nth_error_Some. unfold live in L. congruence. Qed.

Lemma live_fun : forall h i n m, live h i n -> live h i m -> n = m.
Proof. unfold live. intros. congruence. Qed.

Lemma live_wr_same : forall h i n m, live h i n -> live (wr h i m) i m.
Proof. intros. unfold live, wr. apply nth_error_set_nth_same. eapply live_lt; eauto. Qed.

Lemma nth_wr_other : forall h i m j, i <> j -> nth_error (wr h i m) j = nth_error h j.
Proof. intros. unfold wr. apply nth_error_set_nth_other. assumption. Qed.

Lemma live_wr_other : forall h i m j n, i <> j -> (live (wr h i m) j n <-> live h j n).
Proof. intros. unfold live. rewrite nth_wr_other by assumption. tauto. Qed.

Lemma wr_len : forall h i m, length (wr h i m) = length h.
Proof. intros. apply set_nth_len. Qed.

Lemma free_cell_ok : forall h i n, live h i n -> free_cell h i = Ok (set_nth i h None).
Proof. intros h i n L. unfold free_cell. unfold live in L. rewrite L. reflexivity. Qed.

Lemma live_app_l : forall h x i n, live h i n -> live (h ++ x) i n.
Proof. intros. unfold live in *. rewrite nth_error_app1; [assumption|]. apply nth_error_Some. congruence. Qed.

Lemma live_app_new : forall h n, live (h ++ [Some n]) (length h) n.
Proof. intros. unfold live. rewrite nth_error_app2 by lia. rewrite Nat.sub_diag. reflexivity. Qed.

Lemma live_app_inv : forall h c i n, live (h ++ [c]) i n -> live h i n \/ (i = length h /\ c = Some n).
Proof.
  intros h c i n L. unfold live in *. destruct (Nat.lt_ge_cases i (length h)) as [Hl|Hl].
  - rewrite nth_error_app1 in L by assumption. auto.
  - rewrite nth_error_app2 in L by assumption. right.
    destruct (i - length h)%nat as [|k] eqn:E; cbn in L.
    + split; [lia|congruence].
    + destruct k; discriminate.
Qed.

(* ------------------------------------------------------------------------------------ *)
(* trees                                                                                  *)
(* ------------------------------------------------------------------------------------ *)
Lemma T_ind' : forall P : T -> Prop,
  (forall i ks, Forall P ks -> P (N i ks)) -> forall t, P t.
Proof.
  intros P HN. fix IH 1. intros [i ks]. apply HN.
  induction ks as [|k ks IHks]; constructor; [apply IH|exact IHks].
Qed.

Lemma ids_N : forall i ks, ids (N i ks) = i :: idsl ks.
Proof. reflexivity. Qed.

Lemma idsl_cons : forall k r, idsl (k :: r) = ids k ++ idsl r.
Proof. reflexivity. Qed.

Lemma idsl_app : forall a b, idsl (a ++ b) = idsl a ++ idsl b.
Proof. intros. unfold idsl. apply flat_map_app. Qed.

Lemma root_in_ids : forall t, In (root t) (ids t).
Proof. intros [i ks]. left. reflexivity. Qed.

Lemma in_idsl : forall ts j, In j (idsl ts) <-> exists t, In t ts /\ In j (ids t).
Proof. intros. unfold idsl. rewrite in_flat_map. tauto. Qed.

(* fuel needed by the recursive traversals (release, render, subtree, copy): one unit per node and
   one per list cell *)
Fixpoint need (t : T) : nat :=
  match t with
  | N _ ks => S ((fix nl (l : list T) : nat := match l with [] => O | k :: r => S (Nat.max (need k) (nl r)) end) ks)
  end.
Fixpoint needl (l : list T) : nat := match l with [] => O | k :: r => S (Nat.max (need k) (needl r)) end.

Lemma need_N : forall i ks, need (N i ks) = S (needl ks).
Proof. reflexivity. Qed.

Lemma need_bound : forall t, (S (need t) <= 2 * length (ids t))%nat.
Proof.
  induction t as [i ks IH] using T_ind'. rewrite need_N, ids_N. cbn [length].
  assert (needl ks <= 2 * length (idsl ks))%nat; [|lia].
  induction IH as [|k r Hk _ IHr]; cbn [needl]; [cbn; lia|].
  rewrite idsl_cons, app_length. lia.
Qed.

(* ------------------------------------------------------------------------------------ *)
(* the flat reading: one entry (node, parent, roots of its children in order) per node     *)
(* ------------------------------------------------------------------------------------ *)
Notation entry := (nat * option nat * list nat)%type.

Fixpoint nodes (par : option nat) (t : T) : list entry :=
  match t with N i ks => (i, par, map root ks) :: flat_map (nodes (Some i)) ks end.

(* the list starting at [start] visits exactly kr *)
Fixpoint lchain (h : sheap) (start : option nat) (kr : list nat) : Prop :=
  match kr with
  | [] => start = None
  | r :: rs => start = Some r /\ exists nr, live h r nr /\ lchain h (s_next nr) rs
  end.

Definition local (h : sheap) (e : entry) : Prop :=
  let '(i, par, kr) := e in exists n, live h i n /\ s_parent n = par /\ lchain h (s_children n) kr.

Definition flat (h : sheap) (par : option nat) (t : T) : Prop := Forall (local h) (nodes par t).

Lemma nodes_N : forall par i ks, nodes par (N i ks) = (i, par, map root ks) :: flat_map (nodes (Some i)) ks.
Proof. reflexivity. Qed.

Lemma flat_N : forall h par i ks,
  flat h par (N i ks) <-> local h (i, par, map root ks) /\ Forall (flat h (Some i)) ks.
Proof.
  intros. unfold flat. rewrite nodes_N, Forall_cons_iff. apply and_iff_compat_l.
  induction ks as [|k r IH]; cbn [flat_map].
  - split; constructor.
  - rewrite Forall_app, Forall_cons_iff, IH. tauto.
Qed.

Lemma chainP_lchain : forall h (R : T -> Prop) ks start,
  chainP R h start ks <-> lchain h start (map root ks) /\ Forall R ks.
Proof.
  induction ks as [|k r IH]; intros start; cbn [chainP lchain map].
  - split; [intros; split; [assumption|constructor]|tauto].
  - split.
    + intros (E & Rk & nk & L & C). apply IH in C. destruct C as (C1 & C2).
      split; [split; [assumption|exists nk; tauto]|constructor; assumption].
    + intros ((E & nk & L & C) & HF). apply Forall_cons_iff in HF. destruct HF as (Rk & HF').
      split; [assumption|]. split; [assumption|].
      exists nk. split; [assumption|]. apply IH. tauto.
Qed.

Lemma repr_flat : forall h t par, repr h par t <-> flat h par t.
Proof.
  intros h. induction t as [i ks IH] using T_ind'. intros par.
  rewrite flat_N. cbn [repr local].
  split.
  - intros (n & L & P & C). apply chainP_lchain in C. destruct C as (C1 & C2). split.
    + exists n. tauto.
    + rewrite Forall_forall in *. intros k Hk. apply IH; auto.
  - intros ((n & L & P & C) & HF). exists n. split; [assumption|]. split; [assumption|].
    apply chainP_lchain. split; [assumption|]. rewrite Forall_forall in *. intros k Hk. apply IH; auto.
Qed.

(* entries name exactly the nodes of the tree *)
Lemma nodes_ids : forall t par, map (fun e => fst (fst e)) (nodes par t) = ids t.
Proof.
  induction t as [i ks IH] using T_ind'. intros par. rewrite nodes_N, ids_N, map_cons. cbn [fst]. f_equal.
  induction IH as [|k r Hk _ IHr]; [reflexivity|].
  rewrite fm_cons, idsl_cons, map_app, Hk. f_equal. exact IHr.
Qed.

Lemma entry_in_ids : forall t par i p kr, In (i, p, kr) (nodes par t) -> In i (ids t).
Proof.
  intros t par i p kr Hin. rewrite <- (nodes_ids t par). apply in_map_iff. exists (i, p, kr). auto.
Qed.

(* a node listed as a child has its own entry, with that parent *)
Lemma kid_entry : forall t par j pj krj r,
  In (j, pj, krj) (nodes par t) -> In r krj -> exists krr, In (r, Some j, krr) (nodes par t).
Proof.
  induction t as [i ks IH] using T_ind'. intros par j pj krj r Hin Hr.
  rewrite nodes_N in *. destruct Hin as [E|Hin].
  - inversion E; subst. apply in_map_iff in Hr. destruct Hr as (k & Ek & Hk).
    destruct k as [ik kks]. cbn [root] in Ek. subst.
    exists (map root kks). right. apply in_flat_map. exists (N r kks). split; [assumption|]. left. reflexivity.
  - apply in_flat_map in Hin. destruct Hin as (k & Hk & Hin).
    rewrite Forall_forall in IH. destruct (IH k Hk _ _ _ _ _ Hin Hr) as (krr & Hrr).
    exists krr. right. apply in_flat_map. exists k. tauto.
Qed.

Lemma nodup_map_inj : forall A B (f : A -> B) l x y,
  NoDup (map f l) -> In x l -> In y l -> f x = f y -> x = y.
Proof.
  induction l as [|a l IH]; intros x y ND Hx Hy E; [destruct Hx|].
  cbn [map] in ND. inversion ND as [|? ? Hn ND']; subst.
  destruct Hx as [Hx|Hx], Hy as [Hy|Hy]; subst.
  - reflexivity.
  - exfalso. apply Hn. rewrite E. apply in_map. assumption.
  - exfalso. apply Hn. rewrite <- E. apply in_map. assumption.
  - apply IH; assumption.
Qed.

Lemma entry_unique : forall t par e1 e2,
  NoDup (ids t) -> In e1 (nodes par t) -> In e2 (nodes par t) -> fst (fst e1) = fst (fst e2) -> e1 = e2.
Proof.
  intros t par e1 e2 ND H1 H2 E. rewrite <- (nodes_ids t par) in ND.
  eapply nodup_map_inj with (f := fun e : entry => fst (fst e)); eassumption.
Qed.

Lemma kid_parent_unique : forall t par j pj krj j' pj' krj' r,
  NoDup (ids t) -> In (j, pj, krj) (nodes par t) -> In (j', pj', krj') (nodes par t) ->
  In r krj -> In r krj' -> j = j'.
Proof.
  intros t par j pj krj j' pj' krj' r ND H1 H2 R1 R2.
  destruct (kid_entry _ _ _ _ _ _ H1 R1) as (k1 & E1).
  destruct (kid_entry _ _ _ _ _ _ H2 R2) as (k2 & E2).
  pose proof (entry_unique _ _ _ _ ND E1 E2 eq_refl) as E. inversion E. reflexivity.
Qed.

(* a kid root is a node of the tree, different from the tree's root when ids are distinct *)
Lemma kid_in_ids : forall t par j pj krj r, In (j, pj, krj) (nodes par t) -> In r krj -> In r (ids t).
Proof.
  intros. destruct (kid_entry _ _ _ _ _ _ H H0) as (krr & E). eapply entry_in_ids; eassumption.
Qed.

Lemma root_entry : forall t par, exists kr, In (root t, par, kr) (nodes par t).
Proof. intros [i ks] par. exists (map root ks). left. reflexivity. Qed.

Lemma kid_not_root : forall t par j pj krj, NoDup (ids t) -> In (j, pj, krj) (nodes (Some par) t) -> ~ In par (ids t) ->
  ~ In (root t) krj.
Proof.
  intros t par j pj krj ND Hin Hpar Hr.
  destruct (kid_entry _ _ _ _ _ _ Hin Hr) as (krr & E).
  destruct (root_entry t (Some par)) as (kr0 & E0).
  pose proof (entry_unique _ _ _ _ ND E E0 eq_refl) as EE. inversion EE; subst.
  apply Hpar. eapply entry_in_ids; eassumption.
Qed.

Lemma kid_not_root_top : forall t j pj krj, NoDup (ids t) -> In (j, pj, krj) (nodes None t) -> ~ In (root t) krj.
Proof.
  intros t j pj krj ND Hin Hr.
  destruct (kid_entry _ _ _ _ _ _ Hin Hr) as (krr & E).
  destruct (root_entry t None) as (kr0 & E0).
  pose proof (entry_unique _ _ _ _ ND E E0 eq_refl) as EE. inversion EE.
Qed.

(* every entry's parent field: the given parent for the root, a node of the tree otherwise *)
Lemma entry_parent : forall t par j pj krj, In (j, pj, krj) (nodes par t) ->
  (j = root t /\ pj = par) \/ (exists p, pj = Some p /\ In p (ids t)).
Proof.
  induction t as [i ks IH] using T_ind'. intros par j pj krj Hin.
  rewrite nodes_N in Hin. destruct Hin as [E|Hin].
  - inversion E; subst. left. split; reflexivity.
  - right. apply in_flat_map in Hin. destruct Hin as (k & Hk & Hin).
    rewrite Forall_forall in IH. destruct (IH k Hk _ _ _ _ Hin) as [(E1 & E2)|(p & E1 & E2)].
    + subst. exists i. split; [reflexivity|]. left. reflexivity.
    + exists p. split; [assumption|]. rewrite ids_N. right. apply in_idsl. exists k. tauto.
Qed.

(* ------------------------------------------------------------------------------------ *)
(* frame lemmas                                                                           *)
(* ------------------------------------------------------------------------------------ *)
Lemma lchain_ext : forall h h' kr start,
  (forall r n, In r kr -> live h r n -> exists n', live h' r n' /\ s_next n' = s_next n) ->
  lchain h start kr -> lchain h' start kr.
Proof.
  induction kr as [|r rs IH]; intros start Hx C; cbn [lchain] in *; [assumption|].
  destruct C as (E & nr & L & C). split; [assumption|].
  destruct (Hx r nr (or_introl eq_refl) L) as (n' & L' & En). exists n'. split; [assumption|].
  rewrite En. apply IH; [|assumption]. intros r0 n0 Hr0. apply Hx. right. assumption.
Qed.

Lemma local_ext : forall h h' i par par' kr,
  (forall n, live h i n -> s_parent n = par -> exists n', live h' i n' /\ s_parent n' = par' /\ s_children n' = s_children n) ->
  (forall r n, In r kr -> live h r n -> exists n', live h' r n' /\ s_next n' = s_next n) ->
  local h (i, par, kr) -> local h' (i, par', kr).
Proof.
  intros h h' i par par' kr Hi Hk (n & L & P & C). destruct (Hi n L P) as (n' & L' & P' & Ec).
  exists n'. split; [assumption|]. split; [assumption|]. rewrite Ec. eapply lchain_ext; eassumption.
Qed.

(* cells that stay identical *)
Lemma local_agree : forall h h' i par kr,
  nth_error h' i = nth_error h i -> (forall r, In r kr -> nth_error h' r = nth_error h r) ->
  local h (i, par, kr) -> local h' (i, par, kr).
Proof.
  intros h h' i par kr Ei Ek. apply local_ext.
  - intros n L P. exists n. unfold live in *. rewrite Ei. tauto.
  - intros r n Hr L. exists n. unfold live in *. rewrite (Ek r Hr). tauto.
Qed.

Lemma flat_agree : forall h h' par t,
  (forall j, In j (ids t) -> nth_error h' j = nth_error h j) -> flat h par t -> flat h' par t.
Proof.
  intros h h' par t Hag Hf. unfold flat in *. rewrite Forall_forall in *. intros [[i pi] kr] Hin.
  apply (local_agree h h').
  - apply Hag. eapply entry_in_ids; eassumption.
  - intros r Hr. apply Hag. eapply kid_in_ids; eassumption.
  - apply (Hf _ Hin).
Qed.

Lemma flat_live : forall h par t, flat h par t -> forall j, In j (ids t) -> exists n, live h j n.
Proof.
  intros h par t Hf j Hj. rewrite <- (nodes_ids t par) in Hj. apply in_map_iff in Hj.
  destruct Hj as ([[i pi] kr] & E & Hin). cbn in E. subst.
  unfold flat in Hf. rewrite Forall_forall in Hf. destruct (Hf _ Hin) as (n & L & _). exists n. assumption.
Qed.

Lemma flat_root : forall h par t, flat h par t -> exists n, live h (root t) n /\ s_parent n = par /\ lchain h (s_children n) (map root (kids t)).
Proof. intros h par [i ks] Hf. apply flat_N in Hf. destruct Hf as ((n & L & P & C) & _). exists n. tauto. Qed.

Lemma flat_parent : forall h par t j n, flat h par t -> In j (ids t) -> live h j n ->
  (j = root t /\ s_parent n = par) \/ (exists p, s_parent n = Some p /\ In p (ids t)).
Proof.
  intros h par t j n Hf Hj L. rewrite <- (nodes_ids t par) in Hj. apply in_map_iff in Hj.
  destruct Hj as ([[i pi] kr] & E & Hin). cbn in E. subst.
  unfold flat in Hf. rewrite Forall_forall in Hf. destruct (Hf _ Hin) as (n' & L' & P & _).
  rewrite (live_fun _ _ _ _ L L'). rewrite P. eapply entry_parent. eassumption.
Qed.

(* change of the root's parent field only *)
Lemma flat_reparent : forall h h' par par' t, NoDup (ids t) ->
  (forall n, live h (root t) n -> exists n', live h' (root t) n' /\ s_parent n' = par' /\ s_children n' = s_children n) ->
  (forall j, In j (ids t) -> j <> root t -> nth_error h' j = nth_error h j) ->
  flat h par t -> flat h' par' t.
Proof.
  intros h h' par par' [i ks] ND Hr Hag Hf. cbn [root] in *.
  apply flat_N in Hf. destruct Hf as (Hl & Hk). apply flat_N.
  rewrite ids_N in ND. inversion ND as [|? ? Hni ND']; subst.
  split.
  - eapply local_ext; [| |exact Hl].
    + intros n L _. apply Hr. assumption.
    + intros r n Hr0 L. exists n. split; [|reflexivity]. unfold live in *. rewrite Hag; [assumption| |].
      * rewrite ids_N. right. apply in_map_iff in Hr0. destruct Hr0 as (k & E & Hk0). subst.
        apply in_idsl. exists k. split; [assumption|apply root_in_ids].
      * intros E. subst. apply Hni. apply in_map_iff in Hr0. destruct Hr0 as (k & E & Hk0). rewrite <- E.
        apply in_idsl. exists k. split; [assumption|apply root_in_ids].
  - rewrite Forall_forall in *. intros k Hk0. eapply flat_agree; [|apply Hk; assumption].
    intros j Hj. apply Hag.
    + rewrite ids_N. right. apply in_idsl. exists k. tauto.
    + intros E. subst. apply Hni. apply in_idsl. exists k. tauto.
Qed.
