(* C12 - xmpp_stanza_copy: the deep copy is a fresh detached tree held by one new reference;
   the source graph is untouched. *)
Require Import LV.Common.Bytes LV.Gen.Gen_stanza LV.Model.StanzaModel LV.Model.StanzaHeapModel LV.Spec.OwnershipSpec.
Require Import LV.Proofs.StanzaHeapBase LV.Proofs.StanzaHeapRelease LV.Proofs.StanzaHeapInv LV.Proofs.StanzaHeapLink.
Require Import Lia Permutation.
Local Open Scope Z_scope.

Definition tail_of (krp : list nat) (d : nat) : option nat :=
  match krp with [] => None | _ => Some (last krp d) end.

(* copychild->parent = copy; if (tail) { copychild->prev = tail; tail->next = copychild; } else copy->children = copychild; *)
Definition tail_link (h1 : sheap) (cp cc : nat) (tail : option nat) : res sheap :=
  ncc <- rd h1 cc ;;
  let h2 := wr h1 cc (with_links ncc (Some cp) (s_children ncc) (s_next ncc) (s_prev ncc)) in
  match tail with
  | Some t =>
      ncc2 <- rd h2 cc ;;
      let h3 := wr h2 cc (with_links ncc2 (s_parent ncc2) (s_children ncc2) (s_next ncc2) (Some t)) in
      nt <- rd h3 t ;;
      Ok (wr h3 t (with_links nt (s_parent nt) (s_children nt) (Some cc) (s_prev nt)))
  | None =>
      ncp <- rd h2 cp ;;
      Ok (wr h2 cp (with_links ncp (s_parent ncp) (Some cc) (s_next ncp) (s_prev ncp)))
  end.

Lemma copy_S : forall f h i,
  copy true (S f) h i =
  (n <- rd h i ;;
   let '(h0, cp) := stanza_new h in
   ncp <- rd h0 cp ;;
   match copy_attrs_of (s_type n) (s_attrs n) with
   | None => h' <- release true (fuel_of h0) h0 cp ;; Ok (h', None)
   | Some a' => copy_loop true f (wr h0 cp (with_payload ncp (s_type n) (s_data n) a')) cp None (s_children n)
   end).
Proof. reflexivity. Qed.

Lemma copy_loop_None : forall fuel h cp tail, copy_loop true fuel h cp tail None = Ok (h, Some cp).
Proof. destruct fuel; reflexivity. Qed.

Lemma copy_loop_S : forall f h cp tail c,
  copy_loop true (S f) h cp tail (Some c) =
  (r <- copy true f h c ;;
   match snd r with
   | None => h' <- release true (fuel_of (fst r)) (fst r) cp ;; Ok (h', None)
   | Some cc =>
       h4 <- tail_link (fst r) cp cc tail ;;
       nc <- rd h4 c ;;
       copy_loop true f h4 cp (Some cc) (s_next nc)
   end).
Proof.
  intros. cbn [copy_loop]. destruct (copy true f h c) as [[h1 [cc|]]| | |]; cbn [bind fst snd]; try reflexivity.
  all: unfold tail_link; destruct (rd h1 cc) as [ncc| | |]; cbn [bind]; try reflexivity.
  all: destruct tail as [t|].
  all: repeat match goal with |- context [bind (rd ?hh ?x) _] => destruct (rd hh x); cbn [bind] end; reflexivity.
Qed.

Lemma lchain_fun : forall h k1 k2 start, lchain h start k1 -> lchain h start k2 -> k1 = k2.
Proof.
  induction k1 as [|x r IH]; intros k2 start C1 C2; destruct k2 as [|y r2]; cbn [lchain] in *; try reflexivity.
  - destruct C2 as (E & _). congruence.
  - destruct C1 as (E & _). congruence.
  - destruct C1 as (E1 & n1 & L1 & C1). destruct C2 as (E2 & n2 & L2 & C2).
    assert (x = y) by congruence. subst y. rewrite (live_fun _ _ _ _ L2 L1) in C2. f_equal. eapply IH; eassumption.
Qed.

Lemma tail_link_facts : forall h p c nc np krp,
  live h c nc -> live h p np -> p <> c -> s_next nc = None ->
  lchain h (s_children np) krp -> NoDup krp -> ~ In c krp -> ~ In p krp ->
  exists h', tail_link h p c (tail_of krp p) = Ok h' /\ link_facts h h' p c krp.
Proof.
  intros h p c nc np krp Lc Lp Hpc Nc C ND Hck Hpk. unfold tail_link.
  rewrite (rd_live _ _ _ Lc). cbn [bind].
  set (nc1 := with_links nc (Some p) (s_children nc) (s_next nc) (s_prev nc)).
  set (h1 := wr h c nc1).
  assert (Lc1 : live h1 c nc1) by (eapply live_wr_same; exact Lc).
  assert (Lp1 : live h1 p np) by (apply live_wr_other; [congruence|exact Lp]).
  destruct krp as [|s rest].
  - cbn [tail_of]. cbn [lchain] in C. rewrite (rd_live _ _ _ Lp1). cbn [bind].
    set (np1 := with_links np (s_parent np) (Some c) (s_next np) (s_prev np)).
    set (h2 := wr h1 p np1).
    assert (Lp2 : live h2 p np1) by (eapply live_wr_same; exact Lp1).
    assert (Lc2 : live h2 c nc1) by (apply live_wr_other; [exact Hpc|exact Lc1]).
    exists h2. split; [reflexivity|]. constructor.
    + unfold h2, h1. rewrite !wr_len. reflexivity.
    + intros j Hjp Hjc _. unfold h2, h1. rewrite !nth_wr_other by congruence. reflexivity.
    + exists nc, nc1. split; [exact Lc|]. split; [exact Lc2|]. cbn. rewrite Nc. tauto.
    + exists np, np1. split; [exact Lp|]. split; [exact Lp2|]. repeat (split; [reflexivity|]).
      unfold np1. cbn [app lchain s_children with_links]. exists nc1. split; [exact Lc2|]. cbn. exact Nc.
    + intros Hn. congruence.
  - cbn [tail_of]. set (l := last (s :: rest) p).
    assert (Hl : In l (s :: rest)) by (apply last_in; discriminate).
    assert (Hlc : l <> c) by (intros E; apply Hck; rewrite <- E; exact Hl).
    assert (Hlp : l <> p) by (intros E; apply Hpk; rewrite <- E; exact Hl).
    destruct (lchain_live _ _ _ _ C Hl) as (nl & Ll).
    rewrite (rd_live _ _ _ Lc1). cbn [bind].
    set (nc3 := with_links nc1 (s_parent nc1) (s_children nc1) (s_next nc1) (Some l)).
    set (h2 := wr h1 c nc3).
    assert (Lc2 : live h2 c nc3) by (eapply live_wr_same; exact Lc1).
    assert (Ll2 : live h2 l nl).
    { apply live_wr_other; [congruence|]. apply live_wr_other; [congruence|]. exact Ll. }
    rewrite (rd_live _ _ _ Ll2). cbn [bind].
    set (nl2 := with_links nl (s_parent nl) (s_children nl) (Some c) (s_prev nl)).
    set (h3 := wr h2 l nl2).
    assert (Ll3 : live h3 l nl2) by (eapply live_wr_same; exact Ll2).
    assert (Lc3 : live h3 c nc3) by (apply live_wr_other; [exact Hlc|exact Lc2]).
    assert (Lp3 : live h3 p np).
    { apply live_wr_other; [congruence|]. apply live_wr_other; [congruence|]. exact Lp1. }
    assert (Es : s_children np = Some s) by (cbn [lchain] in C; tauto).
    assert (El : last (s :: rest) s = l) by (apply last_default; discriminate).
    exists h3. split; [reflexivity|]. constructor.
    + unfold h3, h2, h1. rewrite !wr_len. reflexivity.
    + intros j Hjp Hjc Hjl. fold l in Hjl. unfold h3, h2, h1. rewrite !nth_wr_other by congruence. reflexivity.
    + exists nc, nc3. split; [exact Lc|]. split; [exact Lc3|]. cbn. rewrite Nc. tauto.
    + exists np, np. split; [exact Lp|]. split; [exact Lp3|]. repeat (split; [reflexivity|]). rewrite Es. rewrite Es in C.
      apply (lchain_snoc (s :: rest) h h3 s c C); [discriminate| | |].
      * intros r n Hr Hrl Lr. rewrite El in Hrl. exists n. split; [|reflexivity].
        apply live_wr_other; [congruence|]. apply live_wr_other; [intros E; subst; contradiction|].
        apply live_wr_other; [intros E; subst; contradiction|]. exact Lr.
      * rewrite El. exists nl2. split; [exact Ll3|reflexivity].
      * exists nc3. split; [exact Lc3|]. cbn. exact Nc.
    + intros _. fold l. exists nl, nl2. split; [exact Ll|]. split; [exact Ll3|]. cbn. tauto.
Qed.

(* ------------------------------------------------------------------------------------ *)
(* the copy                                                                               *)
(* ------------------------------------------------------------------------------------ *)
Definition copy_spec (t : T) : Prop :=
  forall h H F par fuel,
    (need t <= fuel)%nat -> Inv h H F -> flat h par t ->
    exists h' r, copy true fuel h (root t) = Ok (h', r) /\
      match r with
      | Some cp => cp = length h /\ (length h < length h')%nat /\
                   (forall j, (j < length h)%nat -> nth_error h' j = nth_error h j) /\
                   exists tcp, Inv h' (cp :: H) (tcp :: F) /\ root tcp = cp /\
                               (forall j, In j (ids tcp) -> (length h <= j)%nat)
      | None => exists F', Inv h' H F'
      end.

Lemma inv_old_lt : forall h H F j, Inv h H F -> In j (idsl F) -> (j < length h)%nat.
Proof. intros h H F j I Hj. destruct (inv_ids_live _ _ _ _ I Hj) as (n & L). eapply live_lt; exact L. Qed.

Lemma last_snoc : forall A (l : list A) x d, last (l ++ [x]) d = x.
Proof. intros. apply last_last. Qed.

Lemma tail_of_snoc : forall krp c d, tail_of (krp ++ [c]) d = Some c.
Proof. intros. unfold tail_of. destruct (krp ++ [c]) eqn:E; [destruct krp; discriminate|]. rewrite <- E, last_snoc. reflexivity. Qed.

Lemma copy_loop_ok : forall ks, Forall copy_spec ks ->
  forall base g H F tcp fuel cp tail start isrc,
  (needl ks <= fuel)%nat -> Inv g (cp :: H) (tcp :: F) -> root tcp = cp ->
  (forall j, In j (ids tcp) -> (base <= j)%nat) -> (forall j, In j (idsl F) -> (j < base)%nat) ->
  (base <= length g)%nat ->
  (exists ncp krp, live g cp ncp /\ lchain g (s_children ncp) krp /\ tail = tail_of krp cp) ->
  lchain g start (map root ks) -> Forall (flat g (Some isrc)) ks -> (forall j, In j (idsl ks) -> (j < base)%nat) ->
  exists g' r, copy_loop true fuel g cp tail start = Ok (g', r) /\
    match r with
    | Some cp' => cp' = cp /\ (length g <= length g')%nat /\
                  (forall j, (j < base)%nat -> nth_error g' j = nth_error g j) /\
                  exists tcp', Inv g' (cp :: H) (tcp' :: F) /\ root tcp' = cp /\ (forall j, In j (ids tcp') -> (base <= j)%nat)
    | None => exists F', Inv g' H F'
    end.
Proof.
  induction 1 as [|k r Hk _ IH]; intros base g H F tcp fuel cp tail start isrc Hfuel I Ert Hnew Hold Hbase Htail Hch Hfl Hsrc.
  - cbn [map lchain] in Hch. subst start. rewrite copy_loop_None. exists g, (Some cp). split; [reflexivity|].
    split; [reflexivity|]. split; [lia|]. split; [reflexivity|]. exists tcp. tauto.
  - cbn [map lchain] in Hch. destruct Hch as (Es & nk & Lk & Hch). subst start.
    cbn [needl] in Hfuel. destruct fuel as [|f]; [lia|].
    apply Forall_cons_iff in Hfl. destruct Hfl as (Hfk & Hfr).
    rewrite idsl_cons in Hsrc.
    rewrite copy_loop_S.
    destruct (Hk g (cp :: H) (tcp :: F) (Some isrc) f ltac:(lia) I Hfk) as (g1 & rr & Rc & Post).
    rewrite Rc. cbn [bind fst snd]. destruct rr as [cc|].
    + destruct Post as (Ecc & Len1 & Fr1 & tcc & I1 & Ertc & Hnewc).
      destruct Htail as (ncp & krp & Lcp & Chp & Etail).
      assert (Hcplt : (cp < length g)%nat) by (eapply live_lt; exact Lcp).
      assert (Lcp1 : live g1 cp ncp) by (unfold live in *; rewrite Fr1 by exact Hcplt; exact Lcp).
      assert (Chp1 : lchain g1 (s_children ncp) krp).
      { eapply lchain_ext; [|exact Chp]. intros r0 n0 Hr0 L0. exists n0. split; [|reflexivity].
        unfold live in *. rewrite Fr1; [exact L0|]. apply nth_error_Some. congruence. }
      assert (Hcptcc : ~ In cp (ids tcc)) by (intros Hin; apply Hnewc in Hin; lia).
      destruct (inv_link_prep g1 (cc :: cp :: H) [] (tcp :: F) cp cc tcc ncp I1 Ertc Lcp1 Hcptcc)
        as (tp & pp & krp' & ncc & Htp & Hep & Lcc & Ncc & Chp' & NDk & Hck & Hpk & Hpc).
      assert (krp' = krp) by (eapply lchain_fun; eassumption). subst krp'.
      destruct (tail_link_facts g1 cp cc ncc ncp krp Lcc Lcp1 Hpc Ncc Chp1 NDk Hck Hpk) as (g4 & Rt & Facts).
      rewrite Etail, Rt. cbn [bind].
      destruct (inv_link_facts g1 g4 (cc :: cp :: H) [] (tcp :: F) tcc tp cp cc pp krp I1 Ertc Htp Hep Facts) as (I4 & PL4).
      rewrite remove1_head in I4. cbn [app map] in I4.
      assert (EF : map (graft cp tcc) F = F).
      { rewrite <- (map_id F) at 2. apply map_ext_in. intros t Ht. apply graft_notin. intros Hin.
        assert (cp < base)%nat; [|pose proof (Hnew cp ltac:(rewrite <- Ert; apply root_in_ids)); lia].
        apply Hold. apply in_idsl. exists t. tauto. }
      rewrite EF in I4.
      pose proof (inv_tree_nodup _ _ _ _ I (or_introl eq_refl)) as NDtcp.
      assert (Hcpt : In cp (ids tcp)) by (rewrite <- Ert; apply root_in_ids).
      assert (Hnew4 : forall j, In j (ids (graft cp tcc tcp)) -> (base <= j)%nat).
      { intros j Hj. eapply Permutation_in in Hj; [|apply ids_graft_perm; assumption].
        apply in_app_or in Hj. destruct Hj as [Hj|Hj]; [apply Hnew, Hj|]. apply Hnewc in Hj. lia. }
      (* the frame below base *)
      assert (Hltp : (base <= last krp cp)%nat).
      { destruct krp as [|x xs]; [cbn; apply Hnew, Hcpt|]. apply Hnew.
        assert (Htpe : tp = tcp).
        { cbn [app] in Htp. destruct Htp as [E|Htp]; [congruence|]. exfalso.
          assert (In cp (idsl F)) by (apply in_idsl; exists tp; split; [exact Htp|eapply entry_in_ids; exact Hep]).
          pose proof (Hold cp H0). pose proof (Hnew cp Hcpt). lia. }
        subst tp. eapply kid_in_ids; [exact Hep|]. apply last_in. discriminate. }
      assert (Fr4 : forall j, (j < base)%nat -> nth_error g4 j = nth_error g j).
      { intros j Hj. rewrite (lf_frame _ _ _ _ _ Facts); [apply Fr1; lia| | |].
        - pose proof (Hnew cp Hcpt). lia.
        - lia.
        - lia. }
      assert (Hrk : (root k < base)%nat) by (apply Hsrc, in_or_app; left; apply root_in_ids).
      assert (Lk4 : live g4 (root k) nk) by (unfold live in *; rewrite Fr4 by exact Hrk; exact Lk).
      rewrite (rd_live _ _ _ Lk4). cbn [bind].
      destruct (lf_p _ _ _ _ _ Facts) as (np0 & np4 & Lp0 & Lp4 & _ & _ & _ & _ & Ch4).
      destruct (IH base g4 H F (graft cp tcc tcp) f cp (Some cc) (s_next nk) isrc) as (g' & r' & Rl & Post').
      * lia.
      * exact I4.
      * rewrite root_graft. exact Ert.
      * exact Hnew4.
      * exact Hold.
      * rewrite (lf_len _ _ _ _ _ Facts). lia.
      * exists np4, (krp ++ [cc]). split; [exact Lp4|]. split; [exact Ch4|]. symmetry. apply tail_of_snoc.
      * eapply lchain_ext; [|exact Hch]. intros r0 n0 Hr0 L0. exists n0. split; [|reflexivity].
        unfold live in *. rewrite Fr4; [exact L0|]. apply Hsrc, in_or_app. right.
        apply in_map_iff in Hr0. destruct Hr0 as (k' & E & Hk'). subst. apply in_idsl. exists k'. split; [exact Hk'|apply root_in_ids].
      * rewrite Forall_forall in *. intros k' Hk'. eapply flat_agree; [|apply Hfr, Hk'].
        intros j Hj. apply Fr4, Hsrc, in_or_app. right. apply in_idsl. exists k'. tauto.
      * intros j Hj. apply Hsrc, in_or_app. right. exact Hj.
      * exists g', r'. split; [exact Rl|]. destruct r' as [cp'|]; [|exact Post'].
        destruct Post' as (E' & Len' & Fr' & tcp' & I' & Er' & Hn').
        split; [exact E'|]. split; [rewrite (lf_len _ _ _ _ _ Facts) in Len'; lia|].
        split; [intros j Hj; rewrite Fr' by exact Hj; apply Fr4, Hj|]. exists tcp'. tauto.
    + destruct Post as (F1 & I1).
      destruct (inv_release g1 (cp :: H) F1 cp (fuel_of g1) I1 (or_introl eq_refl) (le_n _)) as (g2 & F2 & Rr & I2 & _).
      rewrite Rr. cbn [bind]. rewrite remove1_head in I2. exists g2, None. split; [reflexivity|]. exists F2. exact I2.
Qed.

Lemma copy_ok : forall t, copy_spec t.
Proof.
  induction t as [i ks IH] using T_ind'. intros h H F par fuel Hfuel I Hf.
  rewrite need_N in Hfuel. destruct fuel as [|f]; [lia|].
  pose proof Hf as Hf0. apply flat_N in Hf. destruct Hf as ((n & L & P & C) & Hfk). cbn [root].
  rewrite copy_S, (rd_live _ _ _ L). cbn [bind]. unfold stanza_new.
  set (cp := length h). set (h0 := h ++ [Some fresh_node]).
  assert (L0 : live h0 cp fresh_node) by apply live_app_new.
  rewrite (rd_live _ _ _ L0). cbn [bind].
  pose proof (inv_new _ _ _ I) as I0. fold cp h0 in I0.
  destruct (copy_attrs_of (s_type n) (s_attrs n)) as [a'|].
  - set (h1 := wr h0 cp (with_payload fresh_node (s_type n) (s_data n) a')).
    assert (I1 : Inv h1 (cp :: H) (N cp [] :: F)) by (apply inv_payload; assumption).
    assert (L1 : live h1 cp (with_payload fresh_node (s_type n) (s_data n) a')) by (eapply live_wr_same; exact L0).
    assert (Fr1 : forall j, (j < length h)%nat -> nth_error h1 j = nth_error h j).
    { intros j Hj. unfold h1. rewrite nth_wr_other by (unfold cp; lia). apply nth_app_old. exact Hj. }
    assert (Hids : forall j, In j (idsl ks) -> (j < length h)%nat).
    { intros j Hj. destruct (flat_live _ _ _ Hf0 j (or_intror Hj)) as (nj & Lj). eapply live_lt; exact Lj. }
    destruct (copy_loop_ok ks IH (length h) h1 H F (N cp []) f cp None (s_children n) i) as (g' & r & Rl & Post).
    + lia.
    + exact I1.
    + reflexivity.
    + intros j [E|[]]. unfold cp in E. lia.
    + intros j Hj. eapply inv_old_lt; eassumption.
    + unfold h1. rewrite wr_len. unfold h0. rewrite app_length. lia.
    + exists (with_payload fresh_node (s_type n) (s_data n) a'), []. split; [exact L1|]. split; [reflexivity|reflexivity].
    + eapply lchain_ext; [|exact C]. intros r0 n0 Hr0 L00. exists n0. split; [|reflexivity].
      unfold live in *. rewrite Fr1; [exact L00|]. apply nth_error_Some. congruence.
    + rewrite Forall_forall in *. intros k Hk. eapply flat_agree; [|apply Hfk, Hk].
      intros j Hj. apply Fr1, Hids. apply in_idsl. exists k. tauto.
    + exact Hids.
    + exists g', r. split; [exact Rl|]. destruct r as [cp'|]; [|exact Post].
      destruct Post as (E' & Len' & Fr' & tcp' & I' & Er' & Hn'). subst cp'.
      split; [reflexivity|]. split.
      { unfold h1 in Len'. rewrite wr_len in Len'. unfold h0 in Len'. rewrite app_length in Len'. cbn [length] in Len'. lia. }
      split; [intros j Hj; rewrite Fr' by exact Hj; apply Fr1, Hj|]. exists tcp'. tauto.
  - destruct (inv_release h0 (cp :: H) _ cp (fuel_of h0) I0 (or_introl eq_refl) (le_n _)) as (g2 & F2 & Rr & I2 & _).
    rewrite Rr. cbn [bind]. rewrite remove1_head in I2. exists g2, None. split; [reflexivity|]. exists F2. exact I2.
Qed.
