(* C12 - invariant preservation by the primitive steps: new, payload/ref updates, release; read-only walks. *)
Require Import LV.Common.Bytes LV.Gen.Gen_stanza LV.Model.StanzaModel LV.Model.StanzaHeapModel LV.Spec.OwnershipSpec.
Require Import LV.Proofs.StanzaHeapBase LV.Proofs.StanzaHeapRelease.
Require Import Lia.
Local Open Scope Z_scope.

(* every live node stays live *)
Definition pres_live (h h' : sheap) : Prop := forall j n, live h j n -> exists n', live h' j n'.

Lemma pres_live_refl : forall h, pres_live h h.
Proof. intros h j n L. exists n. exact L. Qed.

Lemma pres_live_trans : forall a b c, pres_live a b -> pres_live b c -> pres_live a c.
Proof. intros a b c H1 H2 j n L. destruct (H1 j n L) as (n' & L'). apply (H2 j n' L'). Qed.

Lemma pres_live_wr : forall h i n m, live h i n -> pres_live h (wr h i m).
Proof.
  intros h i n m L j nj Lj. destruct (Nat.eq_dec i j) as [E|E].
  - subst. exists m. eapply live_wr_same; eassumption.
  - exists nj. apply live_wr_other; assumption.
Qed.

(* ------------------------------------------------------------------------------------ *)
(* basic consequences of the invariant                                                    *)
(* ------------------------------------------------------------------------------------ *)
Lemma idsl_split : forall F1 t F2, idsl (F1 ++ t :: F2) = idsl F1 ++ ids t ++ idsl F2.
Proof. intros. rewrite idsl_app, idsl_cons. reflexivity. Qed.

Lemma inv_ids_live : forall h H F j, Inv h H F -> In j (idsl F) -> exists n, live h j n.
Proof.
  intros h H F j I Hj. apply in_idsl in Hj. destruct Hj as (t & Ht & Hj).
  pose proof (inv_trees _ _ _ I) as Tr. rewrite Forall_forall in Tr. eapply surv_live; [apply Tr, Ht|exact Hj].
Qed.

Lemma inv_tree_nodup : forall h H F t, Inv h H F -> In t F -> NoDup (ids t).
Proof.
  intros h H F t I Ht. apply in_split in Ht. destruct Ht as (F1 & F2 & E). subst.
  pose proof (inv_nodup _ _ _ I) as ND. rewrite idsl_split in ND.
  apply nodup_app in ND. destruct ND as (_ & ND & _). apply nodup_app in ND. tauto.
Qed.

Lemma inv_disjoint : forall h H F t1 t2 j, Inv h H F -> In t1 F -> In t2 F -> In j (ids t1) -> In j (ids t2) -> t1 = t2.
Proof.
  intros h H F t1 t2 j I H1 H2 J1 J2. pose proof (inv_nodup _ _ _ I) as ND. clear I.
  induction F as [|t F IH]; [destruct H1|]. rewrite idsl_cons in ND. apply nodup_app in ND. destruct ND as (Nt & NF & D).
  destruct H1 as [E1|H1], H2 as [E2|H2]; subst.
  - reflexivity.
  - exfalso. apply (D j J1). apply in_idsl. exists t2. tauto.
  - exfalso. apply (D j J2). apply in_idsl. exists t1. tauto.
  - apply IH; assumption.
Qed.

Lemma inv_tree_of : forall h H F j n, Inv h H F -> live h j n -> exists t, In t F /\ In j (ids t).
Proof. intros h H F j n I L. apply in_idsl. eapply inv_cover; eassumption. Qed.

Lemma inv_surv : forall h H F t, Inv h H F -> In t F -> surv h H t.
Proof. intros h H F t I Ht. pose proof (inv_trees _ _ _ I) as Tr. rewrite Forall_forall in Tr. apply Tr, Ht. Qed.

Lemma inv_tree_of_root : forall h H F i n, Inv h H F -> live h i n -> s_parent n = None ->
  exists t, In t F /\ root t = i.
Proof.
  intros h H F i n I L P. destruct (inv_tree_of _ _ _ _ _ I L) as (t & Ht & Hi). exists t. split; [exact Ht|].
  destruct (inv_surv _ _ _ _ I Ht) as (Hf & _).
  destruct (flat_parent _ _ _ _ _ Hf Hi L) as [(E & _)|(p & E & _)]; [congruence|congruence].
Qed.

Lemma inv_refs : forall h H F j n, Inv h H F -> live h j n -> s_ref n = count_nat H j + att n.
Proof.
  intros h H F j n I L. destruct (inv_tree_of _ _ _ _ _ I L) as (t & Ht & Hj).
  destruct (inv_surv _ _ _ _ I Ht) as (_ & _ & _ & R). apply (R j Hj n L).
Qed.

Lemma inv_parent_live : forall h H F j n p, Inv h H F -> live h j n -> s_parent n = Some p -> exists pn, live h p pn.
Proof.
  intros h H F j n p I L P. destruct (inv_tree_of _ _ _ _ _ I L) as (t & Ht & Hj).
  destruct (inv_surv _ _ _ _ I Ht) as (Hf & _).
  destruct (flat_parent _ _ _ _ _ Hf Hj L) as [(_ & E)|(p' & E & Hp)]; [congruence|].
  rewrite P in E. inversion E; subst. eapply flat_live; eassumption.
Qed.

Lemma ids_bound : forall h par t, flat h par t -> NoDup (ids t) -> (length (ids t) <= length h)%nat.
Proof.
  intros h par t Hf ND. rewrite <- (seq_length (length h) 0). apply NoDup_incl_length; [exact ND|].
  intros j Hj. destruct (flat_live _ _ _ Hf j Hj) as (n & L). apply in_seq. pose proof (live_lt _ _ _ L). lia.
Qed.

Lemma need_fuel : forall h par t, flat h par t -> NoDup (ids t) -> (need t <= fuel_of h)%nat.
Proof.
  intros h par t Hf ND. pose proof (ids_bound _ _ _ Hf ND). pose proof (need_bound t). unfold fuel_of. lia.
Qed.

Lemma inv_count_ext : forall h H H' F, (forall j, count_nat H' j = count_nat H j) -> Inv h H F -> Inv h H' F.
Proof.
  intros h H H' F E [ND Cv Tr Hd]. constructor; [exact ND|exact Cv| |].
  - rewrite Forall_forall in *. intros t Ht. eapply surv_agree; [| |apply Tr, Ht]; intros; [reflexivity|apply E].
  - intros i Hi. apply Hd. rewrite <- E. exact Hi.
Qed.

(* ------------------------------------------------------------------------------------ *)
(* xmpp_stanza_new                                                                        *)
(* ------------------------------------------------------------------------------------ *)
Lemma nth_app_old : forall (h x : sheap) j, (j < length h)%nat -> nth_error (h ++ x) j = nth_error h j.
Proof. intros. apply nth_error_app1. assumption. Qed.

Lemma inv_new : forall h H F, Inv h H F ->
  Inv (h ++ [Some fresh_node]) (length h :: H) (N (length h) [] :: F).
Proof.
  intros h H F I.
  assert (Hold : forall j, In j (idsl F) -> (j < length h)%nat).
  { intros j Hj. destruct (inv_ids_live _ _ _ _ I Hj) as (n & L). eapply live_lt; exact L. }
  assert (Hc0 : count_nat H (length h) = 0).
  { pose proof (count_nat_nonneg H (length h)). destruct (Z.eq_dec (count_nat H (length h)) 0) as [E|E]; [exact E|].
    destruct (inv_held _ _ _ I (length h)) as (n & L); [lia|]. pose proof (live_lt _ _ _ L). lia. }
  constructor.
  - rewrite idsl_cons. cbn [ids flat_map app]. constructor; [|apply (inv_nodup _ _ _ I)].
    intros Hin. apply Hold in Hin. lia.
  - intros i n L. rewrite idsl_cons. cbn [ids flat_map app]. apply live_app_inv in L. destruct L as [L|(E & _)].
    + right. eapply inv_cover; eassumption.
    + left. congruence.
  - constructor.
    + split; [|split; [|split]].
      * apply flat_N. split; [|constructor]. exists fresh_node. split; [apply live_app_new|]. split; reflexivity.
      * exists fresh_node. split; [apply live_app_new|]. split; reflexivity.
      * cbn [root]. rewrite count_nat_cons, Nat.eqb_refl. lia.
      * intros j [E|[]] n L. subst j. rewrite (live_fun _ _ _ _ L (live_app_new h fresh_node)).
        rewrite count_nat_cons, Nat.eqb_refl, Hc0. reflexivity.
    + pose proof (inv_trees _ _ _ I) as Tr. rewrite Forall_forall in *. intros t Ht.
      assert (Hlt : forall j, In j (ids t) -> (j < length h)%nat).
      { intros j Hj. apply Hold. apply in_idsl. exists t. tauto. }
      eapply surv_agree; [| |apply Tr, Ht].
      * intros j Hj. apply nth_app_old. apply Hlt, Hj.
      * intros j Hj. rewrite count_nat_cons. apply Hlt in Hj. destruct (Nat.eqb_spec j (length h)); lia.
  - intros i Hi. rewrite count_nat_cons in Hi. destruct (Nat.eqb_spec i (length h)) as [E|E].
    + subst. exists fresh_node. apply live_app_new.
    + destruct (inv_held _ _ _ I i) as (n & L); [lia|]. exists n. apply live_app_l. exact L.
Qed.

(* ------------------------------------------------------------------------------------ *)
(* updates of one cell that keep its link fields (ref count, payload)                     *)
(* ------------------------------------------------------------------------------------ *)
Lemma inv_wr : forall h H H' F i n m,
  Inv h H F -> live h i n ->
  s_parent m = s_parent n -> s_children m = s_children n -> s_next m = s_next n -> s_prev m = s_prev n ->
  (forall j, j <> i -> count_nat H' j = count_nat H j) ->
  s_ref m = count_nat H' i + att m ->
  (s_parent n = None -> 1 <= count_nat H' i) ->
  Inv (wr h i m) H' F.
Proof.
  intros h H H' F i n m I L Ep Ec En Ev Hcnt Hr Hroot.
  assert (Lm : live (wr h i m) i m) by (eapply live_wr_same; eassumption).
  constructor.
  - apply (inv_nodup _ _ _ I).
  - intros j nj Lj. destruct (Nat.eq_dec i j) as [E|E].
    + subst. eapply inv_cover; eassumption.
    + apply live_wr_other in Lj; [|exact E]. eapply inv_cover; eassumption.
  - pose proof (inv_trees _ _ _ I) as Tr. rewrite Forall_forall in *. intros t Ht.
    destruct (Tr t Ht) as (Hf & Hc & Hn & Rf). split; [|split; [|split]].
    + eapply flat_wr_links; eassumption.
    + eapply root_clear_wr; eassumption.
    + destruct (Nat.eq_dec (root t) i) as [E|E].
      * rewrite E. apply Hroot. destruct (flat_root _ _ _ Hf) as (n0 & L0 & P0 & _). rewrite E in L0.
        rewrite (live_fun _ _ _ _ L L0). exact P0.
      * rewrite Hcnt by exact E. exact Hn.
    + intros j Hj nj Lj. destruct (Nat.eq_dec i j) as [E|E].
      * subst j. rewrite (live_fun _ _ _ _ Lj Lm). exact Hr.
      * apply live_wr_other in Lj; [|exact E]. rewrite Hcnt by congruence. apply (Rf j Hj nj Lj).
  - intros j Hj. destruct (Nat.eq_dec i j) as [E|E].
    + subst. exists m. exact Lm.
    + rewrite Hcnt in Hj by congruence. destruct (inv_held _ _ _ I j Hj) as (nj & Lj). exists nj.
      apply live_wr_other; assumption.
Qed.

(* xmpp_stanza_clone of a held node *)
Lemma inv_clone : forall h H F i, Inv h H F -> (exists n, live h i n) ->
  exists h', stanza_clone h i = Ok h' /\ Inv h' (i :: H) F /\ length h' = length h /\ pres_live h h'.
Proof.
  intros h H F i I (n & L). unfold stanza_clone. rewrite (rd_live _ _ _ L). cbn [bind].
  eexists. split; [reflexivity|]. split; [|split; [apply wr_len|eapply pres_live_wr; exact L]].
  apply (inv_wr h H (i :: H) F i n _ I L); [reflexivity|reflexivity|reflexivity|reflexivity| | |].
  - intros j Hj. rewrite count_nat_cons. destruct (Nat.eqb_spec j i); [congruence|lia].
  - cbn [with_ref s_ref]. rewrite count_nat_cons, Nat.eqb_refl. pose proof (inv_refs _ _ _ _ _ I L) as R.
    unfold att in *. cbn [with_ref s_parent]. lia.
  - intros _. rewrite count_nat_cons, Nat.eqb_refl. pose proof (count_nat_nonneg H i). lia.
Qed.

(* payload updates *)
Lemma inv_payload : forall h H F i n ty d a, Inv h H F -> live h i n -> Inv (wr h i (with_payload n ty d a)) H F.
Proof.
  intros h H F i n ty d a I L.
  apply (inv_wr h H H F i n _ I L); [reflexivity|reflexivity|reflexivity|reflexivity|reflexivity| |].
  - cbn [with_payload s_ref]. pose proof (inv_refs _ _ _ _ _ I L) as R. unfold att in *. cbn [with_payload s_parent]. exact R.
  - intros P. destruct (inv_tree_of_root _ _ _ _ _ I L P) as (t & Ht & E).
    destruct (inv_surv _ _ _ _ I Ht) as (_ & _ & C & _). rewrite E in C. exact C.
Qed.

(* ------------------------------------------------------------------------------------ *)
(* xmpp_stanza_release of a held reference                                                *)
(* ------------------------------------------------------------------------------------ *)
Lemma nodup_replace_mid : forall (a m m' b : list nat),
  NoDup (a ++ m ++ b) -> NoDup m' -> incl m' m -> NoDup (a ++ m' ++ b).
Proof.
  intros a m m' b ND Nm Inc. apply nodup_app in ND. destruct ND as (Na & Nmb & D1).
  apply nodup_app in Nmb. destruct Nmb as (_ & Nb & D2).
  apply nodup_app. split; [exact Na|]. split.
  - apply nodup_app. split; [exact Nm|]. split; [exact Nb|]. intros x Hx. apply D2, Inc, Hx.
  - intros x Hx Hin. apply (D1 x Hx). apply in_or_app. apply in_app_or in Hin. destruct Hin as [Hin|Hin]; [left; apply Inc, Hin|right; exact Hin].
Qed.

Lemma release_dec : forall f h i n, live h i n -> 1 < s_ref n ->
  release true (S f) h i = Ok (wr h i (with_ref n (s_ref n - 1))).
Proof.
  intros f h i n L R. rewrite release_S, (rd_live _ _ _ L). cbn [bind].
  destruct (1 <? s_ref n) eqn:E; [reflexivity|]. apply Z.ltb_ge in E. lia.
Qed.

Lemma inv_release : forall h H F i fuel, Inv h H F -> In i H -> (fuel_of h <= fuel)%nat ->
  exists h' F', release true fuel h i = Ok h' /\ Inv h' (remove1 i H) F' /\ length h' = length h /\
    (forall j n, live h j n -> j <> i -> 1 <= count_nat H j -> exists n', live h' j n').
Proof.
  intros h H F i fuel I HinH Hfuel.
  assert (Hci : 1 <= count_nat H i) by (apply count_nat_in; exact HinH).
  destruct (inv_held _ _ _ I i Hci) as (n & L).
  pose proof (inv_refs _ _ _ _ _ I L) as R.
  destruct (s_parent n) as [p|] eqn:P.
  - (* attached: only the count goes down *)
    unfold att in R. rewrite P in R.
    destruct fuel as [|f]; [unfold fuel_of in Hfuel; lia|].
    rewrite (release_dec f h i n L) by lia.
    exists (wr h i (with_ref n (s_ref n - 1))), F. split; [reflexivity|]. split; [|split; [apply wr_len|]].
    + apply (inv_wr h H (remove1 i H) F i n _ I L); [reflexivity|reflexivity|reflexivity|reflexivity| | |].
      * intros j Hj. rewrite count_nat_remove1 by exact HinH. destruct (Nat.eqb_spec j i); [congruence|lia].
      * cbn [with_ref s_ref]. rewrite count_nat_remove1 by exact HinH. rewrite Nat.eqb_refl. unfold att. cbn [with_ref s_parent].
        rewrite P. lia.
      * congruence.
    + intros j nj Lj Hj _. exists nj. apply live_wr_other; [congruence|exact Lj].
  - (* a detached tree *)
    destruct (inv_tree_of_root _ _ _ _ _ I L P) as (t & Ht & Er).
    pose proof (inv_surv _ _ _ _ I Ht) as St. pose proof (inv_tree_nodup _ _ _ _ I Ht) as NDt.
    destruct (release_ok t h H fuel) as (h' & S & Rl & Len & Fr & NDS & Inc & Sv & Fd & Hd).
    + destruct St as (Hf & _). pose proof (need_fuel _ _ _ Hf NDt). lia.
    + exact St.
    + exact NDt.
    + rewrite Er in *. apply in_split in Ht. destruct Ht as (F1 & F2 & EF). subst F.
      pose proof (inv_nodup _ _ _ I) as ND. rewrite idsl_split in ND.
      exists h', (F1 ++ S ++ F2). split; [exact Rl|]. split; [|split; [exact Len|]].
      * assert (Dis : forall s j, In s (F1 ++ F2) -> In j (ids s) -> ~ In j (ids t)).
        { intros s j Hs Hj Hjt. apply nodup_app in ND. destruct ND as (N1 & N23 & D1).
          apply nodup_app in N23. destruct N23 as (_ & N3 & D2).
          apply in_app_or in Hs. destruct Hs as [Hs|Hs].
          - apply (D1 j); [apply in_idsl; exists s; tauto|apply in_or_app; left; exact Hjt].
          - apply (D2 j Hjt). apply in_idsl. exists s. tauto. }
        constructor.
        -- rewrite !idsl_app. eapply nodup_replace_mid; eassumption.
        -- intros j nj Lj. rewrite !idsl_app. destruct (in_dec Nat.eq_dec j (ids t)) as [Hjt|Hjt].
           ++ apply in_or_app. right. apply in_or_app. left.
              destruct (in_dec Nat.eq_dec j (idsl S)) as [Hs|Hs]; [exact Hs|].
              unfold live in Lj. rewrite (Fd j Hjt Hs) in Lj. discriminate.
           ++ unfold live in Lj. rewrite (Fr j Hjt) in Lj. pose proof (inv_cover _ _ _ I j nj Lj) as Hc.
              rewrite idsl_split in Hc. apply in_app_or in Hc. apply in_or_app. destruct Hc as [Hc|Hc]; [left; exact Hc|].
              apply in_app_or in Hc. destruct Hc as [Hc|Hc]; [contradiction|]. right. apply in_or_app. right. exact Hc.
        -- pose proof (inv_trees _ _ _ I) as Tr. rewrite Forall_forall in Tr.
           assert (Hold : forall s, In s (F1 ++ F2) -> surv h' (remove1 i H) s).
           { intros s Hs. eapply surv_agree; [| |apply Tr].
             - intros j Hj. apply Fr. eapply Dis; eassumption.
             - intros j Hj. rewrite count_nat_remove1 by exact HinH. destruct (Nat.eqb_spec j i) as [E|E]; [|lia].
               exfalso. subst j. apply (Dis s i Hs Hj). rewrite <- Er. apply root_in_ids.
             - apply in_app_or in Hs. apply in_or_app. destruct Hs; [left|right; right]; assumption. }
           apply Forall_app. split; [apply Forall_forall; intros s Hs; apply Hold, in_or_app; auto|].
           apply Forall_app. split; [exact Sv|apply Forall_forall; intros s Hs; apply Hold, in_or_app; auto].
        -- intros j Hj. assert (Hj' : 1 <= count_nat H j).
           { rewrite count_nat_remove1 in Hj by exact HinH. destruct (Nat.eqb j i); lia. }
           destruct (inv_held _ _ _ I j Hj') as (nj & Lj).
           destruct (in_dec Nat.eq_dec j (ids t)) as [Hjt|Hjt].
           ++ pose proof (Hd j Hjt Hj) as HS. apply in_idsl in HS. destruct HS as (s & Hs & Hjs).
              rewrite Forall_forall in Sv. eapply surv_live; [apply Sv, Hs|exact Hjs].
           ++ exists nj. unfold live in *. rewrite (Fr j Hjt). exact Lj.
      * intros j nj Lj Hji Hcj. destruct (in_dec Nat.eq_dec j (ids t)) as [Hjt|Hjt].
        -- assert (Hj : 1 <= count_nat (remove1 i H) j).
           { rewrite count_nat_remove1 by exact HinH. destruct (Nat.eqb_spec j i); [congruence|lia]. }
           pose proof (Hd j Hjt Hj) as HS. apply in_idsl in HS. destruct HS as (s & Hs & Hjs).
           rewrite Forall_forall in Sv. eapply surv_live; [apply Sv, Hs|exact Hjs].
        -- exists nj. unfold live in *. rewrite (Fr j Hjt). exact Lj.
Qed.

(* ------------------------------------------------------------------------------------ *)
(* read-only walks                                                                        *)
(* ------------------------------------------------------------------------------------ *)
Lemma subtree_S : forall f h i,
  subtree (S f) h i = (n <- rd h i ;; l <- subtree_loop f h (s_children n) ;; Ok (i :: l)).
Proof. reflexivity. Qed.
Lemma subtree_loop_None : forall fuel h, subtree_loop fuel h None = Ok [].
Proof. destruct fuel; reflexivity. Qed.
Lemma subtree_loop_S : forall f h c,
  subtree_loop (S f) h (Some c) =
  (l1 <- subtree f h c ;; nc <- rd h c ;; l2 <- subtree_loop f h (s_next nc) ;; Ok (l1 ++ l2)).
Proof. reflexivity. Qed.

Definition subtree_spec (t : T) : Prop :=
  forall h par fuel, (need t <= fuel)%nat -> flat h par t -> subtree fuel h (root t) = Ok (ids t).

Lemma subtree_loop_ok : forall ks, Forall subtree_spec ks -> forall h i fuel start,
  (needl ks <= fuel)%nat -> lchain h start (map root ks) -> Forall (flat h (Some i)) ks ->
  subtree_loop fuel h start = Ok (idsl ks).
Proof.
  induction 1 as [|k r Hk _ IH]; intros h i fuel start Hfuel Hch Hfl.
  - cbn [map lchain] in Hch. subst. apply subtree_loop_None.
  - cbn [map lchain] in Hch. destruct Hch as (Es & nk & Lk & Hch). subst start.
    cbn [needl] in Hfuel. destruct fuel as [|f]; [lia|].
    apply Forall_cons_iff in Hfl. destruct Hfl as (Hfk & Hfr).
    rewrite subtree_loop_S, (Hk h (Some i) f) by (lia || assumption). cbn [bind].
    rewrite (rd_live _ _ _ Lk). cbn [bind]. rewrite (IH h i f (s_next nk)) by (lia || assumption). reflexivity.
Qed.

Lemma subtree_ok : forall t, subtree_spec t.
Proof.
  induction t as [i ks IH] using T_ind'. intros h par fuel Hfuel Hf.
  rewrite need_N in Hfuel. destruct fuel as [|f]; [lia|].
  apply flat_N in Hf. destruct Hf as ((n & L & P & C) & Hfk). cbn [root].
  rewrite subtree_S, (rd_live _ _ _ L). cbn [bind].
  rewrite (subtree_loop_ok ks IH h i f (s_children n)) by (lia || assumption). reflexivity.
Qed.

Lemma render_S : forall f h top i,
  render (S f) h top i =
  (n <- rd h i ;;
   match s_type n with
   | NUnknown => Ok (RE XMPP_EINVOP)
   | NText => match s_data n with
              | None => Ok (RE XMPP_EINVOP)
              | Some d => Ok (RT (format fmt_text [escape d]))
              end
   | NTag =>
       match s_data n with
       | None => Ok (RE XMPP_EINVOP)
       | Some name =>
           c <- (if has_key (s_attrs n) xmlns_key
                 then (if top && render_root_is_top then Ok NoParent else parent_ctx h n)
                 else Ok NoParent) ;;
           let open := format fmt_open [name] ++
                       match s_attrs n with Some t => flat_map (attr_chunk c t) (hash_keys t) | None => [] end in
           match s_children n with
           | None => Ok (RT (open ++ fmt_empty))
           | Some ch =>
               r <- render_loop f h (Some ch) ;;
               match r with
               | RT body => Ok (RT (open ++ fmt_gt ++ body ++ format fmt_close [name]))
               | RE e => Ok (RE e)
               end
           end
       end
   end).
Proof. reflexivity. Qed.
Lemma render_loop_None : forall fuel h, render_loop fuel h None = Ok (RT []).
Proof. destruct fuel; reflexivity. Qed.
Lemma render_loop_S : forall f h c,
  render_loop (S f) h (Some c) =
  (r <- render f h false c ;;
   match r with
   | RE e => Ok (RE e)
   | RT s => nc <- rd h c ;; r2 <- render_loop f h (s_next nc) ;;
             match r2 with RT s2 => Ok (RT (s ++ s2)) | RE e => Ok (RE e) end
   end).
Proof. reflexivity. Qed.

Definition render_spec (t : T) : Prop :=
  forall h par fuel top, (need t <= fuel)%nat -> flat h par t ->
    (forall p, par = Some p -> exists pn, live h p pn) ->
    exists r, render fuel h top (root t) = Ok r.

Lemma render_loop_ok : forall ks, Forall render_spec ks -> forall h i ni fuel start,
  (needl ks <= fuel)%nat -> lchain h start (map root ks) -> Forall (flat h (Some i)) ks -> live h i ni ->
  exists r, render_loop fuel h start = Ok r.
Proof.
  induction 1 as [|k r Hk _ IH]; intros h i ni fuel start Hfuel Hch Hfl Li.
  - cbn [map lchain] in Hch. subst. eexists. apply render_loop_None.
  - cbn [map lchain] in Hch. destruct Hch as (Es & nk & Lk & Hch). subst start.
    cbn [needl] in Hfuel. destruct fuel as [|f]; [lia|].
    apply Forall_cons_iff in Hfl. destruct Hfl as (Hfk & Hfr).
    rewrite render_loop_S.
    destruct (Hk h (Some i) f false) as (r1 & R1); [lia|assumption| |].
    { intros p E. inversion E; subst. exists ni. exact Li. }
    rewrite R1. cbn [bind]. destruct r1 as [s|e]; [|eexists; reflexivity].
    rewrite (rd_live _ _ _ Lk). cbn [bind].
    destruct (IH h i ni f (s_next nk)) as (r2 & R2); [lia|assumption|assumption|assumption|].
    rewrite R2. cbn [bind]. destruct r2; eexists; reflexivity.
Qed.

Lemma render_ok : forall t, render_spec t.
Proof.
  induction t as [i ks IH] using T_ind'. intros h par fuel top Hfuel Hf Hpar.
  rewrite need_N in Hfuel. destruct fuel as [|f]; [lia|].
  apply flat_N in Hf. destruct Hf as ((n & L & P & C) & Hfk). cbn [root].
  rewrite render_S, (rd_live _ _ _ L). cbn [bind].
  destruct (s_type n); try (eexists; reflexivity).
  - destruct (s_data n); eexists; reflexivity.
  - destruct (s_data n) as [name|]; [|eexists; reflexivity].
    assert (Hc : exists c, (if has_key (s_attrs n) xmlns_key
                 then (if top && render_root_is_top then Ok NoParent else parent_ctx h n)
                 else Ok NoParent) = Ok c).
    { destruct (has_key (s_attrs n) xmlns_key); [|eexists; reflexivity].
      destruct (top && render_root_is_top); [eexists; reflexivity|].
      unfold parent_ctx. rewrite P. destruct par as [p|]; [|eexists; reflexivity].
      destruct (Hpar p eq_refl) as (pn & Lp). rewrite (rd_live _ _ _ Lp). cbn [bind]. eexists. reflexivity. }
    destruct Hc as (c & Ec). rewrite Ec. cbn [bind].
    destruct (s_children n) as [ch|] eqn:Ech; [|eexists; reflexivity].
    destruct (render_loop_ok ks IH h i n f (Some ch)) as (r & R); [lia|assumption|assumption|assumption|].
    rewrite R. cbn [bind]. destruct r; eexists; reflexivity.
Qed.

Lemma nth_sib_ok : forall kr k h start, lchain h start kr -> nth_sib k h start = Ok (nth_error kr k).
Proof.
  induction kr as [|r rs IH]; intros k h start C; cbn [lchain] in C.
  - subst. destruct k; reflexivity.
  - destruct C as (E & nr & L & C). subst. destruct k as [|k]; cbn [nth_sib nth_error]; [reflexivity|].
    rewrite (rd_live _ _ _ L). cbn [bind]. apply IH. exact C.
Qed.

(* every node has an entry in its tree *)
Lemma entry_of : forall t par j, In j (ids t) -> exists pj kr, In (j, pj, kr) (nodes par t).
Proof.
  intros t par j Hj. rewrite <- (nodes_ids t par) in Hj. apply in_map_iff in Hj.
  destruct Hj as ([[i pi] kr] & E & Hin). cbn in E. subst. exists pi, kr. exact Hin.
Qed.

(* the child list of any live node, as the model sees it *)
Lemma inv_kids : forall h H F j n, Inv h H F -> live h j n ->
  exists t pj kr, In t F /\ In (j, pj, kr) (nodes None t) /\ s_parent n = pj /\ lchain h (s_children n) kr.
Proof.
  intros h H F j n I L. destruct (inv_tree_of _ _ _ _ _ I L) as (t & Ht & Hj).
  destruct (entry_of t None j Hj) as (pj & kr & He). exists t, pj, kr. split; [exact Ht|]. split; [exact He|].
  destruct (inv_surv _ _ _ _ I Ht) as (Hf & _). unfold flat in Hf. rewrite Forall_forall in Hf.
  destruct (Hf _ He) as (n' & L' & P & C). rewrite (live_fun _ _ _ _ L L'). tauto.
Qed.
