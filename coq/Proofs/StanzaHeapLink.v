(* C12 - xmpp_stanza_add_child_ex: appending a detached tree to the child list of a node. *)
Require Import LV.Common.Bytes LV.Gen.Gen_stanza LV.Model.StanzaModel LV.Model.StanzaHeapModel LV.Spec.OwnershipSpec.
Require Import LV.Proofs.StanzaHeapBase LV.Proofs.StanzaHeapRelease LV.Proofs.StanzaHeapInv.
Require Import Lia Permutation.
Local Open Scope Z_scope.

(* tc becomes the last child of node p *)
Fixpoint graft (p : nat) (tc : T) (t : T) : T :=
  match t with
  | N i ks => if Nat.eqb i p then N i (ks ++ [tc]) else N i (map (graft p tc) ks)
  end.

Lemma root_graft : forall p tc t, root (graft p tc t) = root t.
Proof. intros p tc [i ks]. cbn [graft]. destruct (Nat.eqb i p); reflexivity. Qed.

Lemma graft_notin : forall p tc t, ~ In p (ids t) -> graft p tc t = t.
Proof.
  intros p tc. induction t as [i ks IH] using T_ind'. intros Hn. rewrite ids_N in Hn. cbn [graft].
  destruct (Nat.eqb_spec i p) as [E|E]; [exfalso; apply Hn; left; exact E|]. f_equal.
  assert (Hk : forall k, In k ks -> ~ In p (ids k)).
  { intros k Hk Hin. apply Hn. right. apply in_idsl. exists k. tauto. }
  clear Hn. induction IH as [|k r Hk0 _ IHr]; [reflexivity|]. cbn [map]. f_equal.
  - apply Hk0, Hk. left. reflexivity.
  - apply IHr. intros k' Hk'. apply Hk. right. exact Hk'.
Qed.

Lemma map_root_graft : forall p tc ks, map root (map (graft p tc) ks) = map root ks.
Proof. intros. rewrite map_map. apply map_ext. intros. apply root_graft. Qed.

Definition graft_perm_spec (p : nat) (tc : T) (t : T) : Prop :=
  NoDup (ids t) -> In p (ids t) -> Permutation (ids (graft p tc t)) (ids t ++ ids tc).

Lemma idsl_graft_perm : forall p tc ks, Forall (graft_perm_spec p tc) ks ->
  NoDup (idsl ks) -> In p (idsl ks) -> Permutation (idsl (map (graft p tc) ks)) (idsl ks ++ ids tc).
Proof.
  intros p tc. induction 1 as [|k r Hk _ IH]; intros ND Hp; [destruct Hp|].
  rewrite idsl_cons in *. cbn [map]. rewrite idsl_cons. apply nodup_app in ND. destruct ND as (Nk & Nr & D).
  apply in_app_or in Hp. destruct (in_dec Nat.eq_dec p (ids k)) as [Hpk|Hpk].
  - assert (Er : map (graft p tc) r = r).
    { rewrite <- (map_id r) at 2. apply map_ext_in. intros k' Hk'. apply graft_notin. intros Hin.
      apply (D p Hpk). apply in_idsl. exists k'. tauto. }
    rewrite Er. rewrite (Hk Nk Hpk). rewrite <- !app_assoc. apply Permutation_app_head. apply Permutation_app_comm.
  - destruct Hp as [Hp|Hp]; [contradiction|]. rewrite (graft_notin p tc k Hpk).
    rewrite <- app_assoc. apply Permutation_app_head. apply IH; assumption.
Qed.

Lemma ids_graft_perm : forall p tc t, graft_perm_spec p tc t.
Proof.
  intros p tc. induction t as [i ks IH] using T_ind'. intros ND Hp. cbn [graft].
  destruct (Nat.eqb_spec i p) as [E|E].
  - rewrite !ids_N, idsl_app. unfold idsl at 2. cbn [flat_map]. rewrite app_nil_r. reflexivity.
  - rewrite !ids_N in *. cbn [app]. apply perm_skip. inversion ND; subst. destruct Hp as [Hp|Hp]; [congruence|].
    apply idsl_graft_perm; assumption.
Qed.

(* where the entries of the grafted tree come from *)
Lemma nodes_graft_in : forall p tc t par e, NoDup (ids t) ->
  In e (nodes par (graft p tc t)) ->
  (In e (nodes par t) /\ fst (fst e) <> p) \/
  (exists pp kr, e = (p, pp, kr ++ [root tc]) /\ In (p, pp, kr) (nodes par t)) \/
  In e (nodes (Some p) tc).
Proof.
  intros p tc. induction t as [i ks IH] using T_ind'. intros par e ND Hin. cbn [graft] in Hin.
  rewrite ids_N in ND. inversion ND as [|? ? Hni NDk]; subst.
  destruct (Nat.eqb_spec i p) as [E|E].
  - subst i. rewrite nodes_N in Hin. destruct Hin as [Ee|Hin].
    + right. left. exists par, (map root ks). split; [|left; reflexivity]. rewrite <- Ee, map_app. reflexivity.
    + rewrite flat_map_app in Hin. apply in_app_or in Hin. destruct Hin as [Hin|Hin].
      * left. split; [right; exact Hin|]. intros Ep. apply Hni. apply in_flat_map in Hin. destruct Hin as (k & Hk & Hin).
        destruct e as [[j pj] kr]. cbn [fst] in Ep. subst j. apply in_idsl. exists k. split; [exact Hk|].
        eapply entry_in_ids; exact Hin.
      * right. right. cbn [flat_map] in Hin. rewrite app_nil_r in Hin. exact Hin.
  - rewrite nodes_N in Hin. destruct Hin as [Ee|Hin].
    + left. rewrite map_root_graft in Ee. split; [left; exact Ee|]. rewrite <- Ee. cbn [fst]. exact E.
    + apply in_flat_map in Hin. destruct Hin as (k' & Hk' & Hin). apply in_map_iff in Hk'. destruct Hk' as (k & Ek & Hk). subst k'.
      rewrite Forall_forall in IH.
      assert (NDkk : NoDup (ids k)).
      { apply in_split in Hk. destruct Hk as (l1 & l2 & El). subst ks. rewrite idsl_split in NDk.
        apply nodup_app in NDk. destruct NDk as (_ & NDk & _). apply nodup_app in NDk. tauto. }
      destruct (IH k Hk (Some i) e NDkk Hin) as [(H1 & H2)|[(pp & kr & H1 & H2)|H1]].
      * left. split; [|exact H2]. rewrite nodes_N. right. apply in_flat_map. exists k. tauto.
      * right. left. exists pp, kr. split; [exact H1|]. rewrite nodes_N. right. apply in_flat_map. exists k. tauto.
      * right. right. exact H1.
Qed.

(* kid roots of an entry are distinct *)
Lemma map_root_nodup : forall ks, NoDup (idsl ks) -> NoDup (map root ks).
Proof.
  induction ks as [|k r IH]; intros ND; [constructor|]. rewrite idsl_cons in ND. apply nodup_app in ND.
  destruct ND as (_ & Nr & D). cbn [map]. constructor; [|apply IH, Nr].
  intros Hin. apply in_map_iff in Hin. destruct Hin as (k' & E & Hk'). apply (D (root k) (root_in_ids k)).
  apply in_idsl. exists k'. split; [exact Hk'|]. rewrite <- E. apply root_in_ids.
Qed.

Lemma entry_kids_nodup : forall t par j pj kr, NoDup (ids t) -> In (j, pj, kr) (nodes par t) -> NoDup kr.
Proof.
  induction t as [i ks IH] using T_ind'. intros par j pj kr ND Hin. rewrite ids_N in ND. inversion ND as [|? ? Hni NDk]; subst.
  rewrite nodes_N in Hin. destruct Hin as [E|Hin].
  - inversion E; subst. apply map_root_nodup, NDk.
  - apply in_flat_map in Hin. destruct Hin as (k & Hk & Hin). rewrite Forall_forall in IH.
    eapply IH; [exact Hk| |exact Hin].
    apply in_split in Hk. destruct Hk as (l1 & l2 & El). subst ks. rewrite idsl_split in NDk.
    apply nodup_app in NDk. destruct NDk as (_ & NDk & _). apply nodup_app in NDk. tauto.
Qed.

(* an entry's node is not among its own kids *)
Lemma entry_not_own_kid : forall t par j pj kr, NoDup (ids t) -> In (j, pj, kr) (nodes par t) -> ~ In j kr.
Proof.
  induction t as [i ks IH] using T_ind'. intros par j pj kr ND Hin Hj.
  rewrite ids_N in ND. inversion ND as [|? ? Hni NDk]; subst.
  rewrite nodes_N in Hin. destruct Hin as [Ee|Hin].
  - inversion Ee; subst. apply Hni. apply in_map_iff in Hj. destruct Hj as (k & Ek & Hk). rewrite <- Ek.
    apply in_idsl. exists k. split; [exact Hk|apply root_in_ids].
  - apply in_flat_map in Hin. destruct Hin as (k & Hk & Hin). rewrite Forall_forall in IH.
    assert (NDkk : NoDup (ids k)).
    { apply in_split in Hk. destruct Hk as (l1 & l2 & El). subst ks. rewrite idsl_split in NDk.
      apply nodup_app in NDk. destruct NDk as (_ & NDk & _). apply nodup_app in NDk. tauto. }
    apply (IH k Hk (Some i) j pj kr NDkk Hin Hj).
Qed.

(* ------------------------------------------------------------------------------------ *)
(* list chains                                                                            *)
(* ------------------------------------------------------------------------------------ *)
Lemma last_cons2 : forall A (a b : A) l d, last (a :: b :: l) d = last (b :: l) d.
Proof. reflexivity. Qed.

Lemma last_default : forall A (l : list A) d d', l <> [] -> last l d = last l d'.
Proof.
  induction l as [|a l IH]; intros d d' Hn; [congruence|]. destruct l as [|b l]; [reflexivity|].
  rewrite !last_cons2. apply IH. discriminate.
Qed.

Lemma last_in : forall A (l : list A) d, l <> [] -> In (last l d) l.
Proof.
  induction l as [|a l IH]; intros d Hn; [congruence|]. destruct l as [|b l]; [left; reflexivity|].
  rewrite last_cons2. right. apply IH. discriminate.
Qed.

Lemma lchain_live : forall h kr start r, lchain h start kr -> In r kr -> exists n, live h r n.
Proof.
  induction kr as [|x rs IH]; intros start r C Hr; [destruct Hr|]. cbn [lchain] in C. destruct C as (E & nx & L & C).
  destruct Hr as [Hr|Hr]; [subst; exists nx; exact L|]. eapply IH; eassumption.
Qed.

Lemma lchain_last_next : forall h kr start d, lchain h start kr -> kr <> [] ->
  exists nl, live h (last kr d) nl /\ s_next nl = None.
Proof.
  induction kr as [|x rs IH]; intros start d C Hn; [congruence|]. cbn [lchain] in C. destruct C as (E & nx & L & C).
  destruct rs as [|y rs].
  - cbn [lchain] in C. exists nx. split; [exact L|exact C].
  - rewrite last_cons2. eapply IH; [exact C|discriminate].
Qed.

Lemma last_sib_ok : forall kr h s fuel, lchain h (Some s) kr -> (length kr <= fuel)%nat ->
  last_sib fuel h s = Ok (last kr s).
Proof.
  induction kr as [|x rs IH]; intros h s fuel C Hf; cbn [lchain] in C; [discriminate|].
  destruct C as (E & nx & L & C). inversion E; subst x. cbn [length] in Hf. destruct fuel as [|f]; [lia|].
  cbn [last_sib]. rewrite (rd_live _ _ _ L). cbn [bind]. destruct rs as [|y rs].
  - cbn [lchain] in C. rewrite C. reflexivity.
  - pose proof C as C'. cbn [lchain] in C'. destruct C' as (E' & _). rewrite E'.
    rewrite last_cons2. rewrite E' in C. rewrite (IH h y f C) by (cbn [length] in *; lia).
    f_equal. apply last_default. discriminate.
Qed.

Lemma lchain_snoc : forall kr h h' s c,
  lchain h (Some s) kr -> kr <> [] ->
  (forall r n, In r kr -> r <> last kr s -> live h r n -> exists n', live h' r n' /\ s_next n' = s_next n) ->
  (exists nl', live h' (last kr s) nl' /\ s_next nl' = Some c) ->
  (exists nc', live h' c nc' /\ s_next nc' = None) ->
  lchain h' (Some s) (kr ++ [c]).
Proof.
  induction kr as [|x rs IH]; intros h h' s c C Hn Hoth Hl Hc; [congruence|].
  cbn [lchain] in C. destruct C as (E & nx & L & C). inversion E; subst x. destruct rs as [|y rs].
  - cbn [app lchain]. split; [reflexivity|]. destruct Hl as (nl' & Ll & El). cbn [last] in Ll. exists nl'. split; [exact Ll|].
    rewrite El. split; [reflexivity|]. destruct Hc as (nc' & Lc & Ec). exists nc'. split; [exact Lc|exact Ec].
  - pose proof C as C'. cbn [lchain] in C'. destruct C' as (E' & _).
    assert (Hsl : s <> last (s :: y :: rs) s).
    { intros Eq. destruct (lchain_last_next h (s :: y :: rs) (Some s) s) as (nl & Ll & Nl).
      - cbn [lchain]. split; [reflexivity|]. exists nx. split; [exact L|exact C].
      - discriminate.
      - rewrite <- Eq in Ll. rewrite (live_fun _ _ _ _ Ll L) in Nl. congruence. }
    destruct (Hoth s nx (or_introl eq_refl) Hsl L) as (nx' & Lx' & Ex').
    change ((s :: y :: rs) ++ [c]) with (s :: ((y :: rs) ++ [c])). cbn [lchain]. split; [reflexivity|].
    exists nx'. split; [exact Lx'|]. rewrite Ex', E'. rewrite E' in C.
    assert (Elast : last (s :: y :: rs) s = last (y :: rs) y).
    { rewrite last_cons2. apply last_default. discriminate. }
    apply (IH h h' y c C); [discriminate| | |exact Hc].
    + intros r n Hr Hrl Lr. apply Hoth; [right; exact Hr| |exact Lr]. rewrite Elast. exact Hrl.
    + rewrite <- Elast. exact Hl.
Qed.

(* ------------------------------------------------------------------------------------ *)
(* what appending c to p's child list does to the heap                                    *)
(* ------------------------------------------------------------------------------------ *)
Record link_facts (h h' : sheap) (p c : nat) (krp : list nat) : Prop := mkLF {
  lf_len : length h' = length h;
  lf_frame : forall j, j <> p -> j <> c -> j <> last krp p -> nth_error h' j = nth_error h j;
  lf_c : exists nc nc', live h c nc /\ live h' c nc' /\ s_parent nc' = Some p /\ s_children nc' = s_children nc /\
                        s_next nc' = None /\ s_ref nc' = s_ref nc;
  lf_p : exists np np', live h p np /\ live h' p np' /\ s_parent np' = s_parent np /\ s_next np' = s_next np /\
                        s_prev np' = s_prev np /\ s_ref np' = s_ref np /\ lchain h' (s_children np') (krp ++ [c]);
  lf_l : krp <> [] -> exists nl nl', live h (last krp p) nl /\ live h' (last krp p) nl' /\
                        s_parent nl' = s_parent nl /\ s_children nl' = s_children nl /\ s_prev nl' = s_prev nl /\
                        s_ref nl' = s_ref nl }.

Lemma lchain_bound : forall h kr start, lchain h start kr -> NoDup kr -> (length kr <= length h)%nat.
Proof.
  intros h kr start C ND. rewrite <- (seq_length (length h) 0). apply NoDup_incl_length; [exact ND|].
  intros r Hr. destruct (lchain_live _ _ _ _ C Hr) as (n & L). apply in_seq. pose proof (live_lt _ _ _ L). lia.
Qed.

Lemma link_child_facts : forall h p c nc np krp,
  live h c nc -> live h p np -> p <> c -> s_next nc = None ->
  lchain h (s_children np) krp -> NoDup krp -> ~ In c krp -> ~ In p krp ->
  exists h', link_child h p c = Ok h' /\ link_facts h h' p c krp.
Proof.
  intros h p c nc np krp Lc Lp Hpc Nc C ND Hck Hpk. unfold link_child.
  rewrite (rd_live _ _ _ Lc). cbn [bind].
  set (nc1 := with_links nc (Some p) (s_children nc) (s_next nc) (s_prev nc)).
  set (h1 := wr h c nc1).
  assert (Lc1 : live h1 c nc1) by (eapply live_wr_same; exact Lc).
  assert (Lp1 : live h1 p np) by (apply live_wr_other; [congruence|exact Lp]).
  rewrite (rd_live _ _ _ Lp1). cbn [bind].
  destruct (s_children np) as [s|] eqn:Ech.
  - (* append after the last sibling *)
    destruct krp as [|s0 rest]; [cbn [lchain] in C; discriminate|].
    assert (Es : s0 = s) by (cbn [lchain] in C; destruct C as (E & _); congruence). subst s0.
    assert (C1 : lchain h1 (Some s) (s :: rest)).
    { eapply lchain_ext; [|exact C]. intros r n Hr L. destruct (Nat.eq_dec c r) as [E|E]; [subst; contradiction|].
      exists n. split; [apply live_wr_other; assumption|reflexivity]. }
    set (l := last (s :: rest) p).
    assert (El : last (s :: rest) s = l) by (apply last_default; discriminate).
    assert (Hl : In l (s :: rest)) by (apply last_in; discriminate).
    rewrite (last_sib_ok (s :: rest) h1 s (fuel_of h1) C1).
    2:{ pose proof (lchain_bound _ _ _ C ND). unfold fuel_of, h1. rewrite wr_len. lia. }
    rewrite El. cbn [bind].
    assert (Hlc : l <> c) by (intros E; apply Hck; rewrite <- E; exact Hl).
    assert (Hlp : l <> p) by (intros E; apply Hpk; rewrite <- E; exact Hl).
    destruct (lchain_live _ _ _ _ C Hl) as (nl & Ll).
    assert (Ll1 : live h1 l nl) by (apply live_wr_other; [congruence|exact Ll]).
    rewrite (rd_live _ _ _ Ll1). cbn [bind].
    set (nl2 := with_links nl (s_parent nl) (s_children nl) (Some c) (s_prev nl)).
    set (h2 := wr h1 l nl2).
    assert (Lc2 : live h2 c nc1) by (apply live_wr_other; [exact Hlc|exact Lc1]).
    rewrite (rd_live _ _ _ Lc2). cbn [bind].
    set (nc3 := with_links nc1 (s_parent nc1) (s_children nc1) (s_next nc1) (Some l)).
    set (h3 := wr h2 c nc3).
    assert (Lc3 : live h3 c nc3) by (eapply live_wr_same; exact Lc2).
    assert (Ll3 : live h3 l nl2).
    { apply live_wr_other; [congruence|]. eapply live_wr_same; exact Ll1. }
    assert (Lp3 : live h3 p np).
    { apply live_wr_other; [congruence|]. apply live_wr_other; [congruence|]. exact Lp1. }
    exists h3. split; [reflexivity|]. constructor.
    + unfold h3, h2, h1. rewrite !wr_len. reflexivity.
    + intros j Hjp Hjc Hjl. fold l in Hjl. unfold h3, h2, h1. rewrite !nth_wr_other by congruence. reflexivity.
    + exists nc, nc3. split; [exact Lc|]. split; [exact Lc3|]. cbn. rewrite Nc. tauto.
    + exists np, np. split; [exact Lp|]. split; [exact Lp3|]. repeat (split; [reflexivity|]). rewrite Ech.
      apply (lchain_snoc (s :: rest) h h3 s c C); [discriminate| | |].
      * intros r n Hr Hrl Lr. rewrite El in Hrl. exists n. split; [|reflexivity].
        apply live_wr_other; [intros E; subst; contradiction|]. apply live_wr_other; [congruence|].
        apply live_wr_other; [intros E; subst; contradiction|]. exact Lr.
      * rewrite El. exists nl2. split; [exact Ll3|reflexivity].
      * exists nc3. split; [exact Lc3|]. cbn. exact Nc.
    + intros _. fold l. exists nl, nl2. split; [exact Ll|]. split; [exact Ll3|]. cbn. tauto.
  - (* first child *)
    destruct krp as [|s0 rest]; [|cbn [lchain] in C; destruct C as (E & _); discriminate].
    set (np1 := with_links np (s_parent np) (Some c) (s_next np) (s_prev np)).
    set (h2 := wr h1 p np1).
    assert (Lp2 : live h2 p np1) by (eapply live_wr_same; exact Lp1).
    assert (Lc2 : live h2 c nc1) by (apply live_wr_other; [exact Hpc|exact Lc1]).
    exists h2. split; [reflexivity|]. constructor.
    + unfold h2, h1. rewrite !wr_len. reflexivity.
    + intros j Hjp Hjc _. unfold h2, h1. rewrite !nth_wr_other by congruence. reflexivity.
    + exists nc, nc1. split; [exact Lc|]. split; [exact Lc2|]. cbn. rewrite Nc. tauto.
    + exists np, np1. split; [exact Lp|]. split; [exact Lp2|]. repeat (split; [reflexivity|]).
      unfold np1. cbn [app lchain s_children with_links]. exists nc1. split; [exact Lc2|]. cbn. exact Nc.
    + intros Hn. congruence.
Qed.

(* ------------------------------------------------------------------------------------ *)
(* the invariant after the append                                                         *)
(* ------------------------------------------------------------------------------------ *)
Lemma inv_link_facts : forall h h' H F1 F2 tc tp p c pp krp,
  Inv h H (F1 ++ tc :: F2) -> root tc = c -> In tp (F1 ++ F2) -> In (p, pp, krp) (nodes None tp) ->
  link_facts h h' p c krp ->
  Inv h' (remove1 c H) (map (graft p tc) (F1 ++ F2)) /\ pres_live h h'.
Proof.
  intros h h' H F1 F2 tc tp p c pp krp I Ec Htp Hep [Len Fr Fc Fp Fl].
  set (F := F1 ++ tc :: F2) in *.
  assert (HtcF : In tc F) by (apply in_or_app; right; left; reflexivity).
  assert (HinF : forall t, In t (F1 ++ F2) -> In t F).
  { intros t Ht. apply in_app_or in Ht. apply in_or_app. destruct Ht; [left|right; right]; assumption. }
  pose proof (inv_nodup _ _ _ I) as ND. unfold F in ND. rewrite idsl_split in ND.
  assert (Dis : forall t j, In t (F1 ++ F2) -> In j (ids t) -> ~ In j (ids tc)).
  { intros s j Hs Hj Hjt. pose proof ND as ND0. apply nodup_app in ND0. destruct ND0 as (N1 & N23 & D1).
    apply nodup_app in N23. destruct N23 as (_ & N3 & D2).
    apply in_app_or in Hs. destruct Hs as [Hs|Hs].
    - apply (D1 j); [apply in_idsl; exists s; tauto|apply in_or_app; left; exact Hjt].
    - apply (D2 j Hjt). apply in_idsl. exists s. tauto. }
  assert (ND12 : NoDup (idsl (F1 ++ F2) ++ ids tc)).
  { eapply Permutation_NoDup; [|exact ND]. rewrite idsl_app, <- app_assoc. apply Permutation_app_head, Permutation_app_comm. }
  assert (ND12' : NoDup (idsl (F1 ++ F2))) by (apply nodup_app in ND12; tauto).
  pose proof (inv_surv _ _ _ _ I HtcF) as (Hftc & Hctc & Hcnt & Rtc). rewrite Ec in *.
  assert (HcH : In c H) by (apply count_nat_in; exact Hcnt).
  pose proof (inv_surv _ _ _ _ I (HinF tp Htp)) as (Hftp & Hctp & Hcntp & Rtp).
  pose proof (inv_tree_nodup _ _ _ _ I (HinF tp Htp)) as NDtp.
  pose proof (inv_tree_nodup _ _ _ _ I HtcF) as NDtc.
  assert (Hptp : In p (ids tp)) by (eapply entry_in_ids; exact Hep).
  assert (Hctc_in : In c (ids tc)) by (rewrite <- Ec; apply root_in_ids).
  assert (Hpc : p <> c) by (intros E; rewrite E in Hptp; apply (Dis tp c Htp Hptp Hctc_in)).
  assert (Hp12 : In p (idsl (F1 ++ F2))) by (apply in_idsl; exists tp; tauto).
  set (l := last krp p) in *.
  assert (Hl : krp <> [] -> In l krp /\ In l (ids tp) /\ l <> p /\ l <> c).
  { intros Hn. assert (Hlk : In l krp) by (apply last_in; exact Hn).
    assert (Hlt : In l (ids tp)) by (eapply kid_in_ids; eassumption).
    split; [exact Hlk|]. split; [exact Hlt|]. split.
    - intros E. apply (entry_not_own_kid _ _ _ _ _ NDtp Hep). rewrite <- E. exact Hlk.
    - intros E. apply (Dis tp l Htp Hlt). rewrite E. exact Hctc_in. }
  destruct Fc as (nc & nc' & Lc & Lc' & Pc' & Cc' & Nc' & Rc').
  destruct Fp as (np & np' & Lp & Lp' & Pp' & Np' & Vp' & Rp' & Chp').
  (* liveness is the same in both heaps *)
  assert (Hfwd : pres_live h h').
  { intros j n L. destruct (Nat.eq_dec j p) as [E1|E1]; [subst j; eauto|].
    destruct (Nat.eq_dec j c) as [E2|E2]; [subst j; eauto|].
    destruct (Nat.eq_dec j l) as [E3|E3].
    - destruct krp as [|x xs] eqn:Ek; [unfold l in E3; cbn in E3; congruence|].
      destruct (Fl ltac:(discriminate)) as (nl & nl' & _ & Ll' & _). fold l in Ll'. rewrite E3. eauto.
    - exists n. unfold live in *. rewrite Fr by assumption. exact L. }
  assert (Hback : forall j n', live h' j n' -> exists n, live h j n).
  { intros j n' L. destruct (Nat.eq_dec j p) as [E1|E1]; [subst j; eauto|].
    destruct (Nat.eq_dec j c) as [E2|E2]; [subst j; eauto|].
    destruct (Nat.eq_dec j l) as [E3|E3].
    - destruct krp as [|x xs] eqn:Ek; [unfold l in E3; cbn in E3; congruence|].
      destruct (Fl ltac:(discriminate)) as (nl & nl' & Ll & _). fold l in Ll. rewrite E3. eauto.
    - exists n'. unfold live in *. rewrite Fr in L by assumption. exact L. }
  (* reference counts of the cells of h' *)
  assert (Hparc : s_parent nc = None).
  { destruct (flat_root _ _ _ Hftc) as (n0 & L0 & P0 & _). rewrite Ec in L0. rewrite (live_fun _ _ _ _ Lc L0). exact P0. }
  assert (Hrefs : forall j n', live h' j n' -> s_ref n' = count_nat (remove1 c H) j + att n').
  { intros j n' L'. rewrite count_nat_remove1 by exact HcH.
    destruct (Nat.eq_dec j c) as [E2|E2].
    - subst j. rewrite (live_fun _ _ _ _ L' Lc'), Nat.eqb_refl, Rc'. pose proof (inv_refs _ _ _ _ _ I Lc) as R.
      unfold att in *. rewrite Pc'. rewrite Hparc in R. lia.
    - destruct (Nat.eqb_spec j c) as [E|_]; [congruence|]. rewrite Z.sub_0_r.
      destruct (Nat.eq_dec j p) as [E1|E1].
      + subst j. rewrite (live_fun _ _ _ _ L' Lp'), Rp'. pose proof (inv_refs _ _ _ _ _ I Lp) as R. unfold att in *. rewrite Pp'. exact R.
      + destruct (Nat.eq_dec j l) as [E3|E3].
        * destruct krp as [|x xs] eqn:Ek; [unfold l in E3; cbn in E3; congruence|].
          destruct (Fl ltac:(discriminate)) as (nl & nl' & Ll & Ll' & Pl' & _ & _ & Rl'). fold l in Ll, Ll'. subst j.
          rewrite (live_fun _ _ _ _ L' Ll'), Rl'. pose proof (inv_refs _ _ _ _ _ I Ll) as R. unfold att in *. rewrite Pl'. exact R.
        * unfold live in L'. rewrite Fr in L' by assumption. apply (inv_refs _ _ _ _ _ I L'). }
  split; [|exact Hfwd]. constructor.
  - eapply Permutation_NoDup; [|exact ND12]. apply Permutation_sym. apply idsl_graft_perm; [|exact ND12'|exact Hp12].
    apply Forall_forall. intros t _. apply ids_graft_perm.
  - intros j n' L'. destruct (Hback j n' L') as (n & L). pose proof (inv_cover _ _ _ I j n L) as Hc.
    eapply Permutation_in; [apply Permutation_sym, idsl_graft_perm; [|exact ND12'|exact Hp12]|].
    + apply Forall_forall. intros t _. apply ids_graft_perm.
    + unfold F in Hc. rewrite idsl_split in Hc. rewrite idsl_app. apply in_app_or in Hc.
      apply in_or_app. destruct Hc as [Hc|Hc]; [left; apply in_or_app; left; exact Hc|].
      apply in_app_or in Hc. destruct Hc as [Hc|Hc]; [right; exact Hc|left; apply in_or_app; right; exact Hc].
  - apply Forall_forall. intros t' Ht'. apply in_map_iff in Ht'. destruct Ht' as (t & Et & Ht). subst t'.
    destruct (in_dec Nat.eq_dec p (ids t)) as [Hpt|Hpt].
    + (* the tree that receives the child *)
      assert (Ett : t = tp) by (eapply inv_disjoint; [exact I|apply HinF, Ht|apply HinF, Htp|exact Hpt|exact Hptp]).
      subst t. split; [|split; [|split]].
      * (* flat *)
        assert (Hftc' : flat h' (Some p) tc).
        { eapply flat_reparent; [exact NDtc| | |exact Hftc].
          - intros n L. rewrite Ec in *. rewrite (live_fun _ _ _ _ L Lc). exists nc'. tauto.
          - intros j Hj Hjr. rewrite Ec in Hjr. apply Fr; [|exact Hjr|].
            + intros E. subst j. apply (Dis tp p Htp Hptp Hj).
            + intros E. destruct krp as [|x xs] eqn:Ek; [unfold l in E; cbn in E; subst j; apply (Dis tp p Htp Hptp Hj)|].
              destruct (Hl ltac:(discriminate)) as (_ & Hlt & _). apply (Dis tp l Htp Hlt). rewrite <- E. exact Hj. }
        unfold flat. apply Forall_forall. intros e He.
        destruct (nodes_graft_in p tc tp None e NDtp He) as [(H1 & H2)|[(pp' & kr' & H1 & H2)|H1]].
        -- (* an old entry other than p's *)
           destruct e as [[j pj] krj]. cbn [fst] in H2.
           unfold flat in Hftp. rewrite Forall_forall in Hftp. pose proof (Hftp _ H1) as Hloc.
           assert (Hjtp : In j (ids tp)) by (eapply entry_in_ids; exact H1).
           assert (Hjc : j <> c) by (intros E; subst j; apply (Dis tp c Htp Hjtp Hctc_in)).
           eapply local_ext; [| |exact Hloc].
           ++ intros n L P. destruct (Nat.eq_dec j l) as [E3|E3].
              ** destruct krp as [|x xs] eqn:Ek; [unfold l in E3; cbn in E3; congruence|].
                 destruct (Fl ltac:(discriminate)) as (nl & nl' & Ll & Ll' & Pl' & Cl' & _). fold l in Ll, Ll'. subst j.
                 rewrite (live_fun _ _ _ _ L Ll) in *. exists nl'. split; [exact Ll'|]. split; congruence.
              ** exists n. unfold live in *. rewrite Fr by assumption. tauto.
           ++ intros r n Hr L.
              assert (Hrtp : In r (ids tp)) by (eapply kid_in_ids; eassumption).
              assert (Hrc : r <> c) by (intros E; subst r; apply (Dis tp c Htp Hrtp Hctc_in)).
              destruct (Nat.eq_dec r p) as [E1|E1].
              ** subst r. rewrite (live_fun _ _ _ _ L Lp). exists np'. split; [exact Lp'|exact Np'].
              ** destruct (Nat.eq_dec r l) as [E3|E3].
                 --- exfalso. destruct krp as [|x xs] eqn:Ek; [unfold l in E3; cbn in E3; congruence|].
                     destruct (Hl ltac:(discriminate)) as (Hlk & _). apply H2.
                     eapply (kid_parent_unique tp None j pj krj p pp (x :: xs) r); try eassumption. rewrite E3. exact Hlk.
                 --- exists n. unfold live in *. rewrite Fr by assumption. tauto.
        -- (* p's entry, one kid longer *)
           subst e. pose proof (entry_unique _ _ _ _ NDtp H2 Hep eq_refl) as EE. inversion EE; subst pp' kr'.
           unfold flat in Hftp. rewrite Forall_forall in Hftp. destruct (Hftp _ Hep) as (n0 & L0 & P0 & _).
           rewrite (live_fun _ _ _ _ L0 Lp) in P0. exists np'. split; [exact Lp'|]. split; [congruence|]. rewrite Ec. exact Chp'.
        -- unfold flat in Hftc'. rewrite Forall_forall in Hftc'. apply Hftc', H1.
      * rewrite root_graft. destruct Hctp as (n0 & L0 & A0 & B0).
        destruct (Nat.eq_dec (root tp) p) as [E1|E1].
        -- rewrite E1 in *. rewrite (live_fun _ _ _ _ L0 Lp) in *. exists np'. split; [exact Lp'|]. split; congruence.
        -- exists n0. split; [|tauto]. unfold live in *. rewrite Fr; [exact L0|exact E1| |].
           ++ intros E. apply (Dis tp c Htp); [rewrite <- E; apply root_in_ids|exact Hctc_in].
           ++ intros E. destruct krp as [|x xs] eqn:Ek; [unfold l in E; cbn in E; congruence|].
              destruct (Hl ltac:(discriminate)) as (Hlk & _).
              destruct (root_entry tp None) as (kr0 & E0).
              apply (kid_not_root_top tp p pp (x :: xs) NDtp Hep). rewrite E. exact Hlk.
      * rewrite root_graft. rewrite count_nat_remove1 by exact HcH. destruct (Nat.eqb_spec (root tp) c) as [E|E]; [|lia].
        exfalso. apply (Dis tp c Htp); [rewrite <- E; apply root_in_ids|exact Hctc_in].
      * intros j _ n' L'. apply Hrefs. exact L'.
    + rewrite (graft_notin p tc t Hpt).
      assert (Hne : forall j, In j (ids t) -> j <> p /\ j <> c /\ j <> l).
      { intros j Hj. split; [intros E; subst j; contradiction|]. split.
        - intros E. subst j. apply (Dis t c Ht Hj Hctc_in).
        - intros E. destruct krp as [|x xs] eqn:Ek; [unfold l in E; cbn in E; subst j; contradiction|].
          destruct (Hl ltac:(discriminate)) as (_ & Hlt & _). subst j.
          assert (t = tp) by (eapply inv_disjoint; [exact I|apply HinF, Ht|apply HinF, Htp|exact Hj|exact Hlt]).
          subst t. contradiction. }
      eapply surv_agree; [| |apply (inv_surv _ _ _ _ I (HinF t Ht))].
      * intros j Hj. destruct (Hne j Hj) as (A & B & C). apply Fr; assumption.
      * intros j Hj. destruct (Hne j Hj) as (A & B & C). rewrite count_nat_remove1 by exact HcH.
        destruct (Nat.eqb_spec j c); [congruence|lia].
  - intros j Hj. rewrite count_nat_remove1 in Hj by exact HcH.
    assert (Hj' : 1 <= count_nat H j) by (destruct (Nat.eqb j c); lia).
    destruct (inv_held _ _ _ I j Hj') as (n & L). apply (Hfwd j n L).
Qed.

Lemma inv_link_prep : forall h H F1 F2 p c tc np,
  Inv h H (F1 ++ tc :: F2) -> root tc = c -> live h p np -> ~ In p (ids tc) ->
  exists tp pp krp nc, In tp (F1 ++ F2) /\ In (p, pp, krp) (nodes None tp) /\
    live h c nc /\ s_next nc = None /\ lchain h (s_children np) krp /\ NoDup krp /\ ~ In c krp /\ ~ In p krp /\ p <> c.
Proof.
  intros h H F1 F2 p c tc np I Ec Lp Hptc.
  assert (Htc0 : In tc (F1 ++ tc :: F2)) by (apply in_or_app; right; left; reflexivity).
  destruct (inv_tree_of _ _ _ _ _ I Lp) as (tp & Htp & Hptp).
  assert (Hne : tp <> tc) by (intros E; subst; contradiction).
  assert (Htp12 : In tp (F1 ++ F2)).
  { apply in_app_or in Htp. apply in_or_app. destruct Htp as [Htp|[Htp|Htp]]; [left; exact Htp|congruence|right; exact Htp]. }
  destruct (entry_of tp None p Hptp) as (pp & krp & Hep).
  pose proof (inv_surv _ _ _ _ I Htp) as (Hftp & _).
  pose proof (inv_tree_nodup _ _ _ _ I Htp) as NDtp.
  unfold flat in Hftp. rewrite Forall_forall in Hftp. destruct (Hftp _ Hep) as (np0 & Lp0 & Pp & Chp).
  rewrite (live_fun _ _ _ _ Lp0 Lp) in *. clear np0 Lp0.
  pose proof (inv_surv _ _ _ _ I Htc0) as (Hftc & (nc & Lc & Nc & Vc) & _). rewrite Ec in Lc.
  assert (Hctc : In c (ids tc)) by (rewrite <- Ec; apply root_in_ids).
  exists tp, pp, krp, nc. split; [exact Htp12|]. split; [exact Hep|]. split; [exact Lc|]. split; [exact Nc|].
  split; [exact Chp|]. split; [eapply entry_kids_nodup; eassumption|]. split; [|split].
  - intros Hin. assert (Hc' : In c (ids tp)) by (eapply kid_in_ids; eassumption).
    apply Hne. eapply inv_disjoint; [exact I|exact Htp|exact Htc0|exact Hc'|exact Hctc].
  - eapply entry_not_own_kid; eassumption.
  - intros E. apply Hptc. rewrite E. exact Hctc.
Qed.

Lemma inv_link : forall h H F p c tc,
  Inv h H F -> In tc F -> root tc = c -> (exists np, live h p np) -> ~ In p (ids tc) ->
  exists h' F', link_child h p c = Ok h' /\ Inv h' (remove1 c H) F' /\ length h' = length h /\ pres_live h h' /\
    exists nc', live h' c nc' /\ s_parent nc' = Some p.
Proof.
  intros h H F p c tc I Htc Ec (np & Lp) Hptc.
  apply in_split in Htc. destruct Htc as (F1 & F2 & EF). subst F.
  destruct (inv_link_prep h H F1 F2 p c tc np I Ec Lp Hptc) as (tp & pp & krp & nc & Htp & Hep & Lc & Nc & Chp & NDk & Hck & Hpk & Hpc).
  destruct (link_child_facts h p c nc np krp Lc Lp Hpc Nc Chp NDk Hck Hpk) as (h' & Rl & Facts).
  destruct (inv_link_facts h h' H F1 F2 tc tp p c pp krp I Ec Htp Hep Facts) as (I' & PL).
  exists h', (map (graft p tc) (F1 ++ F2)). split; [exact Rl|]. split; [exact I'|]. split; [apply (lf_len _ _ _ _ _ Facts)|].
  split; [exact PL|]. destruct (lf_c _ _ _ _ _ Facts) as (nc0 & nc' & _ & Lc' & Pc' & _). exists nc'. tauto.
Qed.

(* the precondition checked by [attachable] *)
Lemma attachable_spec : forall h H F p c, Inv h H F -> attachable h p c = true ->
  exists tc, In tc F /\ root tc = c /\ ~ In p (ids tc).
Proof.
  intros h H F p c I A. unfold attachable in A. destruct (rd h c) as [nc| | |] eqn:Rc; try discriminate.
  apply rd_ok in Rc. destruct (s_parent nc) eqn:P; [discriminate|].
  destruct (inv_tree_of_root _ _ _ _ _ I Rc P) as (tc & Htc & Er). exists tc. split; [exact Htc|]. split; [exact Er|].
  pose proof (inv_surv _ _ _ _ I Htc) as (Hf & _). pose proof (inv_tree_nodup _ _ _ _ I Htc) as NDt.
  rewrite <- Er in A. rewrite (subtree_ok tc h None (fuel_of h) (need_fuel _ _ _ Hf NDt) Hf) in A.
  intros Hin. apply Bool.negb_true_iff in A. assert (existsb (Nat.eqb p) (ids tc) = true); [|congruence].
  apply existsb_exists. exists p. split; [exact Hin|apply Nat.eqb_refl].
Qed.

Lemma inv_add_child : forall h H F p c tc do_clone,
  Inv h H F -> In tc F -> root tc = c -> (exists np, live h p np) -> ~ In p (ids tc) ->
  exists h' F', add_child h p c do_clone = Ok h' /\
    Inv h' (if do_clone then H else remove1 c H) F' /\ length h' = length h /\ pres_live h h' /\
    exists nc', live h' c nc' /\ s_parent nc' = Some p.
Proof.
  intros h H F p c tc do_clone I Htc Ec Lp Hptc. unfold add_child. destruct do_clone.
  - assert (Lc : exists nc, live h c nc).
    { pose proof (inv_surv _ _ _ _ I Htc) as (Hf & _). rewrite <- Ec. eapply flat_live; [exact Hf|apply root_in_ids]. }
    destruct (inv_clone h H F c I Lc) as (h1 & R1 & I1 & Len1 & PL1). rewrite R1. cbn [bind].
    destruct Lp as (np & Lp). destruct (PL1 p np Lp) as (np1 & Lp1).
    destruct (inv_link h1 (c :: H) F p c tc I1 Htc Ec (ex_intro _ np1 Lp1) Hptc) as (h2 & F2 & R2 & I2 & Len2 & PL2 & Hc2).
    rewrite remove1_head in I2. exists h2, F2. split; [exact R2|]. split; [exact I2|]. split; [lia|].
    split; [eapply pres_live_trans; eassumption|exact Hc2].
  - cbn [bind]. apply (inv_link h H F p c tc I Htc Ec Lp Hptc).
Qed.
