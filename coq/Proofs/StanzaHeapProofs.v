(* C12 - every API call of a well-owned program preserves the ownership invariant; the theorems. *)
Require Import LV.Common.Bytes LV.Gen.Gen_stanza LV.Model.StanzaModel LV.Model.StanzaHeapModel LV.Spec.OwnershipSpec.
Require Import LV.Proofs.StanzaHeapBase LV.Proofs.StanzaHeapRelease LV.Proofs.StanzaHeapInv LV.Proofs.StanzaHeapLink
               LV.Proofs.StanzaHeapCopy.
Require Import Lia Permutation.
Local Open Scope Z_scope.

(* ------------------------------------------------------------------------------------ *)
(* subtrees                                                                               *)
(* ------------------------------------------------------------------------------------ *)
Lemma nodup_kid : forall ks k, NoDup (idsl ks) -> In k ks -> NoDup (ids k).
Proof.
  intros ks k ND Hk. apply in_split in Hk. destruct Hk as (l1 & l2 & El). subst ks. rewrite idsl_split in ND.
  apply nodup_app in ND. destruct ND as (_ & ND & _). apply nodup_app in ND. tauto.
Qed.

Lemma sub_at : forall h t par i, flat h par t -> NoDup (ids t) -> In i (ids t) ->
  exists ti pari, root ti = i /\ flat h pari ti /\ NoDup (ids ti) /\
                  (pari = par \/ exists p, pari = Some p /\ In p (ids t)).
Proof.
  intros h. induction t as [r ks IH] using T_ind'. intros par i Hf ND Hi.
  rewrite ids_N in Hi, ND. inversion ND as [|? ? Hni NDk]; subst. destruct Hi as [E|Hi].
  - subst i. exists (N r ks), par. split; [reflexivity|]. split; [exact Hf|]. split; [exact ND|]. left. reflexivity.
  - apply in_idsl in Hi. destruct Hi as (k & Hk & Hi). apply flat_N in Hf. destruct Hf as (_ & Hfk).
    rewrite Forall_forall in IH, Hfk.
    destruct (IH k Hk (Some r) i (Hfk k Hk) (nodup_kid ks k NDk Hk) Hi) as (ti & pari & E1 & E2 & E3 & E4).
    exists ti, pari. split; [exact E1|]. split; [exact E2|]. split; [exact E3|]. right.
    destruct E4 as [E4|(p & E4 & Hp)].
    + exists r. split; [exact E4|]. left. reflexivity.
    + exists p. split; [exact E4|]. rewrite ids_N. right. apply in_idsl. exists k. tauto.
Qed.

Lemma inv_sub_at : forall h H F i n, Inv h H F -> live h i n ->
  exists ti pari, root ti = i /\ flat h pari ti /\ NoDup (ids ti) /\ (need ti <= fuel_of h)%nat /\
                  (forall p, pari = Some p -> exists pn, live h p pn).
Proof.
  intros h H F i n I L. destruct (inv_tree_of _ _ _ _ _ I L) as (t & Ht & Hi).
  pose proof (inv_surv _ _ _ _ I Ht) as (Hf & _). pose proof (inv_tree_nodup _ _ _ _ I Ht) as ND.
  destruct (sub_at h t None i Hf ND Hi) as (ti & pari & E1 & E2 & E3 & E4).
  exists ti, pari. split; [exact E1|]. split; [exact E2|]. split; [exact E3|]. split; [apply (need_fuel h pari ti E2 E3)|].
  intros p Ep. destruct E4 as [E4|(p' & E4 & Hp)]; [congruence|]. rewrite Ep in E4. inversion E4; subst p'.
  apply (flat_live h None t Hf p Hp).
Qed.

(* ------------------------------------------------------------------------------------ *)
(* the slot table                                                                         *)
(* ------------------------------------------------------------------------------------ *)
Definition Good (st : sstate) : Prop := exists F, Inv (st_heap st) (slot_ids (st_slots st)) F.

Lemma slot_ids_set_some : forall k l i, nth k l None = None ->
  forall j, count_nat (slot_ids (slot_set l k (Some i))) j = count_nat (i :: slot_ids l) j.
Proof.
  induction k as [|k IH]; intros l i Hn j.
  - destruct l as [|x r]; [reflexivity|]. cbn [nth] in Hn. subst x. reflexivity.
  - destruct l as [|x r]; cbn [slot_set].
    + cbn [slot_ids]. rewrite (IH [] i) by (destruct k; reflexivity). reflexivity.
    + cbn [nth] in Hn. destruct x as [a|]; cbn [slot_ids]; rewrite ?count_nat_cons, (IH r i Hn j), ?count_nat_cons; lia.
Qed.

Lemma slot_ids_set_none : forall k l i, nth k l None = Some i ->
  forall j, count_nat (slot_ids (slot_set l k None)) j = count_nat (slot_ids l) j - (if Nat.eqb j i then 1 else 0).
Proof.
  induction k as [|k IH]; intros l i Hn j.
  - destruct l as [|x r]; [discriminate|]. cbn [nth] in Hn. subst x. cbn [slot_set slot_ids]. rewrite count_nat_cons. lia.
  - destruct l as [|x r]; [destruct k; discriminate|]. cbn [nth] in Hn. cbn [slot_set].
    destruct x as [a|]; cbn [slot_ids]; rewrite ?count_nat_cons, (IH r i Hn j); lia.
Qed.

Lemma slot_ids_set_noop : forall k l, nth k l None = None ->
  forall j, count_nat (slot_ids (slot_set l k None)) j = count_nat (slot_ids l) j.
Proof.
  induction k as [|k IH]; intros l Hn j.
  - destruct l as [|x r]; [reflexivity|]. cbn [nth] in Hn. subst x. reflexivity.
  - destruct l as [|x r]; cbn [slot_set].
    + cbn [slot_ids]. rewrite (IH []) by (destruct k; reflexivity). reflexivity.
    + cbn [nth] in Hn. destruct x as [a|]; cbn [slot_ids]; rewrite ?count_nat_cons, (IH r Hn j); lia.
Qed.

Lemma slot_in : forall l k i, nth k l None = Some i -> In i (slot_ids l).
Proof.
  induction l as [|x r IH]; intros k i Hn; [destruct k; discriminate|].
  destruct k as [|k]; cbn [nth] in Hn.
  - subst x. left. reflexivity.
  - destruct x; cbn [slot_ids]; [right|]; eapply IH; exact Hn.
Qed.

Lemma good_held_live : forall st k i, Good st -> slot st k = Some i -> exists n, live (st_heap st) i n.
Proof.
  intros st k i (F & I) Hs. apply (inv_held _ _ _ I). apply count_nat_in. eapply slot_in. exact Hs.
Qed.

(* ------------------------------------------------------------------------------------ *)
(* setters                                                                                *)
(* ------------------------------------------------------------------------------------ *)
Definition keeps (h h' : sheap) (H : list nat) (F : list T) : Prop :=
  Inv h' H F /\ length h' = length h /\ pres_live h h'.

Lemma keeps_refl : forall h H F, Inv h H F -> keeps h h H F.
Proof. intros. split; [assumption|]. split; [reflexivity|apply pres_live_refl]. Qed.

Lemma keeps_payload : forall h H F i n ty d a, Inv h H F -> live h i n -> keeps h (wr h i (with_payload n ty d a)) H F.
Proof.
  intros. split; [apply inv_payload; assumption|]. split; [apply wr_len|eapply pres_live_wr; eassumption].
Qed.

Lemma set_name_inv : forall h H F i n s, Inv h H F -> live h i n ->
  exists r, set_name h i s = Ok r /\ keeps h (fst r) H F.
Proof.
  intros h H F i n s I L. unfold set_name. rewrite (rd_live _ _ _ L). cbn [bind].
  destruct (s_type n); eexists; (split; [reflexivity|]); cbn [fst]; try (apply keeps_refl; assumption); apply keeps_payload; assumption.
Qed.

Lemma set_text_inv : forall h H F i n s, Inv h H F -> live h i n ->
  exists r, set_text h i s = Ok r /\ keeps h (fst r) H F.
Proof.
  intros h H F i n s I L. unfold set_text. rewrite (rd_live _ _ _ L). cbn [bind].
  destruct (s_type n); eexists; (split; [reflexivity|]); cbn [fst]; try (apply keeps_refl; assumption); apply keeps_payload; assumption.
Qed.

Lemma set_attribute_inv : forall h H F i n k v, Inv h H F -> live h i n ->
  exists r, set_attribute h i k v = Ok r /\ keeps h (fst r) H F.
Proof.
  intros h H F i n k v I L. unfold set_attribute. rewrite (rd_live _ _ _ L). cbn [bind].
  destruct (s_type n); eexists; (split; [reflexivity|]); cbn [fst]; try (apply keeps_refl; assumption); apply keeps_payload; assumption.
Qed.

Lemma del_attribute_inv : forall h H F i n k, Inv h H F -> live h i n ->
  exists r, del_attribute h i k = Ok r /\ keeps h (fst r) H F.
Proof.
  intros h H F i n k I L. unfold del_attribute. rewrite (rd_live _ _ _ L). cbn [bind].
  destruct (s_type n); try (eexists; split; [reflexivity|]; cbn [fst]; apply keeps_refl; assumption).
  destruct (attr_del (s_attrs n) k) as [a' rc]. eexists. split; [reflexivity|]. cbn [fst]. apply keeps_payload; assumption.
Qed.

Lemma get_attribute_ok : forall h i n k, live h i n -> exists r, get_attribute h i k = Ok r.
Proof. intros h i n k L. unfold get_attribute. rewrite (rd_live _ _ _ L). cbn [bind]. destruct (s_type n); eexists; reflexivity. Qed.

(* ------------------------------------------------------------------------------------ *)
(* releasing a temporary reference to an attached node                                    *)
(* ------------------------------------------------------------------------------------ *)
Lemma release_temp_attached : forall h H F e ne p fuel,
  Inv h (e :: H) F -> live h e ne -> s_parent ne = Some p -> (1 <= fuel)%nat ->
  exists h', release true fuel h e = Ok h' /\ keeps h h' H F.
Proof.
  intros h H F e ne p fuel I L P Hfuel. destruct fuel as [|f]; [lia|].
  pose proof (inv_refs _ _ _ _ _ I L) as R. unfold att in R. rewrite P in R. rewrite count_nat_cons, Nat.eqb_refl in R.
  pose proof (count_nat_nonneg H e).
  rewrite (release_dec f h e ne L) by lia. eexists. split; [reflexivity|].
  split; [|split; [apply wr_len|eapply pres_live_wr; exact L]].
  apply (inv_wr h (e :: H) H F e ne _ I L); [reflexivity|reflexivity|reflexivity|reflexivity| | |].
  - intros j Hj. rewrite count_nat_cons. destruct (Nat.eqb_spec j e); [congruence|lia].
  - cbn [with_ref s_ref]. unfold att. cbn [with_ref s_parent]. rewrite P. lia.
  - congruence.
Qed.

(* ------------------------------------------------------------------------------------ *)
(* xmpp_stanza_reply / xmpp_stanza_reply_error                                            *)
(* ------------------------------------------------------------------------------------ *)
Lemma stanza_reply_inv : forall h H F i n, Inv h H F -> live h i n ->
  exists h' r, stanza_reply true h i = Ok (h', r) /\
    match r with
    | Some cp => (exists F', Inv h' (cp :: H) F') /\ pres_live h h' /\ (exists ncp, live h' cp ncp)
    | None => exists F', Inv h' H F'
    end.
Proof.
  intros h H F i n I L. unfold stanza_reply.
  destruct (get_attribute_ok h i n k_from L) as (fr & Eg). rewrite Eg. cbn [bind].
  destruct fr as [from|]; [|exists h, None; split; [reflexivity|exists F; exact I]].
  rewrite (rd_live _ _ _ L). cbn [bind]. unfold stanza_new.
  set (cp := length h). set (h0 := h ++ [Some fresh_node]).
  assert (L0 : live h0 cp fresh_node) by apply live_app_new.
  rewrite (rd_live _ _ _ L0). cbn [bind].
  pose proof (inv_new _ _ _ I) as I0. fold cp h0 in I0.
  assert (PL0 : pres_live h h0) by (intros j nj Lj; exists nj; apply live_app_l; exact Lj).
  destruct (match s_attrs n with Some _ => copy_attrs (s_attrs n) | None => Some None end) as [a1|].
  - set (m1 := with_payload fresh_node (s_type n) (s_data n) a1). set (h1 := wr h0 cp m1).
    assert (K1 : keeps h0 h1 (cp :: H) (N cp [] :: F)) by (apply keeps_payload; assumption).
    assert (L1 : live h1 cp m1) by (eapply live_wr_same; exact L0).
    destruct K1 as (I1 & _ & PL1).
    destruct (del_attribute_inv h1 _ _ cp m1 (nth 0 reply_deleted []) I1 L1) as (r1 & E1 & I2 & _ & PL2).
    rewrite E1. cbn [bind]. destruct (PL2 cp m1 L1) as (m2 & L2).
    destruct (del_attribute_inv (fst r1) _ _ cp m2 (nth 1 reply_deleted []) I2 L2) as (r2 & E2 & I3 & _ & PL3).
    rewrite E2. cbn [bind]. destruct (PL3 cp m2 L2) as (m3 & L3).
    destruct (del_attribute_inv (fst r2) _ _ cp m3 (nth 2 reply_deleted []) I3 L3) as (r3 & E3 & I4 & _ & PL4).
    rewrite E3. cbn [bind]. destruct (PL4 cp m3 L3) as (m4 & L4).
    destruct (set_attribute_inv (fst r3) _ _ cp m4 k_to from I4 L4) as (r4 & E4 & I5 & _ & PL5).
    rewrite E4. cbn [bind]. destruct (PL5 cp m4 L4) as (m5 & L5).
    destruct (snd r4 =? XMPP_EOK).
    + exists (fst r4), (Some cp). split; [reflexivity|]. split; [eexists; exact I5|]. split; [|exists m5; exact L5].
      eapply pres_live_trans; [exact PL0|]. eapply pres_live_trans; [exact PL1|]. eapply pres_live_trans; [exact PL2|].
      eapply pres_live_trans; [exact PL3|]. eapply pres_live_trans; [exact PL4|]. exact PL5.
    + destruct (inv_release (fst r4) (cp :: H) _ cp (fuel_of (fst r4)) I5 (or_introl eq_refl) (le_n _)) as (g2 & F2 & Rr & Ir & _).
      rewrite Rr. cbn [bind]. rewrite remove1_head in Ir. exists g2, None. split; [reflexivity|]. exists F2. exact Ir.
  - destruct (inv_release h0 (cp :: H) _ cp (fuel_of h0) I0 (or_introl eq_refl) (le_n _)) as (g2 & F2 & Rr & Ir & _).
    rewrite Rr. cbn [bind]. rewrite remove1_head in Ir. exists g2, None. split; [reflexivity|]. exists F2. exact Ir.
Qed.

Lemma fuel_of_pos : forall h, (1 <= fuel_of h)%nat.
Proof. intros. unfold fuel_of. lia. Qed.

Lemma new_child_elem_inv : forall h H F parent np name key value, Inv h H F -> live h parent np ->
  exists h' e F', new_child_elem true h parent name key value = Ok (h', e) /\ Inv h' H F' /\ pres_live h h' /\
                  exists ne, live h' e ne.
Proof.
  intros h H F parent np name key value I Lp. unfold new_child_elem, stanza_new.
  set (e := length h). set (h0 := h ++ [Some fresh_node]).
  assert (L0 : live h0 e fresh_node) by apply live_app_new.
  pose proof (inv_new _ _ _ I) as I0. fold e h0 in I0.
  assert (PL0 : pres_live h h0) by (intros j nj Lj; exists nj; apply live_app_l; exact Lj).
  destruct (set_name_inv h0 _ _ e fresh_node name I0 L0) as (r1 & E1 & I1 & _ & PL1). rewrite E1. cbn [bind].
  destruct (PL1 e _ L0) as (m1 & L1).
  destruct (set_attribute_inv (fst r1) _ _ e m1 key value I1 L1) as (r2 & E2 & I2 & _ & PL2). rewrite E2. cbn [bind].
  destruct (PL0 parent np Lp) as (np0 & Lp0). destruct (PL1 parent np0 Lp0) as (np1 & Lp1). destruct (PL2 parent np1 Lp1) as (np2 & Lp2).
  assert (Hpe : ~ In parent (ids (N e []))).
  { intros [E|[]]. pose proof (live_lt _ _ _ Lp). unfold e in E. lia. }
  destruct (inv_add_child (fst r2) (e :: H) _ parent e (N e []) true I2 (or_introl eq_refl) eq_refl (ex_intro _ np2 Lp2) Hpe)
    as (h3 & F3 & E3 & I3 & _ & PL3 & ne3 & Le3 & Pe3).
  rewrite E3. cbn [bind].
  destruct (release_temp_attached h3 H F3 e ne3 parent (fuel_of h3) I3 Le3 Pe3 (fuel_of_pos h3)) as (h4 & E4 & I4 & _ & PL4).
  rewrite E4. cbn [bind]. exists h4, e, F3. split; [reflexivity|]. split; [exact I4|]. split.
  - eapply pres_live_trans; [exact PL0|]. eapply pres_live_trans; [exact PL1|]. eapply pres_live_trans; [exact PL2|].
    eapply pres_live_trans; [exact PL3|]. exact PL4.
  - apply (PL4 e ne3 Le3).
Qed.

Lemma stanza_reply_error_inv : forall h H F i n ty cond text, Inv h H F -> live h i n ->
  exists h' r, stanza_reply_error true h i ty cond text = Ok (h', r) /\
    match r with
    | Some cp => exists F', Inv h' (cp :: H) F'
    | None => exists F', Inv h' H F'
    end.
Proof.
  intros h H F i n ty cond text I L. unfold stanza_reply_error.
  destruct (stanza_reply_inv h H F i n I L) as (h0 & rp & E0 & Post). rewrite E0. cbn [bind].
  destruct rp as [reply|]; [|exists h0, None; split; [reflexivity|exact Post]].
  destruct Post as ((F0 & I0) & PL0 & (nr0 & Lr0)).
  destruct (set_attribute_inv h0 _ _ reply nr0 k_type (lit 0) I0 Lr0) as (r1 & E1 & I1 & _ & PL1). rewrite E1. cbn [bind].
  destruct (PL0 i n L) as (n0 & Li0). destruct (PL1 i n0 Li0) as (n1 & Li1).
  destruct (get_attribute_ok (fst r1) i n1 k_to Li1) as (to & Eg). rewrite Eg. cbn [bind].
  destruct (PL1 reply nr0 Lr0) as (nr1 & Lr1).
  assert (Hr2 : exists r2, match to with Some to => set_attribute (fst r1) reply k_from to | None => Ok (fst r1, XMPP_EOK) end = Ok r2 /\
                           keeps (fst r1) (fst r2) (reply :: H) F0).
  { destruct to as [to|]; [eapply set_attribute_inv; eassumption|].
    eexists. split; [reflexivity|]. cbn [fst]. apply keeps_refl. exact I1. }
  destruct Hr2 as (r2 & E2 & I2 & _ & PL2). rewrite E2. cbn [bind].
  destruct (PL2 reply nr1 Lr1) as (nr2 & Lr2).
  destruct (new_child_elem_inv (fst r2) _ _ reply nr2 (lit 1) k_type ty I2 Lr2) as (h3 & error & F3 & E3 & I3 & PL3 & (ne3 & Le3)).
  rewrite E3. cbn [bind].
  destruct (new_child_elem_inv h3 _ _ error ne3 cond xmlns_key (lit 2) I3 Le3) as (h4 & item & F4 & E4 & I4 & PL4 & _).
  rewrite E4. cbn [bind].
  destruct text as [txt|]; [|exists h4, (Some reply); split; [reflexivity|exists F4; exact I4]].
  destruct (PL4 error ne3 Le3) as (ne4 & Le4).
  destruct (new_child_elem_inv h4 _ _ error ne4 (lit 3) xmlns_key (lit 4) I4 Le4) as (h5 & item2 & F5 & E5 & I5 & PL5 & (ni5 & Li5)).
  rewrite E5. cbn [bind]. unfold stanza_new.
  set (ts := length h5). set (h6 := h5 ++ [Some fresh_node]).
  assert (L6 : live h6 ts fresh_node) by apply live_app_new.
  pose proof (inv_new _ _ _ I5) as I6. fold ts h6 in I6.
  destruct (set_text_inv h6 _ _ ts fresh_node txt I6 L6) as (r7 & E7 & I7 & _ & PL7). rewrite E7. cbn [bind].
  assert (Li6 : live h6 item2 ni5) by (apply live_app_l; exact Li5).
  destruct (PL7 item2 ni5 Li6) as (ni7 & Li7).
  assert (Hpe : ~ In item2 (ids (N ts []))).
  { intros [E|[]]. pose proof (live_lt _ _ _ Li5). unfold ts in E. lia. }
  destruct (inv_add_child (fst r7) (ts :: reply :: H) _ item2 ts (N ts []) true I7 (or_introl eq_refl) eq_refl (ex_intro _ ni7 Li7) Hpe)
    as (h8 & F8 & E8 & I8 & _ & PL8 & nt8 & Lt8 & Pt8).
  rewrite E8. cbn [bind].
  destruct (release_temp_attached h8 (reply :: H) F8 ts nt8 item2 (fuel_of h8) I8 Lt8 Pt8 (fuel_of_pos h8)) as (h9 & E9 & I9 & _ & PL9).
  rewrite E9. cbn [bind]. exists h9, (Some reply). split; [reflexivity|]. exists F8. exact I9.
Qed.

(* ------------------------------------------------------------------------------------ *)
(* one API call                                                                           *)
(* ------------------------------------------------------------------------------------ *)
Definition ok_out (o : sout) : Prop := o <> SUAF /\ o <> SDoubleFree /\ o <> SFuel.

Lemma good_put_some : forall h' l k i F', Inv h' (i :: slot_ids l) F' -> nth k l None = None ->
  Good (mkSt h' (slot_set l k (Some i))).
Proof.
  intros h' l k i F' I Hn. exists F'. cbn [st_heap st_slots]. eapply inv_count_ext; [|exact I].
  intros j. apply slot_ids_set_some. exact Hn.
Qed.

Lemma good_put_noop : forall h' l k F', Inv h' (slot_ids l) F' -> nth k l None = None ->
  Good (mkSt h' (slot_set l k None)).
Proof.
  intros h' l k F' I Hn. exists F'. cbn [st_heap st_slots]. eapply inv_count_ext; [|exact I].
  intros j. apply slot_ids_set_noop. exact Hn.
Qed.

Lemma good_put_none : forall h' l k i F', Inv h' (remove1 i (slot_ids l)) F' -> nth k l None = Some i ->
  Good (mkSt h' (slot_set l k None)).
Proof.
  intros h' l k i F' I Hn. exists F'. cbn [st_heap st_slots]. eapply inv_count_ext; [|exact I].
  intros j. rewrite (slot_ids_set_none k l i Hn). rewrite count_nat_remove1; [reflexivity|]. eapply slot_in. exact Hn.
Qed.

Lemma good_put_opt : forall h' l k r,
  nth k l None = None ->
  match r with Some cp => exists F', Inv h' (cp :: slot_ids l) F' | None => exists F', Inv h' (slot_ids l) F' end ->
  Good (mkSt h' (slot_set l k r)).
Proof.
  intros h' l k [cp|] Hn (F' & I); [eapply good_put_some|eapply good_put_noop]; eassumption.
Qed.

Ltac ok_out_tac := repeat split; discriminate.

Lemma step_good : forall st o, Good st -> wo_step st o = true ->
  exists st' out, step true st o = (Some st', out) /\ Good st' /\ ok_out out.
Proof.
  intros [h l] o G W. pose proof G as (F & I). cbn [st_heap st_slots] in I.
  assert (HL : forall k i, nth k l None = Some i -> exists n, live h i n).
  { intros k i Hk. apply (good_held_live (mkSt h l) k i G Hk). }
  destruct o; cbn [wo_step] in W; unfold holds, free_slot, slot in W; cbn [st_slots st_heap] in W;
    unfold step, slot, put; cbn [st_heap st_slots].
  - (* new *)
    destruct (nth k l None) eqn:Ek; [discriminate|]. unfold stanza_new.
    eexists; eexists. split; [reflexivity|]. split; [|ok_out_tac].
    eapply good_put_some; [apply inv_new; exact I|exact Ek].
  - (* clone *)
    destruct (nth k l None) as [i|] eqn:Ek; [|discriminate]. destruct (nth j l None) eqn:Ej; [discriminate|].
    destruct (inv_clone h _ _ i I (HL k i Ek)) as (h' & R & I' & _). rewrite R.
    eexists; eexists. split; [reflexivity|]. split; [|ok_out_tac]. eapply good_put_some; eassumption.
  - (* copy *)
    destruct (nth k l None) as [i|] eqn:Ek; [|discriminate]. destruct (nth j l None) eqn:Ej; [discriminate|].
    destruct (HL k i Ek) as (n & L).
    destruct (inv_sub_at h _ _ i n I L) as (ti & pari & E1 & E2 & E3 & E4 & _).
    destruct (copy_ok ti h _ F pari (fuel_of h) E4 I E2) as (h' & r & R & Post).
    unfold stanza_copy. rewrite <- E1, R. cbn [fst snd].
    eexists; eexists. split; [reflexivity|]. split; [|destruct r; ok_out_tac].
    apply good_put_opt; [exact Ej|]. destruct r as [cp|]; [|exact Post].
    destruct Post as (_ & _ & _ & tcp & I' & _). eexists. exact I'.
  - (* release *)
    destruct (nth k l None) as [i|] eqn:Ek; [|discriminate].
    destruct (inv_release h _ F i (fuel_of h) I (slot_in _ _ _ Ek) (le_n _)) as (h' & F' & R & I' & _).
    rewrite R. eexists; eexists. split; [reflexivity|]. split; [|ok_out_tac]. eapply good_put_none; eassumption.
  - (* add_child *)
    destruct (nth p l None) as [ip|] eqn:Ep; [|discriminate]. destruct (nth c l None) as [ic|] eqn:Ec; [|discriminate].
    destruct (attachable_spec h _ F ip ic I W) as (tc & Htc & Er & Hn).
    destruct (inv_add_child h _ F ip ic tc do_clone I Htc Er (HL p ip Ep) Hn) as (h' & F' & R & I' & _).
    rewrite R. eexists; eexists. split; [reflexivity|]. split; [|ok_out_tac].
    destruct do_clone; [exists F'; exact I'|eapply good_put_none; eassumption].
  - (* set_name *)
    destruct (nth k l None) as [i|] eqn:Ek; [|discriminate]. destruct (HL k i Ek) as (n & L).
    destruct (set_name_inv h _ F i n s I L) as (r & R & I' & _). rewrite R.
    eexists; eexists. split; [reflexivity|]. split; [exists F; exact I'|ok_out_tac].
  - (* set_text *)
    destruct (nth k l None) as [i|] eqn:Ek; [|discriminate]. destruct (HL k i Ek) as (n & L).
    destruct (set_text_inv h _ F i n s I L) as (r & R & I' & _). rewrite R.
    eexists; eexists. split; [reflexivity|]. split; [exists F; exact I'|ok_out_tac].
  - (* set_attribute *)
    destruct (nth k l None) as [i|] eqn:Ek; [|discriminate]. destruct (HL k i Ek) as (n & L).
    destruct (set_attribute_inv h _ F i n key v I L) as (r & R & I' & _). rewrite R.
    eexists; eexists. split; [reflexivity|]. split; [exists F; exact I'|ok_out_tac].
  - (* del_attribute *)
    destruct (nth k l None) as [i|] eqn:Ek; [|discriminate]. destruct (HL k i Ek) as (n & L).
    destruct (del_attribute_inv h _ F i n key I L) as (r & R & I' & _). rewrite R.
    eexists; eexists. split; [reflexivity|]. split; [exists F; exact I'|ok_out_tac].
  - (* to_text *)
    destruct (nth k l None) as [i|] eqn:Ek; [|discriminate]. destruct (HL k i Ek) as (n & L).
    destruct (inv_sub_at h _ _ i n I L) as (ti & pari & E1 & E2 & E3 & E4 & E5).
    destruct (render_ok ti h pari (fuel_of h) true E4 E2 E5) as (r & R).
    unfold to_text. rewrite <- E1, R. eexists; eexists. split; [reflexivity|]. split; [exact G|ok_out_tac].
  - (* walk *)
    destruct (nth k l None) as [i|] eqn:Ek; [|discriminate]. destruct (HL k i Ek) as (n & L).
    destruct (inv_sub_at h _ _ i n I L) as (ti & pari & E1 & E2 & E3 & E4 & E5).
    unfold walk. rewrite (rd_live _ _ _ L). cbn [bind].
    assert (Hup : exists u, match s_parent n with None => Ok 0 | Some p => pn <- rd h p ;; Ok 1 end = Ok u).
    { destruct (s_parent n) as [p|] eqn:P; [|eexists; reflexivity].
      destruct (inv_parent_live _ _ _ _ _ _ I L P) as (pn & Lp). rewrite (rd_live _ _ _ Lp). eexists. reflexivity. }
    destruct Hup as (u & Eu). rewrite Eu. cbn [bind].
    rewrite <- E1, (subtree_ok ti h pari (fuel_of h) E4 E2). cbn [bind].
    eexists; eexists. split; [reflexivity|]. split; [exact G|ok_out_tac].
  - (* child *)
    destruct (nth k l None) as [ik|] eqn:Ek; [|discriminate]. destruct (nth j l None) eqn:Ej; [discriminate|].
    destruct (HL k ik Ek) as (n & L).
    destruct (inv_kids h _ _ ik n I L) as (t & pj & kr & Ht & He & P & C).
    unfold nth_child. rewrite (rd_live _ _ _ L). cbn [bind]. rewrite (nth_sib_ok kr i h _ C). cbn [bind].
    destruct (nth_error kr i) as [ic|] eqn:En.
    + destruct (lchain_live _ _ _ ic C (nth_error_In _ _ En)) as (nc & Lc).
      destruct (inv_clone h _ _ ic I (ex_intro _ nc Lc)) as (h' & R & I' & _). rewrite R. cbn [bind fst snd].
      eexists; eexists. split; [reflexivity|]. split; [|ok_out_tac]. eapply good_put_some; eassumption.
    + cbn [fst snd]. eexists; eexists. split; [reflexivity|]. split; [|ok_out_tac]. eapply good_put_noop; eassumption.
  - (* reply *)
    destruct (nth k l None) as [i|] eqn:Ek; [|discriminate]. destruct (nth j l None) eqn:Ej; [discriminate|].
    destruct (HL k i Ek) as (n & L).
    destruct (stanza_reply_inv h _ F i n I L) as (h' & r & R & Post). rewrite R. cbn [fst snd].
    eexists; eexists. split; [reflexivity|]. split; [|destruct r; ok_out_tac].
    apply good_put_opt; [exact Ej|]. destruct r as [cp|]; [|exact Post]. destruct Post as (HF & _). exact HF.
  - (* reply_error *)
    destruct (nth k l None) as [i|] eqn:Ek; [|discriminate]. destruct (nth j l None) eqn:Ej; [discriminate|].
    destruct (HL k i Ek) as (n & L).
    destruct (stanza_reply_error_inv h _ F i n ty cond text I L) as (h' & r & R & Post). rewrite R. cbn [fst snd].
    eexists; eexists. split; [reflexivity|]. split; [|destruct r; ok_out_tac].
    apply good_put_opt; [exact Ej|]. exact Post.
Qed.

(* ------------------------------------------------------------------------------------ *)
(* programs                                                                               *)
(* ------------------------------------------------------------------------------------ *)
Lemma good_init : Good init_state.
Proof.
  exists []. constructor.
  - constructor.
  - intros i n L. unfold live in L. destruct i; discriminate.
  - constructor.
  - intros i Hi. cbn [init_state st_slots slot_ids] in Hi. rewrite count_nat_nil in Hi. lia.
Qed.

Lemma run_good : forall prog st, Good st -> well_owned_from true st prog = true ->
  exists outs st', run_from true st prog = (outs, Some st') /\ Good st' /\ Forall (fun o => ok_out (fst o)) outs.
Proof.
  induction prog as [|o r IH]; intros st G W.
  - exists [], st. split; [reflexivity|]. split; [exact G|constructor].
  - cbn [well_owned_from] in W. apply andb_prop in W. destruct W as (W1 & W2).
    destruct (step_good st o G W1) as (st' & out & Es & G' & Oo). rewrite Es in W2.
    destruct (IH st' G' W2) as (outs & st'' & Er & G'' & Fo).
    exists ((out, live_count (st_heap st')) :: outs), st''. cbn [run_from]. rewrite Es, Er.
    split; [reflexivity|]. split; [exact G''|]. constructor; [exact Oo|exact Fo].
Qed.

(* every state a well-owned program passes through *)
Inductive reaches (fx : bool) : sstate -> list sop -> sstate -> Prop :=
| reach_nil : forall st, reaches fx st [] st
| reach_cons : forall st o st' out r st'', step fx st o = (Some st', out) -> reaches fx st' r st'' -> reaches fx st (o :: r) st''.

Lemma prefix_good : forall p st st', Good st -> well_owned_from true st p = true -> reaches true st p st' -> Good st'.
Proof.
  induction p as [|o r IH]; intros st st' G W Rch.
  - inversion Rch; subst. exact G.
  - inversion Rch as [|? ? st1 out ? ? Hs Hr]; subst.
    cbn [well_owned_from] in W. apply andb_prop in W. destruct W as (W1 & W2).
    destruct (step_good st o G W1) as (st1' & out1 & Es & G' & _).
    rewrite Hs in Es. inversion Es; subst st1' out1. rewrite Hs in W2. eapply IH; eassumption.
Qed.

Lemma well_owned_app : forall p q st, well_owned_from true st (p ++ q) = true -> well_owned_from true st p = true.
Proof.
  induction p as [|o r IH]; intros q st W; [reflexivity|].
  cbn [app well_owned_from] in *. apply andb_prop in W. destruct W as (W1 & W2). rewrite W1. cbn [andb].
  destruct (step true st o) as [[st'|] out]; [eapply IH; exact W2|reflexivity].
Qed.

(* ------------------------------------------------------------------------------------ *)
(* "live <=> referenced"                                                                  *)
(* ------------------------------------------------------------------------------------ *)
Lemma lchain_reach : forall h kr start i, lchain h start kr -> In i kr -> sib_reach h start i.
Proof.
  induction kr as [|r rs IH]; intros start i C Hi; [destruct Hi|]. cbn [lchain] in C. destruct C as (E & nr & L & C). subst start.
  destruct Hi as [Hi|Hi]; [subst; constructor|]. eapply sr_next; [exact L|]. eapply IH; eassumption.
Qed.

Lemma reach_lchain : forall h start i, sib_reach h start i -> forall kr, lchain h start kr -> In i kr.
Proof.
  induction 1 as [i|c nc i L _ IH]; intros kr C; destruct kr as [|r rs]; cbn [lchain] in C; try discriminate.
  - destruct C as (E & _). inversion E. left. reflexivity.
  - destruct C as (E & nr & Lr & C). inversion E; subst r. rewrite (live_fun _ _ _ _ Lr L) in C. right. apply IH. exact C.
Qed.

Lemma entry_parent_entry : forall t par i p kri, In (i, Some p, kri) (nodes par t) ->
  (i = root t /\ par = Some p) \/ exists pp krp, In (p, pp, krp) (nodes par t) /\ In i krp.
Proof.
  induction t as [r ks IH] using T_ind'. intros par i p kri Hin. rewrite nodes_N in Hin. destruct Hin as [E|Hin].
  - inversion E; subst. left. split; reflexivity.
  - right. apply in_flat_map in Hin. destruct Hin as (k & Hk & Hin). rewrite Forall_forall in IH.
    destruct (IH k Hk _ _ _ _ Hin) as [(E1 & E2)|(pp & krp & E1 & E2)].
    + inversion E2; subst p. exists par, (map root ks). split; [rewrite nodes_N; left; reflexivity|].
      rewrite E1. apply in_map. exact Hk.
    + exists pp, krp. split; [|exact E2]. rewrite nodes_N. right. apply in_flat_map. exists k. tauto.
Qed.

Lemma good_ref_spec : forall st, Good st -> ref_spec st /\ handles_live st.
Proof.
  intros [h l] (F & I). cbn [st_heap st_slots] in I. split.
  - intros i n L. cbn [st_heap] in *. unfold handles. cbn [st_slots].
    pose proof (inv_refs _ _ _ _ _ I L) as R. unfold att in R.
    destruct (inv_tree_of _ _ _ _ _ I L) as (t & Ht & Hi).
    pose proof (inv_surv _ _ _ _ I Ht) as (Hf & _ & Hc & _). pose proof (inv_tree_nodup _ _ _ _ I Ht) as NDt.
    destruct (entry_of t None i Hi) as (pi & kri & He).
    pose proof Hf as Hf'. unfold flat in Hf'. rewrite Forall_forall in Hf'.
    destruct (Hf' _ He) as (n0 & L0 & P0 & _). rewrite (live_fun _ _ _ _ L0 L) in P0. clear n0 L0.
    destruct (s_parent n) as [p|] eqn:P.
    + left. split; [|lia]. exists p. split; [exact P|]. subst pi.
      destruct (entry_parent_entry t None i p kri He) as [(_ & E)|(pp & krp & Hp & Hik)]; [discriminate|].
      destruct (Hf' _ Hp) as (pn & Lp & _ & Cp). exists pn. split; [exact Lp|]. eapply lchain_reach; eassumption.
    + right. split; [first [exact P|reflexivity]|]. split; [|split; [lia|]].
      * intros p (pn & Lp & Rch).
        destruct (inv_kids h _ _ p pn I Lp) as (tp & pj & krp & Htp & Hep & _ & Cp).
        pose proof (reach_lchain _ _ _ Rch krp Cp) as Hik.
        destruct (kid_entry _ _ _ _ _ _ Hep Hik) as (kri' & He').
        assert (t = tp).
        { eapply inv_disjoint; [exact I|exact Ht|exact Htp|exact Hi|]. eapply entry_in_ids; exact He'. }
        subst tp. pose proof (entry_unique _ _ _ _ NDt He He' eq_refl) as EE. inversion EE. congruence.
      * destruct (inv_tree_of_root _ _ _ _ _ I L P) as (t' & Ht' & Er).
        pose proof (inv_surv _ _ _ _ I Ht') as (_ & _ & Hc' & _). rewrite Er in Hc'. exact Hc'.
  - intros k i Hs. apply (good_held_live (mkSt h l) k i); [exists F; exact I|exact Hs].
Qed.

Lemma inv_tree_of_root_or : forall h H F i n, Inv h H F -> live h i n -> exists t, In t F.
Proof. intros h H F i n I L. destruct (inv_tree_of _ _ _ _ _ I L) as (t & Ht & _). exists t. exact Ht. Qed.

Lemma good_empty : forall st, Good st -> slot_ids (st_slots st) = [] -> heap_empty (st_heap st).
Proof.
  intros [h l] (F & I) Hs. cbn [st_heap st_slots] in *. rewrite Hs in I.
  intros c Hc. destruct c as [n|]; [exfalso|reflexivity].
  apply In_nth_error in Hc. destruct Hc as (i & Hi).
  destruct (inv_tree_of_root_or h [] F i n I Hi) as (t & Ht).
  pose proof (inv_surv _ _ _ _ I Ht) as (_ & _ & Hc & _). rewrite count_nat_nil in Hc. lia.
Qed.

(* ------------------------------------------------------------------------------------ *)
(* releasing everything that is still held                                                *)
(* ------------------------------------------------------------------------------------ *)
Lemma slot_set_nth : forall k l v k', nth k' (slot_set l k v) None = if Nat.eqb k' k then v else nth k' l None.
Proof.
  induction k as [|k IH]; intros l v k'.
  - destruct l as [|x r]; destruct k' as [|k']; cbn [slot_set nth Nat.eqb]; try reflexivity. destruct k'; reflexivity.
  - destruct l as [|x r]; destruct k' as [|k']; cbn [slot_set nth Nat.eqb]; try reflexivity.
    + rewrite IH. destruct (Nat.eqb k' k); [reflexivity|destruct k'; reflexivity].
    + apply IH.
Qed.

Lemma slot_ids_nil : forall l, (forall k, nth k l None = None) -> slot_ids l = [].
Proof.
  induction l as [|x r IH]; intros Hn; [reflexivity|]. pose proof (Hn O) as H0. cbn [nth] in H0. subst x.
  cbn [slot_ids]. apply IH. intros k. apply (Hn (S k)).
Qed.

Lemma held_slots_spec : forall l b k, In k (held_slots l b) <-> (b <= k)%nat /\ nth (k - b) l None <> None.
Proof.
  induction l as [|x r IH]; intros b k; cbn [held_slots].
  - split; [intros []|]. intros (_ & Hn). destruct (k - b)%nat; cbn in Hn; congruence.
  - destruct x as [a|].
    + cbn [In]. rewrite IH. split.
      * intros [E|(Hb & Hn)]; [subst; split; [lia|]; rewrite Nat.sub_diag; cbn; discriminate|].
        split; [lia|]. replace (k - b)%nat with (S (k - S b)) by lia. exact Hn.
      * intros (Hb & Hn). destruct (Nat.eq_dec b k) as [E|E]; [left; exact E|right]. split; [lia|].
        replace (k - b)%nat with (S (k - S b)) in Hn by lia. exact Hn.
    + rewrite IH. split.
      * intros (Hb & Hn). split; [lia|]. replace (k - b)%nat with (S (k - S b)) by lia. exact Hn.
      * intros (Hb & Hn). destruct (Nat.eq_dec b k) as [E|E].
        { subst. rewrite Nat.sub_diag in Hn. cbn in Hn. congruence. }
        split; [lia|]. replace (k - b)%nat with (S (k - S b)) in Hn by lia. exact Hn.
Qed.

Lemma held_slots_nodup : forall l b, NoDup (held_slots l b).
Proof.
  induction l as [|x r IH]; intros b; cbn [held_slots]; [constructor|]. destruct x; [|apply IH].
  constructor; [|apply IH]. intros Hin. apply held_slots_spec in Hin. lia.
Qed.

Lemma release_step : forall st k i, Good st -> slot st k = Some i ->
  exists h' out, step true st (ORelease k) = (Some (mkSt h' (slot_set (st_slots st) k None)), out) /\
                 Good (mkSt h' (slot_set (st_slots st) k None)) /\ ok_out out.
Proof.
  intros [h l] k i (F & I) Hs. unfold slot in Hs. cbn [st_heap st_slots] in *. unfold step, slot, put. cbn [st_heap st_slots].
  rewrite Hs.
  destruct (inv_release h _ F i (fuel_of h) I (slot_in _ _ _ Hs) (le_n _)) as (h' & F' & R & I' & _).
  rewrite R. eexists; eexists. split; [reflexivity|]. split; [eapply good_put_none; eassumption|ok_out_tac].
Qed.

Lemma release_list : forall ks st, Good st -> NoDup ks ->
  (forall k, In k ks -> slot st k <> None) ->
  exists outs st', run_from true st (map ORelease ks) = (outs, Some st') /\
    well_owned_from true st (map ORelease ks) = true /\ Good st' /\ Forall (fun o => ok_out (fst o)) outs /\
    (forall k, slot st' k = if existsb (Nat.eqb k) ks then None else slot st k).
Proof.
  induction ks as [|k r IH]; intros st G ND Hk.
  - exists [], st. split; [reflexivity|]. split; [reflexivity|]. split; [exact G|]. split; [constructor|]. intros k. reflexivity.
  - inversion ND as [|? ? Hni NDr]; subst.
    destruct (slot st k) as [i|] eqn:Es; [|exfalso; apply (Hk k (or_introl eq_refl)); exact Es].
    destruct (release_step st k i G Es) as (h' & out & Estep & G' & Oo).
    set (st1 := mkSt h' (slot_set (st_slots st) k None)) in *.
    assert (Hs1 : forall k', slot st1 k' = if Nat.eqb k' k then None else slot st k').
    { intros k'. unfold slot, st1. cbn [st_slots]. apply slot_set_nth. }
    destruct (IH st1 G' NDr) as (outs & st' & Er & Wr & G'' & Fo & Hs').
    { intros k' Hk'. rewrite Hs1. destruct (Nat.eqb_spec k' k) as [E|E]; [subst; contradiction|]. apply Hk. right. exact Hk'. }
    exists ((out, live_count (st_heap st1)) :: outs), st'. cbn [map run_from well_owned_from]. rewrite Estep, Er.
    split; [reflexivity|]. split.
    { unfold wo_step, holds. rewrite Es. cbn [andb]. exact Wr. }
    split; [exact G''|]. split; [constructor; [exact Oo|exact Fo]|].
    intros k'. rewrite Hs'. cbn [existsb]. rewrite Hs1. destruct (Nat.eqb k' k); destruct (existsb (Nat.eqb k') r); reflexivity.
Qed.

Lemma release_all_ok : forall st, Good st ->
  exists outs st', run_from true st (release_all_ops st) = (outs, Some st') /\
    well_owned_from true st (release_all_ops st) = true /\ Good st' /\ Forall (fun o => ok_out (fst o)) outs /\
    slot_ids (st_slots st') = [].
Proof.
  intros st G. unfold release_all_ops.
  destruct (release_list (held_slots (st_slots st) 0) st G (held_slots_nodup _ _)) as (outs & st' & Er & Wr & G' & Fo & Hs).
  - intros k Hk. apply held_slots_spec in Hk. destruct Hk as (_ & Hn). rewrite Nat.sub_0_r in Hn. exact Hn.
  - exists outs, st'. split; [exact Er|]. split; [exact Wr|]. split; [exact G'|]. split; [exact Fo|].
    apply slot_ids_nil. intros k. specialize (Hs k). unfold slot in Hs. rewrite Hs.
    destruct (existsb (Nat.eqb k) (held_slots (st_slots st) 0)) eqn:Ex; [reflexivity|].
    destruct (nth k (st_slots st) None) eqn:En; [|reflexivity]. exfalso.
    assert (Hin : In k (held_slots (st_slots st) 0)).
    { apply held_slots_spec. split; [lia|]. rewrite Nat.sub_0_r, En. discriminate. }
    assert (existsb (Nat.eqb k) (held_slots (st_slots st) 0) = true); [|congruence].
    apply existsb_exists. exists k. split; [exact Hin|apply Nat.eqb_refl].
Qed.

(* ------------------------------------------------------------------------------------ *)
(* the theorems                                                                           *)
(* ------------------------------------------------------------------------------------ *)
Lemma refcount_invariant_proof : forall prog p st,
  well_owned true prog = true -> (exists q, prog = p ++ q) -> reaches true init_state p st ->
  ref_spec st /\ handles_live st.
Proof.
  intros prog p st W (q & E) Rch. subst prog. apply good_ref_spec.
  eapply prefix_good; [apply good_init| |exact Rch]. eapply well_owned_app. exact W.
Qed.

Lemma no_uaf_no_double_free_proof : forall prog,
  well_owned true prog = true ->
  Forall (fun o => fst o <> SUAF /\ fst o <> SDoubleFree /\ fst o <> SFuel) (fst (run true prog)) /\
  exists st, snd (run true prog) = Some st.
Proof.
  intros prog W. destruct (run_good prog init_state good_init W) as (outs & st' & Er & _ & Fo).
  unfold run. rewrite Er. cbn [fst snd]. split; [exact Fo|]. exists st'. reflexivity.
Qed.

Lemma all_freed_proof : forall prog st,
  well_owned true prog = true -> snd (run true prog) = Some st ->
  (slot_ids (st_slots st) = [] -> heap_empty (st_heap st)) /\
  (exists outs st', run_from true st (release_all_ops st) = (outs, Some st') /\
     well_owned true (prog ++ release_all_ops st) = true /\
     Forall (fun o => fst o <> SUAF /\ fst o <> SDoubleFree /\ fst o <> SFuel) outs /\
     slot_ids (st_slots st') = [] /\ heap_empty (st_heap st')).
Proof.
  intros prog st W Hr. destruct (run_good prog init_state good_init W) as (outs & st0 & Er & G & _).
  unfold run in Hr. rewrite Er in Hr. cbn [snd] in Hr. inversion Hr; subst st0.
  split; [apply good_empty; exact G|].
  destruct (release_all_ok st G) as (outs' & st' & Er' & Wr' & G' & Fo' & Hs').
  exists outs', st'. split; [exact Er'|]. split; [|split; [exact Fo'|split; [exact Hs'|apply good_empty; assumption]]].
  unfold well_owned. clear - W Er Wr'. unfold well_owned in W. revert W Er. generalize init_state as s0. generalize outs.
  induction prog as [|o r IH]; intros outs0 s0 W Er.
  - cbn [run_from] in Er. inversion Er; subst. exact Wr'.
  - cbn [app well_owned_from run_from] in *. apply andb_prop in W. destruct W as (W1 & W2). rewrite W1. cbn [andb].
    destruct (step true s0 o) as [[s1|] out]; [|discriminate].
    destruct (run_from true s1 r) as [outs1 fin] eqn:E1. inversion Er; subst. eapply IH; [exact W2|exact E1].
Qed.

(* the defect of libstrophe 0.14.0 (fx = false): a child that survives its parent keeps the dangling
   parent pointer; walking (or, before fixes/C09-1, rendering) it touches the freed parent *)
Definition uaf_witness : list sop :=
  [ONew 0; OSetName 0 [97]; OSetAttr 0 xmlns_key [110];
   ONew 1; OSetName 1 [98]; OSetAttr 1 xmlns_key [110];
   OAddChild 0 1 true; ORelease 0; OWalk 1].

Lemma unfixed_release_refuted_proof :
  well_owned false uaf_witness = true /\ In SUAF (map fst (fst (run false uaf_witness))).
Proof. vm_compute. split; [reflexivity|]. repeat (first [left; reflexivity|right]). Qed.

Lemma fixed_witness_ok : well_owned true uaf_witness = true /\ ~ In SUAF (map fst (fst (run true uaf_witness))).
Proof. vm_compute. split; [reflexivity|]. intuition discriminate. Qed.

(* ------------------------------------------------------------------------------------ *)
(* the hypotheses of the theorems are satisfiable: well-owned programs exist that share objects, let a child outlive
   its parent, re-attach it, copy, build an error reply and hold parts of it beyond the reply *)
Definition example_prog : list sop :=
  [ONew 0; OSetName 0 [105; 113]; OSetAttr 0 k_from [97]; OSetAttr 0 k_to [98];
   ONew 1; OSetName 1 [120]; OSetAttr 1 xmlns_key [110]; OAddChild 0 1 true;
   OReplyErr 0 2 [99] [100] (Some [101]); OChild 2 0 3; OChild 3 1 4; OCopy 0 5;
   ORelease 0; OToText 1; OWalk 1; ONew 6; OSetName 6 [121]; OAddChild 6 1 false;
   ORelease 2; OToText 3; OToText 4; ORelease 3; OWalk 4; OToText 5; OToText 6].
Example example_prog_well_owned : well_owned true example_prog = true.
Proof. vm_compute. reflexivity. Qed.
Example example_prog_runs : exists st, snd (run true example_prog) = Some st /\ slot_ids (st_slots st) <> [].
Proof. vm_compute. eexists. split; [reflexivity|discriminate]. Qed.
Example example_reaches : exists st, reaches true init_state [ONew 0; OClone 0 1] st.
Proof.
  eexists. eapply reach_cons; [vm_compute; reflexivity|]. eapply reach_cons; [vm_compute; reflexivity|]. apply reach_nil.
Qed.
