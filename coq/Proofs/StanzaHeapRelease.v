(* C12 - the invariant of the stanza heap and the cascade of xmpp_stanza_release (fixed code). *)
Require Import LV.Common.Bytes LV.Gen.Gen_stanza LV.Model.StanzaModel LV.Model.StanzaHeapModel LV.Spec.OwnershipSpec.
Require Import LV.Proofs.StanzaHeapBase.
Require Import Lia.
Local Open Scope Z_scope.

Definition att (n : snode) : Z := match s_parent n with Some _ => 1 | None => 0 end.

Definition root_clear (h : sheap) (i : nat) : Prop := exists n, live h i n /\ s_next n = None /\ s_prev n = None.

(* "ref = references held outside the graph + [has a parent]" *)
Definition refs_ok (h : sheap) (H : list nat) (j : nat) : Prop :=
  forall n, live h j n -> s_ref n = count_nat H j + att n.

(* a detached tree held from outside *)
Definition surv (h : sheap) (H : list nat) (s : T) : Prop :=
  flat h None s /\ root_clear h (root s) /\ 1 <= count_nat H (root s) /\ forall j, In j (ids s) -> refs_ok h H j.

(* H is the multiset of references held outside the graph: user handles, and the library's own
   temporaries in the middle of an API call *)
Record Inv (h : sheap) (H : list nat) (F : list T) : Prop := mkInv {
  inv_nodup : NoDup (idsl F);
  inv_cover : forall i n, live h i n -> In i (idsl F);
  inv_trees : Forall (surv h H) F;
  inv_held : forall i, 1 <= count_nat H i -> exists n, live h i n }.

(* ------------------------------------------------------------------------------------ *)
(* transfer along heaps that agree on a region                                            *)
(* ------------------------------------------------------------------------------------ *)
Lemma root_clear_agree : forall h h' i, nth_error h' i = nth_error h i -> root_clear h i -> root_clear h' i.
Proof. intros h h' i E (n & L & A & B). exists n. unfold live in *. rewrite E. tauto. Qed.

Lemma refs_ok_agree : forall h h' H H' j, nth_error h' j = nth_error h j -> count_nat H' j = count_nat H j ->
  refs_ok h H j -> refs_ok h' H' j.
Proof. intros h h' H H' j E C R n L. unfold live in L. rewrite E in L. rewrite C. apply R. exact L. Qed.

Lemma surv_agree : forall h h' H H' s,
  (forall j, In j (ids s) -> nth_error h' j = nth_error h j) ->
  (forall j, In j (ids s) -> count_nat H' j = count_nat H j) ->
  surv h H s -> surv h' H' s.
Proof.
  intros h h' H H' s Ag Cn (Hf & Hc & Hr & Hj).
  split; [eapply flat_agree; eassumption|].
  split; [eapply root_clear_agree; [apply Ag, root_in_ids|assumption]|].
  split; [rewrite Cn by apply root_in_ids; assumption|].
  intros j Hin. eapply refs_ok_agree; [apply Ag, Hin|apply Cn, Hin|apply Hj, Hin].
Qed.

Lemma surv_live : forall h H s j, surv h H s -> In j (ids s) -> exists n, live h j n.
Proof. intros h H s j (Hf & _) Hin. eapply flat_live; eassumption. Qed.

(* ------------------------------------------------------------------------------------ *)
(* unfolding                                                                              *)
(* ------------------------------------------------------------------------------------ *)
Lemma release_S : forall fx f h i,
  release fx (S f) h i =
  (n <- rd h i ;;
   if 1 <? s_ref n then Ok (wr h i (with_ref n (s_ref n - 1)))
   else h1 <- release_loop fx f h (s_children n) ;; free_cell h1 i).
Proof. reflexivity. Qed.

Lemma release_loop_None : forall fx fuel h, release_loop fx fuel h None = Ok h.
Proof. intros. destruct fuel; reflexivity. Qed.

Lemma release_loop_S : forall fx f h c,
  release_loop fx (S f) h (Some c) =
  (nc <- rd h c ;; h1 <- release fx f (wr h c (detach_links fx nc)) c ;; release_loop fx f h1 (s_next nc)).
Proof. reflexivity. Qed.

(* ------------------------------------------------------------------------------------ *)
(* single-cell updates that keep the link fields                                          *)
(* ------------------------------------------------------------------------------------ *)
Lemma local_wr_links : forall h i n m e,
  live h i n -> s_parent m = s_parent n -> s_children m = s_children n -> s_next m = s_next n ->
  local h e -> local (wr h i m) e.
Proof.
  intros h i n m [[j pj] kr] L Ep Ec En Hl. eapply local_ext; [| |exact Hl].
  - intros n0 L0 P0. destruct (Nat.eq_dec i j) as [E|E].
    + subst. rewrite (live_fun _ _ _ _ L0 L) in *. exists m. split; [eapply live_wr_same; eassumption|].
      split; congruence.
    + exists n0. split; [apply live_wr_other; assumption|tauto].
  - intros r n0 _ L0. destruct (Nat.eq_dec i r) as [E|E].
    + subst. rewrite (live_fun _ _ _ _ L0 L) in *. exists m. split; [eapply live_wr_same; eassumption|assumption].
    + exists n0. split; [apply live_wr_other; assumption|reflexivity].
Qed.

Lemma flat_wr_links : forall h i n m par t,
  live h i n -> s_parent m = s_parent n -> s_children m = s_children n -> s_next m = s_next n ->
  flat h par t -> flat (wr h i m) par t.
Proof.
  intros h i n m par t L Ep Ec En Hf. unfold flat in *. rewrite Forall_forall in *.
  intros e He. eapply local_wr_links; eauto.
Qed.

Lemma root_clear_wr : forall h i n m j,
  live h i n -> s_next m = s_next n -> s_prev m = s_prev n -> root_clear h j -> root_clear (wr h i m) j.
Proof.
  intros h i n m j L En Ep (n0 & L0 & A & B). destruct (Nat.eq_dec i j) as [E|E].
  - subst. rewrite (live_fun _ _ _ _ L0 L) in *. exists m. split; [eapply live_wr_same; eassumption|]. split; congruence.
  - exists n0. split; [apply live_wr_other; assumption|tauto].
Qed.

(* ------------------------------------------------------------------------------------ *)
(* the cascade                                                                            *)
(* ------------------------------------------------------------------------------------ *)
Definition release_spec (t : T) : Prop :=
  forall h H fuel,
    (need t <= fuel)%nat ->
    surv h H t -> NoDup (ids t) ->
    exists h' S,
      release true fuel h (root t) = Ok h' /\
      length h' = length h /\
      (forall j, ~ In j (ids t) -> nth_error h' j = nth_error h j) /\
      NoDup (idsl S) /\ incl (idsl S) (ids t) /\
      Forall (surv h' (remove1 (root t) H)) S /\
      (forall j, In j (ids t) -> ~ In j (idsl S) -> nth_error h' j = Some None) /\
      (forall j, In j (ids t) -> 1 <= count_nat (remove1 (root t) H) j -> In j (idsl S)).

Lemma remove1_head : forall c l, remove1 c (c :: l) = l.
Proof. intros. cbn [remove1]. rewrite Nat.eqb_refl. reflexivity. Qed.

Lemma release_loop_ok : forall ks, Forall release_spec ks -> forall i h H fuel start,
  (needl ks <= fuel)%nat ->
  lchain h start (map root ks) -> Forall (flat h (Some i)) ks ->
  NoDup (idsl ks) -> ~ In i (idsl ks) ->
  (forall j, In j (idsl ks) -> refs_ok h H j) ->
  exists h' S,
    release_loop true fuel h start = Ok h' /\ length h' = length h /\
    (forall j, ~ In j (idsl ks) -> nth_error h' j = nth_error h j) /\
    NoDup (idsl S) /\ incl (idsl S) (idsl ks) /\
    Forall (surv h' H) S /\
    (forall j, In j (idsl ks) -> ~ In j (idsl S) -> nth_error h' j = Some None) /\
    (forall j, In j (idsl ks) -> 1 <= count_nat H j -> In j (idsl S)).
Proof.
  induction 1 as [|k r Hk _ IH]; intros i h H fuel start Hfuel Hch Hfl ND Hi Href.
  - cbn [map lchain] in Hch. subst. exists h, []. rewrite release_loop_None.
    split; [reflexivity|]. split; [reflexivity|]. split; [reflexivity|]. split; [constructor|].
    split; [intros x []|]. split; [constructor|]. split; intros j [].
  - cbn [map lchain] in Hch. destruct Hch as (Es & nk & Lk & Hch). subst start.
    cbn [needl] in Hfuel. destruct fuel as [|f]; [lia|].
    rewrite release_loop_S, (rd_live _ _ _ Lk). cbn [bind].
    rewrite idsl_cons in ND, Hi, Href. apply nodup_app in ND. destruct ND as (NDk & NDr & Dis).
    apply Forall_cons_iff in Hfl. destruct Hfl as (Hfk & Hfr).
    assert (Hrk : ~ In (root k) (idsl r)) by (apply Dis, root_in_ids).
    destruct (flat_root _ _ _ Hfk) as (n0 & L0 & P0 & _). rewrite (live_fun _ _ _ _ L0 Lk) in P0. clear n0 L0.
    set (g1 := wr h (root k) (detach_links true nk)).
    assert (Lg1 : live g1 (root k) (detach_links true nk)) by (eapply live_wr_same; eassumption).
    assert (Sk : surv g1 (root k :: H) k).
    { split; [|split; [|split]].
      - eapply flat_reparent; [exact NDk| | |exact Hfk].
        + intros n L. rewrite (live_fun _ _ _ _ L Lk). exists (detach_links true nk). split; [exact Lg1|]. split; reflexivity.
        + intros j _ Hj. apply nth_wr_other. congruence.
      - exists (detach_links true nk). split; [exact Lg1|]. split; reflexivity.
      - rewrite count_nat_cons, Nat.eqb_refl. pose proof (count_nat_nonneg H (root k)). lia.
      - intros j Hj. destruct (Nat.eq_dec j (root k)) as [E|E].
        + subst j. intros n L. rewrite (live_fun _ _ _ _ L Lg1).
          pose proof (Href (root k) (in_or_app _ _ _ (or_introl (root_in_ids k))) nk Lk) as R1.
          rewrite count_nat_cons, Nat.eqb_refl. unfold att in *. rewrite P0 in R1.
          cbn [detach_links with_links s_ref s_parent]. lia.
        + eapply refs_ok_agree; [apply nth_wr_other; congruence| |apply Href, in_or_app; left; exact Hj].
          rewrite count_nat_cons. destruct (Nat.eqb_spec j (root k)); [congruence|lia]. }
    destruct (Hk g1 (root k :: H) f ltac:(lia) Sk NDk) as (g2 & S1 & R1 & Len1 & Fr1 & ND1 & Inc1 & Sv1 & Fd1 & Hd1).
    rewrite R1. cbn [bind]. rewrite remove1_head in Sv1, Hd1.
    assert (Ag : forall j, ~ In j (ids k) -> nth_error g2 j = nth_error h j).
    { intros j Hj. rewrite Fr1 by exact Hj. apply nth_wr_other. intros E. subst. apply Hj, root_in_ids. }
    assert (Dis' : forall j, In j (idsl r) -> ~ In j (ids k)) by (intros j Hj Hjk; apply (Dis j Hjk Hj)).
    destruct (IH i g2 H f (s_next nk)) as (g3 & S2 & R2 & Len2 & Fr2 & ND2 & Inc2 & Sv2 & Fd2 & Hd2).
    + lia.
    + eapply lchain_ext; [|exact Hch]. intros r0 n0 Hr0 L0. exists n0. split; [|reflexivity].
      unfold live in *. rewrite Ag; [assumption|]. apply Dis'.
      apply in_map_iff in Hr0. destruct Hr0 as (k' & E & Hk'). subst. apply in_idsl. exists k'. split; [assumption|apply root_in_ids].
    + rewrite Forall_forall in *. intros k' Hk'. eapply flat_agree; [|apply Hfr, Hk'].
      intros j Hj. apply Ag, Dis'. apply in_idsl. exists k'. tauto.
    + exact NDr.
    + intros Hin. apply Hi, in_or_app. right. exact Hin.
    + intros j Hj. eapply refs_ok_agree; [apply Ag, Dis', Hj|reflexivity|apply Href, in_or_app; right; exact Hj].
    + exists g3, (S1 ++ S2). rewrite R2, idsl_app, idsl_cons.
      split; [reflexivity|]. split; [rewrite Len2, Len1; apply wr_len|].
      split. { intros j Hj. rewrite Fr2, Ag; [reflexivity| |]; intros Hin; apply Hj, in_or_app; auto. }
      split. { apply nodup_app. split; [exact ND1|]. split; [exact ND2|]. intros x H1 H2. apply (Dis x); [apply Inc1, H1|apply Inc2, H2]. }
      split. { intros x Hx. apply in_app_or in Hx. apply in_or_app. destruct Hx as [Hx|Hx]; [left; apply Inc1, Hx|right; apply Inc2, Hx]. }
      split.
      { apply Forall_app. split; [|exact Sv2]. rewrite Forall_forall in *. intros s Hs.
        eapply surv_agree; [| |apply Sv1, Hs]; [|reflexivity].
        intros j Hj. apply Fr2. intros Hin. apply (Dis j); [|exact Hin]. apply Inc1, in_idsl. exists s. tauto. }
      split.
      { intros j Hj Hn. apply in_app_or in Hj. destruct Hj as [Hj|Hj].
        * rewrite Fr2 by (intros Hin; apply (Dis j Hj Hin)). apply Fd1; [exact Hj|]. intros Hin. apply Hn, in_or_app. auto.
        * apply Fd2; [exact Hj|]. intros Hin. apply Hn, in_or_app. auto. }
      intros j Hj Hc. apply in_or_app. apply in_app_or in Hj. destruct Hj as [Hj|Hj]; [left; apply Hd1|right; apply Hd2]; assumption.
Qed.

Lemma release_ok : forall t, release_spec t.
Proof.
  induction t as [i ks IH] using T_ind'. intros h H fuel Hfuel (Hf & Hc & Hcnt & Href) ND.
  cbn [root] in *. rewrite need_N in Hfuel. destruct fuel as [|f]; [lia|].
  pose proof Hf as Hf0. apply flat_N in Hf. destruct Hf as ((n & L & P & C) & Hfk).
  rewrite ids_N in ND. inversion ND as [|? ? Hni NDk]; subst.
  assert (HinH : In i H) by (apply count_nat_in; exact Hcnt).
  pose proof (Href i (or_introl eq_refl) n L) as Rn. unfold att in Rn. rewrite P in Rn.
  rewrite release_S, (rd_live _ _ _ L). cbn [bind]. destruct (1 <? s_ref n) eqn:Eref.
  - apply Z.ltb_lt in Eref.
    set (m := with_ref n (s_ref n - 1)).
    assert (Lm : live (wr h i m) i m) by (eapply live_wr_same; eassumption).
    exists (wr h i m), [N i ks]. split; [reflexivity|]. split; [apply wr_len|].
    split. { intros j Hj. apply nth_wr_other. intros E. subst. apply Hj. left. reflexivity. }
    assert (Eids : idsl [N i ks] = ids (N i ks)) by (unfold idsl; cbn [flat_map]; apply app_nil_r).
    rewrite Eids. split; [exact ND|]. split; [apply incl_refl|].
    split; [|split; [intros j Hj Hn; contradiction|intros j Hj _; exact Hj]].
    constructor; [|constructor]. split; [|split; [|split]].
    + eapply flat_wr_links; [exact L| | | |exact Hf0]; reflexivity.
    + eapply root_clear_wr; [exact L| | |exact Hc]; reflexivity.
    + cbn [root]. rewrite count_nat_remove1 by exact HinH. rewrite Nat.eqb_refl. lia.
    + intros j Hj. destruct (Nat.eq_dec j i) as [E|E].
      * subst j. intros n' L'. rewrite (live_fun _ _ _ _ L' Lm). cbn [root]. rewrite count_nat_remove1 by exact HinH.
        rewrite Nat.eqb_refl. unfold att, m. cbn [with_ref s_ref s_parent s_attrs]. rewrite P. lia.
      * eapply refs_ok_agree; [apply nth_wr_other; congruence| |apply Href, Hj].
        cbn [root]. rewrite count_nat_remove1 by exact HinH. destruct (Nat.eqb_spec j i); [congruence|lia].
  - destruct (release_loop_ok ks IH i h H f (s_children n)) as (h1 & S & R & Len & Fr & NDS & Inc & Sv & Fd & Hd).
    + lia.
    + exact C.
    + exact Hfk.
    + exact NDk.
    + exact Hni.
    + intros j Hj. apply Href. right. exact Hj.
    + rewrite R. cbn [bind].
      assert (L1 : live h1 i n) by (unfold live in *; rewrite Fr by exact Hni; exact L).
      rewrite (free_cell_ok _ _ _ L1). exists (set_nth i h1 None), S.
      split; [reflexivity|]. split; [rewrite set_nth_len; exact Len|].
      split. { intros j Hj. rewrite nth_error_set_nth_other; [apply Fr|]; intros E; apply Hj; [right; exact E|left; exact E]. }
      split; [exact NDS|]. split; [intros x Hx; right; apply Inc, Hx|].
      split.
      { rewrite Forall_forall in *. intros s Hs.
        assert (Hsi : forall j, In j (ids s) -> j <> i).
        { intros j Hj E. subst. apply Hni, Inc, in_idsl. exists s. tauto. }
        eapply surv_agree; [| |apply Sv, Hs].
        - intros j Hj. apply nth_error_set_nth_other. intros E. apply (Hsi j Hj). congruence.
        - intros j Hj. cbn [root]. rewrite count_nat_remove1 by exact HinH.
          destruct (Nat.eqb_spec j i) as [E|E]; [exfalso; apply (Hsi j Hj E)|lia]. }
      split.
      { intros j [E|Hj] Hn.
        * subst j. apply nth_error_set_nth_same. eapply live_lt; exact L1.
        * rewrite nth_error_set_nth_other by (intros E; subst; contradiction). apply Fd; assumption. }
      apply Z.ltb_ge in Eref. intros j Hj Hcj. cbn [root] in Hcj. rewrite count_nat_remove1 in Hcj by exact HinH.
      destruct Hj as [E|Hj].
      * subst j. rewrite Nat.eqb_refl in Hcj. lia.
      * apply Hd; [exact Hj|]. destruct (Nat.eqb j i); lia.
Qed.
