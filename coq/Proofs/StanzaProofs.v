(* Proofs for C09 (stanza serialisation).  The statements collected in Properties_C09.v are proved here. *)
Require Import LV.Common.Bytes LV.Gen.Gen_stanza LV.Model.StanzaModel LV.Spec.XmlSubsetSpec.
Require Import Lia ZifyBool.
Local Open Scope Z_scope.

(* ==================================================================================== *)
(* A. the values found in the C source are the ones the specification talks about       *)
(* ==================================================================================== *)
Definition expected_formats : list (list Z) :=
  [ [37; 115];                                   (* %s *)
    [60; 37; 115];                               (* <%s *)
    [32; 37; 115; 61; 34; 37; 115; 34];          (* space %s = dq %s dq *)
    [47; 62];                                    (* /> *)
    [62];                                        (* > *)
    [60; 47; 37; 115; 62] ].                     (* </%s> *)

Lemma Gen_stanza_ok :
  esc_table = xml_escape_table /\
  esc_len_table = map (fun ce => (fst ce, zlen (snd ce))) xml_escape_table /\
  esc_adv_table = esc_len_table /\
  render_formats = expected_formats /\
  xmlns_key = xmlns_name /\
  top_elided_ns = rfc_ns_client /\
  ns_client = rfc_ns_client /\
  0 < stanza_init_buf /\
  0 < attr_hash_size /\
  reply_deleted = [s_to; s_from; xmlns_name] /\
  reply_error_literals = [s_error; s_error; rfc_ns_stanzas; s_text; rfc_ns_stanzas] /\
  stream_error_names = rfc_stream_conditions /\
  stream_error_ns = rfc_ns_streams /\
  stream_error_elem = s_stream_error /\
  stream_error_text_elem = s_text /\
  In stream_error_default rfc_stream_conditions.
Proof.
  repeat split; try (vm_compute; reflexivity); try (vm_compute; congruence).
  vm_compute. tauto.
Qed.

Lemma esc_table_eq : esc_table = xml_escape_table. Proof. apply Gen_stanza_ok. Qed.
Lemma formats_eq : render_formats = expected_formats. Proof. apply Gen_stanza_ok. Qed.

(* ==================================================================================== *)
(* B. escaping                                                                          *)
(* ==================================================================================== *)
Lemma esc1_spec : forall c, esc1 c = xml_escape1 c.
Proof.
  intro c. unfold esc1. rewrite esc_table_eq. unfold xml_escape_table, xml_escape1, lookup.
  unfold c_quot, c_amp, c_lt, c_gt.
  destruct (c =? 34) eqn:E1; destruct (c =? 38) eqn:E2; destruct (c =? 60) eqn:E3; destruct (c =? 62) eqn:E4;
    try reflexivity; lia.
Qed.

Lemma escape_spec : forall s, escape s = xml_escape s.
Proof.
  induction s as [|c r IH]; [reflexivity|].
  cbn [escape]. rewrite IH, esc1_spec. reflexivity.
Qed.

Lemma xml_escape_cons : forall c r, xml_escape (c :: r) = xml_escape1 c ++ xml_escape r.
Proof. reflexivity. Qed.

Lemma xml_escape_app : forall a b, xml_escape (a ++ b) = xml_escape a ++ xml_escape b.
Proof. intros. unfold xml_escape. apply flat_map_app. Qed.

(* the five shapes of xml_escape1 *)
Lemma xml_escape1_cases : forall c,
  (c = c_lt /\ xml_escape1 c = ent_lt) \/ (c = c_gt /\ xml_escape1 c = ent_gt) \/
  (c = c_amp /\ xml_escape1 c = ent_amp) \/ (c = c_quot /\ xml_escape1 c = ent_quot) \/
  (c <> c_lt /\ c <> c_gt /\ c <> c_amp /\ c <> c_quot /\ xml_escape1 c = [c]).
Proof.
  intro c. unfold xml_escape1.
  destruct (c =? c_lt) eqn:E1; [left; split; [lia|reflexivity]|].
  destruct (c =? c_gt) eqn:E2; [right; left; split; [lia|reflexivity]|].
  destruct (c =? c_amp) eqn:E3; [right; right; left; split; [lia|reflexivity]|].
  destruct (c =? c_quot) eqn:E4; [right; right; right; left; split; [lia|reflexivity]|].
  right; right; right; right. repeat split; try lia.
Qed.

Lemma has_app : forall c a b, has c (a ++ b) = has c a || has c b.
Proof. intros. unfold has. apply existsb_app. Qed.

Lemma has_single : forall c d, c <> d -> has c [d] = false.
Proof. intros. unfold has. cbn. destruct (c =? d) eqn:E; [lia|reflexivity]. Qed.

Lemma escape_no_special : forall s,
  has c_lt (xml_escape s) = false /\ has c_gt (xml_escape s) = false /\ has c_quot (xml_escape s) = false.
Proof.
  induction s as [|c r [IH1 [IH2 IH3]]]; [repeat split; reflexivity|].
  rewrite xml_escape_cons, !has_app, IH1, IH2, IH3, !orb_false_r.
  destruct (xml_escape1_cases c) as [[-> ->]|[[-> ->]|[[-> ->]|[[-> ->]|(N1 & N2 & N3 & N4 & ->)]]]];
    try (repeat split; reflexivity).
  repeat split; apply has_single; congruence.
Qed.

Lemma amps_ok_cons_other : forall c r, c <> c_amp -> amps_ok (c :: r) = amps_ok r.
Proof.
  intros c r N. cbn [amps_ok]. destruct (c =? c_amp) eqn:E; [lia|reflexivity].
Qed.

Lemma escape_amps_ok : forall s, amps_ok (xml_escape s) = true.
Proof.
  induction s as [|c r IH]; [reflexivity|].
  rewrite xml_escape_cons.
  destruct (xml_escape1_cases c) as [[-> ->]|[[-> ->]|[[-> ->]|[[-> ->]|(N1 & N2 & N3 & N4 & ->)]]]].
  - cbn. exact IH.
  - cbn. exact IH.
  - cbn. exact IH.
  - cbn. exact IH.
  - cbn [app]. rewrite amps_ok_cons_other by assumption. exact IH.
Qed.

Lemma unescape_cons_other : forall c r, c <> c_amp -> unescape (c :: r) = option_map (cons c) (unescape r).
Proof.
  intros c r N. cbn [unescape]. destruct (c =? c_amp) eqn:E; [lia|reflexivity].
Qed.

Lemma unescape_escape : forall s, unescape (xml_escape s) = Some s.
Proof.
  induction s as [|c r IH]; [reflexivity|].
  rewrite xml_escape_cons.
  destruct (xml_escape1_cases c) as [[-> ->]|[[-> ->]|[[-> ->]|[[-> ->]|(N1 & N2 & N3 & N4 & ->)]]]].
  - cbn. rewrite IH. reflexivity.
  - cbn. rewrite IH. reflexivity.
  - cbn. rewrite IH. reflexivity.
  - cbn. rewrite IH. reflexivity.
  - cbn [app]. rewrite unescape_cons_other by assumption. rewrite IH. reflexivity.
Qed.

(* the statement of the property, about the escaper of the model *)
Lemma escape_neutralises_proof : forall s,
  has c_lt (escape s) = false /\ has c_gt (escape s) = false /\ has c_quot (escape s) = false /\
  amps_ok (escape s) = true /\ unescape (escape s) = Some s.
Proof.
  intro s. rewrite escape_spec.
  destruct (escape_no_special s) as (A & B & C).
  repeat split; auto using escape_amps_ok, unescape_escape.
Qed.

(* the apostrophe is passed through unchanged (attribute values are always written in double quotes) *)
Lemma escape_keeps_apos : forall s, escape (c_apos :: s) = c_apos :: escape s.
Proof. intro s. rewrite !escape_spec. reflexivity. Qed.

(* ------------------------------------------------------------------------------------ *)
(* B'. the buffer-level escaper (_escape_xml) computes `escape` and stays inside len+1    *)
(* ------------------------------------------------------------------------------------ *)
Definition nul_free (s : bstr) : Prop := ~ In 0 s.

Lemma zlen_app : forall A (a b : list A), zlen (a ++ b) = zlen a + zlen b.
Proof. intros. unfold zlen. rewrite app_length. lia. Qed.
Lemma zlen_cons : forall A (a : A) l, zlen (a :: l) = 1 + zlen l.
Proof. intros. unfold zlen. cbn [length]. lia. Qed.
Lemma zlen_nonneg : forall A (l : list A), 0 <= zlen l.
Proof. intros. unfold zlen. lia. Qed.
Lemma zlen_nil : forall A, zlen (@nil A) = 0.
Proof. reflexivity. Qed.
Lemma zlen_map : forall A B (f : A -> B) l, zlen (map f l) = zlen l.
Proof. intros. unfold zlen. rewrite map_length. reflexivity. Qed.

Lemma zwrite_ok : forall s rest, (length s <= length rest)%nat ->
  zwrite rest s = Some (map Some s ++ skipn (length s) rest).
Proof.
  induction s as [|c s IH]; intros rest H; [reflexivity|].
  destruct rest as [|x rest]; [cbn in H; lia|].
  cbn [zwrite length skipn map app]. rewrite IH by (cbn in H; lia). reflexivity.
Qed.

Lemma zwrite_none : forall s rest, (length rest < length s)%nat -> zwrite rest s = None.
Proof.
  induction s as [|c s IH]; intros rest H; [cbn in H; lia|].
  destruct rest as [|x rest]; [reflexivity|].
  cbn [zwrite]. rewrite IH by (cbn in H; lia). reflexivity.
Qed.

Lemma zadvance_ok : forall n done rest, (n <= length rest)%nat ->
  zadvance n done rest = Some (rev (firstn n rest) ++ done, skipn n rest).
Proof.
  induction n as [|n IH]; intros done rest H; [reflexivity|].
  destruct rest as [|x rest]; [cbn in H; lia|].
  cbn [zadvance firstn skipn rev]. rewrite IH by (cbn in H; lia).
  rewrite <- app_assoc. reflexivity.
Qed.

Lemma esc_tables : forall c,
  match lookup esc_table c with
  | Some ent => lookup esc_adv_table c = Some (zlen ent) /\ lookup esc_len_table c = Some (zlen ent) /\ ~ In 0 ent
  | None => lookup esc_len_table c = None
  end.
Proof.
  intro c.
  destruct Gen_stanza_ok as (E1 & E2 & E3 & _).
  rewrite E3, E2, E1. unfold xml_escape_table, lookup, c_quot, c_amp, c_lt, c_gt. cbn [map fst snd].
  destruct (c =? 34) eqn:Q1; [repeat split; try reflexivity; cbn; intuition lia|].
  destruct (c =? 38) eqn:Q2; [repeat split; try reflexivity; cbn; intuition lia|].
  destruct (c =? 60) eqn:Q3; [repeat split; try reflexivity; cbn; intuition lia|].
  destruct (c =? 62) eqn:Q4; [repeat split; try reflexivity; cbn; intuition lia|].
  reflexivity.
Qed.

Lemma esc_len_spec : forall s acc, esc_len s acc = acc + zlen (escape s).
Proof.
  induction s as [|c r IH]; intro acc; [cbn [esc_len escape]; rewrite zlen_nil; lia|].
  cbn [esc_len escape]. rewrite IH, zlen_app. unfold esc_len1, esc1.
  pose proof (esc_tables c) as T. destruct (lookup esc_table c) as [ent|].
  - destruct T as (_ & -> & _). lia.
  - rewrite T. rewrite zlen_cons, zlen_nil. lia.
Qed.

Lemma escape_nul_free : forall s, nul_free s -> nul_free (escape s).
Proof.
  unfold nul_free. induction s as [|c r IH]; intro H; [exact H|].
  cbn [escape]. rewrite in_app_iff. intros [A|A].
  - unfold esc1 in A. pose proof (esc_tables c) as T. destruct (lookup esc_table c) as [ent|].
    + destruct T as (_ & _ & T). auto.
    + cbn in A. destruct A as [A|[]]. apply H. left. exact A.
  - apply IH; [|exact A]. intro B. apply H. right. exact B.
Qed.

Lemma esc_fill_ok : forall s done rest, (length (escape s) + 1 <= length rest)%nat ->
  exists rest', esc_fill s done rest = Some (rev (map Some (escape s)) ++ done, rest') /\
                length rest' = (length rest - length (escape s))%nat.
Proof.
  induction s as [|c r IH]; intros done rest H.
  - exists rest. split; [reflexivity|cbn; lia].
  - cbn [esc_fill escape]. cbn [escape] in H. rewrite app_length in H.
    unfold esc1 in *. pose proof (esc_tables c) as T.
    destruct (lookup esc_table c) as [ent|].
    + destruct T as (-> & _ & _).
      rewrite zwrite_ok by (rewrite app_length; cbn [length]; lia).
      unfold zlen. rewrite Nat2Z.id.
      rewrite map_app, <- app_assoc.
      rewrite zadvance_ok by (rewrite app_length, map_length; lia).
      rewrite firstn_app, map_length, Nat.sub_diag, firstn_O, app_nil_r.
      rewrite firstn_all2 by (rewrite map_length; lia).
      rewrite skipn_app, map_length, Nat.sub_diag, skipn_O.
      rewrite skipn_all2 by (rewrite map_length; lia). cbn [app map].
      destruct (IH (rev (map Some ent) ++ done) (Some 0 :: skipn (length (ent ++ [0])) rest)) as (rest' & E & L).
      { cbn [length]. rewrite skipn_length, app_length. cbn [length]. lia. }
      exists rest'. split.
      * rewrite E. rewrite map_app, rev_app_distr, <- app_assoc. reflexivity.
      * rewrite L. cbn [length]. rewrite skipn_length, !app_length. cbn [length]. lia.
    + cbn [length] in H.
      destruct rest as [|x rest]; [cbn [length] in H; lia|].
      cbn [zwrite zadvance].
      destruct (IH (Some c :: done) rest) as (rest' & E & L).
      { cbn [length] in H. lia. }
      exists rest'. split.
      * rewrite E. cbn [map rev app]. rewrite <- app_assoc. reflexivity.
      * rewrite L. cbn [app length]. lia.
Qed.

Lemma cstring_prefix : forall s rest, nul_free s -> cstring (map Some s ++ Some 0 :: rest) = Some s.
Proof.
  unfold nul_free. induction s as [|c s IH]; intros rest H; [reflexivity|].
  cbn [map app cstring]. destruct (c =? 0) eqn:E.
  - exfalso. apply H. left. lia.
  - rewrite IH; [reflexivity|]. intro A. apply H. right. exact A.
Qed.

Lemma escape_xml_ok : forall s, nul_free s -> escape_xml s = EOk (escape s).
Proof.
  intros s H. unfold escape_xml. rewrite esc_len_spec.
  destruct (esc_fill_ok s [] (repeat None (Z.to_nat (0 + zlen (escape s) + 1)))) as (rest' & E & L).
  { rewrite repeat_length. unfold zlen. lia. }
  rewrite E. rewrite repeat_length in L.
  destruct rest' as [|x rest']; [cbn in L; unfold zlen in L; lia|].
  cbn [zwrite]. rewrite app_nil_r, rev_append_rev, rev_involutive.
  rewrite cstring_prefix by (apply escape_nul_free; exact H). reflexivity.
Qed.

(* ==================================================================================== *)
(* C. the bounded two-pass renderer equals the ideal renderer                            *)
(* ==================================================================================== *)
Definition blitz (buf : cells) (p : Z) (s : bstr) : cells :=
  firstn (Z.to_nat p) buf ++ map Some s ++ skipn (Z.to_nat p + length s) buf.

Lemma wr_at_ok : forall n buf s, (n + length s <= length buf)%nat ->
  wr_at n buf s = Some (firstn n buf ++ map Some s ++ skipn (n + length s) buf).
Proof.
  induction n as [|n IH]; intros buf s H.
  - cbn [wr_at firstn app plus]. apply zwrite_ok. lia.
  - destruct buf as [|x buf]; [cbn in H; lia|].
    cbn [wr_at firstn app plus skipn]. rewrite IH by (cbn in H; lia). reflexivity.
Qed.

Lemma wr_bytes_ok : forall buf p s, 0 <= p -> p + zlen s <= zlen buf ->
  wr_bytes buf p s = Some (blitz buf p s).
Proof.
  intros buf p s H1 H2. unfold wr_bytes, blitz.
  destruct (p <? 0) eqn:E; [lia|].
  apply wr_at_ok. unfold zlen in H2. lia.
Qed.

Lemma blitz_length : forall buf p s, 0 <= p -> p + zlen s <= zlen buf -> zlen (blitz buf p s) = zlen buf.
Proof.
  intros buf p s H1 H2. unfold blitz, zlen in *.
  rewrite !app_length, map_length, firstn_length, skipn_length. lia.
Qed.

Lemma skipn_skipn' : forall A x y (l : list A), skipn x (skipn y l) = skipn (y + x) l.
Proof.
  intros A x y. induction y as [|y IH]; intro l; [reflexivity|].
  destruct l as [|a l]; [cbn; destruct x; reflexivity|]. cbn [skipn plus]. apply IH.
Qed.

Lemma blitz_blitz : forall buf p a c d, 0 <= p -> p + zlen a + zlen d <= zlen buf ->
  (length c <= length d)%nat ->
  blitz (blitz buf p (a ++ c)) (p + zlen a) d = blitz buf p (a ++ d).
Proof.
  intros buf p a c d H1 H2 H3. unfold blitz, zlen in *.
  set (n := Z.to_nat p).
  replace (Z.to_nat (p + Z.of_nat (length a))) with (n + length a)%nat by lia.
  assert (Hn : length (firstn n buf) = n) by (rewrite firstn_length; lia).
  rewrite !map_app.
  (* the prefix *)
  replace (firstn (n + length a) (firstn n buf ++ (map Some a ++ map Some c) ++ skipn (n + length (a ++ c)) buf))
    with (firstn n buf ++ map Some a).
  2:{ rewrite <- Hn at 2. rewrite firstn_app_2. f_equal.
      rewrite <- app_assoc.
      replace (length a) with (length (map (@Some Z) a) + 0)%nat at 1 by (rewrite map_length; lia).
      rewrite firstn_app_2, firstn_O, app_nil_r. reflexivity. }
  (* the suffix *)
  replace (skipn (n + length a + length d) (firstn n buf ++ (map Some a ++ map Some c) ++ skipn (n + length (a ++ c)) buf))
    with (skipn (n + length (a ++ d)) buf).
  2:{ rewrite !app_length.
      rewrite skipn_app, Hn.
      rewrite (skipn_all2 (firstn n buf)) by lia. cbn [app].
      rewrite skipn_app, app_length, !map_length.
      rewrite (skipn_all2 (map Some a ++ map Some c)) by (rewrite app_length, !map_length; lia). cbn [app].
      rewrite skipn_skipn'. f_equal. lia. }
  rewrite <- !app_assoc. reflexivity.
Qed.

Definition bnd (buf : cells) (ptr : option Z) (buflen : Z) : Prop :=
  0 <= buflen < 18446744073709551616 /\
  (buflen = 0 \/ exists p, ptr = Some p /\ 0 <= p /\ p + buflen <= zlen buf).

Definition sn_buf (buf0 : cells) (ptr0 : option Z) (buflen : Z) (a : bstr) : cells :=
  if buflen =? 0 then buf0
  else match ptr0 with
       | Some p => blitz buf0 p (firstn (Z.to_nat (Z.min (buflen - 1) (zlen a))) a ++ [0])
       | None => buf0
       end.

Lemma firstn_zlen_le : forall (a : bstr) k, 0 <= k -> zlen (firstn (Z.to_nat k) a) = Z.min k (zlen a).
Proof. intros. unfold zlen. rewrite firstn_length. lia. Qed.

Lemma snprintf_ok : forall buf0 ptr0 buflen a, bnd buf0 ptr0 buflen ->
  snprintf buf0 ptr0 buflen a = ROk (sn_buf buf0 ptr0 buflen a, zlen a).
Proof.
  intros buf0 ptr0 buflen a (B1 & B2). unfold snprintf, sn_buf.
  destruct (buflen =? 0) eqn:E; [reflexivity|].
  destruct B2 as [B2|(p & -> & P1 & P2)]; [lia|].
  pose proof (zlen_nonneg _ a).
  rewrite wr_bytes_ok; [reflexivity|lia|].
  rewrite zlen_app, firstn_zlen_le by lia. rewrite zlen_cons, zlen_nil. lia.
Qed.

Lemma sn_buf_length : forall buf0 ptr0 buflen a, bnd buf0 ptr0 buflen ->
  zlen (sn_buf buf0 ptr0 buflen a) = zlen buf0.
Proof.
  intros buf0 ptr0 buflen a (B1 & B2). unfold sn_buf.
  destruct (buflen =? 0) eqn:E; [reflexivity|].
  destruct B2 as [B2|(p & -> & P1 & P2)]; [lia|].
  pose proof (zlen_nonneg _ a).
  apply blitz_length; [lia|].
  rewrite zlen_app, firstn_zlen_le by lia. rewrite zlen_cons, zlen_nil. lia.
Qed.

(* the renderer's state after the strings emitted so far concatenate to a *)
Definition st_after (buf0 : cells) (ptr0 : option Z) (buflen : Z) (a : bstr) : rstate :=
  if buflen <=? zlen a then mkR (sn_buf buf0 ptr0 buflen a) None 0 (zlen a)
  else mkR (sn_buf buf0 ptr0 buflen a) (option_map (fun p => p + zlen a) ptr0) (buflen - zlen a) (zlen a).

Lemma st_after_written : forall b p l a, r_written (st_after b p l a) = zlen a.
Proof. intros. unfold st_after. destruct (l <=? zlen a); reflexivity. Qed.
Lemma st_after_buf : forall b p l a, r_buf (st_after b p l a) = sn_buf b p l a.
Proof. intros. unfold st_after. destruct (l <=? zlen a); reflexivity. Qed.

Lemma st_after_bnd : forall buf0 ptr0 buflen a, bnd buf0 ptr0 buflen ->
  bnd (r_buf (st_after buf0 ptr0 buflen a)) (r_ptr (st_after buf0 ptr0 buflen a)) (r_left (st_after buf0 ptr0 buflen a)).
Proof.
  intros buf0 ptr0 buflen a B. pose proof (sn_buf_length buf0 ptr0 buflen a B) as L.
  destruct B as (B1 & B2). pose proof (zlen_nonneg _ a).
  unfold st_after. destruct (buflen <=? zlen a) eqn:E; cbn [r_buf r_ptr r_left].
  - split; [lia|left; reflexivity].
  - split; [lia|]. right. destruct B2 as [B2|(p & -> & P1 & P2)]; [lia|].
    exists (p + zlen a). cbn [option_map]. repeat split; lia.
Qed.

Lemma emit_first : forall buf0 ptr0 buflen s, bnd buf0 ptr0 buflen ->
  emit buflen (mkR buf0 ptr0 buflen 0) s = ROk (st_after buf0 ptr0 buflen s).
Proof.
  intros buf0 ptr0 buflen s B. unfold emit. cbn [r_buf r_ptr r_left].
  rewrite snprintf_ok by exact B. unfold render_update, st_after. cbn [r_written r_ptr r_left].
  rewrite Z.add_0_l. destruct B as (B1 & _). pose proof (zlen_nonneg _ s).
  destruct (buflen <=? zlen s) eqn:E; [reflexivity|].
  rewrite Z.mod_small by lia. reflexivity.
Qed.

Lemma firstn_app_min : forall (a s : bstr) k, (length a <= k)%nat ->
  firstn k (a ++ s) = a ++ firstn (k - length a) s.
Proof.
  intros a s k H. rewrite firstn_app. rewrite firstn_all2 by lia. reflexivity.
Qed.

Lemma emit_next : forall buf0 ptr0 buflen a s, bnd buf0 ptr0 buflen ->
  emit buflen (st_after buf0 ptr0 buflen a) s = ROk (st_after buf0 ptr0 buflen (a ++ s)).
Proof.
  intros buf0 ptr0 buflen a s B.
  pose proof (st_after_bnd buf0 ptr0 buflen a B) as B'.
  unfold emit. rewrite snprintf_ok by exact B'. clear B'.
  destruct B as (B1 & B2). pose proof (zlen_nonneg _ a). pose proof (zlen_nonneg _ s).
  unfold render_update.
  destruct (buflen <=? zlen a) eqn:E.
  - (* exhausted: nothing is written any more *)
    assert (S1 : st_after buf0 ptr0 buflen a = mkR (sn_buf buf0 ptr0 buflen a) None 0 (zlen a))
      by (unfold st_after; rewrite E; reflexivity).
    rewrite S1. cbn [r_buf r_ptr r_left r_written].
    unfold st_after. rewrite zlen_app.
    destruct (buflen <=? zlen a + zlen s) eqn:E2; [|lia].
    do 2 f_equal.
    unfold sn_buf at 1. cbn [Z.eqb].
    unfold sn_buf. destruct (buflen =? 0) eqn:E3; [reflexivity|].
    destruct ptr0 as [p|]; [|reflexivity].
    f_equal. f_equal.
    rewrite zlen_app.
    replace (Z.min (buflen - 1) (zlen a + zlen s)) with (buflen - 1) by lia.
    replace (Z.min (buflen - 1) (zlen a)) with (buflen - 1) by lia.
    rewrite firstn_app.
    replace (Z.to_nat (buflen - 1) - length a)%nat with 0%nat by (unfold zlen in *; lia).
    rewrite firstn_O, app_nil_r. reflexivity.
  - destruct B2 as [B2|(p & -> & P1 & P2)]; [lia|].
    assert (S1 : st_after buf0 (Some p) buflen a
                 = mkR (sn_buf buf0 (Some p) buflen a) (Some (p + zlen a)) (buflen - zlen a) (zlen a))
      by (unfold st_after; rewrite E; reflexivity).
    rewrite S1. cbn [r_buf r_ptr r_left r_written].
    assert (Hbuf : sn_buf (sn_buf buf0 (Some p) buflen a) (Some (p + zlen a)) (buflen - zlen a) s
                   = sn_buf buf0 (Some p) buflen (a ++ s)).
    { unfold sn_buf. destruct (buflen =? 0) eqn:E3; [lia|].
      destruct (buflen - zlen a =? 0) eqn:E4; [lia|].
      replace (Z.min (buflen - 1) (zlen a)) with (zlen a) by lia.
      replace (firstn (Z.to_nat (zlen a)) a) with a
        by (symmetry; apply firstn_all2; unfold zlen; lia).
      rewrite blitz_blitz.
      - f_equal. rewrite zlen_app.
        rewrite firstn_app_min by (unfold zlen in *; lia).
        rewrite <- app_assoc. f_equal. f_equal. f_equal. unfold zlen in *. lia.
      - lia.
      - rewrite zlen_app, firstn_zlen_le by lia. rewrite zlen_cons, zlen_nil. lia.
      - rewrite app_length. cbn [length]. lia. }
    rewrite Hbuf.
    unfold st_after. rewrite zlen_app.
    destruct (buflen <=? zlen a + zlen s) eqn:E2; [reflexivity|].
    rewrite Z.mod_small by lia. cbn [option_map].
    f_equal. f_equal; [f_equal; lia|lia].
Qed.

Lemma st_after_done : forall buf0 ptr0 buflen a, bnd buf0 ptr0 buflen ->
  ROk (r_buf (st_after buf0 ptr0 buflen a), r_written (st_after buf0 ptr0 buflen a))
  = snprintf buf0 ptr0 buflen a.
Proof.
  intros. rewrite snprintf_ok by assumption. rewrite st_after_buf, st_after_written. reflexivity.
Qed.

(* induction over trees with the hypothesis for every child *)
Fixpoint tree_ind2 (P : tree -> Prop) (HU : P Unk) (HT : forall s, P (Text s))
  (HG : forall name a cs, Forall P cs -> P (Tag name a cs)) (t : tree) {struct t} : P t :=
  match t with
  | Unk => HU
  | Text s => HT s
  | Tag name a cs =>
      HG name a cs ((fix go (l : list tree) : Forall P l :=
                       match l with
                       | [] => Forall_nil P
                       | x :: r => Forall_cons x (tree_ind2 P HU HT HG x) (go r)
                       end) cs)
  end.

(* what the renderer needs of a tree: every node is typed, text and attribute values are C strings,
   and every key enumerated by the iterator is found again by hash_get (true of every table the API
   builds, see attrs_built_found below) *)
Definition attrs_renderable (a : attrs) : Prop :=
  match a with
  | None => True
  | Some h => forall k, In k (hash_keys h) -> exists v, hash_get h k = Some v /\ nul_free v
  end.

Inductive renderable : tree -> Prop :=
| rn_text : forall s, nul_free s -> renderable (Text s)
| rn_tag : forall name a cs, attrs_renderable a -> Forall renderable cs -> renderable (Tag name a cs).

Definition render_children (c : pctx) := render_list (render_rec c).

Lemma render_rec_tag : forall c name a cs buf ptr buflen,
  render_rec c (Tag name a cs) buf ptr buflen =
  rbind (emit buflen (mkR buf ptr buflen 0) (format fmt_open [name])) (fun st1 =>
  rbind (match a with
         | Some h => if 0 <? hash_num_keys h then render_attrs c h (hash_keys h) buflen st1 else ROk st1
         | None => ROk st1
         end) (fun st2 =>
  match cs with
  | [] => rbind (emit buflen st2 fmt_empty) rdone
  | _ :: _ =>
      rbind (emit buflen st2 fmt_gt) (fun st3 =>
      rbind (render_children (child_ctx a) cs buflen st3) (fun st4 =>
      rbind (emit buflen st4 (format fmt_close [name])) rdone))
  end)).
Proof.
  intros. destruct cs; reflexivity.
Qed.

Lemma render_children_cons : forall c ch r buflen st,
  render_children c (ch :: r) buflen st =
  match render_rec c ch (r_buf st) (r_ptr st) (r_left st) with
  | ROk (b, ret) => render_children c r buflen (render_update st buflen ret b)
  | RErr e => RErr e | ROOB => ROOB | RCrash => RCrash | RUninit => RUninit
  end.
Proof. reflexivity. Qed.

Lemma render_attrs_ok : forall c h buf0 ptr0 buflen keys acc,
  bnd buf0 ptr0 buflen ->
  (forall k, In k keys -> exists v, hash_get h k = Some v /\ nul_free v) ->
  render_attrs c h keys buflen (st_after buf0 ptr0 buflen acc)
  = ROk (st_after buf0 ptr0 buflen (acc ++ flat_map (attr_chunk c h) keys)).
Proof.
  intros c h buf0 ptr0 buflen keys. induction keys as [|k r IH]; intros acc B H.
  - cbn [render_attrs flat_map]. rewrite app_nil_r. reflexivity.
  - cbn [render_attrs flat_map]. unfold attr_chunk at 1.
    destruct (H k (or_introl eq_refl)) as (v & -> & NV).
    destruct (elide_xmlns c k v).
    + cbn [app]. apply IH; [exact B|]. intros k' Hk. apply H. right. exact Hk.
    + unfold emit_escaped. rewrite escape_xml_ok by exact NV.
      rewrite emit_next by exact B. cbn [rbind app].
      rewrite IH; [|exact B|intros k' Hk; apply H; right; exact Hk].
      rewrite <- app_assoc. reflexivity.
Qed.

Lemma render_children_ok : forall c buf0 ptr0 buflen cs acc,
  bnd buf0 ptr0 buflen ->
  Forall (fun t => forall c buf ptr buflen, renderable t -> bnd buf ptr buflen ->
                   render_rec c t buf ptr buflen = snprintf buf ptr buflen (render c t)) cs ->
  Forall renderable cs ->
  render_children c cs buflen (st_after buf0 ptr0 buflen acc)
  = ROk (st_after buf0 ptr0 buflen (acc ++ flat_map (render c) cs)).
Proof.
  intros c buf0 ptr0 buflen cs. induction cs as [|ch r IH]; intros acc B HI HR.
  - cbn [flat_map]. rewrite app_nil_r. reflexivity.
  - inversion HI as [|? ? I1 I2]; subst. inversion HR as [|? ? R1 R2]; subst.
    rewrite render_children_cons. cbn [flat_map].
    rewrite I1 by (auto using st_after_bnd).
    pose proof (emit_next buf0 ptr0 buflen acc (render c ch) B) as E.
    unfold emit in E.
    destruct (snprintf (r_buf (st_after buf0 ptr0 buflen acc)) (r_ptr (st_after buf0 ptr0 buflen acc))
                (r_left (st_after buf0 ptr0 buflen acc)) (render c ch)) as [[b ret]| | | |]; try discriminate.
    injection E as E. rewrite E.
    rewrite IH by assumption. rewrite <- app_assoc. reflexivity.
Qed.

Lemma render_rec_is_snprintf : forall t c buf ptr buflen,
  renderable t -> bnd buf ptr buflen ->
  render_rec c t buf ptr buflen = snprintf buf ptr buflen (render c t).
Proof.
  induction t as [|s|name a cs IH] using tree_ind2; intros c buf ptr buflen R B.
  - inversion R.
  - inversion R as [s' NS|]; subst.
    cbn [render_rec render]. unfold emit_escaped. rewrite escape_xml_ok by exact NS.
    cbn [app]. rewrite emit_first by exact B. cbn [rbind].
    apply st_after_done. exact B.
  - inversion R as [|name' a' cs' RA RC]; subst.
    rewrite render_rec_tag. rewrite emit_first by exact B. cbn [rbind].
    cbn [render].
    set (a0 := format fmt_open [name]).
    set (ach := match a with Some h => flat_map (attr_chunk c h) (hash_keys h) | None => [] end).
    assert (EA : (match a with
                  | Some h => if 0 <? hash_num_keys h
                              then render_attrs c h (hash_keys h) buflen (st_after buf ptr buflen a0)
                              else ROk (st_after buf ptr buflen a0)
                  | None => ROk (st_after buf ptr buflen a0)
                  end) = ROk (st_after buf ptr buflen (a0 ++ ach))).
    { subst ach. destruct a as [h|]; [|rewrite app_nil_r; reflexivity].
      destruct (0 <? hash_num_keys h) eqn:E.
      - apply render_attrs_ok; [exact B|exact RA].
      - unfold hash_num_keys, hash_keys in *.
        destruct (hash_items h) as [|x l]; [cbn [map flat_map]; rewrite app_nil_r; reflexivity|].
        rewrite zlen_cons in E. pose proof (zlen_nonneg _ l). lia. }
    rewrite EA. cbn [rbind].
    destruct cs as [|ch cs'].
    + rewrite emit_next by exact B. cbn [rbind]. unfold rdone.
      rewrite st_after_done by exact B. rewrite <- app_assoc. reflexivity.
    + rewrite emit_next by exact B. cbn [rbind].
      rewrite render_children_ok by assumption. cbn [rbind].
      rewrite emit_next by exact B. cbn [rbind]. unfold rdone.
      rewrite st_after_done by exact B. rewrite <- !app_assoc. reflexivity.
Qed.

Lemma init_buf_range : 0 < stanza_init_buf < 2147483648.
Proof. split; reflexivity. Qed.

Lemma zlen_repeat : forall A (x : A) n, zlen (repeat x n) = Z.of_nat n.
Proof. intros. unfold zlen. rewrite repeat_length. reflexivity. Qed.

Lemma wr_last_keeps : forall (pre : cells) x tl p,
  zlen pre <= p < zlen (pre ++ x :: tl) -> (p = zlen pre -> x = Some 0) ->
  exists tl', wr_bytes (pre ++ x :: tl) p [0] = Some (pre ++ x :: tl') /\ length tl' = length tl.
Proof.
  intros pre x tl p H1 H2. pose proof (zlen_nonneg _ pre).
  rewrite wr_bytes_ok by (rewrite ?zlen_cons, ?zlen_nil; lia).
  unfold blitz. cbn [map length].
  rewrite zlen_app, zlen_cons in H1. unfold zlen in *.
  destruct (Z.eq_dec p (Z.of_nat (length pre))) as [E|E].
  - exists tl. split; [|reflexivity]. rewrite (H2 E).
    replace (Z.to_nat p) with (length pre + 0)%nat by lia.
    rewrite firstn_app_2, firstn_O, app_nil_r.
    rewrite skipn_app. rewrite skipn_all2 by lia.
    replace (length pre + 0 + 1 - length pre)%nat with 1%nat by lia. reflexivity.
  - set (k := (Z.to_nat p - length pre - 1)%nat).
    exists (firstn k tl ++ Some 0 :: skipn (S k) tl). split.
    + replace (Z.to_nat p) with (length pre + S k)%nat by lia.
      rewrite firstn_app_2. cbn [firstn].
      rewrite skipn_app. rewrite skipn_all2 by lia.
      replace (length pre + S k + 1 - length pre)%nat with (S (S k)) by lia.
      cbn [skipn app]. rewrite <- !app_assoc. reflexivity.
    + rewrite app_length. cbn [length]. rewrite firstn_length, skipn_length. lia.
Qed.

Lemma to_text_correct : forall c t, renderable t -> zlen (render c t) < 2147483648 ->
  exists rest,
    to_text c t = TOk (map Some (render c t) ++ Some 0 :: rest) (zlen (render c t)) /\
    zlen rest = Z.max stanza_init_buf (zlen (render c t) + 1) - (zlen (render c t) + 1).
Proof.
  intros c t R HL. pose proof init_buf_range as HI.
  set (r := render c t) in *. pose proof (zlen_nonneg _ r) as Hr.
  unfold to_text.
  assert (B1 : bnd (repeat None (Z.to_nat stanza_init_buf)) (Some 0) stanza_init_buf).
  { split; [lia|]. right. exists 0. rewrite zlen_repeat. repeat split; lia. }
  rewrite render_rec_is_snprintf by assumption. fold r.
  rewrite snprintf_ok by exact B1.
  destruct (stanza_init_buf - 1 <? zlen r) eqn:E.
  - (* second pass with exactly zlen r + 1 bytes *)
    set (b1 := sn_buf (repeat None (Z.to_nat stanza_init_buf)) (Some 0) stanza_init_buf r).
    assert (L2 : zlen (realloc b1 (zlen r + 1)) = zlen r + 1).
    { unfold realloc, zlen. rewrite app_length, firstn_length, repeat_length.
      assert (zlen b1 = stanza_init_buf).
      { unfold b1. rewrite sn_buf_length by exact B1. rewrite zlen_repeat. lia. }
      unfold zlen in *. lia. }
    assert (B2 : bnd (realloc b1 (zlen r + 1)) (Some 0) (zlen r + 1)).
    { split; [lia|]. right. exists 0. repeat split; lia. }
    rewrite render_rec_is_snprintf by assumption. fold r.
    rewrite snprintf_ok by exact B2.
    destruct (zlen r + 1 - 1 <? zlen r) eqn:E2; [lia|].
    exists []. split; [|rewrite zlen_nil; lia].
    unfold sn_buf. destruct (zlen r + 1 =? 0) eqn:E3; [lia|].
    replace (Z.min (zlen r + 1 - 1) (zlen r)) with (zlen r) by lia.
    rewrite (firstn_all2 r) by (unfold zlen; lia).
    assert (EB : blitz (realloc b1 (zlen r + 1)) 0 (r ++ [0]) = map Some r ++ [Some 0]).
    { unfold blitz. cbn [Z.to_nat firstn app plus].
      rewrite skipn_all2 by (rewrite app_length; cbn [length]; unfold zlen in *; lia).
      rewrite app_nil_r, map_app. reflexivity. }
    rewrite EB. unfold tt_finish.
    destruct (wr_last_keeps (map Some r) (Some 0) [] (zlen r + 1 - 1)) as (tl' & W & LT).
    { rewrite zlen_map, zlen_app, zlen_map, zlen_cons, zlen_nil. lia. }
    { reflexivity. }
    rewrite W. destruct tl'; [reflexivity|discriminate].
  - (* the first buffer was large enough *)
    unfold sn_buf. destruct (stanza_init_buf =? 0) eqn:E3; [lia|].
    replace (Z.min (stanza_init_buf - 1) (zlen r)) with (zlen r) by lia.
    rewrite (firstn_all2 r) by (unfold zlen; lia).
    unfold blitz. cbn [Z.to_nat firstn app plus]. rewrite map_app. rewrite <- app_assoc. cbn [map app].
    set (tl := skipn (length (r ++ [0])) (repeat None (Z.to_nat stanza_init_buf))).
    assert (LT : zlen tl = stanza_init_buf - (zlen r + 1)).
    { unfold tl, zlen. rewrite skipn_length, repeat_length, app_length. cbn [length]. unfold zlen in *. lia. }
    unfold tt_finish.
    destruct (wr_last_keeps (map Some r) (Some 0) tl (stanza_init_buf - 1)) as (tl' & W & LT').
    { rewrite zlen_map, zlen_app, zlen_map, zlen_cons. pose proof (zlen_nonneg _ tl). lia. }
    { reflexivity. }
    rewrite W. exists tl'. split; [reflexivity|].
    unfold zlen in *. lia.
Qed.

(* what the caller sees: the C string in the returned allocation is the full rendering *)
Lemma to_text_cstring : forall c t buf len, renderable t -> zlen (render c t) < 2147483648 ->
  nul_free (render c t) -> to_text c t = TOk buf len ->
  cstring buf = Some (render c t) /\ len = zlen (render c t).
Proof.
  intros c t buf len R HL NF H.
  destruct (to_text_correct c t R HL) as (rest & E & _).
  rewrite E in H. injection H as <- <-.
  split; [apply cstring_prefix; exact NF|reflexivity].
Qed.

(* ==================================================================================== *)
(* D. the attribute table                                                               *)
(* ==================================================================================== *)
Lemma beq_true_iff : forall a b, beq a b = true <-> a = b.
Proof.
  induction a as [|x a IH]; destruct b as [|y b]; cbn [beq]; split; intro H; try congruence; try discriminate.
  - apply andb_true_iff in H. destruct H as [H1 H2]. apply IH in H2. f_equal; [lia|exact H2].
  - injection H as -> ->. apply andb_true_iff. split; [lia|apply IH; reflexivity].
Qed.
Lemma beq_refl : forall a, beq a a = true.
Proof. intro. apply beq_true_iff. reflexivity. Qed.
Lemma beq_false_iff : forall a b, beq a b = false <-> a <> b.
Proof.
  intros. destruct (beq a b) eqn:E.
  - apply beq_true_iff in E. split; [discriminate|congruence].
  - split; [|reflexivity]. intros _ H. apply beq_true_iff in H. congruence.
Qed.
Lemma beq_sym : forall a b, beq a b = beq b a.
Proof.
  intros. destruct (beq a b) eqn:E1; destruct (beq b a) eqn:E2; try reflexivity.
  - apply beq_true_iff in E1. subst. rewrite beq_refl in E2. discriminate.
  - apply beq_true_iff in E2. subst. rewrite beq_refl in E1. discriminate.
Qed.

Lemma set_nth_length : forall A n (l : list A) x, length (set_nth n l x) = length l.
Proof.
  intros A n l. revert n. induction l as [|y l IH]; intros n x; [destruct n; reflexivity|].
  destruct n; cbn [set_nth length]; [reflexivity|]. rewrite IH. reflexivity.
Qed.
Lemma nth_set_nth_same : forall A n (l : list A) x d, (n < length l)%nat -> nth n (set_nth n l x) d = x.
Proof.
  intros A n l. revert n. induction l as [|y l IH]; intros n x d H; [cbn in H; lia|].
  destruct n; cbn [set_nth nth]; [reflexivity|]. apply IH. cbn in H. lia.
Qed.
Lemma nth_set_nth_other : forall A n m (l : list A) x d, n <> m -> nth m (set_nth n l x) d = nth m l d.
Proof.
  intros A n m l. revert n m. induction l as [|y l IH]; intros n m x d H; [destruct n; reflexivity|].
  destruct n; destruct m; cbn [set_nth nth]; try reflexivity; try congruence. apply IH. congruence.
Qed.

(* well-formed tables: the bucket array has h_len > 0 chains, every entry sits in the bucket of its
   key, keys are distinct within a chain *)
Definition htable_ok (t : htable) : Prop :=
  0 < h_len t /\ length (h_entries t) = Z.to_nat (h_len t) /\
  forall i, (i < length (h_entries t))%nat ->
    NoDup (map fst (nth i (h_entries t) [])) /\
    forall k v, In (k, v) (nth i (h_entries t) []) -> hash_key t k = Z.of_nat i.

Lemma hash_key_range : forall t k, 0 < h_len t -> 0 <= hash_key t k < h_len t.
Proof. intros. unfold hash_key. apply Z.mod_pos_bound. assumption. Qed.

Lemma hash_key_idx : forall t k, htable_ok t -> (Z.to_nat (hash_key t k) < length (h_entries t))%nat.
Proof. intros t k (H1 & H2 & _). pose proof (hash_key_range t k H1). lia. Qed.

Lemma hash_new_ok : forall n, 0 < n -> htable_ok (hash_new n).
Proof.
  intros n H. unfold hash_new, htable_ok. cbn [h_len h_entries]. rewrite repeat_length.
  split; [exact H|]. split; [reflexivity|].
  intros i Hi. rewrite nth_repeat. split; [constructor|]. intros k v [].
Qed.

Lemma hash_get_new : forall n k, hash_get (hash_new n) k = None.
Proof.
  intros. unfold hash_get, bucket, hash_new. cbn [h_entries]. rewrite nth_repeat. reflexivity.
Qed.

Lemma chain_find_some_in : forall ch k v, chain_find ch k = Some v -> In (k, v) ch.
Proof.
  induction ch as [|[k' v'] ch IH]; intros k v H; [discriminate|].
  cbn [chain_find] in H. destruct (beq k k') eqn:E.
  - apply beq_true_iff in E. injection H as ->. subst. left. reflexivity.
  - right. apply IH. exact H.
Qed.
Lemma chain_find_none_notin : forall ch k, chain_find ch k = None -> ~ In k (map fst ch).
Proof.
  induction ch as [|[k' v'] ch IH]; intros k H; [intros []|].
  cbn [chain_find] in H. destruct (beq k k') eqn:E; [discriminate|].
  apply beq_false_iff in E. cbn [map fst]. intros [A|A]; [congruence|]. exact (IH k H A).
Qed.
Lemma chain_find_in : forall ch k v, NoDup (map fst ch) -> In (k, v) ch -> chain_find ch k = Some v.
Proof.
  induction ch as [|[k' v'] ch IH]; intros k v ND H; [destruct H|].
  cbn [map fst] in ND. inversion ND as [|? ? N1 N2]; subst.
  cbn [chain_find]. destruct H as [H|H].
  - injection H as -> ->. rewrite beq_refl. reflexivity.
  - destruct (beq k k') eqn:E.
    + apply beq_true_iff in E. subst. exfalso. apply N1. apply in_map_iff. exists (k', v). split; [reflexivity|exact H].
    + apply IH; assumption.
Qed.

Lemma chain_replace_find : forall ch k v k',
  chain_find (chain_replace ch k v) k' =
  if beq k' k then match chain_find ch k with Some _ => Some v | None => None end else chain_find ch k'.
Proof.
  induction ch as [|[k0 v0] ch IH]; intros k v k'.
  - cbn. destruct (beq k' k); reflexivity.
  - cbn [chain_replace chain_find]. destruct (beq k k0) eqn:E.
    + apply beq_true_iff in E. subst k0. cbn [chain_find]. destruct (beq k' k); reflexivity.
    + cbn [chain_find]. rewrite IH. destruct (beq k' k0) eqn:E2; [|reflexivity].
      apply beq_true_iff in E2. subst k0.
      destruct (beq k' k) eqn:E3; [|reflexivity].
      apply beq_true_iff in E3. subst. rewrite beq_refl in E. discriminate.
Qed.
Lemma chain_replace_keys : forall ch k v, map fst (chain_replace ch k v) = map fst ch.
Proof.
  induction ch as [|[k0 v0] ch IH]; intros k v; [reflexivity|].
  cbn [chain_replace]. destruct (beq k k0); cbn [map fst]; [reflexivity|]. rewrite IH. reflexivity.
Qed.
Lemma chain_replace_in : forall ch k v k1 v1, In (k1, v1) (chain_replace ch k v) ->
  In k1 (map fst ch).
Proof.
  intros. rewrite <- (chain_replace_keys ch k v). apply in_map_iff. exists (k1, v1). split; [reflexivity|assumption].
Qed.

Lemma bucket_set_same : forall t i ch, (i < length (h_entries t))%nat ->
  nth i (set_nth i (h_entries t) ch) [] = ch.
Proof. intros. apply nth_set_nth_same. assumption. Qed.

Lemma hash_key_mk : forall t e k, hash_key (mkH (h_len t) e) k = hash_key t k.
Proof. reflexivity. Qed.

Lemma hash_get_add : forall t k v k', htable_ok t ->
  hash_get (hash_add t k v) k' = if beq k' k then Some v else hash_get t k'.
Proof.
  intros t k v k' OK. pose proof (hash_key_idx t k OK) as Hi.
  unfold hash_add, hash_get at 1. unfold bucket.
  destruct (chain_find (nth (Z.to_nat (hash_key t k)) (h_entries t) []) k) eqn:F;
    cbn [h_entries]; rewrite hash_key_mk.
  - destruct (Nat.eq_dec (Z.to_nat (hash_key t k)) (Z.to_nat (hash_key t k'))) as [E|E].
    + rewrite <- E. rewrite nth_set_nth_same by exact Hi. rewrite chain_replace_find, F.
      destruct (beq k' k); [reflexivity|]. unfold hash_get, bucket. rewrite <- E. reflexivity.
    + rewrite nth_set_nth_other by exact E.
      destruct (beq k' k) eqn:B; [apply beq_true_iff in B; subst; congruence|]. reflexivity.
  - destruct (Nat.eq_dec (Z.to_nat (hash_key t k)) (Z.to_nat (hash_key t k'))) as [E|E].
    + rewrite <- E. rewrite nth_set_nth_same by exact Hi. cbn [chain_find].
      destruct (beq k' k); [reflexivity|]. unfold hash_get, bucket. rewrite <- E. reflexivity.
    + rewrite nth_set_nth_other by exact E.
      destruct (beq k' k) eqn:B; [apply beq_true_iff in B; subst; congruence|]. reflexivity.
Qed.

Lemma hash_add_ok : forall t k v, htable_ok t -> htable_ok (hash_add t k v).
Proof.
  intros t k v OK. pose proof (hash_key_idx t k OK) as Hi.
  destruct OK as (H1 & H2 & H3). pose proof (hash_key_range t k H1) as HR.
  unfold hash_add, bucket.
  destruct (chain_find (nth (Z.to_nat (hash_key t k)) (h_entries t) []) k) eqn:F;
    unfold htable_ok; cbn [h_len h_entries]; rewrite set_nth_length;
    (split; [exact H1|]); (split; [exact H2|]); intros i Hl;
    destruct (Nat.eq_dec (Z.to_nat (hash_key t k)) i) as [E|E].
  - subst i. rewrite nth_set_nth_same by exact Hi. destruct (H3 _ Hi) as (N & K).
    rewrite chain_replace_keys. split; [exact N|].
    intros k1 v1 HI. rewrite hash_key_mk.
    apply chain_replace_in in HI. apply in_map_iff in HI. destruct HI as ([k2 v2] & E2 & HI). cbn in E2. subst k2.
    apply (K k1 v2 HI).
  - rewrite nth_set_nth_other by exact E. destruct (H3 _ Hl) as (N & K). split; [exact N|].
    intros k1 v1 HI. rewrite hash_key_mk. apply (K k1 v1 HI).
  - subst i. rewrite nth_set_nth_same by exact Hi. destruct (H3 _ Hi) as (N & K).
    split.
    + cbn [map fst]. constructor; [apply chain_find_none_notin; exact F|exact N].
    + intros k1 v1 [HI|HI]; rewrite hash_key_mk.
      * injection HI as <- <-. lia.
      * apply (K k1 v1 HI).
  - rewrite nth_set_nth_other by exact E. destruct (H3 _ Hl) as (N & K). split; [exact N|].
    intros k1 v1 HI. rewrite hash_key_mk. apply (K k1 v1 HI).
Qed.

Lemma chain_remove_spec : forall ch k ch', NoDup (map fst ch) -> chain_remove ch k = Some ch' ->
  (forall k', chain_find ch' k' = if beq k' k then None else chain_find ch k') /\
  NoDup (map fst ch') /\ (forall kv, In kv ch' -> In kv ch).
Proof.
  induction ch as [|[k0 v0] ch IH]; intros k ch' ND H; [discriminate|].
  cbn [map fst] in ND. inversion ND as [|? ? N1 N2]; subst.
  cbn [chain_remove] in H. destruct (beq k k0) eqn:E.
  - injection H as <-. apply beq_true_iff in E. subst k0. repeat split; [|exact N2|intros; right; assumption].
    intro k'. cbn [chain_find]. destruct (beq k' k) eqn:E2; [|reflexivity].
    apply beq_true_iff in E2. subst k'.
    destruct (chain_find ch k) eqn:F; [|reflexivity].
    apply chain_find_some_in in F. exfalso. apply N1. apply in_map_iff. exists (k, b). split; [reflexivity|exact F].
  - destruct (chain_remove ch k) as [r'|] eqn:R; [|discriminate]. injection H as <-.
    destruct (IH k r' N2 R) as (A & B & C). repeat split.
    + intro k'. cbn [chain_find]. rewrite A. destruct (beq k' k0) eqn:E2; [|reflexivity].
      apply beq_true_iff in E2. subst k'. rewrite beq_sym, E. reflexivity.
    + cbn [map fst]. constructor; [|exact B]. intro HI. apply N1.
      apply in_map_iff in HI. destruct HI as (kv & E1 & HI). apply in_map_iff. exists kv. split; [exact E1|apply C; exact HI].
    + intros kv [HI|HI]; [left; exact HI|right; apply C; exact HI].
Qed.

Lemma chain_remove_none : forall ch k, chain_remove ch k = None -> chain_find ch k = None.
Proof.
  induction ch as [|[k0 v0] ch IH]; intros k H; [reflexivity|].
  cbn [chain_remove] in H. cbn [chain_find]. destruct (beq k k0); [discriminate|].
  destruct (chain_remove ch k) eqn:R; [discriminate|]. apply IH. exact R.
Qed.

Lemma hash_drop_spec : forall t k, htable_ok t ->
  htable_ok (fst (hash_drop t k)) /\
  forall k', hash_get (fst (hash_drop t k)) k' = if beq k' k then None else hash_get t k'.
Proof.
  intros t k OK. pose proof (hash_key_idx t k OK) as Hi.
  pose proof OK as (H1 & H2 & H3).
  unfold hash_drop, bucket.
  destruct (chain_remove (nth (Z.to_nat (hash_key t k)) (h_entries t) []) k) as [ch'|] eqn:R; cbn [fst].
  - destruct (H3 _ Hi) as (N & K).
    destruct (chain_remove_spec _ _ _ N R) as (A & B & C). split.
    + unfold htable_ok. cbn [h_len h_entries]. rewrite set_nth_length.
      split; [exact H1|]. split; [exact H2|]. intros i Hl.
      destruct (Nat.eq_dec (Z.to_nat (hash_key t k)) i) as [E|E].
      * subst i. rewrite nth_set_nth_same by exact Hi. split; [exact B|].
        intros k1 v1 HI. rewrite hash_key_mk. apply (K k1 v1). apply C. exact HI.
      * rewrite nth_set_nth_other by exact E. destruct (H3 _ Hl) as (N' & K'). split; [exact N'|].
        intros k1 v1 HI. rewrite hash_key_mk. apply (K' k1 v1 HI).
    + intro k'. unfold hash_get at 1. unfold bucket. cbn [h_entries]. rewrite hash_key_mk.
      destruct (Nat.eq_dec (Z.to_nat (hash_key t k)) (Z.to_nat (hash_key t k'))) as [E|E].
      * rewrite <- E. rewrite nth_set_nth_same by exact Hi. rewrite A.
        destruct (beq k' k); [reflexivity|]. unfold hash_get, bucket. rewrite <- E. reflexivity.
      * rewrite nth_set_nth_other by exact E.
        destruct (beq k' k) eqn:B'; [apply beq_true_iff in B'; subst; congruence|]. reflexivity.
  - split; [exact OK|]. intro k'. destruct (beq k' k) eqn:B; [|reflexivity].
    apply beq_true_iff in B. subst k'. unfold hash_get, bucket. apply chain_remove_none. exact R.
Qed.

(* enumeration and lookup agree *)
Lemma hash_items_in : forall t k v, In (k, v) (hash_items t) <->
  exists i, (i < length (h_entries t))%nat /\ In (k, v) (nth i (h_entries t) []).
Proof.
  intros t k v. unfold hash_items. rewrite in_concat. split.
  - intros (ch & H1 & H2). apply In_nth with (d := []) in H1. destruct H1 as (i & Hi & E).
    exists i. split; [exact Hi|]. rewrite E. exact H2.
  - intros (i & Hi & H). exists (nth i (h_entries t) []). split; [apply nth_In; exact Hi|exact H].
Qed.

Lemma hash_get_items : forall t k v, htable_ok t -> (hash_get t k = Some v <-> In (k, v) (hash_items t)).
Proof.
  intros t k v OK. pose proof (hash_key_idx t k OK) as Hi. pose proof OK as (H1 & H2 & H3).
  rewrite hash_items_in. unfold hash_get, bucket. split.
  - intro F. exists (Z.to_nat (hash_key t k)). split; [exact Hi|]. apply chain_find_some_in. exact F.
  - intros (i & Hl & HI). destruct (H3 _ Hl) as (N & K). pose proof (K k v HI) as E.
    rewrite E, Nat2Z.id. apply chain_find_in; assumption.
Qed.

Lemma hash_keys_found : forall t k, htable_ok t -> (In k (hash_keys t) <-> exists v, hash_get t k = Some v).
Proof.
  intros t k OK. unfold hash_keys. rewrite in_map_iff. split.
  - intros ([k' v] & E & HI). cbn in E. subst k'. exists v. apply hash_get_items; assumption.
  - intros (v & F). exists (k, v). split; [reflexivity|]. apply hash_get_items; assumption.
Qed.

(* attribute sets of stanzas *)
Definition attrs_ok (a : attrs) : Prop := match a with Some t => htable_ok t | None => True end.

Lemma attr_hash_size_pos : 0 < attr_hash_size. Proof. apply Gen_stanza_ok. Qed.

Lemma attr_set_ok : forall a k v, attrs_ok a -> attrs_ok (attr_set a k v).
Proof.
  intros [t|] k v H; cbn [attr_set attrs_ok]; apply hash_add_ok; [exact H|apply hash_new_ok; apply attr_hash_size_pos].
Qed.
Lemma attr_get_set : forall a k v k', attrs_ok a ->
  attr_get (attr_set a k v) k' = if beq k' k then Some v else attr_get a k'.
Proof.
  intros [t|] k v k' H; cbn [attr_set attr_get].
  - apply hash_get_add. exact H.
  - rewrite hash_get_add by (apply hash_new_ok; apply attr_hash_size_pos). rewrite hash_get_new. reflexivity.
Qed.
Lemma attr_del_ok : forall a k, attrs_ok a -> attrs_ok (fst (attr_del a k)).
Proof.
  intros [t|] k H; cbn [attr_del]; [|exact I].
  pose proof (hash_drop_spec t k H) as (A & _). destruct (hash_drop t k). exact A.
Qed.
Lemma attr_get_del : forall a k k', attrs_ok a ->
  attr_get (fst (attr_del a k)) k' = if beq k' k then None else attr_get a k'.
Proof.
  intros [t|] k k' H; cbn [attr_del].
  - pose proof (hash_drop_spec t k H) as (_ & B). specialize (B k'). destruct (hash_drop t k). exact B.
  - cbn. destruct (beq k' k); reflexivity.
Qed.

(* tables built through the API are renderable as far as lookups go *)
Lemma attrs_built_found : forall a, attrs_ok a ->
  match a with
  | Some h => forall k, In k (hash_keys h) -> exists v, hash_get h k = Some v
  | None => True
  end.
Proof. intros [h|] H; [|exact I]. intros k HI. apply hash_keys_found; assumption. Qed.

(* ==================================================================================== *)
(* E. copy, reply, reply_error, error_new                                               *)
(* ==================================================================================== *)
Inductive tree_wf : tree -> Prop :=
| wf_unk : tree_wf Unk
| wf_text : forall s, tree_wf (Text s)
| wf_tag : forall name a cs, attrs_ok a -> Forall tree_wf cs -> tree_wf (Tag name a cs).

(* same node types, names, text, child order; the same attribute *set* (enumeration order may differ) *)
Inductive tree_equiv : tree -> tree -> Prop :=
| te_unk : tree_equiv Unk Unk
| te_text : forall s, tree_equiv (Text s) (Text s)
| te_tag : forall name a a' cs cs',
    (forall k, attr_get a' k = attr_get a k) -> attrs_ok a' ->
    Forall2 tree_equiv cs cs' -> tree_equiv (Tag name a cs) (Tag name a' cs').

Lemma copy_attrs_loop_spec : forall src keys dst, htable_ok src -> attrs_ok dst ->
  (forall k, In k keys -> exists v, hash_get src k = Some v) ->
  exists a', copy_attrs_loop src keys dst = Some a' /\ attrs_ok a' /\
             forall k, (In k keys -> attr_get a' k = hash_get src k) /\
                       (~ In k keys -> attr_get a' k = attr_get dst k).
Proof.
  intros src keys. induction keys as [|k0 r IH]; intros dst OK OD F.
  - exists dst. split; [reflexivity|]. split; [exact OD|]. intro k. split; [intros []|reflexivity].
  - cbn [copy_attrs_loop]. destruct (F k0 (or_introl eq_refl)) as (v0 & E0). rewrite E0.
    destruct (IH (attr_set dst k0 v0) OK (attr_set_ok _ _ _ OD)) as (a' & E & OA & G).
    { intros k Hk. apply F. right. exact Hk. }
    exists a'. split; [exact E|]. split; [exact OA|].
    intro k. destruct (G k) as (G1 & G2). split.
    + intros [<-|Hk].
      * destruct (in_dec (list_eq_dec Z.eq_dec) k0 r) as [I|I]; [rewrite G1 by exact I; reflexivity|].
        rewrite G2 by exact I. rewrite attr_get_set by exact OD. rewrite beq_refl. symmetry. exact E0.
      * apply G1. exact Hk.
    + intro N. rewrite G2 by (intro; apply N; right; assumption).
      rewrite attr_get_set by exact OD.
      destruct (beq k k0) eqn:B; [|reflexivity].
      apply beq_true_iff in B. subst. exfalso. apply N. left. reflexivity.
Qed.

Lemma copy_attrs_spec : forall a, attrs_ok a ->
  exists a', copy_attrs a = Some a' /\ attrs_ok a' /\ forall k, attr_get a' k = attr_get a k.
Proof.
  intros [h|] OK; cbn [copy_attrs].
  - destruct (copy_attrs_loop_spec h (hash_keys h) None OK I) as (a' & E & OA & G).
    { intros k Hk. apply hash_keys_found; assumption. }
    exists a'. split; [exact E|]. split; [exact OA|]. intro k. destruct (G k) as (G1 & G2). cbn [attr_get].
    destruct (in_dec (list_eq_dec Z.eq_dec) k (hash_keys h)) as [HI|HI]; [apply G1; exact HI|].
    rewrite G2 by exact HI. cbn [attr_get].
    destruct (hash_get h k) eqn:F; [|reflexivity].
    exfalso. apply HI. apply hash_keys_found; [exact OK|]. exists b. exact F.
  - exists None. split; [reflexivity|]. split; [exact I|]. reflexivity.
Qed.

Definition copy_list := fix go (cs : list tree) : option (list tree) :=
  match cs with
  | [] => Some []
  | ch :: r =>
      match copy_tree ch with
      | None => None
      | Some ch' => match go r with Some r' => Some (ch' :: r') | None => None end
      end
  end.

Lemma copy_tree_tag : forall name a cs,
  copy_tree (Tag name a cs) =
  match copy_attrs a with
  | None => None
  | Some a' => match copy_list cs with None => None | Some cs' => Some (Tag name a' cs') end
  end.
Proof. reflexivity. Qed.

(* xmpp_stanza_copy never fails on a well-formed tree and yields an equal tree *)
Lemma copy_tree_spec : forall t, tree_wf t -> exists t', copy_tree t = Some t' /\ tree_equiv t t' /\ tree_wf t'.
Proof.
  induction t as [|s|name a cs IH] using tree_ind2; intro W.
  - exists Unk. repeat split; constructor.
  - exists (Text s). repeat split; constructor.
  - inversion W as [| |? ? ? OA WC]; subst.
    rewrite copy_tree_tag.
    destruct (copy_attrs_spec a OA) as (a' & -> & OA' & G).
    assert (HC : exists cs', copy_list cs = Some cs' /\ Forall2 tree_equiv cs cs' /\ Forall tree_wf cs').
    { clear W. induction cs as [|ch r IHr]; [exists []; repeat split; constructor|].
      inversion IH as [|? ? I1 I2]; subst. inversion WC as [|? ? W1 W2]; subst.
      destruct (I1 W1) as (ch' & E1 & Q1 & V1). destruct (IHr I2 W2) as (r' & E2 & Q2 & V2).
      exists (ch' :: r'). cbn [copy_list]. rewrite E1. fold copy_list. rewrite E2.
      repeat split; constructor; assumption. }
    destruct HC as (cs' & -> & Q & V).
    exists (Tag name a' cs'). repeat split; constructor; assumption.
Qed.

(* copying twice gives the same text as copying once would suggest: equal trees have equal canonical
   content; here: the relation is an equivalence on the attribute sets *)
Lemma tree_equiv_attr : forall t t' k, tree_equiv t t' -> tree_attr t' k = tree_attr t k.
Proof. intros t t' k H. inversion H; subst; cbn [tree_attr]; auto. Qed.

(* ---- reply ---- *)
Definition only_attr (a : attrs) (k v : bstr) : Prop :=
  forall k', attr_get a k' = if beq k' k then Some v else None.

Lemma only_attr_set : forall k v, only_attr (attr_set None k v) k v.
Proof. intros k v k'. rewrite attr_get_set by exact I. reflexivity. Qed.

Lemma reply_deleted_eq : reply_deleted = [k_to; k_from; xmlns_key].
Proof. destruct Gen_stanza_ok as (_ & _ & _ & _ & E & _ & _ & _ & _ & R & _). rewrite R, E. reflexivity. Qed.

Lemma stanza_reply_spec : forall name a cs, attrs_ok a ->
  match attr_get a k_from with
  | None => stanza_reply (Tag name a cs) = None
  | Some from =>
      exists a', stanza_reply (Tag name a cs) = Some (Tag name a' []) /\ attrs_ok a' /\
        attr_get a' k_to = Some from /\ attr_get a' k_from = None /\ attr_get a' xmlns_key = None /\
        forall k, k <> k_to -> k <> k_from -> k <> xmlns_key -> attr_get a' k = attr_get a k
  end.
Proof.
  intros name a cs OK. unfold stanza_reply. cbn [tree_attr].
  destruct (attr_get a k_from) as [from|] eqn:F; [|reflexivity].
  destruct (copy_attrs_spec a OK) as (a1 & -> & O1 & G).
  rewrite reply_deleted_eq. cbn [fold_left].
  set (d1 := fst (attr_del a1 k_to)). set (d2 := fst (attr_del d1 k_from)). set (d3 := fst (attr_del d2 xmlns_key)).
  assert (O2 : attrs_ok d1) by (apply attr_del_ok; exact O1).
  assert (O3 : attrs_ok d2) by (apply attr_del_ok; exact O2).
  assert (O4 : attrs_ok d3) by (apply attr_del_ok; exact O3).
  exists (attr_set d3 k_to from). split; [reflexivity|]. split; [apply attr_set_ok; exact O4|].
  assert (X : xmlns_key = xmlns_name) by apply Gen_stanza_ok.
  refine (conj _ (conj _ (conj _ _))).
  - rewrite attr_get_set by exact O4. rewrite beq_refl. reflexivity.
  - rewrite attr_get_set by exact O4. replace (beq k_from k_to) with false by reflexivity.
    subst d3. rewrite attr_get_del by exact O3. rewrite X. replace (beq k_from xmlns_name) with false by reflexivity.
    subst d2. rewrite attr_get_del by exact O2. rewrite beq_refl. reflexivity.
  - rewrite attr_get_set by exact O4. rewrite X. replace (beq xmlns_name k_to) with false by reflexivity.
    subst d3. rewrite attr_get_del by exact O3. rewrite X, beq_refl. reflexivity.
  - intros k N1 N2 N3. rewrite attr_get_set by exact O4.
    apply beq_false_iff in N1, N2, N3. rewrite N1.
    subst d3. rewrite attr_get_del by exact O3. rewrite N3.
    subst d2. rewrite attr_get_del by exact O2. rewrite N2.
    subst d1. rewrite attr_get_del by exact O1. rewrite N1. apply G.
Qed.

Lemma stanza_reply_not_tag : stanza_reply Unk = None /\ forall s, stanza_reply (Text s) = None.
Proof. split; reflexivity. Qed.

Lemma lits_eq : lit 0 = s_error /\ lit 1 = s_error /\ lit 2 = rfc_ns_stanzas /\ lit 3 = s_text /\ lit 4 = rfc_ns_stanzas.
Proof.
  destruct Gen_stanza_ok as (_ & _ & _ & _ & _ & _ & _ & _ & _ & _ & R & _).
  unfold lit. rewrite R. repeat split.
Qed.

(* RFC 6120 8.3: type='error', addressed back, <error type=..> holding the condition element qualified by
   the stanzas namespace and, when a description is given, <text> in the same namespace *)
Lemma stanza_reply_error_spec : forall name a cs ty cond text, attrs_ok a ->
  match attr_get a k_from with
  | None => stanza_reply_error (Tag name a cs) ty cond text = None
  | Some from =>
      exists a' ea ca ta,
        stanza_reply_error (Tag name a cs) ty cond text =
          Some (Tag name a'
                  [Tag s_error ea
                     (Tag cond ca [] ::
                      match text with Some x => [Tag s_text ta [Text x]] | None => [] end)]) /\
        attrs_ok a' /\
        attr_get a' k_type = Some s_error /\
        attr_get a' k_to = Some from /\
        attr_get a' k_from = attr_get a k_to /\
        attr_get a' xmlns_key = None /\
        (forall k, k <> k_to -> k <> k_from -> k <> xmlns_key -> k <> k_type -> attr_get a' k = attr_get a k) /\
        only_attr ea k_type ty /\ only_attr ca xmlns_key rfc_ns_stanzas /\ only_attr ta xmlns_key rfc_ns_stanzas
  end.
Proof.
  intros name a cs ty cond text OK. unfold stanza_reply_error.
  pose proof (stanza_reply_spec name a cs OK) as R.
  destruct (attr_get a k_from) as [from|] eqn:F; [|rewrite R; reflexivity].
  destruct R as (a0 & -> & O0 & G1 & G2 & G3 & G4).
  destruct lits_eq as (L0 & L1 & L2 & L3 & L4). rewrite L0, L1, L2, L3, L4.
  cbn [tree_attr].
  set (a1 := attr_set a0 k_type s_error).
  assert (O1 : attrs_ok a1) by (apply attr_set_ok; exact O0).
  assert (X : xmlns_key = xmlns_name) by apply Gen_stanza_ok.
  exists (match attr_get a k_to with Some to => attr_set a1 k_from to | None => a1 end),
         (attr_set None k_type ty), (attr_set None xmlns_key rfc_ns_stanzas), (attr_set None xmlns_key rfc_ns_stanzas).
  split; [destruct text; reflexivity|].
  destruct (attr_get a k_to) as [to|] eqn:T.
  - assert (O2 : attrs_ok (attr_set a1 k_from to)) by (apply attr_set_ok; exact O1).
    split; [exact O2|]. refine (conj _ (conj _ (conj _ (conj _ (conj _ (conj (only_attr_set _ _) (conj (only_attr_set _ _) (only_attr_set _ _)))))))).
    + rewrite attr_get_set by exact O1. replace (beq k_type k_from) with false by reflexivity.
      subst a1. rewrite attr_get_set by exact O0. rewrite beq_refl. reflexivity.
    + rewrite attr_get_set by exact O1. replace (beq k_to k_from) with false by reflexivity.
      subst a1. rewrite attr_get_set by exact O0. replace (beq k_to k_type) with false by reflexivity. exact G1.
    + rewrite attr_get_set by exact O1. rewrite beq_refl. reflexivity.
    + rewrite attr_get_set by exact O1. rewrite X. replace (beq xmlns_name k_from) with false by reflexivity.
      subst a1. rewrite attr_get_set by exact O0. replace (beq xmlns_name k_type) with false by reflexivity.
      rewrite <- X. exact G3.
    + intros k N1 N2 N3 N4. rewrite attr_get_set by exact O1.
      pose proof N2 as N2'. apply beq_false_iff in N2'. rewrite N2'.
      subst a1. rewrite attr_get_set by exact O0.
      pose proof N4 as N4'. apply beq_false_iff in N4'. rewrite N4'. apply G4; assumption.
  - split; [exact O1|]. refine (conj _ (conj _ (conj _ (conj _ (conj _ (conj (only_attr_set _ _) (conj (only_attr_set _ _) (only_attr_set _ _)))))))).
    + subst a1. rewrite attr_get_set by exact O0. rewrite beq_refl. reflexivity.
    + subst a1. rewrite attr_get_set by exact O0. replace (beq k_to k_type) with false by reflexivity. exact G1.
    + subst a1. rewrite attr_get_set by exact O0. replace (beq k_from k_type) with false by reflexivity. exact G2.
    + subst a1. rewrite attr_get_set by exact O0. rewrite X. replace (beq xmlns_name k_type) with false by reflexivity.
      rewrite <- X. exact G3.
    + intros k N1 N2 N3 N4. subst a1. rewrite attr_get_set by exact O0.
      pose proof N4 as N4'. apply beq_false_iff in N4'. rewrite N4'. apply G4; assumption.
Qed.

(* xmpp_error_new: <stream:error> holding the RFC 6120 4.9.3 condition for the enumerator (the default for
   values outside the enumeration), qualified by the streams namespace, and the optional <text> *)
Lemma error_new_spec : forall ty text,
  exists ca ta,
    error_new ty text =
      Tag s_stream_error None
        (Tag (if (0 <=? ty) && (ty <? zlen rfc_stream_conditions)
              then nth (Z.to_nat ty) rfc_stream_conditions stream_error_default else stream_error_default) ca [] ::
         match text with Some x => [Tag s_text ta [Text x]] | None => [] end) /\
    only_attr ca xmlns_key rfc_ns_streams /\ only_attr ta xmlns_key rfc_ns_streams /\
    In stream_error_default rfc_stream_conditions.
Proof.
  intros ty text.
  destruct Gen_stanza_ok as (_ & _ & _ & _ & _ & _ & _ & _ & _ & _ & _ & E1 & E2 & E3 & E4 & E5).
  exists (attr_set None xmlns_key rfc_ns_streams), (attr_set None xmlns_key rfc_ns_streams).
  split; [|exact (conj (only_attr_set _ _) (conj (only_attr_set _ _) E5))].
  unfold error_new. rewrite E1, E2, E3, E4. destruct text; reflexivity.
Qed.

(* ==================================================================================== *)
(* F. render / parse round trip                                                         *)
(* ==================================================================================== *)
(* the abstract document a DOM tree stands for, with dns the default namespace in scope: adjacent text
   nodes merge, empty text disappears, an element's own xmlns attribute (or else the inherited one) is its
   namespace and is not listed among the attributes *)
Definition flush (acc : bstr) : list xtree := match acc with [] => [] | _ :: _ => [XText acc] end.

Section CanonList.
  Variable f : tree -> xtree.
  Fixpoint canon_list (cs : list tree) (acc : bstr) {struct cs} : list xtree :=
    match cs with
    | [] => flush acc
    | Text s :: r => canon_list r (acc ++ s)
    | Unk :: r => canon_list r acc
    | (Tag _ _ _ as e) :: r => flush acc ++ f e :: canon_list r []
    end.
End CanonList.

Definition own_ns (a : attrs) (dns : bstr) : bstr :=
  match attr_get a xmlns_key with Some v => v | None => dns end.
Definition attr_items (a : attrs) : list (bstr * bstr) :=
  match a with Some h => hash_items h | None => [] end.
Definition canon_attrs (a : attrs) : list (bstr * bstr) :=
  filter (fun kv => negb (xeq (fst kv) xmlns_name)) (attr_items a).

Fixpoint canon (dns : bstr) (t : tree) : xtree :=
  match t with
  | Unk => XText []
  | Text s => XText s
  | Tag name a cs => XElem (own_ns a dns) name (canon_attrs a) (canon_list (canon (own_ns a dns)) cs [])
  end.

(* names the parser can read back: non-empty runs of name bytes *)
Definition good_name (n : bstr) : Prop := n <> [] /\ forallb name_byte n = true.

Inductive rt_wf : tree -> Prop :=
| rtw_text : forall s, rt_wf (Text s)
| rtw_tag : forall name a cs, good_name name -> attrs_ok a ->
    (forall k v, In (k, v) (attr_items a) -> good_name k) ->
    Forall rt_wf cs -> rt_wf (Tag name a cs).

(* ---- formats ---- *)
Lemma fmt_open_eq : forall name, format fmt_open [name] = 60 :: name.
Proof. intro. unfold fmt_open. rewrite formats_eq. cbn. rewrite app_nil_r. reflexivity. Qed.
Lemma fmt_attr_eq : forall k e, format fmt_attr [k; e] = 32 :: k ++ 61 :: 34 :: e ++ [34].
Proof. intros. unfold fmt_attr. rewrite formats_eq. cbn. reflexivity. Qed.
Lemma fmt_text_eq : forall e, format fmt_text [e] = e.
Proof. intro. unfold fmt_text. rewrite formats_eq. cbn. rewrite app_nil_r. reflexivity. Qed.
Lemma fmt_close_eq : forall name, format fmt_close [name] = 60 :: 47 :: name ++ [62].
Proof. intro. unfold fmt_close. rewrite formats_eq. cbn. reflexivity. Qed.
Lemma fmt_empty_eq : fmt_empty = [47; 62].
Proof. unfold fmt_empty. rewrite formats_eq. reflexivity. Qed.
Lemma fmt_gt_eq : fmt_gt = [62].
Proof. unfold fmt_gt. rewrite formats_eq. reflexivity. Qed.

(* ---- scanning ---- *)
Definition stops (p : Z -> bool) (X : xstr) : Prop := match X with [] => True | c :: _ => p c = false end.

Lemma span_app_stop : forall p a X, forallb p a = true -> stops p X -> span p (a ++ X) = (a, X).
Proof.
  intros p a X. induction a as [|c a IH]; intros F S.
  - cbn [app]. destruct X as [|x X]; [reflexivity|]. cbn [span]. cbn in S. rewrite S. reflexivity.
  - cbn [forallb] in F. apply andb_true_iff in F. destruct F as [F1 F2].
    cbn [app span]. rewrite F1. rewrite IH by assumption. reflexivity.
Qed.

Lemma xeq_true_iff : forall a b, xeq a b = true <-> a = b.
Proof.
  induction a as [|x a IH]; destruct b as [|y b]; cbn [xeq]; split; intro H; try congruence; try discriminate.
  - apply andb_true_iff in H. destruct H as [H1 H2]. apply IH in H2. f_equal; [lia|exact H2].
  - injection H as -> ->. apply andb_true_iff. split; [lia|apply IH; reflexivity].
Qed.
Lemma xeq_refl : forall a, xeq a a = true.
Proof. intro. apply xeq_true_iff. reflexivity. Qed.
Lemma xeq_beq : forall a b, xeq a b = beq a b.
Proof.
  intros. destruct (beq a b) eqn:E.
  - apply beq_true_iff in E. subst. apply xeq_refl.
  - destruct (xeq a b) eqn:E2; [|reflexivity]. apply xeq_true_iff in E2. subst. rewrite beq_refl in E. discriminate.
Qed.

Lemma has_false_forallb : forall c s, has c s = false -> forallb (fun x => negb (x =? c)) s = true.
Proof.
  intros c s. unfold has. induction s as [|x s IH]; intro H; [reflexivity|].
  cbn [existsb] in H. apply orb_false_iff in H. destruct H as [H1 H2].
  cbn [forallb]. rewrite IH by exact H2. rewrite Z.eqb_sym, H1. reflexivity.
Qed.

Lemma good_name_head : forall n, good_name n -> exists c r, n = c :: r /\ name_byte c = true.
Proof.
  intros [|c r] (N & F); [congruence|]. exists c, r. split; [reflexivity|].
  cbn [forallb] in F. apply andb_true_iff in F. tauto.
Qed.

(* ---- attributes ---- *)
Definition attr_str (kv : bstr * bstr) : bstr := 32 :: fst kv ++ 61 :: 34 :: xml_escape (snd kv) ++ [34].

Lemma p_attrs_render : forall L Y fuel,
  (forall k v, In (k, v) L -> good_name k) ->
  (exists c Y', Y = c :: Y' /\ is_ws c = false /\ name_byte c = false) ->
  (length L < fuel)%nat ->
  p_attrs fuel (flat_map attr_str L ++ Y) = Some (L, Y).
Proof.
  induction L as [|[k v] L IH]; intros Y fuel G (c & Y' & -> & W & NB) HF.
  - destruct fuel as [|f]; [cbn in HF; lia|].
    cbn [flat_map app p_attrs span]. rewrite W, NB. reflexivity.
  - destruct fuel as [|f]; [cbn in HF; lia|].
    destruct (good_name_head k (G k v (or_introl eq_refl))) as (k0 & kr & -> & NB0).
    assert (GK : forallb name_byte (k0 :: kr) = true) by (apply (G (k0 :: kr) v); left; reflexivity).
    assert (W0 : is_ws k0 = false).
    { destruct (is_ws k0) eqn:W0; [|reflexivity]. unfold name_byte in NB0. rewrite W0 in NB0. cbn in NB0. discriminate. }
    set (tl := flat_map attr_str L ++ c :: Y').
    replace (flat_map attr_str ((k0 :: kr, v) :: L) ++ c :: Y')
      with (32 :: (k0 :: kr) ++ 61 :: 34 :: xml_escape v ++ [34] ++ tl).
    2:{ cbn [flat_map]. unfold attr_str at 2. cbn [fst snd]. unfold tl.
        cbn [app]. rewrite <- !app_assoc. cbn [app]. rewrite <- !app_assoc. reflexivity. }
    cbn [p_attrs]. cbn [span]. replace (is_ws 32) with true by reflexivity.
    cbn [span app]. rewrite W0. rewrite NB0.
    rewrite app_comm_cons.
    rewrite (span_app_stop name_byte (k0 :: kr)); [|exact GK|reflexivity].
    destruct (escape_no_special v) as (E1 & E2 & E3).
    rewrite (span_app_stop (fun c0 => negb (c0 =? 34)) (xml_escape v));
      [|apply has_false_forallb; exact E3|reflexivity].
    cbn [app]. rewrite E1. rewrite unescape_escape.
    unfold tl. rewrite IH; [reflexivity| |exists c, Y'; auto|cbn in HF; lia].
    intros k' v' HI. apply (G k' v'). right. exact HI.
Qed.
