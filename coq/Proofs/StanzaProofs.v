(* Proofs for C09 (stanza serialisation).  The statements collected in Properties_C09.v are proved here. *)
Require Import LV.Common.Bytes LV.Gen.Gen_stanza LV.Model.StanzaModel LV.Spec.XmlSubsetSpec.
Require Import Lia ZifyBool.
Local Open Scope Z_scope.

(* ==================================================================================== *)
(* A. the values found in the C source are the ones the specification talks about       *)
(* ==================================================================================== *)
Definition expected_formats : list (list Z) :=
  [ [37; 115];                                   (* %s *)
    [60; 37; 115];                               (* <%s *)
    [32; 37; 115; 61; 34; 37; 115; 34];          (* space %s = dq %s dq *)
    [47; 62];                                    (* /> *)
    [62];                                        (* > *)
    [60; 47; 37; 115; 62] ].                     (* </%s> *)

Lemma Gen_stanza_ok :
  esc_table = xml_escape_table /\
  esc_len_table = map (fun ce => (fst ce, zlen (snd ce))) xml_escape_table /\
  esc_adv_table = esc_len_table /\
  render_formats = expected_formats /\
  xmlns_key = xmlns_name /\
  top_elided_ns = rfc_ns_client /\
  ns_client = rfc_ns_client /\
  0 < stanza_init_buf /\
  0 < attr_hash_size /\
  reply_deleted = [s_to; s_from; xmlns_name] /\
  reply_error_literals = [s_error; s_error; rfc_ns_stanzas; s_text; rfc_ns_stanzas] /\
  stream_error_names = rfc_stream_conditions /\
  stream_error_ns = rfc_ns_streams /\
  stream_error_elem = s_stream_error /\
  stream_error_text_elem = s_text /\
  In stream_error_default rfc_stream_conditions.
Proof.
  repeat split; try (vm_compute; reflexivity); try (vm_compute; congruence).
  vm_compute. tauto.
Qed.

(* xmpp_stanza_to_text renders the stanza it is given as the top of the output: the xmlns of the argument's own
   parent (which is not part of the output) is not consulted *)
Lemma render_root_top_ok : render_root_is_top = true.
Proof. reflexivity. Qed.

Lemma esc_table_eq : esc_table = xml_escape_table. Proof. apply Gen_stanza_ok. Qed.
Lemma formats_eq : render_formats = expected_formats. Proof. apply Gen_stanza_ok. Qed.

(* ==================================================================================== *)
(* B. escaping                                                                          *)
(* ==================================================================================== *)
Lemma esc1_spec : forall c, esc1 c = xml_escape1 c.
Proof.
  intro c. unfold esc1. rewrite esc_table_eq. unfold xml_escape_table, xml_escape1, lookup.
  unfold c_quot, c_amp, c_lt, c_gt.
  destruct (c =? 34) eqn:E1; destruct (c =? 38) eqn:E2; destruct (c =? 60) eqn:E3; destruct (c =? 62) eqn:E4;
    try reflexivity; lia.
Qed.

Lemma escape_spec : forall s, escape s = xml_escape s.
Proof.
  induction s as [|c r IH]; [reflexivity|].
  cbn [escape]. rewrite IH, esc1_spec. reflexivity.
Qed.

Lemma xml_escape_cons : forall c r, xml_escape (c :: r) = xml_escape1 c ++ xml_escape r.
Proof. reflexivity. Qed.

Lemma xml_escape_app : forall a b, xml_escape (a ++ b) = xml_escape a ++ xml_escape b.
Proof. intros. unfold xml_escape. apply flat_map_app. Qed.

(* the five shapes of xml_escape1 *)
Lemma xml_escape1_cases : forall c,
  (c = c_lt /\ xml_escape1 c = ent_lt) \/ (c = c_gt /\ xml_escape1 c = ent_gt) \/
  (c = c_amp /\ xml_escape1 c = ent_amp) \/ (c = c_quot /\ xml_escape1 c = ent_quot) \/
  (c <> c_lt /\ c <> c_gt /\ c <> c_amp /\ c <> c_quot /\ xml_escape1 c = [c]).
Proof.
  intro c. unfold xml_escape1.
  destruct (c =? c_lt) eqn:E1; [left; split; [lia|reflexivity]|].
  destruct (c =? c_gt) eqn:E2; [right; left; split; [lia|reflexivity]|].
  destruct (c =? c_amp) eqn:E3; [right; right; left; split; [lia|reflexivity]|].
  destruct (c =? c_quot) eqn:E4; [right; right; right; left; split; [lia|reflexivity]|].
  right; right; right; right. repeat split; try lia.
Qed.

Lemma has_app : forall c a b, has c (a ++ b) = has c a || has c b.
Proof. intros. unfold has. apply existsb_app. Qed.

Lemma has_single : forall c d, c <> d -> has c [d] = false.
Proof. intros. unfold has. cbn. destruct (c =? d) eqn:E; [lia|reflexivity]. Qed.

Lemma escape_no_special : forall s,
  has c_lt (xml_escape s) = false /\ has c_gt (xml_escape s) = false /\ has c_quot (xml_escape s) = false.
Proof.
  induction s as [|c r [IH1 [IH2 IH3]]]; [repeat split; reflexivity|].
  rewrite xml_escape_cons, !has_app, IH1, IH2, IH3, !orb_false_r.
  destruct (xml_escape1_cases c) as [[-> ->]|[[-> ->]|[[-> ->]|[[-> ->]|(N1 & N2 & N3 & N4 & ->)]]]];
    try (repeat split; reflexivity).
  repeat split; apply has_single; congruence.
Qed.

Lemma amps_ok_cons_other : forall c r, c <> c_amp -> amps_ok (c :: r) = amps_ok r.
Proof.
  intros c r N. cbn [amps_ok]. destruct (c =? c_amp) eqn:E; [lia|reflexivity].
Qed.

Lemma escape_amps_ok : forall s, amps_ok (xml_escape s) = true.
Proof.
  induction s as [|c r IH]; [reflexivity|].
  rewrite xml_escape_cons.
  destruct (xml_escape1_cases c) as [[-> ->]|[[-> ->]|[[-> ->]|[[-> ->]|(N1 & N2 & N3 & N4 & ->)]]]].
  - cbn. exact IH.
  - cbn. exact IH.
  - cbn. exact IH.
  - cbn. exact IH.
  - cbn [app]. rewrite amps_ok_cons_other by assumption. exact IH.
Qed.

Lemma unescape_cons_other : forall c r, c <> c_amp -> unescape (c :: r) = option_map (cons c) (unescape r).
Proof.
  intros c r N. cbn [unescape]. destruct (c =? c_amp) eqn:E; [lia|reflexivity].
Qed.

Lemma unescape_escape : forall s, unescape (xml_escape s) = Some s.
Proof.
  induction s as [|c r IH]; [reflexivity|].
  rewrite xml_escape_cons.
  destruct (xml_escape1_cases c) as [[-> ->]|[[-> ->]|[[-> ->]|[[-> ->]|(N1 & N2 & N3 & N4 & ->)]]]].
  - cbn. rewrite IH. reflexivity.
  - cbn. rewrite IH. reflexivity.
  - cbn. rewrite IH. reflexivity.
  - cbn. rewrite IH. reflexivity.
  - cbn [app]. rewrite unescape_cons_other by assumption. rewrite IH. reflexivity.
Qed.

(* the statement of the property, about the escaper of the model *)
Lemma escape_neutralises_proof : forall s,
  has c_lt (escape s) = false /\ has c_gt (escape s) = false /\ has c_quot (escape s) = false /\
  amps_ok (escape s) = true /\ unescape (escape s) = Some s.
Proof.
  intro s. rewrite escape_spec.
  destruct (escape_no_special s) as (A & B & C).
  repeat split; auto using escape_amps_ok, unescape_escape.
Qed.

(* the apostrophe is passed through unchanged (attribute values are always written in double quotes) *)
Lemma escape_keeps_apos : forall s, escape (c_apos :: s) = c_apos :: escape s.
Proof. intro s. rewrite !escape_spec. reflexivity. Qed.

(* ------------------------------------------------------------------------------------ *)
(* B'. the buffer-level escaper (_escape_xml) computes `escape` and stays inside len+1    *)
(* ------------------------------------------------------------------------------------ *)
Definition nul_free (s : bstr) : Prop := ~ In 0 s.

Lemma zlen_app : forall A (a b : list A), zlen (a ++ b) = zlen a + zlen b.
Proof. intros. unfold zlen. rewrite app_length. lia. Qed.
Lemma zlen_cons : forall A (a : A) l, zlen (a :: l) = 1 + zlen l.
Proof. intros. unfold zlen. cbn [length]. lia. Qed.
Lemma zlen_nonneg : forall A (l : list A), 0 <= zlen l.
Proof. intros. unfold zlen. lia. Qed.
Lemma zlen_nil : forall A, zlen (@nil A) = 0.
Proof. reflexivity. Qed.
Lemma zlen_map : forall A B (f : A -> B) l, zlen (map f l) = zlen l.
Proof. intros. unfold zlen. rewrite map_length. reflexivity. Qed.

Lemma zwrite_ok : forall s rest, (length s <= length rest)%nat ->
  zwrite rest s = Some (map Some s ++ skipn (length s) rest).
Proof.
  induction s as [|c s IH]; intros rest H; [reflexivity|].
  destruct rest as [|x rest]; [cbn in H; lia|].
  cbn [zwrite length skipn map app]. rewrite IH by (cbn in H; lia). reflexivity.
Qed.

Lemma zwrite_none : forall s rest, (length rest < length s)%nat -> zwrite rest s = None.
Proof.
  induction s as [|c s IH]; intros rest H; [cbn in H; lia|].
  destruct rest as [|x rest]; [reflexivity|].
  cbn [zwrite]. rewrite IH by (cbn in H; lia). reflexivity.
Qed.

Lemma zadvance_ok : forall n done rest, (n <= length rest)%nat ->
  zadvance n done rest = Some (rev (firstn n rest) ++ done, skipn n rest).
Proof.
  induction n as [|n IH]; intros done rest H; [reflexivity|].
  destruct rest as [|x rest]; [cbn in H; lia|].
  cbn [zadvance firstn skipn rev]. rewrite IH by (cbn in H; lia).
  rewrite <- app_assoc. reflexivity.
Qed.

Lemma esc_tables : forall c,
  match lookup esc_table c with
  | Some ent => lookup esc_adv_table c = Some (zlen ent) /\ lookup esc_len_table c = Some (zlen ent) /\ ~ In 0 ent
  | None => lookup esc_len_table c = None
  end.
Proof.
  intro c.
  destruct Gen_stanza_ok as (E1 & E2 & E3 & _).
  rewrite E3, E2, E1. unfold xml_escape_table, lookup, c_quot, c_amp, c_lt, c_gt. cbn [map fst snd].
  destruct (c =? 34) eqn:Q1; [repeat split; try reflexivity; cbn; intuition lia|].
  destruct (c =? 38) eqn:Q2; [repeat split; try reflexivity; cbn; intuition lia|].
  destruct (c =? 60) eqn:Q3; [repeat split; try reflexivity; cbn; intuition lia|].
  destruct (c =? 62) eqn:Q4; [repeat split; try reflexivity; cbn; intuition lia|].
  reflexivity.
Qed.

Lemma esc_len_spec : forall s acc, esc_len s acc = acc + zlen (escape s).
Proof.
  induction s as [|c r IH]; intro acc; [cbn [esc_len escape]; rewrite zlen_nil; lia|].
  cbn [esc_len escape]. rewrite IH, zlen_app. unfold esc_len1, esc1.
  pose proof (esc_tables c) as T. destruct (lookup esc_table c) as [ent|].
  - destruct T as (_ & -> & _). lia.
  - rewrite T. rewrite zlen_cons, zlen_nil. lia.
Qed.

Lemma escape_nul_free : forall s, nul_free s -> nul_free (escape s).
Proof.
  unfold nul_free. induction s as [|c r IH]; intro H; [exact H|].
  cbn [escape]. rewrite in_app_iff. intros [A|A].
  - unfold esc1 in A. pose proof (esc_tables c) as T. destruct (lookup esc_table c) as [ent|].
    + destruct T as (_ & _ & T). auto.
    + cbn in A. destruct A as [A|[]]. apply H. left. exact A.
  - apply IH; [|exact A]. intro B. apply H. right. exact B.
Qed.

Lemma esc_fill_ok : forall s done rest, (length (escape s) + 1 <= length rest)%nat ->
  exists rest', esc_fill s done rest = Some (rev (map Some (escape s)) ++ done, rest') /\
                length rest' = (length rest - length (escape s))%nat.
Proof.
  induction s as [|c r IH]; intros done rest H.
  - exists rest. split; [reflexivity|cbn; lia].
  - cbn [esc_fill escape]. cbn [escape] in H. rewrite app_length in H.
    unfold esc1 in *. pose proof (esc_tables c) as T.
    destruct (lookup esc_table c) as [ent|].
    + destruct T as (-> & _ & _).
      rewrite zwrite_ok by (rewrite app_length; cbn [length]; lia).
      unfold zlen. rewrite Nat2Z.id.
      rewrite map_app, <- app_assoc.
      rewrite zadvance_ok by (rewrite app_length, map_length; lia).
      rewrite firstn_app, map_length, Nat.sub_diag, firstn_O, app_nil_r.
      rewrite firstn_all2 by (rewrite map_length; lia).
      rewrite skipn_app, map_length, Nat.sub_diag, skipn_O.
      rewrite skipn_all2 by (rewrite map_length; lia). cbn [app map].
      destruct (IH (rev (map Some ent) ++ done) (Some 0 :: skipn (length (ent ++ [0])) rest)) as (rest' & E & L).
      { cbn [length]. rewrite skipn_length, app_length. cbn [length]. lia. }
      exists rest'. split.
      * rewrite E. rewrite map_app, rev_app_distr, <- app_assoc. reflexivity.
      * rewrite L. cbn [length]. rewrite skipn_length, !app_length. cbn [length]. lia.
    + cbn [length] in H.
      destruct rest as [|x rest]; [cbn [length] in H; lia|].
      cbn [zwrite zadvance].
      destruct (IH (Some c :: done) rest) as (rest' & E & L).
      { cbn [length] in H. lia. }
      exists rest'. split.
      * rewrite E. cbn [map rev app]. rewrite <- app_assoc. reflexivity.
      * rewrite L. cbn [app length]. lia.
Qed.

Lemma cstring_prefix : forall s rest, nul_free s -> cstring (map Some s ++ Some 0 :: rest) = Some s.
Proof.
  unfold nul_free. induction s as [|c s IH]; intros rest H; [reflexivity|].
  cbn [map app cstring]. destruct (c =? 0) eqn:E.
  - exfalso. apply H. left. lia.
  - rewrite IH; [reflexivity|]. intro A. apply H. right. exact A.
Qed.

Lemma escape_xml_ok : forall s, nul_free s -> escape_xml s = EOk (escape s).
Proof.
  intros s H. unfold escape_xml. rewrite esc_len_spec.
  destruct (esc_fill_ok s [] (repeat None (Z.to_nat (0 + zlen (escape s) + 1)))) as (rest' & E & L).
  { rewrite repeat_length. unfold zlen. lia. }
  rewrite E. rewrite repeat_length in L.
  destruct rest' as [|x rest']; [cbn in L; unfold zlen in L; lia|].
  cbn [zwrite]. rewrite app_nil_r, rev_append_rev, rev_involutive.
  rewrite cstring_prefix by (apply escape_nul_free; exact H). reflexivity.
Qed.

(* ==================================================================================== *)
(* C. the bounded two-pass renderer equals the ideal renderer                            *)
(* ==================================================================================== *)
Definition blitz (buf : cells) (p : Z) (s : bstr) : cells :=
  firstn (Z.to_nat p) buf ++ map Some s ++ skipn (Z.to_nat p + length s) buf.

Lemma wr_at_ok : forall n buf s, (n + length s <= length buf)%nat ->
  wr_at n buf s = Some (firstn n buf ++ map Some s ++ skipn (n + length s) buf).
Proof.
  induction n as [|n IH]; intros buf s H.
  - cbn [wr_at firstn app plus]. apply zwrite_ok. lia.
  - destruct buf as [|x buf]; [cbn in H; lia|].
    cbn [wr_at firstn app plus skipn]. rewrite IH by (cbn in H; lia). reflexivity.
Qed.

Lemma wr_bytes_ok : forall buf p s, 0 <= p -> p + zlen s <= zlen buf ->
  wr_bytes buf p s = Some (blitz buf p s).
Proof.
  intros buf p s H1 H2. unfold wr_bytes, blitz.
  destruct (p <? 0) eqn:E; [lia|].
  apply wr_at_ok. unfold zlen in H2. lia.
Qed.

Lemma blitz_length : forall buf p s, 0 <= p -> p + zlen s <= zlen buf -> zlen (blitz buf p s) = zlen buf.
Proof.
  intros buf p s H1 H2. unfold blitz, zlen in *.
  rewrite !app_length, map_length, firstn_length, skipn_length. lia.
Qed.

Lemma skipn_skipn' : forall A x y (l : list A), skipn x (skipn y l) = skipn (y + x) l.
Proof.
  intros A x y. induction y as [|y IH]; intro l; [reflexivity|].
  destruct l as [|a l]; [cbn; destruct x; reflexivity|]. cbn [skipn plus]. apply IH.
Qed.

Lemma blitz_blitz : forall buf p a c d, 0 <= p -> p + zlen a + zlen d <= zlen buf ->
  (length c <= length d)%nat ->
  blitz (blitz buf p (a ++ c)) (p + zlen a) d = blitz buf p (a ++ d).
Proof.
  intros buf p a c d H1 H2 H3. unfold blitz, zlen in *.
  set (n := Z.to_nat p).
  replace (Z.to_nat (p + Z.of_nat (length a))) with (n + length a)%nat by lia.
  assert (Hn : length (firstn n buf) = n) by (rewrite firstn_length; lia).
  rewrite !map_app.
  (* the prefix *)
  replace (firstn (n + length a) (firstn n buf ++ (map Some a ++ map Some c) ++ skipn (n + length (a ++ c)) buf))
    with (firstn n buf ++ map Some a).
  2:{ rewrite <- Hn at 2. rewrite firstn_app_2. f_equal.
      rewrite <- app_assoc.
      replace (length a) with (length (map (@Some Z) a) + 0)%nat at 1 by (rewrite map_length; lia).
      rewrite firstn_app_2, firstn_O, app_nil_r. reflexivity. }
  (* the suffix *)
  replace (skipn (n + length a + length d) (firstn n buf ++ (map Some a ++ map Some c) ++ skipn (n + length (a ++ c)) buf))
    with (skipn (n + length (a ++ d)) buf).
  2:{ rewrite !app_length.
      rewrite skipn_app, Hn.
      rewrite (skipn_all2 (firstn n buf)) by lia. cbn [app].
      rewrite skipn_app, app_length, !map_length.
      rewrite (skipn_all2 (map Some a ++ map Some c)) by (rewrite app_length, !map_length; lia). cbn [app].
      rewrite skipn_skipn'. f_equal. lia. }
  rewrite <- !app_assoc. reflexivity.
Qed.

Definition bnd (buf : cells) (ptr : option Z) (buflen : Z) : Prop :=
  0 <= buflen < 18446744073709551616 /\
  (buflen = 0 \/ exists p, ptr = Some p /\ 0 <= p /\ p + buflen <= zlen buf).

Definition sn_buf (buf0 : cells) (ptr0 : option Z) (buflen : Z) (a : bstr) : cells :=
  if buflen =? 0 then buf0
  else match ptr0 with
       | Some p => blitz buf0 p (firstn (Z.to_nat (Z.min (buflen - 1) (zlen a))) a ++ [0])
       | None => buf0
       end.

Lemma firstn_zlen_le : forall (a : bstr) k, 0 <= k -> zlen (firstn (Z.to_nat k) a) = Z.min k (zlen a).
Proof. intros. unfold zlen. rewrite firstn_length. lia. Qed.

Lemma snprintf_ok : forall buf0 ptr0 buflen a, bnd buf0 ptr0 buflen ->
  snprintf buf0 ptr0 buflen a = ROk (sn_buf buf0 ptr0 buflen a, zlen a).
Proof.
  intros buf0 ptr0 buflen a (B1 & B2). unfold snprintf, sn_buf.
  destruct (buflen =? 0) eqn:E; [reflexivity|].
  destruct B2 as [B2|(p & -> & P1 & P2)]; [lia|].
  pose proof (zlen_nonneg _ a).
  rewrite wr_bytes_ok; [reflexivity|lia|].
  rewrite zlen_app, firstn_zlen_le by lia. rewrite zlen_cons, zlen_nil. lia.
Qed.

Lemma sn_buf_length : forall buf0 ptr0 buflen a, bnd buf0 ptr0 buflen ->
  zlen (sn_buf buf0 ptr0 buflen a) = zlen buf0.
Proof.
  intros buf0 ptr0 buflen a (B1 & B2). unfold sn_buf.
  destruct (buflen =? 0) eqn:E; [reflexivity|].
  destruct B2 as [B2|(p & -> & P1 & P2)]; [lia|].
  pose proof (zlen_nonneg _ a).
  apply blitz_length; [lia|].
  rewrite zlen_app, firstn_zlen_le by lia. rewrite zlen_cons, zlen_nil. lia.
Qed.

(* the renderer's state after the strings emitted so far concatenate to a *)
Definition st_after (buf0 : cells) (ptr0 : option Z) (buflen : Z) (a : bstr) : rstate :=
  if buflen <=? zlen a then mkR (sn_buf buf0 ptr0 buflen a) None 0 (zlen a)
  else mkR (sn_buf buf0 ptr0 buflen a) (option_map (fun p => p + zlen a) ptr0) (buflen - zlen a) (zlen a).

Lemma st_after_written : forall b p l a, r_written (st_after b p l a) = zlen a.
Proof. intros. unfold st_after. destruct (l <=? zlen a); reflexivity. Qed.
Lemma st_after_buf : forall b p l a, r_buf (st_after b p l a) = sn_buf b p l a.
Proof. intros. unfold st_after. destruct (l <=? zlen a); reflexivity. Qed.

Lemma st_after_bnd : forall buf0 ptr0 buflen a, bnd buf0 ptr0 buflen ->
  bnd (r_buf (st_after buf0 ptr0 buflen a)) (r_ptr (st_after buf0 ptr0 buflen a)) (r_left (st_after buf0 ptr0 buflen a)).
Proof.
  intros buf0 ptr0 buflen a B. pose proof (sn_buf_length buf0 ptr0 buflen a B) as L.
  destruct B as (B1 & B2). pose proof (zlen_nonneg _ a).
  unfold st_after. destruct (buflen <=? zlen a) eqn:E; cbn [r_buf r_ptr r_left].
  - split; [lia|left; reflexivity].
  - split; [lia|]. right. destruct B2 as [B2|(p & -> & P1 & P2)]; [lia|].
    exists (p + zlen a). cbn [option_map]. repeat split; lia.
Qed.

Lemma emit_first : forall buf0 ptr0 buflen s, bnd buf0 ptr0 buflen ->
  emit buflen (mkR buf0 ptr0 buflen 0) s = ROk (st_after buf0 ptr0 buflen s).
Proof.
  intros buf0 ptr0 buflen s B. unfold emit. cbn [r_buf r_ptr r_left].
  rewrite snprintf_ok by exact B. unfold render_update, st_after. cbn [r_written r_ptr r_left].
  rewrite Z.add_0_l. destruct B as (B1 & _). pose proof (zlen_nonneg _ s).
  destruct (buflen <=? zlen s) eqn:E; [reflexivity|].
  rewrite Z.mod_small by lia. reflexivity.
Qed.

Lemma firstn_app_min : forall (a s : bstr) k, (length a <= k)%nat ->
  firstn k (a ++ s) = a ++ firstn (k - length a) s.
Proof.
  intros a s k H. rewrite firstn_app. rewrite firstn_all2 by lia. reflexivity.
Qed.

Lemma emit_next : forall buf0 ptr0 buflen a s, bnd buf0 ptr0 buflen ->
  emit buflen (st_after buf0 ptr0 buflen a) s = ROk (st_after buf0 ptr0 buflen (a ++ s)).
Proof.
  intros buf0 ptr0 buflen a s B.
  pose proof (st_after_bnd buf0 ptr0 buflen a B) as B'.
  unfold emit. rewrite snprintf_ok by exact B'. clear B'.
  destruct B as (B1 & B2). pose proof (zlen_nonneg _ a). pose proof (zlen_nonneg _ s).
  unfold render_update.
  destruct (buflen <=? zlen a) eqn:E.
  - (* exhausted: nothing is written any more *)
    assert (S1 : st_after buf0 ptr0 buflen a = mkR (sn_buf buf0 ptr0 buflen a) None 0 (zlen a))
      by (unfold st_after; rewrite E; reflexivity).
    rewrite S1. cbn [r_buf r_ptr r_left r_written].
    unfold st_after. rewrite zlen_app.
    destruct (buflen <=? zlen a + zlen s) eqn:E2; [|lia].
    do 2 f_equal.
    unfold sn_buf at 1. cbn [Z.eqb].
    unfold sn_buf. destruct (buflen =? 0) eqn:E3; [reflexivity|].
    destruct ptr0 as [p|]; [|reflexivity].
    f_equal. f_equal.
    rewrite zlen_app.
    replace (Z.min (buflen - 1) (zlen a + zlen s)) with (buflen - 1) by lia.
    replace (Z.min (buflen - 1) (zlen a)) with (buflen - 1) by lia.
    rewrite firstn_app.
    replace (Z.to_nat (buflen - 1) - length a)%nat with 0%nat by (unfold zlen in *; lia).
    rewrite firstn_O, app_nil_r. reflexivity.
  - destruct B2 as [B2|(p & -> & P1 & P2)]; [lia|].
    assert (S1 : st_after buf0 (Some p) buflen a
                 = mkR (sn_buf buf0 (Some p) buflen a) (Some (p + zlen a)) (buflen - zlen a) (zlen a))
      by (unfold st_after; rewrite E; reflexivity).
    rewrite S1. cbn [r_buf r_ptr r_left r_written].
    assert (Hbuf : sn_buf (sn_buf buf0 (Some p) buflen a) (Some (p + zlen a)) (buflen - zlen a) s
                   = sn_buf buf0 (Some p) buflen (a ++ s)).
    { unfold sn_buf. destruct (buflen =? 0) eqn:E3; [lia|].
      destruct (buflen - zlen a =? 0) eqn:E4; [lia|].
      replace (Z.min (buflen - 1) (zlen a)) with (zlen a) by lia.
      replace (firstn (Z.to_nat (zlen a)) a) with a
        by (symmetry; apply firstn_all2; unfold zlen; lia).
      rewrite blitz_blitz.
      - f_equal. rewrite zlen_app.
        rewrite firstn_app_min by (unfold zlen in *; lia).
        rewrite <- app_assoc. f_equal. f_equal. f_equal. unfold zlen in *. lia.
      - lia.
      - rewrite zlen_app, firstn_zlen_le by lia. rewrite zlen_cons, zlen_nil. lia.
      - rewrite app_length. cbn [length]. lia. }
    rewrite Hbuf.
    unfold st_after. rewrite zlen_app.
    destruct (buflen <=? zlen a + zlen s) eqn:E2; [reflexivity|].
    rewrite Z.mod_small by lia. cbn [option_map].
    f_equal. f_equal; [f_equal; lia|lia].
Qed.

Lemma st_after_done : forall buf0 ptr0 buflen a, bnd buf0 ptr0 buflen ->
  ROk (r_buf (st_after buf0 ptr0 buflen a), r_written (st_after buf0 ptr0 buflen a))
  = snprintf buf0 ptr0 buflen a.
Proof.
  intros. rewrite snprintf_ok by assumption. rewrite st_after_buf, st_after_written. reflexivity.
Qed.

(* induction over trees with the hypothesis for every child *)
Fixpoint tree_ind2 (P : tree -> Prop) (HU : forall cs, Forall P cs -> P (Unk cs)) (HT : forall s, P (Text s))
  (HG : forall name a cs, Forall P cs -> P (Tag name a cs)) (t : tree) {struct t} : P t :=
  let go := fix go (l : list tree) : Forall P l :=
              match l with
              | [] => Forall_nil P
              | x :: r => Forall_cons x (tree_ind2 P HU HT HG x) (go r)
              end in
  match t with
  | Unk cs => HU cs (go cs)
  | Text s => HT s
  | Tag name a cs => HG name a cs (go cs)
  end.

(* what the renderer needs of a tree: every node is typed, text and attribute values are C strings,
   and every key enumerated by the iterator is found again by hash_get (true of every table the API
   builds, see attrs_built_found below) *)
Definition attrs_renderable (a : attrs) : Prop :=
  match a with
  | None => True
  | Some h => forall k, In k (hash_keys h) -> exists v, hash_get h k = Some v /\ nul_free v
  end.

Inductive renderable : tree -> Prop :=
| rn_text : forall s, nul_free s -> renderable (Text s)
| rn_tag : forall name a cs, attrs_renderable a -> Forall renderable cs -> renderable (Tag name a cs).

Definition render_children (c : pctx) := render_list (render_rec c).

Lemma render_rec_tag : forall c name a cs buf ptr buflen,
  render_rec c (Tag name a cs) buf ptr buflen =
  rbind (emit buflen (mkR buf ptr buflen 0) (format fmt_open [name])) (fun st1 =>
  rbind (match a with
         | Some h => if 0 <? hash_num_keys h then render_attrs c h (hash_keys h) buflen st1 else ROk st1
         | None => ROk st1
         end) (fun st2 =>
  match cs with
  | [] => rbind (emit buflen st2 fmt_empty) rdone
  | _ :: _ =>
      rbind (emit buflen st2 fmt_gt) (fun st3 =>
      rbind (render_children (child_ctx a) cs buflen st3) (fun st4 =>
      rbind (emit buflen st4 (format fmt_close [name])) rdone))
  end)).
Proof.
  intros. destruct cs; reflexivity.
Qed.

Lemma render_children_cons : forall c ch r buflen st,
  render_children c (ch :: r) buflen st =
  match render_rec c ch (r_buf st) (r_ptr st) (r_left st) with
  | ROk (b, ret) => render_children c r buflen (render_update st buflen ret b)
  | RErr e => RErr e | ROOB => ROOB | RCrash => RCrash | RUninit => RUninit
  end.
Proof. reflexivity. Qed.

Lemma render_attrs_ok : forall c h buf0 ptr0 buflen keys acc,
  bnd buf0 ptr0 buflen ->
  (forall k, In k keys -> exists v, hash_get h k = Some v /\ nul_free v) ->
  render_attrs c h keys buflen (st_after buf0 ptr0 buflen acc)
  = ROk (st_after buf0 ptr0 buflen (acc ++ flat_map (attr_chunk c h) keys)).
Proof.
  intros c h buf0 ptr0 buflen keys. induction keys as [|k r IH]; intros acc B H.
  - cbn [render_attrs flat_map]. rewrite app_nil_r. reflexivity.
  - cbn [render_attrs flat_map]. unfold attr_chunk at 1.
    destruct (H k (or_introl eq_refl)) as (v & -> & NV).
    destruct (elide_xmlns c k v).
    + cbn [app]. apply IH; [exact B|]. intros k' Hk. apply H. right. exact Hk.
    + unfold emit_escaped. rewrite escape_xml_ok by exact NV.
      rewrite emit_next by exact B. cbn [rbind app].
      rewrite IH; [|exact B|intros k' Hk; apply H; right; exact Hk].
      rewrite <- app_assoc. reflexivity.
Qed.

Lemma render_children_ok : forall c buf0 ptr0 buflen cs acc,
  bnd buf0 ptr0 buflen ->
  Forall (fun t => forall c buf ptr buflen, renderable t -> bnd buf ptr buflen ->
                   render_rec c t buf ptr buflen = snprintf buf ptr buflen (render c t)) cs ->
  Forall renderable cs ->
  render_children c cs buflen (st_after buf0 ptr0 buflen acc)
  = ROk (st_after buf0 ptr0 buflen (acc ++ flat_map (render c) cs)).
Proof.
  intros c buf0 ptr0 buflen cs. induction cs as [|ch r IH]; intros acc B HI HR.
  - cbn [flat_map]. rewrite app_nil_r. reflexivity.
  - inversion HI as [|? ? I1 I2]; subst. inversion HR as [|? ? R1 R2]; subst.
    rewrite render_children_cons. cbn [flat_map].
    rewrite I1 by (auto using st_after_bnd).
    pose proof (emit_next buf0 ptr0 buflen acc (render c ch) B) as E.
    unfold emit in E.
    destruct (snprintf (r_buf (st_after buf0 ptr0 buflen acc)) (r_ptr (st_after buf0 ptr0 buflen acc))
                (r_left (st_after buf0 ptr0 buflen acc)) (render c ch)) as [[b ret]| | | |]; try discriminate.
    injection E as E. rewrite E.
    rewrite IH by assumption. rewrite <- app_assoc. reflexivity.
Qed.

Lemma render_rec_is_snprintf : forall t c buf ptr buflen,
  renderable t -> bnd buf ptr buflen ->
  render_rec c t buf ptr buflen = snprintf buf ptr buflen (render c t).
Proof.
  induction t as [cs0 IH0|s|name a cs IH] using tree_ind2; intros c buf ptr buflen R B.
  - inversion R.
  - inversion R as [s' NS|]; subst.
    cbn [render_rec render]. unfold emit_escaped. rewrite escape_xml_ok by exact NS.
    cbn [app]. rewrite emit_first by exact B. cbn [rbind].
    apply st_after_done. exact B.
  - inversion R as [|name' a' cs' RA RC]; subst.
    rewrite render_rec_tag. rewrite emit_first by exact B. cbn [rbind].
    cbn [render].
    set (a0 := format fmt_open [name]).
    set (ach := match a with Some h => flat_map (attr_chunk c h) (hash_keys h) | None => [] end).
    assert (EA : (match a with
                  | Some h => if 0 <? hash_num_keys h
                              then render_attrs c h (hash_keys h) buflen (st_after buf ptr buflen a0)
                              else ROk (st_after buf ptr buflen a0)
                  | None => ROk (st_after buf ptr buflen a0)
                  end) = ROk (st_after buf ptr buflen (a0 ++ ach))).
    { subst ach. destruct a as [h|]; [|rewrite app_nil_r; reflexivity].
      destruct (0 <? hash_num_keys h) eqn:E.
      - apply render_attrs_ok; [exact B|exact RA].
      - unfold hash_num_keys, hash_keys in *.
        destruct (hash_items h) as [|x l]; [cbn [map flat_map]; rewrite app_nil_r; reflexivity|].
        rewrite zlen_cons in E. pose proof (zlen_nonneg _ l). lia. }
    rewrite EA. cbn [rbind].
    destruct cs as [|ch cs'].
    + rewrite emit_next by exact B. cbn [rbind]. unfold rdone.
      rewrite st_after_done by exact B. rewrite <- app_assoc. reflexivity.
    + rewrite emit_next by exact B. cbn [rbind].
      rewrite render_children_ok by assumption. cbn [rbind].
      rewrite emit_next by exact B. cbn [rbind]. unfold rdone.
      rewrite st_after_done by exact B. rewrite <- !app_assoc. reflexivity.
Qed.

Lemma init_buf_range : 0 < stanza_init_buf < 2147483648.
Proof. split; reflexivity. Qed.

Lemma zlen_repeat : forall A (x : A) n, zlen (repeat x n) = Z.of_nat n.
Proof. intros. unfold zlen. rewrite repeat_length. reflexivity. Qed.

Lemma wr_last_keeps : forall (pre : cells) x tl p,
  zlen pre <= p < zlen (pre ++ x :: tl) -> (p = zlen pre -> x = Some 0) ->
  exists tl', wr_bytes (pre ++ x :: tl) p [0] = Some (pre ++ x :: tl') /\ length tl' = length tl.
Proof.
  intros pre x tl p H1 H2. pose proof (zlen_nonneg _ pre).
  rewrite wr_bytes_ok by (rewrite ?zlen_cons, ?zlen_nil; lia).
  unfold blitz. cbn [map length].
  rewrite zlen_app, zlen_cons in H1. unfold zlen in *.
  destruct (Z.eq_dec p (Z.of_nat (length pre))) as [E|E].
  - exists tl. split; [|reflexivity]. rewrite (H2 E).
    replace (Z.to_nat p) with (length pre + 0)%nat by lia.
    rewrite firstn_app_2, firstn_O, app_nil_r.
    rewrite skipn_app. rewrite skipn_all2 by lia.
    replace (length pre + 0 + 1 - length pre)%nat with 1%nat by lia. reflexivity.
  - set (k := (Z.to_nat p - length pre - 1)%nat).
    exists (firstn k tl ++ Some 0 :: skipn (S k) tl). split.
    + replace (Z.to_nat p) with (length pre + S k)%nat by lia.
      rewrite firstn_app_2. cbn [firstn].
      rewrite skipn_app. rewrite skipn_all2 by lia.
      replace (length pre + S k + 1 - length pre)%nat with (S (S k)) by lia.
      cbn [skipn app]. rewrite <- !app_assoc. reflexivity.
    + rewrite app_length. cbn [length]. rewrite firstn_length, skipn_length. lia.
Qed.

Lemma to_text_correct : forall c t, renderable t -> zlen (render c t) < 2147483648 ->
  exists rest,
    to_text c t = TOk (map Some (render c t) ++ Some 0 :: rest) (zlen (render c t)) /\
    zlen rest = Z.max stanza_init_buf (zlen (render c t) + 1) - (zlen (render c t) + 1).
Proof.
  intros c t R HL. pose proof init_buf_range as HI.
  set (r := render c t) in *. pose proof (zlen_nonneg _ r) as Hr.
  unfold to_text.
  assert (B1 : bnd (repeat None (Z.to_nat stanza_init_buf)) (Some 0) stanza_init_buf).
  { split; [lia|]. right. exists 0. rewrite zlen_repeat. repeat split; lia. }
  rewrite render_rec_is_snprintf by assumption. fold r.
  rewrite snprintf_ok by exact B1.
  destruct (stanza_init_buf - 1 <? zlen r) eqn:E.
  - (* second pass with exactly zlen r + 1 bytes *)
    set (b1 := sn_buf (repeat None (Z.to_nat stanza_init_buf)) (Some 0) stanza_init_buf r).
    assert (L2 : zlen (realloc b1 (zlen r + 1)) = zlen r + 1).
    { unfold realloc, zlen. rewrite app_length, firstn_length, repeat_length.
      assert (zlen b1 = stanza_init_buf).
      { unfold b1. rewrite sn_buf_length by exact B1. rewrite zlen_repeat. lia. }
      unfold zlen in *. lia. }
    assert (B2 : bnd (realloc b1 (zlen r + 1)) (Some 0) (zlen r + 1)).
    { split; [lia|]. right. exists 0. repeat split; lia. }
    rewrite render_rec_is_snprintf by assumption. fold r.
    rewrite snprintf_ok by exact B2.
    destruct (zlen r + 1 - 1 <? zlen r) eqn:E2; [lia|].
    exists []. split; [|rewrite zlen_nil; lia].
    unfold sn_buf. destruct (zlen r + 1 =? 0) eqn:E3; [lia|].
    replace (Z.min (zlen r + 1 - 1) (zlen r)) with (zlen r) by lia.
    rewrite (firstn_all2 r) by (unfold zlen; lia).
    assert (EB : blitz (realloc b1 (zlen r + 1)) 0 (r ++ [0]) = map Some r ++ [Some 0]).
    { unfold blitz. cbn [Z.to_nat firstn app plus].
      rewrite skipn_all2 by (rewrite app_length; cbn [length]; unfold zlen in *; lia).
      rewrite app_nil_r, map_app. reflexivity. }
    rewrite EB. unfold tt_finish.
    destruct (wr_last_keeps (map Some r) (Some 0) [] (zlen r + 1 - 1)) as (tl' & W & LT).
    { rewrite zlen_map, zlen_app, zlen_map, zlen_cons, zlen_nil. lia. }
    { reflexivity. }
    rewrite W. destruct tl'; [reflexivity|discriminate].
  - (* the first buffer was large enough *)
    unfold sn_buf. destruct (stanza_init_buf =? 0) eqn:E3; [lia|].
    replace (Z.min (stanza_init_buf - 1) (zlen r)) with (zlen r) by lia.
    rewrite (firstn_all2 r) by (unfold zlen; lia).
    unfold blitz. cbn [Z.to_nat firstn app plus]. rewrite map_app. rewrite <- app_assoc. cbn [map app].
    set (tl := skipn (length (r ++ [0])) (repeat None (Z.to_nat stanza_init_buf))).
    assert (LT : zlen tl = stanza_init_buf - (zlen r + 1)).
    { unfold tl, zlen. rewrite skipn_length, repeat_length, app_length. cbn [length]. unfold zlen in *. lia. }
    unfold tt_finish.
    destruct (wr_last_keeps (map Some r) (Some 0) tl (stanza_init_buf - 1)) as (tl' & W & LT').
    { rewrite zlen_map, zlen_app, zlen_map, zlen_cons. pose proof (zlen_nonneg _ tl). lia. }
    { reflexivity. }
    rewrite W. exists tl'. split; [reflexivity|].
    unfold zlen in *. lia.
Qed.

(* what the caller sees: the C string in the returned allocation is the full rendering *)
Lemma to_text_cstring : forall c t buf len, renderable t -> zlen (render c t) < 2147483648 ->
  nul_free (render c t) -> to_text c t = TOk buf len ->
  cstring buf = Some (render c t) /\ len = zlen (render c t).
Proof.
  intros c t buf len R HL NF H.
  destruct (to_text_correct c t R HL) as (rest & E & _).
  rewrite E in H. injection H as <- <-.
  split; [apply cstring_prefix; exact NF|reflexivity].
Qed.

(* ==================================================================================== *)
(* D. the attribute table                                                               *)
(* ==================================================================================== *)
Lemma beq_true_iff : forall a b, beq a b = true <-> a = b.
Proof.
  induction a as [|x a IH]; destruct b as [|y b]; cbn [beq]; split; intro H; try congruence; try discriminate.
  - apply andb_true_iff in H. destruct H as [H1 H2]. apply IH in H2. f_equal; [lia|exact H2].
  - injection H as -> ->. apply andb_true_iff. split; [lia|apply IH; reflexivity].
Qed.
Lemma beq_refl : forall a, beq a a = true.
Proof. intro. apply beq_true_iff. reflexivity. Qed.
Lemma beq_false_iff : forall a b, beq a b = false <-> a <> b.
Proof.
  intros. destruct (beq a b) eqn:E.
  - apply beq_true_iff in E. split; [discriminate|congruence].
  - split; [|reflexivity]. intros _ H. apply beq_true_iff in H. congruence.
Qed.
Lemma beq_sym : forall a b, beq a b = beq b a.
Proof.
  intros. destruct (beq a b) eqn:E1; destruct (beq b a) eqn:E2; try reflexivity.
  - apply beq_true_iff in E1. subst. rewrite beq_refl in E2. discriminate.
  - apply beq_true_iff in E2. subst. rewrite beq_refl in E1. discriminate.
Qed.

Lemma set_nth_length : forall A n (l : list A) x, length (set_nth n l x) = length l.
Proof.
  intros A n l. revert n. induction l as [|y l IH]; intros n x; [destruct n; reflexivity|].
  destruct n; cbn [set_nth length]; [reflexivity|]. rewrite IH. reflexivity.
Qed.
Lemma nth_set_nth_same : forall A n (l : list A) x d, (n < length l)%nat -> nth n (set_nth n l x) d = x.
Proof.
  intros A n l. revert n. induction l as [|y l IH]; intros n x d H; [cbn in H; lia|].
  destruct n; cbn [set_nth nth]; [reflexivity|]. apply IH. cbn in H. lia.
Qed.
Lemma nth_set_nth_other : forall A n m (l : list A) x d, n <> m -> nth m (set_nth n l x) d = nth m l d.
Proof.
  intros A n m l. revert n m. induction l as [|y l IH]; intros n m x d H; [destruct n; reflexivity|].
  destruct n; destruct m; cbn [set_nth nth]; try reflexivity; try congruence. apply IH. congruence.
Qed.

(* well-formed tables: the bucket array has h_len > 0 chains, every entry sits in the bucket of its
   key, keys are distinct within a chain *)
Definition htable_ok (t : htable) : Prop :=
  0 < h_len t /\ length (h_entries t) = Z.to_nat (h_len t) /\
  forall i, (i < length (h_entries t))%nat ->
    NoDup (map fst (nth i (h_entries t) [])) /\
    forall k v, In (k, v) (nth i (h_entries t) []) -> hash_key t k = Z.of_nat i.

Lemma hash_key_range : forall t k, 0 < h_len t -> 0 <= hash_key t k < h_len t.
Proof. intros. unfold hash_key. apply Z.mod_pos_bound. assumption. Qed.

Lemma hash_key_idx : forall t k, htable_ok t -> (Z.to_nat (hash_key t k) < length (h_entries t))%nat.
Proof. intros t k (H1 & H2 & _). pose proof (hash_key_range t k H1). lia. Qed.

Lemma hash_new_ok : forall n, 0 < n -> htable_ok (hash_new n).
Proof.
  intros n H. unfold hash_new, htable_ok. cbn [h_len h_entries]. rewrite repeat_length.
  split; [exact H|]. split; [reflexivity|].
  intros i Hi. rewrite nth_repeat. split; [constructor|]. intros k v [].
Qed.

Lemma hash_get_new : forall n k, hash_get (hash_new n) k = None.
Proof.
  intros. unfold hash_get, bucket, hash_new. cbn [h_entries]. rewrite nth_repeat. reflexivity.
Qed.

Lemma chain_find_some_in : forall ch k v, chain_find ch k = Some v -> In (k, v) ch.
Proof.
  induction ch as [|[k' v'] ch IH]; intros k v H; [discriminate|].
  cbn [chain_find] in H. destruct (beq k k') eqn:E.
  - apply beq_true_iff in E. injection H as ->. subst. left. reflexivity.
  - right. apply IH. exact H.
Qed.
Lemma chain_find_none_notin : forall ch k, chain_find ch k = None -> ~ In k (map fst ch).
Proof.
  induction ch as [|[k' v'] ch IH]; intros k H; [intros []|].
  cbn [chain_find] in H. destruct (beq k k') eqn:E; [discriminate|].
  apply beq_false_iff in E. cbn [map fst]. intros [A|A]; [congruence|]. exact (IH k H A).
Qed.
Lemma chain_find_in : forall ch k v, NoDup (map fst ch) -> In (k, v) ch -> chain_find ch k = Some v.
Proof.
  induction ch as [|[k' v'] ch IH]; intros k v ND H; [destruct H|].
  cbn [map fst] in ND. inversion ND as [|? ? N1 N2]; subst.
  cbn [chain_find]. destruct H as [H|H].
  - injection H as -> ->. rewrite beq_refl. reflexivity.
  - destruct (beq k k') eqn:E.
    + apply beq_true_iff in E. subst. exfalso. apply N1. apply in_map_iff. exists (k', v). split; [reflexivity|exact H].
    + apply IH; assumption.
Qed.

Lemma chain_replace_find : forall ch k v k',
  chain_find (chain_replace ch k v) k' =
  if beq k' k then match chain_find ch k with Some _ => Some v | None => None end else chain_find ch k'.
Proof.
  induction ch as [|[k0 v0] ch IH]; intros k v k'.
  - cbn. destruct (beq k' k); reflexivity.
  - cbn [chain_replace chain_find]. destruct (beq k k0) eqn:E.
    + apply beq_true_iff in E. subst k0. cbn [chain_find]. destruct (beq k' k); reflexivity.
    + cbn [chain_find]. rewrite IH. destruct (beq k' k0) eqn:E2; [|reflexivity].
      apply beq_true_iff in E2. subst k0.
      destruct (beq k' k) eqn:E3; [|reflexivity].
      apply beq_true_iff in E3. subst. rewrite beq_refl in E. discriminate.
Qed.
Lemma chain_replace_keys : forall ch k v, map fst (chain_replace ch k v) = map fst ch.
Proof.
  induction ch as [|[k0 v0] ch IH]; intros k v; [reflexivity|].
  cbn [chain_replace]. destruct (beq k k0); cbn [map fst]; [reflexivity|]. rewrite IH. reflexivity.
Qed.
Lemma chain_replace_in : forall ch k v k1 v1, In (k1, v1) (chain_replace ch k v) ->
  In k1 (map fst ch).
Proof.
  intros. rewrite <- (chain_replace_keys ch k v). apply in_map_iff. exists (k1, v1). split; [reflexivity|assumption].
Qed.

Lemma bucket_set_same : forall t i ch, (i < length (h_entries t))%nat ->
  nth i (set_nth i (h_entries t) ch) [] = ch.
Proof. intros. apply nth_set_nth_same. assumption. Qed.

Lemma hash_key_mk : forall t e k, hash_key (mkH (h_len t) e) k = hash_key t k.
Proof. reflexivity. Qed.

Lemma hash_get_add : forall t k v k', htable_ok t ->
  hash_get (hash_add t k v) k' = if beq k' k then Some v else hash_get t k'.
Proof.
  intros t k v k' OK. pose proof (hash_key_idx t k OK) as Hi.
  unfold hash_add, hash_get at 1. unfold bucket.
  destruct (chain_find (nth (Z.to_nat (hash_key t k)) (h_entries t) []) k) eqn:F;
    cbn [h_entries]; rewrite hash_key_mk.
  - destruct (Nat.eq_dec (Z.to_nat (hash_key t k)) (Z.to_nat (hash_key t k'))) as [E|E].
    + rewrite <- E. rewrite nth_set_nth_same by exact Hi. rewrite chain_replace_find, F.
      destruct (beq k' k); [reflexivity|]. unfold hash_get, bucket. rewrite <- E. reflexivity.
    + rewrite nth_set_nth_other by exact E.
      destruct (beq k' k) eqn:B; [apply beq_true_iff in B; subst; congruence|]. reflexivity.
  - destruct (Nat.eq_dec (Z.to_nat (hash_key t k)) (Z.to_nat (hash_key t k'))) as [E|E].
    + rewrite <- E. rewrite nth_set_nth_same by exact Hi. cbn [chain_find].
      destruct (beq k' k); [reflexivity|]. unfold hash_get, bucket. rewrite <- E. reflexivity.
    + rewrite nth_set_nth_other by exact E.
      destruct (beq k' k) eqn:B; [apply beq_true_iff in B; subst; congruence|]. reflexivity.
Qed.

Lemma hash_add_ok : forall t k v, htable_ok t -> htable_ok (hash_add t k v).
Proof.
  intros t k v OK. pose proof (hash_key_idx t k OK) as Hi.
  destruct OK as (H1 & H2 & H3). pose proof (hash_key_range t k H1) as HR.
  unfold hash_add, bucket.
  destruct (chain_find (nth (Z.to_nat (hash_key t k)) (h_entries t) []) k) eqn:F;
    unfold htable_ok; cbn [h_len h_entries]; rewrite set_nth_length;
    (split; [exact H1|]); (split; [exact H2|]); intros i Hl;
    destruct (Nat.eq_dec (Z.to_nat (hash_key t k)) i) as [E|E].
  - subst i. rewrite nth_set_nth_same by exact Hi. destruct (H3 _ Hi) as (N & K).
    rewrite chain_replace_keys. split; [exact N|].
    intros k1 v1 HI. rewrite hash_key_mk.
    apply chain_replace_in in HI. apply in_map_iff in HI. destruct HI as ([k2 v2] & E2 & HI). cbn in E2. subst k2.
    apply (K k1 v2 HI).
  - rewrite nth_set_nth_other by exact E. destruct (H3 _ Hl) as (N & K). split; [exact N|].
    intros k1 v1 HI. rewrite hash_key_mk. apply (K k1 v1 HI).
  - subst i. rewrite nth_set_nth_same by exact Hi. destruct (H3 _ Hi) as (N & K).
    split.
    + cbn [map fst]. constructor; [apply chain_find_none_notin; exact F|exact N].
    + intros k1 v1 [HI|HI]; rewrite hash_key_mk.
      * injection HI as <- <-. lia.
      * apply (K k1 v1 HI).
  - rewrite nth_set_nth_other by exact E. destruct (H3 _ Hl) as (N & K). split; [exact N|].
    intros k1 v1 HI. rewrite hash_key_mk. apply (K k1 v1 HI).
Qed.

Lemma chain_remove_spec : forall ch k ch', NoDup (map fst ch) -> chain_remove ch k = Some ch' ->
  (forall k', chain_find ch' k' = if beq k' k then None else chain_find ch k') /\
  NoDup (map fst ch') /\ (forall kv, In kv ch' -> In kv ch).
Proof.
  induction ch as [|[k0 v0] ch IH]; intros k ch' ND H; [discriminate|].
  cbn [map fst] in ND. inversion ND as [|? ? N1 N2]; subst.
  cbn [chain_remove] in H. destruct (beq k k0) eqn:E.
  - injection H as <-. apply beq_true_iff in E. subst k0. repeat split; [|exact N2|intros; right; assumption].
    intro k'. cbn [chain_find]. destruct (beq k' k) eqn:E2; [|reflexivity].
    apply beq_true_iff in E2. subst k'.
    destruct (chain_find ch k) eqn:F; [|reflexivity].
    apply chain_find_some_in in F. exfalso. apply N1. apply in_map_iff. exists (k, b). split; [reflexivity|exact F].
  - destruct (chain_remove ch k) as [r'|] eqn:R; [|discriminate]. injection H as <-.
    destruct (IH k r' N2 R) as (A & B & C). repeat split.
    + intro k'. cbn [chain_find]. rewrite A. destruct (beq k' k0) eqn:E2; [|reflexivity].
      apply beq_true_iff in E2. subst k'. rewrite beq_sym, E. reflexivity.
    + cbn [map fst]. constructor; [|exact B]. intro HI. apply N1.
      apply in_map_iff in HI. destruct HI as (kv & E1 & HI). apply in_map_iff. exists kv. split; [exact E1|apply C; exact HI].
    + intros kv [HI|HI]; [left; exact HI|right; apply C; exact HI].
Qed.

Lemma chain_remove_none : forall ch k, chain_remove ch k = None -> chain_find ch k = None.
Proof.
  induction ch as [|[k0 v0] ch IH]; intros k H; [reflexivity|].
  cbn [chain_remove] in H. cbn [chain_find]. destruct (beq k k0); [discriminate|].
  destruct (chain_remove ch k) eqn:R; [discriminate|]. apply IH. exact R.
Qed.

Lemma hash_drop_spec : forall t k, htable_ok t ->
  htable_ok (fst (hash_drop t k)) /\
  forall k', hash_get (fst (hash_drop t k)) k' = if beq k' k then None else hash_get t k'.
Proof.
  intros t k OK. pose proof (hash_key_idx t k OK) as Hi.
  pose proof OK as (H1 & H2 & H3).
  unfold hash_drop, bucket.
  destruct (chain_remove (nth (Z.to_nat (hash_key t k)) (h_entries t) []) k) as [ch'|] eqn:R; cbn [fst].
  - destruct (H3 _ Hi) as (N & K).
    destruct (chain_remove_spec _ _ _ N R) as (A & B & C). split.
    + unfold htable_ok. cbn [h_len h_entries]. rewrite set_nth_length.
      split; [exact H1|]. split; [exact H2|]. intros i Hl.
      destruct (Nat.eq_dec (Z.to_nat (hash_key t k)) i) as [E|E].
      * subst i. rewrite nth_set_nth_same by exact Hi. split; [exact B|].
        intros k1 v1 HI. rewrite hash_key_mk. apply (K k1 v1). apply C. exact HI.
      * rewrite nth_set_nth_other by exact E. destruct (H3 _ Hl) as (N' & K'). split; [exact N'|].
        intros k1 v1 HI. rewrite hash_key_mk. apply (K' k1 v1 HI).
    + intro k'. unfold hash_get at 1. unfold bucket. cbn [h_entries]. rewrite hash_key_mk.
      destruct (Nat.eq_dec (Z.to_nat (hash_key t k)) (Z.to_nat (hash_key t k'))) as [E|E].
      * rewrite <- E. rewrite nth_set_nth_same by exact Hi. rewrite A.
        destruct (beq k' k); [reflexivity|]. unfold hash_get, bucket. rewrite <- E. reflexivity.
      * rewrite nth_set_nth_other by exact E.
        destruct (beq k' k) eqn:B'; [apply beq_true_iff in B'; subst; congruence|]. reflexivity.
  - split; [exact OK|]. intro k'. destruct (beq k' k) eqn:B; [|reflexivity].
    apply beq_true_iff in B. subst k'. unfold hash_get, bucket. apply chain_remove_none. exact R.
Qed.

(* enumeration and lookup agree *)
Lemma hash_items_in : forall t k v, In (k, v) (hash_items t) <->
  exists i, (i < length (h_entries t))%nat /\ In (k, v) (nth i (h_entries t) []).
Proof.
  intros t k v. unfold hash_items. rewrite in_concat. split.
  - intros (ch & H1 & H2). apply In_nth with (d := []) in H1. destruct H1 as (i & Hi & E).
    exists i. split; [exact Hi|]. rewrite E. exact H2.
  - intros (i & Hi & H). exists (nth i (h_entries t) []). split; [apply nth_In; exact Hi|exact H].
Qed.

Lemma hash_get_items : forall t k v, htable_ok t -> (hash_get t k = Some v <-> In (k, v) (hash_items t)).
Proof.
  intros t k v OK. pose proof (hash_key_idx t k OK) as Hi. pose proof OK as (H1 & H2 & H3).
  rewrite hash_items_in. unfold hash_get, bucket. split.
  - intro F. exists (Z.to_nat (hash_key t k)). split; [exact Hi|]. apply chain_find_some_in. exact F.
  - intros (i & Hl & HI). destruct (H3 _ Hl) as (N & K). pose proof (K k v HI) as E.
    rewrite E, Nat2Z.id. apply chain_find_in; assumption.
Qed.

Lemma hash_keys_found : forall t k, htable_ok t -> (In k (hash_keys t) <-> exists v, hash_get t k = Some v).
Proof.
  intros t k OK. unfold hash_keys. rewrite in_map_iff. split.
  - intros ([k' v] & E & HI). cbn in E. subst k'. exists v. apply hash_get_items; assumption.
  - intros (v & F). exists (k, v). split; [reflexivity|]. apply hash_get_items; assumption.
Qed.

(* attribute sets of stanzas *)
Definition attrs_ok (a : attrs) : Prop := match a with Some t => htable_ok t | None => True end.

Lemma attr_hash_size_pos : 0 < attr_hash_size. Proof. apply Gen_stanza_ok. Qed.

Lemma attr_set_ok : forall a k v, attrs_ok a -> attrs_ok (attr_set a k v).
Proof.
  intros [t|] k v H; cbn [attr_set attrs_ok]; apply hash_add_ok; [exact H|apply hash_new_ok; apply attr_hash_size_pos].
Qed.
Lemma attr_get_set : forall a k v k', attrs_ok a ->
  attr_get (attr_set a k v) k' = if beq k' k then Some v else attr_get a k'.
Proof.
  intros [t|] k v k' H; cbn [attr_set attr_get].
  - apply hash_get_add. exact H.
  - rewrite hash_get_add by (apply hash_new_ok; apply attr_hash_size_pos). rewrite hash_get_new. reflexivity.
Qed.
Lemma attr_del_ok : forall a k, attrs_ok a -> attrs_ok (fst (attr_del a k)).
Proof.
  intros [t|] k H; cbn [attr_del]; [|exact I].
  pose proof (hash_drop_spec t k H) as (A & _). destruct (hash_drop t k). exact A.
Qed.
Lemma attr_get_del : forall a k k', attrs_ok a ->
  attr_get (fst (attr_del a k)) k' = if beq k' k then None else attr_get a k'.
Proof.
  intros [t|] k k' H; cbn [attr_del].
  - pose proof (hash_drop_spec t k H) as (_ & B). specialize (B k'). destruct (hash_drop t k). exact B.
  - cbn. destruct (beq k' k); reflexivity.
Qed.

(* tables built through the API are renderable as far as lookups go *)
Lemma attrs_built_found : forall a, attrs_ok a ->
  match a with
  | Some h => forall k, In k (hash_keys h) -> exists v, hash_get h k = Some v
  | None => True
  end.
Proof. intros [h|] H; [|exact I]. intros k HI. apply hash_keys_found; assumption. Qed.

(* ==================================================================================== *)
(* E. copy, reply, reply_error, error_new                                               *)
(* ==================================================================================== *)
Inductive tree_wf : tree -> Prop :=
| wf_unk : forall cs, Forall tree_wf cs -> tree_wf (Unk cs)
| wf_text : forall s, tree_wf (Text s)
| wf_tag : forall name a cs, attrs_ok a -> Forall tree_wf cs -> tree_wf (Tag name a cs).

(* same node types, names, text, child order; the same attribute *set* (enumeration order may differ) *)
Inductive tree_equiv : tree -> tree -> Prop :=
| te_unk : forall cs cs', Forall2 tree_equiv cs cs' -> tree_equiv (Unk cs) (Unk cs')
| te_text : forall s, tree_equiv (Text s) (Text s)
| te_tag : forall name a a' cs cs',
    (forall k, attr_get a' k = attr_get a k) -> attrs_ok a' ->
    Forall2 tree_equiv cs cs' -> tree_equiv (Tag name a cs) (Tag name a' cs').

Lemma copy_attrs_loop_spec : forall src keys dst, htable_ok src -> attrs_ok dst ->
  (forall k, In k keys -> exists v, hash_get src k = Some v) ->
  exists a', copy_attrs_loop src keys dst = Some a' /\ attrs_ok a' /\
             forall k, (In k keys -> attr_get a' k = hash_get src k) /\
                       (~ In k keys -> attr_get a' k = attr_get dst k).
Proof.
  intros src keys. induction keys as [|k0 r IH]; intros dst OK OD F.
  - exists dst. split; [reflexivity|]. split; [exact OD|]. intro k. split; [intros []|reflexivity].
  - cbn [copy_attrs_loop]. destruct (F k0 (or_introl eq_refl)) as (v0 & E0). rewrite E0.
    destruct (IH (attr_set dst k0 v0) OK (attr_set_ok _ _ _ OD)) as (a' & E & OA & G).
    { intros k Hk. apply F. right. exact Hk. }
    exists a'. split; [exact E|]. split; [exact OA|].
    intro k. destruct (G k) as (G1 & G2). split.
    + intros [<-|Hk].
      * destruct (in_dec (list_eq_dec Z.eq_dec) k0 r) as [I|I]; [rewrite G1 by exact I; reflexivity|].
        rewrite G2 by exact I. rewrite attr_get_set by exact OD. rewrite beq_refl. symmetry. exact E0.
      * apply G1. exact Hk.
    + intro N. rewrite G2 by (intro; apply N; right; assumption).
      rewrite attr_get_set by exact OD.
      destruct (beq k k0) eqn:B; [|reflexivity].
      apply beq_true_iff in B. subst. exfalso. apply N. left. reflexivity.
Qed.

Lemma copy_attrs_spec : forall a, attrs_ok a ->
  exists a', copy_attrs a = Some a' /\ attrs_ok a' /\ forall k, attr_get a' k = attr_get a k.
Proof.
  intros [h|] OK; cbn [copy_attrs].
  - destruct (copy_attrs_loop_spec h (hash_keys h) None OK I) as (a' & E & OA & G).
    { intros k Hk. apply hash_keys_found; assumption. }
    exists a'. split; [exact E|]. split; [exact OA|]. intro k. destruct (G k) as (G1 & G2). cbn [attr_get].
    destruct (in_dec (list_eq_dec Z.eq_dec) k (hash_keys h)) as [HI|HI]; [apply G1; exact HI|].
    rewrite G2 by exact HI. cbn [attr_get].
    destruct (hash_get h k) eqn:F; [|reflexivity].
    exfalso. apply HI. apply hash_keys_found; [exact OK|]. exists b. exact F.
  - exists None. split; [reflexivity|]. split; [exact I|]. reflexivity.
Qed.

Lemma copy_tree_tag : forall name a cs,
  copy_tree (Tag name a cs) =
  match copy_attrs a with
  | None => None
  | Some a' => match copy_list copy_tree cs with None => None | Some cs' => Some (Tag name a' cs') end
  end.
Proof. reflexivity. Qed.

Lemma copy_tree_unk : forall cs,
  copy_tree (Unk cs) = match copy_list copy_tree cs with None => None | Some cs' => Some (Unk cs') end.
Proof. reflexivity. Qed.

Lemma copy_list_spec : forall cs,
  Forall (fun t => tree_wf t -> exists t', copy_tree t = Some t' /\ tree_equiv t t' /\ tree_wf t') cs ->
  Forall tree_wf cs ->
  exists cs', copy_list copy_tree cs = Some cs' /\ Forall2 tree_equiv cs cs' /\ Forall tree_wf cs'.
Proof.
  induction cs as [|ch r IHr]; intros IH WC; [exists []; repeat split; constructor|].
  inversion IH as [|? ? I1 I2]; subst. inversion WC as [|? ? W1 W2]; subst.
  destruct (I1 W1) as (ch' & E1 & Q1 & V1). destruct (IHr I2 W2) as (r' & E2 & Q2 & V2).
  exists (ch' :: r'). cbn [copy_list]. rewrite E1, E2.
  repeat split; constructor; assumption.
Qed.

(* xmpp_stanza_copy never fails on a well-formed tree and yields an equal tree *)
Lemma copy_tree_spec : forall t, tree_wf t -> exists t', copy_tree t = Some t' /\ tree_equiv t t' /\ tree_wf t'.
Proof.
  induction t as [cs IH|s|name a cs IH] using tree_ind2; intro W.
  - inversion W as [? WC| |]; subst. rewrite copy_tree_unk.
    destruct (copy_list_spec cs IH WC) as (cs' & -> & Q & V).
    exists (Unk cs'). repeat split; constructor; assumption.
  - exists (Text s). repeat split; constructor.
  - inversion W as [| |? ? ? OA WC]; subst.
    rewrite copy_tree_tag.
    destruct (copy_attrs_spec a OA) as (a' & -> & OA' & G).
    destruct (copy_list_spec cs IH WC) as (cs' & -> & Q & V).
    exists (Tag name a' cs'). repeat split; constructor; assumption.
Qed.

(* copying twice gives the same text as copying once would suggest: equal trees have equal canonical
   content; here: the relation is an equivalence on the attribute sets *)
Lemma tree_equiv_attr : forall t t' k, tree_equiv t t' -> tree_attr t' k = tree_attr t k.
Proof. intros t t' k H. inversion H; subst; cbn [tree_attr]; auto. Qed.

(* ---- reply ---- *)
Definition only_attr (a : attrs) (k v : bstr) : Prop :=
  forall k', attr_get a k' = if beq k' k then Some v else None.

Lemma only_attr_set : forall k v, only_attr (attr_set None k v) k v.
Proof. intros k v k'. rewrite attr_get_set by exact I. reflexivity. Qed.

Lemma reply_deleted_eq : reply_deleted = [k_to; k_from; xmlns_key].
Proof. destruct Gen_stanza_ok as (_ & _ & _ & _ & E & _ & _ & _ & _ & R & _). rewrite R, E. reflexivity. Qed.

Lemma stanza_reply_spec : forall name a cs, attrs_ok a ->
  match attr_get a k_from with
  | None => stanza_reply (Tag name a cs) = None
  | Some from =>
      exists a', stanza_reply (Tag name a cs) = Some (Tag name a' []) /\ attrs_ok a' /\
        attr_get a' k_to = Some from /\ attr_get a' k_from = None /\ attr_get a' xmlns_key = None /\
        forall k, k <> k_to -> k <> k_from -> k <> xmlns_key -> attr_get a' k = attr_get a k
  end.
Proof.
  intros name a cs OK. unfold stanza_reply. cbn [tree_attr].
  destruct (attr_get a k_from) as [from|] eqn:F; [|reflexivity].
  destruct (copy_attrs_spec a OK) as (a1 & -> & O1 & G).
  rewrite reply_deleted_eq. cbn [fold_left].
  set (d1 := fst (attr_del a1 k_to)). set (d2 := fst (attr_del d1 k_from)). set (d3 := fst (attr_del d2 xmlns_key)).
  assert (O2 : attrs_ok d1) by (apply attr_del_ok; exact O1).
  assert (O3 : attrs_ok d2) by (apply attr_del_ok; exact O2).
  assert (O4 : attrs_ok d3) by (apply attr_del_ok; exact O3).
  exists (attr_set d3 k_to from). split; [reflexivity|]. split; [apply attr_set_ok; exact O4|].
  assert (X : xmlns_key = xmlns_name) by apply Gen_stanza_ok.
  refine (conj _ (conj _ (conj _ _))).
  - rewrite attr_get_set by exact O4. rewrite beq_refl. reflexivity.
  - rewrite attr_get_set by exact O4. replace (beq k_from k_to) with false by reflexivity.
    subst d3. rewrite attr_get_del by exact O3. rewrite X. replace (beq k_from xmlns_name) with false by reflexivity.
    subst d2. rewrite attr_get_del by exact O2. rewrite beq_refl. reflexivity.
  - rewrite attr_get_set by exact O4. rewrite X. replace (beq xmlns_name k_to) with false by reflexivity.
    subst d3. rewrite attr_get_del by exact O3. rewrite X, beq_refl. reflexivity.
  - intros k N1 N2 N3. rewrite attr_get_set by exact O4.
    apply beq_false_iff in N1, N2, N3. rewrite N1.
    subst d3. rewrite attr_get_del by exact O3. rewrite N3.
    subst d2. rewrite attr_get_del by exact O2. rewrite N2.
    subst d1. rewrite attr_get_del by exact O1. rewrite N1. apply G.
Qed.

Lemma stanza_reply_not_tag : (forall cs, stanza_reply (Unk cs) = None) /\ forall s, stanza_reply (Text s) = None.
Proof. split; reflexivity. Qed.

Lemma lits_eq : lit 0 = s_error /\ lit 1 = s_error /\ lit 2 = rfc_ns_stanzas /\ lit 3 = s_text /\ lit 4 = rfc_ns_stanzas.
Proof.
  destruct Gen_stanza_ok as (_ & _ & _ & _ & _ & _ & _ & _ & _ & _ & R & _).
  unfold lit. rewrite R. repeat split.
Qed.

(* RFC 6120 8.3: type='error', addressed back, <error type=..> holding the condition element qualified by
   the stanzas namespace and, when a description is given, <text> in the same namespace *)
Lemma stanza_reply_error_spec : forall name a cs ty cond text, attrs_ok a ->
  match attr_get a k_from with
  | None => stanza_reply_error (Tag name a cs) ty cond text = None
  | Some from =>
      exists a' ea ca ta,
        stanza_reply_error (Tag name a cs) ty cond text =
          Some (Tag name a'
                  [Tag s_error ea
                     (Tag cond ca [] ::
                      match text with Some x => [Tag s_text ta [Text x]] | None => [] end)]) /\
        attrs_ok a' /\
        attr_get a' k_type = Some s_error /\
        attr_get a' k_to = Some from /\
        attr_get a' k_from = attr_get a k_to /\
        attr_get a' xmlns_key = None /\
        (forall k, k <> k_to -> k <> k_from -> k <> xmlns_key -> k <> k_type -> attr_get a' k = attr_get a k) /\
        only_attr ea k_type ty /\ only_attr ca xmlns_key rfc_ns_stanzas /\ only_attr ta xmlns_key rfc_ns_stanzas
  end.
Proof.
  intros name a cs ty cond text OK. unfold stanza_reply_error.
  pose proof (stanza_reply_spec name a cs OK) as R.
  destruct (attr_get a k_from) as [from|] eqn:F; [|rewrite R; reflexivity].
  destruct R as (a0 & -> & O0 & G1 & G2 & G3 & G4).
  destruct lits_eq as (L0 & L1 & L2 & L3 & L4). rewrite L0, L1, L2, L3, L4.
  cbn [tree_attr].
  set (a1 := attr_set a0 k_type s_error).
  assert (O1 : attrs_ok a1) by (apply attr_set_ok; exact O0).
  assert (X : xmlns_key = xmlns_name) by apply Gen_stanza_ok.
  exists (match attr_get a k_to with Some to => attr_set a1 k_from to | None => a1 end),
         (attr_set None k_type ty), (attr_set None xmlns_key rfc_ns_stanzas), (attr_set None xmlns_key rfc_ns_stanzas).
  split; [destruct text; reflexivity|].
  destruct (attr_get a k_to) as [to|] eqn:T.
  - assert (O2 : attrs_ok (attr_set a1 k_from to)) by (apply attr_set_ok; exact O1).
    split; [exact O2|]. refine (conj _ (conj _ (conj _ (conj _ (conj _ (conj (only_attr_set _ _) (conj (only_attr_set _ _) (only_attr_set _ _)))))))).
    + rewrite attr_get_set by exact O1. replace (beq k_type k_from) with false by reflexivity.
      subst a1. rewrite attr_get_set by exact O0. rewrite beq_refl. reflexivity.
    + rewrite attr_get_set by exact O1. replace (beq k_to k_from) with false by reflexivity.
      subst a1. rewrite attr_get_set by exact O0. replace (beq k_to k_type) with false by reflexivity. exact G1.
    + rewrite attr_get_set by exact O1. rewrite beq_refl. reflexivity.
    + rewrite attr_get_set by exact O1. rewrite X. replace (beq xmlns_name k_from) with false by reflexivity.
      subst a1. rewrite attr_get_set by exact O0. replace (beq xmlns_name k_type) with false by reflexivity.
      rewrite <- X. exact G3.
    + intros k N1 N2 N3 N4. rewrite attr_get_set by exact O1.
      pose proof N2 as N2'. apply beq_false_iff in N2'. rewrite N2'.
      subst a1. rewrite attr_get_set by exact O0.
      pose proof N4 as N4'. apply beq_false_iff in N4'. rewrite N4'. apply G4; assumption.
  - split; [exact O1|]. refine (conj _ (conj _ (conj _ (conj _ (conj _ (conj (only_attr_set _ _) (conj (only_attr_set _ _) (only_attr_set _ _)))))))).
    + subst a1. rewrite attr_get_set by exact O0. rewrite beq_refl. reflexivity.
    + subst a1. rewrite attr_get_set by exact O0. replace (beq k_to k_type) with false by reflexivity. exact G1.
    + subst a1. rewrite attr_get_set by exact O0. replace (beq k_from k_type) with false by reflexivity. exact G2.
    + subst a1. rewrite attr_get_set by exact O0. rewrite X. replace (beq xmlns_name k_type) with false by reflexivity.
      rewrite <- X. exact G3.
    + intros k N1 N2 N3 N4. subst a1. rewrite attr_get_set by exact O0.
      pose proof N4 as N4'. apply beq_false_iff in N4'. rewrite N4'. apply G4; assumption.
Qed.

(* xmpp_error_new: <stream:error> holding the RFC 6120 4.9.3 condition for the enumerator (the default for
   values outside the enumeration), qualified by the streams namespace, and the optional <text> *)
Lemma error_new_spec : forall ty text,
  exists ca ta,
    error_new ty text =
      Tag s_stream_error None
        (Tag (if (0 <=? ty) && (ty <? zlen rfc_stream_conditions)
              then nth (Z.to_nat ty) rfc_stream_conditions stream_error_default else stream_error_default) ca [] ::
         match text with Some x => [Tag s_text ta [Text x]] | None => [] end) /\
    only_attr ca xmlns_key rfc_ns_streams /\ only_attr ta xmlns_key rfc_ns_streams /\
    In stream_error_default rfc_stream_conditions.
Proof.
  intros ty text.
  destruct Gen_stanza_ok as (_ & _ & _ & _ & _ & _ & _ & _ & _ & _ & _ & E1 & E2 & E3 & E4 & E5).
  exists (attr_set None xmlns_key rfc_ns_streams), (attr_set None xmlns_key rfc_ns_streams).
  split; [|exact (conj (only_attr_set _ _) (conj (only_attr_set _ _) E5))].
  unfold error_new. rewrite E1, E2, E3, E4. destruct text; reflexivity.
Qed.

(* ==================================================================================== *)
(* F. render / parse round trip                                                         *)
(* ==================================================================================== *)
(* the abstract document a DOM tree stands for, with dns the default namespace in scope: adjacent text
   nodes merge, empty text disappears, an element's own xmlns attribute (or else the inherited one) is its
   namespace and is not listed among the attributes *)
Definition flush (acc : bstr) : list xtree := match acc with [] => [] | _ :: _ => [XText acc] end.

Section CanonList.
  Variable f : tree -> xtree.
  Fixpoint canon_list (cs : list tree) (acc : bstr) {struct cs} : list xtree :=
    match cs with
    | [] => flush acc
    | Text s :: r => canon_list r (acc ++ s)
    | Unk _ :: r => canon_list r acc
    | (Tag _ _ _ as e) :: r => flush acc ++ f e :: canon_list r []
    end.
End CanonList.

Definition own_ns (a : attrs) (dns : bstr) : bstr :=
  match attr_get a xmlns_key with Some v => v | None => dns end.
Definition attr_items (a : attrs) : list (bstr * bstr) :=
  match a with Some h => hash_items h | None => [] end.
Definition canon_attrs (a : attrs) : list (bstr * bstr) :=
  filter (fun kv => negb (xeq (fst kv) xmlns_name)) (attr_items a).

Fixpoint canon (dns : bstr) (t : tree) : xtree :=
  match t with
  | Unk _ => XText []
  | Text s => XText s
  | Tag name a cs => XElem (own_ns a dns) name (canon_attrs a) (canon_list (canon (own_ns a dns)) cs [])
  end.

(* names the parser can read back: non-empty runs of name bytes *)
Definition good_name (n : bstr) : Prop := n <> [] /\ forallb name_byte n = true.

Inductive rt_wf : tree -> Prop :=
| rtw_text : forall s, rt_wf (Text s)
| rtw_tag : forall name a cs, good_name name -> attrs_ok a ->
    (forall k v, In (k, v) (attr_items a) -> good_name k) ->
    Forall rt_wf cs -> rt_wf (Tag name a cs).

(* ---- formats ---- *)
Lemma fmt_open_eq : forall name, format fmt_open [name] = 60 :: name.
Proof. intro. unfold fmt_open. rewrite formats_eq. cbn. rewrite app_nil_r. reflexivity. Qed.
Lemma fmt_attr_eq : forall k e, format fmt_attr [k; e] = 32 :: k ++ 61 :: 34 :: e ++ [34].
Proof. intros. unfold fmt_attr. rewrite formats_eq. cbn. reflexivity. Qed.
Lemma fmt_text_eq : forall e, format fmt_text [e] = e.
Proof. intro. unfold fmt_text. rewrite formats_eq. cbn. rewrite app_nil_r. reflexivity. Qed.
Lemma fmt_close_eq : forall name, format fmt_close [name] = 60 :: 47 :: name ++ [62].
Proof. intro. unfold fmt_close. rewrite formats_eq. cbn. reflexivity. Qed.
Lemma fmt_empty_eq : fmt_empty = [47; 62].
Proof. unfold fmt_empty. rewrite formats_eq. reflexivity. Qed.
Lemma fmt_gt_eq : fmt_gt = [62].
Proof. unfold fmt_gt. rewrite formats_eq. reflexivity. Qed.

(* ---- scanning ---- *)
Definition stops (p : Z -> bool) (X : xstr) : Prop := match X with [] => True | c :: _ => p c = false end.

Lemma span_app_stop : forall p a X, forallb p a = true -> stops p X -> span p (a ++ X) = (a, X).
Proof.
  intros p a X. induction a as [|c a IH]; intros F S.
  - cbn [app]. destruct X as [|x X]; [reflexivity|]. cbn [span]. cbn in S. rewrite S. reflexivity.
  - cbn [forallb] in F. apply andb_true_iff in F. destruct F as [F1 F2].
    cbn [app span]. rewrite F1. rewrite IH by assumption. reflexivity.
Qed.

Lemma xeq_true_iff : forall a b, xeq a b = true <-> a = b.
Proof.
  induction a as [|x a IH]; destruct b as [|y b]; cbn [xeq]; split; intro H; try congruence; try discriminate.
  - apply andb_true_iff in H. destruct H as [H1 H2]. apply IH in H2. f_equal; [lia|exact H2].
  - injection H as -> ->. apply andb_true_iff. split; [lia|apply IH; reflexivity].
Qed.
Lemma xeq_refl : forall a, xeq a a = true.
Proof. intro. apply xeq_true_iff. reflexivity. Qed.
Lemma xeq_beq : forall a b, xeq a b = beq a b.
Proof.
  intros. destruct (beq a b) eqn:E.
  - apply beq_true_iff in E. subst. apply xeq_refl.
  - destruct (xeq a b) eqn:E2; [|reflexivity]. apply xeq_true_iff in E2. subst. rewrite beq_refl in E. discriminate.
Qed.

Lemma has_false_forallb : forall c s, has c s = false -> forallb (fun x => negb (x =? c)) s = true.
Proof.
  intros c s. unfold has. induction s as [|x s IH]; intro H; [reflexivity|].
  cbn [existsb] in H. apply orb_false_iff in H. destruct H as [H1 H2].
  cbn [forallb]. rewrite IH by exact H2. rewrite Z.eqb_sym, H1. reflexivity.
Qed.

Lemma good_name_head : forall n, good_name n -> exists c r, n = c :: r /\ name_byte c = true.
Proof.
  intros [|c r] (N & F); [congruence|]. exists c, r. split; [reflexivity|].
  cbn [forallb] in F. apply andb_true_iff in F. tauto.
Qed.

(* ---- attributes ---- *)
Definition attr_str (kv : bstr * bstr) : bstr := 32 :: fst kv ++ 61 :: 34 :: xml_escape (snd kv) ++ [34].

Lemma span_ws_one : forall c r, is_ws c = false -> span is_ws (32 :: c :: r) = ([32], c :: r).
Proof. intros c r H. cbn [span]. change (is_ws 32) with true. cbn [span]. rewrite H. reflexivity. Qed.

Lemma p_attrs_S : forall f s,
  p_attrs (S f) s =
  let (ws, s1) := span is_ws s in
  match s1 with
  | [] => None
  | c :: _ =>
      if name_byte c then
        match ws with
        | [] => None
        | _ :: _ =>
            let (k, s2) := span name_byte s1 in
            match s2 with
            | 61 :: 34 :: s3 =>
                let (raw, s4) := span (fun c => negb (c =? 34)) s3 in
                match s4 with
                | 34 :: s5 =>
                    if has 60 raw then None else
                    match unescape raw with
                    | None => None
                    | Some v =>
                        match p_attrs f s5 with
                        | None => None
                        | Some (l, rest) => Some ((k, v) :: l, rest)
                        end
                    end
                | _ => None
                end
            | _ => None
            end
        end
      else Some ([], s1)
  end.
Proof. reflexivity. Qed.

Lemma p_attrs_render : forall L Y fuel,
  (forall k v, In (k, v) L -> good_name k) ->
  (exists c Y', Y = c :: Y' /\ is_ws c = false /\ name_byte c = false) ->
  (length L < fuel)%nat ->
  p_attrs fuel (flat_map attr_str L ++ Y) = Some (L, Y).
Proof.
  induction L as [|[k v] L IH]; intros Y fuel G (c & Y' & -> & W & NB) HF.
  - destruct fuel as [|f]; [cbn in HF; lia|].
    cbn [flat_map app p_attrs span]. rewrite W, NB. reflexivity.
  - destruct fuel as [|f]; [cbn in HF; lia|].
    destruct (good_name_head k (G k v (or_introl eq_refl))) as (k0 & kr & -> & NB0).
    assert (GK : forallb name_byte (k0 :: kr) = true) by (apply (G (k0 :: kr) v); left; reflexivity).
    assert (W0 : is_ws k0 = false).
    { destruct (is_ws k0) eqn:W0; [|reflexivity]. unfold name_byte in NB0. rewrite W0 in NB0. cbn in NB0. discriminate. }
    set (tl := flat_map attr_str L ++ c :: Y').
    match goal with |- p_attrs _ ?X = _ =>
      replace X with (32 :: (k0 :: kr) ++ 61 :: 34 :: xml_escape v ++ [34] ++ tl) end.
    2:{ unfold tl. cbn [flat_map]. unfold attr_str. cbn [fst snd app].
        rewrite <- !app_assoc. cbn [app]. rewrite <- !app_assoc. reflexivity. }
    rewrite p_attrs_S. cbn [app]. rewrite span_ws_one by exact W0. cbv beta iota. rewrite NB0.
    rewrite app_comm_cons.
    rewrite (span_app_stop name_byte (k0 :: kr)); [|exact GK|reflexivity].
    destruct (escape_no_special v) as (E1 & E2 & E3). unfold c_lt, c_gt, c_quot in E1, E2, E3.
    rewrite (span_app_stop (fun c0 => negb (c0 =? 34)) (xml_escape v));
      [|apply has_false_forallb; exact E3|reflexivity].
    cbn [app]. rewrite E1. rewrite unescape_escape.
    unfold tl. rewrite IH; [reflexivity| |exists c, Y'; auto|cbn in HF; lia].
    intros k' v' HI. apply (G k' v'). right. exact HI.
Qed.

(* ---- keys of a well-formed table are pairwise distinct ---- *)
Lemma NoDup_app_intro : forall A (a b : list A), NoDup a -> NoDup b -> (forall x, In x a -> ~ In x b) -> NoDup (a ++ b).
Proof.
  induction a as [|x a IH]; intros b Ha Hb D; [exact Hb|].
  inversion Ha as [|? ? N1 N2]; subst. cbn [app]. constructor.
  - rewrite in_app_iff. intros [H|H]; [exact (N1 H)|]. exact (D x (or_introl eq_refl) H).
  - apply IH; [exact N2|exact Hb|]. intros y Hy. apply D. right. exact Hy.
Qed.

Lemma NoDup_concat_tagged : forall (ls : list (list bstr)) (g : bstr -> nat) off,
  (forall i x, (i < length ls)%nat -> In x (nth i ls []) -> g x = (off + i)%nat) ->
  (forall i, (i < length ls)%nat -> NoDup (nth i ls [])) ->
  NoDup (concat ls).
Proof.
  induction ls as [|l ls IH]; intros g off T N; [constructor|].
  cbn [concat]. apply NoDup_app_intro.
  - apply (N 0%nat). cbn. lia.
  - apply (IH g (S off)).
    + intros i x Hi Hx. rewrite (T (S i) x); [lia|cbn; lia|exact Hx].
    + intros i Hi. apply (N (S i)). cbn. lia.
  - intros x Hx Hc. apply in_concat in Hc. destruct Hc as (l' & Hl & Hx').
    apply In_nth with (d := []) in Hl. destruct Hl as (i & Hi & E).
    pose proof (T 0%nat x ltac:(cbn; lia) Hx) as T0.
    pose proof (T (S i) x ltac:(cbn; lia)) as T1. cbn [nth] in T1. rewrite E in T1. specialize (T1 Hx'). lia.
Qed.

Lemma hash_keys_nodup : forall t, htable_ok t -> NoDup (hash_keys t).
Proof.
  intros t (H1 & H2 & H3). unfold hash_keys, hash_items. rewrite concat_map.
  apply (NoDup_concat_tagged _ (fun k => Z.to_nat (hash_key t k)) 0%nat).
  - intros i x Hi Hx. rewrite map_length in Hi.
    assert (EQ : nth i (map (map fst) (h_entries t)) [] = map fst (nth i (h_entries t) []))
      by exact (map_nth (map fst) (h_entries t) [] i).
    rewrite EQ in Hx.
    apply in_map_iff in Hx. destruct Hx as ([k v] & E & HI). cbn in E. subst k.
    destruct (H3 i Hi) as (_ & K). rewrite (K x v HI). lia.
  - intros i Hi. rewrite map_length in Hi.
    assert (EQ : nth i (map (map fst) (h_entries t)) [] = map fst (nth i (h_entries t) []))
      by exact (map_nth (map fst) (h_entries t) [] i).
    rewrite EQ. apply H3. exact Hi.
Qed.

Lemma nodupb_true : forall l, NoDup l -> nodupb l = true.
Proof.
  induction l as [|k r IH]; intro N; [reflexivity|].
  inversion N as [|? ? N1 N2]; subst. cbn [nodupb]. rewrite IH by exact N2. rewrite andb_true_r.
  apply negb_true_iff. destruct (existsb (xeq k) r) eqn:E; [|reflexivity].
  apply existsb_exists in E. destruct E as (x & Hx & E). apply xeq_true_iff in E. subst. contradiction.
Qed.

Lemma assoc_in : forall l k v, NoDup (map fst l) -> In (k, v) l -> assoc k l = Some v.
Proof.
  induction l as [|[k' v'] l IH]; intros k v N H; [destruct H|].
  cbn [map fst] in N. inversion N as [|? ? N1 N2]; subst.
  cbn [assoc]. destruct H as [H|H].
  - injection H as -> ->. rewrite xeq_refl. reflexivity.
  - destruct (xeq k k') eqn:E.
    + apply xeq_true_iff in E. subst. exfalso. apply N1. apply in_map_iff. exists (k', v). split; [reflexivity|exact H].
    + apply IH; assumption.
Qed.
Lemma assoc_notin : forall l k, ~ In k (map fst l) -> assoc k l = None.
Proof.
  induction l as [|[k' v'] l IH]; intros k N; [reflexivity|].
  cbn [assoc]. destruct (xeq k k') eqn:E.
  - apply xeq_true_iff in E. subst. exfalso. apply N. left. reflexivity.
  - apply IH. intro H. apply N. right. exact H.
Qed.

(* ---- the attribute part of a start tag ---- *)
Definition kept (c : pctx) (kv : bstr * bstr) : bool := negb (elide_xmlns c (fst kv) (snd kv)).

Lemma render_attrs_str : forall c h l,
  (forall k v, In (k, v) l -> hash_get h k = Some v) ->
  flat_map (attr_chunk c h) (map fst l) = flat_map attr_str (filter (kept c) l).
Proof.
  intros c h. induction l as [|[k v] l IH]; intro F; [reflexivity|].
  cbn [map fst flat_map filter]. unfold attr_chunk at 1. rewrite (F k v (or_introl eq_refl)).
  unfold kept at 1. cbn [fst snd].
  rewrite IH by (intros k' v' HI; apply F; right; exact HI).
  destruct (elide_xmlns c k v); cbn [negb]; [reflexivity|].
  cbn [flat_map]. unfold attr_str at 1. cbn [fst snd]. rewrite fmt_attr_eq, escape_spec. reflexivity.
Qed.

Lemma elide_only_xmlns : forall c k v, elide_xmlns c k v = true -> k = xmlns_key.
Proof.
  intros c k v H. unfold elide_xmlns in H. destruct (beq k xmlns_key) eqn:E; [|discriminate].
  apply beq_true_iff. exact E.
Qed.

Lemma filter_kept_canon : forall c l,
  filter (fun kv => negb (xeq (fst kv) xmlns_name)) (filter (kept c) l)
  = filter (fun kv => negb (xeq (fst kv) xmlns_name)) l.
Proof.
  intros c. induction l as [|[k v] l IH]; [reflexivity|].
  cbn [filter]. unfold kept at 1. cbn [fst snd].
  destruct (elide_xmlns c k v) eqn:E; cbn [negb].
  - apply elide_only_xmlns in E. subst k.
    replace xmlns_key with xmlns_name by (symmetry; apply Gen_stanza_ok).
    rewrite xeq_refl. cbn [negb]. exact IH.
  - cbn [filter fst]. rewrite IH. reflexivity.
Qed.

Definition ctx_ok (c : pctx) (dns : bstr) : Prop :=
  match c with
  | NoParent => dns = rfc_ns_client
  | Parent (Some pv) => dns = pv
  | Parent None => True
  end.

Lemma elide_means_inherited : forall c dns v, ctx_ok c dns -> elide_xmlns c xmlns_key v = true -> v = dns.
Proof.
  intros c dns v OK H. unfold elide_xmlns in H. rewrite beq_refl in H.
  destruct c as [|[pv|]]; cbn in OK.
  - apply beq_true_iff in H. subst. symmetry. apply Gen_stanza_ok.
  - apply beq_true_iff in H. congruence.
  - discriminate.
Qed.

Lemma assoc_kept : forall c dns a, attrs_ok a -> ctx_ok c dns ->
  match assoc xmlns_name (filter (kept c) (attr_items a)) with Some v => v | None => dns end = own_ns a dns.
Proof.
  intros c dns a OK CO. unfold own_ns.
  assert (X : xmlns_key = xmlns_name) by apply Gen_stanza_ok. rewrite <- X.
  destruct a as [h|]; [|reflexivity]. cbn [attr_items attr_get]. cbn in OK.
  pose proof (hash_keys_nodup h OK) as ND. unfold hash_keys in ND.
  assert (NDf : NoDup (map fst (filter (kept c) (hash_items h)))).
  { clear -ND. induction (hash_items h) as [|kv l IH]; [constructor|].
    cbn [map] in ND. inversion ND as [|? ? N1 N2]; subst. cbn [filter].
    destruct (kept c kv); [|apply IH; exact N2]. cbn [map]. constructor; [|apply IH; exact N2].
    intro HI. apply N1. apply in_map_iff in HI. destruct HI as (x & E & HI). apply filter_In in HI.
    apply in_map_iff. exists x. tauto. }
  destruct (hash_get h xmlns_key) as [v|] eqn:F.
  - apply hash_get_items in F; [|exact OK].
    destruct (elide_xmlns c xmlns_key v) eqn:E.
    + rewrite assoc_notin; [symmetry; apply (elide_means_inherited c dns v CO E)|].
      intro HI. apply in_map_iff in HI. destruct HI as ([k' v'] & E1 & HI). cbn in E1. subst k'.
      apply filter_In in HI. destruct HI as (HI & K). unfold kept in K. cbn [fst snd] in K.
      assert (v' = v).
      { apply hash_get_items in HI; [|exact OK]. apply hash_get_items in F; [|exact OK]. congruence. }
      subst v'. rewrite E in K. discriminate.
    + rewrite (assoc_in _ xmlns_key v NDf); [reflexivity|].
      apply filter_In. split; [exact F|]. unfold kept. cbn [fst snd]. rewrite E. reflexivity.
  - rewrite assoc_notin; [reflexivity|].
    intro HI. apply in_map_iff in HI. destruct HI as ([k' v'] & E1 & HI). cbn in E1. subst k'.
    apply filter_In in HI. destruct HI as (HI & _). apply hash_get_items in HI; [|exact OK]. congruence.
Qed.

Lemma kept_nodup : forall c a, attrs_ok a -> nodupb (map fst (filter (kept c) (attr_items a))) = true.
Proof.
  intros c [h|] OK; [|reflexivity]. cbn [attr_items]. apply nodupb_true.
  pose proof (hash_keys_nodup h OK) as ND. unfold hash_keys in ND.
  induction (hash_items h) as [|kv l IH]; [constructor|].
  cbn [map] in ND. inversion ND as [|? ? N1 N2]; subst. cbn [filter].
  destruct (kept c kv); [|apply IH; exact N2]. cbn [map]. constructor; [|apply IH; exact N2].
  intro HI. apply N1. apply in_map_iff in HI. destruct HI as (x & E & HI). apply filter_In in HI.
  apply in_map_iff. exists x. tauto.
Qed.

Lemma render_attrs_of : forall c a, attrs_ok a ->
  match a with Some h => flat_map (attr_chunk c h) (hash_keys h) | None => [] end
  = flat_map attr_str (filter (kept c) (attr_items a)).
Proof.
  intros c [h|] OK; [|reflexivity]. cbn [attr_items]. unfold hash_keys.
  apply render_attrs_str. intros k v HI. apply hash_get_items; assumption.
Qed.

(* ---- elements and content ---- *)
Lemma p_elem_S : forall f dns s1,
  p_elem (S f) dns (60 :: s1) =
  let (name, s2) := span name_byte s1 in
  match name with
  | [] => None
  | _ :: _ =>
      match p_attrs (S (length s2)) s2 with
      | None => None
      | Some (al, s3) =>
          if negb (nodupb (map fst al)) then None else
          let ns := match assoc xmlns_name al with Some v => v | None => dns end in
          let al' := filter (fun kv => negb (xeq (fst kv) xmlns_name)) al in
          match s3 with
          | 47 :: 62 :: s4 => Some (XElem ns name al' [], s4)
          | 62 :: s4 =>
              match p_content f ns s4 with
              | None => None
              | Some (cs, s5) =>
                  match s5 with
                  | 60 :: 47 :: s6 =>
                      let (name2, s7) := span name_byte s6 in
                      if xeq name name2 then
                        match snd (span is_ws s7) with
                        | 62 :: s8 => Some (XElem ns name al' cs, s8)
                        | _ => None
                        end
                      else None
                  | _ => None
                  end
              end
          | _ => None
          end
      end
  end.
Proof. reflexivity. Qed.

Lemma p_content_S : forall f dns c r,
  p_content (S f) dns (c :: r) =
  if c =? 60 then
    match r with
    | [] => None
    | c2 :: _ =>
        if c2 =? 47 then Some ([], c :: r)
        else match p_elem f dns (c :: r) with
             | None => None
             | Some (e, s1) =>
                 match p_content f dns s1 with
                 | None => None
                 | Some (l, s2) => Some (e :: l, s2)
                 end
             end
    end
  else
    let (raw, s1) := span (fun c => negb (c =? 60)) (c :: r) in
    match unescape raw with
    | None => None
    | Some txt =>
        match p_content f dns s1 with
        | None => None
        | Some (l, s2) => Some (XText txt :: l, s2)
        end
    end.
Proof. reflexivity. Qed.

Lemma attr_str_len : forall L, (length L <= length (flat_map attr_str L))%nat.
Proof.
  induction L as [|kv L IH]; [cbn; lia|].
  cbn [flat_map length]. rewrite app_length. unfold attr_str at 1. cbn [length]. lia.
Qed.

Lemma stops_attrs : forall L c X, name_byte c = false -> stops name_byte (flat_map attr_str L ++ c :: X).
Proof. intros [|kv L] c X H; cbn; [exact H|reflexivity]. Qed.

Definition ns_of (L : list (bstr * bstr)) (dns : bstr) : bstr :=
  match assoc xmlns_name L with Some v => v | None => dns end.
Definition no_xmlns (L : list (bstr * bstr)) := filter (fun kv : bstr * bstr => negb (xeq (fst kv) xmlns_name)) L.

Lemma p_elem_shape_empty : forall f dns name L rest,
  good_name name -> (forall k v, In (k, v) L -> good_name k) -> nodupb (map fst L) = true ->
  p_elem (S f) dns (60 :: name ++ flat_map attr_str L ++ 47 :: 62 :: rest)
  = Some (XElem (ns_of L dns) name (no_xmlns L) [], rest).
Proof.
  intros f dns name L rest (NN & NF) GL ND.
  rewrite p_elem_S.
  rewrite (span_app_stop name_byte name); [|exact NF|apply stops_attrs; reflexivity].
  destruct name as [|n0 nr]; [congruence|].
  rewrite p_attrs_render; [|exact GL|exists 47, (62 :: rest); repeat split|].
  2:{ rewrite app_length. pose proof (attr_str_len L). lia. }
  cbv beta iota zeta. unfold bstr, xstr in *. rewrite ND. reflexivity.
Qed.

Lemma p_elem_shape_full : forall f dns name L X cs rest,
  good_name name -> (forall k v, In (k, v) L -> good_name k) -> nodupb (map fst L) = true ->
  p_content f (ns_of L dns) X = Some (cs, 60 :: 47 :: name ++ 62 :: rest) ->
  p_elem (S f) dns (60 :: name ++ flat_map attr_str L ++ 62 :: X)
  = Some (XElem (ns_of L dns) name (no_xmlns L) cs, rest).
Proof.
  intros f dns name L X cs rest (NN & NF) GL ND HC.
  rewrite p_elem_S.
  rewrite (span_app_stop name_byte name); [|exact NF|apply stops_attrs; reflexivity].
  destruct name as [|n0 nr]; [congruence|].
  rewrite p_attrs_render; [|exact GL|exists 62, X; repeat split|].
  2:{ rewrite app_length. pose proof (attr_str_len L). lia. }
  cbv beta iota zeta. unfold ns_of, no_xmlns in *. unfold bstr, xstr in *. rewrite ND. cbn [negb]. cbv beta iota zeta.
  rewrite HC. cbv beta iota zeta.
  rewrite (span_app_stop name_byte (n0 :: nr)); [|exact NF|reflexivity].
  rewrite xeq_refl. reflexivity.
Qed.

Lemma xml_escape_nonempty : forall s, s <> [] -> exists c r, xml_escape s = c :: r /\ c <> 60.
Proof.
  intros [|a s] H; [congruence|]. rewrite xml_escape_cons.
  destruct (xml_escape1_cases a) as [[-> ->]|[[-> ->]|[[-> ->]|[[-> ->]|(N1 & N2 & N3 & N4 & ->)]]]];
    cbn [app ent_lt ent_gt ent_amp ent_quot]; eexists; eexists; (split; [reflexivity|]); try discriminate.
  exact N1.
Qed.

Lemma p_content_end : forall f dns Z, p_content (S f) dns (60 :: 47 :: Z) = Some ([], 60 :: 47 :: Z).
Proof. reflexivity. Qed.

Lemma p_content_text : forall f dns acc X,
  acc <> [] -> (exists X', X = 60 :: X') ->
  p_content (S f) dns (xml_escape acc ++ X) =
  match p_content f dns X with Some (l, s2) => Some (XText acc :: l, s2) | None => None end.
Proof.
  intros f dns acc X NA (X' & ->).
  destruct (xml_escape_nonempty acc NA) as (c & r & E & NC).
  destruct (escape_no_special acc) as (E1 & _). unfold c_lt in E1.
  pose proof (has_false_forallb 60 _ E1) as FA.
  rewrite E in *. cbn [app]. rewrite p_content_S.
  destruct (c =? 60) eqn:C; [lia|].
  rewrite app_comm_cons. rewrite (span_app_stop _ (c :: r)); [|exact FA|reflexivity].
  rewrite <- E. rewrite unescape_escape. reflexivity.
Qed.

Lemma p_content_elem : forall f dns c2 Y, c2 <> 47 ->
  p_content (S f) dns (60 :: c2 :: Y) =
  match p_elem f dns (60 :: c2 :: Y) with
  | None => None
  | Some (e, s1) => match p_content f dns s1 with None => None | Some (l, s2) => Some (e :: l, s2) end
  end.
Proof.
  intros. rewrite p_content_S. cbn [Z.eqb Pos.eqb]. destruct (c2 =? 47) eqn:E; [lia|]. reflexivity.
Qed.

Lemma name_byte_not_slash : forall c, name_byte c = true -> c <> 47.
Proof. intros c H E. subst. cbn in H. discriminate. Qed.

(* the text of an element, decomposed *)
Lemma render_tag_eq : forall c name a cs, attrs_ok a ->
  render c (Tag name a cs) =
  60 :: name ++ flat_map attr_str (filter (kept c) (attr_items a)) ++
  match cs with
  | [] => [47; 62]
  | _ :: _ => 62 :: flat_map (render (child_ctx a)) cs ++ 60 :: 47 :: name ++ [62]
  end.
Proof.
  intros c name a cs OK. cbn [render]. rewrite fmt_open_eq, render_attrs_of by exact OK.
  rewrite fmt_empty_eq, fmt_gt_eq, fmt_close_eq. cbn [app]. destruct cs; reflexivity.
Qed.

Definition elem_goal (t : tree) : Prop :=
  match t with
  | Tag _ _ _ =>
      forall c dns rest fuel, ctx_ok c dns -> (length (render c t) <= fuel)%nat ->
        p_elem fuel dns (render c t ++ rest) = Some (canon dns t, rest)
  | _ => True
  end.

Lemma content_roundtrip : forall cctx ns cs,
  ctx_ok cctx ns ->
  Forall (fun t => rt_wf t -> elem_goal t) cs -> Forall rt_wf cs ->
  forall acc f Zt,
    (length (xml_escape acc) + length (flat_map (render cctx) cs) + 1 <= f)%nat ->
    p_content f ns (xml_escape acc ++ flat_map (render cctx) cs ++ 60 :: 47 :: Zt)
    = Some (canon_list (canon ns) cs acc, 60 :: 47 :: Zt).
Proof.
  intros cctx ns cs CO. induction cs as [|ch r IH]; intros HI HW acc f Zt HF.
  - cbn [flat_map app canon_list]. destruct f as [|f]; [lia|].
    destruct acc as [|a0 acc].
    + cbn [xml_escape flat_map app flush]. apply p_content_end.
    + rewrite p_content_text; [|discriminate|eexists; reflexivity].
      cbn [flat_map length] in HF.
      destruct f as [|f].
      { exfalso. destruct (xml_escape_nonempty (a0 :: acc) ltac:(discriminate)) as (c0 & r0 & E & _).
        rewrite E in HF. cbn [length] in HF. lia. }
      rewrite p_content_end. reflexivity.
  - inversion HI as [|? ? I1 I2]; subst. inversion HW as [|? ? W1 W2]; subst.
    destruct ch as [cs0|s|name a cs'].
    + inversion W1.
    + (* a text node joins the pending run *)
      cbn [flat_map canon_list]. cbn [render]. rewrite fmt_text_eq, escape_spec.
      rewrite <- app_assoc. rewrite app_assoc. rewrite <- xml_escape_app.
      apply IH; [exact I2|exact W2|].
      rewrite xml_escape_app, app_length. cbn [flat_map render] in HF.
      rewrite fmt_text_eq, escape_spec, app_length in HF. lia.
    + (* an element: flush the pending text, then the element, then the rest *)
      cbn [flat_map canon_list]. rewrite <- app_assoc.
      pose proof (I1 W1) as EG. cbn [elem_goal] in EG.
      inversion W1 as [|? ? ? GN OA GK WC]; subst.
      assert (HR : exists c2 Y, render cctx (Tag name a cs') = 60 :: c2 :: Y /\ c2 <> 47).
      { rewrite render_tag_eq by exact OA. destruct (good_name_head name GN) as (n0 & nr & -> & NB).
        cbn [app]. eexists; eexists; split; [reflexivity|]. apply name_byte_not_slash. exact NB. }
      destruct HR as (c2 & Y & ER & N47).
      cbn [flat_map] in HF. rewrite app_length in HF.
      assert (LR : (2 <= length (render cctx (Tag name a cs')))%nat) by (rewrite ER; cbn [length]; lia).
      assert (STEP : forall f', (length (render cctx (Tag name a cs')) + length (flat_map (render cctx) r) + 1 <= f')%nat ->
                p_content f' ns (render cctx (Tag name a cs') ++ flat_map (render cctx) r ++ 60 :: 47 :: Zt)
                = Some (canon ns (Tag name a cs') :: canon_list (canon ns) r [], 60 :: 47 :: Zt)).
      { intros f' HF'. destruct f' as [|f']; [lia|].
        rewrite ER. cbn [app]. rewrite p_content_elem by exact N47.
        change (60 :: c2 :: Y ++ flat_map (render cctx) r ++ 60 :: 47 :: Zt)
          with ((60 :: c2 :: Y) ++ flat_map (render cctx) r ++ 60 :: 47 :: Zt).
        rewrite <- ER. rewrite EG; [|exact CO|lia].
        pose proof (IH I2 W2 [] f' Zt) as IH0. cbn [xml_escape flat_map app length] in IH0.
        rewrite IH0 by lia. reflexivity. }
      destruct acc as [|a0 acc].
      * cbn [xml_escape flat_map app flush]. apply STEP. cbn [xml_escape flat_map length] in HF. lia.
      * destruct f as [|f]; [lia|].
        rewrite p_content_text; [|discriminate|exists (c2 :: Y ++ flat_map (render cctx) r ++ 60 :: 47 :: Zt); rewrite ER; reflexivity].
        rewrite STEP; [reflexivity|].
        destruct (xml_escape_nonempty (a0 :: acc) ltac:(discriminate)) as (c0 & r0 & E & _).
        rewrite E in HF. cbn [length] in HF. lia.
Qed.

Lemma elem_roundtrip : forall t, rt_wf t -> elem_goal t.
Proof.
  induction t as [cs0 IH0|s|name a cs IH] using tree_ind2; intro W; [exact I|exact I|].
  inversion W as [|? ? ? GN OA GK WC]; subst.
  cbn [elem_goal]. intros c dns rest fuel CO HF.
  rewrite render_tag_eq in * by exact OA.
  set (L := filter (kept c) (attr_items a)) in *.
  assert (GL : forall k v, In (k, v) L -> good_name k).
  { intros k v HI. apply filter_In in HI. apply (GK k v). tauto. }
  assert (ND : nodupb (map fst L) = true) by (apply kept_nodup; exact OA).
  assert (NS : ns_of L dns = own_ns a dns) by (apply assoc_kept; assumption).
  assert (CA : no_xmlns L = canon_attrs a) by (apply filter_kept_canon).
  destruct fuel as [|f]; [cbn [length] in HF; lia|].
  cbn [canon]. destruct cs as [|ch cs'].
  - cbn [app]. rewrite <- !app_assoc. cbn [app].
    rewrite p_elem_shape_empty by assumption. rewrite NS, CA. reflexivity.
  - cbn [app]. rewrite <- !app_assoc. cbn [app]. rewrite <- !app_assoc. cbn [app].
    rewrite (p_elem_shape_full f dns name L _ (canon_list (canon (own_ns a dns)) (ch :: cs') []) rest);
      try assumption.
    + rewrite NS, CA. reflexivity.
    + rewrite NS.
      pose proof (content_roundtrip (child_ctx a) (own_ns a dns) (ch :: cs')) as CR.
      specialize (CR ltac:(unfold child_ctx, own_ns, ctx_ok; destruct (attr_get a xmlns_key); auto)).
      specialize (CR IH WC [] f (name ++ 62 :: rest)).
      cbn [xml_escape flat_map app length] in CR. rewrite <- app_assoc in CR.
      cbn [flat_map]. rewrite <- !app_assoc. cbn [app].
      apply CR.
      cbn [length] in HF. rewrite !app_length in HF. cbn [length flat_map] in HF.
      rewrite !app_length in HF. cbn [length] in HF. rewrite app_length. lia.
Qed.

Lemma render_parse_roundtrip_proof : forall name a cs, rt_wf (Tag name a cs) ->
  spec_parse rfc_ns_client (render NoParent (Tag name a cs)) = Some (canon rfc_ns_client (Tag name a cs)).
Proof.
  intros name a cs W. unfold spec_parse.
  pose proof (elem_roundtrip _ W) as EG. cbn [elem_goal] in EG.
  specialize (EG NoParent rfc_ns_client [] (S (length (render NoParent (Tag name a cs)))) eq_refl ltac:(lia)).
  rewrite app_nil_r in EG. rewrite EG. reflexivity.
Qed.

(* rendered to text by xmpp_stanza_to_text and read back *)
Lemma to_text_parse_roundtrip_proof : forall name a cs,
  rt_wf (Tag name a cs) -> renderable (Tag name a cs) ->
  nul_free (render NoParent (Tag name a cs)) -> zlen (render NoParent (Tag name a cs)) < 2147483648 ->
  exists buf len s,
    to_text NoParent (Tag name a cs) = TOk buf len /\ cstring buf = Some s /\ len = zlen s /\
    spec_parse rfc_ns_client s = Some (canon rfc_ns_client (Tag name a cs)).
Proof.
  intros name a cs W R NF HL.
  destruct (to_text_correct NoParent _ R HL) as (rest & E & _).
  eexists; eexists; exists (render NoParent (Tag name a cs)). split; [exact E|].
  split; [apply cstring_prefix; exact NF|]. split; [reflexivity|].
  apply render_parse_roundtrip_proof. exact W.
Qed.

(* ==================================================================================== *)
(* G. the hypotheses are satisfiable; sanity evaluations                                 *)
(* ==================================================================================== *)
Definition ex_attrs : attrs := attr_set (attr_set (attr_set None [107] [34; 60]) xmlns_key [117; 58; 120]) [105; 100] [49].
Definition ex_tree : tree :=
  Tag [109; 115; 103] ex_attrs [Text [104; 38]; Text []; Tag [98] (attr_set None xmlns_key [117; 58; 120]) []; Text [62]].

Example ex_attrs_ok : attrs_ok ex_attrs.
Proof. unfold ex_attrs. repeat apply attr_set_ok. exact I. Qed.

Ltac solve_nf := let H := fresh "H" in intro H; vm_compute in H; repeat (destruct H as [H|H]; [discriminate H|]); destruct H.

Example ex_nul_free : nul_free [104; 38].
Proof. intros [H|[H|[]]]; discriminate. Qed.

Example ex_tree_wf : tree_wf ex_tree.
Proof.
  unfold ex_tree. constructor; [exact ex_attrs_ok|].
  constructor; [constructor|]. constructor; [constructor|].
  constructor; [constructor; [apply attr_set_ok; exact I|constructor]|].
  constructor; [constructor|constructor].
Qed.

Lemma ex_found : forall a, attrs_ok a ->
  (forall k v, In (k, v) (attr_items a) -> nul_free v) -> attrs_renderable a.
Proof.
  intros [h|] OK NF; [|exact I]. intros k HI.
  apply hash_keys_found in HI; [|exact OK]. destruct HI as (v & F). exists v. split; [exact F|].
  apply (NF k v). apply hash_get_items; assumption.
Qed.

Example ex_renderable : renderable ex_tree.
Proof.
  unfold ex_tree. constructor.
  - apply ex_found; [exact ex_attrs_ok|]. intros k v HI. vm_compute in HI.
    repeat (destruct HI as [HI|HI]; [injection HI as <- <-; solve_nf|]). destruct HI.
  - constructor; [constructor; solve_nf|].
    constructor; [constructor; solve_nf|].
    constructor.
    + constructor; [|constructor]. apply ex_found; [apply attr_set_ok; exact I|].
      intros k v HI. vm_compute in HI.
      repeat (destruct HI as [HI|HI]; [injection HI as <- <-; solve_nf|]). destruct HI.
    + constructor; [constructor; solve_nf|constructor].
Qed.

Example ex_rt_wf : rt_wf ex_tree.
Proof.
  unfold ex_tree. constructor.
  - split; [discriminate|reflexivity].
  - exact ex_attrs_ok.
  - intros k v HI. vm_compute in HI.
    repeat (destruct HI as [HI|HI]; [injection HI as <- <-; split; [discriminate|reflexivity]|]). destruct HI.
  - constructor; [constructor|]. constructor; [constructor|].
    constructor; [|constructor; [constructor|constructor]].
    constructor; [split; [discriminate|reflexivity]|apply attr_set_ok; exact I| |constructor].
    intros k v HI. vm_compute in HI.
    repeat (destruct HI as [HI|HI]; [injection HI as <- <-; split; [discriminate|reflexivity]|]). destruct HI.
Qed.

Example ex_render_short : zlen (render NoParent ex_tree) < 2147483648.
Proof. vm_compute. reflexivity. Qed.

Example ex_reply_hyp : attrs_ok (attr_set None k_from [97]) /\ attr_get (attr_set None k_from [97]) k_from = Some [97].
Proof. split; [apply attr_set_ok; exact I|vm_compute; reflexivity]. Qed.

(* the example, evaluated: text, parse, and the two-pass renderer on it *)
Example ex_eval :
  spec_parse rfc_ns_client (render NoParent ex_tree) = Some (canon rfc_ns_client ex_tree) /\
  (exists buf, to_text NoParent ex_tree = TOk buf (zlen (render NoParent ex_tree)) /\ cstring buf = Some (render NoParent ex_tree)).
Proof.
  split; [vm_compute; reflexivity|].
  eexists. split; vm_compute; reflexivity.
Qed.

Lemma attr_table_map_proof :
  forall a k v, attrs_ok a ->
    attrs_ok (attr_set a k v) /\ attrs_ok (fst (attr_del a k)) /\
    (forall k', attr_get (attr_set a k v) k' = if beq k' k then Some v else attr_get a k') /\
    (forall k', attr_get (fst (attr_del a k)) k' = if beq k' k then None else attr_get a k') /\
    match a with
    | Some h => NoDup (hash_keys h) /\ forall k', In k' (hash_keys h) <-> exists v', hash_get h k' = Some v'
    | None => True
    end.
Proof.
  intros a k v OK. split; [apply attr_set_ok; exact OK|]. split; [apply attr_del_ok; exact OK|].
  split; [intro; apply attr_get_set; exact OK|]. split; [intro; apply attr_get_del; exact OK|].
  destruct a as [h|]; [|exact I]. split; [apply hash_keys_nodup; exact OK|]. intro. apply hash_keys_found. exact OK.
Qed.

Lemma roundtrip_in_context_proof :
  forall name a cs c dns rest fuel, rt_wf (Tag name a cs) -> ctx_ok c dns ->
    (length (render c (Tag name a cs)) <= fuel)%nat ->
    p_elem fuel dns (render c (Tag name a cs) ++ rest) = Some (canon dns (Tag name a cs), rest).
Proof. intros name a cs c dns rest fuel W. exact (elem_roundtrip _ W c dns rest fuel). Qed.

(* ==================================================================================== *)
(* H. copies live in fresh nodes: nothing done to older nodes can change them            *)
(* ==================================================================================== *)
Fixpoint tsize (t : tree) : nat :=
  match t with
  | Text _ => 1
  | Unk cs => S (fold_right (fun c n => (tsize c + n)%nat) 0%nat cs)
  | Tag _ _ cs => S (fold_right (fun c n => (tsize c + n)%nat) 0%nat cs)
  end.
Definition tsizes (cs : list tree) : nat := fold_right (fun c n => (tsize c + n)%nat) 0%nat cs.

Definition alloc_goal (t : tree) : Prop :=
  forall h parent, exists ext,
    alloc_tree h parent t = (h ++ ext, length h) /\ length ext = tsize t /\
    forall pre suf fuel, length pre = length h -> (tsize t <= fuel)%nat ->
      tree_of fuel (pre ++ ext ++ suf) (length h) = Some t.

Lemma alloc_list_spec : forall pid cs, Forall alloc_goal cs -> forall hh,
  exists ext ids,
    alloc_list (fun h0 ch => alloc_tree h0 pid ch) cs hh = (hh ++ ext, ids) /\
    length ext = tsizes cs /\
    forall pre suf fuel, length pre = length hh -> (tsizes cs <= fuel)%nat ->
      trees_of (tree_of fuel (pre ++ ext ++ suf)) ids = Some cs.
Proof.
  intros pid cs. induction cs as [|ch r IH]; intros HA hh.
  - exists [], []. cbn [alloc_list]. rewrite app_nil_r. split; [reflexivity|]. split; [reflexivity|]. intros; reflexivity.
  - inversion HA as [|? ? A1 A2]; subst.
    destruct (A1 hh pid) as (e1 & E1 & L1 & T1).
    destruct (IH A2 (hh ++ e1)) as (e2 & ids & E2 & L2 & T2).
    exists (e1 ++ e2), (length hh :: ids). cbn [alloc_list]. rewrite E1, E2.
    split; [rewrite app_assoc; reflexivity|].
    split; [rewrite app_length; unfold tsizes in *; cbn [fold_right]; lia|].
    intros pre suf fuel LP LF. unfold tsizes in LF. cbn [fold_right] in LF. fold (tsizes r) in LF.
    cbn [trees_of].
    rewrite <- (app_assoc e1 e2 suf).
    rewrite (T1 pre (e2 ++ suf) fuel LP) by lia.
    replace (pre ++ e1 ++ e2 ++ suf) with ((pre ++ e1) ++ e2 ++ suf) by (rewrite <- app_assoc; reflexivity).
    rewrite (T2 (pre ++ e1) suf fuel); [reflexivity|rewrite !app_length; lia|lia].
Qed.

Lemma upd_node_mid : forall (h : heap) n ext f,
  upd_node (h ++ n :: ext) (length h) f = h ++ f n :: ext.
Proof.
  intros h n ext f. unfold upd_node.
  rewrite nth_error_app2 by lia. rewrite Nat.sub_diag. cbn [nth_error].
  induction h as [|x h IH]; [reflexivity|]. cbn [app length set_nth]. rewrite IH. reflexivity.
Qed.

Lemma nth_error_mid : forall (pre : heap) n rest k, length pre = k -> nth_error (pre ++ n :: rest) k = Some n.
Proof. intros pre n rest k <-. rewrite nth_error_app2 by lia. rewrite Nat.sub_diag. reflexivity. Qed.

Lemma alloc_tree_spec : forall t, alloc_goal t.
Proof.
  induction t as [cs IH|s|name a cs IH] using tree_ind2; intros h parent.
  - cbn [alloc_tree].
    destruct (alloc_list_spec (Some (length h)) cs IH (h ++ [mkN NUnknown [] None [] parent])) as (ext & ids & E & L & T).
    rewrite E. rewrite <- app_assoc. cbn [app]. rewrite upd_node_mid. cbn [n_type n_data n_attrs n_parent].
    eexists. split; [reflexivity|]. split; [cbn [length tsize]; fold (tsizes cs); lia|].
    intros pre suf fuel LP LF. cbn [tsize] in LF. fold (tsizes cs) in LF.
    destruct fuel as [|f]; [lia|]. cbn [tree_of app].
    rewrite (nth_error_mid pre _ _ (length h) LP). cbn [n_type n_children].
    replace (pre ++ mkN NUnknown [] None ids parent :: ext ++ suf)
      with ((pre ++ [mkN NUnknown [] None ids parent]) ++ ext ++ suf) by (rewrite <- app_assoc; reflexivity).
    rewrite T; [reflexivity|rewrite !app_length; cbn [length]; lia|lia].
  - cbn [alloc_tree]. exists [mkN NText s None [] parent]. split; [reflexivity|]. split; [reflexivity|].
    intros pre suf fuel LP LF. cbn [tsize] in LF. destruct fuel as [|f]; [lia|].
    cbn [tree_of app]. rewrite (nth_error_mid pre _ _ (length h) LP). reflexivity.
  - cbn [alloc_tree].
    destruct (alloc_list_spec (Some (length h)) cs IH (h ++ [mkN NTag name a [] parent])) as (ext & ids & E & L & T).
    rewrite E. rewrite <- app_assoc. cbn [app]. rewrite upd_node_mid. cbn [n_type n_data n_attrs n_parent].
    eexists. split; [reflexivity|]. split; [cbn [length tsize]; fold (tsizes cs); lia|].
    intros pre suf fuel LP LF. cbn [tsize] in LF. fold (tsizes cs) in LF.
    destruct fuel as [|f]; [lia|]. cbn [tree_of app].
    rewrite (nth_error_mid pre _ _ (length h) LP). cbn [n_type n_children n_data n_attrs].
    replace (pre ++ mkN NTag name a ids parent :: ext ++ suf)
      with ((pre ++ [mkN NTag name a ids parent]) ++ ext ++ suf) by (rewrite <- app_assoc; reflexivity).
    rewrite T; [reflexivity|rewrite !app_length; cbn [length]; lia|lia].
Qed.

(* the handle returned by xmpp_stanza_copy denotes a tree equal to the original, stored entirely in nodes
   that did not exist before; whatever is later done to the older nodes (any heap h2 that differs from the
   heap after the copy only below the old size), the copy still denotes the same tree *)
Lemma copy_is_independent : forall st d s st' id0 t,
  slot st s = Some id0 -> tree_of (fuel_of (p_heap st)) (p_heap st) id0 = Some t -> tree_wf t ->
  run_op st (OCopy d s) = (st', OHandle false) ->
  exists id t',
    slot st' d = Some id /\ (length (p_heap st) <= id)%nat /\ tree_equiv t t' /\
    firstn (length (p_heap st)) (p_heap st') = p_heap st /\
    forall h2, length h2 = length (p_heap st') ->
               skipn (length (p_heap st)) h2 = skipn (length (p_heap st)) (p_heap st') ->
               tree_of (fuel_of h2) h2 id = Some t'.
Proof.
  intros st d s st' id0 t HS HT W HR.
  cbn [run_op] in HR. unfold with_tree in HR. rewrite HS, HT in HR.
  destruct (copy_tree_spec t W) as (t' & EC & EQ & W').
  rewrite EC in HR. unfold new_handle in HR.
  destruct (alloc_tree_spec t' (p_heap st) None) as (ext & EA & LE & TT).
  rewrite EA in HR. injection HR as <-.
  exists (length (p_heap st)), t'. cbn [p_heap p_slots].
  split.
  { unfold slot. cbn [p_slots]. clear. generalize (p_slots st). induction d as [|d IH]; intros [|x l]; cbn; auto. }
  split; [lia|]. split; [exact EQ|].
  split; [rewrite firstn_app, Nat.sub_diag, firstn_O, app_nil_r, firstn_all; reflexivity|].
  intros h2 L2 S2.
  rewrite skipn_app, Nat.sub_diag, skipn_O, skipn_all, app_nil_l in S2.
  rewrite <- (firstn_skipn (length (p_heap st)) h2). rewrite S2.
  rewrite <- (app_nil_r ext) at 2.
  rewrite app_length in L2.
  apply TT.
  - rewrite firstn_length. lia.
  - unfold fuel_of. rewrite app_length, firstn_length. lia.
Qed.

(* setters only touch the node they are applied to *)
Lemma upd_node_keeps_newer : forall (h : heap) id f n, (id < n)%nat ->
  length (upd_node h id f) = length h /\ skipn n (upd_node h id f) = skipn n h.
Proof.
  intros h id f n H. unfold upd_node. destruct (nth_error h id) as [x|]; [|split; reflexivity].
  split; [apply set_nth_length|].
  revert id n H. induction h as [|y h IH]; intros id n H; [destruct id; reflexivity|].
  destruct n as [|n]; [lia|]. destruct id as [|id]; cbn [set_nth skipn]; [reflexivity|].
  apply IH. lia.
Qed.

(* a program whose copy is taken before the original is renamed: the copy still renders under its old name *)
Example ex_copy_run :
  match run [ONew 0; OSetName 0 [109]; OCopy 1 0; OSetName 0 [110]; OToText 1; OToText 0] with
  | [_; _; OHandle false; ORc 0; OText (TOk b1 4); OText (TOk b0 4)] =>
      cstring b1 = Some [60; 109; 47; 62] /\ cstring b0 = Some [60; 110; 47; 62]
  | _ => False
  end.
Proof. vm_compute. split; reflexivity. Qed.

(* the two scanning facts behind "cannot be broken out of", on their own *)
Lemma attr_scan_stops_proof : forall v rest,
  span (fun c => negb (c =? 34)) (escape v ++ 34 :: rest) = (escape v, 34 :: rest).
Proof.
  intros v rest. rewrite escape_spec. destruct (escape_no_special v) as (_ & _ & E3). unfold c_quot in E3.
  apply span_app_stop; [apply has_false_forallb; exact E3|reflexivity].
Qed.

Lemma text_scan_stops_proof : forall s X,
  span (fun c => negb (c =? 60)) (escape s ++ 60 :: X) = (escape s, 60 :: X).
Proof.
  intros s X. rewrite escape_spec. destruct (escape_no_special s) as (E1 & _). unfold c_lt in E1.
  apply span_app_stop; [apply has_false_forallb; exact E1|reflexivity].
Qed.
