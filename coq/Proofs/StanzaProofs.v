(* Proofs for C09 (stanza serialisation).  The statements collected in Properties_C09.v are proved here. *)
Require Import LV.Common.Bytes LV.Gen.Gen_stanza LV.Model.StanzaModel LV.Spec.XmlSubsetSpec.
Require Import Lia ZifyBool.
Local Open Scope Z_scope.

(* ==================================================================================== *)
(* A. the values found in the C source are the ones the specification talks about       *)
(* ==================================================================================== *)
Definition expected_formats : list (list Z) :=
  [ [37; 115];                                   (* %s *)
    [60; 37; 115];                               (* <%s *)
    [32; 37; 115; 61; 34; 37; 115; 34];          (* space %s = dq %s dq *)
    [47; 62];                                    (* /> *)
    [62];                                        (* > *)
    [60; 47; 37; 115; 62] ].                     (* </%s> *)

Lemma Gen_stanza_ok :
  esc_table = xml_escape_table /\
  esc_len_table = map (fun ce => (fst ce, zlen (snd ce))) xml_escape_table /\
  esc_adv_table = esc_len_table /\
  render_formats = expected_formats /\
  xmlns_key = xmlns_name /\
  top_elided_ns = rfc_ns_client /\
  ns_client = rfc_ns_client /\
  0 < stanza_init_buf /\
  0 < attr_hash_size /\
  reply_deleted = [s_to; s_from; xmlns_name] /\
  reply_error_literals = [s_error; s_error; rfc_ns_stanzas; s_text; rfc_ns_stanzas] /\
  stream_error_names = rfc_stream_conditions /\
  stream_error_ns = rfc_ns_streams /\
  stream_error_elem = s_stream_error /\
  stream_error_text_elem = s_text /\
  In stream_error_default rfc_stream_conditions.
Proof.
  repeat split; try (vm_compute; reflexivity); try (vm_compute; congruence).
  vm_compute. tauto.
Qed.

Lemma esc_table_eq : esc_table = xml_escape_table. Proof. apply Gen_stanza_ok. Qed.
Lemma formats_eq : render_formats = expected_formats. Proof. apply Gen_stanza_ok. Qed.

(* ==================================================================================== *)
(* B. escaping                                                                          *)
(* ==================================================================================== *)
Lemma esc1_spec : forall c, esc1 c = xml_escape1 c.
Proof.
  intro c. unfold esc1. rewrite esc_table_eq. unfold xml_escape_table, xml_escape1, lookup.
  unfold c_quot, c_amp, c_lt, c_gt.
  destruct (c =? 34) eqn:E1; destruct (c =? 38) eqn:E2; destruct (c =? 60) eqn:E3; destruct (c =? 62) eqn:E4;
    try reflexivity; lia.
Qed.

Lemma escape_spec : forall s, escape s = xml_escape s.
Proof.
  induction s as [|c r IH]; [reflexivity|].
  cbn [escape]. rewrite IH, esc1_spec. reflexivity.
Qed.

Lemma xml_escape_cons : forall c r, xml_escape (c :: r) = xml_escape1 c ++ xml_escape r.
Proof. reflexivity. Qed.

Lemma xml_escape_app : forall a b, xml_escape (a ++ b) = xml_escape a ++ xml_escape b.
Proof. intros. unfold xml_escape. apply flat_map_app. Qed.

(* the five shapes of xml_escape1 *)
Lemma xml_escape1_cases : forall c,
  (c = c_lt /\ xml_escape1 c = ent_lt) \/ (c = c_gt /\ xml_escape1 c = ent_gt) \/
  (c = c_amp /\ xml_escape1 c = ent_amp) \/ (c = c_quot /\ xml_escape1 c = ent_quot) \/
  (c <> c_lt /\ c <> c_gt /\ c <> c_amp /\ c <> c_quot /\ xml_escape1 c = [c]).
Proof.
  intro c. unfold xml_escape1.
  destruct (c =? c_lt) eqn:E1; [left; split; [lia|reflexivity]|].
  destruct (c =? c_gt) eqn:E2; [right; left; split; [lia|reflexivity]|].
  destruct (c =? c_amp) eqn:E3; [right; right; left; split; [lia|reflexivity]|].
  destruct (c =? c_quot) eqn:E4; [right; right; right; left; split; [lia|reflexivity]|].
  right; right; right; right. repeat split; try lia.
Qed.

Lemma has_app : forall c a b, has c (a ++ b) = has c a || has c b.
Proof. intros. unfold has. apply existsb_app. Qed.

Lemma has_single : forall c d, c <> d -> has c [d] = false.
Proof. intros. unfold has. cbn. destruct (c =? d) eqn:E; [lia|reflexivity]. Qed.

Lemma escape_no_special : forall s,
  has c_lt (xml_escape s) = false /\ has c_gt (xml_escape s) = false /\ has c_quot (xml_escape s) = false.
Proof.
  induction s as [|c r [IH1 [IH2 IH3]]]; [repeat split; reflexivity|].
  rewrite xml_escape_cons, !has_app, IH1, IH2, IH3, !orb_false_r.
  destruct (xml_escape1_cases c) as [[-> ->]|[[-> ->]|[[-> ->]|[[-> ->]|(N1 & N2 & N3 & N4 & ->)]]]];
    try (repeat split; reflexivity).
  repeat split; apply has_single; congruence.
Qed.

Lemma amps_ok_cons_other : forall c r, c <> c_amp -> amps_ok (c :: r) = amps_ok r.
Proof.
  intros c r N. cbn [amps_ok]. destruct (c =? c_amp) eqn:E; [lia|reflexivity].
Qed.

Lemma escape_amps_ok : forall s, amps_ok (xml_escape s) = true.
Proof.
  induction s as [|c r IH]; [reflexivity|].
  rewrite xml_escape_cons.
  destruct (xml_escape1_cases c) as [[-> ->]|[[-> ->]|[[-> ->]|[[-> ->]|(N1 & N2 & N3 & N4 & ->)]]]].
  - cbn. exact IH.
  - cbn. exact IH.
  - cbn. exact IH.
  - cbn. exact IH.
  - cbn [app]. rewrite amps_ok_cons_other by assumption. exact IH.
Qed.

Lemma unescape_cons_other : forall c r, c <> c_amp -> unescape (c :: r) = option_map (cons c) (unescape r).
Proof.
  intros c r N. cbn [unescape]. destruct (c =? c_amp) eqn:E; [lia|reflexivity].
Qed.

Lemma unescape_escape : forall s, unescape (xml_escape s) = Some s.
Proof.
  induction s as [|c r IH]; [reflexivity|].
  rewrite xml_escape_cons.
  destruct (xml_escape1_cases c) as [[-> ->]|[[-> ->]|[[-> ->]|[[-> ->]|(N1 & N2 & N3 & N4 & ->)]]]].
  - cbn. rewrite IH. reflexivity.
  - cbn. rewrite IH. reflexivity.
  - cbn. rewrite IH. reflexivity.
  - cbn. rewrite IH. reflexivity.
  - cbn [app]. rewrite unescape_cons_other by assumption. rewrite IH. reflexivity.
Qed.

(* the statement of the property, about the escaper of the model *)
Lemma escape_neutralises_proof : forall s,
  has c_lt (escape s) = false /\ has c_gt (escape s) = false /\ has c_quot (escape s) = false /\
  amps_ok (escape s) = true /\ unescape (escape s) = Some s.
Proof.
  intro s. rewrite escape_spec.
  destruct (escape_no_special s) as (A & B & C).
  repeat split; auto using escape_amps_ok, unescape_escape.
Qed.

(* the apostrophe is passed through unchanged (attribute values are always written in double quotes) *)
Lemma escape_keeps_apos : forall s, escape (c_apos :: s) = c_apos :: escape s.
Proof. intro s. rewrite !escape_spec. reflexivity. Qed.

(* ------------------------------------------------------------------------------------ *)
(* B'. the buffer-level escaper (_escape_xml) computes `escape` and stays inside len+1    *)
(* ------------------------------------------------------------------------------------ *)
Definition nul_free (s : bstr) : Prop := ~ In 0 s.

Lemma zlen_app : forall A (a b : list A), zlen (a ++ b) = zlen a + zlen b.
Proof. intros. unfold zlen. rewrite app_length. lia. Qed.
Lemma zlen_cons : forall A (a : A) l, zlen (a :: l) = 1 + zlen l.
Proof. intros. unfold zlen. cbn [length]. lia. Qed.
Lemma zlen_nonneg : forall A (l : list A), 0 <= zlen l.
Proof. intros. unfold zlen. lia. Qed.
Lemma zlen_nil : forall A, zlen (@nil A) = 0.
Proof. reflexivity. Qed.
Lemma zlen_map : forall A B (f : A -> B) l, zlen (map f l) = zlen l.
Proof. intros. unfold zlen. rewrite map_length. reflexivity. Qed.

Lemma zwrite_ok : forall s rest, (length s <= length rest)%nat ->
  zwrite rest s = Some (map Some s ++ skipn (length s) rest).
Proof.
  induction s as [|c s IH]; intros rest H; [reflexivity|].
  destruct rest as [|x rest]; [cbn in H; lia|].
  cbn [zwrite length skipn map app]. rewrite IH by (cbn in H; lia). reflexivity.
Qed.

Lemma zwrite_none : forall s rest, (length rest < length s)%nat -> zwrite rest s = None.
Proof.
  induction s as [|c s IH]; intros rest H; [cbn in H; lia|].
  destruct rest as [|x rest]; [reflexivity|].
  cbn [zwrite]. rewrite IH by (cbn in H; lia). reflexivity.
Qed.

Lemma zadvance_ok : forall n done rest, (n <= length rest)%nat ->
  zadvance n done rest = Some (rev (firstn n rest) ++ done, skipn n rest).
Proof.
  induction n as [|n IH]; intros done rest H; [reflexivity|].
  destruct rest as [|x rest]; [cbn in H; lia|].
  cbn [zadvance firstn skipn rev]. rewrite IH by (cbn in H; lia).
  rewrite <- app_assoc. reflexivity.
Qed.

Lemma esc_tables : forall c,
  match lookup esc_table c with
  | Some ent => lookup esc_adv_table c = Some (zlen ent) /\ lookup esc_len_table c = Some (zlen ent) /\ ~ In 0 ent
  | None => lookup esc_len_table c = None
  end.
Proof.
  intro c.
  destruct Gen_stanza_ok as (E1 & E2 & E3 & _).
  rewrite E3, E2, E1. unfold xml_escape_table, lookup, c_quot, c_amp, c_lt, c_gt. cbn [map fst snd].
  destruct (c =? 34) eqn:Q1; [repeat split; try reflexivity; cbn; intuition lia|].
  destruct (c =? 38) eqn:Q2; [repeat split; try reflexivity; cbn; intuition lia|].
  destruct (c =? 60) eqn:Q3; [repeat split; try reflexivity; cbn; intuition lia|].
  destruct (c =? 62) eqn:Q4; [repeat split; try reflexivity; cbn; intuition lia|].
  reflexivity.
Qed.

Lemma esc_len_spec : forall s acc, esc_len s acc = acc + zlen (escape s).
Proof.
  induction s as [|c r IH]; intro acc; [cbn [esc_len escape]; rewrite zlen_nil; lia|].
  cbn [esc_len escape]. rewrite IH, zlen_app. unfold esc_len1, esc1.
  pose proof (esc_tables c) as T. destruct (lookup esc_table c) as [ent|].
  - destruct T as (_ & -> & _). lia.
  - rewrite T. rewrite zlen_cons, zlen_nil. lia.
Qed.

Lemma escape_nul_free : forall s, nul_free s -> nul_free (escape s).
Proof.
  unfold nul_free. induction s as [|c r IH]; intro H; [exact H|].
  cbn [escape]. rewrite in_app_iff. intros [A|A].
  - unfold esc1 in A. pose proof (esc_tables c) as T. destruct (lookup esc_table c) as [ent|].
    + destruct T as (_ & _ & T). auto.
    + cbn in A. destruct A as [A|[]]. apply H. left. exact A.
  - apply IH; [|exact A]. intro B. apply H. right. exact B.
Qed.

Lemma esc_fill_ok : forall s done rest, (length (escape s) + 1 <= length rest)%nat ->
  exists rest', esc_fill s done rest = Some (rev (map Some (escape s)) ++ done, rest') /\
                length rest' = (length rest - length (escape s))%nat.
Proof.
  induction s as [|c r IH]; intros done rest H.
  - exists rest. split; [reflexivity|cbn; lia].
  - cbn [esc_fill escape]. cbn [escape] in H. rewrite app_length in H.
    unfold esc1 in *. pose proof (esc_tables c) as T.
    destruct (lookup esc_table c) as [ent|].
    + destruct T as (-> & _ & _).
      rewrite zwrite_ok by (rewrite app_length; cbn [length]; lia).
      unfold zlen. rewrite Nat2Z.id.
      rewrite map_app, <- app_assoc.
      rewrite zadvance_ok by (rewrite app_length, map_length; lia).
      rewrite firstn_app, map_length, Nat.sub_diag, firstn_O, app_nil_r.
      rewrite firstn_all2 by (rewrite map_length; lia).
      rewrite skipn_app, map_length, Nat.sub_diag, skipn_O.
      rewrite skipn_all2 by (rewrite map_length; lia). cbn [app map].
      destruct (IH (rev (map Some ent) ++ done) (Some 0 :: skipn (length (ent ++ [0])) rest)) as (rest' & E & L).
      { cbn [length]. rewrite skipn_length, app_length. cbn [length]. lia. }
      exists rest'. split.
      * rewrite E. rewrite map_app, rev_app_distr, <- app_assoc. reflexivity.
      * rewrite L. cbn [length]. rewrite skipn_length, !app_length. cbn [length]. lia.
    + cbn [length] in H.
      destruct rest as [|x rest]; [cbn [length] in H; lia|].
      cbn [zwrite zadvance].
      destruct (IH (Some c :: done) rest) as (rest' & E & L).
      { cbn [length] in H. lia. }
      exists rest'. split.
      * rewrite E. cbn [map rev app]. rewrite <- app_assoc. reflexivity.
      * rewrite L. cbn [app length]. lia.
Qed.

Lemma cstring_prefix : forall s rest, nul_free s -> cstring (map Some s ++ Some 0 :: rest) = Some s.
Proof.
  unfold nul_free. induction s as [|c s IH]; intros rest H; [reflexivity|].
  cbn [map app cstring]. destruct (c =? 0) eqn:E.
  - exfalso. apply H. left. lia.
  - rewrite IH; [reflexivity|]. intro A. apply H. right. exact A.
Qed.

Lemma escape_xml_ok : forall s, nul_free s -> escape_xml s = EOk (escape s).
Proof.
  intros s H. unfold escape_xml. rewrite esc_len_spec.
  destruct (esc_fill_ok s [] (repeat None (Z.to_nat (0 + zlen (escape s) + 1)))) as (rest' & E & L).
  { rewrite repeat_length. unfold zlen. lia. }
  rewrite E. rewrite repeat_length in L.
  destruct rest' as [|x rest']; [cbn in L; unfold zlen in L; lia|].
  cbn [zwrite]. rewrite app_nil_r, rev_append_rev, rev_involutive.
  rewrite cstring_prefix by (apply escape_nul_free; exact H). reflexivity.
Qed.

(* ==================================================================================== *)
(* C. the bounded two-pass renderer equals the ideal renderer                            *)
(* ==================================================================================== *)
Definition blitz (buf : cells) (p : Z) (s : bstr) : cells :=
  firstn (Z.to_nat p) buf ++ map Some s ++ skipn (Z.to_nat p + length s) buf.

Lemma wr_at_ok : forall n buf s, (n + length s <= length buf)%nat ->
  wr_at n buf s = Some (firstn n buf ++ map Some s ++ skipn (n + length s) buf).
Proof.
  induction n as [|n IH]; intros buf s H.
  - cbn [wr_at firstn app plus]. apply zwrite_ok. lia.
  - destruct buf as [|x buf]; [cbn in H; lia|].
    cbn [wr_at firstn app plus skipn]. rewrite IH by (cbn in H; lia). reflexivity.
Qed.

Lemma wr_bytes_ok : forall buf p s, 0 <= p -> p + zlen s <= zlen buf ->
  wr_bytes buf p s = Some (blitz buf p s).
Proof.
  intros buf p s H1 H2. unfold wr_bytes, blitz.
  destruct (p <? 0) eqn:E; [lia|].
  apply wr_at_ok. unfold zlen in H2. lia.
Qed.

Lemma blitz_length : forall buf p s, 0 <= p -> p + zlen s <= zlen buf -> zlen (blitz buf p s) = zlen buf.
Proof.
  intros buf p s H1 H2. unfold blitz, zlen in *.
  rewrite !app_length, map_length, firstn_length, skipn_length. lia.
Qed.

Lemma skipn_skipn' : forall A x y (l : list A), skipn x (skipn y l) = skipn (y + x) l.
Proof.
  intros A x y. induction y as [|y IH]; intro l; [reflexivity|].
  destruct l as [|a l]; [cbn; destruct x; reflexivity|]. cbn [skipn plus]. apply IH.
Qed.

Lemma blitz_blitz : forall buf p a c d, 0 <= p -> p + zlen a + zlen d <= zlen buf ->
  (length c <= length d)%nat ->
  blitz (blitz buf p (a ++ c)) (p + zlen a) d = blitz buf p (a ++ d).
Proof.
  intros buf p a c d H1 H2 H3. unfold blitz, zlen in *.
  set (n := Z.to_nat p).
  replace (Z.to_nat (p + Z.of_nat (length a))) with (n + length a)%nat by lia.
  assert (Hn : length (firstn n buf) = n) by (rewrite firstn_length; lia).
  rewrite !map_app.
  (* the prefix *)
  replace (firstn (n + length a) (firstn n buf ++ (map Some a ++ map Some c) ++ skipn (n + length (a ++ c)) buf))
    with (firstn n buf ++ map Some a).
  2:{ rewrite <- Hn at 2. rewrite firstn_app_2. f_equal.
      rewrite <- app_assoc.
      replace (length a) with (length (map (@Some Z) a) + 0)%nat at 1 by (rewrite map_length; lia).
      rewrite firstn_app_2, firstn_O, app_nil_r. reflexivity. }
  (* the suffix *)
  replace (skipn (n + length a + length d) (firstn n buf ++ (map Some a ++ map Some c) ++ skipn (n + length (a ++ c)) buf))
    with (skipn (n + length (a ++ d)) buf).
  2:{ rewrite !app_length.
      rewrite skipn_app, Hn.
      rewrite (skipn_all2 (firstn n buf)) by lia. cbn [app].
      rewrite skipn_app, app_length, !map_length.
      rewrite (skipn_all2 (map Some a ++ map Some c)) by (rewrite app_length, !map_length; lia). cbn [app].
      rewrite skipn_skipn'. f_equal. lia. }
  rewrite <- !app_assoc. reflexivity.
Qed.

Definition bnd (buf : cells) (ptr : option Z) (buflen : Z) : Prop :=
  0 <= buflen < 18446744073709551616 /\
  (buflen = 0 \/ exists p, ptr = Some p /\ 0 <= p /\ p + buflen <= zlen buf).

Definition sn_buf (buf0 : cells) (ptr0 : option Z) (buflen : Z) (a : bstr) : cells :=
  if buflen =? 0 then buf0
  else match ptr0 with
       | Some p => blitz buf0 p (firstn (Z.to_nat (Z.min (buflen - 1) (zlen a))) a ++ [0])
       | None => buf0
       end.

Lemma firstn_zlen_le : forall (a : bstr) k, 0 <= k -> zlen (firstn (Z.to_nat k) a) = Z.min k (zlen a).
Proof. intros. unfold zlen. rewrite firstn_length. lia. Qed.

Lemma snprintf_ok : forall buf0 ptr0 buflen a, bnd buf0 ptr0 buflen ->
  snprintf buf0 ptr0 buflen a = ROk (sn_buf buf0 ptr0 buflen a, zlen a).
Proof.
  intros buf0 ptr0 buflen a (B1 & B2). unfold snprintf, sn_buf.
  destruct (buflen =? 0) eqn:E; [reflexivity|].
  destruct B2 as [B2|(p & -> & P1 & P2)]; [lia|].
  pose proof (zlen_nonneg _ a).
  rewrite wr_bytes_ok; [reflexivity|lia|].
  rewrite zlen_app, firstn_zlen_le by lia. rewrite zlen_cons, zlen_nil. lia.
Qed.

Lemma sn_buf_length : forall buf0 ptr0 buflen a, bnd buf0 ptr0 buflen ->
  zlen (sn_buf buf0 ptr0 buflen a) = zlen buf0.
Proof.
  intros buf0 ptr0 buflen a (B1 & B2). unfold sn_buf.
  destruct (buflen =? 0) eqn:E; [reflexivity|].
  destruct B2 as [B2|(p & -> & P1 & P2)]; [lia|].
  pose proof (zlen_nonneg _ a).
  apply blitz_length; [lia|].
  rewrite zlen_app, firstn_zlen_le by lia. rewrite zlen_cons, zlen_nil. lia.
Qed.

(* the renderer's state after the strings emitted so far concatenate to a *)
Definition st_after (buf0 : cells) (ptr0 : option Z) (buflen : Z) (a : bstr) : rstate :=
  if buflen <=? zlen a then mkR (sn_buf buf0 ptr0 buflen a) None 0 (zlen a)
  else mkR (sn_buf buf0 ptr0 buflen a) (option_map (fun p => p + zlen a) ptr0) (buflen - zlen a) (zlen a).

Lemma st_after_written : forall b p l a, r_written (st_after b p l a) = zlen a.
Proof. intros. unfold st_after. destruct (l <=? zlen a); reflexivity. Qed.
Lemma st_after_buf : forall b p l a, r_buf (st_after b p l a) = sn_buf b p l a.
Proof. intros. unfold st_after. destruct (l <=? zlen a); reflexivity. Qed.

Lemma st_after_bnd : forall buf0 ptr0 buflen a, bnd buf0 ptr0 buflen ->
  bnd (r_buf (st_after buf0 ptr0 buflen a)) (r_ptr (st_after buf0 ptr0 buflen a)) (r_left (st_after buf0 ptr0 buflen a)).
Proof.
  intros buf0 ptr0 buflen a B. pose proof (sn_buf_length buf0 ptr0 buflen a B) as L.
  destruct B as (B1 & B2). pose proof (zlen_nonneg _ a).
  unfold st_after. destruct (buflen <=? zlen a) eqn:E; cbn [r_buf r_ptr r_left].
  - split; [lia|left; reflexivity].
  - split; [lia|]. right. destruct B2 as [B2|(p & -> & P1 & P2)]; [lia|].
    exists (p + zlen a). cbn [option_map]. repeat split; lia.
Qed.

Lemma emit_first : forall buf0 ptr0 buflen s, bnd buf0 ptr0 buflen ->
  emit buflen (mkR buf0 ptr0 buflen 0) s = ROk (st_after buf0 ptr0 buflen s).
Proof.
  intros buf0 ptr0 buflen s B. unfold emit. cbn [r_buf r_ptr r_left].
  rewrite snprintf_ok by exact B. unfold render_update, st_after. cbn [r_written r_ptr r_left].
  rewrite Z.add_0_l. destruct B as (B1 & _). pose proof (zlen_nonneg _ s).
  destruct (buflen <=? zlen s) eqn:E; [reflexivity|].
  rewrite Z.mod_small by lia. reflexivity.
Qed.

Lemma firstn_app_min : forall (a s : bstr) k, (length a <= k)%nat ->
  firstn k (a ++ s) = a ++ firstn (k - length a) s.
Proof.
  intros a s k H. rewrite firstn_app. rewrite firstn_all2 by lia. reflexivity.
Qed.

Lemma emit_next : forall buf0 ptr0 buflen a s, bnd buf0 ptr0 buflen ->
  emit buflen (st_after buf0 ptr0 buflen a) s = ROk (st_after buf0 ptr0 buflen (a ++ s)).
Proof.
  intros buf0 ptr0 buflen a s B.
  pose proof (st_after_bnd buf0 ptr0 buflen a B) as B'.
  unfold emit. rewrite snprintf_ok by exact B'. clear B'.
  destruct B as (B1 & B2). pose proof (zlen_nonneg _ a). pose proof (zlen_nonneg _ s).
  unfold render_update.
  destruct (buflen <=? zlen a) eqn:E.
  - (* exhausted: nothing is written any more *)
    assert (S1 : st_after buf0 ptr0 buflen a = mkR (sn_buf buf0 ptr0 buflen a) None 0 (zlen a))
      by (unfold st_after; rewrite E; reflexivity).
    rewrite S1. cbn [r_buf r_ptr r_left r_written].
    unfold st_after. rewrite zlen_app.
    destruct (buflen <=? zlen a + zlen s) eqn:E2; [|lia].
    do 2 f_equal.
    unfold sn_buf at 1. cbn [Z.eqb].
    unfold sn_buf. destruct (buflen =? 0) eqn:E3; [reflexivity|].
    destruct ptr0 as [p|]; [|reflexivity].
    f_equal. f_equal.
    rewrite zlen_app.
    replace (Z.min (buflen - 1) (zlen a + zlen s)) with (buflen - 1) by lia.
    replace (Z.min (buflen - 1) (zlen a)) with (buflen - 1) by lia.
    rewrite firstn_app.
    replace (Z.to_nat (buflen - 1) - length a)%nat with 0%nat by (unfold zlen in *; lia).
    rewrite firstn_O, app_nil_r. reflexivity.
  - destruct B2 as [B2|(p & -> & P1 & P2)]; [lia|].
    assert (S1 : st_after buf0 (Some p) buflen a
                 = mkR (sn_buf buf0 (Some p) buflen a) (Some (p + zlen a)) (buflen - zlen a) (zlen a))
      by (unfold st_after; rewrite E; reflexivity).
    rewrite S1. cbn [r_buf r_ptr r_left r_written].
    assert (Hbuf : sn_buf (sn_buf buf0 (Some p) buflen a) (Some (p + zlen a)) (buflen - zlen a) s
                   = sn_buf buf0 (Some p) buflen (a ++ s)).
    { unfold sn_buf. destruct (buflen =? 0) eqn:E3; [lia|].
      destruct (buflen - zlen a =? 0) eqn:E4; [lia|].
      replace (Z.min (buflen - 1) (zlen a)) with (zlen a) by lia.
      replace (firstn (Z.to_nat (zlen a)) a) with a
        by (symmetry; apply firstn_all2; unfold zlen; lia).
      rewrite blitz_blitz.
      - f_equal. rewrite zlen_app.
        rewrite firstn_app_min by (unfold zlen in *; lia).
        rewrite <- app_assoc. f_equal. f_equal. f_equal. unfold zlen in *. lia.
      - lia.
      - rewrite zlen_app, firstn_zlen_le by lia. rewrite zlen_cons, zlen_nil. lia.
      - rewrite app_length. cbn [length]. lia. }
    rewrite Hbuf.
    unfold st_after. rewrite zlen_app.
    destruct (buflen <=? zlen a + zlen s) eqn:E2; [reflexivity|].
    rewrite Z.mod_small by lia. cbn [option_map].
    f_equal. f_equal; [f_equal; lia|lia].
Qed.

Lemma st_after_done : forall buf0 ptr0 buflen a, bnd buf0 ptr0 buflen ->
  ROk (r_buf (st_after buf0 ptr0 buflen a), r_written (st_after buf0 ptr0 buflen a))
  = snprintf buf0 ptr0 buflen a.
Proof.
  intros. rewrite snprintf_ok by assumption. rewrite st_after_buf, st_after_written. reflexivity.
Qed.

(* induction over trees with the hypothesis for every child *)
Fixpoint tree_ind2 (P : tree -> Prop) (HU : P Unk) (HT : forall s, P (Text s))
  (HG : forall name a cs, Forall P cs -> P (Tag name a cs)) (t : tree) {struct t} : P t :=
  match t with
  | Unk => HU
  | Text s => HT s
  | Tag name a cs =>
      HG name a cs ((fix go (l : list tree) : Forall P l :=
                       match l with
                       | [] => Forall_nil P
                       | x :: r => Forall_cons x (tree_ind2 P HU HT HG x) (go r)
                       end) cs)
  end.

(* what the renderer needs of a tree: every node is typed, text and attribute values are C strings,
   and every key enumerated by the iterator is found again by hash_get (true of every table the API
   builds, see attrs_built_found below) *)
Definition attrs_renderable (a : attrs) : Prop :=
  match a with
  | None => True
  | Some h => forall k, In k (hash_keys h) -> exists v, hash_get h k = Some v /\ nul_free v
  end.

Inductive renderable : tree -> Prop :=
| rn_text : forall s, nul_free s -> renderable (Text s)
| rn_tag : forall name a cs, attrs_renderable a -> Forall renderable cs -> renderable (Tag name a cs).

Definition render_children (c : pctx) := render_list (render_rec c).

Lemma render_rec_tag : forall c name a cs buf ptr buflen,
  render_rec c (Tag name a cs) buf ptr buflen =
  rbind (emit buflen (mkR buf ptr buflen 0) (format fmt_open [name])) (fun st1 =>
  rbind (match a with
         | Some h => if 0 <? hash_num_keys h then render_attrs c h (hash_keys h) buflen st1 else ROk st1
         | None => ROk st1
         end) (fun st2 =>
  match cs with
  | [] => rbind (emit buflen st2 fmt_empty) rdone
  | _ :: _ =>
      rbind (emit buflen st2 fmt_gt) (fun st3 =>
      rbind (render_children (child_ctx a) cs buflen st3) (fun st4 =>
      rbind (emit buflen st4 (format fmt_close [name])) rdone))
  end)).
Proof.
  intros. destruct cs; reflexivity.
Qed.

Lemma render_children_cons : forall c ch r buflen st,
  render_children c (ch :: r) buflen st =
  match render_rec c ch (r_buf st) (r_ptr st) (r_left st) with
  | ROk (b, ret) => render_children c r buflen (render_update st buflen ret b)
  | RErr e => RErr e | ROOB => ROOB | RCrash => RCrash | RUninit => RUninit
  end.
Proof. reflexivity. Qed.

Lemma render_attrs_ok : forall c h buf0 ptr0 buflen keys acc,
  bnd buf0 ptr0 buflen ->
  (forall k, In k keys -> exists v, hash_get h k = Some v /\ nul_free v) ->
  render_attrs c h keys buflen (st_after buf0 ptr0 buflen acc)
  = ROk (st_after buf0 ptr0 buflen (acc ++ flat_map (attr_chunk c h) keys)).
Proof.
  intros c h buf0 ptr0 buflen keys. induction keys as [|k r IH]; intros acc B H.
  - cbn [render_attrs flat_map]. rewrite app_nil_r. reflexivity.
  - cbn [render_attrs flat_map]. unfold attr_chunk at 1.
    destruct (H k (or_introl eq_refl)) as (v & -> & NV).
    destruct (elide_xmlns c k v).
    + cbn [app]. apply IH; [exact B|]. intros k' Hk. apply H. right. exact Hk.
    + unfold emit_escaped. rewrite escape_xml_ok by exact NV.
      rewrite emit_next by exact B. cbn [rbind app].
      rewrite IH; [|exact B|intros k' Hk; apply H; right; exact Hk].
      rewrite <- app_assoc. reflexivity.
Qed.

Lemma render_children_ok : forall c buf0 ptr0 buflen cs acc,
  bnd buf0 ptr0 buflen ->
  Forall (fun t => forall c buf ptr buflen, renderable t -> bnd buf ptr buflen ->
                   render_rec c t buf ptr buflen = snprintf buf ptr buflen (render c t)) cs ->
  Forall renderable cs ->
  render_children c cs buflen (st_after buf0 ptr0 buflen acc)
  = ROk (st_after buf0 ptr0 buflen (acc ++ flat_map (render c) cs)).
Proof.
  intros c buf0 ptr0 buflen cs. induction cs as [|ch r IH]; intros acc B HI HR.
  - cbn [flat_map]. rewrite app_nil_r. reflexivity.
  - inversion HI as [|? ? I1 I2]; subst. inversion HR as [|? ? R1 R2]; subst.
    rewrite render_children_cons. cbn [flat_map].
    rewrite I1 by (auto using st_after_bnd).
    pose proof (emit_next buf0 ptr0 buflen acc (render c ch) B) as E.
    unfold emit in E.
    destruct (snprintf (r_buf (st_after buf0 ptr0 buflen acc)) (r_ptr (st_after buf0 ptr0 buflen acc))
                (r_left (st_after buf0 ptr0 buflen acc)) (render c ch)) as [[b ret]| | | |]; try discriminate.
    injection E as E. rewrite E.
    rewrite IH by assumption. rewrite <- app_assoc. reflexivity.
Qed.

Lemma render_rec_is_snprintf : forall t c buf ptr buflen,
  renderable t -> bnd buf ptr buflen ->
  render_rec c t buf ptr buflen = snprintf buf ptr buflen (render c t).
Proof.
  induction t as [|s|name a cs IH] using tree_ind2; intros c buf ptr buflen R B.
  - inversion R.
  - inversion R as [s' NS|]; subst.
    cbn [render_rec render]. unfold emit_escaped. rewrite escape_xml_ok by exact NS.
    cbn [app]. rewrite emit_first by exact B. cbn [rbind].
    apply st_after_done. exact B.
  - inversion R as [|name' a' cs' RA RC]; subst.
    rewrite render_rec_tag. rewrite emit_first by exact B. cbn [rbind].
    cbn [render].
    set (a0 := format fmt_open [name]).
    set (ach := match a with Some h => flat_map (attr_chunk c h) (hash_keys h) | None => [] end).
    assert (EA : (match a with
                  | Some h => if 0 <? hash_num_keys h
                              then render_attrs c h (hash_keys h) buflen (st_after buf ptr buflen a0)
                              else ROk (st_after buf ptr buflen a0)
                  | None => ROk (st_after buf ptr buflen a0)
                  end) = ROk (st_after buf ptr buflen (a0 ++ ach))).
    { subst ach. destruct a as [h|]; [|rewrite app_nil_r; reflexivity].
      destruct (0 <? hash_num_keys h) eqn:E.
      - apply render_attrs_ok; [exact B|exact RA].
      - unfold hash_num_keys, hash_keys in *.
        destruct (hash_items h) as [|x l]; [cbn [map flat_map]; rewrite app_nil_r; reflexivity|].
        rewrite zlen_cons in E. pose proof (zlen_nonneg _ l). lia. }
    rewrite EA. cbn [rbind].
    destruct cs as [|ch cs'].
    + rewrite emit_next by exact B. cbn [rbind]. unfold rdone.
      rewrite st_after_done by exact B. rewrite <- app_assoc. reflexivity.
    + rewrite emit_next by exact B. cbn [rbind].
      rewrite render_children_ok by assumption. cbn [rbind].
      rewrite emit_next by exact B. cbn [rbind]. unfold rdone.
      rewrite st_after_done by exact B. rewrite <- !app_assoc. reflexivity.
Qed.

Lemma init_buf_range : 0 < stanza_init_buf < 2147483648.
Proof. split; reflexivity. Qed.

Lemma zlen_repeat : forall A (x : A) n, zlen (repeat x n) = Z.of_nat n.
Proof. intros. unfold zlen. rewrite repeat_length. reflexivity. Qed.

Lemma wr_last_keeps : forall (pre : cells) x tl p,
  zlen pre <= p < zlen (pre ++ x :: tl) -> (p = zlen pre -> x = Some 0) ->
  exists tl', wr_bytes (pre ++ x :: tl) p [0] = Some (pre ++ x :: tl') /\ length tl' = length tl.
Proof.
  intros pre x tl p H1 H2. pose proof (zlen_nonneg _ pre).
  rewrite wr_bytes_ok by (rewrite ?zlen_cons, ?zlen_nil; lia).
  unfold blitz. cbn [map length].
  rewrite zlen_app, zlen_cons in H1. unfold zlen in *.
  destruct (Z.eq_dec p (Z.of_nat (length pre))) as [E|E].
  - exists tl. split; [|reflexivity]. rewrite (H2 E).
    replace (Z.to_nat p) with (length pre + 0)%nat by lia.
    rewrite firstn_app_2, firstn_O, app_nil_r.
    rewrite skipn_app. rewrite skipn_all2 by lia.
    replace (length pre + 0 + 1 - length pre)%nat with 1%nat by lia. reflexivity.
  - set (k := (Z.to_nat p - length pre - 1)%nat).
    exists (firstn k tl ++ Some 0 :: skipn (S k) tl). split.
    + replace (Z.to_nat p) with (length pre + S k)%nat by lia.
      rewrite firstn_app_2. cbn [firstn].
      rewrite skipn_app. rewrite skipn_all2 by lia.
      replace (length pre + S k + 1 - length pre)%nat with (S (S k)) by lia.
      cbn [skipn app]. rewrite <- !app_assoc. reflexivity.
    + rewrite app_length. cbn [length]. rewrite firstn_length, skipn_length. lia.
Qed.

Lemma to_text_correct : forall c t, renderable t -> zlen (render c t) < 2147483648 ->
  exists rest,
    to_text c t = TOk (map Some (render c t) ++ Some 0 :: rest) (zlen (render c t)) /\
    zlen rest = Z.max stanza_init_buf (zlen (render c t) + 1) - (zlen (render c t) + 1).
Proof.
  intros c t R HL. pose proof init_buf_range as HI.
  set (r := render c t) in *. pose proof (zlen_nonneg _ r) as Hr.
  unfold to_text.
  assert (B1 : bnd (repeat None (Z.to_nat stanza_init_buf)) (Some 0) stanza_init_buf).
  { split; [lia|]. right. exists 0. rewrite zlen_repeat. repeat split; lia. }
  rewrite render_rec_is_snprintf by assumption. fold r.
  rewrite snprintf_ok by exact B1.
  destruct (stanza_init_buf - 1 <? zlen r) eqn:E.
  - (* second pass with exactly zlen r + 1 bytes *)
    set (b1 := sn_buf (repeat None (Z.to_nat stanza_init_buf)) (Some 0) stanza_init_buf r).
    assert (L2 : zlen (realloc b1 (zlen r + 1)) = zlen r + 1).
    { unfold realloc, zlen. rewrite app_length, firstn_length, repeat_length.
      assert (zlen b1 = stanza_init_buf).
      { unfold b1. rewrite sn_buf_length by exact B1. rewrite zlen_repeat. lia. }
      unfold zlen in *. lia. }
    assert (B2 : bnd (realloc b1 (zlen r + 1)) (Some 0) (zlen r + 1)).
    { split; [lia|]. right. exists 0. repeat split; lia. }
    rewrite render_rec_is_snprintf by assumption. fold r.
    rewrite snprintf_ok by exact B2.
    destruct (zlen r + 1 - 1 <? zlen r) eqn:E2; [lia|].
    exists []. split; [|rewrite zlen_nil; lia].
    unfold sn_buf. destruct (zlen r + 1 =? 0) eqn:E3; [lia|].
    replace (Z.min (zlen r + 1 - 1) (zlen r)) with (zlen r) by lia.
    rewrite (firstn_all2 r) by (unfold zlen; lia).
    assert (EB : blitz (realloc b1 (zlen r + 1)) 0 (r ++ [0]) = map Some r ++ [Some 0]).
    { unfold blitz. cbn [Z.to_nat firstn app plus].
      rewrite skipn_all2 by (rewrite app_length; cbn [length]; unfold zlen in *; lia).
      rewrite app_nil_r, map_app. reflexivity. }
    rewrite EB. unfold tt_finish.
    destruct (wr_last_keeps (map Some r) (Some 0) [] (zlen r + 1 - 1)) as (tl' & W & LT).
    { rewrite zlen_map, zlen_app, zlen_map, zlen_cons, zlen_nil. lia. }
    { reflexivity. }
    rewrite W. destruct tl'; [reflexivity|discriminate].
  - (* the first buffer was large enough *)
    unfold sn_buf. destruct (stanza_init_buf =? 0) eqn:E3; [lia|].
    replace (Z.min (stanza_init_buf - 1) (zlen r)) with (zlen r) by lia.
    rewrite (firstn_all2 r) by (unfold zlen; lia).
    unfold blitz. cbn [Z.to_nat firstn app plus]. rewrite map_app. rewrite <- app_assoc. cbn [map app].
    set (tl := skipn (length (r ++ [0])) (repeat None (Z.to_nat stanza_init_buf))).
    assert (LT : zlen tl = stanza_init_buf - (zlen r + 1)).
    { unfold tl, zlen. rewrite skipn_length, repeat_length, app_length. cbn [length]. unfold zlen in *. lia. }
    unfold tt_finish.
    destruct (wr_last_keeps (map Some r) (Some 0) tl (stanza_init_buf - 1)) as (tl' & W & LT').
    { rewrite zlen_map, zlen_app, zlen_map, zlen_cons. pose proof (zlen_nonneg _ tl). lia. }
    { reflexivity. }
    rewrite W. exists tl'. split; [reflexivity|].
    unfold zlen in *. lia.
Qed.

(* what the caller sees: the C string in the returned allocation is the full rendering *)
Lemma to_text_cstring : forall c t buf len, renderable t -> zlen (render c t) < 2147483648 ->
  nul_free (render c t) -> to_text c t = TOk buf len ->
  cstring buf = Some (render c t) /\ len = zlen (render c t).
Proof.
  intros c t buf len R HL NF H.
  destruct (to_text_correct c t R HL) as (rest & E & _).
  rewrite E in H. injection H as <- <-.
  split; [apply cstring_prefix; exact NF|reflexivity].
Qed.
