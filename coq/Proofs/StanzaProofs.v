(* Proofs for C09 (stanza serialisation).  The statements collected in Properties_C09.v are proved here. *)
Require Import LV.Common.Bytes LV.Gen.Gen_stanza LV.Model.StanzaModel LV.Spec.XmlSubsetSpec.
Require Import Lia ZifyBool.
Local Open Scope Z_scope.

(* ==================================================================================== *)
(* A. the values found in the C source are the ones the specification talks about       *)
(* ==================================================================================== *)
Definition expected_formats : list (list Z) :=
  [ [37; 115];                                   (* %s *)
    [60; 37; 115];                               (* <%s *)
    [32; 37; 115; 61; 34; 37; 115; 34];          (* space %s = dq %s dq *)
    [47; 62];                                    (* /> *)
    [62];                                        (* > *)
    [60; 47; 37; 115; 62] ].                     (* </%s> *)

Lemma Gen_stanza_ok :
  esc_table = xml_escape_table /\
  esc_len_table = map (fun ce => (fst ce, zlen (snd ce))) xml_escape_table /\
  esc_adv_table = esc_len_table /\
  render_formats = expected_formats /\
  xmlns_key = xmlns_name /\
  top_elided_ns = rfc_ns_client /\
  ns_client = rfc_ns_client /\
  0 < stanza_init_buf /\
  0 < attr_hash_size /\
  reply_deleted = [s_to; s_from; xmlns_name] /\
  reply_error_literals = [s_error; s_error; rfc_ns_stanzas; s_text; rfc_ns_stanzas] /\
  stream_error_names = rfc_stream_conditions /\
  stream_error_ns = rfc_ns_streams /\
  stream_error_elem = s_stream_error /\
  stream_error_text_elem = s_text /\
  In stream_error_default rfc_stream_conditions.
Proof.
  repeat split; try (vm_compute; reflexivity); try (vm_compute; congruence).
  vm_compute. tauto.
Qed.

Lemma esc_table_eq : esc_table = xml_escape_table. Proof. apply Gen_stanza_ok. Qed.
Lemma formats_eq : render_formats = expected_formats. Proof. apply Gen_stanza_ok. Qed.

(* ==================================================================================== *)
(* B. escaping                                                                          *)
(* ==================================================================================== *)
Lemma esc1_spec : forall c, esc1 c = xml_escape1 c.
Proof.
  intro c. unfold esc1. rewrite esc_table_eq. unfold xml_escape_table, xml_escape1, lookup.
  unfold c_quot, c_amp, c_lt, c_gt.
  destruct (c =? 34) eqn:E1; destruct (c =? 38) eqn:E2; destruct (c =? 60) eqn:E3; destruct (c =? 62) eqn:E4;
    try reflexivity; lia.
Qed.

Lemma escape_spec : forall s, escape s = xml_escape s.
Proof.
  induction s as [|c r IH]; [reflexivity|].
  cbn [escape]. rewrite IH, esc1_spec. reflexivity.
Qed.

Lemma xml_escape_cons : forall c r, xml_escape (c :: r) = xml_escape1 c ++ xml_escape r.
Proof. reflexivity. Qed.

Lemma xml_escape_app : forall a b, xml_escape (a ++ b) = xml_escape a ++ xml_escape b.
Proof. intros. unfold xml_escape. apply flat_map_app. Qed.

(* the five shapes of xml_escape1 *)
Lemma xml_escape1_cases : forall c,
  (c = c_lt /\ xml_escape1 c = ent_lt) \/ (c = c_gt /\ xml_escape1 c = ent_gt) \/
  (c = c_amp /\ xml_escape1 c = ent_amp) \/ (c = c_quot /\ xml_escape1 c = ent_quot) \/
  (c <> c_lt /\ c <> c_gt /\ c <> c_amp /\ c <> c_quot /\ xml_escape1 c = [c]).
Proof.
  intro c. unfold xml_escape1.
  destruct (c =? c_lt) eqn:E1; [left; split; [lia|reflexivity]|].
  destruct (c =? c_gt) eqn:E2; [right; left; split; [lia|reflexivity]|].
  destruct (c =? c_amp) eqn:E3; [right; right; left; split; [lia|reflexivity]|].
  destruct (c =? c_quot) eqn:E4; [right; right; right; left; split; [lia|reflexivity]|].
  right; right; right; right. repeat split; try lia.
Qed.

Lemma has_app : forall c a b, has c (a ++ b) = has c a || has c b.
Proof. intros. unfold has. apply existsb_app. Qed.

Lemma has_single : forall c d, c <> d -> has c [d] = false.
Proof. intros. unfold has. cbn. destruct (c =? d) eqn:E; [lia|reflexivity]. Qed.

Lemma escape_no_special : forall s,
  has c_lt (xml_escape s) = false /\ has c_gt (xml_escape s) = false /\ has c_quot (xml_escape s) = false.
Proof.
  induction s as [|c r [IH1 [IH2 IH3]]]; [repeat split; reflexivity|].
  rewrite xml_escape_cons, !has_app, IH1, IH2, IH3, !orb_false_r.
  destruct (xml_escape1_cases c) as [[-> ->]|[[-> ->]|[[-> ->]|[[-> ->]|(N1 & N2 & N3 & N4 & ->)]]]];
    try (repeat split; reflexivity).
  repeat split; apply has_single; congruence.
Qed.

Lemma amps_ok_cons_other : forall c r, c <> c_amp -> amps_ok (c :: r) = amps_ok r.
Proof.
  intros c r N. cbn [amps_ok]. destruct (c =? c_amp) eqn:E; [lia|reflexivity].
Qed.

Lemma escape_amps_ok : forall s, amps_ok (xml_escape s) = true.
Proof.
  induction s as [|c r IH]; [reflexivity|].
  rewrite xml_escape_cons.
  destruct (xml_escape1_cases c) as [[-> ->]|[[-> ->]|[[-> ->]|[[-> ->]|(N1 & N2 & N3 & N4 & ->)]]]].
  - cbn. exact IH.
  - cbn. exact IH.
  - cbn. exact IH.
  - cbn. exact IH.
  - cbn [app]. rewrite amps_ok_cons_other by assumption. exact IH.
Qed.

Lemma unescape_cons_other : forall c r, c <> c_amp -> unescape (c :: r) = option_map (cons c) (unescape r).
Proof.
  intros c r N. cbn [unescape]. destruct (c =? c_amp) eqn:E; [lia|reflexivity].
Qed.

Lemma unescape_escape : forall s, unescape (xml_escape s) = Some s.
Proof.
  induction s as [|c r IH]; [reflexivity|].
  rewrite xml_escape_cons.
  destruct (xml_escape1_cases c) as [[-> ->]|[[-> ->]|[[-> ->]|[[-> ->]|(N1 & N2 & N3 & N4 & ->)]]]].
  - cbn. rewrite IH. reflexivity.
  - cbn. rewrite IH. reflexivity.
  - cbn. rewrite IH. reflexivity.
  - cbn. rewrite IH. reflexivity.
  - cbn [app]. rewrite unescape_cons_other by assumption. rewrite IH. reflexivity.
Qed.

(* the statement of the property, about the escaper of the model *)
Lemma escape_neutralises_proof : forall s,
  has c_lt (escape s) = false /\ has c_gt (escape s) = false /\ has c_quot (escape s) = false /\
  amps_ok (escape s) = true /\ unescape (escape s) = Some s.
Proof.
  intro s. rewrite escape_spec.
  destruct (escape_no_special s) as (A & B & C).
  repeat split; auto using escape_amps_ok, unescape_escape.
Qed.

(* the apostrophe is passed through unchanged (attribute values are always written in double quotes) *)
Lemma escape_keeps_apos : forall s, escape (c_apos :: s) = c_apos :: escape s.
Proof. intro s. rewrite !escape_spec. reflexivity. Qed.

(* ------------------------------------------------------------------------------------ *)
(* B'. the buffer-level escaper (_escape_xml) computes `escape` and stays inside len+1    *)
(* ------------------------------------------------------------------------------------ *)
Definition nul_free (s : bstr) : Prop := ~ In 0 s.

Lemma zlen_app : forall A (a b : list A), zlen (a ++ b) = zlen a + zlen b.
Proof. intros. unfold zlen. rewrite app_length. lia. Qed.
Lemma zlen_cons : forall A (a : A) l, zlen (a :: l) = 1 + zlen l.
Proof. intros. unfold zlen. cbn [length]. lia. Qed.
Lemma zlen_nonneg : forall A (l : list A), 0 <= zlen l.
Proof. intros. unfold zlen. lia. Qed.
Lemma zlen_nil : forall A, zlen (@nil A) = 0.
Proof. reflexivity. Qed.
Lemma zlen_map : forall A B (f : A -> B) l, zlen (map f l) = zlen l.
Proof. intros. unfold zlen. rewrite map_length. reflexivity. Qed.

Lemma zwrite_ok : forall s rest, (length s <= length rest)%nat ->
  zwrite rest s = Some (map Some s ++ skipn (length s) rest).
Proof.
  induction s as [|c s IH]; intros rest H; [reflexivity|].
  destruct rest as [|x rest]; [cbn in H; lia|].
  cbn [zwrite length skipn map app]. rewrite IH by (cbn in H; lia). reflexivity.
Qed.

Lemma zwrite_none : forall s rest, (length rest < length s)%nat -> zwrite rest s = None.
Proof.
  induction s as [|c s IH]; intros rest H; [cbn in H; lia|].
  destruct rest as [|x rest]; [reflexivity|].
  cbn [zwrite]. rewrite IH by (cbn in H; lia). reflexivity.
Qed.

Lemma zadvance_ok : forall n done rest, (n <= length rest)%nat ->
  zadvance n done rest = Some (rev (firstn n rest) ++ done, skipn n rest).
Proof.
  induction n as [|n IH]; intros done rest H; [reflexivity|].
  destruct rest as [|x rest]; [cbn in H; lia|].
  cbn [zadvance firstn skipn rev]. rewrite IH by (cbn in H; lia).
  rewrite <- app_assoc. reflexivity.
Qed.

Lemma esc_tables : forall c,
  match lookup esc_table c with
  | Some ent => lookup esc_adv_table c = Some (zlen ent) /\ lookup esc_len_table c = Some (zlen ent) /\ ~ In 0 ent
  | None => lookup esc_len_table c = None
  end.
Proof.
  intro c.
  destruct Gen_stanza_ok as (E1 & E2 & E3 & _).
  rewrite E3, E2, E1. unfold xml_escape_table, lookup, c_quot, c_amp, c_lt, c_gt. cbn [map fst snd].
  destruct (c =? 34) eqn:Q1; [repeat split; try reflexivity; cbn; intuition lia|].
  destruct (c =? 38) eqn:Q2; [repeat split; try reflexivity; cbn; intuition lia|].
  destruct (c =? 60) eqn:Q3; [repeat split; try reflexivity; cbn; intuition lia|].
  destruct (c =? 62) eqn:Q4; [repeat split; try reflexivity; cbn; intuition lia|].
  reflexivity.
Qed.

Lemma esc_len_spec : forall s acc, esc_len s acc = acc + zlen (escape s).
Proof.
  induction s as [|c r IH]; intro acc; [cbn [esc_len escape]; rewrite zlen_nil; lia|].
  cbn [esc_len escape]. rewrite IH, zlen_app. unfold esc_len1, esc1.
  pose proof (esc_tables c) as T. destruct (lookup esc_table c) as [ent|].
  - destruct T as (_ & -> & _). lia.
  - rewrite T. rewrite zlen_cons, zlen_nil. lia.
Qed.

Lemma escape_nul_free : forall s, nul_free s -> nul_free (escape s).
Proof.
  unfold nul_free. induction s as [|c r IH]; intro H; [exact H|].
  cbn [escape]. rewrite in_app_iff. intros [A|A].
  - unfold esc1 in A. pose proof (esc_tables c) as T. destruct (lookup esc_table c) as [ent|].
    + destruct T as (_ & _ & T). auto.
    + cbn in A. destruct A as [A|[]]. apply H. left. exact A.
  - apply IH; [|exact A]. intro B. apply H. right. exact B.
Qed.

Lemma esc_fill_ok : forall s done rest, (length (escape s) + 1 <= length rest)%nat ->
  exists rest', esc_fill s done rest = Some (rev (map Some (escape s)) ++ done, rest') /\
                length rest' = (length rest - length (escape s))%nat.
Proof.
  induction s as [|c r IH]; intros done rest H.
  - exists rest. split; [reflexivity|cbn; lia].
  - cbn [esc_fill escape]. cbn [escape] in H. rewrite app_length in H.
    unfold esc1 in *. pose proof (esc_tables c) as T.
    destruct (lookup esc_table c) as [ent|].
    + destruct T as (-> & _ & _).
      rewrite zwrite_ok by (rewrite app_length; cbn [length]; lia).
      unfold zlen. rewrite Nat2Z.id.
      rewrite map_app, <- app_assoc.
      rewrite zadvance_ok by (rewrite app_length, map_length; lia).
      rewrite firstn_app, map_length, Nat.sub_diag, firstn_O, app_nil_r.
      rewrite firstn_all2 by (rewrite map_length; lia).
      rewrite skipn_app, map_length, Nat.sub_diag, skipn_O.
      rewrite skipn_all2 by (rewrite map_length; lia). cbn [app map].
      destruct (IH (rev (map Some ent) ++ done) (Some 0 :: skipn (length (ent ++ [0])) rest)) as (rest' & E & L).
      { cbn [length]. rewrite skipn_length, app_length. cbn [length]. lia. }
      exists rest'. split.
      * rewrite E. rewrite map_app, rev_app_distr, <- app_assoc. reflexivity.
      * rewrite L. cbn [length]. rewrite skipn_length, !app_length. cbn [length]. lia.
    + cbn [length] in H.
      destruct rest as [|x rest]; [cbn [length] in H; lia|].
      cbn [zwrite zadvance].
      destruct (IH (Some c :: done) rest) as (rest' & E & L).
      { cbn [length] in H. lia. }
      exists rest'. split.
      * rewrite E. cbn [map rev app]. rewrite <- app_assoc. reflexivity.
      * rewrite L. cbn [length]. lia.
Qed.

Lemma cstring_prefix : forall s rest, nul_free s -> cstring (map Some s ++ Some 0 :: rest) = Some s.
Proof.
  unfold nul_free. induction s as [|c s IH]; intros rest H; [reflexivity|].
  cbn [map app cstring]. destruct (c =? 0) eqn:E.
  - exfalso. apply H. left. lia.
  - rewrite IH; [reflexivity|]. intro A. apply H. right. exact A.
Qed.

Lemma escape_xml_ok : forall s, nul_free s -> escape_xml s = EOk (escape s).
Proof.
  intros s H. unfold escape_xml. rewrite esc_len_spec.
  destruct (esc_fill_ok s [] (repeat None (Z.to_nat (0 + zlen (escape s) + 1)))) as (rest' & E & L).
  { rewrite repeat_length. unfold zlen. lia. }
  rewrite E. rewrite repeat_length in L.
  destruct rest' as [|x rest']; [cbn in L; unfold zlen in L; lia|].
  cbn [zwrite]. rewrite app_nil_r, rev_append_rev, rev_involutive.
  rewrite cstring_prefix by (apply escape_nul_free; exact H). reflexivity.
Qed.
