(* C08 - proofs about TlsPolicyModel against TlsPolicySpec. *)
From Coq Require Import List ZArith Bool Arith Lia.
Require Import LV.Gen.Gen_tls LV.Model.TlsPolicyModel LV.Spec.TlsPolicySpec.
Import ListNotations.
Local Open Scope Z_scope.

(* ---------------------------------------------------------------- what the translator found *)
Lemma Gen_tls_ok :
  tls_verify_calls = expected_verify_calls /\
  tls_hostflags_calls = expected_hostflags_calls /\
  tls_host_calls = expected_host_calls /\
  tls_app_data_is_conn = true /\
  tls_verify_shape = expected_verify_shape /\
  tls_verify_cert_accessor = CURRENT_CERT /\
  tls_proceed_failure_calls = expected_proceed_failure_calls /\
  tls_legacy_failure_calls = expected_legacy_failure_calls /\
  tls_domain_written_in = expected_domain_writers /\
  tls_set_handler_unconditional = true /\
  tls_time_overrides = 0 /\
  tls_secured_only_after_start = true.
Proof. vm_compute. repeat split; reflexivity. Qed.

Lemma verify_setting_eq : forall t, verify_setting t = if t then (SSL_VERIFY_NONE, 0) else (SSL_VERIFY_PEER, 1).
Proof. destruct t; reflexivity. Qed.
Lemma hostflags_setting_eq : forall t, hostflags_setting t = X509_CHECK_FLAG_NO_PARTIAL_WILDCARDS.
Proof. destruct t; reflexivity. Qed.
Lemma host_setting_eq : forall t, host_setting t = true.
Proof. destruct t; reflexivity. Qed.

Definition new_ok (sc : scenario) : bool :=
  s_ssl_ok sc && (if s_cafile sc || s_capath sc then s_ca_ok sc else true).
Definition the_cfg (sc : scenario) : sslcfg :=
  mkCfg (if s_trust sc then 0 else 1) (if s_trust sc then 0 else 1) 4 true (s_cafile sc || s_capath sc) true.

Lemma tls_new_eq : forall sc, tls_new sc = if new_ok sc then Some (the_cfg sc) else None.
Proof.
  intros sc. unfold tls_new, new_ok, the_cfg.
  rewrite verify_setting_eq, hostflags_setting_eq, host_setting_eq.
  destruct (s_trust sc); reflexivity.
Qed.

(* ---------------------------------------------------------------- _tls_verify *)
Lemma lookup_find : forall k l d,
  lookup k l d = match find (fun kv => k =? fst kv) l with Some kv => snd kv | None => d end.
Proof.
  intros k l d. induction l as [|[k' v] l IH]; [reflexivity|]. cbn. destruct (k =? k'); [reflexivity|exact IH].
Qed.

(* the model's handler and the specification's user agree *)
Lemma cb_answer_says : forall cb n cert, cb_answer cb n cert = user_says cb n cert.
Proof. intros [|a d|l d] n cert; cbn; [reflexivity|reflexivity|]. now rewrite lookup_find. Qed.

Lemma shown_current : forall cur, shown_cert cur = cur.
Proof. reflexivity. Qed.

Lemma tls_verify_eq : forall pre cur cb n,
  tls_verify pre cur cb n =
    if pre =? 1 then (1, [], n)
    else match user_says cb n cur with
         | None => (0, [], n)
         | Some a => (a, [OCertfail n cur a], S n)
         end.
Proof.
  intros pre cur cb n. unfold tls_verify.
  change (shape_ret 1) with (Some 1). change (shape_ret 2) with (Some 0). change (shape_ret 0) with (Some 100).
  rewrite shown_current, cb_answer_says.
  destruct (pre =? 1); [reflexivity|]. destruct (user_says cb n cur); reflexivity.
Qed.

(* events that the certificate walk can produce *)
Definition quiet_ev (o : out) : bool :=
  match o with OVerify _ _ | OCertfail _ _ _ => true | _ => false end.
Definition quiet (l : list out) : Prop := forallb quiet_ev l = true.

Lemma quiet_app : forall a b, quiet a -> quiet b -> quiet (a ++ b).
Proof. unfold quiet; intros; rewrite forallb_app; now rewrite H, H0. Qed.

Lemma quiet_existsb : forall (P : out -> bool) l,
  (forall o, quiet_ev o = true -> P o = false) -> quiet l -> existsb P l = false.
Proof.
  intros P l HP. induction l as [|o l IH]; intros H; [reflexivity|].
  unfold quiet in H; cbn in H. apply andb_true_iff in H as [H1 H2].
  cbn. rewrite (HP o H1). now apply IH.
Qed.

Lemma quiet_filter : forall (P : out -> bool) l,
  (forall o, quiet_ev o = true -> P o = false) -> quiet l -> filter P l = [].
Proof.
  intros P l HP. induction l as [|o l IH]; intros H; [reflexivity|].
  unfold quiet in H; cbn in H. apply andb_true_iff in H as [H1 H2].
  cbn. rewrite (HP o H1). now apply IH.
Qed.

Lemma quiet_after : forall l r, quiet l -> after_failed_start (l ++ r) = after_failed_start r.
Proof.
  induction l as [|o l IH]; intros r H; [reflexivity|].
  unfold quiet in H; cbn in H. apply andb_true_iff in H as [H1 H2].
  cbn. destruct o; try discriminate; cbn; now apply IH.
Qed.

(* the walk, seen from the specification side *)
Fixpoint accepted_all (cb : cbk) (stream : list (Z * Z)) (n : nat) : bool :=
  match stream with
  | [] => true
  | (p, cur) :: r => if p =? 1 then accepted_all cb r n
                     else cb_accepts_b cb n cur && accepted_all cb r (S n)
  end.

Lemma accepted_all_spec : forall cb stream n,
  accepted_all cb stream n = all_accepted_b cb n (failing_certs stream).
Proof.
  intros cb stream. induction stream as [|[p cur] r IH]; intros n; [reflexivity|].
  cbn [accepted_all]. unfold failing_certs. cbn [filter fst]. destruct (p =? 1); cbn [negb].
  - apply IH.
  - cbn [map snd all_accepted_b]. f_equal. apply IH.
Qed.

Lemma ssl_verify_cb : forall cfg cb stream n,
  v_cb cfg = 1 ->
  fst (fst (ssl_verify cfg cb stream n)) = accepted_all cb stream n /\
  quiet (snd (fst (ssl_verify cfg cb stream n))).
Proof.
  intros cfg cb stream. induction stream as [|[p cur] r IH]; intros n Hcb; [split; reflexivity|].
  cbn [ssl_verify accepted_all]. rewrite Hcb. change (1 =? 1) with true. cbv iota.
  rewrite tls_verify_eq. unfold cb_accepts_b.
  destruct (p =? 1) eqn:Hp.
  - change (1 =? 0) with false. cbv iota.
    destruct (ssl_verify cfg cb r n) as [[ok evs'] n''] eqn:E.
    specialize (IH n Hcb). rewrite E in IH. cbn in *. destruct IH as [I1 I2]. split; [exact I1|].
    unfold quiet in *. cbn. exact I2.
  - destruct (user_says cb n cur) as [a|].
    + destruct (a =? 0) eqn:Ha.
      * cbn. split; reflexivity.
      * cbn [negb andb].
        destruct (ssl_verify cfg cb r (S n)) as [[ok evs'] n''] eqn:E.
        specialize (IH (S n) Hcb). rewrite E in IH. cbn in *. destruct IH as [I1 I2]. split; [exact I1|].
        unfold quiet in *. cbn. exact I2.
    + cbn. split; reflexivity.
Qed.

(* without a callback OpenSSL keeps its own verdict: nothing of libstrophe runs *)
Lemma ssl_verify_nocb : forall cfg cb stream n,
  v_cb cfg = 0 -> quiet (snd (fst (ssl_verify cfg cb stream n))).
Proof.
  intros cfg cb stream. induction stream as [|[p cur] r IH]; intros n Hcb; [reflexivity|].
  cbn [ssl_verify]. rewrite Hcb. change (0 =? 1) with false. cbv iota.
  destruct (p =? 0).
  - reflexivity.
  - destruct (ssl_verify cfg cb r n) as [[ok evs'] n''] eqn:E.
    specialize (IH n Hcb). rewrite E in IH. cbn in *. exact IH.
Qed.

Lemma cb_accepts_iff : forall cb i c, cb_accepts_b cb i c = true <-> cb_accepts cb i c.
Proof.
  intros cb i c. unfold cb_accepts_b, cb_accepts. destruct (user_says cb i c) as [a|].
  - destruct (a =? 0) eqn:E; cbn; split.
    + discriminate.
    + intros [a' [H1 H2]]. injection H1 as <-. apply Z.eqb_eq in E. contradiction.
    + intros _. exists a. split; [reflexivity|]. intro H; subst; discriminate.
    + reflexivity.
  - split; [discriminate|]. intros [a [H _]]. discriminate.
Qed.

Lemma all_accepted_consent : forall cb certs n,
  all_accepted_b cb n certs = true <->
  (forall i c, nth_error certs i = Some c -> cb_accepts cb (n + i) c).
Proof.
  intros cb certs. induction certs as [|c r IH]; intros n.
  - split; [intros _ [|i] c H; discriminate|reflexivity].
  - cbn [all_accepted_b]. rewrite andb_true_iff, cb_accepts_iff, IH. split.
    + intros [H1 H2] [|i] c' Hn; cbn in Hn.
      * injection Hn as <-. now rewrite Nat.add_0_r.
      * replace (n + S i)%nat with (S n + i)%nat by lia. now apply H2.
    + intros H. split.
      * specialize (H 0%nat c eq_refl). now rewrite Nat.add_0_r in H.
      * intros i c' Hn. replace (S n + i)%nat with (n + S i)%nat by lia. now apply H.
Qed.

Lemma accepted_all_no_fail : forall cb stream n, Forall (fun e => fst e = 1) stream -> accepted_all cb stream n = true.
Proof.
  intros cb stream n H. induction H as [|[p cur] r Hp _ IH]; [reflexivity|].
  cbn in *. subst p. exact IH.
Qed.

Lemma accepted_all_none : forall stream n, (exists e, In e stream /\ fst e <> 1) -> accepted_all CbNone stream n = false.
Proof.
  intros stream n [e [Hin Hp]]. induction stream as [|[q cur] r IH]; [contradiction|].
  cbn. destruct (q =? 1) eqn:Hq; [|reflexivity].
  destruct Hin as [<-|Hin]; [apply Z.eqb_eq in Hq; contradiction|]. now apply IH.
Qed.

Lemma accepted_all_const_tail : forall v r n, (v =? 0) = false -> accepted_all (CbScript [] v) r n = true.
Proof.
  intros v r. induction r as [|[q cur] r IH]; intros n Hv; [reflexivity|].
  cbn [accepted_all]. destruct (q =? 1); [now apply IH|].
  unfold cb_accepts_b. cbn [user_says]. replace (nth n [] v) with v by (destruct n; reflexivity).
  rewrite Hv. cbn. now apply IH.
Qed.

Lemma accepted_all_const : forall v stream n,
  (exists e, In e stream /\ fst e <> 1) -> accepted_all (CbScript [] v) stream n = negb (v =? 0).
Proof.
  intros v stream. induction stream as [|[q cur] r IH]; intros n [e [Hin Hp]]; [contradiction|].
  cbn [accepted_all].
  destruct (q =? 1) eqn:Hq.
  - destruct Hin as [<-|Hin]; [apply Z.eqb_eq in Hq; contradiction|]. apply IH. eauto.
  - unfold cb_accepts_b. cbn [user_says]. replace (nth n [] v) with v by (destruct n; reflexivity).
    destruct (v =? 0) eqn:Hv; [reflexivity|]. cbn. now apply accepted_all_const_tail.
Qed.

(* the handler set last is the one in force *)
Lemma effective_cb_eq : forall sc, effective_cb sc = s_cb sc.
Proof.
  intros sc. unfold effective_cb. rewrite fold_left_app. cbn. reflexivity.
Qed.

(* ---------------------------------------------------------------- tls_start *)
Definition start_ok (sc : scenario) : bool :=
  s_hs_ok sc && (s_trust sc || accepted_all (s_cb sc) (s_stream sc) 0).

Lemma tls_start_eq : forall sc,
  exists evs n', tls_start (the_cfg sc) sc 0 = (start_ok sc, evs, n') /\ quiet evs.
Proof.
  intros sc. unfold tls_start, start_ok. rewrite effective_cb_eq.
  destruct (ssl_verify (the_cfg sc) (s_cb sc) (s_stream sc) 0) as [[vok evs] n'] eqn:E.
  exists evs, n'. destruct (s_trust sc) eqn:Ht.
  - pose proof (ssl_verify_nocb (the_cfg sc) (s_cb sc) (s_stream sc) 0) as Q.
    unfold the_cfg in Q at 1. rewrite Ht in Q. specialize (Q eq_refl). rewrite E in Q. cbn in Q.
    split; [|exact Q]. unfold the_cfg. rewrite Ht. cbn. reflexivity.
  - pose proof (ssl_verify_cb (the_cfg sc) (s_cb sc) (s_stream sc) 0) as Q.
    unfold the_cfg in Q at 1. rewrite Ht in Q. specialize (Q eq_refl). rewrite E in Q. cbn in Q.
    destruct Q as [Q1 Q2]. split; [|exact Q2]. unfold the_cfg. rewrite Ht. cbn. now rewrite Q1.
Qed.

(* ---------------------------------------------------------------- normal forms of a run *)
Definition derr_is_none (e : derr) : bool := match e with ErrNone => true | _ => false end.

(* connection after a successful conn_tls_start *)
Definition c_up (sc : scenario) (n : nat) : conn := mkConn Connected true false (Some (the_cfg sc)) true ErrNone n.
(* connection after a failed handshake *)
Definition c_down (sc : scenario) (n : nat) : conn := mkConn Connected false true None false (tls_error sc) n.

Definition success_tail (sc : scenario) : list out :=
  [OWire true WHeader; OIs true; OWire true WAuth; OWire true WHeader; OWire true WBind; OConnect true;
   OWire true WClose; OTlsStop; OTlsFree; OSockClose; ODisconnect false ErrNone; OIs false].

Lemma negotiate_up : forall sc n,
  negotiate_rest (c_up sc n) =
    (mkConn Disconnected true false None true ErrNone n, success_tail sc).
Proof. reflexivity. Qed.

Definition failure_tail_starttls (sc : scenario) : list out :=
  if s_tls_err sc =? 0 then
    [OWire false WClose; OSockClose;
     ODisconnect false (match s_after sc with PeerCloses => ErrPeer | PeerSilent => ErrNone end); OIs false]
  else [OWire false WClose; OSockClose; ODisconnect false ErrAborted; OIs false].

(* xmpp_disconnect and what follows: the reaction the translator found in _handle_proceedtls_default *)
Definition give_up (sc : scenario) (c : conn) : conn * list out := finish sc c [WClose].

Lemma react_proceed : forall sc n,
  react sc tls_proceed_failure_calls (c_down sc n) [] [] = (c_down sc n, [], [WClose], false).
Proof. reflexivity. Qed.

Lemma give_up_down : forall sc n,
  exists c', give_up sc (c_down sc n) = (c', failure_tail_starttls sc) /\
             c_state c' = Disconnected /\ is_secured c' = false /\ c_tls c' = None /\ c_intf_tls c' = false.
Proof.
  intros sc n. unfold give_up, finish, c_down, failure_tail_starttls, tls_error, send_phase.
  cbn [c_state c_error].
  destruct (s_tls_err sc =? 0) eqn:E.
  - unfold peer_ends. cbn [c_state]. destruct (s_after sc); cbn; eexists; repeat split; reflexivity.
  - cbn. eexists; repeat split; reflexivity.
Qed.

Lemma react_legacy : forall sc n,
  react sc tls_legacy_failure_calls (c_down sc n) [] [] =
    (set_state Disconnected (c_down sc n), [OSockClose; ODisconnect false (tls_error sc)], [], true).
Proof. reflexivity. Qed.

Definition failure_tail_legacy (sc : scenario) : list out :=
  [OSockClose; ODisconnect false (tls_error sc); OIs false].

(* TLS could not even be initialised: _auth goes on without it (refused when TLS is mandatory) *)
Definition noinit_tail (sc : scenario) : list out :=
  if s_mandatory sc then [OSockClose; ODisconnect false ErrNone; OIs false]
  else [OWire false WAuth; OSockClose;
        ODisconnect false (match s_after sc with PeerCloses => ErrPeer | PeerSilent => ErrNone end); OIs false].

Lemma noinit_conn0 : forall sc,
  exists c', (let '(c1, o1, q) := auth_clear sc conn0 in let '(c2, o2) := finish sc c1 q in (c2, o1 ++ o2)) = (c', noinit_tail sc) /\
             c_state c' = Disconnected /\ is_secured c' = false.
Proof.
  intros sc. unfold auth_clear, finish, noinit_tail, conn0, send_phase, peer_ends.
  destruct (s_mandatory sc); cbn.
  - eexists; repeat split; reflexivity.
  - destruct (s_after sc); cbn; eexists; repeat split; reflexivity.
Qed.

(* the three shapes of a run *)
Inductive shape (sc : scenario) (c : conn) (tr : list out) : Prop :=
| ShapeNoInit :          (* tls_new failed: no handshake was attempted *)
    new_ok sc = false ->
    c_state c = Disconnected -> is_secured c = false ->
    tr = match s_entry sc with
         | EStartTls => [OWire false WHeader; OTlsNew true None] ++ noinit_tail sc
         | ELegacy => [OTlsNew false None; OSockClose; ODisconnect false ErrNone; OIs false]
         end ->
    shape sc c tr
| ShapeUp : forall evs,
    new_ok sc = true -> start_ok sc = true -> quiet evs ->
    c_state c = Disconnected -> is_secured c = false ->
    tr = match s_entry sc with
         | EStartTls => [OWire false WHeader; OTlsNew true (Some (the_cfg sc)); OTlsFree; OWire false WStartTls]
         | ELegacy => []
         end ++ [OTlsNew false (Some (the_cfg sc))] ++ evs ++ [OTlsStart true] ++ success_tail sc ->
    shape sc c tr
| ShapeDown : forall evs,
    new_ok sc = true -> start_ok sc = false -> quiet evs ->
    c_state c = Disconnected -> is_secured c = false -> c_tls c = None -> c_intf_tls c = false ->
    tr = match s_entry sc with
         | EStartTls => [OWire false WHeader; OTlsNew true (Some (the_cfg sc)); OTlsFree; OWire false WStartTls]
         | ELegacy => []
         end ++ [OTlsNew false (Some (the_cfg sc))] ++ evs ++ [OTlsStart false; OTlsFree]
           ++ match s_entry sc with
              | EStartTls => failure_tail_starttls sc
              | ELegacy => failure_tail_legacy sc
              end ->
    shape sc c tr.

Lemma run_shape : forall sc, shape sc (fst (run sc)) (snd (run sc)).
Proof.
  intros sc. unfold run, conn_tls_start. rewrite tls_new_eq.
  destruct (new_ok sc) eqn:Hn.
  - destruct (tls_start_eq sc) as [evs [n' [Hs Hq]]].
    cbn [c_cbn set_intf set_tls conn0]. change (c_cbn conn0) with 0%nat. rewrite Hs.
    destruct (start_ok sc) eqn:Hok.
    + (* handshake succeeded *)
      change (set_secured true (set_cbn n' (set_intf true (set_tls (Some (the_cfg sc)) conn0)))) with (c_up sc n').
      rewrite negotiate_up.
      destruct (s_entry sc) eqn:He; cbn [fst snd].
      * apply ShapeUp with (evs := evs); try assumption; try reflexivity.
        rewrite He. cbn [wire map c_intf_tls conn0 app]. repeat rewrite <- app_assoc. reflexivity.
      * apply ShapeUp with (evs := evs); try assumption; try reflexivity.
        rewrite He. cbn [app]. repeat rewrite <- app_assoc. reflexivity.
    + (* handshake failed *)
      change (set_intf (c_intf_tls conn0)
               (set_tls_failed true (set_tls None (set_error (tls_error sc)
                  (set_cbn n' (set_intf true (set_tls (Some (the_cfg sc)) conn0)))))))
        with (c_down sc n').
      destruct (s_entry sc) eqn:He.
      * rewrite react_proceed.
        destruct (give_up_down sc n') as [c' [Hg [Hst [Hsec [Ht Hi]]]]]. unfold give_up in Hg. rewrite Hg. cbn [fst snd].
        apply ShapeDown with (evs := evs); try assumption.
        rewrite He. cbn [wire map c_intf_tls conn0 app]. repeat rewrite <- app_assoc. reflexivity.
      * rewrite react_legacy. unfold finish, send_phase, peer_ends, c_down. cbn [c_state set_state]. cbn [fst snd].
        apply ShapeDown with (evs := evs); try assumption; try reflexivity.
        rewrite He. cbn [app]. repeat rewrite <- app_assoc. reflexivity.
  - destruct (s_entry sc) eqn:He.
    + destruct (noinit_conn0 sc) as [c' [Hg [Hst Hsec]]].
      destruct (auth_clear sc conn0) as [[c1 o1] q]. destruct (finish sc c1 q) as [c2 o2].
      injection Hg as -> Ho. cbn [fst snd].
      apply ShapeNoInit; try assumption. rewrite He. cbn [wire map c_intf_tls conn0 app]. now rewrite Ho.
    + change tls_legacy_failure_calls with [2; 6]. cbn [fst snd].
      apply ShapeNoInit; try reflexivity; try assumption. rewrite He. reflexivity.
Qed.

(* ---------------------------------------------------------------- trace bookkeeping over the shapes *)
Lemma quiet_secured : forall l, quiet l -> existsb reports_secured l = false.
Proof. intros; apply quiet_existsb; [intros [] ?; try discriminate; reflexivity|assumption]. Qed.
Lemma quiet_tlswire : forall l, quiet l -> existsb is_tls_wire l = false.
Proof. intros; apply quiet_existsb; [intros [] ?; try discriminate; reflexivity|assumption]. Qed.
Lemma quiet_crash : forall l, quiet l -> existsb is_crash l = false.
Proof. intros; apply quiet_existsb; [intros [] ?; try discriminate; reflexivity|assumption]. Qed.
Lemma quiet_connected : forall l, quiet l ->
  existsb (fun o => match o with OConnect _ => true | _ => false end) l = false.
Proof. intros; apply quiet_existsb; [intros [] ?; try discriminate; reflexivity|assumption]. Qed.
Lemma quiet_connect_sec : forall l, quiet l ->
  existsb (fun o => match o with OConnect true => true | _ => false end) l = false.
Proof. intros; apply quiet_existsb; [intros [] ?; try discriminate; reflexivity|assumption]. Qed.
Lemma quiet_disc : forall l, quiet l -> filter is_disconnect l = [].
Proof. intros; apply quiet_filter; [intros [] ?; try discriminate; reflexivity|assumption]. Qed.
Lemma quiet_wire : forall l, quiet l -> wire_of l = [].
Proof. intros; apply quiet_filter; [intros [] ?; try discriminate; reflexivity|assumption]. Qed.

Ltac shape_simpl Hq :=
  unfold ever_secured, tls_wire_used, n_disconnects, connected, connect_secured, wire_of in *;
  repeat (rewrite ?existsb_app, ?filter_app, ?app_length);
  rewrite ?(quiet_secured _ Hq), ?(quiet_tlswire _ Hq), ?(quiet_crash _ Hq), ?(quiet_connected _ Hq),
          ?(quiet_connect_sec _ Hq), ?(quiet_disc _ Hq).

(* every run ends torn down, with exactly one disconnect notification and without a NULL call *)
Lemma run_ends : forall sc,
  n_disconnects (snd (run sc)) = 1%nat /\ c_state (fst (run sc)) = Disconnected /\
  is_secured (fst (run sc)) = false /\ existsb is_crash (snd (run sc)) = false.
Proof.
  intros sc. destruct (run_shape sc) as [Hn Hs Hsec Htr | evs Hn Hok Hq Hs Hsec Htr | evs Hn Hok Hq Hs Hsec Htl Hif Htr];
    rewrite Htr; (split; [|split; [assumption|split; [assumption|]]]).
  - unfold noinit_tail; destruct (s_entry sc), (s_mandatory sc), (s_after sc); reflexivity.
  - unfold noinit_tail; destruct (s_entry sc), (s_mandatory sc), (s_after sc); reflexivity.
  - shape_simpl Hq. destruct (s_entry sc); reflexivity.
  - shape_simpl Hq. destruct (s_entry sc); reflexivity.
  - shape_simpl Hq. unfold failure_tail_starttls, failure_tail_legacy.
    destruct (s_entry sc), (s_tls_err sc =? 0), (s_after sc); reflexivity.
  - shape_simpl Hq. unfold failure_tail_starttls, failure_tail_legacy.
    destruct (s_entry sc), (s_tls_err sc =? 0), (s_after sc); reflexivity.
Qed.

Lemma start_ok_consent : forall sc, start_ok sc = true -> user_consent sc.
Proof.
  intros sc H. unfold start_ok in H. apply andb_true_iff in H as [_ H].
  apply orb_true_iff in H as [H|H]; [now left|right].
  rewrite accepted_all_spec in H. intros i c Hn. change i with (0 + i)%nat.
  eapply all_accepted_consent; eassumption.
Qed.

Lemma consent_b_iff : forall sc, user_consent_b sc = true <-> user_consent sc.
Proof.
  intros sc. unfold user_consent_b, user_consent. rewrite orb_true_iff, all_accepted_consent.
  split; intros [H|H]; [now left| |now left|]; right; intros i c Hn; apply (H i c Hn).
Qed.

(* a run that reports "secured" anywhere, or writes anything over TLS, is a run of shape Up *)
Lemma trusted_only_up : forall sc,
  ever_secured (snd (run sc)) = true \/ tls_wire_used (snd (run sc)) = true ->
  new_ok sc = true /\ start_ok sc = true.
Proof.
  intros sc H. destruct (run_shape sc) as [Hn Hs Hsec Htr | evs Hn Hok Hq Hs Hsec Htr | evs Hn Hok Hq Hs Hsec Htl Hif Htr].
  - exfalso. rewrite Htr in H. unfold noinit_tail in H.
    destruct (s_entry sc), (s_mandatory sc), (s_after sc); cbn in H; destruct H; discriminate.
  - now split.
  - exfalso. rewrite Htr in H. revert H. shape_simpl Hq.
    unfold failure_tail_starttls, failure_tail_legacy.
    destruct (s_entry sc), (s_tls_err sc =? 0), (s_after sc); cbn; intros [H|H]; discriminate.
Qed.

(* ---------------------------------------------------------------- the theorems *)
Lemma secured_consent : forall sc,
  ever_secured (snd (run sc)) = true \/ tls_wire_used (snd (run sc)) = true -> user_consent sc.
Proof. intros sc H. apply start_ok_consent. now apply trusted_only_up. Qed.

Lemma no_consent_aborts : forall sc,
  ~ user_consent sc ->
  ever_secured (snd (run sc)) = false /\ tls_wire_used (snd (run sc)) = false /\
  connected (snd (run sc)) = false /\
  n_disconnects (snd (run sc)) = 1%nat /\ c_state (fst (run sc)) = Disconnected.
Proof.
  intros sc Hc.
  assert (Hs : ever_secured (snd (run sc)) = false /\ tls_wire_used (snd (run sc)) = false).
  { destruct (ever_secured (snd (run sc))) eqn:E1; [exfalso; apply Hc, secured_consent; now left|].
    destruct (tls_wire_used (snd (run sc))) eqn:E2; [exfalso; apply Hc, secured_consent; now right|]. now split. }
  destruct Hs as [H1 H2]. split; [assumption|split; [assumption|]].
  destruct (run_ends sc) as [Hd [Hst _]]. split; [|now split].
  destruct (run_shape sc) as [Hn Hs Hsec Htr | evs Hn Hok Hq Hs Hsec Htr | evs Hn Hok Hq Hs Hsec Htl Hif Htr].
  - rewrite Htr. unfold noinit_tail. destruct (s_entry sc), (s_mandatory sc), (s_after sc); reflexivity.
  - exfalso. apply Hc. now apply start_ok_consent.
  - rewrite Htr. shape_simpl Hq. unfold failure_tail_starttls, failure_tail_legacy.
    destruct (s_entry sc), (s_tls_err sc =? 0), (s_after sc); reflexivity.
Qed.

Lemma no_callback_aborts : forall sc,
  s_trust sc = false -> s_cb sc = CbNone -> (exists e, In e (s_stream sc) /\ fst e <> 1) ->
  ever_secured (snd (run sc)) = false /\ tls_wire_used (snd (run sc)) = false /\
  connected (snd (run sc)) = false /\
  n_disconnects (snd (run sc)) = 1%nat /\ c_state (fst (run sc)) = Disconnected /\
  (new_ok sc = true -> In (OTlsStart false) (snd (run sc))).
Proof.
  intros sc Ht Hcb Hf.
  assert (Hok : start_ok sc = false).
  { unfold start_ok. rewrite Ht, Hcb, accepted_all_none by assumption. now rewrite andb_false_r. }
  assert (Hc : ~ user_consent sc).
  { intros [H|H]; [congruence|].
    assert (A : accepted_all (s_cb sc) (s_stream sc) 0 = true).
    { rewrite accepted_all_spec. apply all_accepted_consent. exact H. }
    rewrite Hcb, accepted_all_none in A by assumption. discriminate. }
  destruct (no_consent_aborts sc Hc) as [A [B [C [D E]]]]. repeat (split; [assumption|]).
  intros Hn. destruct (run_shape sc) as [Hn' Hs Hsec Htr | evs Hn' Hok' Hq Hs Hsec Htr | evs Hn' Hok' Hq Hs Hsec Htl Hif Htr];
    [congruence|congruence|].
  rewrite Htr. apply in_or_app; right. apply in_or_app; right. apply in_or_app; right. apply in_or_app; left. now left.
Qed.

Lemma rejecting_callback_aborts : forall sc i cert,
  s_trust sc = false ->
  nth_error (failing_certs (s_stream sc)) i = Some cert -> user_says (s_cb sc) i cert = Some 0 ->
  ever_secured (snd (run sc)) = false /\ tls_wire_used (snd (run sc)) = false /\
  connected (snd (run sc)) = false /\
  n_disconnects (snd (run sc)) = 1%nat /\ c_state (fst (run sc)) = Disconnected.
Proof.
  intros sc i cert Ht Hn Hz. apply no_consent_aborts.
  intros [H|H]; [congruence|]. destruct (H i cert Hn) as [a [Ha Hnz]]. rewrite Hz in Ha. injection Ha as <-. now apply Hnz.
Qed.

Lemma after_start_failed : forall pre evs tail,
  quiet evs -> existsb is_start_failed pre = false ->
  after_failed_start (pre ++ evs ++ OTlsStart false :: tail) = Some tail.
Proof.
  intros pre evs tail Hq Hp. induction pre as [|o pre IH].
  - cbn [app]. rewrite quiet_after by assumption. reflexivity.
  - cbn in Hp. apply orb_false_iff in Hp as [H1 H2]. cbn. rewrite H1. now apply IH.
Qed.

Lemma failed_handshake : forall sc,
  In (OTlsStart false) (snd (run sc)) ->
  ever_secured (snd (run sc)) = false /\ tls_wire_used (snd (run sc)) = false /\
  connected (snd (run sc)) = false /\
  (exists r, after_failed_start (snd (run sc)) = Some r /\ close_only r = true /\
             (s_entry sc = ELegacy -> wire_of r = [])) /\
  n_disconnects (snd (run sc)) = 1%nat /\
  c_state (fst (run sc)) = Disconnected /\ c_tls (fst (run sc)) = None /\ c_intf_tls (fst (run sc)) = false /\
  is_secured (fst (run sc)) = false.
Proof.
  intros sc Hin.
  destruct (run_ends sc) as [Hd [Hst [Hsec _]]].
  destruct (run_shape sc) as [Hn Hs' Hsec' Htr | evs Hn Hok Hq Hs' Hsec' Htr | evs Hn Hok Hq Hs' Hsec' Htl Hif Htr].
  - exfalso. rewrite Htr in Hin. unfold noinit_tail in Hin.
    destruct (s_entry sc), (s_mandatory sc), (s_after sc); cbn in Hin; repeat (destruct Hin as [Hin|Hin]; try discriminate); contradiction.
  - exfalso. rewrite Htr in Hin.
    assert (Q : existsb is_start_failed evs = false) by (apply quiet_existsb; [intros [] ?; try discriminate; reflexivity|assumption]).
    destruct (s_entry sc);
      repeat (apply in_app_or in Hin as [Hin|Hin]);
      try (cbn in Hin; repeat (destruct Hin as [Hin|Hin]; try discriminate); try contradiction);
      try (assert (existsb is_start_failed evs = true) by (apply existsb_exists; eexists; split; [exact Hin|reflexivity]); congruence).
  - repeat split; try assumption.
    + rewrite Htr. shape_simpl Hq. unfold failure_tail_starttls, failure_tail_legacy.
      destruct (s_entry sc), (s_tls_err sc =? 0), (s_after sc); reflexivity.
    + rewrite Htr. shape_simpl Hq. unfold failure_tail_starttls, failure_tail_legacy.
      destruct (s_entry sc), (s_tls_err sc =? 0), (s_after sc); reflexivity.
    + rewrite Htr. shape_simpl Hq. unfold failure_tail_starttls, failure_tail_legacy.
      destruct (s_entry sc), (s_tls_err sc =? 0), (s_after sc); reflexivity.
    + rewrite Htr.
      eexists. split.
      * rewrite app_assoc. cbn [app]. apply after_start_failed; [assumption|].
        destruct (s_entry sc); reflexivity.
      * unfold failure_tail_starttls, failure_tail_legacy.
        destruct (s_entry sc), (s_tls_err sc =? 0), (s_after sc); cbn; split; try reflexivity; intros; try discriminate; reflexivity.
Qed.

Lemma verify_none_iff_trust : forall sc cfg,
  tls_new sc = Some cfg ->
  (Z.odd (v_mode cfg) = false <-> s_trust sc = true) /\
  (v_mode cfg = SSL_VERIFY_NONE \/ v_mode cfg = SSL_VERIFY_PEER) /\
  (s_trust sc = false -> v_cb cfg = 1).
Proof.
  intros sc cfg H. rewrite tls_new_eq in H. destruct (new_ok sc); [|discriminate].
  injection H as <-. unfold the_cfg. cbn. destruct (s_trust sc); cbn; repeat split; intros; try congruence; auto.
Qed.

Lemma host_pinned : forall sc cfg,
  tls_new sc = Some cfg ->
  v_host cfg = true /\ v_hostflags cfg = X509_CHECK_FLAG_NO_PARTIAL_WILDCARDS /\
  v_ca cfg = (s_cafile sc || s_capath sc) /\ v_clock cfg = true.
Proof.
  intros sc cfg H. rewrite tls_new_eq in H. destruct (new_ok sc); [|discriminate].
  injection H as <-. repeat split.
Qed.

(* a CA location that cannot be loaded is fatal, never ignored *)
Lemma unusable_ca_fails_closed : forall sc,
  (s_cafile sc || s_capath sc) = true -> s_ca_ok sc = false ->
  tls_new sc = None /\ ever_secured (snd (run sc)) = false /\ tls_wire_used (snd (run sc)) = false.
Proof.
  intros sc Hca Hok.
  assert (Hn : new_ok sc = false) by (unfold new_ok; rewrite Hca, Hok; apply andb_false_r).
  split; [rewrite tls_new_eq, Hn; reflexivity|].
  destruct (ever_secured (snd (run sc))) eqn:E1.
  - destruct (trusted_only_up sc (or_introl E1)); congruence.
  - split; [reflexivity|]. destruct (tls_wire_used (snd (run sc))) eqn:E2; [|reflexivity].
    destruct (trusted_only_up sc (or_intror E2)); congruence.
Qed.

(* ---------------------------------------------------------------- the decision table *)
Lemma all_cells_112 : length all_cells = 112%nat.
Proof. reflexivity. Qed.

Lemma all_cells_complete : forall c, In c all_cells.
Proof.
  intros [k m e ca]. unfold all_cells.
  apply in_flat_map. exists k. split; [destruct k; cbn; tauto|].
  apply in_flat_map. exists m. split; [destruct m; cbn; tauto|].
  apply in_flat_map. exists e. split; [destruct e; cbn; tauto|].
  apply in_map with (f := fun ca => mkCell k m e ca). destruct ca; cbn; tauto.
Qed.

Lemma cell_start_ok : forall c before mand stream hs te after,
  stream_consistent c stream ->
  start_ok (cell_scenario c before mand stream hs te after) = hs && table_secured c.
Proof.
  intros c before mand stream hs te after Hc. unfold start_ok, cell_scenario, table_secured. cbn [s_hs_ok s_trust s_cb s_stream].
  f_equal. unfold stream_consistent in Hc.
  destruct (cert_verifies c) eqn:Hv.
  - rewrite accepted_all_no_fail by assumption. cbn. now rewrite orb_true_r.
  - cbn [orb]. destruct (k_mode c); cbn [orb].
    + reflexivity.
    + now apply accepted_all_none.
    + rewrite accepted_all_const by assumption. reflexivity.
    + rewrite accepted_all_const by assumption. reflexivity.
Qed.

Lemma decision_table : forall c before mand stream hs te after,
  In c all_cells -> stream_consistent c stream ->
  let tr := snd (run (cell_scenario c before mand stream hs te after)) in
  connect_secured tr = hs && table_secured c /\
  ever_secured tr = hs && table_secured c /\
  tls_wire_used tr = hs && table_secured c /\
  n_disconnects tr = 1%nat.
Proof.
  intros c before mand stream hs te after _ Hc tr. subst tr.
  set (sc := cell_scenario c before mand stream hs te after).
  pose proof (cell_start_ok c before mand stream hs te after Hc) as Hok. fold sc in Hok.
  assert (Hn : new_ok sc = true) by (unfold new_ok, sc, cell_scenario; cbn; destruct (k_ca c); reflexivity).
  destruct (run_ends sc) as [Hd _].
  destruct (run_shape sc) as [Hn' Hs Hsec Htr | evs Hn' Hok' Hq Hs Hsec Htr | evs Hn' Hok' Hq Hs Hsec Htl Hif Htr]; [congruence| |].
  - rewrite <- Hok, Hok'. rewrite Htr. shape_simpl Hq.
    destruct (s_entry sc); repeat split; try reflexivity; rewrite <- Htr; exact Hd.
  - rewrite <- Hok, Hok'. rewrite Htr. shape_simpl Hq. unfold failure_tail_starttls, failure_tail_legacy.
    destruct (s_entry sc), (s_tls_err sc =? 0), (s_after sc); repeat split; try reflexivity; rewrite <- Htr; exact Hd.
Qed.

(* the executable statement of the whole property holds on every run of the model *)
Lemma policy_ok_all : forall sc, policy_ok sc = true.
Proof.
  intros sc. unfold policy_ok, policy_holds.
  destruct (run_ends sc) as [Hd [Hst [Hsec Hcr]]].
  rewrite Hd, Hst, Hsec, Hcr. cbn [Nat.eqb negb andb].
  rewrite !andb_true_r.
  apply andb_true_iff. split.
  - destruct (ever_secured (snd (run sc)) || tls_wire_used (snd (run sc))) eqn:E; [|reflexivity].
    cbn. apply consent_b_iff. apply secured_consent. now apply orb_true_iff in E.
  - destruct (after_failed_start (snd (run sc))) as [r|] eqn:Ea; [|reflexivity].
    assert (Hin : In (OTlsStart false) (snd (run sc))).
    { clear -Ea. revert r Ea. induction (snd (run sc)) as [|o l IH]; intros r Ea; [discriminate|].
      cbn in Ea. destruct (is_start_failed o) eqn:Eo.
      - left. destruct o; try discriminate. destruct ok; [discriminate|reflexivity].
      - right. eapply IH; eassumption. }
    destruct (failed_handshake sc Hin) as [A [B [C [[r' [Hr [Hc _]]] _]]]].
    rewrite A, B, C. rewrite Hr in Ea. injection Ea as <-. now rewrite Hc.
Qed.

Lemma no_callback_aborts' : forall sc,
  s_trust sc = false -> s_cb sc = CbNone -> (exists e, In e (s_stream sc) /\ fst e <> 1) ->
  ever_secured (snd (run sc)) = false /\ tls_wire_used (snd (run sc)) = false /\
  connected (snd (run sc)) = false /\
  n_disconnects (snd (run sc)) = 1%nat /\ c_state (fst (run sc)) = Disconnected /\
  (tls_new sc <> None -> In (OTlsStart false) (snd (run sc))).
Proof.
  intros sc H1 H2 H3. destruct (no_callback_aborts sc H1 H2 H3) as [A [B [C [D [E F]]]]].
  repeat (split; [assumption|]). intros Hn. apply F. rewrite tls_new_eq in Hn. destruct (new_ok sc); congruence.
Qed.

Lemma decision_table_full :
  length all_cells = 112%nat /\ (forall c, In c all_cells) /\
  forall c before mand stream hs te after,
    In c all_cells -> stream_consistent c stream ->
    let tr := snd (run (cell_scenario c before mand stream hs te after)) in
    connect_secured tr = hs && table_secured c /\
    ever_secured tr = hs && table_secured c /\
    tls_wire_used tr = hs && table_secured c /\
    n_disconnects tr = 1%nat.
Proof. split; [exact all_cells_112|split; [exact all_cells_complete|exact decision_table]]. Qed.

(* ---------------------------------------------------------------- the hypotheses of the theorems are satisfiable *)
Definition ex_sc (trust : bool) (cb : cbk) (e : entry) (stream : list (Z * Z)) : scenario :=
  mkScenario trust true false [] cb e false true true stream true 1 PeerCloses.

Example ex_secured_by_verification :
  let sc := ex_sc false CbNone EStartTls [(1, 1); (1, 0)] in
  ever_secured (snd (run sc)) = true /\ user_consent sc.
Proof. split; [reflexivity|]. right. intros [|i] c H; discriminate. Qed.
Example ex_secured_by_callback :
  ever_secured (snd (run (ex_sc false (CbScript [1; 1] 0) ELegacy [(0, 0); (0, 0); (1, 0)]))) = true.
Proof. reflexivity. Qed.
(* expired intermediate, the user pinned the intermediate: accepted; pinned the leaf only: refused *)
Example ex_secured_by_pinned_intermediate :
  ever_secured (snd (run (ex_sc false (CbByCert [(1, 1)] 0) ELegacy [(1, 2); (0, 1); (1, 1); (1, 0)]))) = true /\
  ever_secured (snd (run (ex_sc false (CbByCert [(0, 1)] 0) ELegacy [(1, 2); (0, 1); (1, 1); (1, 0)]))) = false.
Proof. split; reflexivity. Qed.
Example ex_secured_by_trust_flag :
  ever_secured (snd (run (ex_sc true CbNone EStartTls [(0, 0)]))) = true.
Proof. reflexivity. Qed.
Example ex_no_callback_failing :
  let sc := ex_sc false CbNone EStartTls [(1, 1); (0, 0)] in
  s_trust sc = false /\ s_cb sc = CbNone /\ (exists e, In e (s_stream sc) /\ fst e <> 1) /\ In (OTlsStart false) (snd (run sc)).
Proof. cbn. repeat split; [exists (0, 0); split; [tauto|discriminate]|]. tauto. Qed.
Example ex_rejecting_callback :
  let sc := ex_sc false (CbByCert [(1, 0)] 1) ELegacy [(1, 2); (0, 1); (1, 0)] in
  nth_error (failing_certs (s_stream sc)) 0 = Some 1 /\ user_says (s_cb sc) 0 1 = Some 0 /\ In (OTlsStart false) (snd (run sc)).
Proof. cbn. repeat split. tauto. Qed.
Example ex_failed_handshake_silent_peer :
  In (OTlsStart false) (snd (run (mkScenario false true false [] CbNone EStartTls false true true [] false 5 PeerSilent))).
Proof. cbn. tauto. Qed.
Example ex_unusable_ca :
  let sc := mkScenario false true false [] CbNone ELegacy true true false [] true 0 PeerCloses in
  (s_cafile sc || s_capath sc) = true /\ s_ca_ok sc = false /\ tls_new sc = None.
Proof. repeat split. Qed.
Example ex_cell_consistent :
  stream_consistent (mkCell KExpired MCallbackAccepts ELegacy true) [(1, 1); (0, 0); (1, 0)] /\
  stream_consistent (mkCell KValid MNoCallback EStartTls true) [(1, 1); (1, 0)].
Proof. split; cbn; [exists (0, 0); split; [tauto|discriminate]|repeat constructor]. Qed.

(* an accept-all handler that was removed again has no say: same run as if it had never been installed *)
Example ex_removed_handler :
  let sc := mkScenario false true false [CbScript [] 1] CbNone EStartTls false true true [(0, 0)] true 1 PeerCloses in
  effective_cb sc = CbNone /\ ever_secured (snd (run sc)) = false.
Proof. split; reflexivity. Qed.
