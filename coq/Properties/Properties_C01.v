(* C01 - No peer input can crash, corrupt or wedge the client (model part: the reaction logic).
   Statements only (model: Model/NegModel.v).  Memory safety of the C text is NOT covered by these
   theorems (partial; see DESIGN.md section 7): it is exercised by the sanitizer runs of the check. *)
Require Import LV.Common.Bytes LV.Gen.Gen_neg LV.Model.NegState LV.Model.NegModel LV.Spec.NegSpec LV.Proofs.NegProofs_C01.
Local Open Scope Z_scope.
Require LV.Spec.NegSkeleton LV.Proofs.NegSkeletonProof.

(* translator tie: the handler registrations, time-out macros, call edges and reset assignments found in
   auth.c / conn.c on this run are the ones the model's tables were written against *)
Theorem registration_skeleton_as_modelled :
  LV.Spec.NegSkeleton.skeleton_ok skeleton = true.
Proof. exact LV.Proofs.NegSkeletonProof.skeleton_matches. Qed.
Print Assumptions registration_skeleton_as_modelled.

(* no NULL dereference / assert / unbounded recursion outcome (`Crash`) is reachable, whatever the
   server sends (any elements, any chunking into reads, at any stage) and whatever the user does *)
Theorem step_never_crashes :
  forall ops, check_run ok_nocrash init_state ops = true.
Proof. exact nocrash_ok. Qed.
Print Assumptions step_never_crashes.

(* at most one disconnect notification per connection attempt *)
Theorem at_most_one_disconnect_per_connection :
  forall ops, Nat.leb (g_disconnects (gh (fst (run init_state ops)))) 1 = true.
Proof. exact one_disconnect_proof. Qed.
Print Assumptions at_most_one_disconnect_per_connection.

(* a disconnected object is reusable: a new connect is accepted as soon as a candidate of the list that
   the connect call builds answers *)
Theorem disconnected_object_is_reusable :
  forall ops now k r,
    let s := fst (run init_state ops) in
    st s = Disconnected -> jid_set s = true -> snd (sock_connect (next_cands s)) = Some (k, r) ->
    snd (connect_client now s) = XMPP_EOK /\ st (fst (fst (connect_client now s))) = Connecting.
Proof. exact reusable_proof. Qed.
Print Assumptions disconnected_object_is_reusable.
