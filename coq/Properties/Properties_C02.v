(* C02 - Credentials obey the TLS and mechanism policy the user configured.
   Statements only (model: Model/NegModel.v, executable statements: Spec/NegSpec.v). *)
Require Import LV.Common.Bytes LV.Gen.Gen_neg LV.Model.NegState LV.Model.NegModel LV.Spec.NegSpec LV.Proofs.NegProofs_C02.
Local Open Scope Z_scope.
Require LV.Spec.NegSkeleton LV.Proofs.NegSkeletonProof.

(* translator tie: the handler registrations, time-out macros, call edges and reset assignments found in
   auth.c / conn.c on this run are the ones the model's tables were written against *)
Theorem registration_skeleton_as_modelled :
  LV.Spec.NegSkeleton.skeleton_ok skeleton = true.
Proof. exact LV.Proofs.NegSkeletonProof.skeleton_matches. Qed.
Print Assumptions registration_skeleton_as_modelled.

(* what `check_run ok s ops = true` says: `ok` holds at every step of the run *)
Theorem check_run_meaning :
  forall ok s ops, check_run ok s ops = true <->
    (forall pre o post, ops = pre ++ o :: post ->
       let sp := fst (run s pre) in ok sp o (fst (step sp o)) (snd (step sp o)) = true).
Proof. exact check_run_meaning_proof. Qed.
Print Assumptions check_run_meaning.

(* with mandatory TLS no SASL initial response, challenge response or legacy password is ever written
   to the plain socket, for every user program, server script, TLS verdict and clock *)
Theorem mandatory_tls_gates_credentials :
  forall ops, check_run ok_mandatory init_state ops = true.
Proof. exact mandatory_ok. Qed.
Print Assumptions mandatory_tls_gates_credentials.

Theorem disabled_tls_never_requested :
  forall ops, check_run ok_disabled init_state ops = true.
Proof. exact disabled_ok. Qed.
Print Assumptions disabled_tls_never_requested.

(* SASL PLAIN is written only if no stream's features on this connection offered SCRAM-*, DIGEST-MD5
   or (with a client certificate) EXTERNAL *)
Theorem plain_only_if_nothing_stronger_offered :
  forall ops, check_run ok_plain init_state ops = true.
Proof. exact plain_ok. Qed.
Print Assumptions plain_only_if_nothing_stronger_offered.

Theorem legacy_auth_only_with_flag_and_client :
  forall ops, check_run ok_legacy init_state ops = true.
Proof. exact legacy_ok. Qed.
Print Assumptions legacy_auth_only_with_flag_and_client.
