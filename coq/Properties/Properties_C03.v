(* C03 - Negotiation follows the server's offers; 'connected' means fully negotiated.
   Statements only (model: Model/NegModel.v, executable statements: Spec/NegSpec.v). *)
Require Import LV.Common.Bytes LV.Gen.Gen_neg LV.Model.NegState LV.Model.NegModel LV.Spec.NegSpec LV.Spec.NegSkeleton LV.Proofs.NegProofs_C03.
From Coq Require Import String.
Local Open Scope Z_scope.

(* the handler registrations found in auth.c / conn.c (regenerated on every run) are the ones the
   model's tables assume: filters, periods, and which function registers what *)
Theorem registration_skeleton_as_modelled :
  skeleton_ok skeleton = true.
Proof. exact Gen_skeleton_ok. Qed.
Print Assumptions registration_skeleton_as_modelled.

(* STARTTLS, the SASL mechanism, compression, bind, session, SM enable/resume are requested only if a
   <stream:features/> received earlier on the same connection offered them; over all server scripts
   and all connect/disconnect cycles on the same object *)
Theorem requests_answer_offers :
  forall ops, check_run ok_offers init_state ops = true.
Proof. exact offers_ok. Qed.
Print Assumptions requests_answer_offers.

Theorem header_hides_jid_unless_secured_and_bind_asks_configured_resource :
  forall ops, check_run ok_header_bind init_state ops = true.
Proof. exact header_bind_ok. Qed.
Print Assumptions header_hides_jid_unless_secured_and_bind_asks_configured_resource.

(* at most one 'connected' per attempt, and only after <success/> and a bind result or <resumed/>
   (or a legacy auth result), the component handshake, or - raw mode - the stream header *)
Theorem connect_once_and_only_when_negotiated :
  forall ops, check_run ok_connect init_state ops = true.
Proof. exact connect_ok. Qed.
Print Assumptions connect_once_and_only_when_negotiated.

Theorem nothing_user_visible_before_connect :
  forall ops, check_run ok_user init_state ops = true.
Proof. exact user_ok. Qed.
Print Assumptions nothing_user_visible_before_connect.

Theorem starttls_is_followed_by_a_stream_restart :
  forall ops, check_run ok_restart init_state ops = true.
Proof. exact restart_ok. Qed.
Print Assumptions starttls_is_followed_by_a_stream_restart.
