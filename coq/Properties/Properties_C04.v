(* C04 - Stream management never loses, duplicates or misnumbers outbound stanzas.
   Statements only; proofs are in Proofs/SmProofs.v, SmFlagsProofs.v, SmRetainedProofs.v.

   `sys_run bt sys0 l` runs the model of the stream-management bookkeeping (Model/SmModel.v: event.c send loop,
   _send_raw, _conn_sm_handle_stanza, _handle_sm, _sm_queue_cleanup/_resend, conn_disconnect, _conn_reset ...)
   together with the ghost server of Spec/SmSpec.v over an arbitrary history `l`: user sends, write phases with any
   partial-write schedule, inbound elements of every kind with any h at any time, stream end, connection loss,
   any number of reconnects, changes of the connection handler's script (what the application sends on
   XMPP_CONN_CONNECT).  `all_honest` asks one thing of the server: an accepted <resumed h> carries its own
   count (what it reported before <= h <= what the client wrote, fewer than 2^32 stanzas on the session). *)
Require Import LV.Common.Bytes LV.Model.SmModel LV.Spec.SmSpec LV.Proofs.SmProofs LV.Proofs.SmFlagsProofs
               LV.Proofs.SmRetainedProofs.
From Coq Require Import Permutation.
Local Open Scope Z_scope.

(* The SM queue is exactly the stanzas of the logical session that were written completely while stream management
   was on and that no server report has covered yet, in order, numbered consecutively (mod 2^32) from the number
   of reported ones up to sm_sent_nr - 1; and sm_sent_nr is the server's count for the session (mod 2^32) -
   whenever client and server refer to the same logical session (g_sync), also while it is suspended. *)
Theorem sm_retained :
  forall bt l, all_honest bt sys0 l -> retained (sys_run bt sys0 l).
Proof. exact c04_retained. Qed.
Print Assumptions sm_retained.

(* <a h> on an established session whose SM queue is numbered increasingly (sm_retained, no wrap inside the
   queue): exactly the elements numbered below h are released - nothing newer -, the send queue and the client's
   count are untouched, and a new <r/> may be requested. *)
Theorem sm_ack_exact :
  forall bt st h,
    connected st = true -> sm_enabled st = true -> h_sm st = false -> hs_sorted (smq st) ->
    let r := dispatch bt st (ISm (SmA (AVal h))) in
    smq (fst r) = filter (fun e => h <=? s_h e) (smq st) /\
    In (OG (GRelease (map s_gid (filter (fun e => s_h e <? h) (smq st))))) (snd r) /\
    sq (fst r) = sq st /\ sent_nr (fst r) = sent_nr st /\ r_sent (fst r) = false.
Proof. exact c04_ack_exact. Qed.
Print Assumptions sm_ack_exact.

(* <resumed h> accepted while the negotiation is running: exactly the elements numbered h and above are queued
   again, once, in their order, behind what the send queue holds (nothing countable can be there:
   sm_resends_first) and AHEAD of what the application's connection handler submits on XMPP_CONN_CONNECT (`news`:
   as many fresh ghost ids as the handler's script `on_connect` has stanzas, all allocated in this step); the rest
   is released, the SM queue is empty, the client's count is h - in step with the server's by sm_retained - and
   the negotiation is complete. *)
Theorem sm_resume_exact :
  forall bt st pv h,
    connected st = true -> h_sm st = true -> neg_done st = false -> previd st = Some pv -> hs_sorted (smq st) ->
    Forall (fun e => s_owner e = OUser) (smq st) ->
    let r := dispatch bt st (ISm (SmResumed (Some pv) (Some h))) in
    exists news,
    smq (fst r) = [] /\
    sqc (fst r) = sqc st ++ map s_gid (filter (fun e => h <=? s_h e) (smq st)) ++ news /\
    length news = length (on_connect st) /\ Forall (fun x => next_gid st <= x) news /\
    In (OG (GRelease (map s_gid (filter (fun e => s_h e <? h) (smq st))))) (snd r) /\
    sent_nr (fst r) = w32 h /\ sm_enabled (fst r) = true /\ neg_done (fst r) = true.
Proof. exact c04_resumed_step. Qed.
Print Assumptions sm_resume_exact.

(* "ahead of anything new": while the negotiation is running the send queue holds nothing countable, so what
   <resumed/> or <enabled/> re-queues is written before anything the user submits afterwards - including what the
   connection handler submits from inside _stream_negotiation_success (sm_resume_exact, sm_failed_resends); and a session that
   is being enabled starts counting at 0. *)
Theorem sm_resends_first :
  forall bt l,
    all_honest bt sys0 l ->
    let st := fst (sys_run bt sys0 l) in
    (connected st = true -> neg_done st = false -> sqc st = []) /\
    (connected st = true -> h_sm st = true -> sm_enabled st = true -> sent_nr st = 0).
Proof. exact c04_negotiation_clean. Qed.
Print Assumptions sm_resends_first.

(* resumption failed: with item-not-found only what the server reports as handled (h, if it gives one) is
   released, any other <failed/> releases nothing; when the new session is enabled the whole SM queue is queued
   again, in order, ahead of what the connection handler submits on CONNECT, and the SM queue is empty. *)
Theorem sm_failed_resends :
  (forall bt st h,
     connected st = true -> h_sm st = true -> resume st = true -> hs_sorted (smq st) ->
     let hv := match h with Some v => v | None => 0 end in
     let r := dispatch bt st (ISm (SmFailed FItemNotFound h)) in
     smq (fst r) = filter (fun e => hv <=? s_h e) (smq st) /\
     In (OG (GRelease (map s_gid (filter (fun e => s_h e <? hv) (smq st))))) (snd r) /\
     sm_enabled (fst r) = false) /\
  (forall bt st c h,
     connected st = true -> h_sm st = true -> c <> FItemNotFound ->
     smq (fst (dispatch bt st (ISm (SmFailed c h)))) = smq st) /\
  (forall bt st ra id,
     connected st = true -> h_sm st = true -> sm_enabled st = true -> neg_done st = false -> (ra = true -> id <> None) ->
     Forall (fun e => s_owner e = OUser) (smq st) ->
     let r := dispatch bt st (ISm (SmEnabled ra id)) in
     exists news,
     smq (fst r) = [] /\ sqc (fst r) = sqc st ++ smqg st ++ news /\
     length news = length (on_connect st) /\ Forall (fun x => next_gid st <= x) news /\
     handled_nr (fst r) = 0 /\ neg_done (fst r) = true).
Proof. exact (conj c04_failed_step (conj c04_failed_keeps c04_enabled_step)). Qed.
Print Assumptions sm_failed_resends.

(* Nothing is lost, nothing is duplicated.  On every history (no assumption on the server) every countable element
   that ever entered the send queue is in exactly one place: still in the send queue, retained in the SM queue,
   released after a server report, written while stream management was off, or discarded by a reconnect while it
   was in the send queue - never written completely (g_disc_fresh) or re-queued (g_disc_resent).  Outside the known
   class C04-resend-lost-on-reconnect the last list is empty.  With an honest server no logical session receives a
   stanza twice, and everything that was released had been counted by the server. *)
Theorem sm_no_loss_no_dup :
  (forall bt l, conserved (sys_run bt sys0 l)) /\
  (forall bt l s, known_C04_resend_lost bt s l = false ->
                  g_disc_resent (snd (sys_run bt s l)) = g_disc_resent (snd s)) /\
  (forall bt l, all_honest bt sys0 l ->
                sessions_nodup (snd (sys_run bt sys0 l)) /\ released_were_received (snd (sys_run bt sys0 l))).
Proof.
  exact (conj c04_conserved (conj c04_known_class
           (fun bt l H => conj (c04_sessions_nodup bt l H) (c04_released_received bt l H)))).
Qed.
Print Assumptions sm_no_loss_no_dup.
