(* C04 - Stream management never loses, duplicates or misnumbers outbound stanzas.
   Statements only; proofs are in Proofs/SmProofs.v. *)
Require Import LV.Common.Bytes LV.Model.SmModel LV.Spec.SmSpec LV.Proofs.SmProofs.
Local Open Scope Z_scope.

(* <a h> on an established session, SM queue numbered increasingly (see sm_retained): exactly the elements numbered
   below h are released - nothing newer -, the send queue and the client's count are untouched, and a new <r/> may
   be requested. *)
Theorem sm_ack_exact :
  forall bt st h,
    connected st = true -> sm_enabled st = true -> h_sm st = false -> hs_sorted (smq st) ->
    let r := dispatch bt st (ISm (SmA (AVal h))) in
    smq (fst r) = filter (fun e => h <=? s_h e) (smq st) /\
    In (OG (GRelease (map s_gid (filter (fun e => s_h e <? h) (smq st))))) (snd r) /\
    sq (fst r) = sq st /\ sent_nr (fst r) = sent_nr st /\ r_sent (fst r) = false.
Proof. exact c04_ack_exact. Qed.
Print Assumptions sm_ack_exact.
