(* C05 - Stream-management inbound count is exact.  Statements only; proofs are in Proofs/SmProofs.v.

   `sys_run bt sys0 l` runs the model of the stream-management bookkeeping (Model/SmModel.v) together with the
   ghost server of Spec/SmSpec.v over an arbitrary history `l` (user sends, write phases with any partial-write
   schedule, inbound elements of every kind with any h, stream end, connection loss, reconnects); `bt` is the text
   of the bind request.  All four theorems hold for every history: no assumption on the server. *)
Require Import LV.Common.Bytes LV.Model.SmModel LV.Spec.SmSpec LV.Proofs.SmProofs.
Local Open Scope Z_scope.

(* The client's sm_handled_nr is, modulo 2^32, the ghost count g_in: reset when the SM negotiation sees <enabled/>
   (or the session is declared dead by <failed/>), incremented for every message/presence/iq dispatched while the
   session is active, untouched by anything else - in particular it survives connection loss and resumption.
   The client's notion of "stream management is on" coincides with the protocol's. *)
Theorem sm_h_exact :
  forall bt l,
    let s := sys_run bt sys0 l in
    handled_nr (fst s) = w32 (g_in (snd s)) /\ sm_enabled (fst s) = g_active (snd s).
Proof. exact c05_h_exact. Qed.
Print Assumptions sm_h_exact.

(* Every <r/> dispatched on an active session is answered by exactly one <a/> (global count), and the answer is
   one element <a h="sm_handled_nr"/> appended to the send queue while nothing else changes (single step). *)
Theorem sm_r_answered_once :
  (forall bt l, g_a (snd (sys_run bt sys0 l)) = g_r (snd (sys_run bt sys0 l))) /\
  (forall bt st,
     connected st = true -> sm_enabled st = true -> h_sm st = false ->
     let st' := fst (dispatch bt st (ISm SmR)) in
     exists tail,
       sq st' = sq st ++ mk_sqe (next_gid st) OSm (a_text (handled_nr st)) 0 false :: tail /\ tail = [] /\
       handled_nr st' = handled_nr st /\ smq st' = smq st /\ sent_nr st' = sent_nr st /\ sm_enabled st' = true).
Proof. exact (conj c05_a_per_r c05_r_step). Qed.
Print Assumptions sm_r_answered_once.

(* When the client asks to resume, in any reachable state, the request is <resume previd h/> with h the inbound
   count of the suspended session (mod 2^32). *)
Theorem sm_resume_reports_h :
  forall bt l smo pv,
    let s := sys_run bt sys0 l in
    let st := fst s in
    connected st = true -> h_feat st = true -> previd st = Some pv ->
    (sm_support st || smo) = true -> can_resume st = true -> sm_bound st = true ->
    sq (fst (dispatch bt st (IFeatures smo))) =
      sq st ++ [mk_sqe (next_gid st) OSm (resume_text pv (w32 (g_in (snd s)))) 0 false].
Proof. exact c05_resume_h. Qed.
Print Assumptions sm_resume_reports_h.

(* A stanza adds exactly one (mod 2^32) iff stream management is on after its handlers ran; an element that is not
   a stanza - stream-management elements, <stream:error/>, <stream:features/>, foreign elements - never adds
   anything: the count stays, or is restarted at 0 by the negotiation handler seeing <enabled/> or <failed/>. *)
Theorem sm_elements_not_counted :
  forall bt st it,
    connected st = true ->
    let st' := fst (dispatch bt st it) in
    (is_stanza it = true -> handled_nr st' = if sm_enabled st' then w32 (handled_nr st + 1) else handled_nr st) /\
    (is_stanza it = false ->
       handled_nr st' = handled_nr st \/
       (h_sm st = true /\ handled_nr st' = 0 /\
        exists e, it = ISm e /\ match e with SmEnabled _ _ | SmFailed _ _ => True | _ => False end)).
Proof. exact c05_count_step. Qed.
Print Assumptions sm_elements_not_counted.
