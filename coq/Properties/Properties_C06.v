(* C06 - Send queue is byte-exact FIFO under any transport back-pressure.
   Statements only; proofs are in Proofs/SendQueueProofs.v.

   [run true ops (init sm)] is the heap-level model of src/conn.c / src/event.c (with fixes/C06-1.patch) executing an
   arbitrary history [ops]: user and library sends, write schedules (what each write call of the transport accepts:
   everything / k bytes / EAGAIN / hard error), loop iterations, drops, queue-length queries, server acks; [sm] says
   whether stream management was negotiated.  [abs sm ops] is the abstract FIFO machine of Spec/SendQueueSpec.v on
   the same history; its ghost log records every element ever queued, in queue order, with its fate.
   All statements are for every history (unbounded length, every schedule). *)
Require Import LV.Common.Bytes LV.Gen.Gen_sendqueue LV.Model.SendQueueModel LV.Spec.SendQueueSpec LV.Proofs.SendQueueProofs.
Local Open Scope Z_scope.

(* The statements of the queue code that the model mirrors are found verbatim (modulo comments and white space) in
   src/conn.c and src/event.c of the tree under verification (re-extracted on every run into Gen/Gen_sendqueue.v by
   tools/gens/gen_sendqueue.py), the owner values of common.h make "== USER", "& USER" and "& SM" the model's
   is_user / is_sm, and req_ack is the text the specification expects.  In particular
   src_loop_head_prev_cleared says fixes/C06-1.patch is in the tree: the theorems below are about [run true]. *)
Theorem source_is_the_modelled_code :
  (req_ack_text = spec_req_ack /\
   forall o, is_user o = Z.eqb (owner_code o) q_user /\
             is_user o = negb (Z.eqb (Z.land (owner_code o) q_user) 0) /\
             is_sm o = negb (Z.eqb (Z.land (owner_code o) q_sm) 0)) /\
  (src_send_lib_before_sm = true /\ src_send_counts = true /\ src_send_links_tail = true /\ src_send_piggyback = true) /\
  (src_loop_write = true /\ src_loop_written_accumulates = true /\ src_loop_wip_then_stop = true /\
   src_loop_counts = true /\ src_loop_moves_to_smq = true /\ src_loop_head_prev_cleared = true) /\
  (src_len_body = true /\ src_unlink_body = true /\ src_drop_single_wip = true /\ src_drop_choice = true /\
   src_drop_skips_wip_head = true /\ src_drop_linked_request = true).
Proof. exact Gen_sendqueue_ok. Qed.
Print Assumptions source_is_the_modelled_code.

(* The linkage invariant holds in every reachable state: the model never touches a freed or unallocated cell and
   never runs out of fuel (no cycle), every output equals the abstract machine's, and the doubly linked structure
   (head/tail/prev/next, both queues, counters) spells exactly the abstract list. *)
Theorem queue_dll_wf : forall sm ops,
  exists st, run true ops (init sm) = Ok (st, snd (a_run ops (a_init sm))) /\ Refines st (abs sm ops) /\
             exists w, queue_of st = Ok w /\ entries_of w = a_q (abs sm ops).
Proof. exact thm_dll_wf. Qed.
Print Assumptions queue_dll_wf.

(* Bytes on the wire followed by the bytes still pending in the queue are the concatenation, in queue order, of
   everything ever queued (whole text; for a dropped element only what had been accepted before the drop, which is
   nothing on a live connection by drop_never_started_or_library_owned): nothing lost, repeated or interleaved.
   Every byte is tagged with the ghost id of its element, so equal texts cannot stand in for each other. *)
Theorem queue_wire_fifo : forall sm ops st outs, run true ops (init sm) = Ok (st, outs) ->
  exists w, queue_of st = Ok w /\
            s_wire st ++ pending (entries_of w) = concat (map contribution (a_log (abs sm ops))).
Proof. exact thm_fifo. Qed.
Print Assumptions queue_wire_fifo.

(* The log the previous theorem speaks about is the record of the submissions: a step appends exactly the
   (id, owner, text) triples it queues (the text given to the send operation, plus the SM request the library
   attaches), and never changes or removes an older triple. *)
Theorem log_is_submission_record : forall sm ops o,
  map lkey (a_log (abs sm (ops ++ [o]))) = map lkey (a_log (abs sm ops)) ++ submitted (abs sm ops) o.
Proof. exact thm_log_record. Qed.
Print Assumptions log_is_submission_record.

(* xmpp_conn_send_queue_len returns the number of user-owned elements no write has been attempted for; none of
   those has a byte on the wire. *)
Theorem queue_len_counts_unstarted_user : forall sm ops st outs, run true ops (init sm) = Ok (st, outs) ->
  exists w, queue_of st = Ok w /\
            op_qlen st = Ok (Z.of_nat (length (filter unstarted_user (entries_of w)))) /\
            forall e, In e (entries_of w) -> e_wip e = false -> e_sent e = 0%nat /\ ~ on_wire (e_id e) (s_wire st).
Proof. exact thm_qlen. Qed.
Print Assumptions queue_len_counts_unstarted_user.

(* A drop request that returns a text returns the exact text of a user-owned element of the queue, as it was
   submitted (the log holds (id, USER, text)), and the log marks that element dropped. *)
Theorem drop_returns_exact_text : forall sm ops st outs w, run true ops (init sm) = Ok (st, outs) ->
  exists st' r wq, op_drop st w = Ok (st', r) /\ queue_of st = Ok wq /\
    forall txt, r = Some txt ->
      exists t, In t (entries_of wq) /\ e_user t = true /\ txt = e_data t /\
                In (e_id t, OwUser, txt) (map lkey (a_log (abs sm ops))) /\
                In (mkL t (Dropped (s_connected st))) (a_log (abs sm (ops ++ [ODrop w]))).
Proof. exact thm_drop_text. Qed.
Print Assumptions drop_returns_exact_text.

(* What a drop request removes: nothing when it returns NULL; otherwise the returned user element [t] and at most
   the SM ack request the library had attached to it (owner SM_STROPHE, text <r xmlns='urn:xmpp:sm:3'/>, linked to
   t, directly behind it).  Everything else stays, in order.  On a live connection neither removed element was
   ever attempted (wip = 0, written = 0) nor has a byte on the wire. *)
Theorem drop_never_started_or_library_owned : forall sm ops st outs w, run true ops (init sm) = Ok (st, outs) ->
  exists st' r wq wq', op_drop st w = Ok (st', r) /\ queue_of st = Ok wq /\ queue_of st' = Ok wq' /\
    match r with
    | None => entries_of wq' = entries_of wq
    | Some txt =>
      exists b t af, entries_of wq = b ++ t :: af /\ txt = e_data t /\ e_user t = true /\
        In (mkL t (Dropped (s_connected st))) (a_log (abs sm (ops ++ [ODrop w]))) /\
        (s_connected st = true -> e_wip t = false /\ e_sent t = 0%nat /\ ~ on_wire (e_id t) (s_wire st)) /\
        (entries_of wq' = b ++ af \/
         exists x af', af = x :: af' /\ e_link x = Some (e_id t) /\ e_owner x = OwSmLib /\ e_data x = req_ack /\
                       e_wip x = false /\ e_sent x = 0%nat /\ ~ on_wire (e_id x) (s_wire st) /\
                       entries_of wq' = b ++ af')
    end.
Proof. exact thm_drop. Qed.
Print Assumptions drop_never_started_or_library_owned.

(* An element dropped on a live connection never has a byte on the wire: not at the time of the drop and, the
   statement being about every history, not in any continuation either. *)
Theorem dropped_never_on_wire : forall sm ops st outs, run true ops (init sm) = Ok (st, outs) ->
  forall l, In l (a_log (abs sm ops)) -> l_status l = Dropped true -> ~ on_wire (e_id (l_e l)) (s_wire st).
Proof. exact thm_dropped_never_on_wire. Qed.
Print Assumptions dropped_never_on_wire.

(* The hypotheses are satisfiable: a history with a short write, a drop and a queue-length query runs. *)
Example history_runs : exists st outs,
  run true [OSend OwUser [65;66;67]; OSend OwUser [68]; OSched [WK 1; WAgain]; OIter; OQlen; ODrop Youngest; OIter]
      (init true) = Ok (st, outs) /\
  outs = [OutNone; OutNone; OutNone; OutIter [65] false; OutLen 1; OutDrop (Some [68]); OutIter [] false].
Proof. exact history_runs_ex. Qed.

(* The code as found (without fixes/C06-1.patch: the new head keeps a [prev] pointer to the element that just left
   the queue) violates the linkage invariant.  [user U; lib S1; lib S2], U completely written and freed, S1 refused
   by the transport, then "drop youngest" walks prev from S2 over S1 into the freed U. *)
Theorem unfixed_code_refuted :
  run false [OSend OwUser [65]; OSend OwSmLib [66]; OSend OwSmLib [67]; OSched [WAll; WAgain]; OIter; ODrop Youngest]
      (init false) = UAF.
Proof. exact unfixed_uaf. Qed.
Print Assumptions unfixed_code_refuted.

(* ... and, with stream management, U is not freed but parked in the SM queue: the same walk finds it there and
   "drops" it, i.e. hands the user an element that is completely on the wire and corrupts the user counter
   (queue length -1). *)
Theorem unfixed_code_drops_sent_element : exists st,
  run false [OSend OwUser [65]; OSend OwSmLib [67]; OSched [WAll; WAgain]; OIter; ODrop Youngest; OQlen] (init true)
  = Ok (st, [OutNone; OutNone; OutNone; OutIter [65] false; OutDrop (Some [65]); OutLen (-1)]).
Proof. exact unfixed_drops_sent. Qed.
Print Assumptions unfixed_code_drops_sent_element.
