(* C07 - SASL responses are what the RFCs say for every credential and challenge.
   Statements only; proofs are in Proofs/SaslProofs.v. *)
Require Import LV.Common.Bytes LV.Common.HashWords LV.Gen.Gen_hash LV.Gen.Gen_sasl LV.Spec.JidSpec
               LV.Model.Base64Model LV.Model.HashModel LV.Model.HmacModel LV.Model.SaslModel LV.Proofs.SaslProofs.
Local Open Scope Z_scope.

Theorem sasl_constants_are_the_rfc_ones : gen_sasl_expected.
Proof. exact Gen_sasl_ok. Qed.
Print Assumptions sasl_constants_are_the_rfc_ones.
