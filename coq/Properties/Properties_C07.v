(* C07 - SASL responses are what the RFCs say for every credential and challenge.
   Statements only; proofs are in Proofs/SaslProofs.v, SaslScramProofs.v, SaslDigestProofs.v.

   Vocabulary.  Model/SaslModel.v mirrors src/sasl.c, src/scram.c and the SASL parts of src/auth.c over
   the constants of Gen_sasl (regenerated from the sources on every run); its results are AOk v, ANull
   (the C function's own refusal) or one of AOOB / AFuel / AAbort / ACrash (never, where a theorem
   says AOk / ANull).  Byte strings are lists of Z; `bytes l` = every element in 0..255; C strings are
   NUL-free.  The JID split (spec_node / spec_domain / spec_resource) is C19's, the digests and HMAC
   (sha1_spec, hmac_spec ..) C17's, base64 (encode = spec_encode, spec_decode, valid_b64) C18's.
   Spec/Rfc5802Spec.v is an RFC 5802 *server*; Spec/Rfc2831Spec.v the RFC 2831 response-value. *)
Require Import LV.Common.Bytes LV.Common.HashWords LV.Gen.Gen_hash LV.Gen.Gen_sasl LV.Spec.JidSpec
               LV.Spec.Base64Spec LV.Spec.HashSpec LV.Spec.Rfc5802Spec LV.Spec.Rfc2831Spec
               LV.Model.Base64Model LV.Model.HashModel LV.Model.HmacModel LV.Model.SaslModel
               LV.Proofs.SaslProofs LV.Proofs.SaslScramProofs LV.Proofs.SaslDigestProofs.
Local Open Scope Z_scope.

(* the literals, formats, buffer sizes, escape table, refusal bounds, order of the MD5 / SHA-1 inputs and
   of the reply fields found in the C sources are the ones the theorems below are about *)
Theorem sasl_constants_are_the_rfc_ones : gen_sasl_expected.
Proof. exact Gen_sasl_ok. Qed.
Print Assumptions sasl_constants_are_the_rfc_ones.

(* ------------------------------------------------------------------------------------------ *)
(* PLAIN (RFC 4616): base64 of NUL authcid NUL passwd, for all byte strings; every byte of the
   message buffer was written before it was encoded (no AOOB)                                   *)
Theorem plain_is_b64_nul_user_nul_pass :
  forall authid password,
    sasl_plain authid password = AOk (encode ([0] ++ authid ++ [0] ++ password)) /\
    (bytes authid -> bytes password ->
       sasl_plain authid password = AOk (spec_encode ([0] ++ authid ++ [0] ++ password))).
Proof. exact plain_rfc4616. Qed.
Print Assumptions plain_is_b64_nul_user_nul_pass.

(* ------------------------------------------------------------------------------------------ *)
(* XEP-0114: the handshake is the lower-case hex of SHA1(stream id ++ secret); no id, no handshake *)
Theorem component_handshake_is_hex_sha1 :
  forall stream_id secret,
    component_handshake (Some stream_id) secret = AOk (hex_of_bytes false (sha1_spec (stream_id ++ secret))) /\
    component_handshake None secret = ANull.
Proof. exact component_lemma. Qed.
Print Assumptions component_handshake_is_hex_sha1.

(* XEP-0078: username = localpart, password, resource = resourcepart, in this order; refused when
   the JID has no localpart or no resourcepart *)
Theorem legacy_carries_node_password_resource :
  forall jid password,
    legacy_payload jid password =
      match spec_node jid, spec_resource jid with
      | Some node, Some resource => AOk (xep0078_fields node password resource)
      | _, _ => ANull
      end.
Proof. exact legacy_lemma. Qed.
Print Assumptions legacy_carries_node_password_resource.

(* EXTERNAL (XEP-0178): "=" (no authorisation identity) when the certificate carries no xmppAddr or
   exactly the JID the client connects as; the JID otherwise.  (ANONYMOUS carries no payload at all:
   nothing to state beyond the correspondence run.) *)
Theorem external_identity :
  forall xmppaddrs jid,
    (xmppaddrs = [] -> external_payload xmppaddrs jid = [61]) /\
    (xmppaddrs = [jid] -> external_payload xmppaddrs jid = [61]) /\
    (xmppaddrs <> [] -> xmppaddrs <> [jid] -> external_payload xmppaddrs jid = encode jid).
Proof. exact external_lemma. Qed.
Print Assumptions external_identity.

(* ------------------------------------------------------------------------------------------ *)
(* successive SCRAM attempts draw disjoint windows of the RNG stream: attempt k is computed from the
   16 positions starting at offset k (in order, +16 after every attempt that reached xmpp_rand_nonce).
   Unpredictability of the stream itself is not expressible here (tested: distinctness of 10^4 nonces). *)
Theorem nonce_linear :
  forall atts rng,
    run_attempts atts rng =
      map (fun ao => fst (attempt_on (fst ao) (firstn NONCE_BYTES (skipn (snd ao) rng)))) (combine atts (offsets atts 0)) /\
    (forall i j oi oj ai, (i < j)%nat -> nth_error atts i = Some ai -> consumes ai = true ->
       nth_error (offsets atts 0) i = Some oi -> nth_error (offsets atts 0) j = Some oj ->
       (oi + NONCE_BYTES <= oj)%nat).
Proof. exact nonce_linear_lemma. Qed.
Print Assumptions nonce_linear.

(* ------------------------------------------------------------------------------------------ *)
(* SCRAM.  For every JID with a localpart `node` (any bytes; ',' and '=' included), password, salt of
   1..124 bytes, iteration count given as a digit string of value >= 1 (no upper bound), server nonce
   (non-empty, comma-free), with or without channel binding (plus_ready: a -PLUS mechanism needs TLS, a
   binding type and data that fit the 56-byte buffer; otherwise the client refuses, init_plus_refused):
     - _make_scram_init_msg succeeds with a message si;
     - the answer of sasl_scram to the server-first-message  r=<client nonce><server nonce>,s=<base64
       salt>,i=<count>  is either the refusal, and then the count is >= 2^32, or base64 of a
       client-final-message that the RFC 5802 server of Spec/Rfc5802Spec.v accepts: gs2 flag and
       header, user name recovered by the saslname decoder, nonce echoed in full, c= decoding to the
       gs2 header (++ channel-binding data for -PLUS), AuthMessage, and
       H(proof XOR HMAC(StoredKey, AuthMessage)) = StoredKey with SaltedPassword = Hi(password, salt, i);
     - never AOOB / AFuel / AAbort / ACrash.
   The size hypothesis (< 2^60 bytes in total) is inherited from the 64-bit length counters of C17. *)
Theorem scram_proof_verifies_sha1 :
  forall plus secured cbtype cbdata jid rng node password salt idigits snonce,
    spec_node jid = Some node ->
    plus_ready plus secured cbtype cbdata ->
    cfree (opt_list cbtype) -> bytes (opt_list cbtype) -> bytes (opt_list cbdata) ->
    bytes salt -> salt <> [] -> zlen salt <= 124 ->
    all_digits idigits = true -> idigits <> [] -> 1 <= dec_value idigits ->
    cfree snonce -> snonce <> [] ->
    zlen password + 3 * zlen jid + 2 * zlen snonce + zlen idigits + 2048 <= 2 ^ 60 ->
    scram_outcome alg_sha1 sha1_spec (hmac_spec sha1_spec 64) plus secured cbtype cbdata jid rng node password salt idigits snonce.
Proof. exact scram_sha1_lemma. Qed.
Print Assumptions scram_proof_verifies_sha1.

Theorem scram_proof_verifies_sha256 :
  forall plus secured cbtype cbdata jid rng node password salt idigits snonce,
    spec_node jid = Some node ->
    plus_ready plus secured cbtype cbdata ->
    cfree (opt_list cbtype) -> bytes (opt_list cbtype) -> bytes (opt_list cbdata) ->
    bytes salt -> salt <> [] -> zlen salt <= 124 ->
    all_digits idigits = true -> idigits <> [] -> 1 <= dec_value idigits ->
    cfree snonce -> snonce <> [] ->
    zlen password + 3 * zlen jid + 2 * zlen snonce + zlen idigits + 2048 <= 2 ^ 60 ->
    scram_outcome alg_sha256 sha256_spec (hmac_spec sha256_spec 64) plus secured cbtype cbdata jid rng node password salt idigits snonce.
Proof. exact scram_sha256_lemma. Qed.
Print Assumptions scram_proof_verifies_sha256.

Theorem scram_proof_verifies_sha512 :
  forall plus secured cbtype cbdata jid rng node password salt idigits snonce,
    spec_node jid = Some node ->
    plus_ready plus secured cbtype cbdata ->
    cfree (opt_list cbtype) -> bytes (opt_list cbtype) -> bytes (opt_list cbdata) ->
    bytes salt -> salt <> [] -> zlen salt <= 124 ->
    all_digits idigits = true -> idigits <> [] -> 1 <= dec_value idigits ->
    cfree snonce -> snonce <> [] ->
    zlen password + 3 * zlen jid + 2 * zlen snonce + zlen idigits + 2048 <= 2 ^ 60 ->
    scram_outcome alg_sha512 sha512_spec (hmac_spec sha512_spec 128) plus secured cbtype cbdata jid rng node password salt idigits snonce.
Proof. exact scram_sha512_lemma. Qed.
Print Assumptions scram_proof_verifies_sha512.

(* the hypotheses are satisfiable: user "a,b", SCRAM-SHA-1-PLUS over tls-unique, count "4096" *)
Example scram_hyps :
  spec_node [97; 44; 98; 64; 100] = Some [97; 44; 98] /\
  plus_ready true true (Some [116; 108; 115; 45; 117; 110; 105; 113; 117; 101]) (Some [1; 2; 3]) /\
  cfree [116; 108; 115; 45; 117; 110; 105; 113; 117; 101] /\ all_digits [52; 48; 57; 54] = true /\ dec_value [52; 48; 57; 54] = 4096.
Proof.
  repeat split; try reflexivity; try discriminate; try (cbn; lia).
  intros K. cbn in K. repeat (destruct K as [K|K]; [discriminate|]). exact K.
Qed.

(* the message grammar, spelled out: what _make_scram_init_msg puts on the wire *)
Theorem scram_messages_wellformed :
  forall plus secured cbtype cbdata jid rng node,
    spec_node jid = Some node ->
    plus_ready plus secured cbtype cbdata ->
    let cbname := opt_list cbtype in
    let gs2 := if plus then [112; 61] ++ cbname ++ [44; 44]            (* p=<cb-name>,, *)
               else [if secured then 121 else 110; 44; 44] in          (* y,,  /  n,, *)
    let cnonce := rand_nonce (firstn 16 rng) 33 in
    exists si,
      fst (make_scram_init_msg plus secured cbtype cbdata jid rng) = AOk si /\
      si_message si = gs2 ++ [110; 61] ++ scram_escape node ++ [44; 114; 61] ++ cnonce /\
      scram_first_bare si = [110; 61] ++ scram_escape node ++ [44; 114; 61] ++ cnonce /\
      si_channel_binding si = encode (gs2 ++ (if plus then opt_list cbdata else [])) /\
      saslname_decode (scram_escape node) = Some node /\ cfree (scram_escape node) /\
      (forall c, In c cnonce -> In c [48; 49; 50; 51; 52; 53; 54; 55; 56; 57; 65; 66; 67; 68; 69; 70]) /\
      ((16 <= length rng)%nat -> length cnonce = 32%nat).
Proof. exact scram_first_wellformed. Qed.
Print Assumptions scram_messages_wellformed.

(* ------------------------------------------------------------------------------------------ *)
(* DIGEST-MD5.  When the challenge parses to the directive table t0 with a nonce, and the client's
   choice out of the server's qop-options (auth when offered or when there is no qop directive,
   otherwise what the server sent) is one of the RFC's three values, the reply is base64 of the RFC 2831
   digest-response: username = localpart, realm = the server's (the domain when absent or empty),
   nonce echoed, cnonce = 12 hex digits from the RNG, nc=00000001, digest-uri = xmpp/<domain>, in this
   order, with response = the response-value of section 2.1.2.1.  A challenge without nonce is refused. *)
Theorem digest_md5_matches_rfc2831 :
  forall challenge jid password rnd t0 node nonce,
    parse_digest_challenge challenge = AOk t0 ->
    tbl_get s_nonce t0 = Some nonce ->
    spec_node jid = Some node ->
    let domain := spec_domain jid in
    let qop := chosen_qop t0 in
    qop = s_auth \/ qop = s_auth_int \/ qop = s_auth_conf ->
    sasl_digest_md5 challenge jid password rnd =
      AOk (encode (digest_response md5_spec node (chosen_realm t0 domain) password nonce
                                   (rand_nonce rnd 13) qop domain
                                   (match tbl_get s_charset t0 with Some v => v | None => [] end))).
Proof. exact digest_lemma. Qed.
Print Assumptions digest_md5_matches_rfc2831.

Theorem digest_md5_refuses_without_nonce :
  forall challenge jid password rnd t0,
    parse_digest_challenge challenge = AOk t0 -> tbl_get s_nonce t0 = None ->
    sasl_digest_md5 challenge jid password rnd = ANull.
Proof. exact digest_no_nonce. Qed.
Print Assumptions digest_md5_refuses_without_nonce.

(* the parse hypothesis of digest_md5_matches_rfc2831 holds for every challenge that is base64 of a
   directive list  key=value  /  key=<double-quoted value>  separated by commas (render), keys without
   equals sign, quoted values without double quote (commas and spaces allowed inside), unquoted values
   without comma: the table maps every key to its last value *)
Theorem digest_challenge_parses :
  forall ds, ds <> [] -> Forall dir_ok ds -> bytes (render ds) -> ~ In 0 (render ds) ->
    parse_digest_challenge (encode (render ds)) = AOk (table_of ds []).
Proof. exact parse_challenge_lemma. Qed.
Print Assumptions digest_challenge_parses.

(* realm="a, b",nonce=xyz *)
Example digest_hyps :
  let ds := [{| d_key := s_realm; d_val := [97; 44; 32; 98]; d_quoted := true |};
             {| d_key := s_nonce; d_val := [120; 121; 122]; d_quoted := false |}] in
  Forall dir_ok ds /\ tbl_get s_nonce (table_of ds []) = Some [120; 121; 122] /\
  chosen_qop (table_of ds []) = s_auth.
Proof.
  cbv zeta. split; [|split; reflexivity].
  repeat constructor; cbn; try tauto; intros K; repeat (destruct K as [K|K]; [discriminate|]); exact K.
Qed.

(* _make_scram_init_msg for ALL inputs (any binding type / data lengths, any JID): a message or the
   clean refusal, never an access outside the 56-byte buffer or the allocated message *)
Theorem scram_init_stays_in_buffers :
  forall plus secured cbtype cbdata jid rng,
    match fst (make_scram_init_msg plus secured cbtype cbdata jid rng) with
    | AOk _ | ANull => True
    | _ => False
    end.
Proof. exact init_safe. Qed.
Print Assumptions scram_init_stays_in_buffers.
