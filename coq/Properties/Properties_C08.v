(* C08 - A TLS session is only trusted if the certificate verifies or the user said so.
   Statements only; proofs are in Proofs/TlsPolicyProofs.v.

   PARTIAL by nature: X.509 path validation, validity dates and RFC 6125 name matching are OpenSSL's.
   OpenSSL's per-chain-element verdicts (s_stream) and whether the handshake as such completes (s_hs_ok)
   are inputs; the theorems cover the policy libstrophe configures (verify mode, callback, host pinning,
   as found in the source by the translator), _tls_verify, and how the result is propagated. *)
From Coq Require Import List ZArith Bool.
Require Import LV.Gen.Gen_tls LV.Model.TlsPolicyModel LV.Spec.TlsPolicySpec LV.Proofs.TlsPolicyProofs.
Import ListNotations.
Local Open Scope Z_scope.

(* what the translator reads out of tls_openssl.c (after the real preprocessor) on this run:
   SSL_VERIFY_NONE without callback under `if (conn->tls_trust)`, SSL_VERIFY_PEER with _tls_verify otherwise;
   host flags = NO_PARTIAL_WILDCARDS, reference identity = conn->domain, both unconditional and on the SSL
   object's own parameters; SSL_set_app_data(ssl, conn); the four return statements of _tls_verify; the handler is
   shown X509_STORE_CTX_get_current_cert (the certificate the error is about); when conn_tls_start failed,
   _handle_proceedtls_default calls xmpp_disconnect and nothing else (in particular not _auth), conn_established
   calls conn_disconnect and returns; conn->domain (the name that is pinned) is written by _conn_connect and
   _conn_reset only, i.e. it is the domain of the configured JID and nothing the peer sent;
   xmpp_conn_set_certfail_handler stores its argument unconditionally (NULL removes, the last setting counts);
   tls_openssl.c never changes the verification time or verification flags (validity is checked against the real clock);
   conn_tls_start writes conn->secured only as `conn->secured = 1` after tls_start has returned success *)
Theorem tls_source_config_is_expected :
  tls_verify_calls = expected_verify_calls /\
  tls_hostflags_calls = expected_hostflags_calls /\
  tls_host_calls = expected_host_calls /\
  tls_app_data_is_conn = true /\
  tls_verify_shape = expected_verify_shape /\
  tls_verify_cert_accessor = CURRENT_CERT /\
  tls_proceed_failure_calls = expected_proceed_failure_calls /\
  tls_legacy_failure_calls = expected_legacy_failure_calls /\
  tls_domain_written_in = expected_domain_writers /\
  tls_set_handler_unconditional = true /\
  tls_time_overrides = 0 /\
  tls_secured_only_after_start = true.
Proof. exact Gen_tls_ok. Qed.
Print Assumptions tls_source_config_is_expected.

(* peer verification is switched off exactly when the user set XMPP_CONN_FLAG_TRUST_TLS;
   otherwise the mode is SSL_VERIFY_PEER and _tls_verify is the callback *)
Theorem verify_none_only_with_trust_flag :
  forall sc cfg, tls_new sc = Some cfg ->
    (Z.odd (v_mode cfg) = false <-> s_trust sc = true) /\
    (v_mode cfg = SSL_VERIFY_NONE \/ v_mode cfg = SSL_VERIFY_PEER) /\
    (s_trust sc = false -> v_cb cfg = 1).
Proof. exact verify_none_iff_trust. Qed.
Print Assumptions verify_none_only_with_trust_flag.

(* every SSL object libstrophe creates has the XMPP domain pinned as reference identity, with partial
   wildcards disabled and no other host flag; the user's CA location is loaded iff one was set *)
Theorem host_is_pinned_with_full_label_wildcards_only :
  forall sc cfg, tls_new sc = Some cfg ->
    v_host cfg = true /\ v_hostflags cfg = X509_CHECK_FLAG_NO_PARTIAL_WILDCARDS /\
    v_ca cfg = (s_cafile sc || s_capath sc) /\ v_clock cfg = true.
Proof. exact host_pinned. Qed.
Print Assumptions host_is_pinned_with_full_label_wildcards_only.

(* if xmpp_conn_is_secured is ever true (in a connect/disconnect notification or polled), or anything at all
   is written through the TLS interface, then the trust flag is set, or every certificate OpenSSL flagged was
   accepted by an installed callback that was asked about that very certificate (which includes: none was flagged) *)
Theorem secured_implies_verified_or_user_consent :
  forall sc,
    ever_secured (snd (run sc)) = true \/ tls_wire_used (snd (run sc)) = true ->
    s_trust sc = true \/
    forall i cert, nth_error (failing_certs (s_stream sc)) i = Some cert -> cb_accepts (s_cb sc) i cert.
Proof. exact secured_consent. Qed.
Print Assumptions secured_implies_verified_or_user_consent.

(* no trust flag, no callback, one flagged element: the handshake is reported failed, nothing is ever
   reported secured or sent over TLS, no XMPP_CONN_CONNECT, one disconnect *)
Theorem no_callback_failing_cert_aborts :
  forall sc,
    s_trust sc = false -> s_cb sc = CbNone -> (exists e, In e (s_stream sc) /\ fst e <> 1) ->
    ever_secured (snd (run sc)) = false /\ tls_wire_used (snd (run sc)) = false /\
    connected (snd (run sc)) = false /\
    n_disconnects (snd (run sc)) = 1%nat /\ c_state (fst (run sc)) = Disconnected /\
    (tls_new sc <> None -> In (OTlsStart false) (snd (run sc))).
Proof. exact no_callback_aborts'. Qed.
Print Assumptions no_callback_failing_cert_aborts.

(* a callback that says 0 to any flagged certificate aborts as well, whatever it says to the others *)
Theorem rejecting_callback_aborts :
  forall sc i cert,
    s_trust sc = false ->
    nth_error (failing_certs (s_stream sc)) i = Some cert -> user_says (s_cb sc) i cert = Some 0 ->
    ever_secured (snd (run sc)) = false /\ tls_wire_used (snd (run sc)) = false /\
    connected (snd (run sc)) = false /\
    n_disconnects (snd (run sc)) = 1%nat /\ c_state (fst (run sc)) = Disconnected.
Proof. exact rejecting_callback_aborts. Qed.
Print Assumptions rejecting_callback_aborts.

(* after tls_start failed (certificate, peer silent, reset ...): never secured, nothing over TLS, no connect event;
   what leaves the client afterwards is at most one </stream:stream> in the clear (nothing at all on legacy SSL;
   in particular no <auth/>: the server of the model offers SASL PLAIN before TLS as well);
   exactly one disconnect; the TLS object is gone and the plain interface is back *)
Theorem failed_handshake_tears_down :
  forall sc,
    In (OTlsStart false) (snd (run sc)) ->
    ever_secured (snd (run sc)) = false /\ tls_wire_used (snd (run sc)) = false /\
    connected (snd (run sc)) = false /\
    (exists r, after_failed_start (snd (run sc)) = Some r /\ close_only r = true /\
               (s_entry sc = ELegacy -> wire_of r = [])) /\
    n_disconnects (snd (run sc)) = 1%nat /\
    c_state (fst (run sc)) = Disconnected /\ c_tls (fst (run sc)) = None /\ c_intf_tls (fst (run sc)) = false /\
    is_secured (fst (run sc)) = false.
Proof. exact failed_handshake. Qed.
Print Assumptions failed_handshake_tears_down.

(* whatever happens, a run ends torn down with exactly one disconnect notification, not secured, and
   _tls_verify never calls through a NULL handler *)
Theorem every_run_ends_with_one_disconnect :
  forall sc,
    n_disconnects (snd (run sc)) = 1%nat /\ c_state (fst (run sc)) = Disconnected /\
    is_secured (fst (run sc)) = false /\ existsb is_crash (snd (run sc)) = false.
Proof. exact run_ends. Qed.
Print Assumptions every_run_ends_with_one_disconnect.

(* a CA file / path that cannot be loaded is fatal for TLS, never silently skipped *)
Theorem unusable_ca_location_fails_closed :
  forall sc,
    (s_cafile sc || s_capath sc) = true -> s_ca_ok sc = false ->
    tls_new sc = None /\ ever_secured (snd (run sc)) = false /\ tls_wire_used (snd (run sc)) = false.
Proof. exact unusable_ca_fails_closed. Qed.
Print Assumptions unusable_ca_location_fails_closed.

(* (the handler history `before` - earlier xmpp_conn_set_certfail_handler calls on the same object - does not matter)
   the decision table: 7 certificate kinds x 4 trust modes x 2 entry points x CA set or not = 112 cells.
   For every cell and every verdict stream OpenSSL can produce that agrees with the cell's premise
   (all ok iff the certificate is valid and the CA is configured), whatever error code and peer behaviour:
   connected-and-secured, ever-secured and TLS-used all equal "the handshake completes and the table says yes" *)
Theorem decision_table_112 :
  length all_cells = 112%nat /\ (forall c, In c all_cells) /\
  forall c before mandatory stream hs te after,
    In c all_cells -> stream_consistent c stream ->
    let tr := snd (run (cell_scenario c before mandatory stream hs te after)) in
    connect_secured tr = hs && table_secured c /\
    ever_secured tr = hs && table_secured c /\
    tls_wire_used tr = hs && table_secured c /\
    n_disconnects tr = 1%nat.
Proof. exact decision_table_full. Qed.
Print Assumptions decision_table_112.

(* the executable statement of the property that the check evaluates on the extracted model is a theorem *)
Theorem policy_statement_holds_on_every_run :
  forall sc, policy_ok sc = true.
Proof. exact policy_ok_all. Qed.
Print Assumptions policy_statement_holds_on_every_run.
