(* C09 - Stanza serialisation is faithful and cannot be broken out of.
   Statements only; proofs are in Proofs/StanzaProofs.v. *)
Require Import LV.Common.Bytes LV.Gen.Gen_stanza LV.Model.StanzaModel LV.Spec.XmlSubsetSpec LV.Proofs.StanzaProofs.
Local Open Scope Z_scope.

(* the escape table, format strings, buffer / table sizes, namespace and condition-name strings found in
   src/stanza.c and strophe.h (regenerated on every run) are the ones the specification talks about *)
Theorem c09_source_tables :
  esc_table = xml_escape_table /\
  esc_len_table = map (fun ce => (fst ce, zlen (snd ce))) xml_escape_table /\
  esc_adv_table = esc_len_table /\
  render_formats = expected_formats /\
  xmlns_key = xmlns_name /\
  top_elided_ns = rfc_ns_client /\
  ns_client = rfc_ns_client /\
  0 < stanza_init_buf /\
  0 < attr_hash_size /\
  reply_deleted = [s_to; s_from; xmlns_name] /\
  reply_error_literals = [s_error; s_error; rfc_ns_stanzas; s_text; rfc_ns_stanzas] /\
  stream_error_names = rfc_stream_conditions /\
  stream_error_ns = rfc_ns_streams /\
  stream_error_elem = s_stream_error /\
  stream_error_text_elem = s_text /\
  In stream_error_default rfc_stream_conditions.
Proof. exact Gen_stanza_ok. Qed.
Print Assumptions c09_source_tables.

(* for every byte string: the escaped form contains no < > or double quote, every & in it starts one of
   the four entities, and un-escaping gives the original back (the apostrophe is not escaped: attribute
   values are always written between double quotes) *)
Theorem escape_neutralises :
  forall s, has c_lt (escape s) = false /\ has c_gt (escape s) = false /\ has c_quot (escape s) = false /\
            amps_ok (escape s) = true /\ unescape (escape s) = Some s.
Proof. exact escape_neutralises_proof. Qed.
Print Assumptions escape_neutralises.

(* _escape_xml's two passes over its len+1 byte allocation: never outside, fully written, terminated, and
   the string is `escape s` *)
Theorem escape_buffer_exact :
  forall s, nul_free s -> escape_xml s = EOk (escape s).
Proof. exact escape_xml_ok. Qed.
Print Assumptions escape_buffer_exact.

(* xmpp_stanza_to_text (1024-byte attempt, exact-size retry; every snprintf bounded by `left`) returns exactly
   the unbounded rendering, terminated, with its exact length - whether that is below, at or above the
   first buffer's size.  Never OOB / Crash / Uninit / error. *)
Theorem to_text_is_full_render :
  forall c t, renderable t -> zlen (render c t) < 2147483648 ->
    exists rest,
      to_text c t = TOk (map Some (render c t) ++ Some 0 :: rest) (zlen (render c t)) /\
      zlen rest = Z.max stanza_init_buf (zlen (render c t) + 1) - (zlen (render c t) + 1).
Proof. exact to_text_correct. Qed.
Print Assumptions to_text_is_full_render.
