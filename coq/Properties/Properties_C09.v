(* C09 - Stanza serialisation is faithful and cannot be broken out of.
   Statements only; proofs are in Proofs/StanzaProofs.v. *)
Require Import LV.Common.Bytes LV.Gen.Gen_stanza LV.Model.StanzaModel LV.Spec.XmlSubsetSpec LV.Proofs.StanzaProofs.
Local Open Scope Z_scope.

(* the escape table, format strings, buffer / table sizes, namespace and condition-name strings found in
   src/stanza.c and strophe.h (regenerated on every run) are the ones the specification talks about *)
Theorem c09_source_tables :
  esc_table = xml_escape_table /\
  esc_len_table = map (fun ce => (fst ce, zlen (snd ce))) xml_escape_table /\
  esc_adv_table = esc_len_table /\
  render_formats = expected_formats /\
  xmlns_key = xmlns_name /\
  top_elided_ns = rfc_ns_client /\
  ns_client = rfc_ns_client /\
  0 < stanza_init_buf /\
  0 < attr_hash_size /\
  reply_deleted = [s_to; s_from; xmlns_name] /\
  reply_error_literals = [s_error; s_error; rfc_ns_stanzas; s_text; rfc_ns_stanzas] /\
  stream_error_names = rfc_stream_conditions /\
  stream_error_ns = rfc_ns_streams /\
  stream_error_elem = s_stream_error /\
  stream_error_text_elem = s_text /\
  In stream_error_default rfc_stream_conditions.
Proof. exact Gen_stanza_ok. Qed.
Print Assumptions c09_source_tables.

(* xmpp_stanza_to_text renders its argument as the top of the output (context NoParent in the theorems below),
   also when the argument is a child of another stanza: its own xmlns is not dropped against a parent that is
   not part of the output *)
Theorem to_text_renders_argument_as_top : render_root_is_top = true.
Proof. exact render_root_top_ok. Qed.
Print Assumptions to_text_renders_argument_as_top.

(* for every byte string: the escaped form contains no < > or double quote, every & in it starts one of
   the four entities, and un-escaping gives the original back (the apostrophe is not escaped: attribute
   values are always written between double quotes) *)
Theorem escape_neutralises :
  forall s, has c_lt (escape s) = false /\ has c_gt (escape s) = false /\ has c_quot (escape s) = false /\
            amps_ok (escape s) = true /\ unescape (escape s) = Some s.
Proof. exact escape_neutralises_proof. Qed.
Print Assumptions escape_neutralises.

(* _escape_xml's two passes over its len+1 byte allocation: never outside, fully written, terminated, and
   the string is `escape s` *)
Theorem escape_buffer_exact :
  forall s, nul_free s -> escape_xml s = EOk (escape s).
Proof. exact escape_xml_ok. Qed.
Print Assumptions escape_buffer_exact.

(* xmpp_stanza_to_text (1024-byte attempt, exact-size retry; every snprintf bounded by `left`) returns exactly
   the unbounded rendering, terminated, with its exact length - whether that is below, at or above the
   first buffer's size.  Never OOB / Crash / Uninit / error. *)
Theorem to_text_is_full_render :
  forall c t, renderable t -> zlen (render c t) < 2147483648 ->
    exists rest,
      to_text c t = TOk (map Some (render c t) ++ Some 0 :: rest) (zlen (render c t)) /\
      zlen rest = Z.max stanza_init_buf (zlen (render c t) + 1) - (zlen (render c t) + 1).
Proof. exact to_text_correct. Qed.
Print Assumptions to_text_is_full_render.

(* the same, as the caller sees it: the C string in the returned allocation *)
Theorem to_text_returns_the_string :
  forall c t buf len, renderable t -> zlen (render c t) < 2147483648 -> nul_free (render c t) ->
    to_text c t = TOk buf len -> cstring buf = Some (render c t) /\ len = zlen (render c t).
Proof. exact to_text_cstring. Qed.
Print Assumptions to_text_returns_the_string.

(* each bounded rendering step is the C library's snprintf of the ideal rendering: at most buflen-1 bytes and
   a terminator inside [ptr, ptr+buflen), the full length returned - for every buffer position and size *)
Theorem render_bounded_is_snprintf :
  forall t c buf ptr buflen, renderable t -> bnd buf ptr buflen ->
    render_rec c t buf ptr buflen = snprintf buf ptr buflen (render c t).
Proof. exact render_rec_is_snprintf. Qed.
Print Assumptions render_bounded_is_snprintf.

(* attribute tables built by the API (hash_new / hash_add / hash_drop) stay well formed, and lookups behave
   like a finite map; this is what makes `renderable`, `tree_wf`, `rt_wf` true of API-built trees *)
Theorem attr_table_is_a_map :
  forall a k v, attrs_ok a ->
    attrs_ok (attr_set a k v) /\ attrs_ok (fst (attr_del a k)) /\
    (forall k', attr_get (attr_set a k v) k' = if beq k' k then Some v else attr_get a k') /\
    (forall k', attr_get (fst (attr_del a k)) k' = if beq k' k then None else attr_get a k') /\
    match a with
    | Some h => NoDup (hash_keys h) /\ forall k', In k' (hash_keys h) <-> exists v', hash_get h k' = Some v'
    | None => True
    end.
Proof. exact attr_table_map_proof. Qed.
Print Assumptions attr_table_is_a_map.

(* whatever an attribute value contains, the scan for its closing quote stops exactly at the renderer's own
   quote; whatever a text node contains, the scan for the next tag stops exactly at the next tag the renderer
   wrote *)
Theorem attr_scan_stops_at_own_quote :
  forall v rest, span (fun c => negb (c =? 34)) (escape v ++ 34 :: rest) = (escape v, 34 :: rest).
Proof. exact attr_scan_stops_proof. Qed.
Print Assumptions attr_scan_stops_at_own_quote.

Theorem text_scan_stops_at_own_end :
  forall s X, span (fun c => negb (c =? 60)) (escape s ++ 60 :: X) = (escape s, 60 :: X).
Proof. exact text_scan_stops_proof. Qed.
Print Assumptions text_scan_stops_at_own_end.

(* the hard one: for every tree (any depth, fan-out, sizes; element and attribute names non-empty runs of name
   bytes; text and attribute values ARBITRARY byte strings) the reference parser reads the rendering back as
   exactly the document the tree stands for: same names, effective namespaces, attributes, child order, text
   (adjacent text merged, empty text dropped).  In particular no text or attribute value can introduce, close
   or alter an element or attribute. *)
Theorem render_parse_roundtrip :
  forall name a cs, rt_wf (Tag name a cs) ->
    spec_parse rfc_ns_client (render NoParent (Tag name a cs)) = Some (canon rfc_ns_client (Tag name a cs)).
Proof. exact render_parse_roundtrip_proof. Qed.
Print Assumptions render_parse_roundtrip.

(* in any context: an element below a parent, with any tail after it *)
Theorem render_parse_roundtrip_in_context :
  forall name a cs c dns rest fuel, rt_wf (Tag name a cs) -> ctx_ok c dns ->
    (length (render c (Tag name a cs)) <= fuel)%nat ->
    p_elem fuel dns (render c (Tag name a cs) ++ rest) = Some (canon dns (Tag name a cs), rest).
Proof. exact roundtrip_in_context_proof. Qed.
Print Assumptions render_parse_roundtrip_in_context.

(* both together: xmpp_stanza_to_text's string, parsed *)
Theorem to_text_parse_roundtrip :
  forall name a cs,
    rt_wf (Tag name a cs) -> renderable (Tag name a cs) ->
    nul_free (render NoParent (Tag name a cs)) -> zlen (render NoParent (Tag name a cs)) < 2147483648 ->
    exists buf len s,
      to_text NoParent (Tag name a cs) = TOk buf len /\ cstring buf = Some s /\ len = zlen s /\
      spec_parse rfc_ns_client s = Some (canon rfc_ns_client (Tag name a cs)).
Proof. exact to_text_parse_roundtrip_proof. Qed.
Print Assumptions to_text_parse_roundtrip.

(* xmpp_stanza_copy never fails on a well-formed tree and gives an equal tree: same node types, names, text,
   child order at every depth, the same attribute set at every element (the enumeration order of a chain is
   reversed by re-insertion, which is why equality is stated on lookups) *)
Theorem copy_deep_and_equal :
  forall t, tree_wf t -> exists t', copy_tree t = Some t' /\ tree_equiv t t' /\ tree_wf t'.
Proof. exact copy_tree_spec. Qed.
Print Assumptions copy_deep_and_equal.

(* xmpp_stanza_reply: NULL exactly when there is no `from`; otherwise the same element name, no children,
   to := the sender, no from, no xmlns, every other attribute (id, type, ...) kept *)
Theorem reply_addresses_sender :
  forall name a cs, attrs_ok a ->
    match attr_get a k_from with
    | None => stanza_reply (Tag name a cs) = None
    | Some from =>
        exists a', stanza_reply (Tag name a cs) = Some (Tag name a' []) /\ attrs_ok a' /\
          attr_get a' k_to = Some from /\ attr_get a' k_from = None /\ attr_get a' xmlns_key = None /\
          forall k, k <> k_to -> k <> k_from -> k <> xmlns_key -> attr_get a' k = attr_get a k
    end.
Proof. exact stanza_reply_spec. Qed.
Print Assumptions reply_addresses_sender.

Theorem reply_of_non_element_is_null :
  (forall cs, stanza_reply (Unk cs) = None) /\ forall s, stanza_reply (Text s) = None.
Proof. exact stanza_reply_not_tag. Qed.
Print Assumptions reply_of_non_element_is_null.

(* xmpp_stanza_reply_error: RFC 6120 8.3 *)
Theorem reply_error_rfc6120_structure :
  forall name a cs ty cond text, attrs_ok a ->
    match attr_get a k_from with
    | None => stanza_reply_error (Tag name a cs) ty cond text = None
    | Some from =>
        exists a' ea ca ta,
          stanza_reply_error (Tag name a cs) ty cond text =
            Some (Tag name a'
                    [Tag s_error ea
                       (Tag cond ca [] ::
                        match text with Some x => [Tag s_text ta [Text x]] | None => [] end)]) /\
          attrs_ok a' /\
          attr_get a' k_type = Some s_error /\
          attr_get a' k_to = Some from /\
          attr_get a' k_from = attr_get a k_to /\
          attr_get a' xmlns_key = None /\
          (forall k, k <> k_to -> k <> k_from -> k <> xmlns_key -> k <> k_type -> attr_get a' k = attr_get a k) /\
          only_attr ea k_type ty /\ only_attr ca xmlns_key rfc_ns_stanzas /\ only_attr ta xmlns_key rfc_ns_stanzas
    end.
Proof. exact stanza_reply_error_spec. Qed.
Print Assumptions reply_error_rfc6120_structure.

(* xmpp_error_new: RFC 6120 4.9 *)
Theorem error_new_rfc6120_structure :
  forall ty text,
    exists ca ta,
      error_new ty text =
        Tag s_stream_error None
          (Tag (if (0 <=? ty) && (ty <? zlen rfc_stream_conditions)
                then nth (Z.to_nat ty) rfc_stream_conditions stream_error_default else stream_error_default) ca [] ::
           match text with Some x => [Tag s_text ta [Text x]] | None => [] end) /\
      only_attr ca xmlns_key rfc_ns_streams /\ only_attr ta xmlns_key rfc_ns_streams /\
      In stream_error_default rfc_stream_conditions.
Proof. exact error_new_spec. Qed.
Print Assumptions error_new_rfc6120_structure.

(* the handle returned by xmpp_stanza_copy denotes a tree equal to the original that is stored entirely in nodes
   which did not exist before the call; the older nodes are untouched by the call, and whatever is done to them
   afterwards (any heap h2 that differs from the heap after the copy only below the old size) the copy still
   denotes the same tree: copies are deep and independent *)
Theorem copy_lives_in_fresh_nodes :
  forall st d s st' id0 t,
    slot st s = Some id0 -> tree_of (fuel_of (p_heap st)) (p_heap st) id0 = Some t -> tree_wf t ->
    run_op st (OCopy d s) = (st', OHandle false) ->
    exists id t',
      slot st' d = Some id /\ (length (p_heap st) <= id)%nat /\ tree_equiv t t' /\
      firstn (length (p_heap st)) (p_heap st') = p_heap st /\
      forall h2, length h2 = length (p_heap st') ->
                 skipn (length (p_heap st)) h2 = skipn (length (p_heap st)) (p_heap st') ->
                 tree_of (fuel_of h2) h2 id = Some t'.
Proof. exact copy_is_independent. Qed.
Print Assumptions copy_lives_in_fresh_nodes.

(* ... and the setters (all of which go through upd_node) change only the node they are applied to *)
Theorem setters_touch_one_node :
  forall (h : heap) id f n, (id < n)%nat ->
    length (upd_node h id f) = length h /\ skipn n (upd_node h id f) = skipn n h.
Proof. exact upd_node_keeps_newer. Qed.
Print Assumptions setters_touch_one_node.
