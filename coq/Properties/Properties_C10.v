(* C10 - Inbound XML is delivered identically however it is chunked.
   Statements only; proofs are in Proofs/ParserLayerProofs.v.

   PARTIAL: the theorems are about libstrophe's own layer (src/parser_expat.c) as a state machine
   over the SAX events expat hands to it.  That expat's tokenizer produces the same event sequence
   (up to the cutting of character data) for every partition of the bytes is an ASSUMPTION, tested
   on every run by checks/C10.py against all 2/3-cut partitions, byte-by-byte feeding, libxml2 and an
   expat instance with reparse deferral switched off. *)
Require Import LV.Common.Bytes LV.Gen.Gen_parser LV.Spec.ParserSpec LV.Model.ParserLayerModel
               LV.Proofs.ParserLayerProofs.
Local Open Scope Z_scope.

(* the constants found in src/parser_expat.c (regenerated on every run): the separator is a byte that
   can occur in no XML name or URI, the padding cannot shrink the buffer, a new parser starts at
   depth 0 with no text, text is collected from depth 2 on *)
Theorem parser_constants_ok :
  sep_not_xml_char namespace_sep = true /\ 0 <= inner_text_padding /\
  parser_new_depth = 0 /\ parser_new_inner_text_size = 0 /\ parser_new_inner_text_used = 0 /\
  chars_min_depth = 2.
Proof. exact Gen_parser_ok. Qed.
Print Assumptions parser_constants_ok.

(* Two event sequences that differ only in how character data is cut into pieces (empty pieces
   included; expat's guarantee that a piece holds no NUL is a hypothesis) are indistinguishable:
   same outputs, or the same kind of failure.  No assumption on nesting. *)
Theorem chars_split_invariant :
  forall evs evs', Forall ev_nul_free evs -> Forall ev_nul_free evs' ->
    same_up_to_cutting evs evs' ->
    observe (run evs) = observe (run evs').
Proof. exact chars_split_invariant_proof. Qed.
Print Assumptions chars_split_invariant.

(* For every well-formed document (open or closed stream), however its text is cut: the layer
   reports stream start (local name, attributes as delivered), then exactly the complete depth-1
   trees of the specification -- names and namespaces split at the separator, attributes as a finite
   map in which an unqualified attribute is never shadowed, text whole and in order -- then stream
   end; and it is left with nothing pending. *)
Theorem layer_matches_tree_spec :
  forall d, xdoc_nul_free d ->
    exists st, run (events_of_doc d) = Ok st (spec_outputs namespace_sep d) /\
               depth st = (if closed d then 0 else 1) /\ stanza st = [] /\ inner_text st = None.
Proof. exact layer_matches_tree_spec_proof. Qed.
Print Assumptions layer_matches_tree_spec.

(* After a restart, from ANY state the layer can be in (text pending, mid-stanza, any depth -- st is
   whatever any history evs leads to), it behaves on every continuation exactly like a new parser:
   same outputs, same final state, same failure. *)
Theorem reset_is_clean_slate :
  forall evs st outs evs', run evs = Ok st outs -> run_from st (SReset :: evs') = run evs'.
Proof. exact reset_is_clean_slate_proof. Qed.
Print Assumptions reset_is_clean_slate.

(* ... and therefore the history before a restart contributes its outputs and nothing else *)
Theorem restart_separates_streams :
  forall evs evs',
    run (evs ++ SReset :: evs') =
    match run evs with
    | Ok _ o1 => match run evs' with Ok st2 o2 => Ok st2 (o1 ++ o2) | f => f end
    | f => f
    end.
Proof. exact run_across_reset. Qed.
Print Assumptions restart_separates_streams.

(* the statement has teeth: parser_reset as it was before fix C10-1 is refuted (NULL strncat) *)
Theorem reset_before_fix_refuted :
  exists evs st outs evs',
    run_unfixed evs = Ok st outs /\
    run_with reset_state_unfixed st (SReset :: evs') <> run_unfixed evs' /\
    run_with reset_state_unfixed st (SReset :: evs') = Crash.
Proof. exact unfixed_reset_not_clean. Qed.
Print Assumptions reset_before_fix_refuted.

(* No NULL dereference, no strncat into an unallocated / uninitialised / too small buffer, on any
   event sequence in which -- between restarts -- an end tag is only reported for an open element.
   That is far more than expat can produce: names need not match, the document may stop anywhere,
   several roots, text anywhere, NULs, restarts anywhere. *)
Theorem layer_never_crashes :
  forall evs, ends_matched 0 evs = true -> exists st outs, run evs = Ok st outs.
Proof. exact layer_never_crashes_proof. Qed.
Print Assumptions layer_never_crashes.
