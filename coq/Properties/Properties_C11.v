(* C11 - Handlers fire exactly when their filter matches, in order, and stay deleted.
   Statements only; proofs are in Proofs/HandlerProofs.v.

   Reading guide.
   * [state], [fire_stanza], [fire_timed], [run_ops] (Model/HandlerModel.v): handler.c on an explicit heap
     (with fixes/C11-1.patch and C11-2.patch), outcomes [Ok | UAF | DoubleFree | Fuel].
   * [reg], [spec_fire_stanza], [spec_fire_timed], [spec_run] (Spec/HandlerSpec.v): the reference semantics - a
     dispatch is a fold over the snapshot of registrations taken when it starts; [enabled] is never read.
   * [Abs st R] / [WF R]: the heap state [st] represents the registry [R] (every list is an acyclic chain of
     live cells, lists are disjoint).  [abs_init]/[wf_init] and [run_ops_refines] show that every state reached
     from the empty connection by any program has such an [R], so "forall st R, Abs st R -> WF R -> ..." is
     "for all sets of handlers".
   * [script] = log so far -> callback id -> userdata id -> (actions, return value): all handler behaviours
     (add / delete handlers of every kind, send, take time [AClk]); [instant sc]: no callback takes time - only
     the three "is served in this pass" theorems (fire_exact_all, timed_fires_next_iteration_when_due,
     global_timed_always) assume it, because they speak of "due / matching when the pass starts";
     [others_only sc]: no handler names its own callback in a delete request ("delete other handlers").
   * Every statement holds for every [fuel]; [Fuel] (not enough fuel given to the pointer walks) is the only
     outcome the theorems leave open - see [fuel_gap] at the end. *)
From Coq Require Import List ZArith Bool Arith.
Import ListNotations.
Require Import LV.Model.HandlerModel LV.Spec.HandlerSpec LV.Proofs.HandlerProofs.
Local Open Scope Z_scope.

(* every program refines the reference semantics: all handler sets, all stanza sequences, all scripts *)
Theorem run_ops_refines :
  forall sc fuel ops st',
    others_only sc -> Forall no_sysdel ops ->
    run_ops sc fuel ops init_state = Ok st' ->
    Abs st' (spec_run sc ops init_reg) /\ WF (spec_run sc ops init_reg) /\
    log st' = g_log (spec_run sc ops init_reg).
Proof. exact run_ops_exact_lemma. Qed.
Print Assumptions run_ops_refines.

(* fire_exact, part 1: the invocations of a stanza dispatch (and the resulting lists) are exactly those of the
   reference fold over the registrations present before the dispatch *)
Theorem fire_exact :
  forall sc fuel sz st st' R,
    others_only sc -> Abs st R -> WF R ->
    fire_stanza sc fuel sz st = Ok st' ->
    Abs st' (spec_fire_stanza sc sz R) /\ WF (spec_fire_stanza sc sz R) /\
    log st' = g_log (spec_fire_stanza sc sz R).
Proof. exact fire_exact_lemma. Qed.
Print Assumptions fire_exact.

(* fire_exact, part 2: id handlers first, then stanza handlers, each group in registration (list) order, each
   registration at most once, all stamped with the current time *)
Theorem fire_exact_order :
  forall sc sz R, WF R ->
    exists evs_id evs_st,
      g_log (spec_fire_stanza sc sz R) = evs_st ++ evs_id ++ g_log R /\
      subseq (calls_of (rev evs_id)) (id_snapshot sz R) /\
      subseq (calls_of (rev evs_st)) (hids (rget KStanza R)) /\
      NoDup (calls_of (rev evs_id)) /\ NoDup (calls_of (rev evs_st)) /\
      (forall e, In e evs_st -> is_call_kind KStanza e) /\
      (forall e, In e evs_id -> exists id, st_id sz = Some id /\ is_call_kind (KId id) e).
Proof. exact fire_order_lemma. Qed.
Print Assumptions fire_exact_order.

(* fire_exact, part 3 (only those): every invocation is of a registration that was on the stanza list, or on the
   id list of the stanza's id, before the dispatch, and that at its turn was still registered, let through by
   the negotiation gate, and matched *)
Theorem fire_exact_only :
  forall sc sz R e,
    In e (g_log (spec_fire_stanza sc sz R)) -> stanza_call_ok sz R e.
Proof. exact fire_sound_lemma. Qed.
Print Assumptions fire_exact_only.

(* fire_exact, part 4 (all those): a registered stanza handler that the gate lets through and whose filter
   matches is invoked for the stanza, unless a handler invoked earlier for this stanza deleted it *)
Theorem fire_exact_all :
  forall sc sz R x r,
    instant sc -> WF R -> find_rec x (rget KStanza R) = Some r -> s_gate KStanza R r = true ->
    s_match KStanza r sz (g_clock R) = true ->
    (exists ret, In (EvCall x (r_cb r) (r_ud r) (r_user r) KStanza (g_clock R) ret) (g_log (spec_fire_stanza sc sz R))) \/
    present (rget KStanza (spec_fire_stanza sc sz R)) x = false.
Proof. exact stanza_match_fires_lemma. Qed.
Print Assumptions fire_exact_all.

(* the executable match test is the documented one: ns absent, or equal to the stanza's ns or (handlers
   registered through the public API) to the ns of one of its direct children; and name; and type *)
Theorem filter_match_is_spec :
  forall user ns name type sz,
    s_match_stanza user ns name type sz = true <-> stanza_filter_matches user ns name type sz.
Proof. exact match_spec_lemma. Qed.
Print Assumptions filter_match_is_spec.

(* a registration that is no longer on any list (deleted, or it returned false) is never invoked again and
   never comes back, whatever the program does afterwards *)
Theorem false_or_deleted_never_again :
  forall sc ops R x,
    Forall no_sysdel ops -> (x < g_next R)%nat -> absent R x ->
    absent (spec_run sc ops R) x /\
    (forall e, In e (g_log (spec_run sc ops R)) -> is_call_of x e -> In e (g_log R)).
Proof. exact never_again_lemma. Qed.
Print Assumptions false_or_deleted_never_again.

(* ... deleting by callback removes every registration of the list with that callback ... *)
Theorem deleted_is_absent :
  forall R k cb r, WF R -> In r (rget k R) -> r_cb r = cb ->
    present (rget k (r_del k cb R)) (hid r) = false.
Proof. exact deleted_absent_lemma. Qed.
Print Assumptions deleted_is_absent.

(* ... and a handler that returned false is off its list when the pass ends *)
Theorem returned_false_is_absent :
  forall sc k sz x cb ud u t snap R, WF R ->
    In (EvCall x cb ud u k t false) (g_log (spec_loop sc k sz snap R)) ->
    ~ In (EvCall x cb ud u k t false) (g_log R) ->
    present (rget k (spec_loop sc k sz snap R)) x = false.
Proof. exact ret_false_absent_loop. Qed.
Print Assumptions returned_false_is_absent.

(* one (callback, userdata) pair is kept once per list, for every program; registering it again changes nothing *)
Theorem duplicate_kept_once :
  forall sc ops, Forall no_sysdel ops -> KeysOK (spec_run sc ops init_reg).
Proof. exact duplicate_once_lemma. Qed.
Print Assumptions duplicate_kept_once.

Theorem duplicate_ignored :
  forall at_head k cb ud user flt R,
    has_key cb ud (rget k R) = true -> r_add at_head k cb ud user flt R = R.
Proof. exact duplicate_ignored_lemma. Qed.
Print Assumptions duplicate_ignored.

(* a handler added while a stanza is being dispatched does not see that stanza: whatever is invoked was
   registered before the dispatch started (its number is in one of the two snapshots) - in particular a
   stanza handler added by an id handler (item 15 of DESIGN section 8; fixes/C11-1.patch) *)
Theorem added_during_dispatch_blind :
  forall sc sz R e, WF R ->
    In e (g_log (spec_fire_stanza sc sz R)) -> ~ In e (g_log R) ->
    exists x cb ud u k t ret, e = EvCall x cb ud u k t ret /\
      (In x (hids (rget KStanza R)) \/ In x (id_snapshot sz R)) /\ (x < g_next R)%nat.
Proof. exact blind_lemma. Qed.
Print Assumptions added_during_dispatch_blind.

(* no use-after-free / double free in a dispatch whose handlers delete only other handlers
   (item 15, second half; fixes/C11-2.patch), and none in any such program *)
Theorem dispatch_no_uaf :
  forall sc fuel sz st R,
    others_only sc -> Abs st R -> WF R ->
    fire_stanza sc fuel sz st <> UAF /\ fire_stanza sc fuel sz st <> DoubleFree /\
    fire_timed sc fuel st <> UAF /\ fire_timed sc fuel st <> DoubleFree.
Proof. exact no_uaf_lemma. Qed.
Print Assumptions dispatch_no_uaf.

Theorem program_no_uaf :
  forall sc fuel ops,
    others_only sc -> Forall no_sysdel ops ->
    run_ops sc fuel ops init_state <> UAF /\ run_ops sc fuel ops init_state <> DoubleFree.
Proof. exact run_ops_no_uaf_lemma. Qed.
Print Assumptions program_no_uaf.

(* the timed pass of the model is the reference pass *)
Theorem timed_exact :
  forall sc fuel st st' R,
    others_only sc -> Abs st R -> WF R ->
    fire_timed sc fuel st = Ok st' ->
    Abs st' (spec_fire_timed sc R) /\ WF (spec_fire_timed sc R) /\ log st' = g_log (spec_fire_timed sc R).
Proof. exact fire_timed_exact_lemma. Qed.
Print Assumptions timed_exact.

(* Callbacks may take time (action AClk): the clock is read per item, [Rm] is the registry at the moment the
   handler is reached and t = g_clock Rm the time of that moment; the call event carries t and the handler is
   stamped with t ([timed_stamp_on_fire]), so "one period after it last fired" is about the time it really ran.
   timed_never_early: whatever a timed pass invokes had, at its turn, a full period behind its stamp; with a
   clock that does not run backwards that is stamp + period <= now.  The stamp is the time of registration
   ([timed_stamp_on_add]), of the re-arm at stream start / handler_reset_timed ([timed_stamp_on_rearm]), or of its
   last firing ([spec_loop]: [rec_stamp] before the call).
   timed_only_when_connected: handlers of the connection are only invoked while it is connected (k = KTimed
   comes with g_conn R = true).
   user_handlers_gated_by_negotiation (timed part): s_gate at its turn, with the negotiation flag of the pass *)
Theorem timed_never_early :
  forall sc R e,
    In e (g_log (spec_fire_timed sc R)) -> ~ In e (g_log R) ->
    exists x k Rm r ret period last t,
      e = EvCall x (r_cb r) (r_ud r) (r_user r) k t ret /\ t = g_clock Rm /\
      ((k = KTimed /\ g_conn R = true) \/ k = KGlobal) /\
      find_rec x (rget k Rm) = Some r /\ r_flt r = FTimed period last /\
      period <= elapsed last t /\
      (0 <= last <= t -> t < two64 -> timed_due period last t) /\
      (k = KTimed -> r_user r = true -> g_neg R = true).
Proof. exact timed_never_early_lemma. Qed.
Print Assumptions timed_never_early.

Theorem timed_only_when_connected :
  forall sc R e,
    g_conn R = false -> In e (g_log (spec_fire_timed sc R)) -> ~ In e (g_log R) ->
    exists x cb ud u t ret, e = EvCall x cb ud u KGlobal t ret.
Proof. exact timed_connected_lemma. Qed.
Print Assumptions timed_only_when_connected.

Theorem timed_stamp_on_add :
  forall cb ud u p R, has_key cb ud (rget KTimed R) = false ->
    rget KTimed (r_action (AAddTimed cb ud u p) R) =
      mkRec (g_next R) cb ud u false (FTimed p (g_clock R)) :: rget KTimed R.
Proof. exact add_timed_stamp_lemma. Qed.
Print Assumptions timed_stamp_on_add.

(* ... and when it fires it is stamped with the time at which it was reached, not with the time the pass began *)
Theorem timed_stamp_on_fire :
  forall k x R r period last,
    (k = KTimed \/ k = KGlobal) -> WF R ->
    find_rec x (rget k R) = Some r -> r_flt r = FTimed period last ->
    find_rec x (rget k (r_update k x (rec_stamp k (g_clock R)) R)) = Some (rec_flt r (FTimed period (g_clock R))).
Proof. exact timed_stamp_on_fire_lemma. Qed.
Print Assumptions timed_stamp_on_fire.

Theorem timed_stamp_on_rearm :
  forall R r', In r' (rget KTimed (r_reset false R)) ->
    exists r, In r (rget KTimed R) /\ r' = rec_stamp KTimed (g_clock R) r.
Proof. exact reset_stamp_lemma. Qed.
Print Assumptions timed_stamp_on_rearm.

(* timed_fires_next_iteration_when_due: in the next pass of the loop over a connected connection a due handler
   that the gate lets through fires (unless a handler served earlier in the same pass deleted it) *)
Theorem timed_fires_next_iteration_when_due :
  forall sc R x r,
    instant sc -> WF R -> g_conn R = true -> find_rec x (rget KTimed R) = Some r ->
    s_gate KTimed R r = true -> s_match KTimed r no_stanza (g_clock R) = true ->
    (exists ret, In (EvCall x (r_cb r) (r_ud r) (r_user r) KTimed (g_clock R) ret) (g_log (spec_fire_timed sc R))) \/
    present (rget KTimed (spec_fire_timed sc R)) x = false.
Proof. exact timed_due_fires_lemma. Qed.
Print Assumptions timed_fires_next_iteration_when_due.

(* global_timed_always: a due context-wide handler fires in the next pass whatever the connection state and the
   negotiation flag are *)
Theorem global_timed_always :
  forall sc R x r,
    instant sc -> WF R -> find_rec x (rget KGlobal R) = Some r -> s_match KGlobal r no_stanza (g_clock R) = true ->
    (exists ret, In (EvCall x (r_cb r) (r_ud r) (r_user r) KGlobal (g_clock R) ret) (g_log (spec_fire_timed sc R))) \/
    present (rget KGlobal (spec_fire_timed sc R)) x = false.
Proof. exact global_due_fires_lemma. Qed.
Print Assumptions global_timed_always.

(* user_handlers_gated_by_negotiation: before stream negotiation has completed a stanza dispatch invokes no
   user handler (stanza or id) *)
Theorem user_handlers_gated_by_negotiation :
  forall sc sz R e,
    g_neg R = false -> In e (g_log (spec_fire_stanza sc sz R)) -> ~ In e (g_log R) ->
    exists x cb ud k t ret, e = EvCall x cb ud false k t ret.
Proof. exact gated_lemma. Qed.
Print Assumptions user_handlers_gated_by_negotiation.

(* Hypotheses are satisfiable: the empty connection is represented by the empty registry, and the script that
   does nothing deletes only other handlers. *)
Example hypotheses_satisfiable :
  Abs init_state init_reg /\ WF init_reg /\ others_only (fun _ _ _ => ([], true)) /\
  run_ops (fun _ _ _ => ([], true)) 50
    [OAct (AAddStanza 1 0 true None None None); OStanza (mkStanza (Some [105]) None None None [])] init_state
    <> Fuel.
Proof. exact hypotheses_satisfiable_ex. Qed.

(* fuel_gap (stated, not proved): for every reachable state and script there is a fuel from which on no walk
   returns [Fuel] (every pass calls at most |snapshot| handlers, each adds finitely many items).  The theorems
   above are fuel-independent partial-correctness statements; the drivers run with fuel 600 and never report
   Fuel on the generated scenarios. *)
