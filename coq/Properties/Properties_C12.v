(* C12 - Every object is freed exactly once; references keep objects alive.
   Statements only; proofs are in Proofs/StanzaHeap*.v and Proofs/ConnOwnProofs.v.

   Stanza object graph (src/stanza.c): an explicit heap model with ref-counts and parent / children /
   next / prev links (Model/StanzaHeapModel.v).  [true] selects the code with fixes/C12-1 applied
   (xmpp_stanza_release clears child->next, child->prev AND child->parent); [false] is libstrophe 0.14.0.
   A program is well-owned when the user only passes handles it currently holds, stores results in free
   slots, and only adds detached stanzas that are not an ancestor of the new parent as children.

   PARTIAL: allocations owned by auth.c temporaries, expat, zlib, OpenSSL and the resolver are exercised
   by the connection scenarios of checks/C12.py under the tracking allocator + ASan, not proved. *)
Require Import LV.Common.Bytes LV.Gen.Gen_stanza LV.Model.StanzaModel LV.Model.StanzaHeapModel LV.Spec.OwnershipSpec.
Require Import LV.Proofs.StanzaHeapProofs LV.Proofs.ConnOwnProofs.
Local Open Scope Z_scope.

(* In every state a well-owned program passes through, every live node's reference count is the number
   of user handles on it plus one if it hangs in a live parent's child list (and a node without parent
   is on nobody's list and is held by the user); every user handle names a live node. *)
Theorem refcount_invariant :
  forall prog p st,
    well_owned true prog = true -> (exists q, prog = p ++ q) -> reaches true init_state p st ->
    ref_spec st /\ handles_live st.
Proof. exact refcount_invariant_proof. Qed.
Print Assumptions refcount_invariant.

(* No call of a well-owned program touches a freed stanza, frees one twice, or loops for ever - including
   rendering, walking, copying and re-attaching a child that survived its released parent - and the
   program runs to its end. *)
Theorem no_uaf_no_double_free :
  forall prog,
    well_owned true prog = true ->
    Forall (fun o => fst o <> SUAF /\ fst o <> SDoubleFree /\ fst o <> SFuel) (fst (run true prog)) /\
    exists st, snd (run true prog) = Some st.
Proof. exact no_uaf_no_double_free_proof. Qed.
Print Assumptions no_uaf_no_double_free.

(* When the last handle is gone the heap is empty; and whatever state a well-owned program ends in,
   releasing the handles still held is itself well-owned, crashes nowhere and leaves the heap empty. *)
Theorem all_freed_when_last_ref_released :
  forall prog st,
    well_owned true prog = true -> snd (run true prog) = Some st ->
    (slot_ids (st_slots st) = [] -> heap_empty (st_heap st)) /\
    (exists outs st', run_from true st (release_all_ops st) = (outs, Some st') /\
       well_owned true (prog ++ release_all_ops st) = true /\
       Forall (fun o => fst o <> SUAF /\ fst o <> SDoubleFree /\ fst o <> SFuel) outs /\
       slot_ids (st_slots st') = [] /\ heap_empty (st_heap st')).
Proof. exact all_freed_proof. Qed.
Print Assumptions all_freed_when_last_ref_released.

(* The unrepaired xmpp_stanza_release violates the property: this well-owned program
   (new a; new b; add_child(a, b); release(a); walk b) dereferences the freed parent. *)
Theorem unfixed_release_refuted :
  well_owned false uaf_witness = true /\ In SUAF (map fst (fst (run false uaf_witness))).
Proof. exact unfixed_release_refuted_proof. Qed.
Print Assumptions unfixed_release_refuted.

(* ------------------------------------------------------------------------------------ *)
(* connection-lifetime objects (abstract ownership model)                                  *)
(* ------------------------------------------------------------------------------------ *)
(* For every sequence of calls (calls on handles the user does not hold are skipped): nothing is freed
   twice or used after being freed, every SM state object has exactly one owner - one connection or the
   user - while it is live and none once freed, through any number of get/set/free hand-overs. *)
Theorem sm_state_single_owner :
  forall prog,
    Forall (fun o => o <> CUAF /\ o <> CDoubleFree) (fst (crun true prog)) /\
    exists w, snd (crun true prog) = Some w /\ sm_single_owner w.
Proof. exact sm_state_single_owner_proof. Qed.
Print Assumptions sm_state_single_owner.

(* The connection's count is the number of references the user holds; xmpp_conn_release frees the object
   (and reports TRUE) at the last reference only, and then everything the connection owned is freed. *)
Theorem conn_refcount :
  forall prog w,
    snd (crun true prog) = Some w ->
    conn_ref_spec w /\
    (forall c, In c (w_user_conn w) ->
       exists w', fst (cstep true w (CRelease c)) = Some w' /\
         (count_nat (w_user_conn w) c = 1 -> snd (cstep true w (CRelease c)) = CReleased true /\ nth_error (w_conns w') c = Some None) /\
         (1 < count_nat (w_user_conn w) c -> snd (cstep true w (CRelease c)) = CReleased false /\ w_blocks w' = w_blocks w /\
                                           exists x, nth_error (w_conns w') c = Some (Some x))) /\
    (w_user_conn w = [] -> w_user_sm w = [] -> clive w = 0).
Proof. exact conn_refcount_proof. Qed.
Print Assumptions conn_refcount.

(* Without fixes/C12-2 the userdata block of a library handler (the SCRAM context) that is pending when
   the connection is torn down is never returned to the allocator. *)
Theorem unfixed_conn_reset_leaks :
  exists prog w, snd (crun false prog) = Some w /\ w_user_conn w = [] /\ w_user_sm w = [] /\ 0 < clive w.
Proof. exact unfixed_conn_reset_leaks_proof. Qed.
Print Assumptions unfixed_conn_reset_leaks.
