(* C13 - Connection lifecycle: one outcome per attempt, consistent state, bounded waits.
   Statements only (model: Model/NegModel.v, executable statements: Spec/NegSpec.v). *)
Require Import LV.Common.Bytes LV.Gen.Gen_neg LV.Model.NegState LV.Model.NegModel LV.Spec.NegSpec LV.Proofs.NegProofs_C13.
Local Open Scope Z_scope.
Require LV.Spec.NegSkeleton LV.Proofs.NegSkeletonProof.

(* translator tie: the handler registrations, time-out macros, call edges and reset assignments found in
   auth.c / conn.c on this run are the ones the model's tables were written against *)
Theorem registration_skeleton_as_modelled :
  LV.Spec.NegSkeleton.skeleton_ok skeleton = true.
Proof. exact LV.Proofs.NegSkeletonProof.skeleton_matches. Qed.
Print Assumptions registration_skeleton_as_modelled.

Theorem one_outcome_per_attempt :
  forall ops, check_run ok_outcome init_state ops = true.
Proof. exact outcome_ok. Qed.
Print Assumptions one_outcome_per_attempt.

Theorem state_predicates_partition_and_agree_with_notifications :
  forall ops, check_run ok_is init_state ops = true.
Proof. exact is_ok. Qed.
Print Assumptions state_predicates_partition_and_agree_with_notifications.

Theorem offline_only_settings_refused_and_flags_read_back :
  forall ops, check_run ok_flags init_state ops = true.
Proof. exact flags_ok. Qed.
Print Assumptions offline_only_settings_refused_and_flags_read_back.

(* all 256 flag words: accepted exactly when DISABLE_TLS is not combined with MANDATORY_TLS,
   LEGACY_SSL or TRUST_TLS, and then read back unchanged *)
Theorem flags_all_words :
  forall s w, st s = Disconnected -> 0 <= w < 256 ->
    (snd (set_flags w s) = XMPP_EOK <->
       (Z.odd w = false \/ (Z.odd (w / 2) = false /\ Z.odd (w / 4) = false /\ Z.odd (w / 8) = false))) /\
    (snd (set_flags w s) = XMPP_EOK -> flags_readback (fst (set_flags w s)) = w).
Proof. exact flags_all_words_proof. Qed.
Print Assumptions flags_all_words.

Theorem stream_error_reported_with_condition_and_text :
  forall ops, check_run ok_stream_error init_state ops = true.
Proof. exact stream_error_ok. Qed.
Print Assumptions stream_error_reported_with_condition_and_text.

(* the deadlines found in the source: 5 s per TCP connect attempt, 15 s for features / bind /
   session / legacy auth / component handshake, 2 s for a graceful close *)
Theorem wait_deadlines :
  CONNECT_TIMEOUT = 5000 /\ DISCONNECT_TIMEOUT = 2000 /\
  (forall s, tperiod s TMissingFeatures = 15000 /\ tperiod s TMissingFeaturesSasl = 15000 /\
             tperiod s TMissingBind = 15000 /\ tperiod s TMissingSession = 15000 /\
             tperiod s TMissingLegacy = 15000 /\ tperiod s TMissingHandshake = 15000 /\
             tperiod s TDisconnectCleanup = 2000).
Proof. exact wait_deadlines_proof. Qed.
Print Assumptions wait_deadlines.

(* a timed wait is not given up before its period has elapsed since it was armed ... *)
Theorem timed_wait_not_before_deadline :
  forall now s o k en stp,
    timed_lookup k s = Some (en, stp) -> now - stp < tperiod s k ->
    visit_timed now (s, o) k = (s, o).
Proof. exact timed_early_proof. Qed.
Print Assumptions timed_wait_not_before_deadline.

(* ... and is given up at the first loop iteration at or after the deadline *)
Theorem timed_wait_fires_at_deadline :
  forall now s o k stp,
    crashed s = false -> timed_lookup k s = Some (true, stp) -> tperiod s k <= now - stp ->
    (k = TUser -> neg_done s = true) ->
    visit_timed now (s, o) k =
      (let '(s2, o2, keep) := call_timed k now (timed_set_stamp k now s) in
       ((if keep then s2 else timed_del k s2), o ++ o2)).
Proof. exact timed_due_proof. Qed.
Print Assumptions timed_wait_fires_at_deadline.

(* a TCP connect attempt that stays silent is kept for exactly CONNECT_TIMEOUT ms: not abandoned while
   elapsed <= 5000; at the first iteration after, its socket is closed and either no candidate is left
   (ETIMEDOUT disconnect) or the next candidate is tried with a wait of its own *)
Theorem connect_wait_exact :
  forall s now rd,
    crashed s = false -> st s = Connecting -> cur_ep s = EpHang ->
    let '(s', outs) := run_once now rd s in
    (now - stamp s <= CONNECT_TIMEOUT -> st s' = Connecting /\ cands s' = cands s /\ stamp s' = stamp s /\
                                        forallb (fun o => match o with ODisconnect _ _ => false | OSockClose => false | _ => true end) outs = true) /\
    (CONNECT_TIMEOUT < now - stamp s ->
       In OSockClose outs /\
       match snd (sock_connect (cands s)) with
       | None => st s' = Disconnected /\ In (ODisconnect ETIMEDOUT (stream_error s')) outs
       | Some (k, r) => k = EpHang -> st s' = Connecting /\ stamp s' = now /\ cands s' = r /\ cur_ep s' = EpHang
       end).
Proof. exact connect_wait_proof. Qed.
Print Assumptions connect_wait_exact.
