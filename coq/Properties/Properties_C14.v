(* C14 - Server discovery tries every candidate in SRV order before giving up.
   Statements only; proofs are in Proofs/SrvProofs.v.

   [scenario gai behv true cfg srv t0 ops] is the model of one connection attempt with the repaired
   sock_connect (fixes/C14-1.patch): connect at virtual time t0, then loop iterations and clock steps.
   Quantified over: every address oracle [gai], every per-attempt behaviour [behv] (refuse / accept /
   late failure / hang), every configuration, every (sorted) SRV answer or lookup failure [srv],
   every schedule [ops] of iterations and clock advances.
   [eff_rrs cfg srv] is the record list in use (explicit host, else SRV answer, else the domain),
   [flatten gai l] its candidates: targets in list order, each with all its addresses in resolver order. *)
Require Import LV.Common.Bytes LV.Gen.Gen_srv LV.Spec.SrvSpec LV.Model.SrvModel LV.Proofs.SrvProofs.
Require Import Coq.Sorting.Sorted.
Local Open Scope Z_scope.

(* the constants found in the sources (regenerated on every run) are the documented ones, the
   time-out test is `elapsed <= timeout` *)
Theorem srv_constants_are_documented :
  CONNECT_TIMEOUT = spec_connect_timeout /\
  XMPP_PORT_CLIENT = spec_port_client /\
  XMPP_PORT_CLIENT_LEGACY_SSL = spec_port_legacy_ssl /\
  XMPP_PORT_COMPONENT = spec_port_component /\
  (forall b, default_port_client b = spec_default_port Client b) /\
  default_port_component = spec_default_port Component false /\
  (forall el t, connect_in_time el t = (el <=? t)) /\
  XMPP_EOK = 0 /\ XMPP_EINT <> 0 /\ XMPP_EINVOP <> 0.
Proof. exact Gen_srv_ok. Qed.
Print Assumptions srv_constants_are_documented.

(* the descriptors given to connect(), in order, are exactly the first n flattened candidates
   (attempt k goes to candidate k and meets behv k); nothing is tried after an attempt that
   accepts, unless the client itself gave that attempt up by its time-out *)
Theorem attempts_are_flattened_prefix :
  forall gai behv cfg srv t0 ops c tr,
    scenario gai behv true cfg srv t0 ops = (c, tr) ->
    let cands := flatten gai (eff_rrs cfg srv) in
    exists n, (n <= length cands)%nat /\
      attempt_evs tr = number_from behv 0 (firstn n cands) /\
      attempts tr = firstn n cands /\
      (forall j, (S j < n)%nat -> behv j = Accept -> timed_out j tr = true).
Proof. exact attempts_prefix. Qed.
Print Assumptions attempts_are_flattened_prefix.

(* ... and when the loop is run at least every CONNECT_TIMEOUT ms no acceptor is ever given up:
   the attempts are the candidates up to and including the first that accepts *)
Theorem attempts_stop_at_first_acceptor :
  forall gai behv cfg srv t0 ops c tr,
    scenario gai behv true cfg srv t0 ops = (c, tr) ->
    timely CONNECT_TIMEOUT ops ->
    let cands := flatten gai (eff_rrs cfg srv) in
    exists n, (n <= length cands)%nat /\ attempts tr = firstn n cands /\
              (forall j, (S j < n)%nat -> behv j <> Accept).
Proof. exact attempts_prefix_timely. Qed.
Print Assumptions attempts_stop_at_first_acceptor.

(* a failure return code or a disconnect notification only when every candidate was attempted
   (and each acceptor among them had been timed out by the client) *)
Theorem failure_only_after_all_tried :
  forall gai behv cfg srv t0 ops c tr,
    cfg_ok cfg = true ->
    scenario gai behv true cfg srv t0 ops = (c, tr) ->
    failed tr = true ->
    let cands := flatten gai (eff_rrs cfg srv) in
    attempts tr = cands /\
    attempt_evs tr = number_from behv 0 cands /\
    cn_state c = Disconnected /\
    (forall j, (j < length cands)%nat -> behv j = Accept -> timed_out j tr = true).
Proof. exact failure_after_all. Qed.
Print Assumptions failure_only_after_all_tried.

Theorem failure_means_no_acceptor :
  forall gai behv cfg srv t0 ops c tr,
    cfg_ok cfg = true ->
    scenario gai behv true cfg srv t0 ops = (c, tr) ->
    timely CONNECT_TIMEOUT ops ->
    failed tr = true ->
    forall j, (j < length (flatten gai (eff_rrs cfg srv)))%nat -> behv j <> Accept.
Proof. exact failure_timely. Qed.
Print Assumptions failure_means_no_acceptor.

(* a configuration the API refuses: non-zero return code, no network activity at all *)
Theorem refused_configuration_does_nothing :
  forall gai behv fx cfg srv t0 ops c tr,
    cfg_ok cfg = false ->
    scenario gai behv fx cfg srv t0 ops = (c, tr) ->
    exists rc ticks, rc <> 0 /\ tr = EvR rc :: ticks /\ Forall (fun x => x = EvTick) ticks /\ c = conn0.
Proof. exact scenario_refused. Qed.
Print Assumptions refused_configuration_does_nothing.

(* the connection is established on an endpoint that accepts, the last one attempted, every
   earlier acceptor having been timed out by the client; the stream header / TLS start /
   raw-connect notification appear only then, on that descriptor, addressed to the domain *)
Theorem first_acceptor_used :
  forall gai behv cfg srv t0 ops c tr,
    cfg_ok cfg = true ->
    scenario gai behv true cfg srv t0 ops = (c, tr) ->
    let cands := flatten gai (eff_rrs cfg srv) in
    (cn_state c = Connected ->
       exists fd, cn_sock c = Some fd /\ behv fd = Accept /\ (S fd <= length cands)%nat /\
         attempts tr = firstn (S fd) cands /\
         (forall j, (j < fd)%nat -> behv j = Accept -> timed_out j tr = true) /\
         failed tr = false /\
         Forall (est_ok FLAG_LEGACY_SSL cfg fd) tr) /\
    (cn_state c <> Connected -> Forall no_est tr).
Proof. exact acceptor_used. Qed.
Print Assumptions first_acceptor_used.

Theorem first_acceptor_used_when_polled_in_time :
  forall gai behv cfg srv t0 ops c tr,
    cfg_ok cfg = true ->
    scenario gai behv true cfg srv t0 ops = (c, tr) ->
    timely CONNECT_TIMEOUT ops ->
    cn_state c = Connected ->
    exists fd, cn_sock c = Some fd /\ behv fd = Accept /\ (forall j, (j < fd)%nat -> behv j <> Accept) /\
               attempts tr = firstn (S fd) (flatten gai (eff_rrs cfg srv)).
Proof. exact acceptor_used_timely. Qed.
Print Assumptions first_acceptor_used_when_polled_in_time.

(* one loop iteration on a hanging attempt: with at most 5000 ms elapsed nothing at all happens,
   with more the attempt is logged as timed out and its descriptor closed first thing *)
Theorem timeout_moves_on_after_5s :
  forall gai behv cfg c now fd c' e,
    cn_state c = Connecting -> cn_sock c = Some fd -> behv fd = Hang ->
    0 <= now - cn_stamp c < 18446744073709551616 ->
    run_once gai behv true cfg c now = (c', e) ->
    (now - cn_stamp c <= spec_connect_timeout -> c' = c /\ e = [EvTick]) /\
    (now - cn_stamp c > spec_connect_timeout ->
       exists e', e = EvTimedOut fd (now - cn_stamp c) :: EvX fd :: e').
Proof. exact timeout_step. Qed.
Print Assumptions timeout_moves_on_after_5s.

(* ... and no attempt of any kind is ever timed out with 5000 ms or less elapsed *)
Theorem timeout_never_before_5s :
  forall gai behv cfg ops c now c' e fd el,
    exec gai behv true cfg ops c now = (c', e) -> In (EvTimedOut fd el) e -> el > spec_connect_timeout.
Proof. exact timed_out_only_late. Qed.
Print Assumptions timeout_never_before_5s.

(* an explicit host (altdomain / component server), or legacy SSL: no SRV query, one record made
   of that host and the given or default port, and the behaviour does not depend on the SRV answer *)
Theorem explicit_host_bypasses_srv :
  forall gai behv cfg h srv t0 ops c tr,
    cfg_ok cfg = true -> byp_host cfg = Some h ->
    scenario gai behv true cfg srv t0 ops = (c, tr) ->
    queries tr = [] /\
    eff_rrs cfg srv = [single_sr SRV_MAX_DOMAIN_LEN h (effective_port FLAG_LEGACY_SSL cfg)] /\
    (forall srv', scenario gai behv true cfg srv' t0 ops = (c, tr)).
Proof. exact bypass_no_srv. Qed.
Print Assumptions explicit_host_bypasses_srv.

(* otherwise exactly one query, for the JID's domain *)
Theorem srv_queried_otherwise :
  forall gai behv cfg srv t0 ops c tr,
    cfg_ok cfg = true -> byp_host cfg = None ->
    scenario gai behv true cfg srv t0 ops = (c, tr) ->
    queries tr = [EvQ (cf_domain cfg)].
Proof. exact srv_query_made. Qed.
Print Assumptions srv_queried_otherwise.

(* 5222 / 5223 with legacy SSL / 5347 for a component, when no port is given *)
Theorem default_ports :
  forall gai behv cfg h srv t0 ops c tr,
    cfg_ok cfg = true -> byp_host cfg = Some h -> cf_port cfg = 0 ->
    scenario gai behv true cfg srv t0 ops = (c, tr) ->
    Forall (fun a => c_port a = spec_default_port (cf_type cfg) (cfg_legacy_ssl cfg) /\
                     c_host a = firstn (Z.to_nat (SRV_MAX_DOMAIN_LEN - 1)) h) (attempts tr).
Proof. exact default_port_used. Qed.
Print Assumptions default_ports.

(* for a sorted record list (ascending priority, then descending weight: C15) the candidates are
   in that order too *)
Theorem candidates_in_priority_order :
  forall gai l, StronglySorted sr_le l -> StronglySorted key_le (flatten_keys gai l).
Proof. exact flatten_sorted_keys. Qed.
Print Assumptions candidates_in_priority_order.

(* the model never runs out of fuel (sock_connect terminates) *)
Theorem sock_connect_terminates :
  forall gai behv cfg srv t0 ops c tr,
    scenario gai behv true cfg srv t0 ops = (c, tr) -> ~ In EvFuel tr.
Proof. exact no_fuel. Qed.
Print Assumptions sock_connect_terminates.

(* sock_connect as found in the repository (fx = false) violates failure_only_after_all_tried *)
Theorem sock_connect_as_found_refuted :
  exists gai behv cfg srv t0 ops,
    cfg_ok cfg = true /\
    failed (snd (scenario gai behv false cfg srv t0 ops)) = true /\
    (length (attempts (snd (scenario gai behv false cfg srv t0 ops))) <
     length (flatten gai (eff_rrs cfg srv)))%nat.
Proof. exact orig_refuted. Qed.
Print Assumptions sock_connect_as_found_refuted.
