(* C15 - DNS SRV answers are decoded safely and correctly.
   Statements only; proofs are in Proofs/ResolverProofs.v. *)
Require Import LV.Common.Bytes LV.Gen.Gen_resolver LV.Model.ResolverModel LV.Spec.DnsSpec LV.Proofs.ResolverProofs.
From Coq Require Import Sorting.Permutation Sorting.Sorted.
Local Open Scope Z_scope.

(* the constants, field offsets and bounds-check offsets found in src/resolver.c, src/resolver.h and
   src/common.h (regenerated on every run) are those of RFC 1035 / RFC 2782; the target field has 256 cells *)
Theorem dns_constants_are_rfc1035 :
  MESSAGE_HEADER_LEN = HEADER_LEN /\ MESSAGE_RESPONSE = QR_RESPONSE /\
  MESSAGE_T_SRV = TYPE_SRV /\ MESSAGE_C_IN = CLASS_IN /\ MAX_DOMAIN_LEN = 256 /\
  XMPP_DOMAIN_NOT_FOUND = 0 /\ XMPP_DOMAIN_FOUND = 1 /\
  hdr_octet2_off = HDR_FLAGS_HI_OFF /\ hdr_octet3_off = HDR_FLAGS_LO_OFF /\
  hdr_qdcount_off = HDR_QDCOUNT_OFF /\ hdr_ancount_off = HDR_ANCOUNT_OFF /\
  qr_shift = 7 /\ qr_mask = 1 /\ rcode_mask = 15 /\ q_tail = QUESTION_FIXED /\
  rr_type_off = RR_TYPE_OFF /\ rr_class_off = RR_CLASS_OFF /\ rr_rdlength_off = RR_RDLENGTH_OFF /\
  rr_fixed_len = RR_FIXED /\
  srv_prio_off = SRV_PRIORITY_OFF /\ srv_weight_off = SRV_WEIGHT_OFF /\ srv_port_off = SRV_PORT_OFF /\
  srv_target_off = SRV_TARGET_OFF /\
  label_mask = 192 /\ label_tag = 0 /\ pointer_tag = POINTER_TAG /\ pointer_mask = 63 /\ pointer_shift = 8 /\
  ovf_check_offsets = [0; 0; RR_FIXED - 1; SRV_TARGET_OFF].
Proof. exact Gen_resolver_ok. Qed.
Print Assumptions dns_constants_are_rfc1035.

(* the guard comparisons found in message_name_get, message_name_append_safe, BUF_OVERFLOW_CHECK and
   resolver_srv_list_sort (regenerated on every run) are the ones the proofs below are about; in
   particular the name buffer is retired at a pointer exactly when no cell is left (name_len >= name_max) *)
Theorem dns_guards_are_the_proved_ones :
  (forall p l, ovf_check p l = (l <=? p)) /\
  (forall p o, pointer_guard p o = (o <=? p)) /\
  (forall cp cw np nw, srv_swap cp cw np nw = ((np <? cp) || ((cp =? np) && (cw <? nw)))) /\
  (forall i l, idx_guard i l = (l <=? i)) /\
  (forall e l, label_end_guard e l = (l <=? e)) /\ label_end_adjust = 1 /\
  (forall nlen nmax, name_full nlen nmax = ((nmax <=? nlen) && (0 <? nmax))) /\
  (forall nmax nlen, room_left nmax nlen = Z.max 0 (nmax - nlen)) /\
  (forall c, copy_guard c = (0 <? c)) /\
  (forall m, term_guard m = (0 <? m)) /\
  (forall n, fixup_guard n = (0 <? n)).
Proof. exact Gen_resolver_guards_ok. Qed.
Print Assumptions dns_guards_are_the_proved_ones.

(* (1) safety: for every message of at most 64 KiB the decoder never reads outside the message,
   never accesses a cell outside the 256-cell target field (LOOB), and terminates within the
   fuel derived from the message length (LFuel) *)
Theorem dns_no_oob :
  forall buf, bytes buf -> zlen buf <= 65536 ->
    lookup buf <> LOOB /\ lookup buf <> LFuel.
Proof. exact lookup_no_oob. Qed.
Print Assumptions dns_no_oob.

(* (2) consistency: the status is FOUND or NOT_FOUND, FOUND exactly with a non-empty list; every
   target handed out is a NUL-terminated string of fewer than 256 characters *)
Theorem dns_consistent :
  forall buf st l, bytes buf -> zlen buf <= 65536 ->
    lookup buf = LDone st l ->
    (st = XMPP_DOMAIN_FOUND \/ st = XMPP_DOMAIN_NOT_FOUND) /\
    (st = XMPP_DOMAIN_FOUND <-> l <> []) /\
    forall r, In r l ->
      zlen (rr_target r) = MAX_DOMAIN_LEN /\
      exists s, cstr (rr_target r) = Some s /\ zlen s < MAX_DOMAIN_LEN /\ ~ In 0 s.
Proof. exact lookup_consistent. Qed.
Print Assumptions dns_consistent.

(* (3) ordering: the list returned is a permutation of the decoded records, ordered by priority
   ascending and, within a priority, weight descending *)
Theorem dns_sorted :
  forall buf st l, lookup buf = LDone st l ->
    exists u, lookup_unsorted buf = LDone st u /\ Permutation u l /\
      StronglySorted (fun a b => rr_priority a < rr_priority b \/
                                 (rr_priority a = rr_priority b /\ rr_weight b <= rr_weight a)) l.
Proof. exact lookup_sorted. Qed.
Print Assumptions dns_sorted.

(* the pass count given to the bubble sort (the length of the list) always suffices *)
Theorem dns_sort_fuel_enough :
  forall l, srv_sort l <> None.
Proof. exact sort_fuel_enough. Qed.
Print Assumptions dns_sort_fuel_enough.

(* (4) correctness: for every well-formed successful response (RFC 1035 header with QR=1, RCODE=0;
   question and answer sections made of well-formed, possibly compressed names within the 255-octet
   limit; SRV RDATA filled exactly by priority, weight, port and target; labels of targets NUL-free)
   the records returned are exactly the IN/SRV answers - priority, weight, port and the fully
   expanded dotted target as a C string - in the order of (3); FOUND iff there is at least one *)
Theorem dns_wellformed :
  forall buf ans, wf_response buf ans -> srv_targets_text ans ->
    exists st l, lookup buf = LDone st l /\
      (st = XMPP_DOMAIN_FOUND \/ st = XMPP_DOMAIN_NOT_FOUND) /\
      (st = XMPP_DOMAIN_FOUND <-> srv_answers ans <> []) /\
      Permutation (map rr_view l) (map expected_view (srv_answers ans)) /\
      StronglySorted (fun a b => rr_priority a < rr_priority b \/
                                 (rr_priority a = rr_priority b /\ rr_weight b <= rr_weight a)) l.
Proof. exact lookup_wellformed. Qed.
Print Assumptions dns_wellformed.
