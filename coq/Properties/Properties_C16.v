(* C16 - persisted stream-management state restores faithfully or is refused cleanly.
   Statements only; proofs are in Proofs/SmBlobProofs.v.  `restore` is the model of
   xmpp_conn_restore_sm_state following the code shape found in src/conn.c by the translator
   (Gen_smblob, regenerated on every run); `serialize` the model of sm_state_serialize, i.e. what the
   xmpp_conn_set_sm_callback callback is handed; `native_of st` a connection whose queues were built by the
   library's own sends (xmpp_send_raw on a connected connection, add_queue_back for the SM queue). *)
Require Import LV.Common.Bytes LV.Gen.Gen_smblob LV.Model.SmBlobModel LV.Spec.SmBlobSpec LV.Proofs.SmBlobProofs.
Local Open Scope Z_scope.

(* the tags, version prefix, minimum length, size terms and the shape of the restore code found in the source
   are those of the format specification and those the theorems below are proved for *)
Theorem blob_source_matches_spec :
  gen_variant = fixed_variant /\
  [ser_tag_sent; ser_tag_handled; ser_tag_id; ser_tag_sqcount; ser_tag_sqitem; ser_tag_mqcount; ser_tag_mqh; ser_tag_mqitem]
    = [T_WORD; T_WORD; T_STRING; T_UNSENT; T_STRING; T_UNACKED; T_WORD; T_STRING] /\
  [ld_tag_sent; ld_tag_handled; ld_tag_str; ld_tag_sqcount; ld_tag_mqcount; ld_tag_mqh]
    = [T_WORD; T_WORD; T_STRING; T_UNSENT; T_UNACKED; T_WORD] /\
  ser_version = enc_word FORMAT_VERSION /\ ld_version = enc_word FORMAT_VERSION /\ ld_skip = zlen ld_version /\
  blob_min_len = MIN_LEN /\ ser_fixed = 30 /\ ser_sq_item = 5 /\ ser_mq_item = 10 /\ store_need = 5 /\
  ld_incr_before_check = false /\
  (OWNER_STROPHE, OWNER_USER, OWNER_SM) = (1, 2, 2048) /\
  (ST_DISCONNECTED, ST_CONNECTING, ST_CONNECTED) = (0, 1, 2) /\ EINVOP = -2.
Proof. exact Gen_smblob_ok. Qed.
Print Assumptions blob_source_matches_spec.

(* for every state (any counters below 2^32, any NUL-free id, any queue contents): the natively built
   connection serialises to the specified encoding, and restoring that blob into a fresh connection succeeds
   and yields a connection whose abstract content is the state: counters, id, both queues (texts, order, h) *)
Theorem blob_roundtrip :
  forall st, wf_st st ->
    exists c blob,
      native_of st = Ok c /\
      serialize c = SOk (map Some blob) /\ blob = encode st /\
      restore fresh_conn blob = Ok (0, c) /\
      abs_conn c = Ok (a_sent st, a_handled st, a_id st, a_unsent st, a_unacked st).
Proof. exact roundtrip. Qed.
Print Assumptions blob_roundtrip.

(* whatever the heap looks like, if the two queues can be walked and hold texts: the serialiser writes exactly
   the encoding of the state they denote, every cell of the buffer is written, the buffer has exactly the
   pre-computed size - so the "buffer full" exit (SBufFull) is never taken *)
Theorem blob_size_exact :
  forall c s id sq mq us ua,
    c_sm c = SmLive s -> sm_support s = true -> sm_enabled s = true -> sm_can_resume s = true ->
    sm_id s = Some (id ++ [0]) -> nul_free id ->
    walk (c_heap c) (sq_head c) (walk_fuel (c_heap c)) = Ok sq ->
    walk (c_heap c) (mq_head s) (walk_fuel (c_heap c)) = Ok mq ->
    Forall2 node_text sq us -> Forall2 node_htext mq ua ->
    is_u32 (sm_sent s) -> is_u32 (sm_handled s) ->
    let st := mkA (sm_sent s) (sm_handled s) id us ua in
    encoded_size st < 4294967296 ->
    serialize c = SOk (map Some (encode st)) /\ zlen (encode st) = encoded_size st.
Proof. exact serialize_exact. Qed.
Print Assumptions blob_size_exact.

(* the restored queues are well-formed doubly linked lists: walking from head via next visits exactly the
   restored elements, every prev link points to the predecessor, head->prev and tail->next are NULL, the walk
   ends at tail *)
Theorem blob_restored_wf :
  forall st c, wf_st st -> restore fresh_conn (encode st) = Ok (0, c) ->
    exists s, c_sm c = SmLive s /\
      wf_queue (c_heap c) (sq_head c) (sq_tail c) (seq 0 (length (a_unsent st))) /\
      wf_queue (c_heap c) (mq_head s) (mq_tail s) (seq (length (a_unsent st)) (length (a_unacked st))).
Proof. exact restored_wf. Qed.
Print Assumptions blob_restored_wf.

(* the restored connection is the very object the native sends build (same cells, same links, same counters) ... *)
Theorem blob_restored_is_native :
  forall st c, wf_st st -> restore fresh_conn (encode st) = Ok (0, c) -> native_of st = Ok c.
Proof. exact restored_is_native. Qed.
Print Assumptions blob_restored_is_native.

(* ... hence every sequence of queue operations (send, drop oldest/youngest, queue length, send-loop iteration
   with any write schedule, inbound <a/> and stanzas, connect/disconnect) observes the same on both, up to and
   including any abnormal outcome *)
Theorem blob_restored_behaves_native :
  forall st c ops, wf_st st -> restore fresh_conn (encode st) = Ok (0, c) ->
    exists cn, native_of st = Ok cn /\ run ops c = run ops cn.
Proof. exact restored_behaves_native. Qed.
Print Assumptions blob_restored_behaves_native.

(* for ALL byte strings (shorter than 4 GiB): restore returns normally - never a read outside the buffer (OOB),
   a use after free, a double free, a NULL dereference or fuel exhaustion - and when it refuses, the error code
   is XMPP_EINVOP and the connection equals a fresh one except for heap cells that are all freed: no SM state
   pointer, empty queue, zero counters *)
Theorem blob_reject_safe :
  forall bs, bytes bs -> zlen bs < 4294967296 ->
    exists rc c, restore fresh_conn bs = Ok (rc, c) /\
                 (rc <> 0 -> rc = EINVOP /\ exists k, c = clean_conn k).
Proof. exact reject_safe. Qed.
Print Assumptions blob_reject_safe.

(* such a connection can be used, connected and released: every queue call answers like on a new connection,
   after "connect" a send is queued normally, release frees everything exactly once *)
Theorem blob_reject_usable :
  forall k,
    let c := clean_conn k in
    qlen c = Ok 0 /\
    (forall w, drop c w = Ok (c, None, None)) /\
    (forall t len, send_user c t len = Ok (c, None)) /\
    (forall t, send_user_str c t = Ok (c, None)) /\
    (forall sched, run_once c sched = Ok (c, [], None)) /\
    release c = Ok (repeat Freed k) /\ live_count (repeat Freed k) = 0 /\
    (forall t, nul_free t -> exists c', send_user (op_connect c) t (zlen t) = Ok (c', Some SNull) /\
                                       qlen c' = Ok 1 /\
                                       exists h, release (op_disconnect c') = Ok h /\ live_count h = 0).
Proof. exact clean_usable. Qed.
Print Assumptions blob_reject_usable.

(* nothing but a serialised state is accepted: truncated, extended, retagged or relengthed input is refused *)
Theorem blob_accept_exact :
  forall bs c, bytes bs -> zlen bs < 4294967296 -> restore fresh_conn bs = Ok (0, c) ->
    exists st, bs = encode st /\ c = canon st /\ nul_free (a_id st) /\ is_u32 (a_sent st) /\ is_u32 (a_handled st).
Proof. exact accept_exact. Qed.
Print Assumptions blob_accept_exact.

(* the same model with the code shape of libstrophe 0.14.0 as released violates the statements above
   (findings C16-1 .. C16-5; the witnesses are in corpus/C16.txt) *)
Theorem blob_orig_refuted :
  restore_v orig_variant fresh_conn ex_blob30 = OOB /\
  (exists c, restore_v orig_variant fresh_conn (encode ex_st) = Ok (0, c) /\
             dllb (c_heap c) None (sq_head c) [0; 1]%nat = None /\
             fst (run [OpDrop Q_YOUNGEST] c) <> fst (run [OpDrop Q_YOUNGEST] (canon ex_st))) /\
  (exists c, restore_v orig_variant fresh_conn (firstn 38 (encode ex_st)) = Ok (EINVOP, c) /\
             c_sm c = SmDangling /\ sq_head c <> None /\ sq_len c = 2 /\ release c = UAF /\
             fst (run [OpConnect; OpSend [97]] c) = [ObNone]) /\
  (exists c, restore_v orig_variant fresh_conn (encode ex_st ++ [0]) = Ok (0, c)) /\
  (exists c, restore_v orig_variant fresh_conn (encode (mkA 1 2 [97; 0; 98] [] [])) = Ok (0, c) /\
             abs_conn c = Ok (1, 2, [97], [], [])).
Proof. exact orig_refuted. Qed.
Print Assumptions blob_orig_refuted.
