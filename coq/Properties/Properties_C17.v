(* C17 - built-in digests equal the standards for every message and every split.
   Statements only; proofs are in Proofs/Hash*.v.  Vocabulary: X_run chunks = Init, one Update per
   chunk, Final (Model/HashModel.v); X_spec = the standard's digest (Spec/HashSpec.v); a result
   HOk d excludes the outcomes HOOB (access outside a buffer), HFuel (loop bound) and HReject. *)
Require Import LV.Common.Bytes LV.Gen.Gen_hash LV.Spec.HashSpec LV.Model.HashModel LV.Model.HmacModel LV.Proofs.HashProofs.
Local Open Scope Z_scope.

(* the constants found in the C sources (regenerated on every run) are the standard ones *)
Theorem hash_constants_are_standard :
  gen_sha1_ok /\ gen_sha256_ok /\ gen_sha512_ok /\ gen_md5_ok /\ gen_hmac_ok.
Proof. exact Gen_hash_ok. Qed.
Print Assumptions hash_constants_are_standard.

(* ---------------------------------------- SHA-256 ---------------------------------------- *)
(* every message, every partition into update calls (empty pieces included) *)
Theorem sha256_any_split :
  forall chunks, 8 * zlen (concat chunks) < 2 ^ 64 ->
    sha256_run chunks = HOk (sha256_spec (concat chunks)).
Proof. exact sha256_any_split_lemma. Qed.
Print Assumptions sha256_any_split.
Example sha256_any_split_hyp : 8 * zlen (concat [[1; 2]; []; [3]]) < 2 ^ 64.
Proof. reflexivity. Qed.

Theorem sha256_oneshot_is_standard :
  forall data, 8 * zlen data < 2 ^ 64 -> sha256_oneshot data = HOk (sha256_spec data).
Proof. exact sha256_oneshot_lemma. Qed.
Print Assumptions sha256_oneshot_is_standard.

(* two updates behave as one update with the concatenation: both succeed, the resulting contexts
   agree on everything that is read again, and finishing either gives the standard digest *)
Theorem sha256_update_app :
  forall c msg a b, sha256_reached c msg -> 8 * (zlen msg + zlen a + zlen b) < 2 ^ 64 ->
    exists c2 c12,
      sha256_feed (sha256_feed (HOk c) a) b = HOk c2 /\ sha256_feed (HOk c) (a ++ b) = HOk c12 /\
      tom_equiv c2 c12 /\ sha256_done c2 = sha256_done c12 /\
      sha256_done c12 = HOk (sha256_spec (msg ++ a ++ b)).
Proof. exact sha256_update_app_lemma. Qed.
Print Assumptions sha256_update_app.
Example sha256_update_app_hyp : sha256_reached sha256_init [] /\ 8 * (zlen (@nil Z) + zlen [1] + zlen [2]) < 2 ^ 64.
Proof. split; [exists []; split; reflexivity|reflexivity]. Qed.

(* ---------------------------------------- SHA-512 ---------------------------------------- *)
Theorem sha512_any_split :
  forall chunks, 8 * zlen (concat chunks) < 2 ^ 64 ->
    sha512_run chunks = HOk (sha512_spec (concat chunks)).
Proof. exact sha512_any_split_lemma. Qed.
Print Assumptions sha512_any_split.

Theorem sha512_oneshot_is_standard :
  forall data, 8 * zlen data < 2 ^ 64 -> sha512_oneshot data = HOk (sha512_spec data).
Proof. exact sha512_oneshot_lemma. Qed.
Print Assumptions sha512_oneshot_is_standard.

Theorem sha512_update_app :
  forall c msg a b, sha512_reached c msg -> 8 * (zlen msg + zlen a + zlen b) < 2 ^ 64 ->
    exists c2 c12,
      sha512_feed (sha512_feed (HOk c) a) b = HOk c2 /\ sha512_feed (HOk c) (a ++ b) = HOk c12 /\
      tom_equiv c2 c12 /\ sha512_done c2 = sha512_done c12 /\
      sha512_done c12 = HOk (sha512_spec (msg ++ a ++ b)).
Proof. exact sha512_update_app_lemma. Qed.
Print Assumptions sha512_update_app.
