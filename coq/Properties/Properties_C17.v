(* C17 - built-in digests equal the standards for every message and every split.
   Statements only; proofs are in Proofs/Hash*.v.  Vocabulary: X_run chunks = Init, one Update per
   chunk, Final (Model/HashModel.v); X_spec = the standard's digest (Spec/HashSpec.v); a result
   HOk d excludes the outcomes HOOB (access outside a buffer), HFuel (loop bound) and HReject. *)
Require Import LV.Common.Bytes LV.Common.HashWords LV.Gen.Gen_hash LV.Spec.HashSpec LV.Model.HashModel LV.Model.HmacModel LV.Proofs.HashProofs.
Local Open Scope Z_scope.

(* the constants found in the C sources (regenerated on every run) are the standard ones *)
Theorem hash_constants_are_standard :
  gen_sha1_ok /\ gen_sha256_ok /\ gen_sha512_ok /\ gen_md5_ok /\ gen_hmac_ok.
Proof. exact Gen_hash_ok. Qed.
Print Assumptions hash_constants_are_standard.

(* ---------------------------------------- SHA-256 ---------------------------------------- *)
(* every message, every partition into update calls (empty pieces included) *)
Theorem sha256_any_split :
  forall chunks, 8 * zlen (concat chunks) < 2 ^ 64 ->
    sha256_run chunks = HOk (sha256_spec (concat chunks)).
Proof. exact sha256_any_split_lemma. Qed.
Print Assumptions sha256_any_split.
Example sha256_any_split_hyp : 8 * zlen (concat [[1; 2]; []; [3]]) < 2 ^ 64.
Proof. reflexivity. Qed.

Theorem sha256_oneshot_is_standard :
  forall data, 8 * zlen data < 2 ^ 64 -> sha256_oneshot data = HOk (sha256_spec data).
Proof. exact sha256_oneshot_lemma. Qed.
Print Assumptions sha256_oneshot_is_standard.

(* two updates behave as one update with the concatenation: both succeed, the resulting contexts
   agree on everything that is read again, and finishing either gives the standard digest *)
Theorem sha256_update_app :
  forall c msg a b, sha256_reached c msg -> 8 * (zlen msg + zlen a + zlen b) < 2 ^ 64 ->
    exists c2 c12,
      sha256_feed (sha256_feed (HOk c) a) b = HOk c2 /\ sha256_feed (HOk c) (a ++ b) = HOk c12 /\
      tom_equiv c2 c12 /\ sha256_done c2 = sha256_done c12 /\
      sha256_done c12 = HOk (sha256_spec (msg ++ a ++ b)).
Proof. exact sha256_update_app_lemma. Qed.
Print Assumptions sha256_update_app.
Example sha256_update_app_hyp : sha256_reached sha256_init [] /\ 8 * (zlen (@nil Z) + zlen [1] + zlen [2]) < 2 ^ 64.
Proof. split; [exists []; split; reflexivity|reflexivity]. Qed.

(* ---------------------------------------- SHA-512 ---------------------------------------- *)
Theorem sha512_any_split :
  forall chunks, 8 * zlen (concat chunks) < 2 ^ 64 ->
    sha512_run chunks = HOk (sha512_spec (concat chunks)).
Proof. exact sha512_any_split_lemma. Qed.
Print Assumptions sha512_any_split.
Example sha512_any_split_hyp : 8 * zlen (concat [[]; repeat 5 200; [3]]) < 2 ^ 64.
Proof. reflexivity. Qed.

Theorem sha512_oneshot_is_standard :
  forall data, 8 * zlen data < 2 ^ 64 -> sha512_oneshot data = HOk (sha512_spec data).
Proof. exact sha512_oneshot_lemma. Qed.
Print Assumptions sha512_oneshot_is_standard.

Theorem sha512_update_app :
  forall c msg a b, sha512_reached c msg -> 8 * (zlen msg + zlen a + zlen b) < 2 ^ 64 ->
    exists c2 c12,
      sha512_feed (sha512_feed (HOk c) a) b = HOk c2 /\ sha512_feed (HOk c) (a ++ b) = HOk c12 /\
      tom_equiv c2 c12 /\ sha512_done c2 = sha512_done c12 /\
      sha512_done c12 = HOk (sha512_spec (msg ++ a ++ b)).
Proof. exact sha512_update_app_lemma. Qed.
Print Assumptions sha512_update_app.
Example sha512_update_app_hyp : sha512_reached sha512_init [] /\ 8 * (zlen (@nil Z) + zlen [1] + zlen [2]) < 2 ^ 64.
Proof. split; [exists []; split; reflexivity|reflexivity]. Qed.

(* ----------------------------------------- SHA-1 ----------------------------------------- *)
(* no length hypothesis: count[0]/count[1] wrap modulo 2^64 (carry included) exactly as the
   length field of the padding does *)
Theorem sha1_any_split :
  forall chunks, sha1_run chunks = HOk (sha1_spec (concat chunks)).
Proof. exact sha1_any_split_lemma. Qed.
Print Assumptions sha1_any_split.

Theorem sha1_oneshot_is_standard :
  forall data, sha1_oneshot data = HOk (sha1_spec data).
Proof. exact sha1_oneshot_lemma. Qed.
Print Assumptions sha1_oneshot_is_standard.

Theorem sha1_update_app :
  forall c msg a b, sha1_reached c msg ->
    exists c2 c12,
      sha1_feed (sha1_feed (HOk c) a) b = HOk c2 /\ sha1_feed (HOk c) (a ++ b) = HOk c12 /\
      sha1_equiv c2 c12 /\ sha1_final c2 = sha1_final c12 /\
      sha1_final c12 = HOk (sha1_spec (msg ++ a ++ b)).
Proof. exact sha1_update_app_lemma. Qed.
Print Assumptions sha1_update_app.
Example sha1_update_app_hyp : sha1_reached sha1_init [].
Proof. exists []. split; reflexivity. Qed.

(* ------------------------------------------ MD5 ------------------------------------------ *)
Theorem md5_any_split :
  forall chunks, md5_run chunks = HOk (md5_spec (concat chunks)).
Proof. exact md5_any_split_lemma. Qed.
Print Assumptions md5_any_split.

Theorem md5_oneshot_is_standard :
  forall data, md5_oneshot data = HOk (md5_spec data).
Proof. exact md5_oneshot_lemma. Qed.
Print Assumptions md5_oneshot_is_standard.

Theorem md5_update_app :
  forall c msg a b, md5_reached c msg ->
    exists c2 c12,
      md5_feed (md5_feed (HOk c) a) b = HOk c2 /\ md5_feed (HOk c) (a ++ b) = HOk c12 /\
      md5_equiv c2 c12 /\ md5_final c2 = md5_final c12 /\
      md5_final c12 = HOk (md5_spec (msg ++ a ++ b)).
Proof. exact md5_update_app_lemma. Qed.
Print Assumptions md5_update_app.
Example md5_update_app_hyp : md5_reached md5_init [].
Proof. exists []. split; reflexivity. Qed.

(* ------------------------------------------ HMAC ----------------------------------------- *)
(* crypto_HMAC over the library's hash_alg tables is RFC 2104 HMAC of the standard digest, for
   every key length (longer than a block: hashed first) and every text *)
Theorem hmac_sha1_rfc2104 :
  forall key text, hmac_sha1 key text = HOk (hmac_spec sha1_spec 64 key text).
Proof. exact hmac_sha1_lemma. Qed.
Print Assumptions hmac_sha1_rfc2104.

Theorem hmac_sha256_rfc2104 :
  forall key text, 8 * (zlen key + zlen text + 256) < 2 ^ 64 ->
    hmac_sha256 key text = HOk (hmac_spec sha256_spec 64 key text).
Proof. exact hmac_sha256_lemma. Qed.
Print Assumptions hmac_sha256_rfc2104.

Theorem hmac_sha512_rfc2104 :
  forall key text, 8 * (zlen key + zlen text + 256) < 2 ^ 64 ->
    hmac_sha512 key text = HOk (hmac_spec sha512_spec 128 key text).
Proof. exact hmac_sha512_lemma. Qed.
Print Assumptions hmac_sha512_rfc2104.
Example hmac_hyp : 8 * (zlen (repeat 7 200) + zlen [1; 2; 3] + 256) < 2 ^ 64.
Proof. reflexivity. Qed.

(* ------------------------------------ public SHA-1 API ----------------------------------- *)
(* xmpp_sha1_new / update ... / final / to_string(buffer of slen bytes): NULL when the buffer is
   shorter than 41 bytes, otherwise the 40 lower-case hex characters of the standard digest *)
Theorem sha1_api_hex :
  forall chunks slen,
    xmpp_sha1_run chunks slen =
      HOk (if slen <? 41 then None else Some (hex_of_bytes false (sha1_spec (concat chunks)))).
Proof. exact sha1_api_hex_lemma. Qed.
Print Assumptions sha1_api_hex.

Theorem sha1_api_oneshot :
  forall data,
    xmpp_sha1 data = HOk (Some (hex_of_bytes false (sha1_spec data))) /\
    xmpp_sha1_digest data = HOk (sha1_spec data).
Proof. exact xmpp_sha1_lemma. Qed.
Print Assumptions sha1_api_oneshot.

(* the specification's own SHA-2 tables are the roots of the first primes (FIPS 180-4 4.2.2/4.2.3/5.3.3/5.3.5) *)
Theorem spec_sha2_tables_are_fips :
  forallb is_prime_b first_primes = true /\
  sha256_Kspec = map (frac_root 3 32) (firstn 64 first_primes) /\
  sha256_H0 = map (frac_root 2 32) (firstn 8 first_primes) /\
  sha512_Kspec = map (frac_root 3 64) first_primes /\
  sha512_H0 = map (frac_root 2 64) (firstn 8 first_primes).
Proof. exact spec_sha2_tables_from_primes. Qed.
Print Assumptions spec_sha2_tables_are_fips.
