(* C17 - built-in digests equal the standards for every message and every split. *)
Require Import LV.Common.Bytes LV.Gen.Gen_hash LV.Spec.HashSpec LV.Model.HashModel LV.Model.HmacModel LV.Proofs.HashProofs.
Local Open Scope Z_scope.

Theorem hash_constants_are_standard :
  gen_sha1_ok /\ gen_sha256_ok /\ gen_sha512_ok /\ gen_md5_ok /\ gen_hmac_ok.
Proof. exact Gen_hash_ok. Qed.
Print Assumptions hash_constants_are_standard.
