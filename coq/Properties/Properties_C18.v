(* C18 - Base64 codec is exact and strict.  Statements only; proofs are in Proofs/Base64Proofs.v. *)
Require Import LV.Common.Bytes LV.Gen.Gen_base64 LV.Model.Base64Model LV.Spec.Base64Spec LV.Proofs.Base64Proofs.
Local Open Scope Z_scope.

(* the tables found in src/crypto.c (regenerated on every run) are the RFC 4648 ones *)
Theorem b64_tables_are_rfc4648 :
  b64_chr = spec_alphabet ++ [spec_pad] /\ b64_inv = spec_inv.
Proof. exact Gen_b64_ok. Qed.
Print Assumptions b64_tables_are_rfc4648.

Theorem b64_encode_canonical :
  forall bs, bytes bs -> encode bs = spec_encode bs.
Proof. exact encode_canonical. Qed.
Print Assumptions b64_encode_canonical.

Theorem b64_roundtrip :
  forall bs, bytes bs -> bs <> [] ->
    decode_bin (encode bs) = DOk (map Some bs ++ [Some 0]) (zlen bs).
Proof. exact roundtrip. Qed.
Print Assumptions b64_roundtrip.

(* accepted exactly on the correctly padded strings, with the RFC value and its length;
   everything else (including the empty string) is refused *)
Theorem b64_decode_exact :
  forall s, bytes s ->
    (valid_b64 s = true ->
       exists buf, decode_bin s = DOk buf (zlen (spec_decode s)) /\
                   decode_bin_value s = Some (spec_decode s)) /\
    (valid_b64 s = false -> decode_bin s = DReject).
Proof. exact decode_exact. Qed.
Print Assumptions b64_decode_exact.

(* never hands out uninitialised or over-long data: n+1 cells, all written, NUL after the value *)
Theorem b64_decode_initialised :
  forall s buf n, bytes s -> decode s = DOk buf n ->
    zlen buf = n + 1 /\ Forall is_Some buf /\ nth (Z.to_nat n) buf None = Some 0.
Proof. exact decode_initialised. Qed.
Print Assumptions b64_decode_initialised.

Theorem b64_decode_no_oob :
  forall s, bytes s -> decode s <> DOOB.
Proof. exact decode_no_oob. Qed.
Print Assumptions b64_decode_no_oob.

(* the string-returning variant: empty in, empty out; otherwise the value iff it is NUL-free *)
Theorem b64_str_exact :
  forall s, bytes s ->
    decode_str s =
      if zlen s =? 0 then SOk []
      else if valid_b64 s && negb (existsb (Z.eqb 0) (spec_decode s)) then SOk (spec_decode s)
      else SNull.
Proof. exact str_exact. Qed.
Print Assumptions b64_str_exact.
