Require Import LV.Common.Bytes LV.Model.Base64Model.
Local Open Scope Z_scope.
Theorem placeholder : True. Proof. exact I. Qed.
Print Assumptions placeholder.
