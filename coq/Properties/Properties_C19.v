(* C19 - JID helpers partition and rebuild addresses consistently.
   Statements only; proofs are in Proofs/JidProofs.v.
   j ranges over all NUL-free strings (C strings), n/d/r over all part triples (None = NULL);
   there is no bound on lengths.  SLASH = 47, AT = 64 (Spec/JidSpec.v). *)
Require Import LV.Common.Bytes LV.Gen.Gen_jid LV.Model.JidModel LV.Spec.JidSpec LV.Proofs.JidProofs.
Local Open Scope Z_scope.

(* the limits, the forbidden local-part characters and the separators found in src/jid.c
   (regenerated on every run) are those of RFC 7622 *)
Theorem jid_consts_are_rfc7622 :
  jid_dlen_max = 1023 /\ jid_nlen_max = 1023 + 1 /\ jid_rlen_max = 1023 + 1 /\
  jid_forbidden = [34; 38; 39; 47; 58; 60; 62; 64] /\
  jid_new_at = 64 /\ jid_new_slash = 47 /\ jid_bare_stop = [47] /\
  jid_node_cut = 47 /\ jid_node_sep = 64 /\ jid_domain_cut = 47 /\ jid_domain_sep = 64 /\
  jid_resource_sep = 47.
Proof. exact Gen_jid_ok. Qed.
Print Assumptions jid_consts_are_rfc7622.

(* joining the returned node / domain / resource reproduces the string *)
Theorem jid_parts_rebuild :
  forall j, nul_free j ->
    exists n d r,
      jid_node j = ostr n /\ jid_domain j = JStr d /\ jid_resource j = ostr r /\
      (match n with Some n => n ++ [64] | None => [] end) ++ d ++
      (match r with Some r => 47 :: r | None => [] end) = j.
Proof. exact parts_rebuild. Qed.
Print Assumptions jid_parts_rebuild.

(* the bare JID is the string without its resource *)
Theorem jid_bare_is_prefix :
  forall j, nul_free j ->
    exists b,
      jid_bare j = JStr b /\
      ((jid_resource j = JNull /\ b = j) \/
       (exists r, jid_resource j = JStr r /\ b ++ 47 :: r = j)).
Proof. exact bare_is_prefix. Qed.
Print Assumptions jid_bare_is_prefix.

(* the resource is everything after the first '/'; without a '/' there is none *)
Theorem jid_resource_after_first_slash :
  forall j, nul_free j ->
    (forall p r, j = p ++ 47 :: r -> ~ In 47 p -> jid_resource j = JStr r) /\
    (~ In 47 j -> jid_resource j = JNull).
Proof. exact resource_after_first_slash. Qed.
Print Assumptions jid_resource_after_first_slash.

(* with b the part before the first '/': the node is everything before the first '@' of b and
   the domain what follows it; without an '@' there is no node and b is the domain *)
Theorem jid_node_before_first_at :
  forall j b, nul_free j ->
    ((~ In 47 j /\ b = j) \/ (exists r, j = b ++ 47 :: r /\ ~ In 47 b)) ->
    jid_bare j = JStr b /\
    (forall n d, b = n ++ 64 :: d -> ~ In 64 n -> jid_node j = JStr n /\ jid_domain j = JStr d) /\
    (~ In 64 b -> jid_node j = JNull /\ jid_domain j = JStr b).
Proof. exact node_before_first_at. Qed.
Print Assumptions jid_node_before_first_at.

(* the helpers are the RFC 7622 section 3.2 split *)
Theorem jid_split_is_rfc7622 :
  forall j, nul_free j ->
    jid_bare j = JStr (spec_bare j) /\ jid_node j = ostr (spec_node j) /\
    jid_domain j = JStr (spec_domain j) /\ jid_resource j = ostr (spec_resource j).
Proof. exact split_is_rfc7622. Qed.
Print Assumptions jid_split_is_rfc7622.

(* building from a local part free of the forbidden characters, a domain free of '/' and '@'
   and any resource, all within 1023 bytes, succeeds, and splitting returns exactly the parts *)
Theorem jid_new_split :
  forall n d r,
    nul_free_opt n -> nul_free d -> nul_free_opt r ->
    chars_free [34; 38; 39; 47; 58; 60; 62; 64] n ->
    ~ In 47 d -> ~ In 64 d ->
    opt_len_le n 1023 -> zlen d <= 1023 -> opt_len_le r 1023 ->
    exists j,
      jid_new n (Some d) r = JStr j /\ j = spec_join n d r /\
      jid_node j = ostr n /\ jid_domain j = JStr d /\ jid_resource j = ostr r /\
      jid_bare j = JStr (spec_join n d None).
Proof. exact new_split. Qed.
Print Assumptions jid_new_split.

(* a missing domain, a forbidden character in the local part or a part over 1023 bytes is refused *)
Theorem jid_new_refuses :
  forall n d r,
    nul_free_opt n -> nul_free_opt d -> nul_free_opt r ->
    d = None \/
    (exists l c, n = Some l /\ In c l /\ In c [34; 38; 39; 47; 58; 60; 62; 64]) \/
    opt_len_gt n 1023 \/ opt_len_gt d 1023 \/ opt_len_gt r 1023 ->
    jid_new n d r = JNull.
Proof. exact new_refuses. Qed.
Print Assumptions jid_new_refuses.

(* complete description of xmpp_jid_new: it refuses exactly in those cases and otherwise
   returns the concatenation (also for an empty part or a domain containing '/' or '@') *)
Theorem jid_new_decides :
  forall n d r,
    nul_free_opt n -> nul_free_opt d -> nul_free_opt r ->
    jid_new n d r =
    match d with
    | Some dd => if spec_new_ok n d r then JStr (spec_join n dd r) else JNull
    | None => JNull
    end.
Proof. exact new_decides. Qed.
Print Assumptions jid_new_decides.

(* no function leaves a block it was given or allocated, or reads a cell it did not write *)
Theorem jid_no_oob :
  (forall j, nul_free j ->
     jid_bare j <> JOOB /\ jid_node j <> JOOB /\ jid_domain j <> JOOB /\ jid_resource j <> JOOB) /\
  (forall n d r, nul_free_opt n -> nul_free_opt d -> nul_free_opt r -> jid_new n d r <> JOOB).
Proof. exact (conj no_oob new_no_oob). Qed.
Print Assumptions jid_no_oob.
