(* C20 - Stream compression is transparent.  Statements only; proofs are in Proofs/CompressionProofs.v and
   Proofs/CompressionNegProofs.v.

   LEVEL: partial.  zlib is not verified: deflate()/inflate() are arbitrary step functions and the theorems
   hold for every codec that satisfies Spec/CompressionSpec.zcontract (output decodes to a prefix of the input
   consumed; a flush call that returns with room left is complete; inflate emits all it can, and everything
   once it has consumed a flush marker).  The contract is tested against the real zlib by the correspondence
   run, not proved; `zcontract_satisfiable` shows that it is consistent (the stored codec satisfies it).
   All conclusions are about runs of the model that end without a model fault (w_fault = NoFault: no write
   outside a buffer, loop fuel not exhausted). *)
From Coq Require Import List ZArith Bool.
Import ListNotations.
Require Import LV.Gen.Gen_compression LV.Model.NegState LV.Model.NegModel.
Require Import LV.Model.CompressionModel LV.Spec.CompressionSpec LV.Proofs.CompressionProofs LV.Proofs.CompressionNegProofs.
Local Open Scope Z_scope.
Local Open Scope bool_scope.

(* the constants and the statements of src/compression.c, src/event.c, src/auth.c that the model mirrors
   (regenerated from the source on every run) *)
Theorem compression_source_facts :
  COMPRESSION_BUFFER_SIZE = 4096 /\ MESSAGE_BUFFER_SIZE = 4096 /\
  flush_of_code flush_code_write = NoFlush /\
  flush_of_code flush_code_reset = FullFlush /\
  flush_of_code flush_code_dont_reset = SyncFlush /\
  flush_code_inflate = 2 /\
  forallb (fun b => b) src_facts = true.
Proof. exact Gen_compression_ok. Qed.
Print Assumptions compression_source_facts.

(* Outbound.  For every codec satisfying the contract, every user program (stanza sequence) and every write
   schedule: what the transport has accepted inflates to a prefix of the plain stream at every moment; and an
   iteration in which the transport refuses nothing ends with everything submitted so far delivered: the server's
   inflated stream is exactly the plain stream, the queue and the staging buffer are empty, and the wire ends at
   a completed flush.  (w_sub = what xmpp_send_raw accepted; while the connection is up that is everything the
   program submitted.) *)
Theorem compress_transparent_out :
  forall (zst ist : Type) deflate_step inflate_step (z0 : zst) (i0 : ist) dec fp wf (bufsz msgsz loopfuel : nat),
    zcontract zst ist deflate_step inflate_step z0 i0 dec fp wf -> (0 < bufsz)%nat -> (0 < msgsz)%nat ->
    forall (ops : list op) (dont_reset : bool) (errno0 : Z),
      let w := run deflate_step inflate_step bufsz msgsz loopfuel (init_world z0 i0 dont_reset errno0) ops in
      let w' := run_once deflate_step inflate_step bufsz msgsz loopfuel w in
      (w_fault w = NoFault ->
         prefix (dec (w_wire w)) (w_sub w) /\ (w_disc w = false -> w_sub w = enq_stream ops)) /\
      (w_fault w' = NoFault -> w_disc w = false -> w_tx w = [] ->
         dec (w_wire w') = enq_stream ops /\ w_q w' = [] /\ w_out w' = [] /\ fp (w_wire w')).
Proof. exact compress_transparent_out_lemma. Qed.
Print Assumptions compress_transparent_out.

(* Inbound.  For every fragmentation (the chunks pushed by ORx, read at most bufsz bytes at a time) of a
   well-formed compressed stream: the bytes handed to the parser are a prefix of its decoding at every moment,
   in order, nothing lost or duplicated; and once the stream ends at a flush point, within
   |undecoded| + |decoding| further iterations the parser has received exactly the decoding, and the connection
   is still up. *)
Theorem compress_transparent_in :
  forall (zst ist : Type) deflate_step inflate_step (z0 : zst) (i0 : ist) dec fp wf (bufsz msgsz loopfuel : nat),
    zcontract zst ist deflate_step inflate_step z0 i0 dec fp wf -> (0 < bufsz)%nat -> (0 < msgsz)%nat ->
    forall (ops : list op) (dont_reset : bool) (errno0 : Z),
      let w := run deflate_step inflate_step bufsz msgsz loopfuel (init_world z0 i0 dont_reset errno0) ops in
      let zs := peer_stream ops in
      wf zs ->
      (w_fault w = NoFault -> prefix (w_fed w) (dec zs)) /\
      (forall n : nat,
         let w' := run deflate_step inflate_step bufsz msgsz loopfuel w (repeat ORun n) in
         fp zs -> only_data (w_rx w) -> w_disc w = false -> w_error w = 0 -> w_tx w = [] ->
         (length (undecoded (w_in w) (w_rx w)) + length (dec zs) <= n)%nat ->
         w_fault w' = NoFault -> w_fed w' = dec zs /\ w_disc w' = false).
Proof. exact compress_transparent_in_lemma. Qed.
Print Assumptions compress_transparent_in.

(* the contract is consistent: the stored codec (identity + flush marker) satisfies it ... *)
Theorem zcontract_satisfiable :
  exists zst ist ds is_ (z0 : zst) (i0 : ist) dec fp wf, zcontract zst ist ds is_ z0 i0 dec fp wf.
Proof. exact contract_satisfiable. Qed.
Print Assumptions zcontract_satisfiable.

(* ... so for the extracted stored-codec model (the one the correspondence check runs) the statements hold
   without any hypothesis *)
Theorem stored_model_is_transparent : forall ops dont_reset errno0,
  let w := stored_run (stored_init dont_reset errno0) ops in
  let w' := stored_run w [ORun] in
  (w_fault w = NoFault -> prefix (stored_dec (w_wire w)) (w_sub w) /\ prefix (w_fed w) (stored_dec (peer_stream ops))) /\
  (w_fault w' = NoFault -> w_disc w = false -> w_tx w = [] -> stored_dec (w_wire w') = enq_stream ops).
Proof. exact stored_model_transparent. Qed.
Print Assumptions stored_model_is_transparent.

(* Compression starts only after the server confirmed it, followed by a stream restart (over the connection
   automaton NegModel; tied to src/auth.c by the facts auth_installs_on_compressed / auth_requests_when_offered
   above and by the negotiation scenarios of the check). *)
Theorem compression_only_after_confirmation_then_restart :
  (forall n e s, comp_active (fst (dispatch n e s)) = comp_active s \/
     (e_name e = NmCompressed /\ e_ns e = NsCompress /\ f_comp_allowed s = true /\
      reset_parser (fst (dispatch n e s)) = true)) /\
  (forall k n e s, k <> HCompressResult -> comp_active (fst (fst (call_handler k n e s))) = comp_active s) /\
  (forall n e s,
     (e_name e <> NmCompressed -> fst (fst (call_handler HCompressResult n e s)) = s) /\
     (e_name e = NmCompressed ->
        exists s2, fst (fst (call_handler HCompressResult n e s)) = conn_open_stream s2 /\
                   reset_parser s2 = true /\ oh s2 = OpenSasl /\ sendq s2 = sendq s /\
                   comp_active s2 = (if f_comp_allowed s && comp_supported s then true else comp_active s))) /\
  (forall n e s,
     (comp_supported s = true \/ (f_comp_allowed s = true /\ e_zlib e = true) ->
        exists s1, fst (fst (call_handler HFeaturesCompress n e s)) = h_add HCompressResult (send_raw_m WCompress false false s1) /\
                   sendq s1 = sendq s /\ st s1 = st s) /\
     (comp_supported s = false -> (f_comp_allowed s = false \/ e_zlib e = false) ->
        exists s1, fst (fst (call_handler HFeaturesCompress n e s)) = fst (features_sasl n e s1) /\ handlers s1 = handlers s)) /\
  (forall k n e s, comp_active (fst (call_id_handler k n e s)) = comp_active s) /\
  (forall n s, comp_active (fst (open_handler n s)) = comp_active s) /\
  (forall n a b s, comp_active (fst (stream_start n a b s)) = comp_active s) /\
  (forall s, comp_active (fst (stream_end s)) = comp_active s) /\
  (forall n s, comp_active (fst (fire_timed n s)) = comp_active s) /\
  (forall n s, comp_active (fst (conn_established n s)) = comp_active s) /\
  (forall n s, comp_active (fst (fst (connect_next n s))) = comp_active s) /\
  (forall s, comp_active (fst (NegModel.conn_disconnect s)) = comp_active s).
Proof. exact compression_switch. Qed.
Print Assumptions compression_only_after_confirmation_then_restart.

(* ... and the handler that acts on <compressed/> is registered only by _handle_features_compress (together with
   the <compress/> request, see the fourth clause above): no other stanza handler, id handler, open handler,
   stream start/end or timed handler adds it. *)
Theorem compress_answer_handler_registered_only_with_request :
  (forall k n e s, k <> HFeaturesCompress ->
     h_has HCompressResult (fst (fst (call_handler k n e s))) = true -> h_has HCompressResult s = true) /\
  (forall k n e s, h_has HCompressResult (fst (call_id_handler k n e s)) = true -> h_has HCompressResult s = true) /\
  (forall n s, h_has HCompressResult (fst (open_handler n s)) = true -> h_has HCompressResult s = true) /\
  (forall n a b s, h_has HCompressResult (fst (stream_start n a b s)) = true -> h_has HCompressResult s = true) /\
  (forall s, h_has HCompressResult (fst (stream_end s)) = true -> h_has HCompressResult s = true) /\
  (forall n s, h_has HCompressResult (fst (fire_timed n s)) = true -> h_has HCompressResult s = true).
Proof. exact compress_result_registration. Qed.
Print Assumptions compress_answer_handler_registered_only_with_request.
