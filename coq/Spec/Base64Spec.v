(* RFC 4648 section 4, written independently of the implementation: over bit strings. *)
Require Import LV.Common.Bytes.
Local Open Scope Z_scope.

(* 'A'..'Z', 'a'..'z', '0'..'9', '+', '/' *)
Definition spec_alphabet : list Z :=
  map Z.of_nat (seq 65 26) ++ map Z.of_nat (seq 97 26) ++ map Z.of_nat (seq 48 10) ++ [43; 47].
Definition spec_pad : Z := 61. (* '=' *)

(* most significant bit first *)
Definition bits8 (b : Z) : list Z :=
  [b / 128 mod 2; b / 64 mod 2; b / 32 mod 2; b / 16 mod 2; b / 8 mod 2; b / 4 mod 2; b / 2 mod 2; b mod 2].
Definition bits6 (b : Z) : list Z :=
  [b / 32 mod 2; b / 16 mod 2; b / 8 mod 2; b / 4 mod 2; b / 2 mod 2; b mod 2].
Definition bval (bits : list Z) : Z := fold_left (fun a b => 2 * a + b) bits 0.

(* cut a bit string into groups of k, zero-filling the last group (fuel = length) *)
Fixpoint chunks (fuel : nat) (k : nat) (l : list Z) : list (list Z) :=
  match fuel with
  | O => []
  | S f => match l with
           | [] => []
           | _ => let g := firstn k l in
                  (g ++ repeat 0 (k - length g)%nat) :: chunks f k (skipn k l)
           end
  end.

Definition sym (v : Z) : Z := nth (Z.to_nat v) spec_alphabet (-1).

Definition spec_encode (bs : list Z) : list Z :=
  let bits := flat_map bits8 bs in
  let sext := chunks (length bits) 6 bits in
  let body := map (fun g => sym (bval g)) sext in
  body ++ repeat spec_pad ((4 - length body mod 4) mod 4)%nat.

(* index of a character in the alphabet *)
Fixpoint index_of (c : Z) (l : list Z) (i : Z) : option Z :=
  match l with
  | [] => None
  | x :: r => if x =? c then Some i else index_of c r (i + 1)
  end.
Definition sextet_of (c : Z) : option Z := index_of c spec_alphabet 0.
Definition is_alpha (c : Z) : bool := match sextet_of c with Some _ => true | None => false end.

(* "correctly padded base64 string": positive multiple of 4 characters, alphabet characters
   followed by zero, one or two '=' at the very end (so that the data part is 0, 3 or 2 mod 4). *)
Definition strip_pad (s : list Z) : list Z * nat :=
  match rev s with
  | p1 :: p2 :: r => if p1 =? spec_pad then
                       if p2 =? spec_pad then (rev r, 2%nat) else (rev (p2 :: r), 1%nat)
                     else (s, 0%nat)
  | _ => (s, 0%nat)
  end.

Definition valid_b64 (s : list Z) : bool :=
  let '(body, npad) := strip_pad s in
  negb (Nat.eqb (length s) 0) && Nat.eqb (length s mod 4) 0 && forallb is_alpha body.

(* the value: all complete octets of the concatenated sextets *)
Fixpoint take_octets (fuel : nat) (l : list Z) : list Z :=
  match fuel with
  | O => []
  | S f => if Nat.leb 8 (length l) then bval (firstn 8 l) :: take_octets f (skipn 8 l) else []
  end.

Definition spec_decode (s : list Z) : list Z :=
  let '(body, _) := strip_pad s in
  let bits := flat_map (fun c => match sextet_of c with Some v => bits6 v | None => [] end) body in
  take_octets (length bits) bits.

(* the inverse table the decoder needs: sextet value, 64 for '=', 65 for anything else *)
Definition spec_inv : list Z :=
  map (fun c => match sextet_of c with Some v => v | None => if c =? spec_pad then 64 else 65 end)
      (map Z.of_nat (seq 0 256)).
