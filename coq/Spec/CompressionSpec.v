(* CompressionSpec (property C20): what "transparent" means, and the contract zlib is assumed to satisfy.
   Definitions only. *)
From Coq Require Import List ZArith Bool.
Import ListNotations.
Require Import LV.Model.CompressionModel.
Local Open Scope Z_scope.

Definition prefix {A : Type} (a b : list A) : Prop := exists c, b = a ++ c.

(* ------------------------------------------------------------------------------------------------
   The codec contract.  deflate()/inflate() are seen one call at a time:
       deflate_step z input avail_out flush = (z', consumed, produced, status)
       inflate_step i input avail_out       = (i', consumed, produced, status)      (always Z_SYNC_FLUSH)
   `dec` is the reference decoder: the plain text determined by a prefix of a compressed stream (what an
   inflater with unlimited room emits for it); `fp c` says that the compressed prefix c ends with a
   completed flush; `wf c` that c is a prefix of a stream a deflater can have produced.
   ------------------------------------------------------------------------------------------------ *)
Section Contract.
  Variables zst ist : Type.
  Variable deflate_step : zst -> list Z -> nat -> flush_mode -> zst * nat * list Z * zstatus.
  Variable inflate_step : ist -> list Z -> nat -> ist * nat * list Z * zstatus.
  Variable z0 : zst.
  Variable i0 : ist.
  Variable dec : list Z -> list Z.
  Variable fp : list Z -> Prop.
  Variable wf : list Z -> Prop.

  (* the states a deflater reaches, with everything it has consumed and produced so far *)
  Inductive DR : zst -> list Z -> list Z -> Prop :=
  | DR_init : DR z0 [] []
  | DR_step : forall z cin cout inp room fl z' k outp st,
      DR z cin cout -> (0 < room)%nat -> deflate_step z inp room fl = (z', k, outp, st) ->
      DR z' (cin ++ firstn k inp) (cout ++ outp).

  (* the states an inflater reaches, with everything it has consumed and produced so far *)
  Inductive IR : ist -> list Z -> list Z -> Prop :=
  | IR_init : IR i0 [] []
  | IR_step : forall i zin pout inp room i' k outp st,
      IR i zin pout -> (0 < room)%nat -> inflate_step i inp room = (i', k, outp, st) ->
      IR i' (zin ++ firstn k inp) (pout ++ outp).

  Record zcontract : Prop := mkZC {
    (* a call consumes at most what it is given and produces at most what there is room for *)
    zc_d_bounds : forall z cin cout inp room fl z' k outp st,
      DR z cin cout -> (0 < room)%nat -> deflate_step z inp room fl = (z', k, outp, st) ->
      (k <= length inp)%nat /\ (length outp <= room)%nat;
    zc_i_bounds : forall i zin pout inp room i' k outp st,
      IR i zin pout -> (0 < room)%nat -> inflate_step i inp room = (i', k, outp, st) ->
      (k <= length inp)%nat /\ (length outp <= room)%nat;
    (* decoding is monotone in the compressed prefix *)
    zc_dec_mono : forall a b, prefix (dec a) (dec (a ++ b));
    (* the concatenation of everything produced inflates to (a prefix of) the concatenation of everything
       consumed ... *)
    zc_d_sound : forall z cin cout, DR z cin cout -> prefix (dec cout) cin;
    (* ... and to all of it at a completed flush: a flush call that returns with room left has consumed its
       input and emitted everything *)
    zc_d_flush : forall z cin cout inp room fl z' k outp,
      DR z cin cout -> (0 < room)%nat -> is_flush fl = true ->
      deflate_step z inp room fl = (z', k, outp, ZOk) -> (length outp < room)%nat ->
      k = length inp /\ dec (cout ++ outp) = cin ++ inp /\ fp (cout ++ outp);
    (* a flush call that reports that there is nothing to do is right about it *)
    zc_d_idle : forall z cin cout room fl z' k outp,
      DR z cin cout -> (0 < room)%nat -> is_flush fl = true ->
      deflate_step z [] room fl = (z', k, outp, ZBufError) ->
      k = O /\ outp = [] /\ dec cout = cin /\ fp cout;
    (* with room and something to do, deflate succeeds *)
    zc_d_status : forall z cin cout inp room fl z' k outp st,
      DR z cin cout -> (0 < room)%nat -> deflate_step z inp room fl = (z', k, outp, st) ->
      (is_flush fl = false -> inp <> [] -> st = ZOk) /\
      (is_flush fl = true -> inp = [] -> st = ZOk \/ st = ZBufError);
    (* inflate never emits anything but the reference decoding of what it consumed *)
    zc_i_sound : forall i zin pout, IR i zin pout -> prefix pout (dec zin);
    (* on a well-formed stream, with input and room, inflate succeeds, makes progress, stops early only for
       lack of room, and with room left it has consumed everything and emitted everything decodable *)
    zc_i_ok : forall i zin pout inp room i' k outp st,
      IR i zin pout -> (0 < room)%nat -> inp <> [] -> wf (zin ++ inp) ->
      inflate_step i inp room = (i', k, outp, st) ->
      st = ZOk /\ (0 < k \/ outp <> [])%nat /\ (k = length inp \/ length outp = room) /\
      ((length outp < room)%nat -> pout ++ outp = dec (zin ++ inp));
    (* when inflate stopped before the end of its input (the output buffer was full), the next call emits *)
    zc_i_resume : forall i zin pout inp room i' k outp,
      IR i zin pout -> (0 < room)%nat -> wf (zin ++ inp) ->
      inflate_step i inp room = (i', k, outp, ZOk) -> (k < length inp)%nat ->
      forall room' i'' k' outp' st', (0 < room')%nat ->
        inflate_step i' (skipn k inp) room' = (i'', k', outp', st') -> outp' <> [];
    (* inflate has emitted everything by the time it has consumed a flush marker *)
    zc_i_flushpoint : forall i zin pout, IR i zin pout -> fp zin -> pout = dec zin;
    zc_wf_prefix : forall a b, wf (a ++ b) -> wf a
  }.
End Contract.

(* ------------------------------------------------------------------------------------------------
   Observables of a model run
   ------------------------------------------------------------------------------------------------ *)
(* the compressed bytes the peer has put on the wire so far, in order *)
Fixpoint rx_stream (ops_rx : list rxo) : list Z :=
  match ops_rx with
  | [] => []
  | RData bs :: t => bs ++ rx_stream t
  | _ :: t => rx_stream t
  end.

Definition only_data (l : list rxo) : Prop := Forall (fun r => match r with RData bs => bs <> [] | _ => False end) l.

(* the compressed bytes that have arrived but are not decoded yet *)
Definition undecoded (pending : option (list Z)) (rx : list rxo) : list Z :=
  match pending with Some r => r | None => [] end ++ rx_stream rx.

(* a user/peer program (list of CompressionModel.op): what the peer has sent and what the user has submitted *)
Definition rdata (r : rxo) : list Z := match r with RData bs => bs | _ => [] end.
Definition ops_zs (ops : list op) (zs : list Z) : list Z :=
  fold_left (fun z o => match o with ORx r => z ++ rdata r | _ => z end) ops zs.
Definition peer_stream (ops : list op) : list Z := ops_zs ops [].
Definition enq_stream (ops : list op) : list Z :=
  concat (map (fun o => match o with OEnq bs => bs | _ => [] end) ops).

(* the "stored" codec's reference decoder is CompressionModel.stored_dec; its flush points: *)
Definition stored_fp (c : list Z) : Prop := c = [] \/ exists c', c = c' ++ [FLUSH_MARK].
Definition stored_wf (c : list Z) : Prop := True.
