(* RFC 1035 section 4 (message format, name compression) and RFC 2782 (SRV RDATA), written as an
   independent reference: relations over the message octets.  Definitions only. *)
Require Import LV.Common.Bytes.
Local Open Scope Z_scope.

(* 4.1.1 header: 12 octets; QR is the top bit of octet 2, RCODE the low 4 bits of octet 3,
   QDCOUNT at 4, ANCOUNT at 6 *)
Definition HEADER_LEN : Z := 12.
Definition HDR_FLAGS_HI_OFF : Z := 2.
Definition HDR_FLAGS_LO_OFF : Z := 3.
Definition HDR_QDCOUNT_OFF : Z := 4.
Definition HDR_ANCOUNT_OFF : Z := 6.
Definition QR_RESPONSE : Z := 1.
(* 4.1.2 question: QNAME, QTYPE(2), QCLASS(2) *)
Definition QUESTION_FIXED : Z := 4.
(* 4.1.3 resource record: NAME, TYPE(2) CLASS(2) TTL(4) RDLENGTH(2) RDATA *)
Definition RR_TYPE_OFF : Z := 0.
Definition RR_CLASS_OFF : Z := 2.
Definition RR_TTL_OFF : Z := 4.
Definition RR_RDLENGTH_OFF : Z := 8.
Definition RR_FIXED : Z := 10.
Definition CLASS_IN : Z := 1.
(* RFC 2782: TYPE 33; RDATA = Priority(2) Weight(2) Port(2) Target *)
Definition TYPE_SRV : Z := 33.
Definition SRV_PRIORITY_OFF : Z := 0.
Definition SRV_WEIGHT_OFF : Z := 2.
Definition SRV_PORT_OFF : Z := 4.
Definition SRV_TARGET_OFF : Z := 6.
(* 2.3.4 size limits; 4.1.4 label types *)
Definition MAX_LABEL : Z := 63.
Definition MAX_NAME_WIRE : Z := 255.
Definition POINTER_TAG : Z := 192.

Definition octet (buf : list Z) (i : Z) : option Z :=
  if i <? 0 then None else nth_error buf (Z.to_nat i).

Definition be16 (buf : list Z) (i : Z) : option Z :=
  match octet buf i, octet buf (i + 1) with
  | Some a, Some b => Some (a * 256 + b)
  | _, _ => None
  end.

Definition slice (buf : list Z) (i n : Z) : option (list Z) :=
  if (0 <=? i) && (0 <=? n) && (i + n <=? zlen buf)
  then Some (firstn (Z.to_nat n) (skipn (Z.to_nat i) buf)) else None.

(* name_run buf lim off labels e: reading at offset `off`, inside a label sequence that started at
   offset `lim`, the remaining labels of the name are `labels`, and the name as it is stored here
   ends at offset `e` (just after the root octet or after the first pointer).
   4.1.4: a pointer refers to a PRIOR occurrence: its target lies strictly before the start of the
   label sequence being expanded; the expansion continues there as a fresh sequence. *)
Inductive name_run (buf : list Z) : Z -> Z -> list (list Z) -> Z -> Prop :=
| NR_root : forall lim off,
    octet buf off = Some 0 ->
    name_run buf lim off [] (off + 1)
| NR_label : forall lim off n lab rest e,
    octet buf off = Some n -> 1 <= n <= MAX_LABEL ->
    slice buf (off + 1) n = Some lab ->
    name_run buf lim (off + 1 + n) rest e ->
    name_run buf lim off (lab :: rest) e
| NR_pointer : forall lim off hi lo p rest e',
    octet buf off = Some hi -> POINTER_TAG <= hi <= 255 ->
    octet buf (off + 1) = Some lo ->
    p = (hi - POINTER_TAG) * 256 + lo ->
    p < lim ->
    name_run buf p p rest e' ->
    name_run buf lim off rest (off + 2).

Definition name_at (buf : list Z) (off : Z) (labels : list (list Z)) (e : Z) : Prop :=
  name_run buf off off labels e.

(* length of the fully expanded name on the wire: every label with its length octet, plus the root *)
Fixpoint wire_len (labels : list (list Z)) : Z :=
  match labels with
  | [] => 1
  | l :: r => 1 + zlen l + wire_len r
  end.

Definition wf_name (buf : list Z) (off : Z) (labels : list (list Z)) (e : Z) : Prop :=
  name_at buf off labels e /\ wire_len labels <= MAX_NAME_WIRE.

(* textual form handed to the application: labels separated by '.', the root is "" *)
Fixpoint dotted (labels : list (list Z)) : list Z :=
  match labels with
  | [] => []
  | [l] => l
  | l :: r => l ++ 46 :: dotted r
  end.

(* labels that can be rendered as a C string *)
Definition text_labels (labels : list (list Z)) : Prop :=
  Forall (fun l => Forall (fun c => c <> 0) l) labels.

(* question section: n questions from offset off, ending at e *)
Inductive questions_at (buf : list Z) : Z -> nat -> Z -> Prop :=
| QA_nil : forall off, questions_at buf off O off
| QA_cons : forall off labels e n e',
    wf_name buf off labels e ->
    e + QUESTION_FIXED <= zlen buf ->
    questions_at buf (e + QUESTION_FIXED) n e' ->
    questions_at buf off (S n) e'.

(* what an answer record means to an SRV client *)
Inductive answer : Type :=
| AnsSrv (priority weight port : Z) (target : list (list Z))
| AnsOther.

Inductive answers_at (buf : list Z) : Z -> list answer -> Z -> Prop :=
| AA_nil : forall off, answers_at buf off [] off
| AA_srv : forall off owner e rdl prio weight port target rest e',
    wf_name buf off owner e ->
    be16 buf (e + RR_TYPE_OFF) = Some TYPE_SRV ->
    be16 buf (e + RR_CLASS_OFF) = Some CLASS_IN ->
    be16 buf (e + RR_RDLENGTH_OFF) = Some rdl ->
    e + RR_FIXED + rdl <= zlen buf ->
    be16 buf (e + RR_FIXED + SRV_PRIORITY_OFF) = Some prio ->
    be16 buf (e + RR_FIXED + SRV_WEIGHT_OFF) = Some weight ->
    be16 buf (e + RR_FIXED + SRV_PORT_OFF) = Some port ->
    wf_name buf (e + RR_FIXED + SRV_TARGET_OFF) target (e + RR_FIXED + rdl) ->
    answers_at buf (e + RR_FIXED + rdl) rest e' ->
    answers_at buf off (AnsSrv prio weight port target :: rest) e'
| AA_other : forall off owner e ty cl rdl rest e',
    wf_name buf off owner e ->
    be16 buf (e + RR_TYPE_OFF) = Some ty ->
    be16 buf (e + RR_CLASS_OFF) = Some cl ->
    ~ (ty = TYPE_SRV /\ cl = CLASS_IN) ->
    be16 buf (e + RR_RDLENGTH_OFF) = Some rdl ->
    e + RR_FIXED + rdl <= zlen buf ->
    answers_at buf (e + RR_FIXED + rdl) rest e' ->
    answers_at buf off (AnsOther :: rest) e'.

(* a successful response whose question and answer sections are well formed; the authority and
   additional sections that may follow are not constrained *)
Record wf_response (buf : list Z) (ans : list answer) : Prop := {
  wf_bytes : bytes buf;
  wf_size : zlen buf <= 65536;
  wf_header : HEADER_LEN <= zlen buf;
  wf_qr : exists o, octet buf HDR_FLAGS_HI_OFF = Some o /\ o / 128 = QR_RESPONSE;
  wf_rcode : exists o, octet buf HDR_FLAGS_LO_OFF = Some o /\ o mod 16 = 0;
  wf_sections : exists qd e1 e2,
      be16 buf HDR_QDCOUNT_OFF = Some (Z.of_nat qd) /\
      be16 buf HDR_ANCOUNT_OFF = Some (zlen ans) /\
      questions_at buf HEADER_LEN qd e1 /\
      answers_at buf e1 ans e2
}.

(* the IN/SRV answers as (priority, weight, port, text of the target), in message order *)
Fixpoint srv_answers (ans : list answer) : list (Z * Z * Z * list Z) :=
  match ans with
  | [] => []
  | AnsSrv p w port t :: r => (p, w, port, dotted t) :: srv_answers r
  | AnsOther :: r => srv_answers r
  end.

(* the same as an application would see it in a record whose target string is present *)
Definition expected_view (a : Z * Z * Z * list Z) : Z * Z * Z * option (list Z) :=
  let '(p, w, port, t) := a in (p, w, port, Some t).

Definition srv_targets_text (ans : list answer) : Prop :=
  Forall (fun a => match a with AnsSrv _ _ _ t => text_labels t | AnsOther => True end) ans.

(* RFC 2782 order of use: lowest priority first; within a priority larger weights first
   (the deterministic order the library uses) *)
Definition srv_before (a b : Z * Z * Z * list Z) : Prop :=
  let '(pa, wa, _, _) := a in let '(pb, wb, _, _) := b in
  pa < pb \/ (pa = pb /\ wb <= wa).
