(* C11 - reference semantics of handler registration and dispatch (definitions only).

   Independent of the heap model: no pointers, no [next] links, and the [enabled] flag is carried
   (so that states can be compared with the implementation's) but never read.  A registration is a
   record with a unique number [hid]; the registry holds, per list, the registrations in list
   order.  A dispatch is a fold over the *snapshot* of registration numbers taken when the dispatch
   starts: an offered registration fires iff it is still registered at its turn, the negotiation
   gate lets it through and its filter matches.  Only the data types (stanza, filter, kind, action,
   event, script) are shared with Model/HandlerModel.v. *)
From Coq Require Import List ZArith Bool Arith.
Import ListNotations.
Require Import LV.Model.HandlerModel.
Local Open Scope Z_scope.

(* ---- filter match, as the documentation of xmpp_handler_add / xmpp_id_handler_add states it ---- *)

(* the ns filter matches the namespace of the stanza or - for handlers registered through the public API
   ([user]) - of one of its direct children; library-internal handlers match the element's own namespace
   only.  name and type match the top-level element; an absent filter matches everything *)
Definition stanza_filter_matches (user : bool) (ns name type : option str) (sz : stanza) : Prop :=
  (ns = None \/ st_ns sz = ns \/ (user = true /\ ns <> None /\ In ns (st_children sz))) /\
  (name = None \/ st_name sz = name) /\
  (type = None \/ st_type sz = type).

Definition id_filter_matches (id : str) (sz : stanza) : Prop := st_id sz = Some id.

(* a timed handler is due when a full period has passed since it was registered, re-armed or last fired *)
Definition timed_due (period last now : Z) : Prop := last + period <= now.

(* ---- registry ---- *)
Record hrec := mkRec {
  hid : nat; r_cb : Z; r_ud : Z; r_user : bool; r_enabled : bool; r_flt : hfilter }.

Definition rec_enabled (r : hrec) (b : bool) : hrec := mkRec (hid r) (r_cb r) (r_ud r) (r_user r) b (r_flt r).
Definition rec_flt (r : hrec) (f : hfilter) : hrec := mkRec (hid r) (r_cb r) (r_ud r) (r_user r) (r_enabled r) f.

Record reg := mkReg {
  g_stanza : list hrec;
  g_ids : list (str * option (list hrec));
  g_timed : list hrec;
  g_global : list hrec;
  g_next : nat;                      (* next registration number *)
  g_neg : bool; g_conn : bool; g_clock : Z; g_sendq : list str; g_log : list event }.

Definition init_reg : reg := mkReg [] [] [] [] O true true 1000000 [] [].

Definition rget (k : kind) (R : reg) : list hrec :=
  match k with
  | KStanza => g_stanza R
  | KId id => match id_get id (g_ids R) with Some l => l | None => [] end
  | KTimed => g_timed R
  | KGlobal => g_global R
  end.

Definition rset (k : kind) (l : list hrec) (R : reg) : reg :=
  match k with
  | KStanza => mkReg l (g_ids R) (g_timed R) (g_global R) (g_next R) (g_neg R) (g_conn R) (g_clock R) (g_sendq R) (g_log R)
  | KId id => mkReg (g_stanza R) (id_set id (Some l) (g_ids R)) (g_timed R) (g_global R) (g_next R) (g_neg R) (g_conn R) (g_clock R) (g_sendq R) (g_log R)
  | KTimed => mkReg (g_stanza R) (g_ids R) l (g_global R) (g_next R) (g_neg R) (g_conn R) (g_clock R) (g_sendq R) (g_log R)
  | KGlobal => mkReg (g_stanza R) (g_ids R) (g_timed R) l (g_next R) (g_neg R) (g_conn R) (g_clock R) (g_sendq R) (g_log R)
  end.

Definition rset_next (R : reg) (n : nat) : reg :=
  mkReg (g_stanza R) (g_ids R) (g_timed R) (g_global R) n (g_neg R) (g_conn R) (g_clock R) (g_sendq R) (g_log R).
Definition rset_neg (R : reg) (b : bool) : reg :=
  mkReg (g_stanza R) (g_ids R) (g_timed R) (g_global R) (g_next R) b (g_conn R) (g_clock R) (g_sendq R) (g_log R).
Definition rset_conn (R : reg) (b : bool) : reg :=
  mkReg (g_stanza R) (g_ids R) (g_timed R) (g_global R) (g_next R) (g_neg R) b (g_clock R) (g_sendq R) (g_log R).
Definition rset_clock (R : reg) (c : Z) : reg :=
  mkReg (g_stanza R) (g_ids R) (g_timed R) (g_global R) (g_next R) (g_neg R) (g_conn R) c (g_sendq R) (g_log R).
Definition rset_sendq (R : reg) (q : list str) : reg :=
  mkReg (g_stanza R) (g_ids R) (g_timed R) (g_global R) (g_next R) (g_neg R) (g_conn R) (g_clock R) q (g_log R).
Definition rset_log (R : reg) (l : list event) : reg :=
  mkReg (g_stanza R) (g_ids R) (g_timed R) (g_global R) (g_next R) (g_neg R) (g_conn R) (g_clock R) (g_sendq R) l.

Definition has_key (cb ud : Z) (l : list hrec) : bool :=
  existsb (fun r => (r_cb r =? cb) && (r_ud r =? ud)) l.

(* registering: one (callback, userdata) pair is kept once per list; stanza and id handlers go to
   the end of their list, timed handlers to the front; a new registration starts disabled *)
Definition r_add (at_head : bool) (k : kind) (cb ud : Z) (user : bool) (flt : hfilter) (R : reg) : reg :=
  if has_key cb ud (rget k R) then R
  else
    let r := mkRec (g_next R) cb ud user false flt in
    rset k (if at_head then r :: rget k R else rget k R ++ [r]) (rset_next R (S (g_next R))).

(* deleting is by callback: every registration of the list with that callback goes *)
Definition r_del (k : kind) (cb : Z) (R : reg) : reg :=
  rset k (filter (fun r => negb (r_cb r =? cb)) (rget k R)) R.

Definition r_remove (k : kind) (x : nat) (R : reg) : reg :=
  rset k (filter (fun r => negb (Nat.eqb (hid r) x)) (rget k R)) R.

Definition r_enable (k : kind) (R : reg) : reg :=
  rset k (map (fun r => rec_enabled r true) (rget k R)) R.

Definition rec_stamp (k : kind) (now : Z) (r : hrec) : hrec :=
  match k, r_flt r with
  | KTimed, FTimed period _ => rec_flt r (FTimed period now)
  | KGlobal, FTimed period _ => rec_flt r (FTimed period now)
  | _, _ => r
  end.

Definition r_update (k : kind) (x : nat) (f : hrec -> hrec) (R : reg) : reg :=
  rset k (map (fun r => if Nat.eqb (hid r) x then f r else r) (rget k R)) R.

Definition r_action (a : action) (R : reg) : reg :=
  match a with
  | AAddStanza cb ud user ns name type => r_add false KStanza cb ud user (FStanza ns name type) R
  | AAddId cb ud user id => r_add false (KId id) cb ud user (FId id) R
  | AAddTimed cb ud user period => r_add true KTimed cb ud user (FTimed period (g_clock R)) R
  | AAddGlobal cb ud period => r_add true KGlobal cb ud true (FTimed period (g_clock R)) R
  | ADel k cb => r_del k cb R
  | ASend d => if g_conn R then rset_sendq R (g_sendq R ++ [d]) else R
  | AClk d => rset_clock R (g_clock R + d)
  end.

Fixpoint r_actions (acts : list action) (R : reg) : reg :=
  match acts with
  | [] => R
  | a :: r => r_actions r (r_action a R)
  end.

(* ---- dispatch ---- *)
Definition ostr_eqb (a b : option str) : bool :=
  match a, b with
  | Some x, Some y => str_eqb x y
  | None, None => true
  | _, _ => false
  end.

Definition s_match_stanza (user : bool) (ns name type : option str) (sz : stanza) : bool :=
  (match ns with None => true
   | Some _ => ostr_eqb (st_ns sz) ns || (user && existsb (fun c => ostr_eqb c ns) (st_children sz)) end)
  && (match name with None => true | Some _ => ostr_eqb (st_name sz) name end)
  && (match type with None => true | Some _ => ostr_eqb (st_type sz) type end).

(* id handlers are filed under their id, so all registrations offered in an id pass match *)
Definition s_match (k : kind) (r : hrec) (sz : stanza) (now : Z) : bool :=
  match k, r_flt r with
  | KId _, _ => true
  | KStanza, FStanza ns name type => s_match_stanza (r_user r) ns name type sz
  | KTimed, FTimed period last => period <=? elapsed last now
  | KGlobal, FTimed period last => period <=? elapsed last now
  | _, _ => false
  end.

(* user handlers of a connection wait for the end of stream negotiation; context-wide handlers do not *)
Definition s_gate (k : kind) (R : reg) (r : hrec) : bool :=
  match k with
  | KGlobal => true
  | _ => negb (r_user r && negb (g_neg R))
  end.

Definition find_rec (x : nat) (l : list hrec) : option hrec := find (fun r => Nat.eqb (hid r) x) l.

Fixpoint spec_loop (sc : script) (k : kind) (sz : stanza) (snap : list nat) (R : reg) : reg :=
  match snap with
  | [] => R
  | x :: rest =>
    match find_rec x (rget k R) with
    | None => spec_loop sc k sz rest R                 (* deleted earlier in this dispatch *)
    | Some r =>
      if s_gate k R r && s_match k r sz (g_clock R) then
        let R1 := r_update k x (rec_stamp k (g_clock R)) R in
        let (acts, ret) := sc (g_log R1) (r_cb r) (r_ud r) in
        let R2 := rset_log R1 (EvCall x (r_cb r) (r_ud r) (r_user r) k (g_clock R1) ret :: g_log R1) in
        let R3 := r_actions acts R2 in
        let R4 := if ret then R3 else r_remove k x R3 in      (* returned false: gone *)
        spec_loop sc k sz rest R4
      else spec_loop sc k sz rest R
    end
  end.

Definition hids (l : list hrec) : list nat := map hid l.

(* a stanza is offered to the id handlers filed under its id, then to the stanza handlers; both
   snapshots are taken before any handler runs *)
Definition spec_fire_stanza (sc : script) (sz : stanza) (R : reg) : reg :=
  let R1 := r_enable KStanza R in
  let snap_s := hids (rget KStanza R1) in
  let R2 := match st_id sz with
            | None => R1
            | Some id =>
              let R1' := r_enable (KId id) R1 in
              spec_loop sc (KId id) sz (hids (rget (KId id) R1')) R1'
            end in
  spec_loop sc KStanza sz snap_s R2.

(* one pass of the event loop over the timed handlers: those of the connection only while it is
   connected, then the context-wide ones *)
Definition spec_fire_timed (sc : script) (R : reg) : reg :=
  let R1 := if g_conn R then
              let R' := r_enable KTimed R in spec_loop sc KTimed no_stanza (hids (rget KTimed R')) R'
            else R in
  spec_loop sc KGlobal no_stanza (hids (rget KGlobal R1)) R1.

Definition r_reset (user_only : bool) (R : reg) : reg :=
  rset KTimed (map (fun r => if (user_only && r_user r) || negb user_only then rec_stamp KTimed (g_clock R) r else r)
                   (rget KTimed R)) R.

Definition r_flush (R : reg) : reg :=
  if g_conn R then rset_sendq (rset_log R (rev (map EvWrite (g_sendq R)) ++ g_log R)) [] else R.

Definition spec_run_once (sc : script) (events : bool) (R : reg) : reg :=
  let R1 := spec_fire_timed sc (r_flush R) in
  if events then spec_fire_timed sc R1 else R1.

Fixpoint r_sysdel_ids (keys : list str) (R : reg) : reg :=
  match keys with
  | [] => R
  | id :: r => r_sysdel_ids r (rset (KId id) (filter r_user (rget (KId id) R)) R)
  end.
Definition r_sysdel (R : reg) : reg :=
  let R1 := rset KStanza (filter r_user (rget KStanza R)) R in
  let R2 := rset KTimed (filter r_user (rget KTimed R1)) R1 in
  r_sysdel_ids (map fst (g_ids R2)) R2.

Definition spec_op (sc : script) (o : op) (R : reg) : reg :=
  match o with
  | OAct a => r_action a R
  | OStanza sz => spec_fire_stanza sc sz R
  | OFireTimed => spec_fire_timed sc R
  | ORunOnce ev => spec_run_once sc ev R
  | OSetNeg b => rset_neg R b
  | OSetConn b => rset_conn R b
  | OClock d => rset_clock R (g_clock R + d)
  | OReset u => r_reset u R
  | OSysDel => r_sysdel R
  | OOpen => rset_neg (r_reset false R) true
  end.

Fixpoint spec_run (sc : script) (ops : list op) (R : reg) : reg :=
  match ops with
  | [] => R
  | o :: r => spec_run sc r (spec_op sc o R)
  end.

(* the invocations recorded since a given log length, oldest first *)
Definition calls_of (l : list event) : list nat :=
  flat_map (fun e => match e with EvCall x _ _ _ _ _ _ => [x] | EvWrite _ => [] end) l.

(* a script whose handlers never name their own callback in a delete request
   ("delete other handlers") *)
Definition del_cb (a : action) : option Z := match a with ADel _ cb => Some cb | _ => None end.
(* a script whose callbacks take no time *)
Definition instant (sc : script) : Prop :=
  forall lg cb ud a, In a (fst (sc lg cb ud)) -> forall d, a <> AClk d.

Definition others_only (sc : script) : Prop :=
  forall lg cb ud a, In a (fst (sc lg cb ud)) -> del_cb a <> Some cb.
