(* Reference definitions of the digests, written from the standards and independent of the C code:
     FIPS 180-4  SHA-1 (6.1), SHA-256 (6.2), SHA-512 (6.4), padding 5.1, parsing 5.2
     RFC 1321    MD5
     RFC 2104    HMAC
   Every digest is   out (fold compress IV (blocks (pad msg))).
   The constant tables below were derived from their mathematical definitions (fractional parts
   of cube / square roots of the first primes, floor(2^32 |sin i|), floor(2^30 sqrt k)), not copied
   from the source under verification.  Definitions only; the Examples at the end evaluate the
   published test vectors (they are tests of this specification). *)
Require Import LV.Common.Bytes LV.Common.HashWords.
Local Open Scope Z_scope.

(* ------------------------------------------------------------------------------------------ *)
(* Merkle-Damgard iteration over the B-byte blocks of an already padded message               *)
Section MD.
  Context {St : Type}.
  Variable B : nat.
  Variable compress : St -> list Z -> St.

  Fixpoint md_blocks (fuel : nat) (l : list Z) : list (list Z) :=
    match fuel with
    | O => []
    | S f => match l with [] => [] | _ => firstn B l :: md_blocks f (skipn B l) end
    end.

  Definition md_fold (iv : St) (padded : list Z) : St :=
    fold_left compress (md_blocks (length padded) padded) iv.
End MD.

(* FIPS 180-4 5.1 / RFC 1321 3.1-3.2: the message, a 1 bit, k zero bits up to (block - lenbytes)
   modulo the block size, then the bit length in lenbytes bytes.  The length field holds the
   low-order 8*lenbytes bits of the bit length (RFC 1321 says so explicitly; FIPS 180-4 only
   defines messages shorter than that). *)
Definition md_pad (blk lenbytes : Z) (big_endian : bool) (msg : list Z) : list Z :=
  let n := zlen msg in
  let bits := (8 * n) mod 2 ^ (8 * lenbytes) in
  msg ++ [128] ++ repeat 0 (Z.to_nat ((blk - lenbytes - 1 - n) mod blk))
      ++ (if big_endian then be_bytes (Z.to_nat lenbytes) bits else le_bytes (Z.to_nat lenbytes) bits).

(* ------------------------------------------------------------------------------------------ *)
(* SHA-1, FIPS 180-4 section 6.1                                                               *)
Definition sha1_H0 : list Z := [0x67452301; 0xefcdab89; 0x98badcfe; 0x10325476; 0xc3d2e1f0].
Definition sha1_Kt (t : nat) : Z :=
  if (t <? 20)%nat then 0x5a827999 else if (t <? 40)%nat then 0x6ed9eba1
  else if (t <? 60)%nat then 0x8f1bbcdc else 0xca62c1d6.
Definition Ch (x y z : Z) : Z := Z.lxor (Z.land x y) (Z.ldiff z x).          (* (x & y) ^ (~x & z) *)
Definition Parity (x y z : Z) : Z := Z.lxor (Z.lxor x y) z.
Definition Maj (x y z : Z) : Z := Z.lxor (Z.lxor (Z.land x y) (Z.land x z)) (Z.land y z).
Definition sha1_ft (t : nat) : Z -> Z -> Z -> Z :=
  if (t <? 20)%nat then Ch else if (t <? 40)%nat then Parity else if (t <? 60)%nat then Maj else Parity.

(* message schedule: W_t = ROTL1(W_{t-3} ^ W_{t-8} ^ W_{t-14} ^ W_{t-16}) *)
Fixpoint sha1_sched (n : nat) (W : list Z) : list Z :=
  match n with
  | O => W
  | S n' =>
      let t := length W in
      let g i := nth (t - i) W 0 in
      sha1_sched n' (W ++ [wrotl 32 m32 (Z.lxor (Z.lxor (Z.lxor (g 3%nat) (g 8%nat)) (g 14%nat)) (g 16%nat)) 1])
  end.

Definition sha1_step (W : list Z) (s : list Z) (t : nat) : list Z :=
  match s with
  | [a; b; c; d; e] =>
      let T := wadd m32 (wadd m32 (wadd m32 (wadd m32 (wrotl 32 m32 a 5) (sha1_ft t b c d)) e) (sha1_Kt t)) (nth t W 0) in
      [T; a; wrotl 32 m32 b 30; c; d]
  | _ => s
  end.

Definition sha1_compress (H : list Z) (block : list Z) : list Z :=
  let W := sha1_sched 64 (map be_word (group 4 block)) in
  map2 (wadd m32) H (fold_left (sha1_step W) (seq 0 80) H).

Definition sha1_spec (msg : list Z) : list Z :=
  flat_map (be_bytes 4) (md_fold 64 sha1_compress sha1_H0 (md_pad 64 8 true msg)).

(* ------------------------------------------------------------------------------------------ *)
(* SHA-256 and SHA-512, FIPS 180-4 sections 6.2 and 6.4 (one text, parameterised by the word
   size, the rotation amounts of 4.1.2 / 4.1.3 and the constants of 4.2.2 / 4.2.3)              *)
Section SHA2.
  Variables w m : Z.     (* word size in bits, all-ones word *)
  Variables S0 S1 s0 s1 : Z * Z * Z.
  Variable K : list Z.

  Definition rot3 (p : Z * Z * Z) (x : Z) : Z :=
    let '(a, b, c) := p in Z.lxor (Z.lxor (wrotr w m x a) (wrotr w m x b)) (wrotr w m x c).
  Definition rot2shr (p : Z * Z * Z) (x : Z) : Z :=
    let '(a, b, c) := p in Z.lxor (Z.lxor (wrotr w m x a) (wrotr w m x b)) (wshr x c).

  (* W_t = sigma1(W_{t-2}) + W_{t-7} + sigma0(W_{t-15}) + W_{t-16} *)
  Fixpoint sha2_sched (n : nat) (W : list Z) : list Z :=
    match n with
    | O => W
    | S n' =>
        let t := length W in
        let g i := nth (t - i) W 0 in
        sha2_sched n' (W ++ [wadd m (wadd m (wadd m (rot2shr s1 (g 2%nat)) (g 7%nat)) (rot2shr s0 (g 15%nat))) (g 16%nat)])
    end.

  Definition sha2_step (W : list Z) (s : list Z) (t : nat) : list Z :=
    match s with
    | [a; b; c; d; e; f; g; h] =>
        let T1 := wadd m (wadd m (wadd m (wadd m h (rot3 S1 e)) (Ch e f g)) (nth t K 0)) (nth t W 0) in
        let T2 := wadd m (rot3 S0 a) (Maj a b c) in
        [wadd m T1 T2; a; b; c; wadd m d T1; e; f; g]
    | _ => s
    end.

  Definition sha2_compress (H : list Z) (block : list Z) : list Z :=
    let W := sha2_sched (length K - 16) (map be_word (group (Z.to_nat (w / 8)) block)) in
    map2 (wadd m) H (fold_left (sha2_step W) (seq 0 (length K)) H).
End SHA2.

Definition sha256_H0 : list Z :=
  [0x6a09e667; 0xbb67ae85; 0x3c6ef372; 0xa54ff53a; 0x510e527f; 0x9b05688c; 0x1f83d9ab; 0x5be0cd19].
Definition sha256_Kspec : list Z := [
  0x428a2f98; 0x71374491; 0xb5c0fbcf; 0xe9b5dba5; 0x3956c25b; 0x59f111f1; 0x923f82a4; 0xab1c5ed5;
  0xd807aa98; 0x12835b01; 0x243185be; 0x550c7dc3; 0x72be5d74; 0x80deb1fe; 0x9bdc06a7; 0xc19bf174;
  0xe49b69c1; 0xefbe4786; 0x0fc19dc6; 0x240ca1cc; 0x2de92c6f; 0x4a7484aa; 0x5cb0a9dc; 0x76f988da;
  0x983e5152; 0xa831c66d; 0xb00327c8; 0xbf597fc7; 0xc6e00bf3; 0xd5a79147; 0x06ca6351; 0x14292967;
  0x27b70a85; 0x2e1b2138; 0x4d2c6dfc; 0x53380d13; 0x650a7354; 0x766a0abb; 0x81c2c92e; 0x92722c85;
  0xa2bfe8a1; 0xa81a664b; 0xc24b8b70; 0xc76c51a3; 0xd192e819; 0xd6990624; 0xf40e3585; 0x106aa070;
  0x19a4c116; 0x1e376c08; 0x2748774c; 0x34b0bcb5; 0x391c0cb3; 0x4ed8aa4a; 0x5b9cca4f; 0x682e6ff3;
  0x748f82ee; 0x78a5636f; 0x84c87814; 0x8cc70208; 0x90befffa; 0xa4506ceb; 0xbef9a3f7; 0xc67178f2
].
Definition sha256_compress_spec : list Z -> list Z -> list Z :=
  sha2_compress 32 m32 (2, 13, 22) (6, 11, 25) (7, 18, 3) (17, 19, 10) sha256_Kspec.
Definition sha256_spec (msg : list Z) : list Z :=
  flat_map (be_bytes 4) (md_fold 64 sha256_compress_spec sha256_H0 (md_pad 64 8 true msg)).

Definition sha512_H0 : list Z := [
  0x6a09e667f3bcc908; 0xbb67ae8584caa73b; 0x3c6ef372fe94f82b; 0xa54ff53a5f1d36f1;
  0x510e527fade682d1; 0x9b05688c2b3e6c1f; 0x1f83d9abfb41bd6b; 0x5be0cd19137e2179
].
Definition sha512_Kspec : list Z := [
  0x428a2f98d728ae22; 0x7137449123ef65cd; 0xb5c0fbcfec4d3b2f; 0xe9b5dba58189dbbc;
  0x3956c25bf348b538; 0x59f111f1b605d019; 0x923f82a4af194f9b; 0xab1c5ed5da6d8118;
  0xd807aa98a3030242; 0x12835b0145706fbe; 0x243185be4ee4b28c; 0x550c7dc3d5ffb4e2;
  0x72be5d74f27b896f; 0x80deb1fe3b1696b1; 0x9bdc06a725c71235; 0xc19bf174cf692694;
  0xe49b69c19ef14ad2; 0xefbe4786384f25e3; 0x0fc19dc68b8cd5b5; 0x240ca1cc77ac9c65;
  0x2de92c6f592b0275; 0x4a7484aa6ea6e483; 0x5cb0a9dcbd41fbd4; 0x76f988da831153b5;
  0x983e5152ee66dfab; 0xa831c66d2db43210; 0xb00327c898fb213f; 0xbf597fc7beef0ee4;
  0xc6e00bf33da88fc2; 0xd5a79147930aa725; 0x06ca6351e003826f; 0x142929670a0e6e70;
  0x27b70a8546d22ffc; 0x2e1b21385c26c926; 0x4d2c6dfc5ac42aed; 0x53380d139d95b3df;
  0x650a73548baf63de; 0x766a0abb3c77b2a8; 0x81c2c92e47edaee6; 0x92722c851482353b;
  0xa2bfe8a14cf10364; 0xa81a664bbc423001; 0xc24b8b70d0f89791; 0xc76c51a30654be30;
  0xd192e819d6ef5218; 0xd69906245565a910; 0xf40e35855771202a; 0x106aa07032bbd1b8;
  0x19a4c116b8d2d0c8; 0x1e376c085141ab53; 0x2748774cdf8eeb99; 0x34b0bcb5e19b48a8;
  0x391c0cb3c5c95a63; 0x4ed8aa4ae3418acb; 0x5b9cca4f7763e373; 0x682e6ff3d6b2b8a3;
  0x748f82ee5defb2fc; 0x78a5636f43172f60; 0x84c87814a1f0ab72; 0x8cc702081a6439ec;
  0x90befffa23631e28; 0xa4506cebde82bde9; 0xbef9a3f7b2c67915; 0xc67178f2e372532b;
  0xca273eceea26619c; 0xd186b8c721c0c207; 0xeada7dd6cde0eb1e; 0xf57d4f7fee6ed178;
  0x06f067aa72176fba; 0x0a637dc5a2c898a6; 0x113f9804bef90dae; 0x1b710b35131c471b;
  0x28db77f523047d84; 0x32caab7b40c72493; 0x3c9ebe0a15c9bebc; 0x431d67c49c100d4c;
  0x4cc5d4becb3e42b6; 0x597f299cfc657e2a; 0x5fcb6fab3ad6faec; 0x6c44198c4a475817
].
Definition sha512_compress_spec : list Z -> list Z -> list Z :=
  sha2_compress 64 m64 (28, 34, 39) (14, 18, 41) (1, 8, 7) (19, 61, 6) sha512_Kspec.
Definition sha512_spec (msg : list Z) : list Z :=
  flat_map (be_bytes 8) (md_fold 128 sha512_compress_spec sha512_H0 (md_pad 128 16 true msg)).

(* the tables above are what FIPS 180-4 says they are: the first w bits of the fractional parts of
   the cube roots (K) / square roots (H0) of the first primes *)
Fixpoint iroot_bits (r : Z) (bits : nat) (x acc : Z) : Z :=
  match bits with
  | O => acc
  | S b => let c := acc + 2 ^ Z.of_nat b in iroot_bits r b x (if c ^ r <=? x then c else acc)
  end.
Definition frac_root (r w p : Z) : Z :=
  (iroot_bits r (Z.to_nat (w + 8)) (p * 2 ^ (w * r)) 0) mod 2 ^ w.
Definition first_primes : list Z := [
  2; 3; 5; 7; 11; 13; 17; 19; 23; 29; 31; 37; 41; 43; 47; 53; 59; 61; 67; 71;
  73; 79; 83; 89; 97; 101; 103; 107; 109; 113; 127; 131; 137; 139; 149; 151; 157; 163; 167; 173;
  179; 181; 191; 193; 197; 199; 211; 223; 227; 229; 233; 239; 241; 251; 257; 263; 269; 271; 277; 281;
  283; 293; 307; 311; 313; 317; 331; 337; 347; 349; 353; 359; 367; 373; 379; 383; 389; 397; 401; 409].
Definition is_prime_b (p : Z) : bool :=
  (1 <? p) && forallb (fun d => negb (p mod d =? 0)) (map Z.of_nat (seq 2 (Z.to_nat p - 2))).

(* ------------------------------------------------------------------------------------------ *)
(* MD5, RFC 1321 section 3.4                                                                   *)
Definition md5_H0 : list Z := [0x67452301; 0xefcdab89; 0x98badcfe; 0x10325476].
Definition md5_T : list Z := [   (* T[i] = floor(4294967296 * abs(sin(i))), i = 1..64 *)
  0xd76aa478; 0xe8c7b756; 0x242070db; 0xc1bdceee; 0xf57c0faf; 0x4787c62a; 0xa8304613; 0xfd469501;
  0x698098d8; 0x8b44f7af; 0xffff5bb1; 0x895cd7be; 0x6b901122; 0xfd987193; 0xa679438e; 0x49b40821;
  0xf61e2562; 0xc040b340; 0x265e5a51; 0xe9b6c7aa; 0xd62f105d; 0x02441453; 0xd8a1e681; 0xe7d3fbc8;
  0x21e1cde6; 0xc33707d6; 0xf4d50d87; 0x455a14ed; 0xa9e3e905; 0xfcefa3f8; 0x676f02d9; 0x8d2a4c8a;
  0xfffa3942; 0x8771f681; 0x6d9d6122; 0xfde5380c; 0xa4beea44; 0x4bdecfa9; 0xf6bb4b60; 0xbebfbc70;
  0x289b7ec6; 0xeaa127fa; 0xd4ef3085; 0x04881d05; 0xd9d4d039; 0xe6db99e5; 0x1fa27cf8; 0xc4ac5665;
  0xf4292244; 0x432aff97; 0xab9423a7; 0xfc93a039; 0x655b59c3; 0x8f0ccc92; 0xffeff47d; 0x85845dd1;
  0x6fa87e4f; 0xfe2ce6e0; 0xa3014314; 0x4e0811a1; 0xf7537e82; 0xbd3af235; 0x2ad7d2bb; 0xeb86d391
].
Definition md5_F (x y z : Z) : Z := Z.lor (Z.land x y) (Z.ldiff z x).      (* XY v not(X) Z *)
Definition md5_G (x y z : Z) : Z := Z.lor (Z.land x z) (Z.ldiff y z).      (* XZ v Y not(Z) *)
Definition md5_H (x y z : Z) : Z := Z.lxor (Z.lxor x y) z.
Definition md5_I (x y z : Z) : Z := Z.lxor y (Z.lor x (wnot m32 z)).        (* Y xor (X v not(Z)) *)
(* operation i (0..63): function, word index k, shift s *)
Definition md5_fn (i : nat) : Z -> Z -> Z -> Z :=
  match (i / 16)%nat with 0%nat => md5_F | 1%nat => md5_G | 2%nat => md5_H | _ => md5_I end.
Definition md5_k (i : nat) : nat :=
  match (i / 16)%nat with
  | 0%nat => i | 1%nat => ((5 * i + 1) mod 16)%nat | 2%nat => ((3 * i + 5) mod 16)%nat | _ => ((7 * i) mod 16)%nat
  end.
Definition md5_s (i : nat) : Z :=
  nth (i mod 4)%nat (match (i / 16)%nat with
                     | 0%nat => [7; 12; 17; 22] | 1%nat => [5; 9; 14; 20]
                     | 2%nat => [4; 11; 16; 23] | _ => [6; 10; 15; 21] end) 0.
(* [abcd k s i]: a = b + ((a + f(b,c,d) + X[k] + T[i]) <<< s), then the registers rotate *)
Definition md5_step (X : list Z) (st : list Z) (i : nat) : list Z :=
  match st with
  | [a; b; c; d] =>
      let v := wadd m32 (wadd m32 (wadd m32 a (md5_fn i b c d)) (nth (md5_k i) X 0)) (nth i md5_T 0) in
      [d; wadd m32 b (wrotl 32 m32 v (md5_s i)); b; c]
  | _ => st
  end.
Definition md5_compress_spec (H : list Z) (block : list Z) : list Z :=
  let X := map le_word (group 4 block) in
  map2 (wadd m32) H (fold_left (md5_step X) (seq 0 64) H).
Definition md5_spec (msg : list Z) : list Z :=
  flat_map (le_bytes 4) (md_fold 64 md5_compress_spec md5_H0 (md_pad 64 8 false msg)).

(* ------------------------------------------------------------------------------------------ *)
(* HMAC, RFC 2104: H(K xor opad, H(K xor ipad, text)), K zero-extended to B bytes, keys longer
   than B are first hashed                                                                      *)
Definition hmac_spec (H : list Z -> list Z) (B : Z) (key text : list Z) : list Z :=
  let k0 := if B <? zlen key then H key else key in
  let k := k0 ++ repeat 0 (Z.to_nat (B - zlen k0)) in
  H (map (Z.lxor 0x5c) k ++ H (map (Z.lxor 0x36) k ++ text)).

(* ------------------------------------------------------------------------------------------ *)
(* Test vectors (tests of the specification above).                                            *)
Definition ascii_abc : list Z := [97; 98; 99].
Definition ascii_448 : list Z :=   (* "abcdbcdecdefdefgefghfghighijhijkijkljklmklmnlmnomnopnopq" *)
  flat_map (fun i => map (fun j => 97 + i + j) [0; 1; 2; 3]) [0; 1; 2; 3; 4; 5; 6; 7; 8; 9; 10; 11; 12; 13].

(* FIPS 180-2 appendix A.1, A.2; B.1, B.2; C.1 *)
Example sha1_abc : sha1_spec ascii_abc =
  [0xa9;0x99;0x3e;0x36;0x47;0x06;0x81;0x6a;0xba;0x3e;0x25;0x71;0x78;0x50;0xc2;0x6c;0x9c;0xd0;0xd8;0x9d].
Proof. vm_compute. reflexivity. Qed.
Example sha1_448 : sha1_spec ascii_448 =
  [0x84;0x98;0x3e;0x44;0x1c;0x3b;0xd2;0x6e;0xba;0xae;0x4a;0xa1;0xf9;0x51;0x29;0xe5;0xe5;0x46;0x70;0xf1].
Proof. vm_compute. reflexivity. Qed.
Example sha1_empty : sha1_spec [] =
  [0xda;0x39;0xa3;0xee;0x5e;0x6b;0x4b;0x0d;0x32;0x55;0xbf;0xef;0x95;0x60;0x18;0x90;0xaf;0xd8;0x07;0x09].
Proof. vm_compute. reflexivity. Qed.
Example sha256_abc : sha256_spec ascii_abc =
  [0xba;0x78;0x16;0xbf;0x8f;0x01;0xcf;0xea;0x41;0x41;0x40;0xde;0x5d;0xae;0x22;0x23;
   0xb0;0x03;0x61;0xa3;0x96;0x17;0x7a;0x9c;0xb4;0x10;0xff;0x61;0xf2;0x00;0x15;0xad].
Proof. vm_compute. reflexivity. Qed.
Example sha256_448 : sha256_spec ascii_448 =
  [0x24;0x8d;0x6a;0x61;0xd2;0x06;0x38;0xb8;0xe5;0xc0;0x26;0x93;0x0c;0x3e;0x60;0x39;
   0xa3;0x3c;0xe4;0x59;0x64;0xff;0x21;0x67;0xf6;0xec;0xed;0xd4;0x19;0xdb;0x06;0xc1].
Proof. vm_compute. reflexivity. Qed.
Example sha256_empty : sha256_spec [] =
  [0xe3;0xb0;0xc4;0x42;0x98;0xfc;0x1c;0x14;0x9a;0xfb;0xf4;0xc8;0x99;0x6f;0xb9;0x24;
   0x27;0xae;0x41;0xe4;0x64;0x9b;0x93;0x4c;0xa4;0x95;0x99;0x1b;0x78;0x52;0xb8;0x55].
Proof. vm_compute. reflexivity. Qed.
Example sha512_abc : sha512_spec ascii_abc =
  [0xdd;0xaf;0x35;0xa1;0x93;0x61;0x7a;0xba;0xcc;0x41;0x73;0x49;0xae;0x20;0x41;0x31;
   0x12;0xe6;0xfa;0x4e;0x89;0xa9;0x7e;0xa2;0x0a;0x9e;0xee;0xe6;0x4b;0x55;0xd3;0x9a;
   0x21;0x92;0x99;0x2a;0x27;0x4f;0xc1;0xa8;0x36;0xba;0x3c;0x23;0xa3;0xfe;0xeb;0xbd;
   0x45;0x4d;0x44;0x23;0x64;0x3c;0xe8;0x0e;0x2a;0x9a;0xc9;0x4f;0xa5;0x4c;0xa4;0x9f].
Proof. vm_compute. reflexivity. Qed.
Example sha512_empty : sha512_spec [] =
  [0xcf;0x83;0xe1;0x35;0x7e;0xef;0xb8;0xbd;0xf1;0x54;0x28;0x50;0xd6;0x6d;0x80;0x07;
   0xd6;0x20;0xe4;0x05;0x0b;0x57;0x15;0xdc;0x83;0xf4;0xa9;0x21;0xd3;0x6c;0xe9;0xce;
   0x47;0xd0;0xd1;0x3c;0x5d;0x85;0xf2;0xb0;0xff;0x83;0x18;0xd2;0x87;0x7e;0xec;0x2f;
   0x63;0xb9;0x31;0xbd;0x47;0x41;0x7a;0x81;0xa5;0x38;0x32;0x7a;0xf9;0x27;0xda;0x3e].
Proof. vm_compute. reflexivity. Qed.
(* RFC 1321 appendix A.5: "", "a", "abc", "message digest" *)
Example md5_empty : md5_spec [] =
  [0xd4;0x1d;0x8c;0xd9;0x8f;0x00;0xb2;0x04;0xe9;0x80;0x09;0x98;0xec;0xf8;0x42;0x7e].
Proof. vm_compute. reflexivity. Qed.
Example md5_a : md5_spec [97] =
  [0x0c;0xc1;0x75;0xb9;0xc0;0xf1;0xb6;0xa8;0x31;0xc3;0x99;0xe2;0x69;0x77;0x26;0x61].
Proof. vm_compute. reflexivity. Qed.
Example md5_abc : md5_spec ascii_abc =
  [0x90;0x01;0x50;0x98;0x3c;0xd2;0x4f;0xb0;0xd6;0x96;0x3f;0x7d;0x28;0xe1;0x7f;0x72].
Proof. vm_compute. reflexivity. Qed.
Example md5_message_digest : md5_spec [109;101;115;115;97;103;101;32;100;105;103;101;115;116] =
  [0xf9;0x6b;0x69;0x7d;0x7c;0xb7;0x93;0x8d;0x52;0x5a;0x2f;0x31;0xaa;0xf1;0x61;0xd0].
Proof. vm_compute. reflexivity. Qed.
(* RFC 2202 test case 1 (HMAC-SHA-1, key = 20 x 0x0b, "Hi There") and case 6 (80-byte key
   0xaa.., "Test Using Larger Than Block-Size Key - Hash Key First");
   RFC 4231 test case 1 for HMAC-SHA-256 *)
Definition hi_there : list Z := [72; 105; 32; 84; 104; 101; 114; 101].
Example hmac_sha1_rfc2202_1 : hmac_spec sha1_spec 64 (repeat 0x0b 20) hi_there =
  [0xb6;0x17;0x31;0x86;0x55;0x05;0x72;0x64;0xe2;0x8b;0xc0;0xb6;0xfb;0x37;0x8c;0x8e;0xf1;0x46;0xbe;0x00].
Proof. vm_compute. reflexivity. Qed.
Example hmac_sha1_rfc2202_6 : hmac_spec sha1_spec 64 (repeat 0xaa 80)
  [84;101;115;116;32;85;115;105;110;103;32;76;97;114;103;101;114;32;84;104;97;110;32;66;108;111;99;107;45;83;105;122;101;
   32;75;101;121;32;45;32;72;97;115;104;32;75;101;121;32;70;105;114;115;116] =
  [0xaa;0x4a;0xe5;0xe1;0x52;0x72;0xd0;0x0e;0x95;0x70;0x56;0x37;0xce;0x8a;0x3b;0x55;0xed;0x40;0x21;0x12].
Proof. vm_compute. reflexivity. Qed.
Example hmac_sha256_rfc4231_1 : hmac_spec sha256_spec 64 (repeat 0x0b 20) hi_there =
  [0xb0;0x34;0x4c;0x61;0xd8;0xdb;0x38;0x53;0x5c;0xa8;0xaf;0xce;0xaf;0x0b;0xf1;0x2b;
   0x88;0x1d;0xc2;0x00;0xc9;0x83;0x3d;0xa7;0x26;0xe9;0x37;0x6c;0x2e;0x32;0xcf;0xf7].
Proof. vm_compute. reflexivity. Qed.
Example hmac_sha512_rfc4231_1 : firstn 8 (hmac_spec sha512_spec 128 (repeat 0x0b 20) hi_there) =
  [0x87;0xaa;0x7c;0xde;0xa5;0xef;0x61;0x9d].
Proof. vm_compute. reflexivity. Qed.
