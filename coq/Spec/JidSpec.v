(* Reference definitions for C19: the RFC 7622 section 3.2 split of an address into
   localpart / domainpart / resourcepart, as plain list functions (definitions only).

     1. the resourcepart is everything after the first '/' (if there is one); remove it and the '/';
     2. the localpart is everything before the first '@' of what is left (if there is one);
     3. the domainpart is what remains.                                                        *)
Require Import LV.Common.Bytes.
Local Open Scope Z_scope.

Definition SLASH : Z := 47.
Definition AT : Z := 64.

Definition nul_free (s : list Z) : Prop := ~ In 0 s.
Definition nul_free_opt (o : option (list Z)) : Prop :=
  match o with Some s => nul_free s | None => True end.

(* everything before the first c (the whole list if there is no c) *)
Fixpoint before (c : Z) (s : list Z) : list Z :=
  match s with
  | [] => []
  | x :: r => if x =? c then [] else x :: before c r
  end.

(* everything after the first c; None if there is no c *)
Fixpoint after (c : Z) (s : list Z) : option (list Z) :=
  match s with
  | [] => None
  | x :: r => if x =? c then Some r else after c r
  end.

Definition spec_resource (j : list Z) : option (list Z) := after SLASH j.
Definition spec_bare (j : list Z) : list Z := before SLASH j.
Definition spec_node (j : list Z) : option (list Z) :=
  match after AT (spec_bare j) with
  | Some _ => Some (before AT (spec_bare j))
  | None => None
  end.
Definition spec_domain (j : list Z) : list Z :=
  match after AT (spec_bare j) with
  | Some d => d
  | None => spec_bare j
  end.

(* [ localpart "@" ] domainpart [ "/" resourcepart ] *)
Definition spec_join (n : option (list Z)) (d : list Z) (r : option (list Z)) : list Z :=
  (match n with Some n => n ++ [AT] | None => [] end) ++ d ++
  (match r with Some r => SLASH :: r | None => [] end).

(* RFC 7622 section 3.3.1: characters that must not appear in a localpart:
   U+0022 (double quote) U+0026 (ampersand) U+0027 (apostrophe) U+002F (slash) U+003A (colon)
   U+003C (less than) U+003E (greater than) U+0040 (at sign) *)
Definition spec_forbidden : list Z := [34; 38; 39; 47; 58; 60; 62; 64].
(* RFC 7622 sections 3.2-3.4: no part may be longer than 1023 octets *)
Definition spec_part_max : Z := 1023.

Definition is_forbidden (c : Z) : bool := existsb (Z.eqb c) spec_forbidden.
Definition local_ok (n : list Z) : bool := forallb (fun c => negb (is_forbidden c)) n.

Definition len_ok (o : option (list Z)) : bool :=
  match o with Some s => zlen s <=? spec_part_max | None => true end.

(* what xmpp_jid_new is specified to accept (property text): a domain is given, every part
   that is present is at most 1023 bytes long, a local part contains no forbidden character *)
Definition spec_new_ok (n d r : option (list Z)) : bool :=
  match d with
  | None => false
  | Some _ =>
      len_ok d && len_ok n && len_ok r &&
      match n with Some n => local_ok n | None => true end
  end.

(* hypotheses of the property statements, in Prop form *)
Definition chars_free (forb : list Z) (o : option (list Z)) : Prop :=
  match o with Some s => forall c, In c s -> ~ In c forb | None => True end.
Definition opt_len_le (o : option (list Z)) (m : Z) : Prop :=
  match o with Some s => zlen s <= m | None => True end.
Definition opt_len_gt (o : option (list Z)) (m : Z) : Prop :=
  match o with Some s => zlen s > m | None => False end.
