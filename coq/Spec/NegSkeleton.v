(* The handler-registration skeleton the model's tables were written against (by hand, from reading
   auth.c / conn.c).  Gen_neg.skeleton is regenerated from the C source on every run; skeleton_ok
   compares the two as sets, so that an added / removed / changed registration, time-out macro or
   "may call" edge breaks the theorem registration_skeleton_as_modelled. Definitions only. *)
From Coq Require Import List String Bool.
Import ListNotations.
Local Open Scope string_scope.

Definition expected_skeleton : list (string * string * list string) := [
  ("_auth", "_auth", []);
  ("_auth", "_auth_legacy", []);
  ("_auth", "conn_disconnect", []);
  ("_auth", "disconnect_mem_error", []);
  ("_auth", "handler_add", ["_handle_digestmd5_challenge"; "XMPP_NS_SASL"; "NULL"; "NULL"]);
  ("_auth", "handler_add", ["_handle_proceedtls_default"; "XMPP_NS_TLS"; "NULL"; "NULL"]);
  ("_auth", "handler_add", ["_handle_sasl_result"; "XMPP_NS_SASL"; "NULL"; "NULL"]);
  ("_auth", "handler_add", ["_handle_scram_challenge"; "XMPP_NS_SASL"; "NULL"; "NULL"]);
  ("_auth", "xmpp_disconnect", []);
  ("_auth_legacy", "disconnect_mem_error", []);
  ("_auth_legacy", "handler_add_id", ["_handle_legacy"; "'_xmpp_auth1'"]);
  ("_auth_legacy", "handler_add_timed", ["_handle_missing_legacy"; "LEGACY_TIMEOUT"]);
  ("_auth_legacy", "xmpp_disconnect", []);
  ("_do_bind", "disconnect_mem_error", []);
  ("_do_bind", "handler_add_id", ["_handle_bind"; "'_xmpp_bind1'"]);
  ("_do_bind", "handler_add_timed", ["_handle_missing_bind"; "BIND_TIMEOUT"]);
  ("_handle_bind", "_session_start", []);
  ("_handle_bind", "_sm_enable", []);
  ("_handle_bind", "_stream_negotiation_success", []);
  ("_handle_bind", "xmpp_disconnect", []);
  ("_handle_bind", "xmpp_timed_handler_delete", ["_handle_missing_bind"]);
  ("_handle_component_hs_response", "_stream_negotiation_success", []);
  ("_handle_component_hs_response", "xmpp_disconnect", []);
  ("_handle_component_hs_response", "xmpp_timed_handler_delete", ["_handle_missing_handshake"]);
  ("_handle_compress_result", "compression_init", []);
  ("_handle_compress_result", "conn_open_stream", []);
  ("_handle_compress_result", "conn_prepare_reset", ["_handle_open_sasl"]);
  ("_handle_digestmd5_challenge", "disconnect_mem_error", []);
  ("_handle_digestmd5_challenge", "handler_add", ["_handle_digestmd5_rspauth"; "XMPP_NS_SASL"; "NULL"; "NULL"]);
  ("_handle_digestmd5_rspauth", "disconnect_mem_error", []);
  ("_handle_features", "_auth", []);
  ("_handle_features", "xmpp_timed_handler_delete", ["_handle_missing_features"]);
  ("_handle_features", "xmpp_timed_handler_delete", ["_handle_missing_features_sasl"]);
  ("_handle_features_compress", "handler_add", ["_handle_compress_result"; "XMPP_NS_COMPRESSION"; "NULL"; "NULL"]);
  ("_handle_features_compress", "xmpp_timed_handler_delete", ["_handle_missing_features_sasl"]);
  ("_handle_features_sasl", "_do_bind", []);
  ("_handle_features_sasl", "disconnect_mem_error", []);
  ("_handle_features_sasl", "handler_add", ["_handle_sm"; "XMPP_NS_SM"; "NULL"; "NULL"]);
  ("_handle_features_sasl", "xmpp_disconnect", []);
  ("_handle_features_sasl", "xmpp_timed_handler_delete", ["_handle_missing_features_sasl"]);
  ("_handle_legacy", "_stream_negotiation_success", []);
  ("_handle_legacy", "xmpp_disconnect", []);
  ("_handle_legacy", "xmpp_timed_handler_delete", ["_handle_missing_legacy"]);
  ("_handle_missing_bind", "xmpp_disconnect", []);
  ("_handle_missing_features", "_auth", []);
  ("_handle_missing_features_sasl", "xmpp_disconnect", []);
  ("_handle_missing_handshake", "xmpp_disconnect", []);
  ("_handle_missing_legacy", "xmpp_disconnect", []);
  ("_handle_missing_session", "xmpp_disconnect", []);
  ("_handle_open_compress", "handler_add", ["_handle_features_compress"; "XMPP_NS_STREAMS"; "'features'"; "NULL"]);
  ("_handle_open_compress", "handler_add_timed", ["_handle_missing_features_sasl"; "FEATURES_TIMEOUT"]);
  ("_handle_open_sasl", "handler_add", ["_handle_features_sasl"; "XMPP_NS_STREAMS"; "'features'"; "NULL"]);
  ("_handle_open_sasl", "handler_add_timed", ["_handle_missing_features_sasl"; "FEATURES_TIMEOUT"]);
  ("_handle_open_tls", "handler_add", ["_handle_features"; "XMPP_NS_STREAMS"; "'features'"; "NULL"]);
  ("_handle_open_tls", "handler_add_timed", ["_handle_missing_features_sasl"; "FEATURES_TIMEOUT"]);
  ("_handle_proceedtls_default", "conn_open_stream", []);
  ("_handle_proceedtls_default", "conn_prepare_reset", ["_handle_open_tls"]);
  ("_handle_proceedtls_default", "conn_tls_start", []);
  ("_handle_proceedtls_default", "xmpp_disconnect", []);
  ("_handle_sasl_result", "_auth", []);
  ("_handle_sasl_result", "conn_open_stream", []);
  ("_handle_sasl_result", "conn_prepare_reset", ["conn->compression.allowed ? _handle_open_compress : _handle_open_sasl"]);
  ("_handle_sasl_result", "xmpp_disconnect", []);
  ("_handle_scram_challenge", "disconnect_mem_error", []);
  ("_handle_session", "_sm_enable", []);
  ("_handle_session", "_stream_negotiation_success", []);
  ("_handle_session", "xmpp_disconnect", []);
  ("_handle_session", "xmpp_timed_handler_delete", ["_handle_missing_session"]);
  ("_handle_sm", "_do_bind", []);
  ("_handle_sm", "_stream_negotiation_success", []);
  ("_handle_sm", "disconnect_mem_error", []);
  ("_handle_sm", "xmpp_disconnect", []);
  ("_session_start", "disconnect_mem_error", []);
  ("_session_start", "handler_add_id", ["_handle_session"; "'_xmpp_session1'"]);
  ("_session_start", "handler_add_timed", ["_handle_missing_session"; "SESSION_TIMEOUT"]);
  ("_sm_enable", "disconnect_mem_error", []);
  ("_sm_enable", "handler_add", ["_handle_sm"; "XMPP_NS_SM"; "NULL"; "NULL"]);
  ("_stream_negotiation_success", "assign", ["conn->stream_negotiation_completed"; "1"]);
  ("auth_handle_component_open", "handler_add", ["_handle_component_hs_response"; "NULL"; "'handshake'"; "NULL"]);
  ("auth_handle_component_open", "handler_add", ["_handle_error"; "XMPP_NS_STREAMS"; "'error'"; "NULL"]);
  ("auth_handle_component_open", "handler_add_timed", ["_handle_missing_handshake"; "HANDSHAKE_TIMEOUT"]);
  ("auth_handle_component_open", "xmpp_disconnect", []);
  ("auth_handle_open", "handler_add", ["_handle_error"; "XMPP_NS_STREAMS"; "'error'"; "NULL"]);
  ("auth_handle_open", "handler_add", ["_handle_features"; "XMPP_NS_STREAMS"; "'features'"; "NULL"]);
  ("auth_handle_open", "handler_add_timed", ["_handle_missing_features"; "FEATURES_TIMEOUT"]);
  ("auth_handle_open_raw", "_stream_negotiation_success", []);
  ("_conn_connect", "conn_prepare_reset", ["open_handler"]);
  ("_conn_reset", "assign", ["conn->bind_required"; "0"]);
  ("_conn_reset", "assign", ["conn->compression.supported"; "0"]);
  ("_conn_reset", "assign", ["conn->error"; "0"]);
  ("_conn_reset", "assign", ["conn->intf"; "sock_intf"]);
  ("_conn_reset", "assign", ["conn->intf.conn"; "conn"]);
  ("_conn_reset", "assign", ["conn->sasl_support"; "0"]);
  ("_conn_reset", "assign", ["conn->secured"; "0"]);
  ("_conn_reset", "assign", ["conn->send_queue_head"; "NULL"]);
  ("_conn_reset", "assign", ["conn->send_queue_len"; "0"]);
  ("_conn_reset", "assign", ["conn->send_queue_tail"; "NULL"]);
  ("_conn_reset", "assign", ["conn->send_queue_user_len"; "0"]);
  ("_conn_reset", "assign", ["conn->session_required"; "0"]);
  ("_conn_reset", "assign", ["conn->stream_negotiation_completed"; "0"]);
  ("_conn_reset", "assign", ["conn->tls_failed"; "0"]);
  ("_conn_reset", "assign", ["conn->tls_support"; "0"]);
  ("_disconnect_cleanup", "conn_disconnect", []);
  ("_handle_stream_start", "conn_disconnect", []);
  ("_reset_sm_state_for_reconnect", "assign", ["conn->bound_jid"; "NULL"]);
  ("conn_disconnect", "assign", ["conn->state"; "XMPP_STATE_DISCONNECTED"]);
  ("conn_disconnect", "assign", ["conn->stream_negotiation_completed"; "0"]);
  ("conn_disconnect", "assign", ["conn->tls"; "NULL"]);
  ("conn_disconnect_clean", "conn_disconnect", []);
  ("conn_disconnect_clean", "xmpp_timed_handler_delete", ["_disconnect_cleanup"]);
  ("conn_established", "conn_disconnect", []);
  ("conn_established", "conn_open_stream", []);
  ("conn_established", "conn_tls_start", []);
  ("conn_open_stream", "conn_disconnect", []);
  ("conn_parser_reset", "assign", ["conn->reset_parser"; "0"]);
  ("conn_prepare_reset", "assign", ["conn->open_handler"; "handler"]);
  ("conn_prepare_reset", "assign", ["conn->reset_parser"; "1"]);
  ("xmpp_conn_open_stream", "conn_prepare_reset", ["auth_handle_open_raw"]);
  ("xmpp_conn_open_stream_default", "conn_open_stream", []);
  ("xmpp_conn_open_stream_default", "conn_prepare_reset", ["auth_handle_open_raw"]);
  ("xmpp_conn_release", "conn_disconnect", []);
  ("xmpp_conn_tls_start", "conn_tls_start", []);
  ("xmpp_disconnect", "handler_add_timed", ["_disconnect_cleanup"; "DISCONNECT_TIMEOUT"])
].

Fixpoint strs_eqb (a b : list string) : bool :=
  match a, b with
  | [], [] => true
  | x :: r, y :: r' => String.eqb x y && strs_eqb r r'
  | _, _ => false
  end.
Definition entry_eqb (a b : string * string * list string) : bool :=
  String.eqb (fst (fst a)) (fst (fst b)) && String.eqb (snd (fst a)) (snd (fst b)) && strs_eqb (snd a) (snd b).
Definition subset (a b : list (string * string * list string)) : bool :=
  forallb (fun x => existsb (entry_eqb x) b) a.
Definition skeleton_ok (sk : list (string * string * list string)) : bool :=
  subset sk expected_skeleton && subset expected_skeleton sk.
