(* Executable statements of the connection-level properties over NegModel traces.
   Each `ok_*` is a predicate on one step (pre-state, op, post-state, outputs) that reads only the
   observable outputs, the user's configuration and the history variables (which are pure observers
   of what was received / written); `check_run ok` folds it over an arbitrary operation sequence.
   The property theorems have the shape  forall ops, check_run ok_X init_state ops = true. *)
Require Import LV.Common.Bytes LV.Gen.Gen_neg LV.Model.NegState LV.Model.NegModel.
Local Open Scope Z_scope.

Fixpoint check_run (ok : state -> op -> state -> list out -> bool) (s : state) (ops : list op) : bool :=
  match ops with
  | [] => true
  | o :: r => let '(s', outs) := step s o in ok s o s' outs && check_run ok s' r
  end.

(* ---------------------------------------------------------------- C02 *)
Definition is_cred (w : welem) : bool := match w with WAuth _ | WResponse | WLegacy | WHandshake => true | _ => false end.

(* mandatory TLS: no authentication data (SASL, legacy auth, the component handshake digest) leaves over the
   plain socket *)
Definition ok_mandatory (s : state) (_ : op) (_ : state) (outs : list out) : bool :=
  negb (f_tls_mandatory s) ||
  forallb (fun o => match o with OWire false w => negb (is_cred w) | _ => true end) outs.

(* disabled TLS: never requested, never started *)
Definition ok_disabled (s : state) (_ : op) (_ : state) (outs : list out) : bool :=
  negb (f_tls_disabled s) ||
  forallb (fun o => match o with OWire _ WStartTls => false | OTlsStart _ => false | _ => true end) outs.

(* PLAIN only if no stronger supported mechanism was offered on this connection *)
Definition ok_plain (s : state) (_ : op) (_ : state) (outs : list out) : bool :=
  forallb (fun o => match o with OWire _ (WAuth MPlain) => negb (g_strong (gh s)) | _ => true end) outs.

(* legacy jabber:iq:auth only with the flag, on client connections *)
Definition ok_legacy (s : state) (_ : op) (_ : state) (outs : list out) : bool :=
  forallb (fun o => match o with
                    | OWire _ WLegacy => f_legacy_auth s && match typ s with TClient => true | _ => false end
                    | _ => true end) outs.

(* ---------------------------------------------------------------- C03 *)
Definition justified (s : state) (w : welem) : bool :=
  let g := gh s in
  match w with
  | WStartTls => g_offer_tls g
  | WAuth m => mem_mech m (g_offered g)
  | WCompress => g_offer_zlib g
  | WBind _ => g_offer_bind g
  | WSession => g_offer_session g
  | WEnable _ | WResume => g_offer_sm g
  | _ => true
  end.
(* every negotiation request answers an offer received on this connection *)
Definition ok_offers (s : state) (_ : op) (_ : state) (outs : list out) : bool :=
  forallb (fun o => match o with OWire _ w => justified s w | _ => true end) outs.

(* the user's address appears in a stream header only on a TLS-protected stream;
   the bind request asks for the configured resource *)
Definition ok_header_bind (s : state) (_ : op) (_ : state) (outs : list out) : bool :=
  forallb (fun o => match o with
                    | OWire tls (WHeader from) => negb from || tls
                    | OWire _ (WBind r) => Bool.eqb r (jid_res s)
                    | _ => true end) outs.

(* "connected" is reported at most once per attempt (client and component connections; a raw connection
   reports it at every stream the user opens, as documented) and only when justified by what was received *)
Definition ok_connect (_ : state) (_ : op) (s' : state) (_ : list out) : bool :=
  (is_raw s' || Nat.leb (g_connects (gh s')) 1) && negb (g_conn_unjust (gh s')).

(* before "connected": no user handler runs, no user stanza reaches the wire *)
Fixpoint scan_user (up : bool) (outs : list out) : bool :=
  match outs with
  | [] => true
  | OConnect :: r => scan_user true r
  | ORawConnect :: r => scan_user true r
  | OUserHandler :: r => up && scan_user up r
  | OUserTimed :: r => up && scan_user up r
  | OWire _ WUser :: r => up && scan_user up r
  | _ :: r => scan_user up r
  end.
Definition ok_user (s : state) (_ : op) (_ : state) (outs : list out) : bool :=
  scan_user (Nat.ltb 0 (g_connects (gh s)) || g_rawc (gh s)) outs.

(* a security-layer change is followed by a stream restart: the step that starts TLS leaves a new
   stream header queued behind it and schedules the parser reset *)
Definition has_header (q : list (welem * bool * bool)) : bool :=
  existsb (fun x => match fst (fst x) with WHeader _ => true | _ => false end) q.
Definition ok_restart (_ : state) (_ : op) (s' : state) (outs : list out) : bool :=
  negb (existsb (fun o => match o with OTlsStart true => true | _ => false end) outs) ||
  match st s' with
  | Connected => is_raw s' || f_legacy_ssl s' || (reset_parser s' && has_header (sendq s'))
  | _ => true
  end.

(* ---------------------------------------------------------------- C13 *)
Fixpoint scan_no_connect_after (disc : bool) (outs : list out) : bool :=
  match outs with
  | [] => true
  | ODisconnect _ _ :: r => scan_no_connect_after true r
  | OConnect :: r => negb disc && scan_no_connect_after disc r
  | ORawConnect :: r => negb disc && scan_no_connect_after disc r
  | _ :: r => scan_no_connect_after disc r
  end.
Definition is_disc (c : cstate) : bool := match c with Disconnected => true | _ => false end.
(* at most one connect, then exactly one disconnect by the time the attempt is over, never two *)
Definition ok_outcome (s : state) (_ : op) (s' : state) (outs : list out) : bool :=
  let g := gh s' in
  (is_raw s' || Nat.leb (g_connects g) 1) && Nat.leb (g_disconnects g) 1 &&
  scan_no_connect_after (Nat.ltb 0 (g_disconnects (gh s)) && g_attempt (gh s)) outs &&
  (negb (g_attempt g) || Bool.eqb (is_disc (st s')) (Nat.eqb (g_disconnects g) 1)).

(* exactly one of the three state predicates holds and it agrees with the notifications *)
Definition ok_is (_ : state) (_ : op) (s' : state) (outs : list out) : bool :=
  let g := gh s' in
  let active := g_attempt g && Nat.eqb (g_disconnects g) 0 in
  let up := active && (Nat.ltb 0 (g_connects g) || g_rawc g) in
  forallb (fun o => match o with
                    | OIs cing ced dis _ =>
                        Bool.eqb dis (negb active) && Bool.eqb ced up && Bool.eqb cing (active && negb up)
                    | _ => true end) outs.

(* settings that only make sense offline are refused while connecting / connected;
   accepted flag words read back as set *)
Definition ok_flags (s : state) (o : op) (s' : state) (outs : list out) : bool :=
  match o with
  | OpSetFlags w =>
      forallb (fun x => match x with
                        | OFlags rc rb =>
                            (if is_disc (st s) then true else (rc =? XMPP_EINVOP) && (rb =? flags_readback s)) &&
                            (if rc =? XMPP_EOK then rb =? w else true)
                        | _ => true end) outs
  | _ => true
  end.

(* a stream error received on the connection is what the disconnect notification reports
   (condition and text; client and component connections) *)
Definition ok_stream_error (_ : state) (_ : op) (s' : state) (_ : list out) : bool :=
  negb (g_se_bad (gh s')).

(* ---------------------------------------------------------------- C01 (model part) *)
Definition ok_nocrash (_ : state) (_ : op) (s' : state) (outs : list out) : bool :=
  negb (crashed s') && negb (existsb (fun o => match o with OCrash => true | _ => false end) outs).

(* all of them at once (used by the correspondence driver to pre-validate statements on random runs) *)
Definition ok_all (s : state) (o : op) (s' : state) (outs : list out) : list bool :=
  [ok_mandatory s o s' outs; ok_disabled s o s' outs; ok_plain s o s' outs; ok_legacy s o s' outs;
   ok_offers s o s' outs; ok_header_bind s o s' outs; ok_connect s o s' outs; ok_user s o s' outs;
   ok_restart s o s' outs; ok_outcome s o s' outs; ok_is s o s' outs; ok_flags s o s' outs; ok_stream_error s o s' outs;
   ok_nocrash s o s' outs].

Fixpoint check_all (s : state) (ops : list op) (acc : list bool) : list bool :=
  match ops with
  | [] => acc
  | o :: r => let '(s', outs) := step s o in
              check_all s' r (map (fun p => andb (fst p) (snd p)) (combine acc (ok_all s o s' outs)))
  end.
Definition check_all_init (ops : list op) : list bool :=
  check_all init_state ops [true; true; true; true; true; true; true; true; true; true; true; true; true; true].
