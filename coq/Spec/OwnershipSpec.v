(* C12 - reference statements of ownership: "live <=> referenced".
   Definitions only.  Independent of how the model's operations are written: everything here talks about
   a heap, the table of user handles, and nothing else.

   - [handles]   : how many user handles (slots) name a node
   - [child_of]  : i is on the child list of p (reachable from p->children through ->next)
   - [attached]  : i has a parent pointer, the parent is live, and i is on the parent's child list
   - [ref_spec]  : ref(i) = handles(i) + [i attached]; a node without a parent pointer is not on any list
   - [forest]    : the abstract object graph (a forest of ordered trees of node ids) and the predicate
                   [repr] saying that a region of the heap is exactly such a tree
                   (the invariant built from it is in Proofs/StanzaHeapProofs.v) *)
Require Import LV.Common.Bytes LV.Model.StanzaModel LV.Model.StanzaHeapModel.
Local Open Scope Z_scope.

Definition live (h : sheap) (i : nat) (n : snode) : Prop := nth_error h i = Some (Some n).

Definition count_nat (l : list nat) (i : nat) : Z := zlen (filter (Nat.eqb i) l).

(* user handles: the slots that hold i *)
Fixpoint slot_ids (l : list (option nat)) : list nat :=
  match l with
  | [] => []
  | Some i :: r => i :: slot_ids r
  | None :: r => slot_ids r
  end.
Definition handles (st : sstate) (i : nat) : Z := count_nat (slot_ids (st_slots st)) i.

(* reachability along ->next *)
Inductive sib_reach (h : sheap) : option nat -> nat -> Prop :=
| sr_here : forall i, sib_reach h (Some i) i
| sr_next : forall c nc i, live h c nc -> sib_reach h (s_next nc) i -> sib_reach h (Some c) i.

Definition child_of (h : sheap) (p i : nat) : Prop :=
  exists pn, live h p pn /\ sib_reach h (s_children pn) i.

Definition attached (h : sheap) (i : nat) (n : snode) : Prop :=
  exists p, s_parent n = Some p /\ child_of h p i.

(* "ref n = user handles on n + [n is attached to a live parent]" *)
Definition ref_spec (st : sstate) : Prop :=
  forall i n, live (st_heap st) i n ->
    (attached (st_heap st) i n /\ s_ref n = handles st i + 1) \/
    (s_parent n = None /\ (forall p, ~ child_of (st_heap st) p i) /\ s_ref n = handles st i /\ 1 <= handles st i).

(* every handle names a live node *)
Definition handles_live (st : sstate) : Prop :=
  forall k i, slot st k = Some i -> exists n, live (st_heap st) i n.

Definition heap_empty (h : sheap) : Prop := forall c, In c h -> c = None.

(* ------------------------------------------------------------------------------------ *)
(* the abstract object graph                                                              *)
(* ------------------------------------------------------------------------------------ *)
Inductive T : Type := N (i : nat) (ks : list T).

Definition root (t : T) : nat := match t with N i _ => i end.
Definition kids (t : T) : list T := match t with N _ ks => ks end.

Fixpoint ids (t : T) : list nat := match t with N i ks => i :: flat_map ids ks end.
Definition idsl (ts : list T) : list nat := flat_map ids ts.

(* the child list starting at [start] is exactly ks (in order), each a tree with parent p *)
Section ChainP.
  Variable R : T -> Prop.
  Variable h : sheap.
  Fixpoint chainP (start : option nat) (ks : list T) : Prop :=
    match ks with
    | [] => start = None
    | k :: r => start = Some (root k) /\ R k /\ exists nk, live h (root k) nk /\ chainP (s_next nk) r
    end.
End ChainP.

Fixpoint repr (h : sheap) (par : option nat) (t : T) {struct t} : Prop :=
  match t with
  | N i ks => exists n, live h i n /\ s_parent n = par /\ chainP (repr h (Some i)) h (s_children n) ks
  end.

(* a detached root: no parent, no siblings *)
Definition root_ok (h : sheap) (t : T) : Prop :=
  repr h None t /\ exists n, live h (root t) n /\ s_next n = None /\ s_prev n = None.

(* ------------------------------------------------------------------------------------ *)
(* connection-lifetime objects                                                            *)
(* ------------------------------------------------------------------------------------ *)
(* who references an SM state object *)
Definition sm_owners (w : cworld) (s : nat) : Z :=
  count_nat (w_user_sm w) s +
  zlen (filter (fun c => match c with
                         | Some x => match c_sm x with Some s' => Nat.eqb s s' | None => false end
                         | None => false
                         end) (w_conns w)).

Definition sm_live (w : cworld) (s : nat) : Prop := exists q, nth_error (w_sms w) s = Some (Some q).

(* a live SM state has exactly one owner (a connection or the user); a freed one has none *)
Definition sm_single_owner (w : cworld) : Prop :=
  forall s, (s < length (w_sms w))%nat ->
    (sm_live w s /\ sm_owners w s = 1) \/ (nth_error (w_sms w) s = Some None /\ sm_owners w s = 0).

(* the connection object is live exactly while somebody holds a reference, and its count is that number *)
Definition conn_ref_spec (w : cworld) : Prop :=
  forall c, (c < length (w_conns w))%nat ->
    match nth_error (w_conns w) c with
    | Some (Some x) => c_ref x = count_nat (w_user_conn w) c /\ 1 <= c_ref x
    | _ => count_nat (w_user_conn w) c = 0
    end.
