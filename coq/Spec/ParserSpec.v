(* C10 - reference definitions for the layer libstrophe puts on top of expat (definitions only).

   Vocabulary shared with the model: the SAX events expat hands to libstrophe's callbacks, the
   stanza trees, and the three kinds of output the layer hands to its owner.

   Specification: an abstract, well-formed document (an XML infoset: a root element whose
   children are whole elements and text) is *flattened* to SAX events -- text in arbitrarily
   many pieces, empty ones included -- and independently mapped to what a namespace-aware tree
   builder must report: stream start, the complete depth-1 trees (names, namespaces, attributes,
   text whole and in order), stream end.  Nothing here looks at the model. *)
Require Import LV.Common.Bytes.
Local Open Scope Z_scope.

(* ------------------------------------------------------------------------------------ *)
(* vocabulary                                                                            *)
(* ------------------------------------------------------------------------------------ *)
Definition str := list Z.                    (* a C string: its bytes, NUL-free by convention *)
Definition alist := list (str * str).

(* what expat (namespace mode, separator sep) delivers, plus the owner's restart request *)
Inductive sax : Type :=
| SStart (qname : str) (attrs : alist)       (* qname/attribute names: URI ++ [sep] ++ local, or local *)
| SEnd (qname : str)
| SChars (s : str)                           (* (s, len) of the character data handler *)
| SReset.                                    (* parser_reset between two feeds *)

Inductive node : Type :=
| Elem (name : str) (attrs : alist) (children : list node)
| Text (s : str).

Inductive out : Type :=
| StreamStart (name : str) (attrs : alist)   (* startcb(name, attrs): local name, attributes untouched *)
| Stanza (t : node)                          (* stanzacb *)
| StreamEnd (qname : str).                   (* endcb(name): the qualified name as delivered *)

(* ------------------------------------------------------------------------------------ *)
(* qualified names                                                                       *)
(* ------------------------------------------------------------------------------------ *)
(* position of the first separator *)
Fixpoint before_sep (sep : Z) (q : str) : option str :=
  match q with
  | [] => None
  | c :: r => if c =? sep then Some []
              else match before_sep sep r with Some p => Some (c :: p) | None => None end
  end.
Fixpoint after_sep (sep : Z) (q : str) : option str :=
  match q with
  | [] => None
  | c :: r => if c =? sep then Some r else after_sep sep r
  end.
Definition spec_ns (sep : Z) (q : str) : option str := before_sep sep q.
Definition spec_local (sep : Z) (q : str) : str :=
  match after_sep sep q with Some l => l | None => q end.

(* the separator must be a byte that can occur neither in a name nor in a namespace URI: not an XML
   1.0 Char (#x9 | #xA | #xD | [#x20-...]) and not NUL (the names are C strings) *)
Definition sep_not_xml_char (s : Z) : bool :=
  (0 <? s) && (s <? 32) && negb (s =? 9) && negb (s =? 10) && negb (s =? 13).

(* ------------------------------------------------------------------------------------ *)
(* attributes of a stanza: a finite map.  As a list: one entry per distinct key, at the place of
   the key's first occurrence, carrying the value of its last occurrence.                 *)
(* ------------------------------------------------------------------------------------ *)
Definition str_eqb (a b : str) : bool := if list_eq_dec Z.eq_dec a b then true else false.

Fixpoint last_value (k : str) (l : alist) (d : str) : str :=
  match l with
  | [] => d
  | (k', v) :: r => last_value k r (if str_eqb k k' then v else d)
  end.
Fixpoint mem_key (k : str) (l : alist) : bool :=
  match l with [] => false | (k', _) :: r => str_eqb k k' || mem_key k r end.
(* keys in order of first occurrence; seen = keys already emitted *)
Fixpoint first_keys (seen : list str) (l : alist) : list str :=
  match l with
  | [] => []
  | (k, _) :: r => if existsb (str_eqb k) seen then first_keys seen r
                   else k :: first_keys (k :: seen) r
  end.
Definition finmap_of (l : alist) : alist :=
  map (fun k => (k, last_value k l [])) (first_keys [] l).

Definition xmlns_key : str := [120; 109; 108; 110; 115].    (* "xmlns" *)

(* attribute names lose their namespace (libstrophe's data model has none for attributes); an
   attribute that has no namespace is never shadowed by one that has; the element's namespace
   becomes the attribute xmlns and shadows everything else of that name *)
Definition qualified (sep : Z) (k : str) : bool :=
  match before_sep sep k with Some _ => true | None => false end.
Definition spec_attrs (sep : Z) (q : str) (attrs : alist) : alist :=
  let strip := map (fun kv : str * str => (spec_local sep (fst kv), snd kv)) in
  finmap_of (strip (filter (fun kv => qualified sep (fst kv)) attrs) ++
             strip (filter (fun kv => negb (qualified sep (fst kv))) attrs) ++
             match spec_ns sep q with Some ns => [(xmlns_key, ns)] | None => [] end).

(* ------------------------------------------------------------------------------------ *)
(* abstract documents and their flattening to events                                     *)
(* ------------------------------------------------------------------------------------ *)
Inductive xnode : Type :=
| XElem (qname : str) (attrs : alist) (children : list xnode)
| XText (piece : str) (more : list str).     (* character data as delivered: one or more pieces *)

Fixpoint events_of_node (n : xnode) : list sax :=
  match n with
  | XElem q a cs => SStart q a :: flat_map events_of_node cs ++ [SEnd q]
  | XText p ps => map SChars (p :: ps)
  end.

Record xdoc : Type := { root_q : str; root_attrs : alist; top : list xnode; closed : bool }.

Definition events_of_doc (d : xdoc) : list sax :=
  SStart (root_q d) (root_attrs d) :: flat_map events_of_node (top d) ++
  (if closed d then [SEnd (root_q d)] else []).

(* ------------------------------------------------------------------------------------ *)
(* the tree builder                                                                      *)
(* ------------------------------------------------------------------------------------ *)
(* text adjacent to the front of an already built child list joins its first text node *)
Definition cons_text (t : str) (l : list node) : list node :=
  match l with
  | Text u :: r => Text (t ++ u) :: r
  | _ => Text t :: l
  end.

Fixpoint spec_tree (sep : Z) (n : xnode) : node :=
  match n with
  | XText p ps => Text (concat (p :: ps))
  | XElem q a cs =>
      Elem (spec_local sep q) (spec_attrs sep q a)
           ((fix kids (l : list xnode) : list node :=
               match l with
               | [] => []
               | XText p ps :: r => cons_text (concat (p :: ps)) (kids r)
               | c :: r => spec_tree sep c :: kids r
               end) cs)
  end.
(* the same child-list builder, named *)
Fixpoint spec_children (sep : Z) (l : list xnode) : list node :=
  match l with
  | [] => []
  | XText p ps :: r => cons_text (concat (p :: ps)) (spec_children sep r)
  | c :: r => spec_tree sep c :: spec_children sep r
  end.

(* character data directly inside the stream element is not part of any stanza *)
Fixpoint spec_stanzas (sep : Z) (l : list xnode) : list out :=
  match l with
  | [] => []
  | XText _ _ :: r => spec_stanzas sep r
  | c :: r => Stanza (spec_tree sep c) :: spec_stanzas sep r
  end.

Definition spec_outputs (sep : Z) (d : xdoc) : list out :=
  StreamStart (spec_local sep (root_q d)) (root_attrs d) :: spec_stanzas sep (top d) ++
  (if closed d then [StreamEnd (root_q d)] else []).

(* ------------------------------------------------------------------------------------ *)
(* "the same events up to how character data is cut": every maximal run of SChars events is
   replaced by one SChars carrying the concatenation.  Two sequences differ only in the cutting
   iff they have the same normal form.  (A run of empty pieces is still a run: expat never
   delivers an empty piece, and a lone empty piece is not the same as no character data.)  *)
(* ------------------------------------------------------------------------------------ *)
Fixpoint merge_chars (evs : list sax) : list sax :=
  match evs with
  | [] => []
  | SChars s :: r =>
      match merge_chars r with
      | SChars t :: r' => SChars (s ++ t) :: r'
      | r' => SChars s :: r'
      end
  | e :: r => e :: merge_chars r
  end.
Definition same_up_to_cutting (evs evs' : list sax) : Prop := merge_chars evs = merge_chars evs'.

(* expat never reports a NUL inside character data (not an XML character) *)
Definition nul_free (s : str) : Prop := ~ In 0 s.
Definition ev_nul_free (e : sax) : Prop := match e with SChars s => nul_free s | _ => True end.
Fixpoint xnode_nul_free (n : xnode) : Prop :=
  match n with
  | XText p ps => Forall nul_free (p :: ps)
  | XElem _ _ cs => (fix all (l : list xnode) : Prop :=
                       match l with [] => True | c :: r => xnode_nul_free c /\ all r end) cs
  end.
Definition xdoc_nul_free (d : xdoc) : Prop := Forall xnode_nul_free (top d).

(* what expat guarantees about nesting, in its weakest useful form: between two restarts an end tag
   is only ever reported for an element that is open.  (Names need not match, several roots may
   follow each other, character data may come anywhere: more than expat can produce.) *)
Fixpoint ends_matched (d : Z) (evs : list sax) : bool :=
  match evs with
  | [] => true
  | SStart _ _ :: r => ends_matched (d + 1) r
  | SEnd _ :: r => (1 <=? d) && ends_matched (d - 1) r
  | SChars _ :: r => ends_matched d r
  | SReset :: r => ends_matched 0 r
  end.
