(* RFC 2831 (DIGEST-MD5) section 2.1.2.1: the response-value, and the shape of the
   digest-response of section 2.1.2 as XMPP uses it (no authzid, serv-type "xmpp", no serv-name).
   Definitions only; independent of Model/SaslModel.v.  MD5 is a parameter (RFC 1321, C17). *)
Require Import LV.Common.Bytes LV.Common.HashWords.
Local Open Scope Z_scope.

Definition COLON : list Z := [58].
Definition s_auth : list Z := [97; 117; 116; 104].                                  (* "auth" *)
Definition s_auth_int : list Z := [97; 117; 116; 104; 45; 105; 110; 116].           (* "auth-int" *)
Definition s_auth_conf : list Z := [97; 117; 116; 104; 45; 99; 111; 110; 102].      (* "auth-conf" *)
Definition s_AUTHENTICATE : list Z := [65; 85; 84; 72; 69; 78; 84; 73; 67; 65; 84; 69].
Definition s_nc1 : list Z := [48; 48; 48; 48; 48; 48; 48; 49].                       (* "00000001" *)

Fixpoint lbeq (a b : list Z) : bool :=
  match a, b with
  | [], [] => true
  | x :: a', y :: b' => (x =? y) && lbeq a' b'
  | _, _ => false
  end.

Section Rfc2831.
  Variable MD5 : list Z -> list Z.          (* H: 16 octets *)

  (* HEX(n): 32 lower-case hex digits *)
  Definition HEX (d : list Z) : list Z := hex_of_bytes false d.
  (* KD(k, s) = H({k, ":", s}) *)
  Definition KD (k s : list Z) : list Z := MD5 (k ++ COLON ++ s).

  (* A1 = { H( { username-value, ":", realm-value, ":", passwd } ), ":", nonce-value, ":", cnonce-value }
     (no authzid) *)
  Definition A1 (username realm passwd nonce cnonce : list Z) : list Z :=
    MD5 (username ++ COLON ++ realm ++ COLON ++ passwd) ++ COLON ++ nonce ++ COLON ++ cnonce.
  (* A2 = { "AUTHENTICATE:", digest-uri-value } for qop "auth",
          { "AUTHENTICATE:", digest-uri-value, ":00000000000000000000000000000000" } for auth-int / auth-conf *)
  Definition A2 (qop digest_uri : list Z) : list Z :=
    s_AUTHENTICATE ++ COLON ++ digest_uri ++
    (if lbeq qop s_auth_int || lbeq qop s_auth_conf then COLON ++ repeat 48 32 else []).

  (* response-value = HEX( KD ( HEX(H(A1)), { nonce-value, ":" nc-value, ":", cnonce-value, ":", qop-value, ":", HEX(H(A2)) })) *)
  Definition response_value (username realm passwd nonce cnonce nc qop digest_uri : list Z) : list Z :=
    HEX (KD (HEX (MD5 (A1 username realm passwd nonce cnonce)))
            (nonce ++ COLON ++ nc ++ COLON ++ cnonce ++ COLON ++ qop ++ COLON ++ HEX (MD5 (A2 qop digest_uri)))).

  Definition quoted (v : list Z) : list Z := [34] ++ v ++ [34].
  Definition directive (key value : list Z) : list Z := key ++ [61] ++ value.
  Fixpoint join_commas (l : list (list Z)) : list Z :=
    match l with
    | [] => []
    | [x] => x
    | x :: r => x ++ [44] ++ join_commas r
    end.

  (* the digest-response: username, realm, nonce, cnonce, nc, qop, digest-uri, response, [charset] *)
  Definition digest_response (username realm passwd nonce cnonce qop domain charset : list Z) : list Z :=
    let uri := [120; 109; 112; 112; 47] ++ domain in              (* serv-type "/" host *)
    join_commas
      [directive [117; 115; 101; 114; 110; 97; 109; 101] (quoted username);
       directive [114; 101; 97; 108; 109] (quoted realm);
       directive [110; 111; 110; 99; 101] (quoted nonce);
       directive [99; 110; 111; 110; 99; 101] (quoted cnonce);
       directive [110; 99] s_nc1;
       directive [113; 111; 112] qop;
       directive [100; 105; 103; 101; 115; 116; 45; 117; 114; 105] (quoted uri);
       directive [114; 101; 115; 112; 111; 110; 115; 101]
                 (response_value username realm passwd nonce cnonce s_nc1 qop uri);
       directive [99; 104; 97; 114; 115; 101; 116] charset].
End Rfc2831.
