(* RFC 5802 (SCRAM), server side: what a conforming server computes from the client's two messages
   and whether it accepts the proof.  Definitions only; independent of Model/SaslModel.v.
   H and HMAC are parameters (RFC 5802 section 2.2); base64 is the RFC 4648 reference of C18. *)
Require Import LV.Common.Bytes LV.Common.HashWords LV.Spec.Base64Spec.
Local Open Scope Z_scope.

(* ---- byte-string helpers ---- *)
Fixpoint beq (a b : list Z) : bool :=
  match a, b with
  | [], [] => true
  | x :: a', y :: b' => (x =? y) && beq a' b'
  | _, _ => false
  end.
Fixpoint has_prefix (p s : list Z) : bool :=
  match p, s with
  | [], _ => true
  | x :: p', y :: s' => (x =? y) && has_prefix p' s'
  | _ :: _, [] => false
  end.
(* the attributes of a message: maximal comma-free pieces *)
Fixpoint split_commas (s : list Z) : list (list Z) :=
  match s with
  | [] => [[]]
  | c :: r => if c =? 44 then [] :: split_commas r
              else match split_commas r with
                   | f :: fs => (c :: f) :: fs
                   | [] => [[c]]
                   end
  end.
(* value of a decimal digit string *)
Definition all_digits (s : list Z) : bool := forallb (fun c => (48 <=? c) && (c <=? 57)) s.
Definition dec_value (s : list Z) : Z := fold_left (fun a c => 10 * a + (c - 48)) s 0.

(* section 5.1: saslname = 1*(value-safe-char / "=2C" / "=3D") *)
Fixpoint saslname_decode (s : list Z) : option (list Z) :=
  match s with
  | [] => Some []
  | c :: r =>
    if c =? 44 then None
    else if c =? 61 then
      match r with
      | a :: b :: r' =>
        if (a =? 50) && (b =? 67) then option_map (cons 44) (saslname_decode r')
        else if (a =? 51) && (b =? 68) then option_map (cons 61) (saslname_decode r')
        else None
      | _ => None
      end
    else option_map (cons c) (saslname_decode r)
  end.

Definition client_key_label : list Z := [67; 108; 105; 101; 110; 116; 32; 75; 101; 121].  (* "Client Key" *)

Record account := { acc_user : list Z; acc_password : list Z; acc_salt : list Z; acc_iter : Z }.
(* the channel as the server sees it: is the mechanism a -PLUS variant, is TLS in place, and the
   channel-binding type / data of its own end of the TLS connection *)
Record channel := { ch_plus : bool; ch_tls : bool; ch_cbname : list Z; ch_cbdata : list Z }.

Section Rfc5802.
  Variable H : list Z -> list Z.
  Variable HMAC : list Z -> list Z -> list Z.       (* HMAC(key, str) *)
  Variable hlen : Z.                                (* output length of H *)

  Definition XOR (a b : list Z) : list Z := map2 Z.lxor a b.

  (* section 2.2:  U1 := HMAC(str, salt + INT(1)); Uk := HMAC(str, Uk-1); Hi := U1 XOR .. XOR Ui *)
  Fixpoint U (str salt : list Z) (k : nat) : list Z :=          (* U (k+1) *)
    match k with
    | O => HMAC str (salt ++ [0; 0; 0; 1])
    | S k' => HMAC str (U str salt k')
    end.
  Fixpoint Hi_upto (str salt : list Z) (k : nat) : list Z :=    (* U1 XOR .. XOR U(k+1) *)
    match k with
    | O => U str salt O
    | S k' => XOR (Hi_upto str salt k') (U str salt (S k'))
    end.
  Definition Hi (str salt : list Z) (i : Z) : list Z := Hi_upto str salt (Z.to_nat (i - 1)).

  (* section 3 *)
  Definition SaltedPassword (acc : account) : list Z := Hi (acc_password acc) (acc_salt acc) (acc_iter acc).
  Definition ClientKey (acc : account) : list Z := HMAC (SaltedPassword acc) client_key_label.
  Definition StoredKey (acc : account) : list Z := H (ClientKey acc).

  (* gs2-cbind-flag: "p=" cb-name for a -PLUS mechanism; otherwise "y" (the client could bind but
     believes the server cannot) on TLS and "n" without TLS *)
  Definition gs2_flag_ok (ch : channel) (flag : list Z) : bool :=
    if ch_plus ch then beq flag ([112; 61] ++ ch_cbname ch)
    else if ch_tls ch then beq flag [121] else beq flag [110].

  (* the server-first-message the server sent: r=<client nonce ++ own nonce>,s=<base64 salt>,i=<count> *)
  Definition server_first_ok (acc : account) (cnonce server_first : list Z) : bool :=
    match split_commas server_first with
    | [rattr; sattr; iattr] =>
        has_prefix ([114; 61] ++ cnonce) rattr && negb (beq rattr ([114; 61] ++ cnonce)) &&
        has_prefix [115; 61] sattr && valid_b64 (skipn 2 sattr) && beq (spec_decode (skipn 2 sattr)) (acc_salt acc) &&
        has_prefix [105; 61] iattr && all_digits (skipn 2 iattr) && negb (beq (skipn 2 iattr) []) &&
        (dec_value (skipn 2 iattr) =? acc_iter acc)
    | _ => false
    end.

  (* sections 5 and 7: parse both client messages, check the nonce, the channel-binding attribute
     and the proof *)
  Definition server_verify (acc : account) (ch : channel) (client_first server_first client_final : list Z) : bool :=
    match split_commas client_first with
    | [flag; authzid; nattr; rattr] =>
      let gs2 := flag ++ [44] ++ authzid ++ [44] in
      let bare := nattr ++ [44] ++ rattr in
      if negb (gs2_flag_ok ch flag && beq authzid [] && has_prefix [110; 61] nattr && has_prefix [114; 61] rattr) then false else
      match saslname_decode (skipn 2 nattr) with
      | None => false
      | Some u =>
        if negb (beq u (acc_user acc) && server_first_ok acc (skipn 2 rattr) server_first) then false else
        match split_commas server_first, split_commas client_final with
        | srattr :: _, [cattr; rattr2; pattr] =>
          if negb (has_prefix [99; 61] cattr && has_prefix [112; 61] pattr &&
                   beq rattr2 srattr &&
                   valid_b64 (skipn 2 cattr) &&
                   beq (spec_decode (skipn 2 cattr)) (gs2 ++ (if ch_plus ch then ch_cbdata ch else [])) &&
                   valid_b64 (skipn 2 pattr) && (zlen (spec_decode (skipn 2 pattr)) =? hlen)) then false else
          let proof := spec_decode (skipn 2 pattr) in
          (* AuthMessage := client-first-message-bare + "," + server-first-message + "," +
                            client-final-message-without-proof *)
          let auth := bare ++ [44] ++ server_first ++ [44] ++ cattr ++ [44] ++ rattr2 in
          let signature := HMAC (StoredKey acc) auth in
          (* ClientKey := ClientProof XOR ClientSignature; accept iff H(ClientKey) = StoredKey *)
          beq (H (XOR proof signature)) (StoredKey acc)
        | _, _ => false
        end
      end
    | _ => false
    end.
End Rfc5802.
