(* C06 - reference: the send queue as a plain FIFO list with a ghost log.  Definitions only.

   The abstract machine works on lists of entries (no pointers).  Its ghost log records every
   element ever queued, in queue order, with what became of it (still queued / completely written /
   dropped).  [Refines] is the linkage invariant tying a heap state of SendQueueModel to an abstract
   state: the doubly linked structure reachable from head spells exactly the abstract list. *)
Require Import LV.Common.Bytes LV.Model.SendQueueModel.
Local Open Scope Z_scope.

(* XEP-0198 ack request as libstrophe words it: <r xmlns='urn:xmpp:sm:3'/> *)
Definition spec_req_ack : list Z :=
  [60;114;32;120;109;108;110;115;61;39;117;114;110;58;120;109;112;112;58;115;109;58;51;39;47;62].

Record entry := mkE {
  e_id : nat;                 (* ghost identity *)
  e_owner : owner;
  e_data : list Z;
  e_sent : nat;               (* bytes of it the transport has accepted *)
  e_wip : bool;               (* a write has been attempted *)
  e_link : option nat;        (* the element an SM request belongs to *)
  e_smh : Z }.

Inductive status := Queued | Done | Dropped (live : bool).
Record lentry := mkL { l_e : entry; l_status : status }.

Record astate := mkA {
  a_q : list entry;
  a_smq : list entry;
  a_next : nat;
  a_sm_enabled : bool;
  a_r_sent : bool;
  a_sent_nr : Z;
  a_connected : bool;
  a_sched : list wres;
  a_wire : list (nat * Z);
  a_log : list lentry }.

Definition a_init (sm : bool) : astate := mkA [] [] 0 sm false 0 true [] [] [].

Definition e_user (e : entry) : bool := is_user (e_owner e).
Definition count_user (l : list entry) : nat := length (filter e_user l).

(* ---- queueing *)
Definition a_enqueue (a : astate) (data : list Z) (ow : owner) (link : option nat) : astate * nat :=
  let e := mkE (a_next a) ow data 0 false link 0 in
  (mkA (a_q a ++ [e]) (a_smq a) (S (a_next a)) (a_sm_enabled a) (a_r_sent a) (a_sent_nr a) (a_connected a)
       (a_sched a) (a_wire a) (a_log a ++ [mkL e Queued]), a_next a).

Definition a_set_r_sent (a : astate) (b : bool) : astate :=
  mkA (a_q a) (a_smq a) (a_next a) (a_sm_enabled a) b (a_sent_nr a) (a_connected a) (a_sched a) (a_wire a) (a_log a).

Definition a_send (a : astate) (ow0 : owner) (data : list Z) : astate :=
  if a_connected a then
    let ow := effective_owner (a_sm_enabled a) ow0 in
    let '(a1, item) := a_enqueue a data ow None in
    if negb (is_sm ow) && a_sm_enabled a1 && negb (a_r_sent a1) then
      let a2 := a_set_r_sent a1 true in
      if a_connected a2 then fst (a_enqueue a2 req_ack OwSmLib (Some item)) else a2
    else a1
  else a.

(* ---- ghost log maintenance *)
Definition log_set (log : list lentry) (e : entry) (s : status) : list lentry :=
  map (fun l => if Nat.eqb (e_id (l_e l)) (e_id e) then mkL e s else l) log.

Definition progress (e : entry) (w : nat) : entry :=
  mkE (e_id e) (e_owner e) (e_data e) w true (e_link e) (e_smh e).
Definition set_smh (e : entry) (h : Z) : entry :=
  mkE (e_id e) (e_owner e) (e_data e) (e_sent e) (e_wip e) (e_link e) h.

Definition tag (i : nat) (l : list Z) : list (nat * Z) := map (pair i) l.

(* ---- one iteration of the event loop: write from the front, stop at the first incomplete element *)
Fixpoint a_loop (q : list entry) (a : astate) (err : bool) : astate * bool :=
  match q with
  | [] => (mkA [] (a_smq a) (a_next a) (a_sm_enabled a) (a_r_sent a) (a_sent_nr a) (a_connected a)
               (a_sched a) (a_wire a) (a_log a), err)
  | e :: r =>
    let towrite := (length (e_data e) - e_sent e)%nat in
    let '(res, sched') := pop_sched (a_sched a) in
    let '(ret, er) := write_result res towrite in
    let acc := match ret with Some k => k | None => O end in
    let wire' := a_wire a ++ tag (e_id e) (firstn acc (skipn (e_sent e) (e_data e))) in
    let w' := match ret with
              | Some k => if (Nat.ltb 0 k && Nat.ltb k towrite)%bool then (e_sent e + k)%nat else e_sent e
              | None => e_sent e end in
    let e' := progress e w' in
    let complete := match ret with Some k => Nat.eqb k towrite | None => false end in
    if negb complete then
      (mkA (e' :: r) (a_smq a) (a_next a) (a_sm_enabled a) (a_r_sent a) (a_sent_nr a) (a_connected a)
           sched' wire' (log_set (a_log a) e' Queued), err || er)
    else
      let countable := negb (is_sm (e_owner e)) && a_sm_enabled a in
      let e'' := if countable then set_smh e' (a_sent_nr a) else e' in
      let smq' := if countable then a_smq a ++ [e''] else a_smq a in
      let nr' := if countable then w32 (a_sent_nr a + 1) else a_sent_nr a in
      a_loop r (mkA r smq' (a_next a) (a_sm_enabled a) (a_r_sent a) nr' (a_connected a)
                    sched' wire' (log_set (a_log a) e'' Done)) (err || er)
  end.

Definition a_disconnect (a : astate) : astate :=
  mkA (a_q a) (a_smq a) (a_next a) false false (a_sent_nr a) false (a_sched a) (a_wire a) (a_log a).

Definition a_iter (a : astate) : astate * bool :=
  if a_connected a then
    let '(a1, err) := a_loop (a_q a) a false in
    if err then (a_disconnect a1, true) else (a1, false)
  else (a, false).

(* ---- queue length as reported to the user *)
Definition a_qlen (a : astate) : Z :=
  match a_q a with
  | e :: _ => if e_wip e && e_user e then Z.of_nat (count_user (a_q a)) - 1 else Z.of_nat (count_user (a_q a))
  | [] => Z.of_nat (count_user (a_q a))
  end.

(* ---- dropping: which element, as a split  q = before ++ t :: after *)
Fixpoint split_first (l : list entry) : option (list entry * entry * list entry) :=
  match l with
  | [] => None
  | e :: r => if e_user e then Some ([], e, r)
              else match split_first r with Some (a, t, b) => Some (e :: a, t, b) | None => None end
  end.
Definition split_last (l : list entry) : option (list entry * entry * list entry) :=
  match split_first (rev l) with Some (a, t, b) => Some (rev b, t, rev a) | None => None end.

Definition a_target (q : list entry) (live : bool) (w : which) : option (list entry * entry * list entry) :=
  match w with
  | Oldest =>
    match q with
    | [] => None
    | hd :: r => if e_wip hd && live
                 then match split_first r with Some (a, t, b) => Some (hd :: a, t, b) | None => None end
                 else split_first q
    end
  | Youngest =>
    match split_last q with
    | None => None
    | Some ([], t, b) => if e_wip t && live
                         then match split_first b with Some (a', t', b') => Some (t :: a', t', b') | None => None end
                         else Some ([], t, b)
    | Some (a, t, b) => Some (a, t, b)
    end
  end.

Definition a_drop_at (a : astate) (before : list entry) (t : entry) (after : list entry) : astate * option (list Z) :=
  let st := Dropped (a_connected a) in
  match after with
  | x :: after' =>
    if opt_eqb (e_link x) (Some (e_id t)) then
      (mkA (before ++ after') (a_smq a) (a_next a) (a_sm_enabled a) false (a_sent_nr a) (a_connected a)
           (a_sched a) (a_wire a) (log_set (log_set (a_log a) x st) t st), Some (e_data t))
    else
      (mkA (before ++ after) (a_smq a) (a_next a) (a_sm_enabled a) (a_r_sent a) (a_sent_nr a) (a_connected a)
           (a_sched a) (a_wire a) (log_set (a_log a) t st), Some (e_data t))
  | [] =>
      (mkA (before ++ after) (a_smq a) (a_next a) (a_sm_enabled a) (a_r_sent a) (a_sent_nr a) (a_connected a)
           (a_sched a) (a_wire a) (log_set (a_log a) t st), Some (e_data t))
  end.

Definition a_drop_regular (a : astate) (w : which) : astate * option (list Z) :=
  match a_target (a_q a) (a_connected a) w with
  | None => (a, None)
  | Some (before, t, after) => a_drop_at a before t after
  end.

Definition a_drop (a : astate) (w : which) : astate * option (list Z) :=
  match a_q a with
  | [] => (a, None)
  | [e] => if e_wip e && a_connected a then (a, None)
           else if negb (e_user e) then (a, None)
           else a_drop_regular a w
  | _ => a_drop_regular a w
  end.

(* ---- server ack *)
Fixpoint ack_drop (l : list entry) (ack : Z) : list entry :=
  match l with [] => [] | e :: r => if e_smh e <? ack then ack_drop r ack else l end.

Definition a_ack (a : astate) (ack : Z) : astate :=
  if a_connected a && a_sm_enabled a then
    mkA (a_q a) (ack_drop (a_smq a) ack) (a_next a) (a_sm_enabled a) false (a_sent_nr a) (a_connected a)
        (a_sched a) (a_wire a) (a_log a)
  else a.

Definition a_add_sched (a : astate) (l : list wres) : astate :=
  mkA (a_q a) (a_smq a) (a_next a) (a_sm_enabled a) (a_r_sent a) (a_sent_nr a) (a_connected a)
      (a_sched a ++ l) (a_wire a) (a_log a).

Definition a_step (a : astate) (o : op) : astate * output :=
  match o with
  | OSend ow d => (a_send a ow d, OutNone)
  | OSched l => (a_add_sched a l, OutNone)
  | OIter => let r := a_iter a in
             (fst r, OutIter (map snd (skipn (length (a_wire a)) (a_wire (fst r)))) (snd r))
  | ODrop w => let r := a_drop a w in (fst r, OutDrop (snd r))
  | OQlen => (a, OutLen (a_qlen a))
  | OAck h => (a_ack a h, OutNone)
  end.

Fixpoint a_run (ops : list op) (a : astate) : astate * list output :=
  match ops with
  | [] => (a, [])
  | o :: r => let x := a_step a o in let y := a_run r (fst x) in (fst y, snd x :: snd y)
  end.

(* ------------------------------------------------------------------ what the log says should be on the wire *)
(* an element contributes its whole text, unless it was dropped: then only what had been accepted
   before (nothing at all when it was dropped on a live connection, see drop_never_started...) *)
Definition contribution (l : lentry) : list (nat * Z) :=
  match l_status l with
  | Dropped _ => tag (e_id (l_e l)) (firstn (e_sent (l_e l)) (e_data (l_e l)))
  | _ => tag (e_id (l_e l)) (e_data (l_e l))
  end.
Definition pending (q : list entry) : list (nat * Z) :=
  concat (map (fun e => tag (e_id e) (skipn (e_sent e) (e_data e))) q).
Definition on_wire (i : nat) (wire : list (nat * Z)) : Prop := exists b, In (i, b) wire.

(* a user element no write has been attempted for *)
Definition unstarted_user (e : entry) : bool := e_user e && negb (e_wip e).

(* the abstract state reached by a history *)
Definition abs (sm : bool) (ops : list op) : astate := fst (a_run ops (a_init sm)).

(* what a step adds to the log: (id, owner, text) of the elements it queues *)
Definition lkey (l : lentry) : nat * owner * list Z := (e_id (l_e l), e_owner (l_e l), e_data (l_e l)).
Definition submitted (a : astate) (o : op) : list (nat * owner * list Z) :=
  match o with
  | OSend ow0 d =>
    if a_connected a then
      let ow := effective_owner (a_sm_enabled a) ow0 in
      (a_next a, ow, d) ::
      (if negb (is_sm ow) && a_sm_enabled a && negb (a_r_sent a) then [(S (a_next a), OwSmLib, req_ack)] else [])
    else []
  | _ => []
  end.

(* ------------------------------------------------------------------ the linkage invariant *)
Definition entry_of (i : nat) (n : node) : entry :=
  mkE i (n_owner n) (n_data n) (n_written n) (n_wip n) (n_userdata n) (n_smh n).

Definition hd_id (l : list entry) (d : option nat) : option nat :=
  match l with [] => d | e :: _ => Some (e_id e) end.
Fixpoint last_id (l : list entry) (d : option nat) : option nat :=
  match l with [] => d | e :: r => last_id r (Some (e_id e)) end.

(* the cells of [l], in order, are live, carry the entries' contents, and are linked: the first one's prev
   is [p], each next is the following id, the last one's next is [nx], each prev the preceding id *)
Fixpoint lseg (h : heap) (p : option nat) (l : list entry) (nx : option nat) : Prop :=
  match l with
  | [] => True
  | e :: r => exists n, h (e_id e) = Live n /\ entry_of (e_id e) n = e /\ n_prev n = p /\
                        n_next n = hd_id r nx /\ lseg h (Some (e_id e)) r nx
  end.

Definition Refines (st : state) (a : astate) : Prop :=
  lseg (s_heap st) None (a_q a) None /\ s_head st = hd_id (a_q a) None /\ s_tail st = last_id (a_q a) None /\
  lseg (s_heap st) None (a_smq a) None /\ s_smq_head st = hd_id (a_smq a) None /\
  s_smq_tail st = last_id (a_smq a) None /\
  NoDup (map e_id (a_q a ++ a_smq a)) /\
  (forall x, (s_next st <= x)%nat -> s_heap st x = Unalloc) /\
  s_len st = Z.of_nat (length (a_q a)) /\ s_ulen st = Z.of_nat (count_user (a_q a)) /\
  s_next st = a_next a /\ s_sm_enabled st = a_sm_enabled a /\ s_r_sent st = a_r_sent a /\
  s_sent_nr st = a_sent_nr a /\ s_connected st = a_connected a /\ s_sched st = a_sched a /\
  s_wire st = a_wire a.

(* the queue as found by walking the heap from head *)
Definition entries_of (w : list (nat * node)) : list entry := map (fun x => entry_of (fst x) (snd x)) w.
