(* C16 - what a persisted stream-management state is, and its byte format, written from the property's point
   of view (independently of the code): a record of two counters, the session id and the two queues, and a
   tag-length-value encoding with big-endian 32-bit words. *)
Require Import LV.Common.Bytes.
Local Open Scope Z_scope.

Record astate := mkA {
  a_sent : Z;                          (* number of stanzas sent (next sequence number) *)
  a_handled : Z;                       (* number of stanzas handled *)
  a_id : list Z;                       (* stream-management session id *)
  a_unsent : list (list Z);            (* texts not yet written to the transport, oldest first *)
  a_unacked : list (Z * list Z) }.     (* (sequence number, text) written but not yet acknowledged *)

Definition is_u32 (x : Z) : Prop := 0 <= x < 4294967296.
Definition nul_free (l : list Z) : Prop := Forall (fun b => b <> 0) l.
(* a text as the library holds it: bytes of a C string *)
Definition wf_text (t : list Z) : Prop := bytes t /\ nul_free t.

(* tags *)
Definition T_WORD : Z := 26.           (* 0x1a *)
Definition T_STRING : Z := 122.        (* 0x7a *)
Definition T_UNSENT : Z := 154.        (* 0x9a *)
Definition T_UNACKED : Z := 186.       (* 0xba *)
Definition FORMAT_VERSION : Z := 0.

Definition word (v : Z) : list Z := [v / 16777216; (v / 65536) mod 256; (v / 256) mod 256; v mod 256].
Definition enc_word (v : Z) : list Z := T_WORD :: word v.
Definition enc_string (s : list Z) : list Z := T_STRING :: word (zlen s) ++ s.
Definition enc_acked (p : Z * list Z) : list Z := enc_word (fst p) ++ enc_string (snd p).

Definition encode (st : astate) : list Z :=
  enc_word FORMAT_VERSION ++ enc_word (a_sent st) ++ enc_word (a_handled st) ++ enc_string (a_id st)
  ++ (T_UNSENT :: word (zlen (a_unsent st))) ++ concat (map enc_string (a_unsent st))
  ++ (T_UNACKED :: word (zlen (a_unacked st))) ++ concat (map enc_acked (a_unacked st)).

Definition encoded_size (st : astate) : Z :=
  30 + zlen (a_id st)
  + fold_right (fun t a => 5 + zlen t + a) 0 (a_unsent st)
  + fold_right (fun p a => 10 + zlen (snd p) + a) 0 (a_unacked st).

(* the states the property quantifies over: any counters below 2^32, any NUL-free id, any queue contents
   (empty or large), as long as the whole serialisation stays below 4 GiB and the number of unsent elements
   fits the library's `int` counter *)
Definition wf_st (st : astate) : Prop :=
  is_u32 (a_sent st) /\ is_u32 (a_handled st) /\ wf_text (a_id st) /\
  Forall wf_text (a_unsent st) /\
  Forall (fun p => is_u32 (fst p) /\ wf_text (snd p)) (a_unacked st) /\
  zlen (a_unsent st) < 2147483648 /\
  encoded_size st < 4294967296.

(* the minimum length the format implies: six 5-byte headers *)
Definition MIN_LEN : Z := 30.
