(* XEP-0198 as properties C04 / C05 state it: a ghost server that watches the protocol points of the model
   (the marks `OG _` emitted by Model/SmModel.v), and the statements over client state + ghost server.
   Definitions only. *)
Require Import LV.Common.Bytes LV.Model.SmModel.
From Coq Require Import Permutation.
Local Open Scope Z_scope.

(* ---------------------------------------------------------------- the ghost server
   One logical XEP-0198 session at a time:
     g_recv      stanzas of the current logical session in the order the server counts them (a stanza is
                 counted when the client has written it completely while stream management is on; what the
                 server turns out not to have received is cut off when it reports <resumed h>)
     g_cur_done  those of them the server has reported as handled (<a h>, <resumed h>, <failed h>)
     g_old       the lists of earlier logical sessions
     g_done      every stanza ever released from the SM queue after a server report
     g_plain     countable elements written while stream management was off (never numbered)
     g_disc_*    countable elements freed from the send queue by a reconnect: never written completely
                 (fresh) / written before and re-queued by _sm_queue_resend (resent)
     g_subm      every countable element that ever entered the send queue (ghost ids, in order)
     g_in        stanzas dispatched to the client on the logical session since <enabled/>
     g_r, g_a    <r/> dispatched while the session is active / <a/> queued
     g_acks      h values of the <a/> queued;  g_resumes  h values of the <resume/> queued *)
Record ghost := mk_ghost {
  g_active : bool;
  g_sync : bool;
  g_recv : list Z;
  g_cur_done : list Z;
  g_old : list (list Z);
  g_done : list Z;
  g_plain : list Z;
  g_disc_fresh : list Z;
  g_disc_resent : list Z;
  g_subm : list Z;
  g_in : Z;
  g_r : Z;
  g_a : Z;
  g_acks : list Z;
  g_resumes : list Z
}.

Definition gset_active (g : ghost) (v : bool) : ghost :=
  mk_ghost v (g_sync g) (g_recv g) (g_cur_done g) (g_old g) (g_done g) (g_plain g) (g_disc_fresh g) (g_disc_resent g) (g_subm g) (g_in g) (g_r g) (g_a g) (g_acks g) (g_resumes g).
Definition gset_sync (g : ghost) (v : bool) : ghost :=
  mk_ghost (g_active g) v (g_recv g) (g_cur_done g) (g_old g) (g_done g) (g_plain g) (g_disc_fresh g) (g_disc_resent g) (g_subm g) (g_in g) (g_r g) (g_a g) (g_acks g) (g_resumes g).
Definition gset_recv (g : ghost) (v : list Z) : ghost :=
  mk_ghost (g_active g) (g_sync g) v (g_cur_done g) (g_old g) (g_done g) (g_plain g) (g_disc_fresh g) (g_disc_resent g) (g_subm g) (g_in g) (g_r g) (g_a g) (g_acks g) (g_resumes g).
Definition gset_cur_done (g : ghost) (v : list Z) : ghost :=
  mk_ghost (g_active g) (g_sync g) (g_recv g) v (g_old g) (g_done g) (g_plain g) (g_disc_fresh g) (g_disc_resent g) (g_subm g) (g_in g) (g_r g) (g_a g) (g_acks g) (g_resumes g).
Definition gset_old (g : ghost) (v : list (list Z)) : ghost :=
  mk_ghost (g_active g) (g_sync g) (g_recv g) (g_cur_done g) v (g_done g) (g_plain g) (g_disc_fresh g) (g_disc_resent g) (g_subm g) (g_in g) (g_r g) (g_a g) (g_acks g) (g_resumes g).
Definition gset_done (g : ghost) (v : list Z) : ghost :=
  mk_ghost (g_active g) (g_sync g) (g_recv g) (g_cur_done g) (g_old g) v (g_plain g) (g_disc_fresh g) (g_disc_resent g) (g_subm g) (g_in g) (g_r g) (g_a g) (g_acks g) (g_resumes g).
Definition gset_plain (g : ghost) (v : list Z) : ghost :=
  mk_ghost (g_active g) (g_sync g) (g_recv g) (g_cur_done g) (g_old g) (g_done g) v (g_disc_fresh g) (g_disc_resent g) (g_subm g) (g_in g) (g_r g) (g_a g) (g_acks g) (g_resumes g).
Definition gset_disc_fresh (g : ghost) (v : list Z) : ghost :=
  mk_ghost (g_active g) (g_sync g) (g_recv g) (g_cur_done g) (g_old g) (g_done g) (g_plain g) v (g_disc_resent g) (g_subm g) (g_in g) (g_r g) (g_a g) (g_acks g) (g_resumes g).
Definition gset_disc_resent (g : ghost) (v : list Z) : ghost :=
  mk_ghost (g_active g) (g_sync g) (g_recv g) (g_cur_done g) (g_old g) (g_done g) (g_plain g) (g_disc_fresh g) v (g_subm g) (g_in g) (g_r g) (g_a g) (g_acks g) (g_resumes g).
Definition gset_subm (g : ghost) (v : list Z) : ghost :=
  mk_ghost (g_active g) (g_sync g) (g_recv g) (g_cur_done g) (g_old g) (g_done g) (g_plain g) (g_disc_fresh g) (g_disc_resent g) v (g_in g) (g_r g) (g_a g) (g_acks g) (g_resumes g).
Definition gset_in (g : ghost) (v : Z) : ghost :=
  mk_ghost (g_active g) (g_sync g) (g_recv g) (g_cur_done g) (g_old g) (g_done g) (g_plain g) (g_disc_fresh g) (g_disc_resent g) (g_subm g) v (g_r g) (g_a g) (g_acks g) (g_resumes g).
Definition gset_r (g : ghost) (v : Z) : ghost :=
  mk_ghost (g_active g) (g_sync g) (g_recv g) (g_cur_done g) (g_old g) (g_done g) (g_plain g) (g_disc_fresh g) (g_disc_resent g) (g_subm g) (g_in g) v (g_a g) (g_acks g) (g_resumes g).
Definition gset_a (g : ghost) (v : Z) : ghost :=
  mk_ghost (g_active g) (g_sync g) (g_recv g) (g_cur_done g) (g_old g) (g_done g) (g_plain g) (g_disc_fresh g) (g_disc_resent g) (g_subm g) (g_in g) (g_r g) v (g_acks g) (g_resumes g).
Definition gset_acks (g : ghost) (v : list Z) : ghost :=
  mk_ghost (g_active g) (g_sync g) (g_recv g) (g_cur_done g) (g_old g) (g_done g) (g_plain g) (g_disc_fresh g) (g_disc_resent g) (g_subm g) (g_in g) (g_r g) (g_a g) v (g_resumes g).
Definition gset_resumes (g : ghost) (v : list Z) : ghost :=
  mk_ghost (g_active g) (g_sync g) (g_recv g) (g_cur_done g) (g_old g) (g_done g) (g_plain g) (g_disc_fresh g) (g_disc_resent g) (g_subm g) (g_in g) (g_r g) (g_a g) (g_acks g) v.

Definition g0 : ghost := mk_ghost false false [] [] [] [] [] [] [] [] 0 0 0 [] [].

Definition gapply (g : ghost) (m : gmark) : ghost :=
  match m with
  | GSubmit id => gset_subm g (g_subm g ++ [id])
  | GDone id numbered => if numbered then gset_recv g (g_recv g ++ [id]) else gset_plain g (g_plain g ++ [id])
  | GRelease ids => gset_cur_done (gset_done g (g_done g ++ ids)) (g_cur_done g ++ ids)
  | GAck _ => g
  | GNewSession =>
      gset_sync (gset_active (gset_cur_done (gset_recv (gset_old g (g_recv g :: g_old g)) []) []) true) false
  | GEnabledSeen => gset_in g 0
  | GEnabled => gset_sync g true
  | GResumed h => gset_active (gset_recv g (firstn (Z.to_nat h) (g_recv g))) true
  | GFailed =>
      gset_in (gset_sync (gset_active (gset_cur_done (gset_recv (gset_old g (g_recv g :: g_old g)) []) []) false) false) 0
  | GSmOff => gset_active g false
  | GDown => gset_active g false
  | GDiscard f r => gset_disc_resent (gset_disc_fresh g (g_disc_fresh g ++ f)) (g_disc_resent g ++ r)
  | GStanzaIn => if g_active g then gset_in g (g_in g + 1) else g
  | GRIn => if g_active g then gset_r g (g_r g + 1) else g
  | GAOut h => gset_acks (gset_a g (g_a g + 1)) (g_acks g ++ [h])
  | GResumeOut h => gset_resumes g (g_resumes g ++ [h])
  end.

Definition gout (g : ghost) (o : out) : ghost := match o with OG m => gapply g m | _ => g end.
Definition gfold (g : ghost) (l : list out) : ghost := fold_left gout l g.

(* client + ghost server *)
Definition sys : Type := state * ghost.
Definition sys0 : sys := (init, g0).
Definition sys_step (bt : list Z) (s : sys) (a : action) : sys :=
  let '(st', o) := step bt (fst s) a in (st', gfold (snd s) o).
Fixpoint sys_run (bt : list Z) (s : sys) (l : list action) : sys :=
  match l with [] => s | a :: r => sys_run bt (sys_step bt s a) r end.

(* ---------------------------------------------------------------- the one thing the statements ask of the server
   When it answers <resumed h>, h is its own count for that session: not below what it has already reported as
   handled, not above what the client has written, and the session carried fewer than 2^32 stanzas (the client
   compares sm_h with h as plain numbers).  Everything else - any element, any h in <a/> or <failed/>, at any
   time - is allowed. *)
Definition honest (s : sys) (a : action) : Prop :=
  match a with
  | AIn (ISm (SmResumed _ (Some h))) =>
      zlen (g_cur_done (snd s)) <= h <= zlen (g_recv (snd s)) /\ zlen (g_recv (snd s)) < W32
  | _ => True
  end.

Fixpoint all_honest (bt : list Z) (s : sys) (l : list action) : Prop :=
  match l with
  | [] => True
  | a :: r => honest s a /\ all_honest bt (sys_step bt s a) r
  end.

(* ---------------------------------------------------------------- vocabulary of the statements *)
Fixpoint seqZ (start : Z) (n : nat) : list Z :=
  match n with O => [] | S k => start :: seqZ (start + 1) k end.

Definition sq_countable (st : state) : list sqe := filter (fun e => countable (q_owner e)) (sq st).
Definition sqc (st : state) : list Z := map q_gid (sq_countable st).
Definition smqg (st : state) : list Z := map s_gid (smq st).

(* C04 sm_retained: the SM queue is exactly the written, countable, not yet reported stanzas of the logical
   session, in order, numbered consecutively (mod 2^32) up to sm_sent_nr - 1, and sm_sent_nr is the server's count *)
Definition retained (s : sys) : Prop :=
  let st := fst s in let g := snd s in
  g_sync g = true ->
    g_recv g = g_cur_done g ++ smqg st /\
    map s_h (smq st) = map w32 (seqZ (zlen (g_cur_done g)) (length (smq st))) /\
    sent_nr st = w32 (zlen (g_recv g)).

(* every submitted countable element is in exactly one place *)
Definition conserved (s : sys) : Prop :=
  let st := fst s in let g := snd s in
  NoDup (g_subm g) /\
  Permutation (g_subm g) (sqc st ++ smqg st ++ g_done g ++ g_plain g ++ g_disc_fresh g ++ g_disc_resent g).

(* no logical session receives a stanza twice *)
Definition sessions_nodup (g : ghost) : Prop := NoDup (g_recv g) /\ Forall (@NoDup Z) (g_old g).

(* everything released after a server report had been counted by the server in the session the report was about *)
Definition released_were_received (g : ghost) : Prop :=
  incl (g_done g) (g_recv g ++ concat (g_old g)).

(* the known class C04-resend-lost-on-reconnect: a reconnect while re-queued stanzas are still in the send queue *)
Definition reconnect_drops_resent (st : state) (a : action) : bool :=
  match a with
  | AConnect => negb (connected st) &&
                existsb (fun e => countable (q_owner e) && q_resend e) (sq st)
  | _ => false
  end.
Fixpoint known_C04_resend_lost (bt : list Z) (s : sys) (l : list action) : bool :=
  match l with
  | [] => false
  | a :: r => reconnect_drops_resent (fst s) a || known_C04_resend_lost bt (sys_step bt s a) r
  end.

(* ---------------------------------------------------------------- executable forms (used to test the statements
   on random histories through the extracted model before proving them; not part of any theorem) *)
Fixpoint zlist_eqb (a b : list Z) : bool :=
  match a, b with [], [] => true | x :: a', y :: b' => (x =? y) && zlist_eqb a' b' | _, _ => false end.
Fixpoint count (x : Z) (l : list Z) : nat := match l with [] => O | y :: r => Nat.add (if Z.eqb x y then 1%nat else O) (count x r) end.
Definition perm_b (a b : list Z) : bool :=
  forallb (fun x => Nat.eqb (count x a) (count x b)) (a ++ b).
Fixpoint nodup_b (l : list Z) : bool := match l with [] => true | x :: r => Nat.eqb (count x r) 0 && nodup_b r end.
Definition impb (a b : bool) : bool := negb a || b.
Definition is_none {A} (o : option A) : bool := match o with None => true | _ => false end.

Definition inv_all_b (s : sys) : bool :=          (* holds on every history *)
  let st := fst s in let g := snd s in
  Bool.eqb (sm_enabled st) (g_active g) &&
  (handled_nr st =? w32 (g_in g)) && (g_a g =? g_r g) &&
  nodup_b (g_subm g) &&
  perm_b (g_subm g) (sqc st ++ smqg st ++ g_done g ++ g_plain g ++ g_disc_fresh g ++ g_disc_resent g).

Definition inv_honest_b (s : sys) : bool :=       (* holds on histories with an honest server *)
  let st := fst s in let g := snd s in
  impb (g_sync g)
       (zlist_eqb (g_recv g) (g_cur_done g ++ smqg st) &&
        zlist_eqb (map s_h (smq st)) (map w32 (seqZ (zlen (g_cur_done g)) (length (smq st)))) &&
        (sent_nr st =? w32 (zlen (g_recv g)))) &&
  impb (negb (g_sync g)) (match g_recv g, g_cur_done g with [], [] => true | _, _ => false end) &&
  nodup_b (g_recv g) && forallb nodup_b (g_old g) &&
  forallb (fun x => Nat.ltb 0 (count x (g_recv g ++ concat (g_old g)))) (g_done g).

Definition honest_b (s : sys) (a : action) : bool :=
  match a with
  | AIn (ISm (SmResumed _ (Some h))) =>
      (zlen (g_cur_done (snd s)) <=? h) && (h <=? zlen (g_recv (snd s))) && (zlen (g_recv (snd s)) <? W32)
  | _ => true
  end.

(* auxiliary facts used by the proofs (tested here before being proved) *)
Definition nil_b {A} (l : list A) : bool := match l with [] => true | _ => false end.
Fixpoint suffix_b (suf l : list Z) : bool :=
  zlist_eqb suf l || match l with [] => false | _ :: r => suffix_b suf r end.
Definition aux_list (s : sys) : list bool :=
  let st := fst s in let g := snd s in
  [ impb (connected st && h_bind st) (negb (sm_enabled st) && negb (h_sm st) && negb (neg_done st) && is_none (sm_id st));
    impb (g_active g && negb (g_sync g)) (connected st && negb (neg_done st) && negb (h_bind st) && h_sm st && is_none (sm_id st));
    impb (connected st && negb (neg_done st) && negb (h_bind st)) (nil_b (sqc st));
    impb (negb (is_none (sm_id st))) (g_sync g && neg_done st && connected st && bound st);
    impb (negb (is_none (previd st))) (g_sync g && can_resume st && sm_bound st && negb (g_active g) && is_none (sm_id st));
    impb (connected st && h_bind st && sm_support st) (is_none (previd st));
    impb (connected st && h_sm st) (negb (neg_done st) && negb (h_bind st));
    impb (connected st && h_sm st && negb (sm_enabled st)) (negb (is_none (previd st)) && resume st);
    impb (connected st && h_sm st && sm_enabled st) (bound st && is_none (previd st));
    impb (negb (g_sync g)) (nil_b (g_recv g) && nil_b (g_cur_done g));
    suffix_b (g_cur_done g) (g_done g);
    impb (connected st && neg_done st) (negb (h_sm st) && negb (h_bind st) && negb (h_feat st));
    impb (negb (connected st)) (negb (sm_enabled st) && negb (neg_done st) && is_none (sm_id st));
    impb (connected st && h_feat st) (negb (neg_done st) && negb (h_bind st) && negb (h_sm st) && negb (sm_enabled st) && nil_b (sq st));
    impb (resume st) (connected st && negb (h_feat st))
  ].
