(* C14 - reference definitions for server discovery (definitions only).

   Vocabulary shared with the model (records of the inputs, the observable event alphabet),
   the flattened candidate list the property talks about, the documented constants, and the
   observers the theorems are stated with.  Nothing here mentions the model's cursor state. *)
Require Import LV.Common.Bytes.
Local Open Scope Z_scope.

(* ---------------------------------------------------------------- inputs *)

(* what one attempt (one socket()/connect() pair) meets *)
Inductive beh : Type :=
| Refuse   (* connect() fails at once (ECONNREFUSED) *)
| Accept   (* EINPROGRESS, then writable and getpeername() succeeds *)
| Late     (* EINPROGRESS, then writable but the connection failed (sock_connect_error <> 0) *)
| Hang.    (* EINPROGRESS and never writable *)

(* one decoded SRV record; the list handed to the model is already sorted (C15) *)
Record srv_rec : Type := mk_sr { sr_target : list Z; sr_port : Z; sr_prio : Z; sr_weight : Z }.

(* one endpoint: host name given to getaddrinfo, index of the address in the resolver's answer
   (0-based), port *)
Record cand : Type := mk_cand { c_host : list Z; c_idx : nat; c_port : Z }.

Inductive ctype : Type := Client | Raw | Component.

Record config : Type := mk_config {
  cf_type : ctype;            (* xmpp_connect_client / xmpp_connect_raw / xmpp_connect_component *)
  cf_flags : Z;               (* flag word accepted by xmpp_conn_set_flags *)
  cf_jid : option (list Z);   (* conn->jid *)
  cf_domain : list Z;         (* xmpp_jid_domain(conn->jid) (C19's function; an input here) *)
  cf_pass : bool;             (* conn->pass set *)
  cf_host : option (list Z);  (* altdomain / server argument *)
  cf_port : Z                 (* altport / port argument, 0 = not given *)
}.

(* ---------------------------------------------------------------- observable events *)

Inductive derr : Type := ErrTimedOut | ErrMinus1.   (* error handed to the XMPP_CONN_DISCONNECT callback *)

Inductive ev : Type :=
| EvQ (domain : list Z)                       (* res_query for _<service>._<proto>.<domain> *)
| EvG (host : list Z) (port : Z) (n : nat)    (* getaddrinfo(host, port): n addresses, 0 = failure *)
| EvC (fd : nat) (c : cand) (b : beh)         (* socket() + connect(); fd = number of earlier attempts *)
| EvX (fd : nat)                              (* close(fd) *)
| EvR (rc : Z)                                (* return code of xmpp_connect_* *)
| EvDisc (e : derr)                           (* XMPP_CONN_DISCONNECT notification *)
| EvRawConnect                                (* XMPP_CONN_RAW_CONNECT notification *)
| EvTls (fd : nat)                            (* legacy-SSL handshake started on fd *)
| EvHdr (fd : nat) (tls : bool) (to : list Z) (component : bool)   (* stream header written to fd *)
| EvTimedOut (fd : nat) (elapsed : Z)         (* "Connection attempt timed out." (log line), with the elapsed ms *)
| EvTick                                      (* end of one xmpp_run_once *)
| EvFuel.                                     (* model ran out of fuel (would be non-termination) *)

Inductive op : Type := OpRun | OpClock (d : Z).

(* ---------------------------------------------------------------- the documented constants *)

Definition spec_connect_timeout : Z := 5000.
Definition spec_port_client : Z := 5222.
Definition spec_port_legacy_ssl : Z := 5223.
Definition spec_port_component : Z := 5347.

Definition spec_default_port (t : ctype) (legacy_ssl : bool) : Z :=
  match t with
  | Component => spec_port_component
  | _ => if legacy_ssl then spec_port_legacy_ssl else spec_port_client
  end.

(* ---------------------------------------------------------------- the flattened candidate list *)

Section Flatten.
  Variable gai : list Z -> nat.     (* number of addresses getaddrinfo yields for a host; 0 = failure *)

  (* every resolved address of one target, in resolver order, with the target's port *)
  Definition endpoints_of (r : srv_rec) : list cand :=
    map (fun i => mk_cand (sr_target r) i (sr_port r)) (seq 0 (gai (sr_target r))).

  (* targets in list order (= ascending priority, then descending weight, for a sorted list),
     each with all its addresses *)
  Definition flatten (l : list srv_rec) : list cand := flat_map endpoints_of l.
End Flatten.

(* "sorted": ascending priority, within a priority descending weight (what C15 proves of the
   decoder's output).  [flatten_sorted_keys] in SrvProofs.v carries it over to the candidates. *)
Definition sr_le (a b : srv_rec) : Prop :=
  sr_prio a < sr_prio b \/ (sr_prio a = sr_prio b /\ sr_weight a >= sr_weight b).

(* the candidates tagged with their record's (priority, weight) *)
Definition flatten_keys (gai : list Z -> nat) (l : list srv_rec) : list (Z * Z) :=
  flat_map (fun r => map (fun _ => (sr_prio r, sr_weight r)) (endpoints_of gai r)) l.
Definition key_le (a b : Z * Z) : Prop :=
  fst a < fst b \/ (fst a = fst b /\ snd a >= snd b).

(* ---------------------------------------------------------------- which records are used *)

Definition flag_set (flags bit : Z) : bool := Z.odd (flags / bit).

Section Effective.
  Variable legacy_bit : Z.          (* XMPP_CONN_FLAG_LEGACY_SSL *)
  Variable max_domain : Z.          (* sizeof(rr->target) *)

  Definition legacy_ssl (cfg : config) : bool := flag_set (cf_flags cfg) legacy_bit.

  (* host that is connected to directly, without an SRV query *)
  Definition bypass_host (cfg : config) : option (list Z) :=
    match cf_type cfg with
    | Component => cf_host cfg
    | _ => match cf_host cfg with
           | Some h => Some h
           | None => if legacy_ssl cfg then Some (cf_domain cfg) else None
           end
    end.

  Definition effective_port (cfg : config) : Z :=
    if cf_port cfg =? 0 then spec_default_port (cf_type cfg) (legacy_ssl cfg) else cf_port cfg.

  Definition single_sr (h : list Z) (port : Z) : srv_rec :=
    mk_sr (firstn (Z.to_nat (max_domain - 1)) h) port 0 0.

  (* the record list whose flattening is the candidate list: the explicit host, else the SRV
     answer, else (lookup failed / empty) the domain itself *)
  Definition effective_rrs (cfg : config) (srv : option (list srv_rec)) : list srv_rec :=
    match bypass_host cfg with
    | Some h => [single_sr h (effective_port cfg)]
    | None => match srv with
              | Some (r :: l) => r :: l
              | _ => [single_sr (cf_domain cfg) (effective_port cfg)]
              end
    end.
End Effective.

(* a configuration the connect functions do not refuse outright: a JID is set; a component also
   names the server and has a password, and its flags do not demand TLS (XEP-0114 has none) *)
Definition config_ok (conflict_bits : Z -> bool) (cfg : config) : bool :=
  match cf_jid cfg with
  | None => false
  | Some _ =>
      match cf_type cfg with
      | Component =>
          match cf_host cfg with
          | Some _ => cf_pass cfg && negb (conflict_bits (cf_flags cfg))
          | None => false
          end
      | _ => true
      end
  end.

(* ---------------------------------------------------------------- observers of a trace *)

Definition attempt_of (e : ev) : list (nat * cand * beh) :=
  match e with EvC fd c b => [(fd, c, b)] | _ => [] end.
(* the ordered list of (descriptor, endpoint, what it met) given to connect() *)
Definition attempt_evs (tr : list ev) : list (nat * cand * beh) := flat_map attempt_of tr.
Definition attempts (tr : list ev) : list cand := map (fun x => snd (fst x)) (attempt_evs tr).

(* attempt k goes to the k-th candidate and meets behaviour (behv k) *)
Fixpoint number_from (behv : nat -> beh) (k : nat) (cs : list cand) : list (nat * cand * beh) :=
  match cs with
  | [] => []
  | c :: r => (k, c, behv k) :: number_from behv (S k) r
  end.

Definition is_failure (e : ev) : bool :=
  match e with
  | EvDisc _ => true
  | EvR rc => negb (rc =? 0)
  | _ => false
  end.
(* a failure return code or a disconnect notification *)
Definition failed (tr : list ev) : bool := existsb is_failure tr.

Definition is_timed_out (j : nat) (e : ev) : bool :=
  match e with EvTimedOut k _ => Nat.eqb k j | _ => false end.
(* attempt j was abandoned by the connect time-out *)
Definition timed_out (j : nat) (tr : list ev) : bool := existsb (is_timed_out j) tr.

Definition is_query (e : ev) : bool := match e with EvQ _ => true | _ => false end.
(* the SRV queries made, in order *)
Definition queries (tr : list ev) : list ev := filter is_query tr.

(* connection-established events (stream header, legacy-SSL handshake, raw-connect notification) *)
Definition no_est (e : ev) : Prop :=
  match e with EvHdr _ _ _ _ | EvTls _ | EvRawConnect => False | _ => True end.

(* the `to` of the stream header: the JID's domain, for a component the JID itself *)
Definition spec_stream_to (cfg : config) : list Z :=
  match cf_type cfg with
  | Component => match cf_jid cfg with Some j => j | None => [] end
  | _ => cf_domain cfg
  end.

(* such events concern descriptor fd only; the header is addressed as documented, in the component
   namespace exactly for components, inside TLS exactly for legacy SSL on a non-raw connection *)
Definition est_ok (legacy_bit : Z) (cfg : config) (fd : nat) (e : ev) : Prop :=
  match e with
  | EvHdr fd' tls to comp =>
      fd' = fd /\ to = spec_stream_to cfg /\
      comp = (match cf_type cfg with Component => true | _ => false end) /\
      tls = (legacy_ssl legacy_bit cfg && match cf_type cfg with Raw => false | _ => true end)
  | EvTls fd' => fd' = fd
  | _ => True
  end.

(* the loop is polled at least every [timeout] ms: between connect and the first run, and between
   two runs, the clock advances by at most [timeout] *)
Fixpoint timely_from (timeout acc : Z) (ops : list op) : Prop :=
  match ops with
  | [] => True
  | OpClock d :: r => 0 <= d /\ timely_from timeout (acc + d) r
  | OpRun :: r => acc <= timeout /\ timely_from timeout 0 r
  end.
Definition timely (timeout : Z) (ops : list op) : Prop := timely_from timeout 0 ops.
