(* C08 - the property as predicates: the decision table and what a run may look like.
   Definitions only.  The vocabulary (scenario, trace events) is the model's; nothing here looks at
   how the model computes a run. *)
From Coq Require Import List ZArith Bool Arith.
Require Import LV.Model.TlsPolicyModel.
Import ListNotations.
Local Open Scope Z_scope.

(* ---------------------------------------------------------------- user consent *)
(* the certificates on which OpenSSL's own verdict was "not ok", in the order they are reported *)
Definition failing_certs (stream : list (Z * Z)) : list Z :=
  map snd (filter (fun e => negb (fst e =? 1)) stream).

(* what the user's handler says when it is asked for the i-th time about certificate `cert` *)
Definition user_says (cb : cbk) (i : nat) (cert : Z) : option Z :=
  match cb with
  | CbNone => None
  | CbScript a d => Some (nth i a d)
  | CbByCert l d => Some (match find (fun kv => cert =? fst kv) l with Some kv => snd kv | None => d end)
  end.

(* the handler is installed and accepts the i-th failing certificate, being asked about that very certificate *)
Definition cb_accepts (cb : cbk) (i : nat) (cert : Z) : Prop :=
  exists a, user_says cb i cert = Some a /\ a <> 0.
Definition cb_accepts_b (cb : cbk) (i : nat) (cert : Z) : bool :=
  match user_says cb i cert with Some a => negb (a =? 0) | None => false end.

(* trust flag, or every failing certificate was accepted by an installed callback (vacuous when none failed) *)
Definition user_consent (sc : scenario) : Prop :=
  s_trust sc = true \/
  forall i cert, nth_error (failing_certs (s_stream sc)) i = Some cert -> cb_accepts (s_cb sc) i cert.
Fixpoint all_accepted_b (cb : cbk) (i : nat) (certs : list Z) : bool :=
  match certs with [] => true | c :: r => cb_accepts_b cb i c && all_accepted_b cb (S i) r end.
Definition user_consent_b (sc : scenario) : bool :=
  s_trust sc || all_accepted_b (s_cb sc) 0 (failing_certs (s_stream sc)).

(* ---------------------------------------------------------------- what a run may look like *)
(* after a failed handshake nothing but the stream close may be written, and only in the clear *)
Definition close_only (tr : list out) : bool :=
  match wire_of tr with
  | [] => true
  | [OWire false WClose] => true
  | _ => false
  end.

Definition connect_secured (tr : list out) : bool :=
  existsb (fun o => match o with OConnect true => true | _ => false end) tr.
Definition connected (tr : list out) : bool :=
  existsb (fun o => match o with OConnect _ => true | _ => false end) tr.

(* the whole property on one run *)
Definition policy_holds (sc : scenario) (c : conn) (tr : list out) : bool :=
  implb (ever_secured tr || tls_wire_used tr) (user_consent_b sc)
  && Nat.eqb (n_disconnects tr) 1
  && match c_state c with Disconnected => true | Connected => false end
  && negb (is_secured c)
  && match after_failed_start tr with
     | None => true
     | Some r => negb (ever_secured tr) && negb (tls_wire_used tr) && negb (connected tr) && close_only r
     end
  && negb (existsb is_crash tr).

Definition policy_ok (sc : scenario) : bool := policy_holds sc (fst (run sc)) (snd (run sc)).

(* ---------------------------------------------------------------- the decision table *)
Inductive kind : Type := KValid | KWrongName | KPartialWildcard | KExpired | KNotYetValid | KUntrustedIssuer | KSelfSigned.
Inductive tmode : Type := MTrustFlag | MNoCallback | MCallbackAccepts | MCallbackRejects.
Record cell : Type := mkCell { k_kind : kind; k_mode : tmode; k_entry : entry; k_ca : bool }.

Definition all_kinds := [KValid; KWrongName; KPartialWildcard; KExpired; KNotYetValid; KUntrustedIssuer; KSelfSigned].
Definition all_modes := [MTrustFlag; MNoCallback; MCallbackAccepts; MCallbackRejects].
Definition all_cells : list cell :=
  flat_map (fun k => flat_map (fun m => flat_map (fun e => map (fun ca => mkCell k m e ca) [true; false])
                                                 [EStartTls; ELegacy]) all_modes) all_kinds.

(* premise of the table (OpenSSL's part): the certificate chains to the configured anchor, is within its
   validity period and names the domain with at most a full-label wildcard *)
Definition cert_verifies (c : cell) : bool := match k_kind c with KValid => k_ca c | _ => false end.

(* the table: a session is trusted iff the certificate verifies or the user said so *)
Definition table_secured (c : cell) : bool :=
  cert_verifies c || match k_mode c with MTrustFlag | MCallbackAccepts => true | _ => false end.

Definition cell_scenario (c : cell) (before : list cbk) (mandatory : bool) (stream : list (Z * Z)) (hs_ok : bool) (te : Z)
                         (after : peer_after) : scenario :=
  mkScenario (match k_mode c with MTrustFlag => true | _ => false end)
             (k_ca c) false before
             (match k_mode c with
              | MCallbackAccepts => CbScript [] 1
              | MCallbackRejects => CbScript [] 0
              | _ => CbNone
              end)
             (k_entry c) mandatory true true stream hs_ok te after.

(* OpenSSL's verdict stream agrees with the premise *)
Definition stream_consistent (c : cell) (stream : list (Z * Z)) : Prop :=
  if cert_verifies c then Forall (fun e => fst e = 1) stream else exists e, In e stream /\ fst e <> 1.

(* expected values of what the translator reads out of tls_openssl.c *)
Definition SSL_VERIFY_NONE : Z := 0.
Definition SSL_VERIFY_PEER : Z := 1.
Definition X509_CHECK_FLAG_NO_PARTIAL_WILDCARDS : Z := 4.
Definition expected_verify_calls : list (Z * Z * Z) := [(1, SSL_VERIFY_NONE, 0); (2, SSL_VERIFY_PEER, 1)].
Definition expected_hostflags_calls : list (Z * Z) := [(0, X509_CHECK_FLAG_NO_PARTIAL_WILDCARDS)].
Definition expected_host_calls : list (Z * Z) := [(0, 1)].
Definition expected_verify_shape : list (Z * Z) := [(1, 1); (2, 0); (3, 0); (0, 100)].
Definition CURRENT_CERT : Z := 1.                               (* X509_STORE_CTX_get_current_cert *)
Definition expected_proceed_failure_calls : list Z := [1].     (* xmpp_disconnect, nothing else *)
Definition expected_legacy_failure_calls : list Z := [2; 6].   (* conn_disconnect; return *)
Definition expected_domain_writers : list Z := [1; 2].         (* _conn_connect and _conn_reset only *)
