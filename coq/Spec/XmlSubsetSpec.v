(* Reference definitions for C09, written independently of the renderer model:
   - the XML escaping of character data / attribute values and its inverse,
   - a namespace-aware (default namespace only) recursive-descent parser for the XML subset
     that stanzas are serialised in: start tags with double-quoted attributes, empty-element
     tags, end tags, character data, the five predefined entities.  Fuel = input length.
   - the RFC 6120 section 4.9.3 stream error condition names and namespaces.
   Definitions only. *)
Require Import LV.Common.Bytes.
Local Open Scope Z_scope.

Definition xstr := list Z.

Fixpoint xeq (a b : xstr) : bool :=
  match a, b with
  | [], [] => true
  | x :: a', y :: b' => (x =? y) && xeq a' b'
  | _, _ => false
  end.

(* ---------------------------------------------------------------------------------- *)
(* escaping                                                                            *)
(* ---------------------------------------------------------------------------------- *)
Definition c_lt : Z := 60.    (* < *)
Definition c_gt : Z := 62.    (* > *)
Definition c_amp : Z := 38.   (* & *)
Definition c_quot : Z := 34.  (* double quote *)
Definition c_apos : Z := 39.  (* apostrophe *)

Definition ent_lt : xstr := [38; 108; 116; 59].              (* &lt; *)
Definition ent_gt : xstr := [38; 103; 116; 59].              (* &gt; *)
Definition ent_amp : xstr := [38; 97; 109; 112; 59].         (* &amp; *)
Definition ent_quot : xstr := [38; 113; 117; 111; 116; 59].  (* &quot; *)
Definition ent_apos : xstr := [38; 97; 112; 111; 115; 59].   (* &apos; *)

(* what a serialiser using double-quoted attribute values has to replace *)
Definition xml_escape_table : list (Z * xstr) :=
  [(c_quot, ent_quot); (c_amp, ent_amp); (c_lt, ent_lt); (c_gt, ent_gt)].

Definition xml_escape1 (c : Z) : xstr :=
  if c =? c_lt then ent_lt else if c =? c_gt then ent_gt
  else if c =? c_amp then ent_amp else if c =? c_quot then ent_quot else [c].
Definition xml_escape (s : xstr) : xstr := flat_map xml_escape1 s.

(* the inverse: the five predefined entities; any other use of & is an error *)
Fixpoint unescape (s : xstr) : option xstr :=
  match s with
  | [] => Some []
  | c :: r =>
      if c =? c_amp then
        match r with
        | 108 :: 116 :: 59 :: r' => option_map (cons c_lt) (unescape r')
        | 103 :: 116 :: 59 :: r' => option_map (cons c_gt) (unescape r')
        | 97 :: 109 :: 112 :: 59 :: r' => option_map (cons c_amp) (unescape r')
        | 113 :: 117 :: 111 :: 116 :: 59 :: r' => option_map (cons c_quot) (unescape r')
        | 97 :: 112 :: 111 :: 115 :: 59 :: r' => option_map (cons c_apos) (unescape r')
        | _ => None
        end
      else option_map (cons c) (unescape r)
  end.

Fixpoint prefixb (p s : xstr) : bool :=
  match p, s with
  | [], _ => true
  | x :: p', y :: s' => (x =? y) && prefixb p' s'
  | _ :: _, [] => false
  end.

(* every & starts one of the four entities an escaper may produce *)
Definition starts_entity (s : xstr) : bool :=
  existsb (fun e => prefixb e s) [ent_lt; ent_gt; ent_amp; ent_quot].
Fixpoint amps_ok (s : xstr) : bool :=
  match s with
  | [] => true
  | c :: r => (if c =? c_amp then starts_entity s else true) && amps_ok r
  end.

Definition has (c : Z) (s : xstr) : bool := existsb (Z.eqb c) s.

(* ---------------------------------------------------------------------------------- *)
(* the abstract document                                                               *)
(* ---------------------------------------------------------------------------------- *)
Inductive xtree : Type :=
| XText (s : xstr)
| XElem (ns name : xstr) (attrs : list (xstr * xstr)) (children : list xtree).

Definition xmlns_name : xstr := [120; 109; 108; 110; 115].

(* ---------------------------------------------------------------------------------- *)
(* the parser                                                                          *)
(* ---------------------------------------------------------------------------------- *)
Definition is_ws (c : Z) : bool := (c =? 32) || (c =? 9) || (c =? 10) || (c =? 13).
(* bytes that may occur in a name: everything but white space and XML punctuation *)
Definition name_byte (c : Z) : bool :=
  negb (is_ws c || (c =? 60) || (c =? 62) || (c =? 47) || (c =? 61) || (c =? 34) || (c =? 39) || (c =? 38)).

Fixpoint span (p : Z -> bool) (s : xstr) : xstr * xstr :=
  match s with
  | [] => ([], [])
  | c :: r => if p c then let (a, b) := span p r in (c :: a, b) else ([], s)
  end.

Fixpoint assoc (k : xstr) (l : list (xstr * xstr)) : option xstr :=
  match l with
  | [] => None
  | (k', v) :: r => if xeq k k' then Some v else assoc k r
  end.

Fixpoint nodupb (l : list xstr) : bool :=
  match l with
  | [] => true
  | k :: r => negb (existsb (xeq k) r) && nodupb r
  end.

(* (S Name Eq DQUOTE AttValue DQUOTE)*  S?   -- returns the attributes and the rest, which starts
   at the first non-blank that does not begin a name *)
Fixpoint p_attrs (fuel : nat) (s : xstr) : option (list (xstr * xstr) * xstr) :=
  match fuel with
  | O => None
  | S f =>
      let (ws, s1) := span is_ws s in
      match s1 with
      | [] => None
      | c :: _ =>
          if name_byte c then
            match ws with
            | [] => None
            | _ :: _ =>
                let (k, s2) := span name_byte s1 in
                match s2 with
                | 61 :: 34 :: s3 =>
                    let (raw, s4) := span (fun c => negb (c =? 34)) s3 in
                    match s4 with
                    | 34 :: s5 =>
                        if has 60 raw then None else
                        match unescape raw with
                        | None => None
                        | Some v =>
                            match p_attrs f s5 with
                            | None => None
                            | Some (l, rest) => Some ((k, v) :: l, rest)
                            end
                        end
                    | _ => None
                    end
                | _ => None
                end
            end
          else Some ([], s1)
      end
  end.

(* element  := '<' Name attrs ('/>' | '>' content '</' Name S? '>')
   content  := (CharData | element)*
   dns is the default namespace in scope; an xmlns attribute replaces it for the element and
   its content and is not reported among the attributes. *)
Fixpoint p_elem (fuel : nat) (dns : xstr) (s : xstr) {struct fuel} : option (xtree * xstr) :=
  match fuel with
  | O => None
  | S f =>
      match s with
      | 60 :: s1 =>
          let (name, s2) := span name_byte s1 in
          match name with
          | [] => None
          | _ :: _ =>
              match p_attrs (S (length s2)) s2 with
              | None => None
              | Some (al, s3) =>
                  if negb (nodupb (map fst al)) then None else
                  let ns := match assoc xmlns_name al with Some v => v | None => dns end in
                  let al' := filter (fun kv => negb (xeq (fst kv) xmlns_name)) al in
                  match s3 with
                  | 47 :: 62 :: s4 => Some (XElem ns name al' [], s4)
                  | 62 :: s4 =>
                      match p_content f ns s4 with
                      | None => None
                      | Some (cs, s5) =>
                          match s5 with
                          | 60 :: 47 :: s6 =>
                              let (name2, s7) := span name_byte s6 in
                              if xeq name name2 then
                                match snd (span is_ws s7) with
                                | 62 :: s8 => Some (XElem ns name al' cs, s8)
                                | _ => None
                                end
                              else None
                          | _ => None
                          end
                      end
                  | _ => None
                  end
              end
          end
      | _ => None
      end
  end
with p_content (fuel : nat) (dns : xstr) (s : xstr) {struct fuel} : option (list xtree * xstr) :=
  match fuel with
  | O => None
  | S f =>
      match s with
      | [] => None
      | c :: r =>
          if c =? 60 then
            match r with
            | [] => None
            | c2 :: _ =>
                if c2 =? 47 then Some ([], s)          (* the end tag of the enclosing element *)
                else
                  match p_elem f dns s with
                  | None => None
                  | Some (e, s1) =>
                      match p_content f dns s1 with
                      | None => None
                      | Some (l, s2) => Some (e :: l, s2)
                      end
                  end
            end
          else
            let (raw, s1) := span (fun c => negb (c =? 60)) s in
            match unescape raw with
            | None => None
            | Some txt =>
                match p_content f dns s1 with
                | None => None
                | Some (l, s2) => Some (XText txt :: l, s2)
                end
            end
      end
  end.

(* exactly one element, nothing before or after *)
Definition spec_parse (dns : xstr) (s : xstr) : option xtree :=
  match p_elem (S (length s)) dns s with
  | Some (x, []) => Some x
  | _ => None
  end.

(* ---------------------------------------------------------------------------------- *)
(* RFC 6120                                                                            *)
(* ---------------------------------------------------------------------------------- *)
Definition str (l : list Z) : xstr := l.

Definition rfc_ns_client : xstr :=          (* "jabber:client" *)
  [106; 97; 98; 98; 101; 114; 58; 99; 108; 105; 101; 110; 116].
Definition rfc_ns_stanzas : xstr :=         (* "urn:ietf:params:xml:ns:xmpp-stanzas" *)
  [117; 114; 110; 58; 105; 101; 116; 102; 58; 112; 97; 114; 97; 109; 115; 58; 120; 109; 108; 58; 110; 115; 58;
   120; 109; 112; 112; 45; 115; 116; 97; 110; 122; 97; 115].
Definition rfc_ns_streams : xstr :=         (* "urn:ietf:params:xml:ns:xmpp-streams" *)
  [117; 114; 110; 58; 105; 101; 116; 102; 58; 112; 97; 114; 97; 109; 115; 58; 120; 109; 108; 58; 110; 115; 58;
   120; 109; 112; 112; 45; 115; 116; 114; 101; 97; 109; 115].
Definition s_error : xstr := [101; 114; 114; 111; 114].
Definition s_text : xstr := [116; 101; 120; 116].
Definition s_type : xstr := [116; 121; 112; 101].
Definition s_to : xstr := [116; 111].
Definition s_from : xstr := [102; 114; 111; 109].
Definition s_id : xstr := [105; 100].
Definition s_stream_error : xstr := [115; 116; 114; 101; 97; 109; 58; 101; 114; 114; 111; 114].

(* RFC 6120 4.9.3.1 - 4.9.3.25, minus <reset/> which the library has no enumerator for, in the
   order of xmpp_error_type_t *)
Definition rfc_stream_conditions : list xstr := [
  [98; 97; 100; 45; 102; 111; 114; 109; 97; 116];
  [98; 97; 100; 45; 110; 97; 109; 101; 115; 112; 97; 99; 101; 45; 112; 114; 101; 102; 105; 120];
  [99; 111; 110; 102; 108; 105; 99; 116];
  [99; 111; 110; 110; 101; 99; 116; 105; 111; 110; 45; 116; 105; 109; 101; 111; 117; 116];
  [104; 111; 115; 116; 45; 103; 111; 110; 101];
  [104; 111; 115; 116; 45; 117; 110; 107; 110; 111; 119; 110];
  [105; 109; 112; 114; 111; 112; 101; 114; 45; 97; 100; 100; 114; 101; 115; 115; 105; 110; 103];
  [105; 110; 116; 101; 114; 110; 97; 108; 45; 115; 101; 114; 118; 101; 114; 45; 101; 114; 114; 111; 114];
  [105; 110; 118; 97; 108; 105; 100; 45; 102; 114; 111; 109];
  [105; 110; 118; 97; 108; 105; 100; 45; 105; 100];
  [105; 110; 118; 97; 108; 105; 100; 45; 110; 97; 109; 101; 115; 112; 97; 99; 101];
  [105; 110; 118; 97; 108; 105; 100; 45; 120; 109; 108];
  [110; 111; 116; 45; 97; 117; 116; 104; 111; 114; 105; 122; 101; 100];
  [112; 111; 108; 105; 99; 121; 45; 118; 105; 111; 108; 97; 116; 105; 111; 110];
  [114; 101; 109; 111; 116; 101; 45; 99; 111; 110; 110; 101; 99; 116; 105; 111; 110; 45; 102; 97; 105; 108; 101; 100];
  [114; 101; 115; 111; 117; 114; 99; 101; 45; 99; 111; 110; 115; 116; 114; 97; 105; 110; 116];
  [114; 101; 115; 116; 114; 105; 99; 116; 101; 100; 45; 120; 109; 108];
  [115; 101; 101; 45; 111; 116; 104; 101; 114; 45; 104; 111; 115; 116];
  [115; 121; 115; 116; 101; 109; 45; 115; 104; 117; 116; 100; 111; 119; 110];
  [117; 110; 100; 101; 102; 105; 110; 101; 100; 45; 99; 111; 110; 100; 105; 116; 105; 111; 110];
  [117; 110; 115; 117; 112; 112; 111; 114; 116; 101; 100; 45; 101; 110; 99; 111; 100; 105; 110; 103];
  [117; 110; 115; 117; 112; 112; 111; 114; 116; 101; 100; 45; 115; 116; 97; 110; 122; 97; 45; 116; 121; 112; 101];
  [117; 110; 115; 117; 112; 112; 111; 114; 116; 101; 100; 45; 118; 101; 114; 115; 105; 111; 110];
  [120; 109; 108; 45; 110; 111; 116; 45; 119; 101; 108; 108; 45; 102; 111; 114; 109; 101; 100]
].
