/* C07 driver: the SASL helper functions of src/sasl.c / src/scram.c / src/rand.c called directly
   (like tests/test_scram.c does) with a scripted RNG: getrandom() is wrapped (ld --wrap=getrandom)
   and hands out the bytes given in the case line.
   Fields are hex ("-" = empty string).  One result line per case.
     P <authid> <password>                            -> P <hex of the returned string> | P null
     S <1|256|512>[p] <cb> <challenge> <first_bare> <password>
                                                      -> S <hex> | S null
     K <1|256|512> <password> <salt> <i>              -> K <hex of ClientKey>
     D <challenge> <jid> <password> <rnd>             -> D <hex> | D null   (+ " rng-underrun" / " rng-left=<n>")
     N <len> <rnd>                                    -> N <hex of the C string left in the buffer>
     Z <count>                                        -> Z <count> <number of distinct nonces>   (real getrandom)
   P, D and N run twice with different allocator poison; a difference prints "uninit".            */
#include "vharness.h"
#include <sys/types.h>
#include "common.h"
#include "sasl.h"
#include "scram.h"

extern const struct hash_alg scram_sha1, scram_sha1_plus, scram_sha256, scram_sha256_plus, scram_sha512,
    scram_sha512_plus;

static unsigned char rq[4096];
static size_t rq_len, rq_pos;
static int rq_under, rq_real;

ssize_t __real_getrandom(void *buf, size_t n, unsigned int flags);
ssize_t __wrap_getrandom(void *buf, size_t n, unsigned int flags)
{
    size_t i;
    unsigned char *p = buf;
    if (rq_real) return __real_getrandom(buf, n, flags);
    for (i = 0; i < n; i++) {
        if (rq_pos < rq_len) p[i] = rq[rq_pos++];
        else { p[i] = 0xEE; rq_under = 1; }
    }
    return (ssize_t)n;
}
static void rq_set(const char *hex)
{
    size_t n; unsigned char *b = vh_unhex(hex, &n);
    if (n > sizeof(rq)) n = sizeof(rq);
    memcpy(rq, b, n); rq_len = n; rq_pos = 0; rq_under = 0;
    free(b);
}

/* NUL-terminated copy of a hex field in an exact-size heap block */
static char *cstr(const char *hex)
{
    size_t n; unsigned char *b = vh_unhex(hex, &n);
    char *s = malloc(n + 1);
    memcpy(s, b, n); s[n] = 0; free(b);
    return s;
}
static const struct hash_alg *alg_of(const char *a)
{
    if (!strcmp(a, "1")) return &scram_sha1;
    if (!strcmp(a, "1p")) return &scram_sha1_plus;
    if (!strcmp(a, "256")) return &scram_sha256;
    if (!strcmp(a, "256p")) return &scram_sha256_plus;
    if (!strcmp(a, "512")) return &scram_sha512;
    if (!strcmp(a, "512p")) return &scram_sha512_plus;
    return NULL;
}
static int split(char *line, char **f, int max)
{
    int n = 0; char *p = line;
    while (n < max) {
        while (*p == ' ') p++;
        if (!*p) break;
        f[n++] = p;
        while (*p && *p != ' ') p++;
        if (*p) *p++ = 0;
    }
    return n;
}
static void put_str2(const char *tag, char *r1, char *r2)
{
    if (!r1 && !r2) printf("%s null", tag);
    else if (!r1 || !r2 || strcmp(r1, r2)) printf("%s uninit", tag);
    else { printf("%s ", tag); vh_puthex((unsigned char *)r1, strlen(r1)); }
}

int main(void)
{
    char *line;
    xmpp_ctx_t *ctx = xmpp_ctx_new(&vh_mem, NULL);
    while ((line = vh_getline())) {
        char *f[8]; int n = split(line, f, 8);
        if (n == 0) { puts(""); continue; }
        if (!strcmp(f[0], "P") && n == 3) {
            char *a = cstr(f[1]), *p = cstr(f[2]), *r1, *r2;
            vh_poison = 0xAA; r1 = sasl_plain(ctx, a, p);
            vh_poison = 0x55; r2 = sasl_plain(ctx, a, p);
            put_str2("P", r1, r2); putchar('\n');
            xmpp_free(ctx, r1); xmpp_free(ctx, r2); free(a); free(p);
        } else if (!strcmp(f[0], "S") && n == 6) {
            const struct hash_alg *alg = alg_of(f[1]);
            char *cb = cstr(f[2]), *ch = cstr(f[3]), *fb = cstr(f[4]), *pw = cstr(f[5]), *r;
            r = alg ? sasl_scram(ctx, alg, cb, ch, fb, "ignored@jid", pw) : NULL;
            if (!r) puts("S null");
            else { printf("S "); vh_puthex((unsigned char *)r, strlen(r)); putchar('\n'); }
            xmpp_free(ctx, r); free(cb); free(ch); free(fb); free(pw);
        } else if (!strcmp(f[0], "K") && n == 5) {
            const struct hash_alg *alg = alg_of(f[1]);
            size_t pl, sl; unsigned char *pw = vh_unhex(f[2], &pl), *salt = vh_unhex(f[3], &sl);
            uint8_t key[SCRAM_DIGEST_SIZE];
            memset(key, 0xCC, sizeof(key));
            SCRAM_ClientKey(alg, pw, pl, salt, sl, (uint32_t)strtoul(f[4], NULL, 10), key);
            printf("K "); vh_puthex(key, alg->digest_size); putchar('\n');
            free(pw); free(salt);
        } else if (!strcmp(f[0], "D") && n == 5) {
            char *ch = cstr(f[1]), *jid = cstr(f[2]), *pw = cstr(f[3]), *r1, *r2;
            size_t left;
            rq_set(f[4]); vh_poison = 0xAA; r1 = sasl_digest_md5(ctx, ch, jid, pw);
            left = rq_len - rq_pos;
            rq_set(f[4]); vh_poison = 0x55; r2 = sasl_digest_md5(ctx, ch, jid, pw);
            put_str2("D", r1, r2);
            if (rq_under) printf(" rng-underrun");
            else if ((r1 || r2) && left) printf(" rng-left=%zu", left);
            putchar('\n');
            xmpp_free(ctx, r1); xmpp_free(ctx, r2); free(ch); free(jid); free(pw);
        } else if (!strcmp(f[0], "N") && n == 3) {
            size_t len = (size_t)strtoul(f[1], NULL, 10);
            char *o1 = malloc(len ? len : 1), *o2 = malloc(len ? len : 1);
            memset(o1, 0xAA, len ? len : 1); memset(o2, 0x55, len ? len : 1);
            rq_set(f[2]); xmpp_rand_nonce(ctx->rand, o1, len);
            rq_set(f[2]); xmpp_rand_nonce(ctx->rand, o2, len);
            if (len == 0) puts("N -");
            else if (memchr(o1, 0, len) == NULL || strcmp(o1, o2)) puts("N uninit");
            else { printf("N "); vh_puthex((unsigned char *)o1, strlen(o1)); putchar('\n'); }
            free(o1); free(o2);
        } else if (!strcmp(f[0], "Z") && n == 2) {
            /* pairwise distinctness of real nonces: sort and count */
            size_t cnt = (size_t)strtoul(f[1], NULL, 10), i, distinct;
            char (*tab)[33] = malloc(cnt * 33);
            rq_real = 1;
            for (i = 0; i < cnt; i++) xmpp_rand_nonce(ctx->rand, tab[i], 33);
            rq_real = 0;
            qsort(tab, cnt, 33, (int (*)(const void *, const void *))strcmp);
            distinct = cnt ? 1 : 0;
            for (i = 1; i < cnt; i++) if (strcmp(tab[i - 1], tab[i])) distinct++;
            printf("Z %zu %zu\n", cnt, distinct);
            free(tab);
        } else puts("?");
        fflush(stdout);
    }
    xmpp_ctx_free(ctx);
    return 0;
}
