/* C08 driver: the exhaustive TLS decision table against the real tls_openssl.c.

   One process: a libstrophe client (normal implementation archive, real OpenSSL back end) talks to
   an OpenSSL server thread over a loopback TCP socket.  Certificates are minted at start-up with
   libcrypto (two CAs, leaf certificates of every kind).  The only hooks are ld --wrap=send (records the
   plaintext sock.c writes) and ld --wrap=SSL_connect: at the first SSL_connect of a handshake the wrapper records the configuration that libstrophe
   actually handed to OpenSSL (verify mode, verify callback present, host flags, pinned host) and
   slips a logging shim around the installed verify callback so that OpenSSL's per-chain-element
   verdict stream (preverify_ok) and the library's answers become observable.  The library source
   is not modified.

   usage : c08_driver <scratch-dir>          (CA files are written there)
   input : "<kind> <mode> <entry> <ca> [silent_ms] [announce=<name the server calls itself>] [domain=<domain of the JID>]
           [hist=<A|R|N...> handlers set on the connection object before the cell's own mode is applied]"
           (the JID is user@xmpp.example.com unless domain= says otherwise, e.g. 4chat.example.org)
             kind  : valid wrongname partial expired notyet untrusted selfsigned fullwild silent
                     dvalid dprefix dsuffix dwild dpartial (good chain; SAN 4chat.example.org, 4chat.example.org.example.net,
                     x4chat.example.org, *.example.org, 4c*.example.org)
                     expired10m notyet10m (ten minutes outside the validity period)
                     announced (good chain, SAN = another name, which the server also announces as `from`)
                     chainok (root -> intermediate -> leaf) chainexp (root -> EXPIRED intermediate -> leaf)
             mode  : T (trust flag) | N (no callback) | A (callback accepts) | R (callback rejects)
                     | S<digits> (scripted answer per invocation: digit value is returned; 0 once exhausted)
                     | P<r> (accept only the certificate of role r: 0 leaf, 1 intermediate, 2 root) | Q<r> (reject only that)
             entry : starttls | legacy, optionally followed by +m (XMPP_CONN_FLAG_MANDATORY_TLS)
             ca    : ca | noca | badca (non-existent file) | cadir (hashed directory)
   output: one line
     cfg=<mode>/<cb>/<hostflags>/<host>   what SSL_connect saw: SSL_get_verify_mode, callback!=NULL,
                                          X509_VERIFY_PARAM hostflags, host == jid domain (1/0, - none)
     ph=<name>                            the pinned host name itself (only when a handshake started)
     v=<p><r>,...                         verify callback invocations: preverify_ok and returned value
     e=<depth>:<err>:<role>,...           X509 error depth/code of each invocation and the role of the certificate the
                                          verdict is about (X509_STORE_CTX_get_current_cert, read by the shim)
     sh=<roles>                           role of the certificate the user handler was shown at each invocation
     cb=<n>:<cn>,...                      user certfail handler invocations (subject CN of the certificate)
     stale=<n>                            calls of a handler that had been replaced or removed before connecting (hist=)
     hsec=<bits>/<bits>                   xmpp_conn_is_secured while the handshake runs: at every verify-callback
                                          invocation / at every call of the user handler
     ts=<n>                               number of handshakes started (SSL_connect sequences)
     ev=C<sec>|D<sec>/<err>,...           connection events with xmpp_conn_is_secured at that moment (and the error code
                                          of the disconnect: 0, ABRT, RST, TMO or the number)
     te=<n>                               SSL_get_error of the last SSL_connect (0 on success)
     cw=<before>|<after>                  plaintext the library wrote with send(): before / after the handshake began
     sec=<max>/<final>                    xmpp_conn_is_secured polled after every loop iteration
     srv=c:<toks>|hs<+|-|0>|t:<toks>|r:<toks>   what the server received: in the clear before TLS,
                                          handshake result on its side, over TLS, raw after a failed handshake
     nd=<n>                               number of disconnect events
     silent=<calls>/<blocked>/<secs>      (silent rows) SSL_connect calls, 1 if tls_start only returned
                                          after the peer closed, whole seconds spent in the handshake
     hang=<0|1>                           the wall-clock bound of the driver was hit                   */
#include "vharness.h"
#include <pthread.h>
#include <sys/socket.h>
#include <sys/stat.h>
#include <netinet/in.h>
#include <netinet/tcp.h>
#include <arpa/inet.h>
#include <unistd.h>
#include <time.h>
#include <errno.h>
#include <signal.h>
#include <openssl/ssl.h>
#include <openssl/err.h>
#include <openssl/x509v3.h>
#include <openssl/pem.h>
#include <openssl/ec.h>

#define DOMAIN "xmpp.example.com"
#define JID "user@" DOMAIN
#define OTHER_NAME "evil.example.net"
#define DIGIT_DOMAIN "4chat.example.org" /* a DNS domain whose first character is a digit */
static char g_domain[128] = DOMAIN;      /* the domain of the JID configured for the current case */

static long now_ms(void)
{
    struct timespec ts;
    clock_gettime(CLOCK_MONOTONIC, &ts);
    return ts.tv_sec * 1000L + ts.tv_nsec / 1000000L;
}

/* ------------------------------------------------------------------ certificates */
enum { K_VALID, K_WRONGNAME, K_PARTIAL, K_EXPIRED, K_NOTYET, K_UNTRUSTED, K_SELFSIGNED, K_FULLWILD, K_CHAINOK, K_CHAINEXP, K_ANNOUNCED, K_DVALID, K_DPREFIX, K_DSUFFIX, K_DWILD, K_DPARTIAL, K_EXPIRED10M, K_NOTYET10M, K_N };
static const char *kind_names[] = {"valid", "wrongname", "partial", "expired", "notyet", "untrusted", "selfsigned", "fullwild", "chainok", "chainexp", "announced", "dvalid", "dprefix", "dsuffix", "dwild", "dpartial", "expired10m", "notyet10m"};
static EVP_PKEY *ca_key, *ca2_key, *leaf_key[K_N];
static X509 *ca_crt, *ca2_crt, *leaf_crt[K_N];
static EVP_PKEY *int_key, *intx_key;
static X509 *int_crt, *intx_crt, *chain_crt[K_N]; /* intermediate sent along with the leaf */

static EVP_PKEY *mk_key(void) { return EVP_EC_gen("P-256"); }

static void add_ext(X509 *crt, X509 *issuer, int nid, const char *val)
{
    X509V3_CTX c;
    X509_EXTENSION *e;
    X509V3_set_ctx_nodb(&c);
    X509V3_set_ctx(&c, issuer, crt, NULL, NULL, 0);
    e = X509V3_EXT_conf_nid(NULL, &c, nid, val);
    if (!e) { fprintf(stderr, "ext %d %s failed\n", nid, val); exit(3); }
    X509_add_ext(crt, e, -1);
    X509_EXTENSION_free(e);
}

static X509 *mk_cert(const char *cn, const char *san, EVP_PKEY *key, X509 *issuer, EVP_PKEY *issuer_key,
                     long from_s, long to_s, int is_ca)
{
    static long serial = 1000;
    X509 *x = X509_new();
    X509_NAME *n;
    X509_set_version(x, 2);
    ASN1_INTEGER_set(X509_get_serialNumber(x), serial++);
    X509_gmtime_adj(X509_getm_notBefore(x), from_s);
    X509_gmtime_adj(X509_getm_notAfter(x), to_s);
    X509_set_pubkey(x, key);
    n = X509_get_subject_name(x);
    X509_NAME_add_entry_by_txt(n, "O", MBSTRING_ASC, (const unsigned char *)"verif", -1, -1, 0);
    X509_NAME_add_entry_by_txt(n, "CN", MBSTRING_ASC, (const unsigned char *)cn, -1, -1, 0);
    X509_set_issuer_name(x, issuer ? X509_get_subject_name(issuer) : n);
    add_ext(x, issuer ? issuer : x, NID_basic_constraints, is_ca ? "critical,CA:TRUE" : "CA:FALSE");
    if (is_ca) add_ext(x, issuer ? issuer : x, NID_key_usage, "critical,keyCertSign,cRLSign");
    add_ext(x, issuer ? issuer : x, NID_subject_key_identifier, "hash");
    if (san) add_ext(x, issuer ? issuer : x, NID_subject_alt_name, san);
    if (!X509_sign(x, issuer_key ? issuer_key : key, EVP_sha256())) { fprintf(stderr, "sign failed\n"); exit(3); }
    return x;
}

static char ca_file[512], ca_dir[512], bad_file[512];

static void mint_all(const char *dir)
{
    const long DAY = 86400;
    FILE *f;
    char p[600];
    int k;
    ca_key = mk_key(); ca2_key = mk_key();
    ca_crt = mk_cert("verif test CA", NULL, ca_key, NULL, NULL, -DAY, 30 * DAY, 1);
    ca2_crt = mk_cert("verif other CA", NULL, ca2_key, NULL, NULL, -DAY, 30 * DAY, 1);
    for (k = 0; k < K_N; k++) leaf_key[k] = mk_key();
    leaf_crt[K_VALID] = mk_cert("leaf-valid", "DNS:" DOMAIN, leaf_key[K_VALID], ca_crt, ca_key, -DAY, 30 * DAY, 0);
    leaf_crt[K_WRONGNAME] = mk_cert("leaf-wrongname", "DNS:xmpp.example.org", leaf_key[K_WRONGNAME], ca_crt, ca_key, -DAY, 30 * DAY, 0);
    /* partial wildcard in the left-most label: matches the domain unless X509_CHECK_FLAG_NO_PARTIAL_WILDCARDS */
    leaf_crt[K_PARTIAL] = mk_cert("leaf-partial", "DNS:xm*.example.com", leaf_key[K_PARTIAL], ca_crt, ca_key, -DAY, 30 * DAY, 0);
    leaf_crt[K_EXPIRED] = mk_cert("leaf-expired", "DNS:" DOMAIN, leaf_key[K_EXPIRED], ca_crt, ca_key, -3 * DAY, -DAY, 0);
    /* just outside the validity period: expired ten minutes ago / valid from ten minutes in the future */
    leaf_crt[K_EXPIRED10M] = mk_cert("leaf-expired10m", "DNS:" DOMAIN, leaf_key[K_EXPIRED10M], ca_crt, ca_key, -DAY, -600, 0);
    leaf_crt[K_NOTYET10M] = mk_cert("leaf-notyet10m", "DNS:" DOMAIN, leaf_key[K_NOTYET10M], ca_crt, ca_key, 600, DAY, 0);
    leaf_crt[K_NOTYET] = mk_cert("leaf-notyet", "DNS:" DOMAIN, leaf_key[K_NOTYET], ca_crt, ca_key, DAY, 3 * DAY, 0);
    leaf_crt[K_UNTRUSTED] = mk_cert("leaf-untrusted", "DNS:" DOMAIN, leaf_key[K_UNTRUSTED], ca2_crt, ca2_key, -DAY, 30 * DAY, 0);
    leaf_crt[K_SELFSIGNED] = mk_cert("leaf-selfsigned", "DNS:" DOMAIN, leaf_key[K_SELFSIGNED], NULL, NULL, -DAY, 30 * DAY, 0);
    leaf_crt[K_FULLWILD] = mk_cert("leaf-fullwild", "DNS:*.example.com", leaf_key[K_FULLWILD], ca_crt, ca_key, -DAY, 30 * DAY, 0);
    /* chains root -> intermediate -> leaf: the intermediate is valid, or expired last month */
    int_key = mk_key(); intx_key = mk_key();
    int_crt = mk_cert("verif inter valid", NULL, int_key, ca_crt, ca_key, -DAY, 30 * DAY, 1);
    intx_crt = mk_cert("verif inter expired", NULL, intx_key, ca_crt, ca_key, -60 * DAY, -30 * DAY, 1);
    leaf_crt[K_CHAINOK] = mk_cert("leaf-chainok", "DNS:" DOMAIN, leaf_key[K_CHAINOK], int_crt, int_key, -DAY, 30 * DAY, 0);
    leaf_crt[K_CHAINEXP] = mk_cert("leaf-chainexp", "DNS:" DOMAIN, leaf_key[K_CHAINEXP], intx_crt, intx_key, -DAY, 30 * DAY, 0);
    chain_crt[K_CHAINOK] = int_crt;
    chain_crt[K_CHAINEXP] = intx_crt;
    /* a perfectly good certificate - for another name, which the server also announces as `from` of its stream headers */
    /* certificates around the second domain, DIGIT_DOMAIN */
    leaf_crt[K_DVALID] = mk_cert("leaf-dvalid", "DNS:" DIGIT_DOMAIN, leaf_key[K_DVALID], ca_crt, ca_key, -DAY, 30 * DAY, 0);
    leaf_crt[K_DPREFIX] = mk_cert("leaf-dprefix", "DNS:" DIGIT_DOMAIN ".example.net", leaf_key[K_DPREFIX], ca_crt, ca_key, -DAY, 30 * DAY, 0);
    leaf_crt[K_DSUFFIX] = mk_cert("leaf-dsuffix", "DNS:x" DIGIT_DOMAIN, leaf_key[K_DSUFFIX], ca_crt, ca_key, -DAY, 30 * DAY, 0);
    leaf_crt[K_DWILD] = mk_cert("leaf-dwild", "DNS:*.example.org", leaf_key[K_DWILD], ca_crt, ca_key, -DAY, 30 * DAY, 0);
    leaf_crt[K_DPARTIAL] = mk_cert("leaf-dpartial", "DNS:4c*.example.org", leaf_key[K_DPARTIAL], ca_crt, ca_key, -DAY, 30 * DAY, 0);
    leaf_crt[K_ANNOUNCED] = mk_cert("leaf-announced", "DNS:" OTHER_NAME, leaf_key[K_ANNOUNCED], ca_crt, ca_key, -DAY, 30 * DAY, 0);

    mkdir(dir, 0755);
    snprintf(ca_file, sizeof ca_file, "%s/ca-%d.pem", dir, (int)getpid());
    f = fopen(ca_file, "w");
    if (!f) { perror(ca_file); exit(3); }
    PEM_write_X509(f, ca_crt);
    fclose(f);
    snprintf(ca_dir, sizeof ca_dir, "%s/cadir-%d", dir, (int)getpid());
    mkdir(ca_dir, 0755);
    snprintf(p, sizeof p, "%s/%08lx.0", ca_dir, X509_subject_name_hash(ca_crt));
    f = fopen(p, "w");
    if (!f) { perror(p); exit(3); }
    PEM_write_X509(f, ca_crt);
    fclose(f);
    snprintf(bad_file, sizeof bad_file, "%s/no-such-ca-%d.pem", dir, (int)getpid());
}

static void cleanup_files(void)
{
    char p[600];
    unlink(ca_file);
    snprintf(p, sizeof p, "%s/%08lx.0", ca_dir, X509_subject_name_hash(ca_crt));
    unlink(p);
    rmdir(ca_dir);
}

/* ------------------------------------------------------------------ observation at the OpenSSL boundary */
#define MAXV 32
static struct {
    SSL *ssl;
    int handshakes;
    int mode, has_cb, host_match;
    char host[128]; /* the reference identity the SSL object carries at SSL_connect time */
    unsigned hostflags;
    int (*orig_cb)(int, X509_STORE_CTX *);
    int nv, pre[MAXV], ret[MAXV], depth[MAXV], err[MAXV], role[MAXV], sec[MAXV];
    int calls, last_err;
    long t_first, t_last_ret;
    unsigned char cw[2][2048]; size_t ncw[2]; /* plaintext written by the library with send(): before / after the handshake began */
} obs;

static int role_of_cn(const char *cn)
{
    if (!cn) return 9;
    if (!strncmp(cn, "leaf-", 5)) return 0;
    if (!strncmp(cn, "verif inter", 11)) return 1;
    if (!strncmp(cn, "verif ", 6)) return 2;
    return 9;
}
static int role_of_x509(X509 *c)
{
    char cn[128] = "";
    if (!c) return 9;
    X509_NAME_get_text_by_NID(X509_get_subject_name(c), NID_commonName, cn, sizeof cn);
    return role_of_cn(cn);
}

static xmpp_conn_t *g_conn; /* the connection of the current case */

static int log_verify(int pre, X509_STORE_CTX *x)
{
    int sec = g_conn ? xmpp_conn_is_secured(g_conn) : 0; /* while the handshake is still running */
    int depth = X509_STORE_CTX_get_error_depth(x);
    int err = X509_STORE_CTX_get_error(x);
    int role = role_of_x509(X509_STORE_CTX_get_current_cert(x)); /* the certificate the verdict is about */
    int r = obs.orig_cb ? obs.orig_cb(pre, x) : pre;
    if (obs.nv < MAXV) {
        obs.pre[obs.nv] = pre; obs.ret[obs.nv] = r; obs.depth[obs.nv] = depth; obs.err[obs.nv] = err; obs.role[obs.nv] = role; obs.sec[obs.nv] = sec;
        obs.nv++;
    }
    return r;
}

int __real_SSL_connect(SSL *ssl);
int __wrap_SSL_connect(SSL *ssl)
{
    int r;
    if (obs.ssl != ssl) {
        X509_VERIFY_PARAM *param = SSL_get0_param(ssl);
        const char *host = X509_VERIFY_PARAM_get0_host(param, 0);
        obs.ssl = ssl;
        obs.handshakes++;
        obs.mode = SSL_get_verify_mode(ssl);
        obs.orig_cb = SSL_get_verify_callback(ssl);
        obs.has_cb = obs.orig_cb != NULL;
        obs.hostflags = X509_VERIFY_PARAM_get_hostflags(param);
        obs.host_match = host ? (strcmp(host, g_domain) == 0) : -1;
        snprintf(obs.host, sizeof obs.host, "%s", host ? host : "-");
        SSL_set_verify(ssl, obs.mode, log_verify);
        obs.t_first = now_ms();
    }
    obs.calls++;
    r = __real_SSL_connect(ssl);
    obs.last_err = r <= 0 ? SSL_get_error(ssl, r) : 0;
    obs.t_last_ret = now_ms();
    return r;
}

/* sock.c writes plaintext with send(); OpenSSL's socket BIO uses write(), the server thread too */
ssize_t __real_send(int fd, const void *buf, size_t len, int flags);
ssize_t __wrap_send(int fd, const void *buf, size_t len, int flags)
{
    ssize_t r = __real_send(fd, buf, len, flags | MSG_NOSIGNAL);
    if (r > 0) {
        int ph = obs.handshakes ? 1 : 0;
        size_t room = sizeof(obs.cw[ph]) - obs.ncw[ph], n = (size_t)r < room ? (size_t)r : room;
        memcpy(obs.cw[ph] + obs.ncw[ph], buf, n);
        obs.ncw[ph] += n;
    }
    return r;
}

/* ------------------------------------------------------------------ user side */
static struct {
    const char *script; /* answers for A/R/S modes */
    int n;
    char who[256];
    char shown[64]; /* role (0 leaf, 1 intermediate, 2 root) of each certificate the handler was shown */
    char ev[128];
    int ndisc, secmax, secfin;
    char cbsec[64]; /* xmpp_conn_is_secured at the time of each call of the handler */
    int stale;      /* calls of a handler that was installed earlier and replaced / removed since */
} usr;

/* handlers that are installed first and then replaced or removed (option hist=) */
static int stale_accept(const xmpp_tlscert_t *cert, const char *const errormsg)
{
    (void)cert; (void)errormsg;
    usr.stale++;
    return 1;
}
static int stale_reject(const xmpp_tlscert_t *cert, const char *const errormsg)
{
    (void)cert; (void)errormsg;
    usr.stale++;
    return 0;
}

static int certfail(const xmpp_tlscert_t *cert, const char *const errormsg)
{
    const char *subj = xmpp_tlscert_get_string(cert, XMPP_CERT_SUBJECT);
    const char *cn = subj ? strstr(subj, "CN=") : NULL;
    int ans = 0;
    size_t l = strlen(usr.who);
    (void)errormsg;
    snprintf(usr.who + l, sizeof(usr.who) - l, "%s%s", usr.n ? "," : "", cn ? cn + 3 : "?");
    {
        int role = role_of_cn(cn ? cn + 3 : NULL);
        if ((size_t)usr.n + 1 < sizeof usr.shown) usr.shown[usr.n] = (char)('0' + role);
        if ((size_t)usr.n + 1 < sizeof usr.cbsec) usr.cbsec[usr.n] = (char)('0' + (g_conn ? xmpp_conn_is_secured(g_conn) : 0));
        if (usr.script[0] == 'P') ans = (usr.script[1] - '0' == role) ? 1 : 0;      /* accept only the pinned one */
        else if (usr.script[0] == 'Q') ans = (usr.script[1] - '0' == role) ? 0 : 1; /* reject only that one */
    }
    if (usr.script[0] == 'A') ans = 1;
    else if (usr.script[0] == 'R') ans = 0;
    else if (usr.script[0] == 'S') {
        size_t len = strlen(usr.script + 1);
        ans = (size_t)usr.n < len ? usr.script[1 + usr.n] - '0' : 0;
    }
    usr.n++;
    return ans;
}

static const char *errname(int e)
{
    static char b[16];
    if (e == 0) return "0";
    if (e == ECONNABORTED) return "ABRT";
    if (e == ECONNRESET) return "RST";
    if (e == ETIMEDOUT) return "TMO";
    snprintf(b, sizeof b, "%d", e);
    return b;
}

static void conn_handler(xmpp_conn_t *conn, xmpp_conn_event_t status, int error, xmpp_stream_error_t *se, void *ud)
{
    size_t l = strlen(usr.ev);
    int sec = xmpp_conn_is_secured(conn);
    (void)se; (void)ud;
    if (status == XMPP_CONN_CONNECT) {
        snprintf(usr.ev + l, sizeof(usr.ev) - l, "%sC%d", l ? "," : "", sec);
        xmpp_disconnect(conn);
    } else if (status == XMPP_CONN_DISCONNECT) {
        snprintf(usr.ev + l, sizeof(usr.ev) - l, "%sD%d/%s", l ? "," : "", sec, errname(error));
        usr.ndisc++;
    } else
        snprintf(usr.ev + l, sizeof(usr.ev) - l, "%s?%d", l ? "," : "", sec);
}

/* ------------------------------------------------------------------ server thread */
typedef struct {
    int lfd, legacy, silent_ms, kind;
    char from[128]; /* what the server calls itself in its stream headers */
    char domain[128];
    int hs; /* -1 not attempted, 0 failed, 1 ok */
    unsigned char clr[8192]; size_t nclr;   /* plaintext bytes received before the TLS handshake */
    unsigned char enc[8192]; size_t nenc;   /* application bytes received over TLS */
    unsigned char raw[8192]; size_t nraw;   /* raw bytes received after a failed handshake */
    long t_close;
} srv_t;

static int contains(const unsigned char *b, size_t n, size_t from, const char *pat)
{
    size_t m = strlen(pat), i;
    for (i = from; i + m <= n; i++)
        if (memcmp(b + i, pat, m) == 0) return (int)(i + m);
    return -1;
}

/* read (plain or TLS) until the bytes from *mark on contain a, and b after it */
static int srv_until(int fd, SSL *ssl, unsigned char *buf, size_t *n, size_t cap, size_t *mark, const char *a, const char *b)
{
    for (;;) {
        int p = contains(buf, *n, *mark, a), q;
        if (p >= 0 && (q = contains(buf, *n, (size_t)p, b)) >= 0) { *mark = (size_t)q; return 1; }
        if (strcmp(a, "</stream:stream") && contains(buf, *n, *mark, "</stream:stream>") >= 0) return 0; /* client gave up */
        if (!strcmp(a, "<starttls") && contains(buf, *n, *mark, "</auth>") >= 0) return 0; /* client authenticates without TLS */
        if (*n >= cap) return 0;
        {
            int r = ssl ? SSL_read(ssl, buf + *n, (int)(cap - *n)) : (int)recv(fd, buf + *n, cap - *n, 0);
            if (r <= 0) return 0;
            *n += (size_t)r;
        }
    }
}

static void srv_send(int fd, SSL *ssl, const char *s)
{
    if (ssl) SSL_write(ssl, s, (int)strlen(s));
    else if (write(fd, s, strlen(s)) < 0) { /* peer gone */ }
}

#define HDR_FMT "<?xml version='1.0'?><stream:stream xmlns='jabber:client' xmlns:stream='http://etherx.jabber.org/streams' " \
                "id='c08' from='%s' version='1.0'>%s"
static void srv_hdr(int fd, SSL *ssl, const char *from, const char *rest)
{
    char b[1024];
    snprintf(b, sizeof b, HDR_FMT, from, rest);
    srv_send(fd, ssl, b);
}

static void *server_main(void *arg)
{
    srv_t *s = arg;
    struct timeval tv = {1, 500000};
    int fd, one = 1;
    SSL_CTX *sctx = NULL;
    SSL *ssl = NULL;
    size_t mark = 0;
    {
        struct timeval atv = {5, 0};
        setsockopt(s->lfd, SOL_SOCKET, SO_RCVTIMEO, &atv, sizeof atv);
    }
    fd = accept(s->lfd, NULL, NULL);
    if (fd < 0) return NULL;
    setsockopt(fd, SOL_SOCKET, SO_RCVTIMEO, &tv, sizeof tv);
    setsockopt(fd, IPPROTO_TCP, TCP_NODELAY, &one, sizeof one);

    if (!s->legacy) {
        if (!srv_until(fd, NULL, s->clr, &s->nclr, sizeof s->clr, &mark, "<stream:stream", ">")) goto out;
        srv_hdr(fd, NULL, s->from, "<stream:features><starttls xmlns='urn:ietf:params:xml:ns:xmpp-tls'/>"
                              "<mechanisms xmlns='urn:ietf:params:xml:ns:xmpp-sasl'><mechanism>PLAIN</mechanism></mechanisms>"
                              "</stream:features>");
        if (!srv_until(fd, NULL, s->clr, &s->nclr, sizeof s->clr, &mark, "<starttls", ">")) goto out;
        srv_send(fd, NULL, "<proceed xmlns='urn:ietf:params:xml:ns:xmpp-tls'/>");
    }
    if (s->silent_ms > 0) {
        /* silent peer: never answers the ClientHello; after the bound, close */
        struct timespec ts = {s->silent_ms / 1000, (s->silent_ms % 1000) * 1000000L};
        nanosleep(&ts, NULL);
        s->t_close = now_ms();
        goto out;
    }
    sctx = SSL_CTX_new(TLS_server_method());
    SSL_CTX_use_certificate(sctx, leaf_crt[s->kind]);
    if (chain_crt[s->kind]) SSL_CTX_add1_chain_cert(sctx, chain_crt[s->kind]);
    SSL_CTX_use_PrivateKey(sctx, leaf_key[s->kind]);
    ssl = SSL_new(sctx);
    SSL_set_fd(ssl, fd);
    if (SSL_accept(ssl) <= 0) {
        s->hs = 0;
        ERR_clear_error();
        SSL_free(ssl); ssl = NULL;
        /* whatever still arrives on the socket is what the client sent after the failed handshake */
        {
            struct timeval stv = {0, 600000};
            size_t m2 = 0;
            setsockopt(fd, SOL_SOCKET, SO_RCVTIMEO, &stv, sizeof stv);
            srv_until(fd, NULL, s->raw, &s->nraw, sizeof s->raw, &m2, "</stream:stream", ">");
        }
        goto out;
    }
    s->hs = 1;
    mark = 0;
    if (!srv_until(fd, ssl, s->enc, &s->nenc, sizeof s->enc, &mark, "<stream:stream", ">")) goto out;
    srv_hdr(fd, ssl, s->from, "<stream:features><mechanisms xmlns='urn:ietf:params:xml:ns:xmpp-sasl'><mechanism>PLAIN</mechanism>"
                          "</mechanisms></stream:features>");
    if (!srv_until(fd, ssl, s->enc, &s->nenc, sizeof s->enc, &mark, "<auth", ">")) goto out;
    if (!srv_until(fd, ssl, s->enc, &s->nenc, sizeof s->enc, &mark, "</auth", ">")) goto out;
    srv_send(fd, ssl, "<success xmlns='urn:ietf:params:xml:ns:xmpp-sasl'/>");
    if (!srv_until(fd, ssl, s->enc, &s->nenc, sizeof s->enc, &mark, "<stream:stream", ">")) goto out;
    srv_hdr(fd, ssl, s->from, "<stream:features><bind xmlns='urn:ietf:params:xml:ns:xmpp-bind'/></stream:features>");
    if (!srv_until(fd, ssl, s->enc, &s->nenc, sizeof s->enc, &mark, "<iq", "</iq>")) goto out;
    {
        char b[512];
        snprintf(b, sizeof b, "<iq type='result' id='_xmpp_bind1'><bind xmlns='urn:ietf:params:xml:ns:xmpp-bind'><jid>user@%s"
                              "/r</jid></bind></iq>", s->domain);
        srv_send(fd, ssl, b);
    }
    if (!srv_until(fd, ssl, s->enc, &s->nenc, sizeof s->enc, &mark, "</stream:stream", ">")) goto out;
    srv_send(fd, ssl, "</stream:stream>");
    SSL_shutdown(ssl);
out:
    if (ssl) SSL_free(ssl);
    if (sctx) SSL_CTX_free(sctx);
    close(fd);
    return NULL;
}

/* canonical tokens of a received byte string */
static void tokens(const unsigned char *b, size_t n, char *out, size_t cap)
{
    static const struct { const char *pat; char tok; } tab[] = {
        {"<?xml", 0}, {"<stream:stream", 'H'}, {"</stream:stream>", 'X'}, {"<starttls", 'S'}, {"<auth", 'A'}, {"</auth", 0},
        {"<iq", 'B'}, {"</iq", 0}, {"<bind", 0}, {"</bind", 0}, {"<resource", 0}, {"</resource", 0}, {NULL, 0}};
    size_t i = 0, o = 0;
    int depth_text = 0;
    if (n == 0) { snprintf(out, cap, "-"); return; }
    while (i < n && o + 2 < cap) {
        if (b[i] == '<') {
            int k, hit = 0;
            for (k = 0; tab[k].pat; k++) {
                size_t m = strlen(tab[k].pat);
                if (i + m <= n && memcmp(b + i, tab[k].pat, m) == 0) {
                    if (tab[k].tok) out[o++] = tab[k].tok;
                    hit = 1;
                    break;
                }
            }
            if (!hit) out[o++] = '?';
            while (i < n && b[i] != '>') i++;
            depth_text = 1;
        } else if (!depth_text || b[i] < 0x20 || b[i] >= 0x7f) {
            /* bytes that are not XML text (e.g. TLS records) */
            if (o == 0 || out[o - 1] != '!') out[o++] = '!';
        }
        i++;
    }
    out[o] = 0;
    if (o == 0) snprintf(out, cap, "-");
}

/* ------------------------------------------------------------------ main */
int main(int argc, char **argv)
{
    char *line;
    xmpp_ctx_t *ctx;
    int lfd;
    struct sockaddr_in sa;
    socklen_t sl = sizeof sa;
    unsigned short port;

    signal(SIGPIPE, SIG_IGN);
    setenv("SSL_CERT_FILE", "/nonexistent/verif-c08", 1);
    setenv("SSL_CERT_DIR", "/nonexistent/verif-c08", 1);
    unsetenv("SSLKEYLOGFILE");
    mint_all(argc > 1 ? argv[1] : "/verif/build/c08");

    lfd = socket(AF_INET, SOCK_STREAM, 0);
    memset(&sa, 0, sizeof sa);
    sa.sin_family = AF_INET;
    sa.sin_addr.s_addr = htonl(INADDR_LOOPBACK);
    sa.sin_port = 0;
    if (bind(lfd, (struct sockaddr *)&sa, sizeof sa) || listen(lfd, 4) || getsockname(lfd, (struct sockaddr *)&sa, &sl)) {
        perror("listen");
        return 3;
    }
    port = ntohs(sa.sin_port);

    xmpp_initialize();
    ctx = xmpp_ctx_new(NULL, getenv("C08_DEBUG") ? xmpp_get_default_logger(XMPP_LEVEL_DEBUG) : NULL);

    while ((line = vh_getline())) {
        char kind_s[32] = "", mode_s[32] = "", entry_s[32] = "", ca_s[32] = "";
        int silent_ms = 0, kind = -1, k, i, hang = 0;
        srv_t *srv;
        pthread_t th;
        xmpp_conn_t *conn;
        long flags = 0, t0, limit;
        char tc[64], tt[64], tr[64], w0[64], w1[64];

        if (!line[0] || line[0] == '#') { puts(""); continue; }
        char opt_s[3][160] = {"", "", ""}, announce[128] = "", jid[160], hist[16] = "";
        int oi;
        if (sscanf(line, "%31s %31s %31s %31s %159s %159s %159s", kind_s, mode_s, entry_s, ca_s, opt_s[0], opt_s[1], opt_s[2]) < 4) { puts("bad-input"); fflush(stdout); continue; }
        snprintf(g_domain, sizeof g_domain, "%s", DOMAIN);
        for (oi = 0; oi < 3; oi++) {
            if (!strncmp(opt_s[oi], "announce=", 9)) snprintf(announce, sizeof announce, "%s", opt_s[oi] + 9);
            else if (!strncmp(opt_s[oi], "domain=", 7)) snprintf(g_domain, sizeof g_domain, "%s", opt_s[oi] + 7);
            else if (!strncmp(opt_s[oi], "hist=", 5)) snprintf(hist, sizeof hist, "%s", opt_s[oi] + 5);
            else if (opt_s[oi][0]) silent_ms = atoi(opt_s[oi]);
        }
        if (!announce[0]) snprintf(announce, sizeof announce, "%s", !strcmp(kind_s, "announced") ? OTHER_NAME : g_domain);
        snprintf(jid, sizeof jid, "user@%s", g_domain);
        for (k = 0; k < K_N; k++) if (!strcmp(kind_s, kind_names[k])) kind = k;
        if (!strcmp(kind_s, "silent")) { kind = K_VALID; if (silent_ms <= 0) silent_ms = 1000; } else silent_ms = 0;
        if (kind < 0) { puts("bad-input"); fflush(stdout); continue; }

        memset(&obs, 0, sizeof obs);
        memset(&usr, 0, sizeof usr);
        usr.script = mode_s;
        srv = calloc(1, sizeof *srv);
        srv->lfd = lfd; srv->legacy = !strncmp(entry_s, "legacy", 6); srv->silent_ms = silent_ms; srv->kind = kind; srv->hs = -1;
        snprintf(srv->from, sizeof srv->from, "%s", announce);
        snprintf(srv->domain, sizeof srv->domain, "%s", g_domain);
        pthread_create(&th, NULL, server_main, srv);

        conn = xmpp_conn_new(ctx);
        g_conn = conn;
        xmpp_conn_set_jid(conn, jid);
        xmpp_conn_set_pass(conn, "secret");
        if (mode_s[0] == 'T') flags |= XMPP_CONN_FLAG_TRUST_TLS;
        if (srv->legacy) flags |= XMPP_CONN_FLAG_LEGACY_SSL;
        if (strstr(entry_s, "+m")) flags |= XMPP_CONN_FLAG_MANDATORY_TLS;
        xmpp_conn_set_flags(conn, flags);
        /* earlier settings of the handler on the same connection object: A accept-all, R reject-all, N removed */
        for (i = 0; hist[i]; i++)
            xmpp_conn_set_certfail_handler(conn, hist[i] == 'A' ? stale_accept : hist[i] == 'R' ? stale_reject : NULL);
        if (strchr("ARSPQ", mode_s[0])) xmpp_conn_set_certfail_handler(conn, certfail);
        else if (hist[0]) xmpp_conn_set_certfail_handler(conn, NULL); /* the final state is "no handler" */
        if (!strcmp(ca_s, "ca")) xmpp_conn_set_cafile(conn, ca_file);
        else if (!strcmp(ca_s, "badca")) xmpp_conn_set_cafile(conn, bad_file);
        else if (!strcmp(ca_s, "cadir")) xmpp_conn_set_capath(conn, ca_dir);

        t0 = now_ms();
        limit = 6000 + silent_ms;
        if (xmpp_connect_client(conn, "127.0.0.1", port, conn_handler, NULL) != XMPP_EOK) {
            snprintf(usr.ev, sizeof usr.ev, "connect-refused");
            usr.ndisc = -1;
        } else {
            while (usr.ndisc == 0) {
                int s_;
                if (now_ms() - t0 > limit) { hang = 1; break; }
                xmpp_run_once(ctx, 10);
                s_ = xmpp_conn_is_secured(conn);
                if (s_ > usr.secmax) usr.secmax = s_;
            }
        }
        usr.secfin = xmpp_conn_is_secured(conn);
        pthread_join(th, NULL);

        printf("cfg=");
        if (obs.handshakes) {
            printf("%d/%d/%u/", obs.mode, obs.has_cb, obs.hostflags);
            if (obs.host_match < 0) printf("-"); else printf("%d", obs.host_match);
            printf(" ph=%s", obs.host);
        } else printf("none");
        printf(" v=");
        if (!obs.nv) printf("-");
        for (i = 0; i < obs.nv; i++) printf("%s%d%d", i ? "," : "", obs.pre[i], obs.ret[i]);
        printf(" e=");
        if (!obs.nv) printf("-");
        for (i = 0; i < obs.nv; i++) printf("%s%d:%d:%d", i ? "," : "", obs.depth[i], obs.err[i], obs.role[i]);
        printf(" cb=%d:%s sh=%s ts=%d", usr.n, usr.n ? usr.who : "-", usr.n ? usr.shown : "-", obs.handshakes);
        printf(" stale=%d hsec=", usr.stale);
        if (!obs.nv) printf("-");
        for (i = 0; i < obs.nv; i++) printf("%d", obs.sec[i]);
        printf("/%s", usr.n ? usr.cbsec : "-");
        printf(" ev=%s sec=%d/%d", usr.ev[0] ? usr.ev : "-", usr.secmax, usr.secfin);
        tokens(srv->clr, srv->nclr, tc, sizeof tc);
        tokens(srv->enc, srv->nenc, tt, sizeof tt);
        tokens(srv->raw, srv->nraw, tr, sizeof tr);
        tokens(obs.cw[0], obs.ncw[0], w0, sizeof w0);
        tokens(obs.cw[1], obs.ncw[1], w1, sizeof w1);
        printf(" te=%d cw=%s|%s", obs.last_err, w0, w1);
        printf(" srv=c:%s|hs%s|t:%s|r:%s nd=%d", tc, srv->hs < 0 ? "0" : srv->hs ? "+" : "-", tt, tr, usr.ndisc);
        if (silent_ms)
            printf(" silent=%s/%d/%ld", obs.calls > 1 ? "looped" : obs.calls ? "once" : "never",
                   (srv->t_close && obs.t_last_ret >= srv->t_close) ? 1 : 0, (obs.t_last_ret - obs.t_first + 50) / 1000);
        printf(" hang=%d\n", hang);
        fflush(stdout);

        g_conn = NULL;
        xmpp_conn_release(conn);
        free(srv);
    }
    xmpp_ctx_free(ctx);
    xmpp_shutdown();
    cleanup_files();
    return 0;
}
