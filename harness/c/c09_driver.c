/* C09 driver: a line is a program of public stanza API calls over numbered handles.
   ops (space separated, fields comma separated, strings in hex, "-" = empty, "~" = NULL):
     N,d            d = xmpp_stanza_new
     n,s,name       xmpp_stanza_set_name          t,s,text   xmpp_stanza_set_text
     T,s,bytes,size xmpp_stanza_set_text_with_size (first size bytes of an unterminated buffer)
     a,s,key,val    xmpp_stanza_set_attribute     d,s,key    xmpp_stanza_del_attribute
     s,s,v  i,s,v  o,s,v  f,s,v  y,s,v            set_ns / set_id / set_to / set_from / set_type
     c,p,c          xmpp_stanza_add_child (refused by the driver - "k" - when c already has a parent
                    or is the root of p's tree: the programs build trees, not DAGs or cycles)
     C,d,s          d = xmpp_stanza_copy(s)       R,d,s      d = xmpp_stanza_reply(s)
     E,d,s,type,cond,text|~                       d = xmpp_stanza_reply_error(s, ..)
     S,d,k,text|~   d = xmpp_error_new(ctx, k, text)
     P,s            xmpp_stanza_to_text(s)        D,s        dump of s through the accessor API
   output, one token per op:
     r<rc> | k (skipped) | h0 / h1 (handle non-NULL / NULL)
     P:<rc>:<*buflen>:<strlen>:<hex of the string>
     D:<dump>       U | T<hex> | E<name>[k=v,..](child,..)    attributes in iteration order
   then " # " and, for every successful P of a tag, two re-read results:
     L:<canonical dump | NULL>   via xmpp_stanza_new_from_string
     X:<canonical dump | ERR..>  via libxml2 inside <stream:stream xmlns='jabber:client' xmlns:stream=..>
   canonical dump: T<hex> | E<name>{<effective ns>}[k=v sorted, xmlns left out](children), adjacent
   text merged, empty text dropped. */
#include "vharness.h"
#include "common.h"
#include <libxml/parser.h>
#include <libxml/tree.h>

#define MAXSLOT 4096
static xmpp_stanza_t *slots[MAXSLOT];
static int slot_set[MAXSLOT];

static FILE *aux; /* second part of the output line */

static void hexout(FILE *f, const unsigned char *b, size_t n)
{
    size_t i;
    if (n == 0) { fputc('-', f); return; }
    for (i = 0; i < n; i++) fprintf(f, "%02x", b[i]);
}
static void hexstr(FILE *f, const char *s) { hexout(f, (const unsigned char *)s, strlen(s)); }

/* field parsing: returns malloc'd NUL-terminated string or NULL for "~" */
static char *unhex_str(const char *s)
{
    size_t n; unsigned char *b; char *r;
    if (s[0] == '~') return NULL;
    b = vh_unhex(s, &n);
    r = malloc(n + 1);
    memcpy(r, b, n); r[n] = 0;
    free(b);
    return r;
}

/* ---- raw dump through the public accessors ---- */
static void dump_raw(FILE *f, xmpp_stanza_t *st)
{
    if (xmpp_stanza_is_text(st)) {
        fputc('T', f); hexstr(f, xmpp_stanza_get_text_ptr(st));
    } else if (xmpp_stanza_is_tag(st)) {
        int n = xmpp_stanza_get_attribute_count(st), i, got;
        const char **arr = malloc(sizeof(char *) * (2 * n + 2));
        xmpp_stanza_t *ch;
        fputc('E', f); hexstr(f, xmpp_stanza_get_name(st));
        got = xmpp_stanza_get_attributes(st, arr, 2 * n);
        fputc('[', f);
        for (i = 0; i + 1 < got; i += 2) {
            if (i) fputc(',', f);
            hexstr(f, arr[i]); fputc('=', f); hexstr(f, arr[i + 1]);
            /* the getter must agree with the enumeration */
            if (strcmp(xmpp_stanza_get_attribute(st, arr[i]), arr[i + 1]) != 0) fputc('!', f);
        }
        if (got != 2 * n) fputc('?', f);
        fputc(']', f);
        free(arr);
        fputc('(', f);
        for (ch = xmpp_stanza_get_children(st); ch; ch = xmpp_stanza_get_next(ch)) {
            if (ch != xmpp_stanza_get_children(st)) fputc(',', f);
            dump_raw(f, ch);
        }
        fputc(')', f);
    } else
        fputc('U', f);
}

/* ---- canonical dump of a tree re-read by the library ---- */
typedef struct { const char *k; const char *v; } kv_t;
static int kvcmp(const void *a, const void *b) { return strcmp(((const kv_t *)a)->k, ((const kv_t *)b)->k); }

static void dump_canon_lib(FILE *f, xmpp_stanza_t *st, const char *inherited);

static void dump_children_lib(FILE *f, xmpp_stanza_t *st, const char *ns)
{
    xmpp_stanza_t *ch;
    int first = 1;
    char *acc = NULL; size_t acclen = 0;
    for (ch = xmpp_stanza_get_children(st);; ch = xmpp_stanza_get_next(ch)) {
        if (ch && xmpp_stanza_is_text(ch)) {
            const char *t = xmpp_stanza_get_text_ptr(ch);
            size_t l = strlen(t);
            acc = realloc(acc, acclen + l + 1);
            memcpy(acc + acclen, t, l); acclen += l;
            continue;
        }
        if (acclen) {
            if (!first) fputc(',', f);
            first = 0;
            fputc('T', f); hexout(f, (unsigned char *)acc, acclen);
        }
        free(acc); acc = NULL; acclen = 0;
        if (!ch) break;
        if (!first) fputc(',', f);
        first = 0;
        dump_canon_lib(f, ch, ns);
    }
}

static void dump_canon_lib(FILE *f, xmpp_stanza_t *st, const char *inherited)
{
    if (!xmpp_stanza_is_tag(st)) { fputc('U', f); return; }
    {
        const char *own = xmpp_stanza_get_ns(st);
        const char *ns = own ? own : inherited;
        int n = xmpp_stanza_get_attribute_count(st), i, m = 0, got;
        const char **arr = malloc(sizeof(char *) * (2 * n + 2));
        kv_t *kv = malloc(sizeof(kv_t) * (n + 1));
        got = xmpp_stanza_get_attributes(st, arr, 2 * n);
        for (i = 0; i + 1 < got; i += 2)
            if (strcmp(arr[i], "xmlns") != 0) { kv[m].k = arr[i]; kv[m].v = arr[i + 1]; m++; }
        qsort(kv, m, sizeof(kv_t), kvcmp);
        fputc('E', f); hexstr(f, xmpp_stanza_get_name(st));
        fputc('{', f); hexstr(f, ns); fputc('}', f);
        fputc('[', f);
        for (i = 0; i < m; i++) {
            if (i) fputc(',', f);
            hexstr(f, kv[i].k); fputc('=', f); hexstr(f, kv[i].v);
        }
        fputc(']', f);
        free(arr); free(kv);
        fputc('(', f);
        dump_children_lib(f, st, ns);
        fputc(')', f);
    }
}

/* ---- canonical dump of a libxml2 tree ---- */
static void dump_canon_xml(FILE *f, xmlNodePtr node);

static void dump_children_xml(FILE *f, xmlNodePtr node)
{
    xmlNodePtr ch;
    int first = 1;
    char *acc = NULL; size_t acclen = 0;
    for (ch = node->children;; ch = ch->next) {
        if (ch && (ch->type == XML_TEXT_NODE || ch->type == XML_CDATA_SECTION_NODE)) {
            const char *t = (const char *)ch->content;
            size_t l = t ? strlen(t) : 0;
            acc = realloc(acc, acclen + l + 1);
            if (l) memcpy(acc + acclen, t, l);
            acclen += l;
            continue;
        }
        if (acclen) {
            if (!first) fputc(',', f);
            first = 0;
            fputc('T', f); hexout(f, (unsigned char *)acc, acclen);
        }
        free(acc); acc = NULL; acclen = 0;
        if (!ch) break;
        if (!first) fputc(',', f);
        first = 0;
        if (ch->type == XML_ELEMENT_NODE) dump_canon_xml(f, ch);
        else fprintf(f, "?%d", (int)ch->type);
    }
}

typedef struct { char *k; char *v; } kvo_t;
static int kvocmp(const void *a, const void *b) { return strcmp(((const kvo_t *)a)->k, ((const kvo_t *)b)->k); }

static void dump_canon_xml(FILE *f, xmlNodePtr node)
{
    xmlAttrPtr a;
    int n = 0, i;
    kvo_t *kv;
    for (a = node->properties; a; a = a->next) n++;
    kv = malloc(sizeof(kvo_t) * (n + 1));
    n = 0;
    for (a = node->properties; a; a = a->next) {
        xmlChar *val = xmlNodeListGetString(node->doc, a->children, 1);
        if (a->ns && a->ns->href) {
            size_t l = strlen((const char *)a->ns->href) + strlen((const char *)a->name) + 3;
            kv[n].k = malloc(l);
            snprintf(kv[n].k, l, "{%s}%s", (const char *)a->ns->href, (const char *)a->name);
        } else
            kv[n].k = strdup((const char *)a->name);
        kv[n].v = strdup(val ? (const char *)val : "");
        if (val) xmlFree(val);
        n++;
    }
    qsort(kv, n, sizeof(kvo_t), kvocmp);
    fputc('E', f); hexstr(f, (const char *)node->name);
    fputc('{', f); hexstr(f, (node->ns && node->ns->href) ? (const char *)node->ns->href : ""); fputc('}', f);
    fputc('[', f);
    for (i = 0; i < n; i++) {
        if (i) fputc(',', f);
        hexstr(f, kv[i].k); fputc('=', f); hexstr(f, kv[i].v);
        free(kv[i].k); free(kv[i].v);
    }
    fputc(']', f);
    free(kv);
    fputc('(', f);
    dump_children_xml(f, node);
    fputc(')', f);
}

static void silent(void *ctx, const char *msg, ...) { (void)ctx; (void)msg; }

static void reread(xmpp_ctx_t *ctx, const char *text)
{
    /* the library's own reader */
    xmpp_stanza_t *st = xmpp_stanza_new_from_string(ctx, text);
    fputs(" L:", aux);
    if (!st) fputs("NULL", aux);
    else { dump_canon_lib(aux, st, "jabber:client"); xmpp_stanza_release(st); }
    /* libxml2, in stream context */
    {
        static const char *pre = "<stream:stream xmlns='jabber:client' xmlns:stream='http://etherx.jabber.org/streams'>";
        static const char *post = "</stream:stream>";
        size_t l = strlen(pre) + strlen(text) + strlen(post);
        char *doc = malloc(l + 1);
        xmlDocPtr d;
        strcpy(doc, pre); strcat(doc, text); strcat(doc, post);
        d = xmlReadMemory(doc, (int)l, "c09.xml", "UTF-8",
                          XML_PARSE_NONET | XML_PARSE_NOENT | XML_PARSE_NOERROR | XML_PARSE_NOWARNING | XML_PARSE_HUGE);
        fputs(" X:", aux);
        if (!d) fputs("ERRPARSE", aux);
        else {
            xmlNodePtr root = xmlDocGetRootElement(d), ch, el = NULL;
            int count = 0, stray = 0;
            for (ch = root ? root->children : NULL; ch; ch = ch->next) {
                if (ch->type == XML_ELEMENT_NODE) { if (!el) el = ch; count++; }
                else stray++;
            }
            if (count != 1 || stray) fprintf(aux, "ERRSHAPE%d.%d", count, stray);
            else dump_canon_xml(aux, el);
            xmlFreeDoc(d);
        }
        free(doc);
    }
}

static int getslot(const char *f) { int v = atoi(f); return (v >= 0 && v < MAXSLOT) ? v : 0; }

static void put_handle(int d, xmpp_stanza_t *st)
{
    if (slot_set[d] && slots[d]) xmpp_stanza_release(slots[d]);
    slots[d] = st; slot_set[d] = 1;
    fputs(st ? "h0" : "h1", stdout);
}

int main(void)
{
    char *line;
    xmpp_ctx_t *ctx = xmpp_ctx_new(&vh_mem, NULL);
    xmlInitParser();
    xmlSetGenericErrorFunc(NULL, silent);
    while ((line = vh_getline())) {
        char *auxbuf = NULL; size_t auxlen = 0;
        char *save1 = NULL, *tok;
        int first = 1, i;
        aux = open_memstream(&auxbuf, &auxlen);
        memset(slots, 0, sizeof(slots)); memset(slot_set, 0, sizeof(slot_set));
        for (tok = strtok_r(line, " ", &save1); tok; tok = strtok_r(NULL, " ", &save1)) {
            char *fld[8]; int nf = 0; char *save2 = NULL, *p;
            xmpp_stanza_t *a = NULL, *b = NULL;
            for (p = strtok_r(tok, ",", &save2); p && nf < 8; p = strtok_r(NULL, ",", &save2)) fld[nf++] = p;
            if (!first) putchar(' ');
            first = 0;
            if (nf < 2) { putchar('?'); continue; }
            switch (fld[0][0]) {
            case 'N': put_handle(getslot(fld[1]), xmpp_stanza_new(ctx)); break;
            case 'n': case 't': case 's': case 'i': case 'o': case 'f': case 'y': case 'd': {
                char *v; int rc;
                a = slots[getslot(fld[1])];
                if (!a || nf < 3) { putchar('k'); break; }
                v = unhex_str(fld[2]);
                switch (fld[0][0]) {
                case 'n': rc = xmpp_stanza_set_name(a, v); break;
                case 't': rc = xmpp_stanza_set_text(a, v); break;
                case 's': rc = xmpp_stanza_set_ns(a, v); break;
                case 'i': rc = xmpp_stanza_set_id(a, v); break;
                case 'o': rc = xmpp_stanza_set_to(a, v); break;
                case 'f': rc = xmpp_stanza_set_from(a, v); break;
                case 'y': rc = xmpp_stanza_set_type(a, v); break;
                default: rc = xmpp_stanza_del_attribute(a, v); break;
                }
                printf("r%d", rc);
                free(v);
                break;
            }
            case 'T': { /* xmpp_stanza_set_text_with_size from an exact-size, unterminated buffer */
                size_t len, size; unsigned char *raw;
                a = slots[getslot(fld[1])];
                if (!a || nf < 4) { putchar('k'); break; }
                raw = vh_unhex(fld[2], &len);
                size = (size_t)atoi(fld[3]);
                if (size > len) size = len;
                printf("r%d", xmpp_stanza_set_text_with_size(a, (const char *)raw, size));
                free(raw);
                break;
            }
            case 'a': {
                char *k, *v;
                a = slots[getslot(fld[1])];
                if (!a || nf < 4) { putchar('k'); break; }
                k = unhex_str(fld[2]); v = unhex_str(fld[3]);
                printf("r%d", xmpp_stanza_set_attribute(a, k, v));
                free(k); free(v);
                break;
            }
            case 'c': {
                xmpp_stanza_t *root;
                if (nf < 3) { putchar('k'); break; }
                a = slots[getslot(fld[1])]; b = slots[getslot(fld[2])];
                if (!a || !b || b->parent) { putchar('k'); break; }
                for (root = a; root->parent; root = root->parent) ;
                if (root == b) { putchar('k'); break; }
                printf("r%d", xmpp_stanza_add_child(a, b));
                break;
            }
            case 'C': case 'R':
                if (nf < 3) { putchar('k'); break; }
                a = slots[getslot(fld[2])];
                if (!a) { putchar('k'); break; }
                put_handle(getslot(fld[1]), fld[0][0] == 'C' ? xmpp_stanza_copy(a) : xmpp_stanza_reply(a));
                break;
            case 'E': {
                char *ty, *cond, *text;
                if (nf < 6) { putchar('k'); break; }
                a = slots[getslot(fld[2])];
                if (!a) { putchar('k'); break; }
                ty = unhex_str(fld[3]); cond = unhex_str(fld[4]); text = unhex_str(fld[5]);
                put_handle(getslot(fld[1]), xmpp_stanza_reply_error(a, ty, cond, text));
                free(ty); free(cond); free(text);
                break;
            }
            case 'S': {
                char *text;
                if (nf < 4) { putchar('k'); break; }
                text = unhex_str(fld[3]);
                put_handle(getslot(fld[1]), xmpp_error_new(ctx, (xmpp_error_type_t)atoi(fld[2]), text));
                free(text);
                break;
            }
            case 'P': {
                char *buf = (char *)1; size_t blen = 777; int rc;
                a = slots[getslot(fld[1])];
                if (!a) { putchar('k'); break; }
                rc = xmpp_stanza_to_text(a, &buf, &blen);
                if (rc == 0 && buf) {
                    printf("P:0:%zu:%zu:", blen, strlen(buf));
                    hexstr(stdout, buf);
                    if (xmpp_stanza_is_tag(a)) reread(ctx, buf);
                    xmpp_free(ctx, buf);
                } else
                    printf("P:%d:%zu:0:%s", rc, blen, buf ? "nonnull" : "-");
                break;
            }
            case 'D':
                a = slots[getslot(fld[1])];
                if (!a) { putchar('k'); break; }
                fputs("D:", stdout); dump_raw(stdout, a);
                break;
            default: putchar('?');
            }
        }
        fclose(aux);
        printf(" #%s\n", auxbuf ? auxbuf : "");
        free(auxbuf);
        for (i = 0; i < MAXSLOT; i++)
            if (slot_set[i] && slots[i]) xmpp_stanza_release(slots[i]);
        fflush(stdout);
    }
    xmpp_ctx_free(ctx);
    return 0;
}
