/* C10 driver: a document is fed through the real parser_new/parser_feed/parser_reset of
   src/parser_expat.c with a given partition into chunks and optional restarts.

   input : "<mode> <dochex> <partitions> <resets>"
             mode   L  libstrophe: canonical log of what the three parser callbacks receive
                    S  raw SAX events of a second, plain expat parser configured like libstrophe's
                       (XML_ParserCreate_MM(NULL, NULL, &namespace_sep)), fed the very same chunks
                    D  like S, with expat's reparse deferral switched off (XML_SetReparseDeferralEnabled
                       looked up with dlsym; " NOAPI" appended if this libexpat has no such function)
                    X  libxml2 SAX2 events of the whole document (partitions/resets ignored)
                    followed by flags: m = consecutive pieces of character data joined into one token,
                                       t = a "/" token after every feed (delivery timing)
             partitions  one or more, separated by ";", each "-" (one chunk) | "*" (every byte) |
                         p1,p2,...  byte offsets where a new chunk starts;
                         or "#k" (k = 1,2,3): the unsplit document, then EVERY k-cut partition in lexicographic order
             resets "-" | p1,p2,...  offsets (chunk boundaries, 0..len) at which parser_reset is called
                    | @<hexname>  like conn.c/event.c: when a top-level stanza with this local name has been
                      delivered, parser_reset is called after the feed in progress has returned
   output: one result per partition, separated by " ; "; a result equal to the first one (the feed number
           in E<k> aside) is printed as "=".  A result is a list of tokens separated by one blank (all
           strings hex, "-" = empty)
             L: O(name;k=v,k=v)   stream start, raw attribute names as handed to the callback, sorted
                Z(tree)           stanza; tree = e(name|k=v,...|children) | t(text) | u()
                C(name)           stream end (raw name as handed to the callback)
             S/D/X: s(qname;k=v,...) (attribute order as delivered)  e(qname)  c(bytes)
             all: R reset, E<k> feed number k failed (feeding stops), "/" feed boundary
*/
#include "vharness.h"
#include "common.h"
#include "parser.h"
#include "hash.h"
#include <expat.h>
#include <dlfcn.h>
#include <libxml/parser.h>
#include <libxml/parserInternals.h>

extern const XML_Char namespace_sep;

/* ---- output buffer ---- */
static char *ob = NULL;
static size_t ob_len = 0, ob_cap = 0;
static void ob_need(size_t n)
{
    if (ob_len + n + 1 > ob_cap) {
        ob_cap = (ob_len + n + 1) * 2 + 256;
        ob = realloc(ob, ob_cap);
    }
}
static void ob_putc(char c) { ob_need(1); ob[ob_len++] = c; ob[ob_len] = 0; }
static void ob_puts(const char *s) { size_t n = strlen(s); ob_need(n); memcpy(ob + ob_len, s, n); ob_len += n; ob[ob_len] = 0; }
static void ob_hex(const unsigned char *b, size_t n)
{
    static const char hx[] = "0123456789abcdef";
    size_t i;
    if (n == 0) { ob_putc('-'); return; }
    ob_need(2 * n);
    for (i = 0; i < n; i++) { ob[ob_len++] = hx[b[i] >> 4]; ob[ob_len++] = hx[b[i] & 15]; }
    ob[ob_len] = 0;
}
static void ob_hexs(const char *s) { if (!s) ob_puts("NULL"); else ob_hex((const unsigned char *)s, strlen(s)); }
static void ob_sep(void) { if (ob_len) ob_putc(' '); }

/* ---- restart on a trigger stanza (what conn_prepare_reset + the event loop do) ---- */
static const char *trig = NULL;   /* local name, NUL terminated */
static int trig_pending = 0;
static int sx_depth = 0;
static int opt_merge = 0;         /* join consecutive pieces of character data into one c(...) token */
static int last_chars = 0;        /* the last token written is a c(...) */

/* ---- sorted attribute lists ---- */
typedef struct { const char *k, *v; } kv_t;
static int kv_cmp(const void *a, const void *b) { return strcmp(((const kv_t *)a)->k, ((const kv_t *)b)->k); }
static void put_kvs(kv_t *kv, int n, int sort)
{
    int i;
    if (sort) qsort(kv, n, sizeof(kv_t), kv_cmp);
    for (i = 0; i < n; i++) {
        if (i) ob_putc(',');
        ob_hexs(kv[i].k); ob_putc('='); ob_hexs(kv[i].v);
    }
}
static void put_attr_array(const char **attrs, int sort)
{
    int n = 0, i;
    kv_t *kv;
    if (!attrs) return;
    while (attrs[2 * n]) n++;
    kv = malloc(sizeof(kv_t) * (n ? n : 1));
    for (i = 0; i < n; i++) { kv[i].k = attrs[2 * i]; kv[i].v = attrs[2 * i + 1]; }
    put_kvs(kv, n, sort);
    free(kv);
}

/* ---- libstrophe side ---- */
static void render(xmpp_stanza_t *s)
{
    if (s->type == XMPP_STANZA_TEXT) {
        ob_puts("t("); ob_hexs(s->data); ob_putc(')');
    } else if (s->type == XMPP_STANZA_TAG) {
        xmpp_stanza_t *c;
        ob_puts("e("); ob_hexs(s->data); ob_putc('|');
        if (s->attributes) {
            int n = hash_num_keys(s->attributes), i = 0;
            kv_t *kv = malloc(sizeof(kv_t) * (n ? n : 1));
            hash_iterator_t *it = hash_iter_new(s->attributes);
            const char *k;
            while (it && (k = hash_iter_next(it)) && i < n) { kv[i].k = k; kv[i].v = hash_get(s->attributes, k); i++; }
            if (it) hash_iter_release(it);
            put_kvs(kv, i, 1);
            free(kv);
        }
        ob_putc('|');
        for (c = s->children; c; c = c->next) {
            if (c->parent != s) ob_puts("!parent!");
            render(c);
        }
        ob_putc(')');
    } else {
        ob_puts("u()");
    }
}
static void cb_start(char *name, char **attrs, void *ud)
{
    (void)ud;
    ob_sep(); ob_puts("O("); ob_hexs(name); ob_putc(';'); put_attr_array((const char **)attrs, 1); ob_putc(')');
}
static void cb_end(char *name, void *ud)
{
    (void)ud;
    ob_sep(); ob_puts("C("); ob_hexs(name); ob_putc(')');
}
static void cb_stanza(xmpp_stanza_t *st, void *ud)
{
    (void)ud;
    ob_sep(); ob_puts("Z("); render(st); ob_putc(')');
    if (trig && st->type == XMPP_STANZA_TAG && st->data && strcmp(st->data, trig) == 0) trig_pending = 1;
}

/* character data token; in merge mode a piece directly following another joins it */
static void put_chars(const unsigned char *s, size_t n)
{
    if (opt_merge && last_chars && ob_len && ob[ob_len - 1] == ')') {
        if (n) {
            if (ob_len >= 3 && ob[ob_len - 2] == '-' && ob[ob_len - 3] == '(') ob_len -= 2; else ob_len -= 1;
            ob[ob_len] = 0;
            ob_hex(s, n); ob_putc(')');
        }
        return;
    }
    ob_sep(); ob_puts("c("); ob_hex(s, n); ob_putc(')');
    last_chars = 1;
}

/* ---- plain expat side ---- */
static void XMLCALL sx_start(void *ud, const XML_Char *n, const XML_Char **a)
{
    (void)ud;
    sx_depth++; last_chars = 0;
    ob_sep(); ob_puts("s("); ob_hexs(n); ob_putc(';'); put_attr_array((const char **)a, 0); ob_putc(')');
}
static void XMLCALL sx_end(void *ud, const XML_Char *n)
{
    (void)ud;
    sx_depth--; last_chars = 0;
    ob_sep(); ob_puts("e("); ob_hexs(n); ob_putc(')');
    if (trig && sx_depth == 1) {
        const char *l = strchr(n, namespace_sep);
        l = l ? l + 1 : n;
        if (strcmp(l, trig) == 0) trig_pending = 1;
    }
}
static void XMLCALL sx_chars(void *ud, const XML_Char *s, int len)
{
    (void)ud;
    put_chars((const unsigned char *)s, len < 0 ? 0 : (size_t)len);
}
typedef XML_Bool (*deferral_fn)(XML_Parser, XML_Bool);
static int set_deferral(XML_Parser p, int on)
{
    static deferral_fn fn = NULL; static int looked = 0;
    if (!looked) { fn = (deferral_fn)dlsym(RTLD_DEFAULT, "XML_SetReparseDeferralEnabled"); looked = 1; }
    if (!fn) return 0;
    fn(p, on ? XML_TRUE : XML_FALSE);
    return 1;
}
static void sx_install(XML_Parser p)
{
    XML_SetElementHandler(p, sx_start, sx_end);
    XML_SetCharacterDataHandler(p, sx_chars);
}

/* ---- libxml2 side ---- */
static void ob_hexraw(const unsigned char *b, size_t n)
{
    if (n) ob_hex(b, n);
}
/* expat's spelling of a qualified name: URI SEP local, or just local */
static void put_q(const xmlChar *uri, const xmlChar *local)
{
    if (uri && uri[0]) {
        unsigned char sep = (unsigned char)namespace_sep;
        ob_hexraw(uri, strlen((const char *)uri));
        ob_hexraw(&sep, 1);
        ob_hexraw(local, strlen((const char *)local));
    } else
        ob_hexs((const char *)local);
}
static void lx_start(void *ctx, const xmlChar *local, const xmlChar *prefix, const xmlChar *uri, int nns,
                     const xmlChar **nss, int nattr, int ndef, const xmlChar **attrs)
{
    int i;
    (void)ctx; (void)prefix; (void)nns; (void)nss; (void)ndef;
    last_chars = 0;
    ob_sep(); ob_puts("s("); put_q(uri, local); ob_putc(';');
    for (i = 0; i < nattr; i++) {
        const xmlChar *al = attrs[5 * i], *au = attrs[5 * i + 2], *vb = attrs[5 * i + 3], *ve = attrs[5 * i + 4];
        if (i) ob_putc(',');
        put_q(au, al); ob_putc('='); ob_hex(vb, (size_t)(ve - vb));
    }
    ob_putc(')');
}
static void lx_end(void *ctx, const xmlChar *local, const xmlChar *prefix, const xmlChar *uri)
{
    (void)ctx; (void)prefix;
    last_chars = 0;
    ob_sep(); ob_puts("e("); put_q(uri, local); ob_putc(')');
}
static void lx_chars(void *ctx, const xmlChar *s, int len)
{
    (void)ctx;
    /* an empty CDATA section is reported as an empty block: no character information item */
    if (len <= 0) return;
    put_chars(s, (size_t)len);
}
static void lx_silent(void *ctx, const char *msg, ...) { (void)ctx; (void)msg; }
static void lx_serror(void *ctx, xmlErrorPtr e) { (void)ctx; (void)e; }

static void run_libxml2(const unsigned char *doc, size_t len)
{
    xmlSAXHandler sax;
    xmlParserCtxtPtr c;
    memset(&sax, 0, sizeof sax);
    sax.initialized = XML_SAX2_MAGIC;
    sax.startElementNs = lx_start;
    sax.endElementNs = lx_end;
    sax.characters = lx_chars;
    sax.ignorableWhitespace = lx_chars;
    sax.cdataBlock = lx_chars;
    sax.warning = lx_silent;
    sax.error = lx_silent;
    sax.fatalError = lx_silent;
    sax.serror = lx_serror;
    c = xmlCreatePushParserCtxt(&sax, NULL, NULL, 0, NULL);
    if (!c) { ob_sep(); ob_puts("E0"); return; }
    xmlCtxtUseOptions(c, XML_PARSE_NOENT | XML_PARSE_NONET | XML_PARSE_DTDATTR);
    xmlParseChunk(c, (const char *)doc, (int)len, 1);
    if (!c->wellFormed || !c->nsWellFormed) { ob_sep(); ob_puts("E0"); }
    xmlFreeParserCtxt(c);
}

/* ---- case parsing ---- */
static size_t *parse_list(const char *s, const char *end, size_t len, size_t *n, int star_ok)
{
    size_t cap = 16, *r = malloc(cap * sizeof(size_t));
    *n = 0;
    if (s >= end || s[0] == '-') return r;
    if (s[0] == '*' && star_ok) {
        size_t i;
        free(r);
        r = malloc(sizeof(size_t) * (len ? len : 1));
        for (i = 1; i < len; i++) r[(*n)++] = i;
        return r;
    }
    while (s < end && *s) {
        char *e;
        unsigned long v = strtoul(s, &e, 10);
        if (e == s) break;
        if (*n == cap) { cap *= 2; r = realloc(r, cap * sizeof(size_t)); }
        r[(*n)++] = v;
        s = (*e == ',') ? e + 1 : e;
    }
    return r;
}
static int in_list(const size_t *l, size_t n, size_t v)
{
    size_t i;
    for (i = 0; i < n; i++) if (l[i] == v) return 1;
    return 0;
}

static xmpp_ctx_t *ctx;
static int opt_timing, opt_nodefer;

static void do_reset(parser_t *lp, XML_Parser xp)
{
    trig_pending = 0; sx_depth = 0; last_chars = 0;
    ob_sep(); ob_putc('R');
    if (lp) parser_reset(lp);
    else { XML_ParserReset(xp, NULL); sx_install(xp); if (opt_nodefer) set_deferral(xp, 0); }
}

/* one document, one partition: appends the event log to ob.  returns 0 if the deferral API is missing */
static int run_case(char mode, const unsigned char *doc, size_t len, const size_t *cuts, size_t ncuts,
                    const size_t *res, size_t nres)
{
    parser_t *lp = NULL;
    XML_Parser xp = NULL;
    size_t pos = 0, b;
    int k = 0;

    trig_pending = 0; sx_depth = 0; last_chars = 0;
    if (mode == 'L') {
        lp = parser_new(ctx, cb_start, cb_end, cb_stanza, NULL);
    } else {
        xp = XML_ParserCreate_MM(NULL, NULL, &namespace_sep);
        sx_install(xp);
        if (opt_nodefer && !set_deferral(xp, 0)) { XML_ParserFree(xp); return 0; }
    }
    if (in_list(res, nres, 0)) do_reset(lp, xp);
    for (b = 1; b <= len; b++) {
        int is_cut = (b == len) || in_list(cuts, ncuts, b), is_res = in_list(res, nres, b);
        size_t n = b - pos;
        char *chunk;
        int ok;
        if (!is_cut && !is_res) continue;
        /* exact-size heap copy so that an over-read of the chunk is trapped */
        chunk = malloc(n ? n : 1);
        memcpy(chunk, doc + pos, n);
        ok = lp ? parser_feed(lp, chunk, (int)n) : (XML_Parse(xp, chunk, (int)n, 0) != XML_STATUS_ERROR);
        free(chunk);
        pos = b;
        if (!ok) {
            char t[32];
            snprintf(t, sizeof t, "E%d", k);
            ob_sep(); ob_puts(t);
            break;
        }
        k++;
        if (opt_timing) { ob_sep(); ob_putc('/'); last_chars = 0; }
        if (is_res || trig_pending) do_reset(lp, xp);
    }
    if (lp) parser_free(lp);
    if (xp) XML_ParserFree(xp);
    return 1;
}

/* copy of a log with the feed number of E<k> removed (it depends on the partition by construction) */
static char *norm_log(const char *s)
{
    size_t n = strlen(s), i, j = 0;
    char *r = malloc(n + 1);
    for (i = 0; i < n; i++) {
        r[j++] = s[i];
        if (s[i] == 'E' && (i == 0 || s[i - 1] == ' ')) while (i + 1 < n && s[i + 1] >= '0' && s[i + 1] <= '9') i++;
    }
    r[j] = 0;
    return r;
}

int main(void)
{
    char *line;
    ctx = xmpp_ctx_new(&vh_mem, NULL);
    xmlInitParser();
    while ((line = vh_getline())) {
        char mode, *f[4], *p = line, *q;
        int nf = 0, first = 1, noapi = 0;
        size_t len, nres;
        unsigned char *doc;
        size_t *res;
        char *trigbuf = NULL, *ref = NULL;

        while (nf < 4 && *p) {
            f[nf++] = p;
            while (*p && *p != ' ') p++;
            if (*p) *p++ = 0;
        }
        if (nf < 2) { puts("?"); fflush(stdout); continue; }
        if (nf < 3) f[2] = "-";
        if (nf < 4) f[3] = "-";
        mode = f[0][0];
        opt_timing = strchr(f[0] + 1, 't') != NULL;
        opt_merge = strchr(f[0] + 1, 'm') != NULL;
        opt_nodefer = 0;
        if (mode == 'D') { mode = 'S'; opt_nodefer = 1; }
        trig = NULL;
        doc = vh_unhex(f[1], &len);
        if (mode == 'X') {
            ob_len = 0; if (ob) ob[0] = 0; last_chars = 0;
            run_libxml2(doc, len);
            puts(ob_len ? ob : "-"); fflush(stdout); free(doc);
            continue;
        }
        if (f[3][0] == '@') {
            size_t tl;
            unsigned char *t = vh_unhex(f[3] + 1, &tl);
            trigbuf = malloc(tl + 1); memcpy(trigbuf, t, tl); trigbuf[tl] = 0; free(t);
            trig = trigbuf;
            { static const char dash[] = "-"; res = parse_list(dash, dash + 1, len, &nres, 0); }
        } else
            res = parse_list(f[3], f[3] + strlen(f[3]), len, &nres, 0);

        /* the partitions: "#k" = the unsplit document, then every k-cut partition in lexicographic order;
           otherwise a ';'-separated list.  A result equal to the first one (feed numbers of E aside) is
           printed as "=" */
#define EMIT(cuts_, n_) do { \
            ob_len = 0; if (ob) ob[0] = 0; \
            if (!run_case(mode, doc, len, (cuts_), (n_), res, nres)) noapi = 1; \
            { const char *o_ = ob_len ? ob : "-"; char *nl_ = norm_log(o_); \
              if (first) { ref = nl_; fputs(o_, stdout); first = 0; } \
              else { fputs(" ; ", stdout); fputs(strcmp(nl_, ref) == 0 ? "=" : o_, stdout); free(nl_); } } \
        } while (0)
        if (f[2][0] == '#') {
            int kk = atoi(f[2] + 1);
            size_t c[3] = {0, 0, 0};
            EMIT(c, 0);
            if (kk == 1) { for (c[0] = 1; c[0] < len; c[0]++) EMIT(c, 1); }
            else if (kk == 2) { for (c[0] = 1; c[0] < len; c[0]++) for (c[1] = c[0] + 1; c[1] < len; c[1]++) EMIT(c, 2); }
            else if (kk == 3) { for (c[0] = 1; c[0] < len; c[0]++) for (c[1] = c[0] + 1; c[1] < len; c[1]++)
                                    for (c[2] = c[1] + 1; c[2] < len; c[2]++) EMIT(c, 3); }
        } else {
            q = f[2];
            for (;;) {
                char *e = strchr(q, ';');
                size_t ncuts, *cuts = parse_list(q, e ? e : q + strlen(q), len, &ncuts, 1);
                EMIT(cuts, ncuts);
                free(cuts);
                if (!e) break;
                q = e + 1;
            }
        }
        if (noapi) fputs(" NOAPI", stdout);
        putchar('\n');
        fflush(stdout);
        free(ref); free(doc); free(res); free(trigbuf);
    }
    xmpp_ctx_free(ctx);
    return 0;
}
