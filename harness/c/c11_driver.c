/* C11 driver: the real handler lists (src/handler.c) under scripted callbacks with per-handler
   identities.  One scenario per input line, one trace line per scenario.

   The connection object is made by xmpp_conn_new(); `state`/`neg` poke conn->state and
   conn->stream_negotiation_completed directly (like the repository's own tests use common.h).
   Stanzas reach handler_fire_stanza() either directly (`st`, built through the stanza API) or through
   the connection's real parser and _handle_stream_stanza (`fst`, after `open`).  Timed handlers are
   driven by handler_fire_timed() (`fire`) or by the real xmpp_run_once() (`run`, `run2`) with a
   virtual clock (ld --wrap=gettimeofday,select,send).

   commands (separated by ';', arguments by single spaces; `-` = NULL / absent):
     beh <cb> <ud> <e>/<e>/...       behaviour of callback cb with userdata ud: n-th call uses entry n (last
                                     repeats); entry = <0|1>[:<action>,<action>...]
        actions: add:<k> dels:<cb> deli:<cb>:<id> delt:<cb> delg:<cb> send:<text> clk:<ms> (virtual clock
                 advances inside the callback)
     def <k> s <ns> <name> <type> <cb> <ud> <u|y>     stanza handler definition (u = user API, y = system)
     def <k> i <id> <cb> <ud> <u|y>                   id handler
     def <k> t <period> <cb> <ud> <u|y>               timed handler          (cb 100..115)
     def <k> g <period> <cb> <ud>                     context-wide timed     (cb 200..207)
     add <k> | dels <cb> | deli <cb> <id> | delt <cb> | delg <cb>
     neg <0|1> | state <c|d|g> | clock <ms> | reset <0|1> | sysdel | dump
     st  <name> <ns> <type> <id> <children>           children: comma list of child namespaces, `~` = child
     fst <name> <ns> <type> <id> <children>           element without namespace, `T` = text node
     open                                             stream header through the parser (open handler =
                                                      auth_handle_open_raw: re-arm timed, negotiation done)
     fire | run | run2                                handler_fire_timed / xmpp_run_once (select: nothing
                                                      ready / "something happened" -> second timed pass)
   trace: H<cb>.<ud>@<ms>:<name>[#id] | :t | :g     handler invocations
          W:<text>                                    bytes handed to send()
          E:<event>                                   connection handler events
          D S[..] I{..} T[..] G[..]                   dump (always at the end)
          RUNAWAY                                     more than 3000 invocations in one scenario (see run_beh)
          LEAK=<n>                                    blocks still allocated after release                  */
#include "vharness.h"
#include "common.h"
#include "parser.h"
#include <sys/time.h>
#include <sys/select.h>
#include <stdarg.h>

#define MAXDEF 32
#define NCB 16
#define NTCB 16
#define NGCB 8
#define NUD 8
#define MAXENT 8

static uint64_t now_ms;
static int select_mode; /* 0: nothing ready; 1: report an event with empty sets */
static xmpp_ctx_t *ctx;
static xmpp_conn_t *conn;
static char ud_slot[NUD];

static char trace[1 << 16];
static size_t tlen;
static void tr(const char *fmt, ...)
{
    va_list ap;
    va_start(ap, fmt);
    if (tlen < sizeof(trace) - 512) tlen += (size_t)vsnprintf(trace + tlen, sizeof(trace) - tlen, fmt, ap);
    va_end(ap);
}

/* ---- wraps ---- */
int __wrap_gettimeofday(struct timeval *tv, void *tz)
{
    (void)tz;
    tv->tv_sec = (time_t)(now_ms / 1000);
    tv->tv_usec = (suseconds_t)((now_ms % 1000) * 1000);
    return 0;
}
int __wrap_select(int n, fd_set *r, fd_set *w, fd_set *e, struct timeval *tv)
{
    (void)n; (void)e; (void)tv;
    if (r) FD_ZERO(r);
    if (w) FD_ZERO(w);
    return select_mode;
}
ssize_t __wrap_send(int fd, const void *buf, size_t len, int flags)
{
    size_t i;
    (void)fd; (void)flags;
    tr("W:");
    for (i = 0; i < len; i++) tr("%c", ((const char *)buf)[i]);
    tr(" ");
    return (ssize_t)len;
}

/* ---- scripted behaviours ---- */
struct entry { int ret; char acts[160]; };
struct beh { int n; int calls; struct entry e[MAXENT]; };
static struct beh behs[3][NCB][NUD]; /* family 0: stanza/id, 1: timed, 2: global */

struct def {
    int used; char kind; char ns[48], name[48], type[48], id[48];
    int has_ns, has_name, has_type; unsigned long period; int cb, ud, user;
};
static struct def defs[MAXDEF];

static int s_body(int i, xmpp_conn_t *c, xmpp_stanza_t *s, void *ud);
static int t_body(int i, xmpp_conn_t *c, void *ud);
static int g_body(int i, xmpp_ctx_t *c, void *ud);
#define SH(i) static int sw_s##i(xmpp_conn_t *c, xmpp_stanza_t *s, void *ud) { return s_body(i, c, s, ud); }
#define TH(i) static int sw_t##i(xmpp_conn_t *c, void *ud) { return t_body(i, c, ud); }
#define GH(i) static int sw_g##i(xmpp_ctx_t *c, void *ud) { return g_body(i, c, ud); }
SH(0) SH(1) SH(2) SH(3) SH(4) SH(5) SH(6) SH(7) SH(8) SH(9) SH(10) SH(11) SH(12) SH(13) SH(14) SH(15)
TH(0) TH(1) TH(2) TH(3) TH(4) TH(5) TH(6) TH(7) TH(8) TH(9) TH(10) TH(11) TH(12) TH(13) TH(14) TH(15)
GH(0) GH(1) GH(2) GH(3) GH(4) GH(5) GH(6) GH(7)
static xmpp_handler s_fn[NCB] = {sw_s0, sw_s1, sw_s2, sw_s3, sw_s4, sw_s5, sw_s6, sw_s7,
                                 sw_s8, sw_s9, sw_s10, sw_s11, sw_s12, sw_s13, sw_s14, sw_s15};
static xmpp_timed_handler t_fn[NTCB] = {sw_t0, sw_t1, sw_t2, sw_t3, sw_t4, sw_t5, sw_t6, sw_t7,
                                        sw_t8, sw_t9, sw_t10, sw_t11, sw_t12, sw_t13, sw_t14, sw_t15};
static xmpp_global_timed_handler g_fn[NGCB] = {sw_g0, sw_g1, sw_g2, sw_g3, sw_g4, sw_g5, sw_g6, sw_g7};

static int cb_of_fn(xmpp_void_handler f, int fam)
{
    int i;
    if (fam == 0) { for (i = 0; i < NCB; i++) if ((xmpp_void_handler)s_fn[i] == f) return i; }
    if (fam == 1) { for (i = 0; i < NTCB; i++) if ((xmpp_void_handler)t_fn[i] == f) return 100 + i; }
    if (fam == 2) { for (i = 0; i < NGCB; i++) if ((xmpp_void_handler)g_fn[i] == f) return 200 + i; }
    return -1;
}
static int ud_of(void *ud) { return (int)((char *)ud - ud_slot); }

static void do_register(int k)
{
    struct def *d = &defs[k];
    void *ud = &ud_slot[d->ud];
    if (!d->used) return;
    switch (d->kind) {
    case 's':
        if (d->user) xmpp_handler_add(conn, s_fn[d->cb], d->has_ns ? d->ns : NULL, d->has_name ? d->name : NULL,
                                      d->has_type ? d->type : NULL, ud);
        else handler_add(conn, s_fn[d->cb], d->has_ns ? d->ns : NULL, d->has_name ? d->name : NULL,
                         d->has_type ? d->type : NULL, ud);
        break;
    case 'i':
        if (d->user) xmpp_id_handler_add(conn, s_fn[d->cb], d->id, ud);
        else handler_add_id(conn, s_fn[d->cb], d->id, ud);
        break;
    case 't':
        if (d->user) xmpp_timed_handler_add(conn, t_fn[d->cb - 100], d->period, ud);
        else handler_add_timed(conn, t_fn[d->cb - 100], d->period, ud);
        break;
    case 'g':
        xmpp_global_timed_handler_add(ctx, g_fn[d->cb - 200], d->period, ud);
        break;
    }
}

static void do_action(const char *a)
{
    if (!strncmp(a, "add:", 4)) do_register(atoi(a + 4));
    else if (!strncmp(a, "dels:", 5)) xmpp_handler_delete(conn, s_fn[atoi(a + 5)]);
    else if (!strncmp(a, "deli:", 5)) {
        const char *c = strchr(a + 5, ':');
        if (c) xmpp_id_handler_delete(conn, s_fn[atoi(a + 5)], c + 1);
    } else if (!strncmp(a, "delt:", 5)) xmpp_timed_handler_delete(conn, t_fn[atoi(a + 5) - 100]);
    else if (!strncmp(a, "delg:", 5)) xmpp_global_timed_handler_delete(ctx, g_fn[atoi(a + 5) - 200]);
    else if (!strncmp(a, "send:", 5)) xmpp_send_raw(conn, a + 5, strlen(a + 5));
    else if (!strncmp(a, "clk:", 4)) now_ms += strtoull(a + 4, NULL, 10); /* the callback takes time */
}

/* a broken dispatch loop can keep calling handlers for ever (e.g. two handlers that delete and re-add each
   other, visited again and again); after RUNAWAY_LIMIT invocations in one scenario the scripted callbacks stop
   acting and return 0, so the scenario ends and the trace shows RUNAWAY instead of the driver hanging */
#define RUNAWAY_LIMIT 3000
static long ninvocations;

static int run_beh(int fam, int cb, int ud)
{
    struct beh *b = &behs[fam][cb][ud];
    struct entry *e;
    char buf[160], *p, *q;
    if (++ninvocations > RUNAWAY_LIMIT) {
        if (ninvocations == RUNAWAY_LIMIT + 1) tr("RUNAWAY ");
        return 0;
    }
    if (b->n == 0) { b->calls++; return 1; }
    e = &b->e[b->calls < b->n ? b->calls : b->n - 1];
    b->calls++;
    strcpy(buf, e->acts);
    for (p = buf; p && *p; p = q) {
        q = strchr(p, ',');
        if (q) *q++ = 0;
        do_action(p);
    }
    return e->ret;
}

static int s_body(int i, xmpp_conn_t *c, xmpp_stanza_t *s, void *ud)
{
    const char *name = xmpp_stanza_get_name(s), *id = xmpp_stanza_get_id(s);
    (void)c;
    tr("H%d.%d@%llu:%s%s%s ", i, ud_of(ud), (unsigned long long)now_ms, name ? name : "?", id ? "#" : "", id ? id : "");
    return run_beh(0, i, ud_of(ud));
}
static int t_body(int i, xmpp_conn_t *c, void *ud)
{
    (void)c;
    tr("H%d.%d@%llu:t ", 100 + i, ud_of(ud), (unsigned long long)now_ms);
    return run_beh(1, i, ud_of(ud));
}
static int g_body(int i, xmpp_ctx_t *c, void *ud)
{
    (void)c;
    tr("H%d.%d@%llu:g ", 200 + i, ud_of(ud), (unsigned long long)now_ms);
    return run_beh(2, i, ud_of(ud));
}

static void conn_cb(xmpp_conn_t *c, xmpp_conn_event_t ev, int error, xmpp_stream_error_t *se, void *ud)
{
    (void)c; (void)error; (void)se; (void)ud;
    tr("E:%s ", ev == XMPP_CONN_CONNECT ? "connect" : ev == XMPP_CONN_RAW_CONNECT ? "raw" :
                ev == XMPP_CONN_DISCONNECT ? "disconnect" : "fail");
}

/* ---- dump ---- */
static void dump_item(xmpp_handlist_t *it, int fam, int timed)
{
    tr("%d.%d.%c.%c", cb_of_fn(it->handler, fam), ud_of(it->userdata), it->enabled ? 'e' : 'd',
       it->user_handler ? 'u' : 'y');
    if (timed) tr(".%lu.%llu", it->u.period, (unsigned long long)it->u.last_stamp);
    else if (fam == 0 && !timed) { /* filter of stanza handlers */ }
}
static int cmpstr(const void *a, const void *b) { return strcmp(*(const char *const *)a, *(const char *const *)b); }
static void dump(void)
{
    xmpp_handlist_t *it;
    hash_iterator_t *iter;
    const char *key, *keys[256];
    int nk = 0, i, first;
    tr("D S[");
    for (it = conn->handlers, first = 1; it; it = it->next, first = 0) {
        if (!first) tr(" ");
        dump_item(it, 0, 0);
        tr(".%s.%s.%s", it->u.ns ? it->u.ns : "-", it->u.name ? it->u.name : "-", it->u.type ? it->u.type : "-");
    }
    tr("] I{");
    iter = hash_iter_new(conn->id_handlers);
    while ((key = hash_iter_next(iter)) && nk < 256)
        if (hash_get(conn->id_handlers, key)) keys[nk++] = key;
    qsort(keys, (size_t)nk, sizeof(keys[0]), cmpstr);
    for (i = 0; i < nk; i++) {
        tr("%s%s:[", i ? ";" : "", keys[i]);
        for (it = hash_get(conn->id_handlers, keys[i]), first = 1; it; it = it->next, first = 0) {
            if (!first) tr(" ");
            dump_item(it, 0, 0);
            tr(".%s", it->u.id);
        }
        tr("]");
    }
    hash_iter_release(iter);
    tr("} T[");
    for (it = conn->timed_handlers, first = 1; it; it = it->next, first = 0) {
        if (!first) tr(" ");
        dump_item(it, 1, 1);
    }
    tr("] G[");
    for (it = ctx->timed_handlers, first = 1; it; it = it->next, first = 0) {
        if (!first) tr(" ");
        dump_item(it, 2, 1);
    }
    tr("] ");
}

/* ---- stanzas ---- */
static xmpp_stanza_t *build_stanza(char **argv)
{
    xmpp_stanza_t *s = xmpp_stanza_new(ctx), *c;
    char buf[256], *p, *q;
    xmpp_stanza_set_name(s, argv[1]);
    if (strcmp(argv[2], "-")) xmpp_stanza_set_ns(s, argv[2]);
    if (strcmp(argv[3], "-")) xmpp_stanza_set_type(s, argv[3]);
    if (strcmp(argv[4], "-")) xmpp_stanza_set_id(s, argv[4]);
    if (strcmp(argv[5], "-")) {
        strcpy(buf, argv[5]);
        for (p = buf; p && *p; p = q) {
            q = strchr(p, ',');
            if (q) *q++ = 0;
            c = xmpp_stanza_new(ctx);
            if (!strcmp(p, "T")) xmpp_stanza_set_text(c, "txt");
            else {
                xmpp_stanza_set_name(c, "c");
                if (strcmp(p, "~")) xmpp_stanza_set_ns(c, p);
            }
            xmpp_stanza_add_child_ex(s, c, 0);
        }
    }
    return s;
}
static void stanza_text(char **argv, char *out, size_t cap)
{
    char buf[256], *p, *q;
    size_t n = 0;
    int pns = strcmp(argv[2], "-") != 0;
    n += (size_t)snprintf(out + n, cap - n, "<%s", argv[1]);
    if (pns) n += (size_t)snprintf(out + n, cap - n, " xmlns='%s'", argv[2]);
    if (strcmp(argv[3], "-")) n += (size_t)snprintf(out + n, cap - n, " type='%s'", argv[3]);
    if (strcmp(argv[4], "-")) n += (size_t)snprintf(out + n, cap - n, " id='%s'", argv[4]);
    n += (size_t)snprintf(out + n, cap - n, ">");
    if (strcmp(argv[5], "-")) {
        strcpy(buf, argv[5]);
        for (p = buf; p && *p; p = q) {
            q = strchr(p, ',');
            if (q) *q++ = 0;
            if (!strcmp(p, "T")) n += (size_t)snprintf(out + n, cap - n, "txt");
            else if (!strcmp(p, "~")) n += (size_t)snprintf(out + n, cap - n, pns ? "<c xmlns=''/>" : "<c/>");
            else n += (size_t)snprintf(out + n, cap - n, "<c xmlns='%s'/>", p);
        }
    }
    snprintf(out + n, cap - n, "</%s>", argv[1]);
}

/* ---- scenario ---- */
static void begin(void)
{
    now_ms = 1000000;
    select_mode = 0;
    ninvocations = 0;
    tlen = 0; trace[0] = 0;
    memset(behs, 0, sizeof(behs));
    memset(defs, 0, sizeof(defs));
    ctx = xmpp_ctx_new(&vh_mem, NULL);
    conn = xmpp_conn_new(ctx);
    conn->sm_state = strophe_alloc(ctx, sizeof(*conn->sm_state));
    memset(conn->sm_state, 0, sizeof(*conn->sm_state));
    conn->sm_state->ctx = ctx;
    conn->intf = sock_intf;
    conn->intf.conn = conn;
    conn->conn_handler = conn_cb;
    conn->open_handler = auth_handle_open_raw;
    conn->is_raw = 1; /* as xmpp_connect_raw would: every stream start reports CONNECT */
    conn->state = XMPP_STATE_CONNECTED;
    conn->sock = 5;
    conn->connect_timeout = 0xffffffffu;
    conn->stream_negotiation_completed = 1;
}
static void finish(void)
{
    dump();
    conn->state = XMPP_STATE_DISCONNECTED;
    conn->sock = -1;
    xmpp_conn_release(conn);
    /* xmpp_ctx_free does not free context-wide timed handlers (a C12 matter); drop them here */
    { int i; for (i = 0; i < NGCB; i++) xmpp_global_timed_handler_delete(ctx, g_fn[i]); }
    xmpp_ctx_free(ctx);
    if (vh_live != 0) tr("LEAK=%ld ", vh_live);
    vh_live = 0;
}

static void command(char *cmd)
{
    char *argv[12];
    int argc = 0;
    char *p = cmd;
    while (*p == ' ') p++;
    while (*p && argc < 12) {
        argv[argc++] = p;
        p = strchr(p, ' ');
        if (!p) break;
        *p++ = 0;
        while (*p == ' ') p++;
    }
    if (argc == 0) return;
    if (!strcmp(argv[0], "beh") && argc >= 4) {
        int cb = atoi(argv[1]), ud = atoi(argv[2]), fam = cb >= 200 ? 2 : cb >= 100 ? 1 : 0;
        struct beh *b = &behs[fam][cb % 100][ud];
        char *e = argv[3], *n;
        b->n = 0; b->calls = 0;
        for (; e && *e && b->n < MAXENT; e = n) {
            n = strchr(e, '/');
            if (n) *n++ = 0;
            b->e[b->n].ret = e[0] == '1';
            b->e[b->n].acts[0] = 0;
            if (e[1] == ':') strncpy(b->e[b->n].acts, e + 2, sizeof(b->e[0].acts) - 1);
            b->n++;
        }
    } else if (!strcmp(argv[0], "def") && argc >= 6) {
        struct def *d = &defs[atoi(argv[1])];
        memset(d, 0, sizeof(*d));
        d->used = 1; d->kind = argv[2][0];
        if (d->kind == 's' && argc >= 9) {
            d->has_ns = strcmp(argv[3], "-") != 0; strcpy(d->ns, argv[3]);
            d->has_name = strcmp(argv[4], "-") != 0; strcpy(d->name, argv[4]);
            d->has_type = strcmp(argv[5], "-") != 0; strcpy(d->type, argv[5]);
            d->cb = atoi(argv[6]); d->ud = atoi(argv[7]); d->user = argv[8][0] == 'u';
        } else if (d->kind == 'i' && argc >= 7) {
            strcpy(d->id, argv[3]); d->cb = atoi(argv[4]); d->ud = atoi(argv[5]); d->user = argv[6][0] == 'u';
        } else if (d->kind == 't' && argc >= 7) {
            d->period = strtoul(argv[3], NULL, 10); d->cb = atoi(argv[4]); d->ud = atoi(argv[5]); d->user = argv[6][0] == 'u';
        } else if (d->kind == 'g') {
            d->period = strtoul(argv[3], NULL, 10); d->cb = atoi(argv[4]); d->ud = atoi(argv[5]); d->user = 1;
        } else d->used = 0;
    } else if (!strcmp(argv[0], "add") && argc >= 2) do_register(atoi(argv[1]));
    else if (!strcmp(argv[0], "dels") && argc >= 2) xmpp_handler_delete(conn, s_fn[atoi(argv[1])]);
    else if (!strcmp(argv[0], "deli") && argc >= 3) xmpp_id_handler_delete(conn, s_fn[atoi(argv[1])], argv[2]);
    else if (!strcmp(argv[0], "delt") && argc >= 2) xmpp_timed_handler_delete(conn, t_fn[atoi(argv[1]) - 100]);
    else if (!strcmp(argv[0], "delg") && argc >= 2) xmpp_global_timed_handler_delete(ctx, g_fn[atoi(argv[1]) - 200]);
    else if (!strcmp(argv[0], "neg") && argc >= 2) conn->stream_negotiation_completed = atoi(argv[1]);
    else if (!strcmp(argv[0], "state") && argc >= 2) {
        conn->state = argv[1][0] == 'c' ? XMPP_STATE_CONNECTED : argv[1][0] == 'g' ? XMPP_STATE_CONNECTING : XMPP_STATE_DISCONNECTED;
        conn->timeout_stamp = now_ms;
    } else if (!strcmp(argv[0], "clock") && argc >= 2) now_ms += strtoull(argv[1], NULL, 10);
    else if (!strcmp(argv[0], "reset") && argc >= 2) handler_reset_timed(conn, atoi(argv[1]));
    else if (!strcmp(argv[0], "sysdel")) handler_system_delete_all(conn);
    else if (!strcmp(argv[0], "dump")) dump();
    else if (!strcmp(argv[0], "fire")) handler_fire_timed(ctx);
    else if (!strcmp(argv[0], "run")) { select_mode = 0; xmpp_run_once(ctx, 0); tr("| "); }
    else if (!strcmp(argv[0], "run2")) { select_mode = 1; xmpp_run_once(ctx, 0); tr("| "); }
    else if (!strcmp(argv[0], "open")) {
        static const char hdr[] = "<stream:stream xmlns:stream='http://etherx.jabber.org/streams' version='1.0'>";
        parser_reset(conn->parser);
        if (!parser_feed(conn->parser, (char *)hdr, (int)strlen(hdr))) tr("PARSEERR ");
    } else if (!strcmp(argv[0], "st") && argc >= 6) {
        xmpp_stanza_t *s = build_stanza(argv);
        handler_fire_stanza(conn, s);
        xmpp_stanza_release(s);
        tr("| ");
    } else if (!strcmp(argv[0], "fst") && argc >= 6) {
        char text[1024];
        stanza_text(argv, text, sizeof(text));
        if (!parser_feed(conn->parser, text, (int)strlen(text))) tr("PARSEERR ");
        tr("| ");
    } else tr("?%s ", argv[0]);
}

int main(void)
{
    char *line;
    while ((line = vh_getline())) {
        char *p = line, *q;
        if (!*line) { puts(""); fflush(stdout); continue; }
        begin();
        for (; p && *p; p = q) {
            q = strchr(p, ';');
            if (q) *q++ = 0;
            command(p);
        }
        finish();
        while (tlen && trace[tlen - 1] == ' ') trace[--tlen] = 0;
        puts(trace);
        fflush(stdout);
    }
    return 0;
}
